(* Proofs_Locator.v — lemmas about Model_Locator (property C11).
   Style: stdlib only. *)
From Goloop Require Import lib.Bytes Model_Locator.
From Coq Require Import ZifyBool ZifyN ZifyNat.
Open Scope Z_scope.

(* ------------------------------------------------------------------ *)
(* A. small facts                                                      *)
(* ------------------------------------------------------------------ *)

Lemma mem_In x l : mem x l = true <-> In x l.
Proof.
  unfold mem. rewrite existsb_exists. split.
  - intros [y [Hy He]]. apply N.eqb_eq in He. now subst.
  - intro H. exists x. split; [assumption|apply N.eqb_refl].
Qed.

Lemma mem_false x l : mem x l = false <-> ~ In x l.
Proof.
  rewrite <- mem_In. destruct (mem x l); split; intro H; congruence.
Qed.

Lemma In_remove_all x xs l : In x (remove_all xs l) <-> In x l /\ ~ In x xs.
Proof.
  unfold remove_all. rewrite filter_In. rewrite negb_true_iff, mem_false. tauto.
Qed.

Lemma NoDup_app_intro {A} (a b : list A) :
  NoDup a -> NoDup b -> (forall x, In x a -> ~ In x b) -> NoDup (a ++ b).
Proof.
  induction a as [|x a IH]; cbn; intros Ha Hb Hd; [assumption|].
  inversion Ha; subst. constructor.
  - rewrite in_app_iff. intros [H|H]; [tauto|]. apply (Hd x); auto.
  - apply IH; auto.
Qed.

Lemma NoDup_snoc {A} (a : list A) x : NoDup a -> ~ In x a -> NoDup (a ++ [x]).
Proof.
  intros Ha Hx. apply NoDup_app_intro; auto.
  - constructor; [intros []|constructor].
  - intros y Hy [<-|[]]. contradiction.
Qed.

(* ------------------------------------------------------------------ *)
(* F. the window check                                                 *)
(* ------------------------------------------------------------------ *)

Lemma window_iff bts th ts : range_check bts th ts = 0%N <-> in_window bts th ts.
Proof.
  unfold range_check, check_ts, in_window.
  destruct (ts <=? bts - th) eqn:E1; [split; [discriminate|lia]|].
  destruct (ts >? bts + th) eqn:E2; [split; [discriminate|lia]|].
  split; [lia|reflexivity].
Qed.

Lemma window_classes bts th ts :
  (range_check bts th ts = 1%N <-> ts <= bts - th) /\
  (range_check bts th ts = 2%N <-> (bts - th < ts /\ bts + th < ts)).
Proof.
  unfold range_check, check_ts.
  destruct (ts <=? bts - th) eqn:E1; destruct (ts >? bts + th) eqn:E2;
    split; split; intro H; try discriminate; try reflexivity; try lia.
Qed.

(* ------------------------------------------------------------------ *)
(* B. the manager                                                      *)
(* ------------------------------------------------------------------ *)

Definition sound_variant (v : variant) : Prop := v = VCode \/ v = VStrict.

Lemma sound_early v : sound_variant v -> early_false v = false.
Proof. intros [->| ->]; reflexivity. Qed.

Lemma sound_skip v l ts : sound_variant v -> db_skip v l ts = true -> l < ts.
Proof. intros [->| ->]; unfold db_skip; lia. Qed.

(* The invariants are developed once, with a flag `rst`: rst = false is the
   development without restarts of the node (the statements used by C37 and
   by the first theorems of C11, re-exported with their old names after the
   modules); rst = true admits the operation ORestart. *)
Module RInv.
Section Inv.
Variable tsof : N -> Z.
Variable gof : N -> bool.
Variable v : variant.
Hypothesis Hv : sound_variant v.
Variable rst : bool.

(* what the manager knows about an id that was committed: it is in the database and
   (it is in m.locators, or its timestamp is below maxTSInDB, or — only after a
   restart — maxTSInDB is still unknown and every cached list has a larger bound) *)
Definition minv (m : manager) (X : N) : Prop :=
  In X (m_db m) /\
  (In X (m_locs m) \/ tsof X <= c_max (cache_of m (gof X)) \/
   (rst = true /\ c_max (cache_of m (gof X)) = 0 /\
    forall P, In P (c_lists (cache_of m (gof X))) -> l_ts P <> 0 -> tsof X <= l_ts P + l_th P)).

Definition list_ok (g : bool) (P : txlist) : Prop :=
  forall Y, In Y (l_ids P) -> tsof Y <= l_ts P + l_th P /\ gof Y = g /\ l_ts P <> 0.

Definition cinv (m : manager) : Prop :=
  forall g P, In P (c_lists (cache_of m g)) -> list_ok g P.

Definition mxinv (m : manager) : Prop := forall g, 0 <= c_max (cache_of m g).

(* the bound of a list that is (or will be) committed covers the ids the manager
   can only find in the database while maxTSInDB is unknown *)
Definition preok (m : manager) (g : bool) (bound : Z) : Prop :=
  forall X, In X (m_db m) -> gof X = g -> ~ In X (m_locs m) ->
            c_max (cache_of m g) = 0 -> 0 < tsof X -> tsof X <= bound.

Lemma manager_has_true m g X :
  minv m X -> gof X = g -> manager_has_v v m g X (tsof X) = true.
Proof.
  intros [Hdb Hl] Hg. unfold manager_has_v.
  destruct (mem X (m_locs m)) eqn:E; [reflexivity|].
  apply mem_false in E. subst g. destruct Hl as [Hl|[Hl|(_ & H0 & _)]]; [contradiction| |].
  - destruct (db_skip v (c_max (cache_of m (gof X))) (tsof X)) eqn:E2.
    + apply sound_skip in E2; [|exact Hv]. lia.
    + now apply mem_In.
  - rewrite H0. assert (E0 : db_skip v 0 (tsof X) = false) by (destruct v; reflexivity).
    rewrite E0. now apply mem_In.
Qed.

(* the eviction loop: an id leaves m.locators only under a bound >= its timestamp;
   maxTSInDB stays, or becomes the bound of an evicted list *)
Lemma evict_spec g listMin ls : forall locs mx ls' locs' mx',
  (forall P, In P ls -> list_ok g P) ->
  evict listMin ls locs mx = (ls', locs', mx') ->
  mx <= mx' /\
  (forall P, In P ls' -> In P ls) /\
  (forall X, In X locs' -> In X locs) /\
  (forall X, In X locs -> In X locs' \/ (gof X = g /\ tsof X <= mx')) /\
  (mx' = mx \/ exists P, In P ls /\ l_ts P <> 0 /\ mx' = l_ts P + l_th P).
Proof.
  induction ls as [|p rest IH]; cbn [evict]; intros locs mx ls' locs' mx' Hok E.
  - inversion E; subst. repeat split; auto; lia.
  - destruct (l_ts p + l_th p >? listMin) eqn:Eg.
    + inversion E; subst. repeat split; auto; lia.
    + apply IH in E; [|intros P HP; apply Hok; now right].
      destruct E as (Hmx & Hls & Hsub & Hkeep & Hwho).
      assert (Hmx0 : mx <= mx') by
        (destruct (negb (l_ts p =? 0) && (mx <? l_ts p + l_th p)) eqn:Eu; lia).
      split; [exact Hmx0|]. split; [|split; [|split]].
      * intros P HP. right. now apply Hls.
      * intros X HX. apply Hsub in HX. apply In_remove_all in HX. tauto.
      * intros X HX.
        destruct (mem X (l_ids p)) eqn:Em.
        -- apply mem_In in Em. right.
           destruct (Hok p (or_introl eq_refl) X Em) as (Hts & Hg & Hz).
           split; [assumption|].
           destruct (negb (l_ts p =? 0) && (mx <? l_ts p + l_th p)) eqn:Eu; lia.
        -- apply mem_false in Em. apply Hkeep. apply In_remove_all. tauto.
      * destruct Hwho as [Hw|(P & HP & Hz & Hw)].
        -- destruct (negb (l_ts p =? 0) && (mx <? l_ts p + l_th p)) eqn:Eu.
           ++ right. exists p. split; [now left|]. split; [lia|exact Hw].
           ++ now left.
        -- right. exists P. split; [now right|]. now split.
Qed.

Lemma cache_of_set_same m g c : cache_of (set_cache m g c) g = c.
Proof. destruct g; reflexivity. Qed.
Lemma cache_of_set_other m g c : cache_of (set_cache m g c) (negb g) = cache_of m (negb g).
Proof. destruct g; reflexivity. Qed.
Lemma locs_set m g c : m_locs (set_cache m g c) = m_locs m.
Proof. destruct g; reflexivity. Qed.
Lemma db_set m g c : m_db (set_cache m g c) = m_db m.
Proof. destruct g; reflexivity. Qed.

Lemma cache_of_blank m over g :
  cache_of {| m_locs := m_locs m; m_cp := blank_cache over (m_cp m);
              m_cn := blank_cache over (m_cn m); m_db := m_db m |} g
  = blank_cache over (cache_of m g).
Proof. destruct g; reflexivity. Qed.

Lemma blank_ok g over P : list_ok g P -> list_ok g (blank_list over P).
Proof.
  intros H Y HY. cbn in HY. apply In_remove_all in HY. destruct HY as [HY _].
  apply H in HY. exact HY.
Qed.

(* one commitTracker + flush *)
Lemma commit_list_inv m L :
  cinv m -> mxinv m -> list_ok (l_grp L) L ->
  (rst = true -> preok m (l_grp L) (l_ts L + l_th L)) ->
  let m' := commit_list m L in
  cinv m' /\ mxinv m' /\ (forall X, minv m X -> minv m' X) /\
  (forall Y, In Y (l_ids L) -> minv m' Y) /\
  (forall g bound, preok m g bound -> preok m' g bound).
Proof.
  intros Hc Hmxi HL Hpre. unfold commit_list, add_list_and_clear_old.
  set (over := filter (fun k => mem k (m_locs m)) (l_ids L)).
  set (locs1 := m_locs m ++ filter (fun k => negb (mem k (m_locs m))) (l_ids L)).
  set (m1 := {| m_locs := locs1; m_cp := blank_cache over (m_cp m);
                m_cn := blank_cache over (m_cn m); m_db := m_db m ++ l_ids L |}).
  assert (Hc1 : forall g, cache_of m1 g = blank_cache over (cache_of m g)) by (destruct g; reflexivity).
  set (g := l_grp L).
  destruct (evict (l_ts L - l_th L) (c_lists (cache_of m1 g)) (m_locs m1) (c_max (cache_of m1 g)))
    as [[ls locs'] mx] eqn:E.
  assert (Hok1 : forall P, In P (c_lists (cache_of m1 g)) -> list_ok g P).
  { intros P HP. rewrite Hc1 in HP. cbn in HP. apply in_map_iff in HP.
    destruct HP as [P0 [<- HP0]]. apply blank_ok. now apply Hc. }
  destruct (evict_spec g _ _ _ _ _ _ _ Hok1 E) as (Hmx & Hls & Hsub & Hkeep & Hwho).
  cbn [m_locs m_cp m_cn m_db m1] in *.
  set (mm := {| m_locs := locs'; m_cp := blank_cache over (m_cp m);
                m_cn := blank_cache over (m_cn m); m_db := m_db m ++ l_ids L |}).
  set (cnew := {| c_lists := ls ++ [L]; c_max := mx |}).
  assert (Hcache : forall g', cache_of (set_cache mm g cnew) g' =
                              if Bool.eqb g' g then cnew else blank_cache over (cache_of m g')).
  { intros g'. destruct g, g'; reflexivity. }
  rewrite Hc1 in Hmx, Hwho, Hls. cbn [blank_cache c_max c_lists] in Hmx, Hwho, Hls.
  assert (Hmaxmono : forall g', c_max (cache_of m g') <= c_max (cache_of (set_cache mm g cnew) g')).
  { intros g'. rewrite Hcache. destruct (Bool.eqb g' g) eqn:Eb.
    - apply Bool.eqb_prop in Eb. subst g'. cbn. exact Hmx.
    - cbn. lia. }
  (* an id in locs1 stays, or is bounded *)
  assert (Hstay : forall X, In X locs1 ->
            In X locs' \/ tsof X <= c_max (cache_of (set_cache mm g cnew) (gof X))).
  { intros X HX. destruct (Hkeep X HX) as [H|[Hg Hts]]; [now left|right].
    rewrite Hcache, Hg, Bool.eqb_reflx. cbn. exact Hts. }
  (* a blanked list has the timestamp and threshold of a list of the old cache *)
  assert (Hblank : forall g' P, In P (map (blank_list over) (c_lists (cache_of m g'))) ->
            exists P0, In P0 (c_lists (cache_of m g')) /\ l_ts P = l_ts P0 /\ l_th P = l_th P0).
  { intros g' P HP. apply in_map_iff in HP. destruct HP as [P0 [<- HP0]]. exists P0. now repeat split. }
  assert (Hmx' : mxinv (set_cache mm g cnew)).
  { intros g'. specialize (Hmaxmono g'). specialize (Hmxi g'). lia. }
  split; [|split; [exact Hmx'|split; [|split]]].
  - (* cinv *)
    intros g' P HP. rewrite Hcache in HP. destruct (Bool.eqb g' g) eqn:Eb.
    + apply Bool.eqb_prop in Eb. subst g'. cbn in HP. apply in_app_iff in HP.
      destruct HP as [HP|[<-|[]]]; [|exact HL].
      apply Hok1. rewrite Hc1. cbn. now apply Hls.
    + cbn in HP. apply in_map_iff in HP. destruct HP as [P0 [<- HP0]].
      apply blank_ok. now apply Hc.
  - (* monotone *)
    intros X [Hdb Hl]. split.
    + rewrite db_set. cbn. apply in_app_iff. now left.
    + rewrite locs_set. cbn.
      destruct (mem X (m_locs m)) eqn:EmX.
      { apply mem_In in EmX.
        destruct (Hstay X) as [H|H]; [unfold locs1; apply in_app_iff; now left|now left|right; now left]. }
      apply mem_false in EmX.
      destruct Hl as [Hl|[Hl|(Hr & H0 & Hsafe)]]; [contradiction| |].
      * right. left. specialize (Hmaxmono (gof X)). lia.
      * destruct (Z_le_gt_dec (tsof X) 0) as [Hneg|Hpos].
        { right. left. specialize (Hmx' (gof X)). lia. }
        rewrite Hcache. destruct (Bool.eqb (gof X) g) eqn:Eb.
        -- apply Bool.eqb_prop in Eb. cbn [cnew c_max c_lists].
           rewrite Eb in H0, Hsafe.
           destruct Hwho as [Hw|(P & HP & Hz & Hw)].
           ++ right. right. split; [exact Hr|]. split; [lia|].
              intros P HP Hz. apply in_app_iff in HP. destruct HP as [HP|[<-|[]]].
              ** apply Hls in HP. destruct (Hblank g P HP) as (P0 & HP0 & Ets & Eth).
                 rewrite Ets, Eth. apply Hsafe; [exact HP0|congruence].
              ** apply (Hpre Hr X Hdb Eb EmX H0). lia.
           ++ right. left. destruct (Hblank g P HP) as (P0 & HP0 & Ets & Eth).
              rewrite Hw, Ets, Eth. apply Hsafe; [exact HP0|congruence].
        -- right. right. split; [exact Hr|]. cbn [blank_cache c_max c_lists]. split; [exact H0|].
           intros P HP Hz. destruct (Hblank (gof X) P HP) as (P0 & HP0 & Ets & Eth).
           rewrite Ets, Eth. apply Hsafe; [exact HP0|congruence].
  - (* the ids of L *)
    intros Y HY. split.
    + rewrite db_set. cbn. apply in_app_iff. now right.
    + rewrite locs_set. cbn.
      destruct (Hstay Y) as [H|H]; [|now left|right; now left].
      unfold locs1. apply in_app_iff.
      destruct (mem Y (m_locs m)) eqn:Em.
      * left. now apply mem_In.
      * right. apply filter_In. split; [assumption|]. now rewrite Em.
  - (* ids that can only be found in the database while maxTSInDB is unknown: no new ones *)
    intros g' bound Hp X Hdb Hg Hnl H0 Hpos.
    rewrite db_set in Hdb. rewrite locs_set in Hnl. cbn [mm m_db m_locs] in Hdb, Hnl.
    assert (Hold0 : c_max (cache_of m g') = 0).
    { specialize (Hmaxmono g'). specialize (Hmxi g'). lia. }
    assert (Hnl1 : ~ In X locs1).
    { intro HX. destruct (Hstay X HX) as [H|H]; [contradiction|]. rewrite Hg, H0 in H. lia. }
    apply (Hp X); auto.
    + apply in_app_iff in Hdb. destruct Hdb as [H|H]; [exact H|].
      exfalso. apply Hnl1. unfold locs1. apply in_app_iff.
      destruct (mem X (m_locs m)) eqn:Em; [left; now apply mem_In|].
      right. apply filter_In. split; [assumption|]. now rewrite Em.
    + intro HX. apply Hnl1. unfold locs1. apply in_app_iff. now left.
Qed.

Lemma commit_fold_inv js : forall m,
  cinv m -> mxinv m -> (forall L, In L js -> list_ok (l_grp L) L) ->
  (rst = true -> forall L, In L js -> preok m (l_grp L) (l_ts L + l_th L)) ->
  let m' := fold_left commit_list js m in
  cinv m' /\ mxinv m' /\ (forall X, minv m X -> minv m' X) /\
  (forall L Y, In L js -> In Y (l_ids L) -> minv m' Y) /\
  (forall g bound, preok m g bound -> preok m' g bound).
Proof.
  induction js as [|L js IH]; cbn [fold_left]; intros m Hc Hx Hok Hpre.
  - split; [exact Hc|split; [exact Hx|split; [auto|split; [|auto]]]]. intros L0 Y0 [].
  - destruct (commit_list_inv m L Hc Hx (Hok L (or_introl eq_refl))
                (fun Hr => Hpre Hr L (or_introl eq_refl))) as (Hc1 & Hx1 & Hm1 & Hl1 & Hp1).
    destruct (IH (commit_list m L) Hc1 Hx1 (fun L' H => Hok L' (or_intror H))
                (fun Hr L' H => Hp1 _ _ (Hpre Hr L' (or_intror H)))) as (Hc2 & Hx2 & Hm2 & Hl2 & Hp2).
    split; [exact Hc2|split; [exact Hx2|split; [|split]]].
    + intros X HX. apply Hm2. now apply Hm1.
    + intros L' Y [<-|HL'] HY; [apply Hm2; now apply Hl1|now apply (Hl2 L')].
    + intros g bound H. apply Hp2. now apply Hp1.
Qed.

End Inv.
End RInv.

(* ------------------------------------------------------------------ *)
(* C. the tracker store                                                *)
(* ------------------------------------------------------------------ *)

Lemma get_lt l : forall k tk, get l k = Some tk -> (k < length l)%nat.
Proof.
  induction l as [|t0 rest IH]; cbn; intros k tk H; [discriminate|].
  destruct (Nat.eqb_spec k (length rest)); [lia|]. apply IH in H. lia.
Qed.

Lemma get_In l : forall k tk, get l k = Some tk -> In tk l.
Proof.
  induction l as [|t0 rest IH]; cbn; intros k tk H; [discriminate|].
  destruct (Nat.eqb_spec k (length rest)); [inversion H; now left|right; eauto].
Qed.

Lemma get_some l : forall k, (k < length l)%nat -> exists tk, get l k = Some tk.
Proof.
  induction l as [|t0 rest IH]; cbn; intros k H; [lia|].
  destruct (Nat.eqb_spec k (length rest)); [eauto|]. apply IH. lia.
Qed.

Lemma get_cons_ne t0 l k : k <> length l -> get (t0 :: l) k = get l k.
Proof. intro H. cbn. destruct (Nat.eqb_spec k (length l)); congruence. Qed.

Lemma get_cons_eq t0 l : get (t0 :: l) (length l) = Some t0.
Proof. cbn. now rewrite Nat.eqb_refl. Qed.

Lemma upd_length l k f : length (upd l k f) = length l.
Proof.
  induction l as [|t0 rest IH]; cbn; [reflexivity|].
  destruct (Nat.eqb k (length rest)); cbn; congruence.
Qed.

Lemma get_upd l t f : forall k,
  get (upd l t f) k = if Nat.eqb k t then option_map f (get l k) else get l k.
Proof.
  induction l as [|t0 rest IH]; intros k; cbn.
  - now destruct (Nat.eqb k t).
  - destruct (Nat.eqb_spec t (length rest)) as [->|Hne]; cbn.
    + destruct (Nat.eqb_spec k (length rest)); reflexivity.
    + rewrite upd_length. destruct (Nat.eqb_spec k (length rest)) as [->|Hk].
      * destruct (Nat.eqb_spec (length rest) t); [congruence|reflexivity].
      * apply IH.
Qed.

Lemma chain_cons_ne t0 l cur :
  (forall p, cur = Some p -> p <> length l) -> chain_from (t0 :: l) cur = chain_from l cur.
Proof.
  destruct cur as [p|]; intro H; cbn; [|now destruct l].
  destruct (Nat.eqb_spec p (length l)); [exfalso; now apply (H p)|reflexivity].
Qed.

Lemma chain_none l : forall k, get l k = None -> chain_from l (Some k) = [].
Proof.
  induction l as [|t0 rest IH]; cbn; intros k H; [reflexivity|].
  destruct (Nat.eqb_spec k (length rest)); [discriminate|auto].
Qed.

Lemma chain_unfold l : forall k tk,
  get l k = Some tk -> (forall p, t_gparent tk = Some p -> (p < k)%nat) ->
  chain_from l (Some k) = t_ids tk ++ chain_from l (t_gparent tk).
Proof.
  induction l as [|t0 rest IH]; intros k tk H Hb; [discriminate|].
  cbn in H. cbn [chain_from]. destruct (Nat.eqb_spec k (length rest)) as [->|Hne].
  - assert (t0 = tk) by congruence. subst t0. f_equal. symmetry. apply chain_cons_ne.
    intros p Hp. apply Hb in Hp. lia.
  - rewrite (IH k tk H Hb). f_equal. symmetry. apply chain_cons_ne.
    intros p Hp. apply Hb in Hp. apply get_lt in H. lia.
Qed.

Lemma has_cons_ne v m t0 l cur g id ts :
  (forall p, cur = Some p -> p <> length l) ->
  has_from v m (t0 :: l) cur g id ts = has_from v m l cur g id ts.
Proof.
  destruct cur as [p|]; intro H; cbn; [|now destruct l].
  destruct (Nat.eqb_spec p (length l)); [exfalso; now apply (H p)|reflexivity].
Qed.

Lemma has_none v m l : forall k g id ts, get l k = None -> has_from v m l (Some k) g id ts = None.
Proof.
  induction l as [|t0 rest IH]; cbn; intros k g id ts H; [reflexivity|].
  destruct (Nat.eqb_spec k (length rest)); [discriminate|auto].
Qed.

Lemma has_unfold v m l : forall k tk g id ts,
  get l k = Some tk -> (forall p, t_parent tk = Some p -> (p < k)%nat) ->
  has_from v m l (Some k) g id ts =
    if skip_own v ts (t_ts tk + t_th tk) then
      if early_false v then Some false
      else has_from v m l (t_parent tk) (t_grp tk) id ts
    else if t_open tk && mem id (t_ids tk) then Some true
    else has_from v m l (t_parent tk) (t_grp tk) id ts.
Proof.
  induction l as [|t0 rest IH]; intros k tk g id ts H Hb; [discriminate|].
  assert (Hp : has_from v m (t0 :: rest) (t_parent tk) (t_grp tk) id ts
               = has_from v m rest (t_parent tk) (t_grp tk) id ts).
  { apply has_cons_ne. intros p Hp. apply Hb in Hp. apply get_lt in H. cbn in H. lia. }
  rewrite Hp. clear Hp.
  cbn in H. cbn [has_from]. destruct (Nat.eqb_spec k (length rest)) as [->|Hne].
  - assert (t0 = tk) by congruence. subst t0. reflexivity.
  - apply (IH k tk g id ts H Hb).
Qed.

(* the ids of the closed (committed) trackers along the chain *)
Fixpoint cchain_from (l : list tracker) (cur : option nat) : list N :=
  match cur with
  | None => []
  | Some k =>
      match l with
      | [] => []
      | tk :: rest =>
          if Nat.eqb k (length rest)
          then (if t_open tk then [] else t_ids tk) ++ cchain_from rest (t_gparent tk)
          else cchain_from rest cur
      end
  end.

Lemma cchain_cons_ne t0 l cur :
  (forall p, cur = Some p -> p <> length l) -> cchain_from (t0 :: l) cur = cchain_from l cur.
Proof.
  destruct cur as [p|]; intro H; cbn; [|now destruct l].
  destruct (Nat.eqb_spec p (length l)); [exfalso; now apply (H p)|reflexivity].
Qed.

Lemma cchain_none l : forall k, get l k = None -> cchain_from l (Some k) = [].
Proof.
  induction l as [|t0 rest IH]; cbn; intros k H; [reflexivity|].
  destruct (Nat.eqb_spec k (length rest)); [discriminate|auto].
Qed.

Lemma cchain_unfold l : forall k tk,
  get l k = Some tk -> (forall p, t_gparent tk = Some p -> (p < k)%nat) ->
  cchain_from l (Some k) = (if t_open tk then [] else t_ids tk) ++ cchain_from l (t_gparent tk).
Proof.
  induction l as [|t0 rest IH]; intros k tk H Hb; [discriminate|].
  cbn in H. cbn [cchain_from]. destruct (Nat.eqb_spec k (length rest)) as [->|Hne].
  - assert (t0 = tk) by congruence. subst t0. f_equal. symmetry. apply cchain_cons_ne.
    intros p Hp. apply Hb in Hp. lia.
  - rewrite (IH k tk H Hb). f_equal. symmetry. apply cchain_cons_ne.
    intros p Hp. apply Hb in Hp. apply get_lt in H. lia.
Qed.

Lemma cchain_sub l : forall cur X, In X (cchain_from l cur) -> In X (chain_from l cur).
Proof.
  induction l as [|t0 rest IH]; intros [k|] X H; cbn in *; try contradiction.
  destruct (Nat.eqb k (length rest)); [|auto].
  apply in_app_iff in H. apply in_app_iff. destruct H as [H|H]; [left|right; auto].
  destruct (t_open t0); [destruct H|assumption].
Qed.


(* no tracker was created from t *)
Definition leaf (l : list tracker) (t : nat) : Prop :=
  forall tk, In tk l -> t_gparent tk <> Some t.

Lemma chain_upd_leaf l t f : leaf l t -> forall cur, cur <> Some t ->
  chain_from (upd l t f) cur = chain_from l cur.
Proof.
  induction l as [|t0 rest IH]; intros Hl cur Hc; [reflexivity|].
  assert (Hl' : leaf rest t) by (intros x Hx; apply Hl; now right).
  destruct cur as [c|]; [|cbn; now destruct (Nat.eqb t (length rest))].
  cbn [upd]. destruct (Nat.eqb_spec t (length rest)) as [Ht|Ht].
  - cbn [chain_from]. destruct (Nat.eqb_spec c (length rest)); [congruence|reflexivity].
  - cbn [chain_from]. rewrite upd_length.
    destruct (Nat.eqb_spec c (length rest)).
    + f_equal. apply IH; [assumption|]. apply Hl. now left.
    + apply IH; assumption.
Qed.

(* --- Commit --- *)

Fixpoint on_path (l : list tracker) (cur : option nat) (k : nat) : bool :=
  match cur with
  | None => false
  | Some c =>
      match l with
      | [] => false
      | tk :: rest =>
          if Nat.eqb c (length rest) then Nat.eqb k c || on_path rest (t_parent tk) k
          else on_path rest cur k
      end
  end.

Lemma cw_length l : forall cur, length (fst (commit_walk l cur)) = length l.
Proof.
  induction l as [|t0 rest IH]; intros [c|]; cbn; try reflexivity.
  destruct (Nat.eqb c (length rest)).
  - specialize (IH (t_parent t0)). destruct (commit_walk rest (t_parent t0)). cbn in *. congruence.
  - specialize (IH (Some c)). destruct (commit_walk rest (Some c)). cbn in *. congruence.
Qed.

Lemma on_path_lt l : forall cur k, on_path l cur k = true -> (k < length l)%nat.
Proof.
  induction l as [|t0 rest IH]; intros [c|] k; cbn; try discriminate.
  destruct (Nat.eqb_spec c (length rest)).
  - intro H. apply orb_true_iff in H. destruct H as [H|H].
    + apply Nat.eqb_eq in H. lia.
    + apply IH in H. lia.
  - intro H. apply IH in H. lia.
Qed.

Lemma cw_get l : forall cur k,
  get (fst (commit_walk l cur)) k =
  option_map (fun tk => if on_path l cur k then close tk else tk) (get l k).
Proof.
  induction l as [|t0 rest IH]; intros cur k.
  { destruct cur; reflexivity. }
  destruct cur as [c|].
  2:{ cbn [commit_walk on_path fst]. now destruct (get (t0 :: rest) k). }
  cbn [commit_walk on_path].
  destruct (Nat.eqb_spec c (length rest)) as [->|Hc].
  - pose proof (IH (t_parent t0) k) as IHk. pose proof (cw_length rest (t_parent t0)) as Hlen.
    destruct (commit_walk rest (t_parent t0)) as [rest' js]. cbn [fst] in *.
    cbn [get]. rewrite Hlen.
    destruct (Nat.eqb_spec k (length rest)) as [->|Hk]; [reflexivity|].
    rewrite IHk. cbn [orb]. reflexivity.
  - pose proof (IH (Some c) k) as IHk. pose proof (cw_length rest (Some c)) as Hlen.
    destruct (commit_walk rest (Some c)) as [rest' js]. cbn [fst] in *.
    cbn [get]. rewrite Hlen.
    destruct (Nat.eqb_spec k (length rest)) as [->|Hk].
    + cbn. destruct (on_path rest (Some c) (length rest)) eqn:E; [|reflexivity].
      apply on_path_lt in E. lia.
    + exact IHk.
Qed.

Lemma cw_chain l : forall c cur, chain_from (fst (commit_walk l c)) cur = chain_from l cur.
Proof.
  induction l as [|t0 rest IH]; intros c cur.
  { destruct c; reflexivity. }
  destruct c as [c|]; [|reflexivity].
  cbn [commit_walk].
  destruct (Nat.eqb c (length rest)).
  - pose proof (IH (t_parent t0)) as IHc. pose proof (cw_length rest (t_parent t0)) as Hlen.
    destruct (commit_walk rest (t_parent t0)) as [rest' js]. cbn [fst] in *.
    destruct cur as [k|]; [|reflexivity]. cbn [chain_from]. rewrite Hlen.
    destruct (Nat.eqb k (length rest)); cbn; now rewrite IHc.
  - pose proof (IH (Some c)) as IHc. pose proof (cw_length rest (Some c)) as Hlen.
    destruct (commit_walk rest (Some c)) as [rest' js]. cbn [fst] in *.
    destruct cur as [k|]; [|reflexivity]. cbn [chain_from]. rewrite Hlen.
    destruct (Nat.eqb k (length rest)); now rewrite IHc.
Qed.

Lemma on_path_start l : forall t tk, get l t = Some tk -> on_path l (Some t) t = true.
Proof.
  induction l as [|t0 rest IH]; intros t tk H; [discriminate|].
  cbn in *. destruct (Nat.eqb_spec t (length rest)).
  - now rewrite Nat.eqb_refl.
  - eauto.
Qed.

Lemma on_path_cons_ne t0 l cur k :
  (forall p, cur = Some p -> p <> length l) -> on_path (t0 :: l) cur k = on_path l cur k.
Proof.
  destruct cur as [p|]; intro H; cbn; [|now destruct l].
  destruct (Nat.eqb_spec p (length l)); [exfalso; now apply (H p)|reflexivity].
Qed.

(* the path follows parent pointers *)
Lemma on_path_parent l : forall cur k tk p,
  on_path l cur k = true -> get l k = Some tk -> t_parent tk = Some p -> (p < k)%nat ->
  on_path l cur p = true.
Proof.
  induction l as [|t0 rest IH]; intros cur k tk p Hon Hg Hp Hlt; [discriminate|].
  destruct cur as [c|]; [|discriminate]. cbn [on_path] in *. cbn [get] in Hg.
  destruct (Nat.eqb_spec c (length rest)) as [->|Hc].
  - apply orb_true_iff in Hon. apply orb_true_iff. destruct Hon as [Hon|Hon].
    + apply Nat.eqb_eq in Hon. subst k. rewrite Nat.eqb_refl in Hg.
      assert (t0 = tk) by congruence. subst t0. right. rewrite Hp.
      destruct (get_some rest p Hlt) as [tp Htp]. now apply (on_path_start rest p tp).
    + right. pose proof (on_path_lt _ _ _ Hon) as Hk.
      destruct (Nat.eqb_spec k (length rest)); [lia|]. now apply (IH _ k tk p).
  - pose proof (on_path_lt _ _ _ Hon) as Hk.
    destruct (Nat.eqb_spec k (length rest)); [lia|]. now apply (IH _ k tk p).
Qed.

Lemma cw_jobs_in l : forall cur k tk,
  on_path l cur k = true -> get l k = Some tk -> t_open tk = true ->
  In (list_of tk) (snd (commit_walk l cur)).
Proof.
  induction l as [|t0 rest IH]; intros cur k tk Hon Hg Ho; [discriminate|].
  destruct cur as [c|]; [|discriminate]. cbn [on_path commit_walk] in *. cbn [get] in Hg.
  destruct (Nat.eqb_spec c (length rest)) as [->|Hc].
  - pose proof (IH (t_parent t0) k tk) as IHk.
    destruct (commit_walk rest (t_parent t0)) as [rest' js]. cbn [snd] in *.
    apply orb_true_iff in Hon. destruct Hon as [Hon|Hon].
    + apply Nat.eqb_eq in Hon. subst k. rewrite Nat.eqb_refl in Hg.
      assert (t0 = tk) by congruence. subst t0. rewrite Ho. now left.
    + pose proof (on_path_lt _ _ _ Hon) as Hk.
      destruct (Nat.eqb_spec k (length rest)); [lia|].
      destruct (t_open t0); [right|]; now apply IHk.
  - pose proof (IH (Some c) k tk) as IHk.
    destruct (commit_walk rest (Some c)) as [rest' js]. cbn [snd] in *.
    pose proof (on_path_lt _ _ _ Hon) as Hk.
    destruct (Nat.eqb_spec k (length rest)); [lia|]. now apply IHk.
Qed.

Lemma cw_jobs_from l : forall cur L,
  In L (snd (commit_walk l cur)) ->
  exists k tk, get l k = Some tk /\ t_open tk = true /\ L = list_of tk.
Proof.
  induction l as [|t0 rest IH]; intros cur L H.
  { destruct cur; destruct H. }
  destruct cur as [c|]; [|destruct H]. cbn [commit_walk] in H.
  destruct (Nat.eqb_spec c (length rest)) as [->|Hc].
  - pose proof (IH (t_parent t0) L) as IHk.
    destruct (commit_walk rest (t_parent t0)) as [rest' js]. cbn [snd] in *.
    assert (Hin : (t_open t0 = true /\ L = list_of t0) \/ In L js)
      by (destruct (t_open t0); [destruct H; auto|auto]).
    destruct Hin as [[Ho ->]|Hin].
    + exists (length rest), t0. split; [apply get_cons_eq|now split].
    + destruct (IHk Hin) as (k & tk & Hg & Ho & ->). exists k, tk. split; [|now split].
      rewrite get_cons_ne; [assumption|]. apply get_lt in Hg. lia.
  - pose proof (IH (Some c) L) as IHk.
    destruct (commit_walk rest (Some c)) as [rest' js]. cbn [snd] in *.
    destruct (IHk H) as (k & tk & Hg & Ho & ->). exists k, tk. split; [|now split].
    rewrite get_cons_ne; [assumption|]. apply get_lt in Hg. lia.
Qed.

(* --- Restart --- *)

Lemma get_kill l : forall k, get (map kill l) k = option_map kill (get l k).
Proof.
  induction l as [|t0 rest IH]; intros k; cbn; [reflexivity|].
  rewrite map_length. destruct (Nat.eqb k (length rest)); [reflexivity|apply IH].
Qed.

Lemma kill_fields tk :
  t_grp (kill tk) = t_grp tk /\ t_ts (kill tk) = t_ts tk /\ t_th (kill tk) = t_th tk /\
  t_gparent (kill tk) = t_gparent tk /\ t_open (kill tk) = false /\
  (forall X, In X (t_ids (kill tk)) -> In X (t_ids tk) /\ t_open tk = false) /\
  (t_open tk = false -> kill tk = tk).
Proof.
  unfold kill. destruct (t_open tk) eqn:E; cbn; repeat split; auto; try contradiction; congruence.
Qed.

Lemma chain_kill_incl l : forall cur X,
  In X (chain_from (map kill l) cur) -> In X (chain_from l cur).
Proof.
  induction l as [|t0 rest IH]; intros [k|] X H; cbn in *; try contradiction.
  rewrite map_length in H. destruct (Nat.eqb k (length rest)); [|auto].
  destruct (kill_fields t0) as (_ & _ & _ & Eg & _ & Hi & _).
  apply in_app_iff in H. apply in_app_iff. destruct H as [H|H].
  - left. now apply Hi.
  - right. rewrite Eg in H. auto.
Qed.

Lemma NoDup_app_inv {A} (a b : list A) :
  NoDup (a ++ b) -> NoDup a /\ NoDup b /\ (forall x, In x a -> ~ In x b).
Proof.
  induction a as [|x a IH]; cbn; intro H.
  - repeat split; [constructor|assumption|intros ? []].
  - inversion H; subst. destruct (IH H3) as (Ha & Hb & Hd). repeat split; auto.
    + constructor; [|assumption]. intro Hx. apply H2. apply in_app_iff. now left.
    + intros y [<-|Hy] Hyb; [apply H2; apply in_app_iff; now right|now apply (Hd y)].
Qed.

Lemma chain_kill_nodup l : forall cur,
  NoDup (chain_from l cur) -> NoDup (chain_from (map kill l) cur).
Proof.
  induction l as [|t0 rest IH]; intros [k|] H; cbn in *; try constructor.
  rewrite map_length. destruct (Nat.eqb k (length rest)); [|auto].
  destruct (kill_fields t0) as (_ & _ & _ & Eg & _ & Hi & _).
  destruct (NoDup_app_inv _ _ H) as (Ha & Hb & Hd). rewrite Eg.
  apply NoDup_app_intro.
  - unfold kill. destruct (t_open t0); [constructor|assumption].
  - now apply IH.
  - intros X HX HXc. apply Hi in HX. apply chain_kill_incl in HXc. now apply (Hd X).
Qed.

(* ------------------------------------------------------------------ *)
(* D. the invariant                                                    *)
(* ------------------------------------------------------------------ *)

Module RHist.
Import RInv.
Section Hist.
Variable tsof : N -> Z.
Variable gof : N -> bool.
Variable v : variant.
Hypothesis Hv : sound_variant v.
(* full = true: the recorded timestamps also pass the guard of tracker.Has, and
   the invariant carries the absence of duplicates; full = false: only what is
   needed to find committed ids *)
Variable full : bool.
(* rst = true: ORestart may occur in the history *)
Variable rst : bool.

(* what validation guarantees about a recorded id, as far as the lookup needs it *)
Definition tx_ok (tk : tracker) (X : N) : Prop :=
  tsof X <= t_ts tk + t_th tk /\
  (full = true -> skip_own v (tsof X) (t_ts tk + t_th tk) = false) /\
  gof X = t_grp tk /\ t_ts tk <> 0.

Record ginv (l : list tracker) (m : manager) : Prop := {
  gi_bound : forall k tk p, get l k = Some tk -> t_gparent tk = Some p -> (p < k)%nat;
  gi_par : forall k tk p, get l k = Some tk -> t_parent tk = Some p -> t_gparent tk = Some p;
  gi_closed : forall k tk, get l k = Some tk -> t_open tk = false -> t_parent tk = None;
  gi_anc : forall k tk p tp, get l k = Some tk -> t_parent tk = None ->
             t_gparent tk = Some p -> get l p = Some tp -> t_open tp = false;
  gi_ok : forall k tk X, get l k = Some tk -> In X (t_ids tk) -> tx_ok tk X;
  gi_grp : forall k tk p tp, get l k = Some tk -> t_gparent tk = Some p ->
             get l p = Some tp -> t_grp tp = t_grp tk;
  gi_minv : forall k tk X, get l k = Some tk -> t_open tk = false -> In X (t_ids tk) ->
             minv tsof gof rst m X;
  gi_nodup : full = true -> forall k, NoDup (chain_from l (Some k));
  gi_cinv : cinv tsof gof m;
  gi_mx : mxinv m;
  gi_pre : rst = true -> forall k tk, get l k = Some tk -> t_open tk = true ->
             preok tsof gof m (t_grp tk) (t_ts tk + t_th tk) }.

Definition closed_at (l : list tracker) (gp : option nat) : Prop :=
  forall p tp, gp = Some p -> get l p = Some tp -> t_open tp = false.
Definition grp_at (l : list tracker) (gp : option nat) (g : bool) : Prop :=
  forall p tp, gp = Some p -> get l p = Some tp -> t_grp tp = g.

Lemma closed_chain l m : ginv l m -> forall n gp g X,
  (forall p, gp = Some p -> (p < n)%nat) -> closed_at l gp -> grp_at l gp g ->
  In X (chain_from l gp) -> minv tsof gof rst m X /\ gof X = g.
Proof.
  intros GI. induction n as [|n IH]; intros gp g X Hb Hc Hg HX.
  - destruct gp as [p|]; [specialize (Hb p eq_refl); lia|destruct l; destruct HX].
  - destruct gp as [k|]; [|destruct l; destruct HX].
    destruct (get l k) as [tk|] eqn:Ek; [|rewrite (chain_none l k Ek) in HX; destruct HX].
    pose proof (Hc k tk eq_refl Ek) as Hcl.
    pose proof (gi_closed _ _ GI k tk Ek Hcl) as Hpar.
    rewrite (chain_unfold l k tk Ek) in HX by (intros p Hp; exact (gi_bound _ _ GI k tk p Ek Hp)).
    apply in_app_iff in HX. destruct HX as [HX|HX].
    + split; [exact (gi_minv _ _ GI k tk X Ek Hcl HX)|].
      destruct (gi_ok _ _ GI k tk X Ek HX) as (_ & _ & Hgo & _).
      rewrite Hgo. exact (Hg k tk eq_refl Ek).
    + apply (IH (t_gparent tk) g X); [| | |exact HX].
      * intros p Hp. pose proof (gi_bound _ _ GI k tk p Ek Hp). specialize (Hb k eq_refl). lia.
      * intros p tp Hp Htp. exact (gi_anc _ _ GI k tk p tp Ek Hpar Hp Htp).
      * intros p tp Hp Htp. rewrite (gi_grp _ _ GI k tk p tp Ek Hp Htp). exact (Hg k tk eq_refl Ek).
Qed.

(* the lookup never answers "absent" for an id recorded on the chain *)
Lemma has_sound l m : full = true -> ginv l m -> forall n r gp g X,
  (forall p, gp = Some p -> (p < n)%nat) ->
  (r = gp \/ (r = None /\ closed_at l gp)) -> grp_at l gp g ->
  In X (chain_from l gp) -> has_from v m l r g X (tsof X) <> Some false.
Proof.
  intros Hfull GI. induction n as [|n IH]; intros r gp g X Hb Hl Hg HX.
  - destruct gp as [p|]; [specialize (Hb p eq_refl); lia|destruct l; destruct HX].
  - destruct Hl as [->|[-> Hc]].
    2:{ destruct (closed_chain l m GI (S n) gp g X Hb Hc Hg HX) as [Hm Hgo].
        assert (E : has_from v m l None g X (tsof X) = Some (manager_has_v v m g X (tsof X)))
          by (destruct l; reflexivity).
        rewrite E, (manager_has_true tsof gof v Hv rst m g X Hm Hgo). discriminate. }
    destruct gp as [k|]; [|destruct l; destruct HX].
    destruct (get l k) as [tk|] eqn:Ek; [|rewrite (chain_none l k Ek) in HX; destruct HX].
    assert (Hbk : forall p, t_gparent tk = Some p -> (p < k)%nat)
      by (intros p Hp; exact (gi_bound _ _ GI k tk p Ek Hp)).
    rewrite (has_unfold v m l k tk g X (tsof X) Ek)
      by (intros p Hp; apply Hbk; exact (gi_par _ _ GI k tk p Ek Hp)).
    rewrite (chain_unfold l k tk Ek Hbk) in HX.
    assert (Hup : In X (chain_from l (t_gparent tk)) ->
                  has_from v m l (t_parent tk) (t_grp tk) X (tsof X) <> Some false).
    { intro HX'. apply (IH (t_parent tk) (t_gparent tk) (t_grp tk) X); [| | |exact HX'].
      - intros p Hp. pose proof (Hbk p Hp). specialize (Hb k eq_refl). lia.
      - destruct (t_parent tk) as [q|] eqn:Eq.
        + left. symmetry. exact (gi_par _ _ GI k tk q Ek Eq).
        + right. split; [reflexivity|]. intros p tp Hp Htp.
          exact (gi_anc _ _ GI k tk p tp Ek Eq Hp Htp).
      - intros p tp Hp Htp. exact (gi_grp _ _ GI k tk p tp Ek Hp Htp). }
    rewrite (sound_early v Hv).
    apply in_app_iff in HX. destruct HX as [HX|HX].
    + destruct (gi_ok _ _ GI k tk X Ek HX) as (_ & Hsk & Hgo & _).
      rewrite (Hsk Hfull). destruct (t_open tk) eqn:Eo.
      * assert (Em : mem X (t_ids tk) = true) by now apply mem_In.
        rewrite Em. cbn. discriminate.
      * cbn [andb]. rewrite (gi_closed _ _ GI k tk Ek Eo).
        assert (E : has_from v m l None (t_grp tk) X (tsof X)
                    = Some (manager_has_v v m (t_grp tk) X (tsof X))) by (destruct l; reflexivity).
        rewrite E, (manager_has_true tsof gof v Hv rst m (t_grp tk) X
                      (gi_minv _ _ GI k tk X Ek Eo HX) Hgo). discriminate.
    + destruct (skip_own v (tsof X) (t_ts tk + t_th tk)); [now apply Hup|].
      destruct (t_open tk && mem X (t_ids tk)); [discriminate|now apply Hup].
Qed.

(* ... and never for an id recorded in a committed tracker of the chain, whatever
   its timestamp is within the window (no use of the guard) *)
Lemma has_sound_closed l m : ginv l m -> forall n r gp g X,
  (forall p, gp = Some p -> (p < n)%nat) ->
  (r = gp \/ (r = None /\ closed_at l gp)) -> grp_at l gp g ->
  In X (cchain_from l gp) -> has_from v m l r g X (tsof X) <> Some false.
Proof.
  intros GI. induction n as [|n IH]; intros r gp g X Hb Hl Hg HX.
  - destruct gp as [p|]; [specialize (Hb p eq_refl); lia|destruct l; destruct HX].
  - destruct Hl as [->|[-> Hc]].
    2:{ destruct (closed_chain l m GI (S n) gp g X Hb Hc Hg (cchain_sub _ _ _ HX)) as [Hm Hgo].
        assert (E : has_from v m l None g X (tsof X) = Some (manager_has_v v m g X (tsof X)))
          by (destruct l; reflexivity).
        rewrite E, (manager_has_true tsof gof v Hv rst m g X Hm Hgo). discriminate. }
    destruct gp as [k|]; [|destruct l; destruct HX].
    destruct (get l k) as [tk|] eqn:Ek; [|rewrite (cchain_none l k Ek) in HX; destruct HX].
    assert (Hbk : forall p, t_gparent tk = Some p -> (p < k)%nat)
      by (intros p Hp; exact (gi_bound _ _ GI k tk p Ek Hp)).
    rewrite (has_unfold v m l k tk g X (tsof X) Ek)
      by (intros p Hp; apply Hbk; exact (gi_par _ _ GI k tk p Ek Hp)).
    rewrite (cchain_unfold l k tk Ek Hbk) in HX.
    assert (Hup : In X (cchain_from l (t_gparent tk)) ->
                  has_from v m l (t_parent tk) (t_grp tk) X (tsof X) <> Some false).
    { intro HX'. apply (IH (t_parent tk) (t_gparent tk) (t_grp tk) X); [| | |exact HX'].
      - intros p Hp. pose proof (Hbk p Hp). specialize (Hb k eq_refl). lia.
      - destruct (t_parent tk) as [q|] eqn:Eq.
        + left. symmetry. exact (gi_par _ _ GI k tk q Ek Eq).
        + right. split; [reflexivity|]. intros p tp Hp Htp.
          exact (gi_anc _ _ GI k tk p tp Ek Eq Hp Htp).
      - intros p tp Hp Htp. exact (gi_grp _ _ GI k tk p tp Ek Hp Htp). }
    rewrite (sound_early v Hv).
    apply in_app_iff in HX. destruct HX as [HX|HX].
    + destruct (t_open tk) eqn:Eo; [destruct HX|].
      destruct (gi_ok _ _ GI k tk X Ek HX) as (_ & _ & Hgo & _).
      cbn [andb]. rewrite (gi_closed _ _ GI k tk Ek Eo).
      assert (E : has_from v m l None (t_grp tk) X (tsof X)
                  = Some (manager_has_v v m (t_grp tk) X (tsof X))) by (destruct l; reflexivity).
      rewrite E, (manager_has_true tsof gof v Hv rst m (t_grp tk) X
                    (gi_minv _ _ GI k tk X Ek Eo HX) Hgo).
      destruct (skip_own v (tsof X) (t_ts tk + t_th tk)); discriminate.
    + destruct (skip_own v (tsof X) (t_ts tk + t_th tk)); [now apply Hup|].
      destruct (t_open tk && mem X (t_ids tk)); [discriminate|now apply Hup].
Qed.

(* ---- validity of a history ---- *)

Definition valid_op (win : Z -> Z -> Z -> Prop) (st : state) (o : op) : Prop :=
  match o with
  | OAdd t txs force =>
      force = false /\ leaf (s_trk st) t /\
      forall tk, get (s_trk st) t = Some tk -> forall p, In p txs ->
        snd p = tsof (fst p) /\ gof (fst p) = t_grp tk /\ t_ts tk <> 0 /\
        win (t_ts tk) (t_th tk) (snd p)
  (* with restarts: the bound ts+th of a new block covers the transactions that the
     manager can only find in the database while it does not know their bound *)
  | ONewRoot g ts th => rst = true -> preok tsof gof (s_mgr st) g (ts + th)
  | ONew p ts th => rst = true -> forall tp, get (s_trk st) p = Some tp ->
                                   preok tsof gof (s_mgr st) (t_grp tp) (ts + th)
  | ORestart => rst = true
  | _ => True
  end.

Fixpoint hist_ok (win : Z -> Z -> Z -> Prop) (st : state) (h : list op) : Prop :=
  match h with
  | [] => True
  | o :: r => valid_op win st o /\ hist_ok win (fst (step_v v st o)) r
  end.

Definition win_ok (win : Z -> Z -> Z -> Prop) : Prop :=
  forall bts th ts, win bts th ts ->
    ts <= bts + th /\ (full = true -> skip_own v ts (bts + th) = false).

(* ---- Add ---- *)

Ltac add_nil := exists []; rewrite app_nil_r; split; [reflexivity|split; [auto|intros ? []]].

Lemma add_loop_spec st tk txs : forall acc cnt ids cnt' cls,
  (forall p, In p txs -> snd p = tsof (fst p)) ->
  add_loop v st tk false txs acc cnt = (ids, cnt', cls) ->
  exists added, ids = acc ++ added /\ (NoDup acc -> NoDup ids) /\
    forall X, In X added -> In (X, tsof X) txs /\ parent_has_v v st tk X (tsof X) = Some false.
Proof.
  induction txs as [|[id ts] r IH]; cbn [add_loop]; intros acc cnt ids cnt' cls Hts E.
  - inversion E; subst. add_nil.
  - assert (Hid : ts = tsof id) by (apply (Hts (id, ts)); now left).
    assert (Hts' : forall p, In p r -> snd p = tsof (fst p)) by (intros p Hp; apply Hts; now right).
    destruct (mem id acc) eqn:Em.
    { inversion E; subst. add_nil. }
    cbn [negb] in E.
    destruct (parent_has_v v st tk id ts) as [[|]|] eqn:Eh;
      try (inversion E; subst; add_nil).
    destruct (IH _ _ _ _ _ Hts' E) as (added & -> & Hnd & Hadd).
    exists (id :: added). rewrite <- app_assoc. split; [reflexivity|]. split.
    + intro Ha. rewrite app_assoc. apply Hnd. apply NoDup_snoc; [assumption|now apply mem_false].
    + intros X [<-|HX].
      * split; [left; now rewrite Hid|now rewrite <- Hid].
      * destruct (Hadd X HX). split; [now right|assumption].
Qed.

Lemma get_upd_inv l t f k tk' :
  get (upd l t f) k = Some tk' ->
  (k = t /\ exists tk, get l t = Some tk /\ tk' = f tk) \/ (k <> t /\ get l k = Some tk').
Proof.
  rewrite get_upd. destruct (Nat.eqb_spec k t) as [->|Hne]; intro H.
  - left. split; [reflexivity|]. destruct (get l t) as [tk|]; [|discriminate].
    exists tk. split; [reflexivity|]. cbn in H. congruence.
  - right. now split.
Qed.

Lemma ginv_add l m t tk ids :
  ginv l m -> get l t = Some tk -> t_open tk = true -> leaf l t ->
  (forall X, In X ids -> tx_ok tk X) ->
  (full = true -> NoDup (ids ++ chain_from l (t_gparent tk))) ->
  ginv (upd l t (set_ids ids)) m.
Proof.
  intros GI Ht Ho Hleaf Hok Hnd.
  assert (Hshape : forall k tk', get (upd l t (set_ids ids)) k = Some tk' ->
            exists tk0, get l k = Some tk0 /\ t_grp tk' = t_grp tk0 /\ t_ts tk' = t_ts tk0 /\
              t_th tk' = t_th tk0 /\ t_open tk' = t_open tk0 /\ t_parent tk' = t_parent tk0 /\
              t_gparent tk' = t_gparent tk0 /\ (k <> t -> tk' = tk0) /\
              (k = t -> t_ids tk' = ids /\ tk0 = tk)).
  { intros k tk' H. apply get_upd_inv in H. destruct H as [[-> (tk0 & H0 & ->)]|[Hne H]].
    - exists tk0. cbn. repeat split; auto; try congruence.
    - exists tk'. repeat split; auto; congruence. }
  constructor.
  - intros k tk' p H Hp. destruct (Hshape k tk' H) as (tk0 & H0 & _ & _ & _ & _ & _ & Eg & _).
    rewrite Eg in Hp. exact (gi_bound _ _ GI k tk0 p H0 Hp).
  - intros k tk' p H Hp. destruct (Hshape k tk' H) as (tk0 & H0 & _ & _ & _ & _ & Ep & Eg & _).
    rewrite Ep in Hp. rewrite Eg. exact (gi_par _ _ GI k tk0 p H0 Hp).
  - intros k tk' H Hc. destruct (Hshape k tk' H) as (tk0 & H0 & _ & _ & _ & Eo & Ep & _).
    rewrite Ep. rewrite Eo in Hc. exact (gi_closed _ _ GI k tk0 H0 Hc).
  - intros k tk' p tp' H Hpar Hgp Hp.
    destruct (Hshape k tk' H) as (tk0 & H0 & _ & _ & _ & _ & Ep & Eg & _).
    destruct (Hshape p tp' Hp) as (tp0 & Hp0 & _ & _ & _ & Eo' & _).
    rewrite Eo'. rewrite Ep in Hpar. rewrite Eg in Hgp.
    exact (gi_anc _ _ GI k tk0 p tp0 H0 Hpar Hgp Hp0).
  - intros k tk' X H HX.
    destruct (Hshape k tk' H) as (tk0 & H0 & Egr & Ets & Eth & _ & _ & _ & Hne & Heq).
    destruct (Nat.eq_dec k t) as [->|Hkt].
    + destruct (Heq eq_refl) as [Ei ->]. rewrite Ei in HX.
      unfold tx_ok. rewrite Egr, Ets, Eth. exact (Hok X HX).
    + rewrite (Hne Hkt) in *. exact (gi_ok _ _ GI k tk0 X H0 HX).
  - intros k tk' p tp' H Hgp Hp.
    destruct (Hshape k tk' H) as (tk0 & H0 & Egr & _ & _ & _ & _ & Eg & _).
    destruct (Hshape p tp' Hp) as (tp0 & Hp0 & Egr' & _).
    rewrite Egr, Egr'. rewrite Eg in Hgp. exact (gi_grp _ _ GI k tk0 p tp0 H0 Hgp Hp0).
  - intros k tk' X H Hc HX.
    destruct (Hshape k tk' H) as (tk0 & H0 & _ & _ & _ & Eo & _ & _ & Hne & Heq).
    destruct (Nat.eq_dec k t) as [->|Hkt].
    + destruct (Heq eq_refl) as [_ ->]. congruence.
    + rewrite (Hne Hkt) in *. exact (gi_minv _ _ GI k tk0 X H0 Hc HX).
  - intros Hf k. destruct (Nat.eq_dec k t) as [->|Hkt].
    + assert (Hg' : get (upd l t (set_ids ids)) t = Some (set_ids ids tk))
        by (rewrite get_upd, Nat.eqb_refl, Ht; reflexivity).
      rewrite (chain_unfold _ t _ Hg') by (cbn; intros p Hp; exact (gi_bound _ _ GI t tk p Ht Hp)).
      cbn [t_ids t_gparent set_ids].
      rewrite chain_upd_leaf; [exact (Hnd Hf)|exact Hleaf|].
      intro E. pose proof (gi_bound _ _ GI t tk t Ht E). lia.
    + rewrite chain_upd_leaf; [exact (gi_nodup _ _ GI Hf k)|exact Hleaf|congruence].
  - exact (gi_cinv _ _ GI).
  - exact (gi_mx _ _ GI).
  - intros Hr k tk' H Ho'.
    destruct (Hshape k tk' H) as (tk0 & H0 & Egr & Ets & Eth & Eo & _).
    rewrite Egr, Ets, Eth. rewrite Eo in Ho'. exact (gi_pre _ _ GI Hr k tk0 H0 Ho').
Qed.

(* ---- New ---- *)

Lemma get_push tn l k tk :
  get (tn :: l) k = Some tk ->
  (k = length l /\ tk = tn) \/ ((k < length l)%nat /\ get l k = Some tk).
Proof.
  cbn. destruct (Nat.eqb_spec k (length l)); intro H.
  - left. split; congruence.
  - right. split; [now apply get_lt in H|assumption].
Qed.

Lemma ginv_push l m tn :
  ginv l m ->
  t_ids tn = [] -> t_open tn = true ->
  (forall p, t_gparent tn = Some p -> exists tp, get l p = Some tp /\ t_grp tp = t_grp tn /\
        (t_parent tn = None -> t_open tp = false)) ->
  (forall p, t_parent tn = Some p -> t_gparent tn = Some p) ->
  (rst = true -> preok tsof gof m (t_grp tn) (t_ts tn + t_th tn)) ->
  ginv (tn :: l) m.
Proof.
  intros GI Hids Hopen Hgp Hpar Hpre.
  assert (Hold : forall k tk p, (k < length l)%nat -> get l k = Some tk -> t_gparent tk = Some p ->
                   get (tn :: l) p = get l p).
  { intros k tk p Hk H Hp. apply get_cons_ne. pose proof (gi_bound _ _ GI k tk p H Hp). lia. }
  constructor.
  - intros k tk p H Hp. destruct (get_push _ _ _ _ H) as [[-> ->]|[Hk H0]].
    + destruct (Hgp p Hp) as (tp & Htp & _). now apply get_lt in Htp.
    + exact (gi_bound _ _ GI k tk p H0 Hp).
  - intros k tk p H Hp. destruct (get_push _ _ _ _ H) as [[-> ->]|[Hk H0]].
    + now apply Hpar.
    + exact (gi_par _ _ GI k tk p H0 Hp).
  - intros k tk H Hc. destruct (get_push _ _ _ _ H) as [[-> ->]|[Hk H0]].
    + congruence.
    + exact (gi_closed _ _ GI k tk H0 Hc).
  - intros k tk p tp H Hpn Hp Htp. destruct (get_push _ _ _ _ H) as [[-> ->]|[Hk H0]].
    + destruct (Hgp p Hp) as (tp0 & Htp0 & _ & Hcl).
      rewrite get_cons_ne in Htp by (apply get_lt in Htp0; lia).
      assert (tp = tp0) by congruence. subst. now apply Hcl.
    + rewrite (Hold k tk p Hk H0 Hp) in Htp. exact (gi_anc _ _ GI k tk p tp H0 Hpn Hp Htp).
  - intros k tk X H HX. destruct (get_push _ _ _ _ H) as [[-> ->]|[Hk H0]].
    + rewrite Hids in HX. destruct HX.
    + exact (gi_ok _ _ GI k tk X H0 HX).
  - intros k tk p tp H Hp Htp. destruct (get_push _ _ _ _ H) as [[-> ->]|[Hk H0]].
    + destruct (Hgp p Hp) as (tp0 & Htp0 & Hg0 & _).
      rewrite get_cons_ne in Htp by (apply get_lt in Htp0; lia).
      assert (tp = tp0) by congruence. now subst.
    + rewrite (Hold k tk p Hk H0 Hp) in Htp. exact (gi_grp _ _ GI k tk p tp H0 Hp Htp).
  - intros k tk X H Hc HX. destruct (get_push _ _ _ _ H) as [[-> ->]|[Hk H0]].
    + congruence.
    + exact (gi_minv _ _ GI k tk X H0 Hc HX).
  - intros Hf k. cbn [chain_from]. destruct (Nat.eqb_spec k (length l)).
    + rewrite Hids. cbn. destruct (t_gparent tn) as [p|]; [exact (gi_nodup _ _ GI Hf p)|].
      destruct l; constructor.
    + exact (gi_nodup _ _ GI Hf k).
  - exact (gi_cinv _ _ GI).
  - exact (gi_mx _ _ GI).
  - intros Hr k tk H Ho. destruct (get_push _ _ _ _ H) as [[-> ->]|[Hk H0]].
    + now apply Hpre.
    + exact (gi_pre _ _ GI Hr k tk H0 Ho).
Qed.

(* ---- Commit ---- *)

Lemma ginv_commit l m t tk :
  ginv l m -> get l t = Some tk ->
  ginv (fst (commit_walk l (Some t))) (fold_left commit_list (rev (snd (commit_walk l (Some t)))) m).
Proof.
  intros GI Ht.
  set (l' := fst (commit_walk l (Some t))).
  set (js := snd (commit_walk l (Some t))).
  set (m' := fold_left commit_list (rev js) m).
  assert (Hjs : forall L, In L (rev js) -> list_ok tsof gof (l_grp L) L).
  { intros L HL. apply in_rev in HL. destruct (cw_jobs_from l (Some t) L HL) as (k & tk0 & Hk & _ & ->).
    intros Y HY. cbn in HY |- *. destruct (gi_ok _ _ GI k tk0 Y Hk HY) as (H1 & _ & H3 & H4). auto. }
  assert (Hjp : rst = true -> forall L, In L (rev js) -> preok tsof gof m (l_grp L) (l_ts L + l_th L)).
  { intros Hr L HL. apply in_rev in HL. destruct (cw_jobs_from l (Some t) L HL) as (k & tk0 & Hk & Ho & ->).
    cbn. exact (gi_pre _ _ GI Hr k tk0 Hk Ho). }
  destruct (commit_fold_inv tsof gof rst (rev js) m (gi_cinv _ _ GI) (gi_mx _ _ GI) Hjs Hjp)
    as (Hc' & Hx' & Hmono & Hnew & Hpp).
  fold m' in Hc', Hx', Hmono, Hnew, Hpp.
  assert (Hshape : forall k tk', get l' k = Some tk' ->
            exists tk0, get l k = Some tk0 /\ tk' = if on_path l (Some t) k then close tk0 else tk0).
  { intros k tk' H. unfold l' in H. rewrite cw_get in H.
    destruct (get l k) as [tk0|]; [|discriminate]. exists tk0. cbn in H. split; congruence. }
  assert (Hsame : forall (b : bool) tk0, t_grp (if b then close tk0 else tk0) = t_grp tk0 /\
            t_ts (if b then close tk0 else tk0) = t_ts tk0 /\
            t_th (if b then close tk0 else tk0) = t_th tk0 /\
            t_ids (if b then close tk0 else tk0) = t_ids tk0 /\
            t_gparent (if b then close tk0 else tk0) = t_gparent tk0).
  { intros [|] tk0; cbn; auto. }
  assert (Hcl : forall p tp', get l' p = Some tp' ->
            forall tp0, get l p = Some tp0 -> t_open tp0 = false -> t_open tp' = false).
  { intros p tp' Hp tp0 Hp0 Ho. destruct (Hshape p tp' Hp) as (tp1 & Hp1 & ->).
    assert (tp1 = tp0) by congruence. subst. now destruct (on_path l (Some t) p). }
  constructor.
  - intros k tk' p H Hp. destruct (Hshape k tk' H) as (tk0 & H0 & ->).
    destruct (Hsame (on_path l (Some t) k) tk0) as (_ & _ & _ & _ & Eg). rewrite Eg in Hp.
    exact (gi_bound _ _ GI k tk0 p H0 Hp).
  - intros k tk' p H Hp. destruct (Hshape k tk' H) as (tk0 & H0 & ->).
    destruct (on_path l (Some t) k); [discriminate|]. exact (gi_par _ _ GI k tk0 p H0 Hp).
  - intros k tk' H Hc. destruct (Hshape k tk' H) as (tk0 & H0 & ->).
    destruct (on_path l (Some t) k); [reflexivity|]. exact (gi_closed _ _ GI k tk0 H0 Hc).
  - intros k tk' p tp' H Hpar Hgp Hp. destruct (Hshape k tk' H) as (tk0 & H0 & ->).
    destruct (Hsame (on_path l (Some t) k) tk0) as (_ & _ & _ & _ & Eg). rewrite Eg in Hgp.
    destruct (t_parent tk0) as [q|] eqn:Eq.
    + (* was linked: then k is on the path and so is its parent *)
      destruct (on_path l (Some t) k) eqn:Eon; [|congruence].
      pose proof (gi_par _ _ GI k tk0 q H0 Eq) as Egq.
      assert (q = p) by congruence. subst q.
      pose proof (gi_bound _ _ GI k tk0 p H0 Hgp) as Hlt.
      pose proof (on_path_parent l (Some t) k tk0 p Eon H0 Eq Hlt) as Eonp.
      destruct (Hshape p tp' Hp) as (tp0 & Hp0 & ->). rewrite Eonp. reflexivity.
    + destruct (Hshape p tp' Hp) as (tp0 & Hp0 & E).
      apply (Hcl p tp' Hp tp0 Hp0). exact (gi_anc _ _ GI k tk0 p tp0 H0 Eq Hgp Hp0).
  - intros k tk' X H HX. destruct (Hshape k tk' H) as (tk0 & H0 & ->).
    destruct (Hsame (on_path l (Some t) k) tk0) as (E1 & E2 & E3 & E4 & _).
    unfold tx_ok. rewrite E1, E2, E3. rewrite E4 in HX. exact (gi_ok _ _ GI k tk0 X H0 HX).
  - intros k tk' p tp' H Hgp Hp. destruct (Hshape k tk' H) as (tk0 & H0 & ->).
    destruct (Hshape p tp' Hp) as (tp0 & Hp0 & ->).
    destruct (Hsame (on_path l (Some t) k) tk0) as (E1 & _ & _ & _ & Eg).
    destruct (Hsame (on_path l (Some t) p) tp0) as (E1' & _).
    rewrite E1, E1'. rewrite Eg in Hgp. exact (gi_grp _ _ GI k tk0 p tp0 H0 Hgp Hp0).
  - intros k tk' X H Hc HX. destruct (Hshape k tk' H) as (tk0 & H0 & ->).
    destruct (Hsame (on_path l (Some t) k) tk0) as (_ & _ & _ & E4 & _). rewrite E4 in HX.
    destruct (t_open tk0) eqn:Eo.
    + destruct (on_path l (Some t) k) eqn:Eon; [|congruence].
      apply (Hnew (list_of tk0) X); [|exact HX].
      apply -> in_rev. exact (cw_jobs_in l (Some t) k tk0 Eon H0 Eo).
    + apply Hmono. exact (gi_minv _ _ GI k tk0 X H0 Eo HX).
  - intros Hf k. unfold l'. rewrite cw_chain. exact (gi_nodup _ _ GI Hf k).
  - exact Hc'.
  - exact Hx'.
  - intros Hr k tk' H Ho. destruct (Hshape k tk' H) as (tk0 & H0 & ->).
    destruct (on_path l (Some t) k); [discriminate|].
    apply Hpp. exact (gi_pre _ _ GI Hr k tk0 H0 Ho).
Qed.

Lemma ginv_init : ginv [] new_manager.
Proof.
  constructor; try (intros; discriminate).
  - intros _ k. constructor.
  - intros g P H. destruct g; destruct H.
  - intros g. destruct g; cbn; lia.
Qed.

(* ---- Restart ---- *)

Lemma ginv_restart l m : rst = true -> ginv l m -> ginv (map kill l) (restart_manager m).
Proof.
  intros Hr GI.
  assert (Hshape : forall k tk', get (map kill l) k = Some tk' ->
            exists tk0, get l k = Some tk0 /\ tk' = kill tk0).
  { intros k tk' H. rewrite get_kill in H. destruct (get l k) as [tk0|]; [|discriminate].
    exists tk0. cbn in H. split; congruence. }
  assert (Hpar : forall k tk0, get l k = Some tk0 -> t_parent (kill tk0) = None).
  { intros k tk0 H. unfold kill. destruct (t_open tk0) eqn:Eo; [reflexivity|].
    exact (gi_closed _ _ GI k tk0 H Eo). }
  constructor.
  - intros k tk' p H Hp. destruct (Hshape k tk' H) as (tk0 & H0 & ->).
    destruct (kill_fields tk0) as (_ & _ & _ & Eg & _). rewrite Eg in Hp.
    exact (gi_bound _ _ GI k tk0 p H0 Hp).
  - intros k tk' p H Hp. destruct (Hshape k tk' H) as (tk0 & H0 & ->).
    rewrite (Hpar k tk0 H0) in Hp. discriminate.
  - intros k tk' H _. destruct (Hshape k tk' H) as (tk0 & H0 & ->). exact (Hpar k tk0 H0).
  - intros k tk' p tp' H _ _ Hp. destruct (Hshape p tp' Hp) as (tp0 & _ & ->).
    now destruct (kill_fields tp0) as (_ & _ & _ & _ & Eo & _).
  - intros k tk' X H HX. destruct (Hshape k tk' H) as (tk0 & H0 & ->).
    destruct (kill_fields tk0) as (E1 & E2 & E3 & _ & _ & Hi & _).
    unfold tx_ok. rewrite E1, E2, E3. apply (gi_ok _ _ GI k tk0 X H0). now apply Hi.
  - intros k tk' p tp' H Hgp Hp. destruct (Hshape k tk' H) as (tk0 & H0 & ->).
    destruct (Hshape p tp' Hp) as (tp0 & Hp0 & ->).
    destruct (kill_fields tk0) as (E1 & _ & _ & Eg & _). destruct (kill_fields tp0) as (E1' & _).
    rewrite E1, E1'. rewrite Eg in Hgp. exact (gi_grp _ _ GI k tk0 p tp0 H0 Hgp Hp0).
  - intros k tk' X H _ HX. destruct (Hshape k tk' H) as (tk0 & H0 & ->).
    destruct (kill_fields tk0) as (_ & _ & _ & _ & _ & Hi & _).
    destruct (Hi X HX) as [HX0 Ho0].
    destruct (gi_minv _ _ GI k tk0 X H0 Ho0 HX0) as [Hdb _].
    split; [exact Hdb|]. right. right. split; [exact Hr|].
    destruct (gof X); cbn; (split; [reflexivity|intros P []]).
  - intros Hf k. apply chain_kill_nodup. exact (gi_nodup _ _ GI Hf k).
  - intros g P H. destruct g; destruct H.
  - intros g. destruct g; cbn; lia.
  - intros _ k tk' H Ho. destruct (Hshape k tk' H) as (tk0 & _ & ->).
    destruct (kill_fields tk0) as (_ & _ & _ & _ & Eo & _). congruence.
Qed.

(* ---- one step ---- *)

Definition sinv (st : state) : Prop := ginv (s_trk st) (s_mgr st).

Lemma step_inv win st o :
  win_ok win -> sinv st -> valid_op win st o -> sinv (fst (step_v v st o)).
Proof.
  intros Hw GI Hval. unfold sinv in *. destruct o as [g ts th|p ts th|t txs force|t|t id ts|g id ts|];
    cbn [step_v].
  - (* NewRoot *)
    cbn. apply ginv_push; cbn; auto; intros; discriminate.
  - (* New *)
    unfold tracker_new. destruct (get (s_trk st) p) as [tp|] eqn:Ep; [|exact GI].
    cbn [fst s_trk s_mgr].
    apply ginv_push; cbn [t_ids t_open t_gparent t_parent t_grp t_ts t_th]; auto.
    + intros p0 Hp0. inversion Hp0; subst p0. exists tp. split; [assumption|split; [reflexivity|]].
      intro Hn. destruct (t_open tp); [|reflexivity]. cbn in Hn. discriminate.
    + intros p0 Hp0.
      destruct (negb (t_open tp) && match t_parent tp with None => true | Some _ => false end);
        congruence.
  - (* Add *)
    unfold tracker_add_v. destruct (get (s_trk st) t) as [tk|] eqn:Et; [|exact GI].
    destruct (t_open tk) eqn:Eo; [|exact GI]. cbn [negb].
    destruct (t_ids tk) as [|x xs] eqn:Ei; [|exact GI].
    destruct Hval as (-> & Hleaf & Htx). specialize (Htx tk Et).
    destruct (add_loop v st tk false txs [] O) as [[ids cnt] cls] eqn:Ea.
    cbn [fst s_trk s_mgr].
    destruct (add_loop_spec st tk txs [] O ids cnt cls (fun p Hp => proj1 (Htx p Hp)) Ea)
      as (added & -> & Hnd & Hadd).
    cbn [app] in *.
    apply (ginv_add _ _ t tk added GI Et Eo Hleaf).
    + intros X HX. destruct (Hadd X HX) as [Hin _].
      destruct (Htx _ Hin) as (_ & Hg & Hz & Hwin). cbn [fst snd] in *.
      destruct (Hw _ _ _ Hwin) as [H1 H2]. unfold tx_ok. auto.
    + intro Hf. apply NoDup_app_intro.
      * apply Hnd. constructor.
      * destruct (t_gparent tk) as [p|]; [exact (gi_nodup _ _ GI Hf p)|].
        destruct (s_trk st); constructor.
      * intros X HX Hch. destruct (Hadd X HX) as [_ Hhas]. unfold parent_has_v in Hhas.
        revert Hhas. apply (has_sound _ _ Hf GI t (t_parent tk) (t_gparent tk) (t_grp tk) X).
        -- intros p Hp. exact (gi_bound _ _ GI t tk p Et Hp).
        -- destruct (t_parent tk) as [q|] eqn:Eq.
           ++ left. symmetry. exact (gi_par _ _ GI t tk q Et Eq).
           ++ right. split; [reflexivity|]. intros p tp Hp Htp.
              exact (gi_anc _ _ GI t tk p tp Et Eq Hp Htp).
        -- intros p tp Hp Htp. exact (gi_grp _ _ GI t tk p tp Et Hp Htp).
        -- exact Hch.
  - (* Commit *)
    unfold tracker_commit. destruct (get (s_trk st) t) as [tk|] eqn:Et; [|exact GI].
    pose proof (ginv_commit _ _ t tk GI Et) as H.
    destruct (commit_walk (s_trk st) (Some t)) as [trk js]. exact H.
  - destruct (tracker_has_v v st t id ts); exact GI.
  - exact GI.
  - (* Restart *)
    cbn. apply ginv_restart; assumption.
Qed.

Lemma run_inv win h : win_ok win -> forall st, sinv st -> hist_ok win st h -> sinv (run_v v st h).
Proof.
  intro Hw. induction h as [|o r IH]; intros st GI Hh; [exact GI|].
  destruct Hh as [Hval Hr]. cbn. apply IH; [|exact Hr]. now apply (step_inv win).
Qed.

Lemma no_replay_gen win h :
  full = true ->
  win_ok win -> hist_ok win init h -> forall t, NoDup (chain_ids (run_v v init h) t).
Proof.
  intros Hf Hw Hh t. apply (gi_nodup _ _ (run_inv win h Hw init ginv_init Hh) Hf).
Qed.

Lemma hist_ok_app win h : forall st o,
  hist_ok win st (h ++ [o]) -> hist_ok win st h /\ valid_op win (run_v v st h) o.
Proof.
  induction h as [|a r IH]; intros st o H; cbn in *.
  - tauto.
  - destruct H as [Ha Hr]. destruct (IH _ _ Hr). tauto.
Qed.

(* an id recorded in a committed tracker of the chain is never accepted again *)
Lemma committed_not_replayed_gen win h t txs :
  win_ok win -> hist_ok win init (h ++ [OAdd t txs false]) ->
  let st := run_v v init h in
  forall st' cnt cls tk tk',
    tracker_add_v v st t txs false = Some (st', cnt, cls) ->
    get (s_trk st) t = Some tk -> t_ids tk = [] -> get (s_trk st') t = Some tk' ->
    forall X, In X (t_ids tk') -> ~ In X (cchain_from (s_trk st) (t_gparent tk)).
Proof.
  intros Hw Hh st st' cnt cls tk tk' Ea Et Ei Et' X HX Hch.
  destruct (hist_ok_app win h init _ Hh) as [Hh0 Hval]. fold st in Hval.
  pose proof (run_inv win h Hw init ginv_init Hh0) as GI. fold st in GI. unfold sinv in GI.
  unfold tracker_add_v in Ea. rewrite Et, Ei in Ea.
  destruct (t_open tk) eqn:Eo; cbn [negb] in Ea.
  2:{ inversion Ea; subst st'. assert (tk' = tk) by congruence. subst. rewrite Ei in HX. destruct HX. }
  destruct (add_loop v st tk false txs [] O) as [[ids c] cl] eqn:El.
  inversion Ea; subst st' cnt cls. cbn [s_trk] in Et'.
  rewrite get_upd, Nat.eqb_refl, Et in Et'. cbn in Et'.
  assert (tk' = set_ids ids tk) by congruence. subst tk'. cbn [t_ids set_ids] in HX.
  destruct Hval as (_ & _ & Htx). specialize (Htx tk Et).
  destruct (add_loop_spec st tk txs [] O ids c cl (fun p Hp => proj1 (Htx p Hp)) El)
    as (added & -> & _ & Hadd).
  cbn [app] in HX. destruct (Hadd X HX) as [_ Hhas]. unfold parent_has_v in Hhas.
  revert Hhas. apply (has_sound_closed _ _ GI t (t_parent tk) (t_gparent tk) (t_grp tk) X).
  - intros p Hp. exact (gi_bound _ _ GI t tk p Et Hp).
  - destruct (t_parent tk) as [q|] eqn:Eq.
    + left. symmetry. exact (gi_par _ _ GI t tk q Et Eq).
    + right. split; [reflexivity|]. intros p tp Hp Htp.
      exact (gi_anc _ _ GI t tk p tp Et Eq Hp Htp).
  - intros p tp Hp Htp. exact (gi_grp _ _ GI t tk p tp Et Hp Htp).
  - exact Hch.
Qed.

End Hist.
End RHist.

(* ---- the development without restarts, under the names it always had ---- *)

Definition minv tsof gof := RInv.minv tsof gof false.
Definition list_ok := RInv.list_ok.
Definition cinv := RInv.cinv.
Definition closed_at := RHist.closed_at.
Definition grp_at := RHist.grp_at.
Definition win_ok := RHist.win_ok.
Definition valid_op tsof gof := RHist.valid_op tsof gof false.
Definition hist_ok tsof gof v := RHist.hist_ok tsof gof v false.
Definition ginv tsof gof v full := RHist.ginv tsof gof v full false.
Definition sinv tsof gof v full := RHist.sinv tsof gof v full false.

Lemma manager_has_true tsof gof v (Hv : sound_variant v) m g X :
  minv tsof gof m X -> gof X = g -> manager_has_v v m g X (tsof X) = true.
Proof. exact (RInv.manager_has_true tsof gof v Hv false m g X). Qed.

Lemma ginv_init tsof gof v full : ginv tsof gof v full [] new_manager.
Proof. exact (RHist.ginv_init tsof gof v full false). Qed.

Lemma closed_chain tsof gof v full l m : ginv tsof gof v full l m -> forall n gp g X,
  (forall p, gp = Some p -> (p < n)%nat) -> closed_at l gp -> grp_at l gp g ->
  In X (chain_from l gp) -> minv tsof gof m X /\ gof X = g.
Proof. exact (RHist.closed_chain tsof gof v full false l m). Qed.

Lemma run_inv tsof gof v (Hv : sound_variant v) full win h :
  win_ok v full win -> forall st, sinv tsof gof v full st -> hist_ok tsof gof v win st h ->
  sinv tsof gof v full (run_v v st h).
Proof. exact (RHist.run_inv tsof gof v Hv full false win h). Qed.

(* histories in which the node may restart *)
Definition hist_ok_r tsof gof v := RHist.hist_ok tsof gof v true.

(* ... and the validity of the Adds alone (no condition on restarts or on new blocks) *)
Definition valid_op_free (tsof : N -> Z) (gof : N -> bool) (win : Z -> Z -> Z -> Prop)
           (st : state) (o : op) : Prop :=
  match o with
  | OAdd t txs force => RHist.valid_op tsof gof false win st o
  | _ => True
  end.
Fixpoint hist_ok_free tsof gof v (win : Z -> Z -> Z -> Prop) (st : state) (h : list op) : Prop :=
  match h with
  | [] => True
  | o :: r => valid_op_free tsof gof win st o /\ hist_ok_free tsof gof v win (fst (step_v v st o)) r
  end.

(* ------------------------------------------------------------------ *)
(* E. the theorems of C11                                              *)
(* ------------------------------------------------------------------ *)

(* the accepted window without its top point *)
Definition in_window_open (bts th ts : Z) : Prop := bts - th < ts < bts + th.

Lemma open_iff bts th ts : in_window_open bts th ts <-> in_window bts th ts /\ ts <> bts + th.
Proof. unfold in_window_open, in_window. lia. Qed.

Lemma win_ok_strict : win_ok VStrict true in_window.
Proof. intros bts th ts H. unfold in_window in H. cbn. split; [|intros _]; lia. Qed.

Lemma win_ok_code_open : win_ok VCode true in_window_open.
Proof. intros bts th ts H. unfold in_window_open in H. cbn. split; [|intros _]; lia. Qed.

Lemma win_ok_any v : win_ok v false in_window.
Proof. intros bts th ts H. unfold in_window in H. split; [lia|discriminate]. Qed.

(* with `>` in the guard of tracker.Has the property holds as stated *)
Lemma no_replay_strict tsof gof h :
  hist_ok tsof gof VStrict in_window init h ->
  forall t, NoDup (chain_ids (run_v VStrict init h) t).
Proof. apply (RHist.no_replay_gen tsof gof VStrict (or_intror eq_refl) true false in_window h eq_refl win_ok_strict). Qed.

(* the code as it is: the property holds except for timestamps exactly at bts+th *)
Lemma no_replay_except_bound tsof gof h :
  hist_ok tsof gof VCode in_window_open init h ->
  forall t, NoDup (chain_ids (run init h) t).
Proof. apply (RHist.no_replay_gen tsof gof VCode (or_introl eq_refl) true false in_window_open h eq_refl win_ok_code_open). Qed.

(* the same two statements for histories with restarts of the node: they hold when
   every block created while the manager does not know the bound of older data
   (maxTSInDB = 0) has ts+th above the timestamps of that data — hist_ok_r *)
Lemma no_replay_restart_strict tsof gof h :
  hist_ok_r tsof gof VStrict in_window init h ->
  forall t, NoDup (chain_ids (run_v VStrict init h) t).
Proof. apply (RHist.no_replay_gen tsof gof VStrict (or_intror eq_refl) true true in_window h eq_refl win_ok_strict). Qed.

Lemma no_replay_restart_except_bound tsof gof h :
  hist_ok_r tsof gof VCode in_window_open init h ->
  forall t, NoDup (chain_ids (run init h) t).
Proof. apply (RHist.no_replay_gen tsof gof VCode (or_introl eq_refl) true true in_window_open h eq_refl win_ok_code_open). Qed.

(* the code as it is, full window: what is committed is never accepted again;
   the open bound concerns uncommitted ancestors only *)
Lemma committed_not_replayed tsof gof h t txs :
  hist_ok tsof gof VCode in_window init (h ++ [OAdd t txs false]) ->
  let st := run init h in
  forall st' cnt cls tk tk',
    tracker_add st t txs false = Some (st', cnt, cls) ->
    get (s_trk st) t = Some tk -> t_ids tk = [] -> get (s_trk st') t = Some tk' ->
    forall X, In X (t_ids tk') -> ~ In X (cchain_from (s_trk st) (t_gparent tk)).
Proof.
  apply (RHist.committed_not_replayed_gen tsof gof VCode (or_introl eq_refl) false false in_window h t txs
           (win_ok_any VCode)).
Qed.

(* ---- concrete histories ---- *)

Fixpoint nodupb (l : list N) : bool :=
  match l with [] => true | x :: r => negb (mem x r) && nodupb r end.

Lemma nodupb_spec l : nodupb l = true <-> NoDup l.
Proof.
  induction l as [|x r IH]; cbn.
  - split; [constructor|reflexivity].
  - rewrite andb_true_iff, negb_true_iff, mem_false, IH. split.
    + intros [H1 H2]. now constructor.
    + intro H. inversion H; now subst.
Qed.

Ltac solve_valid :=
  unfold hist_ok, hist_ok_r, valid_op; cbn;
  repeat match goal with
         | |- _ /\ _ => split
         | |- True => exact I
         | |- true = true => reflexivity
         | |- false = true -> _ => let H := fresh in intro H; discriminate H
         | |- true = true -> _ => intros _
         | |- leaf _ _ => let tk := fresh in let H := fresh in
                          intros tk H; cbn in H;
                          repeat (destruct H as [H|H]; [subst tk; cbn; congruence|]); destruct H
         | |- forall tp, Some _ = Some tp -> RInv.preok _ _ _ _ _ =>
             let tp := fresh in let E := fresh in intros tp E; inversion E; subst tp; clear E; cbn
         | |- RInv.preok _ _ _ _ _ =>
             let X := fresh in let H := fresh in
             unfold RInv.preok; cbn; intros X H;
             repeat (destruct H as [H|H]; [subst X; cbn; intros; try lia; try congruence; try tauto|]);
             try destruct H
         | |- forall tk, Some _ = Some tk -> _ =>
             let tk := fresh in let E := fresh in let p := fresh in let H := fresh in
             intros tk E p H; inversion E; subst tk; clear E; cbn in H;
             repeat (destruct H as [H|H]; [subst p; cbn; unfold in_window, in_window_open;
                                           repeat split; try reflexivity; try lia; try congruence|]);
             destruct H
         | |- false = false => reflexivity
         end.

(* (1) the open bound: block B (ts 100, th 10) holds tx 7 with timestamp 110 =
   100+10, inside B's window (90,110]; its child C (ts 101, th 10, window
   (91,111]) accepts tx 7 again. *)
Definition h_bound : list op :=
  [ ONewRoot true 50 10;
    ONew 0 100 10; OAdd 1 [(7%N, 110)] false;
    ONew 1 101 10; OAdd 2 [(7%N, 110)] false ].

Lemma h_bound_valid : hist_ok (fun _ => 110) (fun _ => true) VCode in_window init h_bound.
Proof. unfold h_bound. solve_valid. Qed.

Lemma h_bound_dup : chain_ids (run init h_bound) 2 = [7%N; 7%N].
Proof. vm_compute. reflexivity. Qed.

Lemma no_replay_refuted :
  exists tsof gof h t, hist_ok tsof gof VCode in_window init h /\
                       ~ NoDup (chain_ids (run init h) t).
Proof.
  exists (fun _ => 110), (fun _ => true), h_bound, 2%nat. split; [exact h_bound_valid|].
  rewrite h_bound_dup. intro H. apply nodupb_spec in H. discriminate.
Qed.

(* the same history is rejected with the strict guard: Add answers DuplicateTx *)
Example h_bound_strict :
  snd (step_v VStrict (run_v VStrict init (firstn 4 h_bound)) (OAdd 2 [(7%N, 110)] false))
  = RAdd 0 1%N.
Proof. vm_compute. reflexivity. Qed.

(* (2) before ba5b843, first half: tracker.Has answered false at the guard.
   A (ts 100, th 50) holds tx 7 with timestamp 149; T (ts 101, th 10);
   C (ts 145, th 10, window (135,155]) re-includes tx 7: T's guard 149 >= 111
   ended the walk before A was asked. *)
Definition h_early : list op :=
  [ ONewRoot true 50 10;
    ONew 0 100 50; OAdd 1 [(7%N, 149)] false;
    ONew 1 101 10; OAdd 2 [] false;
    ONew 2 145 10; OAdd 3 [(7%N, 149)] false ].

Lemma h_early_valid v : hist_ok (fun _ => 149) (fun _ => true) v in_window_open init h_early.
Proof. unfold h_early. destruct v; solve_valid. Qed.

Lemma pre_early_refuted :
  exists tsof gof h t, hist_ok tsof gof VPreEarly in_window_open init h /\
                       ~ NoDup (chain_ids (run_v VPreEarly init h) t).
Proof.
  exists (fun _ => 149), (fun _ => true), h_early, 3%nat. split; [apply h_early_valid|].
  intro H. apply nodupb_spec in H. vm_compute in H. discriminate.
Qed.

Example h_early_now :
  snd (step (run init (firstn 6 h_early)) (OAdd 3 [(7%N, 149)] false)) = RAdd 0 1%N.
Proof. vm_compute. reflexivity. Qed.

(* (3) before ba5b843, second half: `l <= ts` at maxTSInDB.  A (ts 100, th 10)
   holds tx 7 with timestamp 110 and is committed; committing B (ts 130, th 10)
   evicts A: maxTSInDB = 110.  C (ts 131, th 25, window (106,156]) re-includes
   tx 7: the cache shortcut skipped the database at ts = maxTSInDB.  The first
   occurrence is committed, so the guard of tracker.Has plays no part. *)
Definition h_maxle : list op :=
  [ ONewRoot true 50 10;
    ONew 0 100 10; OAdd 1 [(7%N, 110)] false; OCommit 1;
    ONew 1 130 10; OAdd 2 [] false; OCommit 2;
    ONew 2 131 25; OAdd 3 [(7%N, 110)] false ].

Lemma h_maxle_valid v : hist_ok (fun _ => 110) (fun _ => true) v in_window init h_maxle.
Proof. unfold h_maxle. destruct v; solve_valid. Qed.

Lemma pre_maxle_refuted :
  exists tsof gof h t, hist_ok tsof gof VPreMaxLe in_window init h /\
                       ~ NoDup (chain_ids (run_v VPreMaxLe init h) t).
Proof.
  exists (fun _ => 110), (fun _ => true), h_maxle, 3%nat. split; [apply h_maxle_valid|].
  intro H. apply nodupb_spec in H. vm_compute in H. discriminate.
Qed.

Example h_maxle_now :
  snd (step (run init (firstn 8 h_maxle)) (OAdd 3 [(7%N, 110)] false)) = RAdd 0 1%N
  /\ c_max (m_cn (s_mgr (run init (firstn 8 h_maxle)))) = 110.
Proof. vm_compute. split; reflexivity. Qed.

(* (4) hypotheses are met by non-trivial histories: three blocks with growing
   and shrinking thresholds, a commit in the middle, five transactions *)
Definition h_good : list op :=
  [ ONewRoot true 50 10;
    ONew 0 100 30; OAdd 1 [(1%N, 71); (2%N, 129)] false;
    ONew 1 110 5;  OAdd 2 [(3%N, 106); (4%N, 114)] false; OCommit 1;
    ONew 2 140 40; OAdd 3 [(5%N, 101)] false; OCommit 3 ].

Definition ts_good (i : N) : Z :=
  match i with 1%N => 71 | 2%N => 129 | 3%N => 106 | 4%N => 114 | _ => 101 end.

Example h_good_valid_code : hist_ok ts_good (fun _ => true) VCode in_window_open init h_good.
Proof. unfold h_good. solve_valid. Qed.
Example h_good_valid_strict : hist_ok ts_good (fun _ => true) VStrict in_window init h_good.
Proof. unfold h_good. solve_valid. Qed.
Example h_good_ids : chain_ids (run init h_good) 3 = [5%N; 3%N; 4%N; 1%N; 2%N].
Proof. vm_compute. reflexivity. Qed.

(* (5) why the block timestamp of a block that carries transactions must not
   be 0 (`ptr.ts != 0` in addListAndClearOldInLock leaves maxTSInDB alone): a
   list with ts 0 evicted after a list with a small bound *)
Definition h_zero : list op :=
  [ ONewRoot true 1 1; OCommit 0;
    ONew 0 0 10; OAdd 1 [(7%N, 5)] false; OCommit 1;
    ONew 1 20 10; OAdd 2 [] false; OCommit 2;
    ONew 2 21 17; OAdd 3 [(7%N, 5)] false ].
Example h_zero_dup : chain_ids (run_v VStrict init h_zero) 3 = [7%N; 7%N].
Proof. vm_compute. reflexivity. Qed.

(* (6) the hypotheses of committed_not_replayed are met by h_maxle (as prefix ++ [Add]),
   and the variant with `l <= ts` violates its conclusion on it *)
Example committed_hyp_met :
  hist_ok (fun _ => 110) (fun _ => true) VCode in_window init
          (firstn 8 h_maxle ++ [OAdd 3 [(7%N, 110)] false]).
Proof. exact (h_maxle_valid VCode). Qed.

Lemma pre_maxle_replays_committed :
  let st := run_v VPreMaxLe init (firstn 8 h_maxle) in
  In 7%N (cchain_from (s_trk st) (Some 2%nat)) /\
  exists st', tracker_add_v VPreMaxLe st 3 [(7%N, 110)] false = Some (st', 1%nat, 0%N).
Proof.
  split.
  - vm_compute. now left.
  - eexists. vm_compute. reflexivity.
Qed.

(* ------------------------------------------------------------------ *)
(* G. restarts of the node                                             *)
(* ------------------------------------------------------------------ *)

(* (7) restart + threshold decrease.  Block (100, th 60) holds tx 7 with timestamp 150
   and is finalized; the node restarts (new manager, maxTSInDB = 0); the first list of
   the new manager (101, th 5) is evicted by (112, 5): maxTSInDB = 106 < 150; block
   (147, 5), window (142,152], takes tx 7 again: the cache shortcut skips the database.
   Every Add is a validated one, no timestamp is on a window bound. *)
Definition h_restart : list op :=
  [ ONewRoot true 50 10;
    ONew 0 100 60; OAdd 1 [(7%N, 150)] false; OCommit 1;
    ORestart;
    ONew 1 101 5; OAdd 2 [(8%N, 103)] false; OCommit 2;
    ONew 2 112 5; OAdd 3 [] false; OCommit 3;
    ONew 3 147 5; OAdd 4 [(7%N, 150)] false ].

Definition ts_restart (i : N) : Z := match i with 8%N => 103 | _ => 150 end.

Lemma h_restart_valid v :
  hist_ok_free ts_restart (fun _ => true) v in_window_open init h_restart.
Proof. unfold h_restart. destruct v; cbn; solve_valid. Qed.

Lemma restart_refuted :
  exists tsof gof h t,
    hist_ok_free tsof gof VCode in_window_open init h /\ ~ NoDup (chain_ids (run init h) t).
Proof.
  exists ts_restart, (fun _ => true), h_restart, 4%nat. split; [apply h_restart_valid|].
  intro H. apply nodupb_spec in H. vm_compute in H. discriminate.
Qed.

(* the guard of tracker.Has plays no part: the same with `>` *)
Lemma restart_refuted_strict :
  exists tsof gof h t,
    hist_ok_free tsof gof VStrict in_window_open init h /\
    ~ NoDup (chain_ids (run_v VStrict init h) t).
Proof.
  exists ts_restart, (fun _ => true), h_restart, 4%nat. split; [apply h_restart_valid|].
  intro H. apply nodupb_spec in H. vm_compute in H. discriminate.
Qed.

(* what h_restart lacks to be a hist_ok_r history: the bound 101+5 of the first block
   after the restart is below the timestamp of tx 7, which only the database knows *)
Example h_restart_breaks_bound :
  ~ RInv.preok ts_restart (fun _ => true) (s_mgr (run init (firstn 5 h_restart))) true (101 + 5).
Proof.
  intro H. specialize (H 7%N). vm_compute in H.
  apply H; auto; try reflexivity.
Qed.

(* a sufficient reading of the condition: the bound of the new block is at least the
   timestamp of every transaction of its group in the database *)
Lemma preok_of_db_bound tsof gof m g bound :
  (forall X, In X (m_db m) -> gof X = g -> tsof X <= bound) -> RInv.preok tsof gof m g bound.
Proof. intros H X Hdb Hg _ _ _. now apply H. Qed.

(* (8) the hypotheses of the theorems with restarts are met by a non-trivial history:
   the threshold does not shrink across the restart *)
Definition h_restart_ok : list op :=
  [ ONewRoot true 50 10;
    ONew 0 100 60; OAdd 1 [(7%N, 150)] false; OCommit 1;
    ORestart;
    ONew 1 101 60; OAdd 2 [(8%N, 103)] false; OCommit 2;
    ONew 2 112 60; OAdd 3 [] false; OCommit 3;
    ONew 3 147 60; OAdd 4 [(9%N, 150)] false ].
Example h_restart_ok_valid :
  hist_ok_r ts_restart (fun _ => true) VCode in_window_open init h_restart_ok.
Proof. unfold h_restart_ok. solve_valid. Qed.
Example h_restart_ok_rejects :
  snd (step (run init (firstn 12 h_restart_ok)) (OAdd 4 [(7%N, 150)] false)) = RAdd 0 1%N.
Proof. vm_compute. reflexivity. Qed.
