(* Property C32 - Peer identity is bound to a key over the session secret.
   Only the property theorems; proofs are in Proofs_Authenticator.v, the model
   of network/authenticator.go and network/peerid.go is Model_Authenticator.v.
   H (SHA3-256), parse_pub / ser_pub (secp256k1 key parsing and uncompressed
   serialisation) and verify (ECDSA verification of R|S) are universally
   quantified. *)
From Goloop Require Import lib.Bytes Model_Authenticator Proofs_Authenticator.

(* VerifySignature returns an id without error exactly when the presented key
   parses, the signature has 64 or 65 bytes, and its R|S verifies under THAT key
   over the hash of the content (the handlers pass this session's secret); the
   id is the address of that key. *)
Theorem C32_identity_iff :
  forall (pubkey : Type) (H : bytes -> bytes) (parse_pub : bytes -> option pubkey)
         (ser_pub : pubkey -> bytes) (verify : pubkey -> bytes -> bytes -> bool)
         (pub sig content id : bytes),
  verify_signature pubkey H parse_pub ser_pub verify pub sig content = (Some id, false) <->
  exists k rs, parse_pub pub = Some k /\ parse_sig sig = Some rs /\
               hash_ok (H content) = true /\ verify k (H content) rs = true /\
               id = peer_id pubkey H ser_pub k.
Proof. exact identity_iff. Qed.
Print Assumptions C32_identity_iff.

(* handleSignatureRequest hands the peer to the next handler exactly when the
   message was expected, decodes, verifies over p.secureKey.extra of THIS peer
   and the id is not our own; then the peer carries that id, stays open and gets
   our signature; in every other case the peer is closed and gets no signature. *)
Theorem C32_server_accepts_iff :
  forall (pubkey : Type) (H : bytes -> bytes) (parse_pub : bytes -> option pubkey)
         (ser_pub : pubkey -> bytes) (verify : pubkey -> bytes -> bytes -> bool)
         (self : bytes) (p : peer) (m : inmsg) (p' : peer) (r : option bool),
  p_next p = false -> p_closed p = false ->
  on_sigreq pubkey H parse_pub ser_pub verify self p m = (p', r) ->
  (p_next p' = true <->
     wait_okb p SUB_SIGREQ = true /\
     exists pub sig e id, m = Msg pub sig e /\
       verify_signature pubkey H parse_pub ser_pub verify pub sig (p_extra p) = (Some id, false) /\
       bytes_eqb id self = false) /\
  (p_next p' = true ->
     p_closed p' = false /\ r = Some true /\
     exists pub sig e id, m = Msg pub sig e /\ p_id p' = Some id /\
       verify_signature pubkey H parse_pub ser_pub verify pub sig (p_extra p) = (Some id, false)) /\
  (p_next p' = false -> p_closed p' = true /\ r <> Some true).
Proof. exact server_accepts_iff. Qed.
Print Assumptions C32_server_accepts_iff.

(* handleSignatureResponse: the same for the dialling side (no Error text, and
   on refusal the id of the peer is left as it was). *)
Theorem C32_client_accepts_iff :
  forall (pubkey : Type) (H : bytes -> bytes) (parse_pub : bytes -> option pubkey)
         (ser_pub : pubkey -> bytes) (verify : pubkey -> bytes -> bytes -> bool)
         (p : peer) (m : inmsg),
  p_next p = false -> p_closed p = false ->
  let p' := on_sigresp pubkey H parse_pub ser_pub verify p m in
  (p_next p' = true <->
     wait_okb p SUB_SIGRESP = true /\
     exists pub sig id, m = Msg pub sig [] /\
       verify_signature pubkey H parse_pub ser_pub verify pub sig (p_extra p) = (Some id, false)) /\
  (p_next p' = true ->
     p_closed p' = false /\
     exists pub sig id, m = Msg pub sig [] /\ p_id p' = Some id /\
       verify_signature pubkey H parse_pub ser_pub verify pub sig (p_extra p) = (Some id, false)) /\
  (p_next p' = false -> p_closed p' = true /\ p_id p' = p_id p).
Proof. exact client_accepts_iff. Qed.
Print Assumptions C32_client_accepts_iff.

(* Ideal signatures: verify k h' (sign sk h) holds exactly for k = pub_of sk and h' = h.
   A signature made over another session's secret is refused - or the two
   secrets collide under H, and the collision is returned. *)
Theorem C32_cross_session_rejected :
  forall (pubkey : Type) (H : bytes -> bytes) (parse_pub : bytes -> option pubkey)
         (ser_pub : pubkey -> bytes) (verify : pubkey -> bytes -> bytes -> bool)
         (priv : Type) (pub_of : priv -> pubkey) (sign : priv -> bytes -> bytes),
  (forall sk h k h', verify k h' (sign sk h) = true <-> (k = pub_of sk /\ h' = h)) ->
  forall (sk : priv) (e1 e2 pub sig id : bytes),
  parse_sig sig = Some (sign sk (H e1)) ->
  verify_signature pubkey H parse_pub ser_pub verify pub sig e2 = (Some id, false) ->
  (e1 = e2 \/ (e1 <> e2 /\ H e1 = H e2)) /\ parse_pub pub = Some (pub_of sk) /\
  id = peer_id pubkey H ser_pub (pub_of sk).
Proof. exact cross_session_rejected. Qed.
Print Assumptions C32_cross_session_rejected.

(* a signature by another key than the presented one is refused *)
Theorem C32_other_key_rejected :
  forall (pubkey : Type) (H : bytes -> bytes) (parse_pub : bytes -> option pubkey)
         (ser_pub : pubkey -> bytes) (verify : pubkey -> bytes -> bytes -> bool)
         (priv : Type) (pub_of : priv -> pubkey) (sign : priv -> bytes -> bytes),
  (forall sk h k h', verify k h' (sign sk h) = true <-> (k = pub_of sk /\ h' = h)) ->
  forall (sk : priv) (h pub sig : bytes) (k : pubkey) (e : bytes),
  parse_pub pub = Some k -> k <> pub_of sk -> parse_sig sig = Some (sign sk h) ->
  snd (verify_signature pubkey H parse_pub ser_pub verify pub sig e) = true.
Proof. exact other_key_rejected. Qed.
Print Assumptions C32_other_key_rejected.

(* and the honest peer is accepted under the address of its own key *)
Theorem C32_honest_accepted :
  forall (pubkey : Type) (H : bytes -> bytes) (parse_pub : bytes -> option pubkey)
         (ser_pub : pubkey -> bytes) (verify : pubkey -> bytes -> bytes -> bool)
         (priv : Type) (pub_of : priv -> pubkey) (sign : priv -> bytes -> bytes),
  (forall sk h k h', verify k h' (sign sk h) = true <-> (k = pub_of sk /\ h' = h)) ->
  forall (sk : priv) (pub sig e : bytes),
  parse_pub pub = Some (pub_of sk) -> parse_sig sig = Some (sign sk (H e)) -> hash_ok (H e) = true ->
  verify_signature pubkey H parse_pub ser_pub verify pub sig e =
    (Some (peer_id pubkey H ser_pub (pub_of sk)), false).
Proof. exact honest_accepted. Qed.
Print Assumptions C32_honest_accepted.

(* The secret of a session is unique to it BECAUSE the accepting end creates a
   fresh handshake key per session (hypothesis NoDup of its keys; xs_inj: an
   ideal key agreement + KDF gives different secrets for different key pairs):
   the secrets of different sessions differ ... *)
Theorem C32_fresh_keys_secrets_differ :
  forall (eph peerpub : Type) (xs : eph -> peerpub -> bytes),
  (forall s c s' c', xs s c = xs s' c' -> s = s' /\ c = c') ->
  forall (l : list (eph * peerpub)) (i j : nat) (e1 e2 : bytes),
  NoDup (map fst l) -> i <> j ->
  nth_error (session_secrets eph peerpub xs l) i = Some e1 ->
  nth_error (session_secrets eph peerpub xs l) j = Some e2 -> e1 <> e2.
Proof. exact fresh_keys_secrets_differ. Qed.
Print Assumptions C32_fresh_keys_secrets_differ.

(* ... and a signature recorded in one session is refused in every other
   session of that end, whatever handshake key the dialling side supplies
   (or a SHA3 collision is returned). *)
Theorem C32_replay_across_sessions_rejected :
  forall (pubkey : Type) (H : bytes -> bytes) (parse_pub : bytes -> option pubkey)
         (ser_pub : pubkey -> bytes) (verify : pubkey -> bytes -> bytes -> bool)
         (priv : Type) (pub_of : priv -> pubkey) (sign : priv -> bytes -> bytes)
         (eph peerpub : Type) (xs : eph -> peerpub -> bytes),
  (forall sk h k h', verify k h' (sign sk h) = true <-> (k = pub_of sk /\ h' = h)) ->
  (forall s c s' c', xs s c = xs s' c' -> s = s' /\ c = c') ->
  forall (l : list (eph * peerpub)) (i j : nat) (e1 e2 : bytes) (sk : priv) (pub sig id : bytes),
  NoDup (map fst l) -> i <> j ->
  nth_error (session_secrets eph peerpub xs l) i = Some e1 ->
  nth_error (session_secrets eph peerpub xs l) j = Some e2 ->
  parse_sig sig = Some (sign sk (H e1)) ->
  verify_signature pubkey H parse_pub ser_pub verify pub sig e2 = (Some id, false) ->
  e1 <> e2 /\ H e1 = H e2.
Proof. exact replay_across_sessions_rejected. Qed.
Print Assumptions C32_replay_across_sessions_rejected.

(* Without the freshness the statement fails: one accepting-side key for two
   sessions, the dialling side supplies the same key again, both sessions have
   the same secret and the recorded signature is accepted. *)
Theorem C32_shared_server_key_refuted :
  let l := [(5, 11); (5, 11)] in
  ~ NoDup (map fst l) /\
  exists e, nth_error (session_secrets N N ex_xs l) 0 = Some e /\
            nth_error (session_secrets N N ex_xs l) 1 = Some e /\
            let '(p', r) := on_sigreq N tH tparse tser tverify [9] (ex_peer e) (Msg [7] (ex_sig 7 e) []) in
            (p_next p', p_closed p', p_id p', r) = (true, false, Some (peer_id N tH tser 7), Some true).
Proof. exact shared_server_key_refuted. Qed.
Print Assumptions C32_shared_server_key_refuted.
