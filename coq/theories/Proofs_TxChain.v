(* Proofs_TxChain.v — lemmas about Model_TxChain (property C11, transition layer). *)
From Goloop Require Import lib.Bytes Model_Locator Proofs_Locator Model_TxChain.
From Coq Require Import ZifyBool ZifyN ZifyNat.
Open Scope Z_scope.

Lemma window_verdict_0 bts th txs :
  window_verdict bts th txs = 0%N <-> forall p, In p txs -> in_window bts th (snd p).
Proof.
  induction txs as [|[id ts] r IH]; cbn [window_verdict].
  - split; [intros _ p []|reflexivity].
  - destruct (range_check bts th ts) eqn:E.
    + apply window_iff in E. rewrite IH. split.
      * intros H p [<-|Hp]; [exact E|now apply H].
      * intros H p Hp. apply H. now right.
    + split; [intro H; lia|].
      intro H. specialize (H (id, ts) (or_introl eq_refl)). cbn in H.
      apply window_iff in H. congruence.
Qed.

(* tracker.New then Add: the tracker that holds the list carries (ts, th) *)
Lemma new_and_add_tracker st p ts th txs force st' k cls :
  new_and_add st p ts th txs force = Some (st', k, cls) ->
  exists tk, get (s_trk st') k = Some tk /\ t_ts tk = ts /\ t_th tk = th.
Proof.
  unfold new_and_add, tracker_new. destruct (get (s_trk st) p) as [tp|]; [|discriminate].
  set (tn := {| t_grp := t_grp tp; t_ts := ts; t_th := th; t_ids := []; t_open := true;
                t_parent := _; t_gparent := Some p |}).
  set (st1 := {| s_trk := tn :: s_trk st; s_mgr := s_mgr st |}).
  unfold tracker_add, tracker_add_v. cbn [s_trk st1]. rewrite get_cons_eq. cbn [t_open tn negb t_ids].
  destruct (add_loop VCode st1 tn force txs [] 0) as [[ids cnt] cl].
  intro H. inversion H; subst. cbn [s_trk upd]. rewrite Nat.eqb_refl. cbn [get].
  rewrite Nat.eqb_refl. eexists. split; [reflexivity|]. cbn. auto.
Qed.

(* An accepted block: every normal transaction is inside the window given by the
   threshold of the state the block is executed on, and the id list of the block
   was created with the same (timestamp, threshold) *)
Lemma chain_normal_accept b par bts txs newms b' rp :
  nth_error (b_trs b) par = Some rp ->
  bstep b (BNormal par bts txs false newms) = (b', 0%N) ->
  (forall p, In p txs -> in_window bts (th_of_state (r_ms rp)) (snd p)) /\
  exists r tk, b_trs b' = b_trs b ++ [r] /\ r_par r = Some par /\
    get (s_trk (b_loc b')) (r_n r) = Some tk /\
    t_ts tk = bts /\ t_th tk = th_of_state (r_ms rp).
Proof.
  intros Hp. cbn [bstep]. rewrite Hp.
  destruct (new_and_add (b_loc b) (r_p rp) bts patch_th [] false) as [[[st1 pk] c1]|] eqn:E1;
    [|intro H; inversion H].
  destruct (new_and_add st1 (r_n rp) bts (th_of_state (r_ms rp)) txs false) as [[[st2 nk] cls]|] eqn:E2;
    [|intro H; inversion H].
  destruct (cls =? 0)%N eqn:Ec; cbn [negb]; [|intro H; inversion H].
  intro H. inversion H as [[Hb Hv]]. split.
  - now apply window_verdict_0.
  - destruct (new_and_add_tracker _ _ _ _ _ _ _ _ _ E2) as (tk & Hg & Hts & Hth).
    eexists. exists tk. cbn. repeat split; eauto.
Qed.

Lemma chain_patch_accept b tr bts ptxs b' rt :
  nth_error (b_trs b) tr = Some rt -> ptxs <> [] ->
  bstep b (BPatch tr bts ptxs) = (b', 0%N) ->
  (forall p, In p ptxs -> in_window bts patch_th (snd p)) /\
  exists r tk, b_trs b' = b_trs b ++ [r] /\
    get (s_trk (b_loc b')) (r_p r) = Some tk /\ t_ts tk = bts /\ t_th tk = patch_th.
Proof.
  intros Ht Hne. cbn [bstep]. rewrite Ht.
  destruct (r_par rt) as [par|]; [|intro H; inversion H].
  destruct (nth_error (b_trs b) par) as [rp|]; [|intro H; inversion H].
  destruct ptxs as [|p0 pr]; [congruence|].
  destruct (new_and_add (b_loc b) (r_p rp) bts patch_th (p0 :: pr) false) as [[[st1 pk] cls]|] eqn:E1;
    [|intro H; inversion H].
  destruct (cls =? 0)%N eqn:Ec; cbn [negb]; [|intro H; inversion H].
  intro H. inversion H as [[Hb Hv]]. split.
  - now apply window_verdict_0.
  - destruct (new_and_add_tracker _ _ _ _ _ _ _ _ _ E1) as (tk & Hg & Hts & Hth).
    eexists. exists tk. cbn. repeat split; eauto.
Qed.

(* the rejection classes *)
Lemma chain_normal_reject_window b par bts txs newms b' rp v :
  nth_error (b_trs b) par = Some rp ->
  bstep b (BNormal par bts txs false newms) = (b', v) -> (v = 2%N \/ v = 3%N) ->
  exists p, In p txs /\ ~ in_window bts (th_of_state (r_ms rp)) (snd p).
Proof.
  intros Hp. cbn [bstep]. rewrite Hp.
  destruct (new_and_add (b_loc b) (r_p rp) bts patch_th [] false) as [[[st1 pk] c1]|];
    [|intros H [?|?]; inversion H; subst; discriminate].
  destruct (new_and_add st1 (r_n rp) bts (th_of_state (r_ms rp)) txs false) as [[[st2 nk] cls]|];
    [|intros H [?|?]; inversion H; subst; discriminate].
  destruct (cls =? 0)%N; cbn [negb]; [|intros H [?|?]; inversion H; subst; discriminate].
  intros H Hv. inversion H as [[Hb Hw]]. clear H Hb.
  assert (Hnz : window_verdict bts (th_of_state (r_ms rp)) txs <> 0%N) by (destruct Hv; lia).
  clear Hv Hw. induction txs as [|[id ts] r IH]; [now cbn in Hnz|].
  cbn [window_verdict] in Hnz.
  destruct (range_check bts (th_of_state (r_ms rp)) ts) eqn:E.
  - destruct (IH Hnz) as (p & Hin & Hno). exists p. split; [now right|assumption].
  - exists (id, ts). split; [now left|]. cbn. intro Hw. apply window_iff in Hw. congruence.
Qed.

Example th_of_state_default : th_of_state 0 = 300000000 /\ th_of_state 2 = 2000.
Proof. split; reflexivity. Qed.

(* a chain in which block 2 raises the threshold from 1 ms to 5 ms: block 3 (executed on
   block 2's state) accepts a transaction 4 ms ahead and its id list has the 5 ms bound *)
Definition ch_raise : list bop :=
  [ BInit 300000000;
    BNormal 0 0 [(0%N, 0)] true (Some 1);
    BNormal 1 10000 [(1%N, 10900)] false (Some 5);
    BNormal 2 11000 [(2%N, 15000)] false None ].
Example ch_raise_verdicts :
  let run := fold_left (fun acc o => let '(b, vs) := acc in let '(b', v) := bstep b o in (b', vs ++ [v]))
                       ch_raise (binit, []) in
  snd run = [0%N; 0%N; 0%N; 0%N] /\
  option_map (fun tk => (t_ts tk, t_th tk)) (get (s_trk (b_loc (fst run))) 7) = Some (11000, 5000).
Proof. vm_compute. split; reflexivity. Qed.
