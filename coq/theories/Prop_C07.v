(* Property C07 — Imported blocks extend their parent with consistent height, link and time.
   This file holds only the property theorems; proofs are in Proofs_BlockImport.v. *)
From Coq Require Import Sorting.Permutation.
From Goloop Require Import lib.Bytes lib.GoInt Model_BlockImport Proofs_BlockImport.
From Goloop Require Import Link_C07.
Open Scope Z_scope.

(* verifyNewBlock accepts exactly the candidates that extend the parent *)
Theorem C07_accept_iff : forall p c,
  verify_new_block p c = Accept <->
  c_height c = p_height p + 1 /\
  c_prev c = p_id p /\
  c_version c = p_next_version p /\
  verify_votes p (c_votes c) = true /\
  (c_height c > 1 -> c_ts c = median (vote_times c) /\ c_ts c > p_ts p).
Proof. exact accept_iff. Qed.
Print Assumptions C07_accept_iff.

(* what "the votes are in order" means for a parent *)
Theorem C07_votes_ok_spec : forall p vs,
  verify_votes p vs = true <->
  match p_voters p with
  | None => vs = []
  | Some vl =>
      (p_height p = 0 /\ vs = []) \/
      (p_height p <> 0 /\
       (forall v, In v vs ->
          v_for v = p_id p /\ exists s, v_signer v = Some s /\ In s vl) /\
       NoDup (signers vs) /\
       (vl = [] \/ 3 * Z.of_nat (length vs) > 2 * Z.of_nat (length vl)))
  end.
Proof. exact verify_votes_spec. Qed.
Print Assumptions C07_votes_ok_spec.

(* ImportBlock / Import accept only children of a block of the node map that extend it *)
Theorem C07_import_accept_only_if : forall nodes c,
  import_block nodes c = Accept ->
  exists p, In p nodes /\
    (c_height c = p_height p + 1 /\ c_prev c = p_id p /\ c_version c = p_next_version p /\
     verify_votes p (c_votes c) = true /\
     (c_height c > 1 -> c_ts c = median (vote_times c) /\ c_ts c > p_ts p)) /\
    c_exec_ok c = true.
Proof. exact import_accept_only_if. Qed.
Print Assumptions C07_import_accept_only_if.

Theorem C07_import_accept_iff : forall nodes c,
  import_block nodes c = Accept <->
  exists p, find_parent nodes (c_prev c) = Some p /\ verify_new_block p c = Accept /\
            c_exec_ok c = true.
Proof. exact import_accept_iff. Qed.
Print Assumptions C07_import_accept_iff.

Theorem C07_import_reader_accept : forall active nodes hv c,
  import_reader active nodes hv c = Accept <->
  In hv active /\ import_block nodes (with_version c hv) = Accept.
Proof. exact import_reader_accept. Qed.
Print Assumptions C07_import_reader_accept.

(* changing one of height / previous id / version (at any height) or the timestamp (above
   height 1) of an accepted candidate gives a rejected one *)
Theorem C07_single_field_deviation : forall p c,
  verify_new_block p c = Accept ->
  (forall h', h' <> c_height c -> verify_new_block p (with_height c h') <> Accept) /\
  (forall id', id' <> c_prev c -> verify_new_block p (with_prev c id') <> Accept) /\
  (forall v', v' <> c_version c -> verify_new_block p (with_version c v') <> Accept) /\
  (c_height c > 1 -> forall t', t' <> c_ts c -> verify_new_block p (with_ts c t') <> Accept).
Proof. exact single_field_deviation. Qed.
Print Assumptions C07_single_field_deviation.

(* the same at the level of ImportBlock, where the parent is looked up by the previous id:
   a non-empty vote list pins the parent *)
Theorem C07_import_single_field_deviation : forall nodes c,
  import_block nodes c = Accept ->
  (forall h', h' <> c_height c -> import_block nodes (with_height c h') <> Accept) /\
  (forall v', v' <> c_version c -> import_block nodes (with_version c v') <> Accept) /\
  (c_height c > 1 -> forall t', t' <> c_ts c -> import_block nodes (with_ts c t') <> Accept) /\
  (c_votes c <> [] -> forall id', id' <> c_prev c -> import_block nodes (with_prev c id') <> Accept).
Proof. exact import_single_field_deviation. Qed.
Print Assumptions C07_import_single_field_deviation.

(* at height 1 the timestamp rules do not apply: any timestamp is accepted *)
Theorem C07_height1_timestamp_free : forall p c t',
  verify_new_block p c = Accept -> c_height c <= 1 ->
  verify_new_block p (with_ts c t') = Accept.
Proof. exact height1_timestamp_free. Qed.
Print Assumptions C07_height1_timestamp_free.

(* the median as coded: independent of the order of the items; the middle element of the
   ascending arrangement for an odd count; for an even count the int64 sum of the two middle
   elements halved toward zero; and, when all timestamps are in [-2^62, 2^62) so that the sum
   cannot wrap, a value between the smallest and the largest timestamp *)
Theorem C07_median_spec :
  (forall l l', Permutation l l' -> median l = median l') /\
  (forall l, Permutation l (isort l) /\ Sorted.StronglySorted Z.le (isort l)) /\
  median [] = 0 /\
  (forall l k, length l = (2 * k + 1)%nat -> nth_error (isort l) k = Some (median l)) /\
  (forall l k, length l = (2 * k + 2)%nat ->
     exists a b, nth_error (isort l) k = Some a /\ nth_error (isort l) (S k) = Some b /\
                 a <= b /\ median l = Z.quot (wrap_i64 (a + b)) 2) /\
  (forall l lo hi, l <> [] ->
     (forall x, In x l -> -4611686018427387904 <= x <= 4611686018427387903) ->
     (forall x, In x l -> lo <= x <= hi) ->
     lo <= median l <= hi).
Proof. exact median_spec. Qed.
Print Assumptions C07_median_spec.

(* without the range hypothesis the last clause fails: 2^62 + 2^62 wraps *)
Theorem C07_median_wraps :
  median [4611686018427387904; 4611686018427387904] = -4611686018427387904.
Proof. exact median_wraps. Qed.
Print Assumptions C07_median_wraps.

(* ---- kernel link (Link_C07.v).  enoughVote is re-generated from
   consensus/commitvotelist.go on every run (tools/go2coq); enough_vote of the model,
   used by votes_ok in the theorems above, IS the test of the current Go code for every
   number of voters a Go slice can have (0 <= voters <= 2^62-1) ---- *)
Theorem C07_kernel_enoughVote : forall voted voters,
  0 <= voters <= 4611686018427387903 ->
  enough_vote voted voters = enoughVote voted voters.
Proof. exact enough_vote_is_enoughVote. Qed.
Print Assumptions C07_kernel_enoughVote.

Theorem C07_kernel_params : Link_C07.kernel_params_pinned.
Proof. exact Link_C07.kernel_params_ok. Qed.
Print Assumptions C07_kernel_params.
