(* Property C02 — a correct validator never equivocates, even across crashes;
   every vote or proposal it broadcasts is durably remembered before it is sent.
   Only the property theorems; proofs are in Proofs_ConsensusNode.v.

   [run_evs n own blocks evs] is the state of the model of consensus/consensus.go
   (Model_ConsensusNode.v) after ANY list of inputs: messages in any order,
   timeouts, block-manager callbacks, crashes at any output inside any event
   (the [option nat] of an input), any number of surviving unsynced WAL records
   ([ECrash kr kl kc]), any restarts.  [sent] is the ghost history of everything
   the validator's key signed and handed to the network; its last component is
   the emission counter, so two separate emissions are two different entries. *)
From Coq Require Import List ZArith.
From Goloop Require Import Model_ConsensusNode Proofs_ConsensusNode.
Open Scope Z_scope.

Theorem C02_no_double_vote :
  forall (n : nat) (own : Z) (blocks : list blk), 0 <= own < Z.of_nat n ->
  forall evs r t a b i j,
    In (SVote r t a i) (sent (run_evs n own blocks evs)) ->
    In (SVote r t b j) (sent (run_evs n own blocks evs)) -> a = b /\ i = j.
Proof. exact no_double_vote. Qed.
Print Assumptions C02_no_double_vote.

Theorem C02_no_double_proposal :
  forall (n : nat) (own : Z) (blocks : list blk), 0 <= own < Z.of_nat n ->
  forall evs r b1 p1 i b2 p2 j,
    In (SProposal r b1 p1 i) (sent (run_evs n own blocks evs)) ->
    In (SProposal r b2 p2 j) (sent (run_evs n own blocks evs)) -> b1 = b2 /\ p1 = p2 /\ i = j.
Proof. exact no_double_proposal. Qed.
Print Assumptions C02_no_double_proposal.

Theorem C02_logged_before_sent :
  forall (n : nat) (own : Z) (blocks : list blk), 0 <= own < Z.of_nat n ->
  forall evs m,
    In m (sent (run_evs n own blocks evs)) ->
    durable_at_send own (run_evs n own blocks evs) m.
Proof. exact logged_before_sent. Qed.
Print Assumptions C02_logged_before_sent.

Theorem C02_position_covers_wal :
  forall (n : nat) (own : Z) (blocks : list blk), 0 <= own < Z.of_nat n ->
  forall evs v,
    status_ (run_evs n own blocks evs) = Running ->
    In (RVote v) (wal_all (wal_r (run_evs n own blocks evs))) -> v_from v = own ->
    pos_le (v_round v, mcode (v_type v)) (pos (run_evs n own blocks evs)).
Proof. exact position_covers_wal. Qed.
Print Assumptions C02_position_covers_wal.
