(* Property C02 — a correct validator never equivocates, even across crashes;
   every vote or proposal it broadcasts is durably remembered before it is sent.
   Only the property theorems; proofs are in Proofs_ConsensusNode.v.

   [run_evs n own blocks evs] is the state of the model of consensus/consensus.go
   (Model_ConsensusNode.v) after ANY list of inputs: messages in any order,
   timeouts, block-manager callbacks, crashes at any output inside any event
   (the [option nat] of an input), any number of surviving unsynced WAL records
   ([ECrash kr kl kc]), any restarts.  [sent] is the ghost history of everything
   the validator's key signed and handed to the network; its last component is
   the emission counter, so two separate emissions are two different entries. *)
From Coq Require Import List ZArith.
From Goloop Require Import Model_ConsensusNode Proofs_ConsensusNode.
From Goloop Require Import Link_C02.
Open Scope Z_scope.

Theorem C02_no_double_vote :
  forall (n : nat) (own : Z) (blocks : list blk), 0 <= own < Z.of_nat n ->
  forall evs r t a b i j,
    In (SVote r t a i) (sent (run_evs n own blocks evs)) ->
    In (SVote r t b j) (sent (run_evs n own blocks evs)) -> a = b /\ i = j.
Proof. exact no_double_vote. Qed.
Print Assumptions C02_no_double_vote.

Theorem C02_no_double_proposal :
  forall (n : nat) (own : Z) (blocks : list blk), 0 <= own < Z.of_nat n ->
  forall evs r b1 p1 i b2 p2 j,
    In (SProposal r b1 p1 i) (sent (run_evs n own blocks evs)) ->
    In (SProposal r b2 p2 j) (sent (run_evs n own blocks evs)) -> b1 = b2 /\ p1 = p2 /\ i = j.
Proof. exact no_double_proposal. Qed.
Print Assumptions C02_no_double_proposal.

Theorem C02_logged_before_sent :
  forall (n : nat) (own : Z) (blocks : list blk), 0 <= own < Z.of_nat n ->
  forall evs m,
    In m (sent (run_evs n own blocks evs)) ->
    durable_at_send own (run_evs n own blocks evs) m.
Proof. exact logged_before_sent. Qed.
Print Assumptions C02_logged_before_sent.

Theorem C02_position_covers_wal :
  forall (n : nat) (own : Z) (blocks : list blk), 0 <= own < Z.of_nat n ->
  forall evs v,
    status_ (run_evs n own blocks evs) = Running ->
    In (RVote v) (wal_all (wal_r (run_evs n own blocks evs))) -> v_from v = own ->
    pos_le (v_round v, mcode (v_type v)) (pos (run_evs n own blocks evs)).
Proof. exact position_covers_wal. Qed.
Print Assumptions C02_position_covers_wal.

(* ---- kernel links (Link_C02.v).  isValidTransition, getProposerIndex,
   hasOverTwoThirds and overTwoThirdsDecision are re-generated from consensus/consensus.go,
   step.go and voteset.go on every run (tools/go2coq); the step guard, the proposer
   rotation and the +2/3 tests of the engine model, used in all theorems above, ARE the
   decisions of the current Go code (step_z: the iota values of step.go; n <= 2^62-1
   validators; height+round inside int64) ---- *)
Theorem C02_kernel_isValidTransition : forall from to : step,
  valid_transition from to = isValidTransition (step_z from) (step_z to).
Proof. exact valid_transition_is_isValidTransition. Qed.
Print Assumptions C02_kernel_isValidTransition.

Theorem C02_kernel_getProposerIndex : forall (n : nat) (r : Z),
  0 <= r -> 1 + r <= 9223372036854775807 -> 0 < Z.of_nat n <= 9223372036854775807 ->
  proposer n r = getProposerIndex 1 r (Z.of_nat n).
Proof. exact proposer_is_getProposerIndex. Qed.
Print Assumptions C02_kernel_getProposerIndex.

Theorem C02_kernel_hasOverTwoThirds : forall vs : vset,
  Z.of_nat (length vs) <= 4611686018427387903 ->
  vs_has23 vs = hasOverTwoThirds (Z.of_nat (vs_count vs)) (Z.of_nat (length vs)).
Proof. exact vs_has23_is_hasOverTwoThirds. Qed.
Print Assumptions C02_kernel_hasOverTwoThirds.

Theorem C02_kernel_overTwoThirdsDecision : forall (vs : vset) (d : option N),
  Z.of_nat (length vs) <= 4611686018427387903 ->
  over23 (vs_count_dec vs d) (length vs)
  = overTwoThirdsDecision (Z.of_nat (vs_count_dec vs d)) (Z.of_nat (length vs)).
Proof. exact vs_over23_test_is_overTwoThirdsDecision. Qed.
Print Assumptions C02_kernel_overTwoThirdsDecision.

Theorem C02_kernel_params : Link_C02.kernel_params_pinned.
Proof. exact Link_C02.kernel_params_ok. Qed.
Print Assumptions C02_kernel_params.
