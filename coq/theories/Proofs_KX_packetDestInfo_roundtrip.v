(* Proofs_KX_packetDestInfo_roundtrip.v -- packetDestInfo.dest inverts newPacketDestInfo
   Split out of Proofs_Kernels.v: this file imports ONLY the generated kernel(s)
   gen/K_newPacketDestInfo.v, gen/K_packetDestInfoDest.v, so an edit of another kernel's Go source cannot break it.
   Style: stdlib only; arithmetic closed by lia with the euclidean-division hook. *)
From Coq Require Import ZArith Bool String List Lia.
From Coq Require Import ZifyBool.
From Goloop Require Import lib.GoInt Proofs_K_tactics Proofs_K_newPacketDestInfo Proofs_K_packetDestInfoDest.
From Goloop.gen Require Import K_newPacketDestInfo K_packetDestInfoDest.
Import ListNotations.
Local Open Scope Z_scope.

Ltac Zify.zify_post_hook ::= Z.to_euclidean_division_equations.

Lemma packetDestInfoDest_roundtrip dest ttl :
  0 <= dest <= max_u8 -> 0 <= ttl <= max_u8 ->
  packetDestInfoDest (newPacketDestInfo dest ttl) = dest.
Proof.
  intros Hd Ht. rewrite newPacketDestInfo_spec by lia. unfold packetDestInfoDest.
  rewrite shiftr_div by lia. change (2 ^ 8) with 256.
  replace ((dest * 256 + ttl) / 256) with dest by lia. apply wrap_u8_small. lia.
Qed.
