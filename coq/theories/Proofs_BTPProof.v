(* Proofs_BTPProof.v — what secp256k1ProofContext.Verify / VerifyPart and
   proofContextMap.Verify accept, for every context, proof and recovery function. *)
From Coq Require Import Arith.
From Goloop Require Import lib.Bytes Model_Quorum Proofs_Quorum Model_BTPProof.
Open Scope nat_scope.

Fixpoint somes {A} (l : list (option A)) : list A :=
  match l with
  | [] => []
  | Some a :: r => a :: somes r
  | None :: r => somes r
  end.

(* the validators (addresses) at the positions that carry a signature *)
Fixpoint signers {A B} (vals : list (option A)) (sigs : list (option B)) : list A :=
  match vals, sigs with
  | v :: vr, s :: sr =>
      match v, s with
      | Some a, Some _ => a :: signers vr sr
      | _, _ => signers vr sr
      end
  | _, _ => []
  end.

(* one flag per validator position: does the proof carry a signature there *)
Fixpoint pflags {A B} (vals : list (option A)) (sigs : list (option B)) : list bool :=
  match vals with
  | [] => []
  | _ :: vr =>
      match sigs with
      | [] => false :: pflags vr sigs
      | Some _ :: sr => true :: pflags vr sr
      | None :: sr => false :: pflags vr sr
      end
  end.

Lemma pflags_length {A B} (vals : list (option A)) : forall sigs : list (option B),
  length (pflags vals sigs) = length vals.
Proof. induction vals as [|v vr IH]; intros [|[s|] sr]; cbn; auto. Qed.

Lemma pflags_true {A B} (vals : list (option A)) : forall (sigs : list (option B)) i,
  nth_error (pflags vals sigs) i = Some true ->
  exists sg, nth_error sigs i = Some (Some sg).
Proof.
  induction vals as [|v vr IH]; intros sigs i H; cbn in H.
  - destruct i; discriminate.
  - destruct sigs as [|[s|] sr]; destruct i as [|i]; cbn in *; try discriminate.
    + destruct (IH [] i H) as [sg Hsg]. destruct i; discriminate.
    + exists s. reflexivity.
    + apply IH. exact H.
    + apply IH. exact H.
Qed.

Lemma pflags_count {A B} (vals : list (option A)) : forall sigs : list (option B),
  (forall j sg, nth_error sigs j = Some (Some sg) -> j < length vals) ->
  count_true (pflags vals sigs) = count_present sigs.
Proof.
  induction vals as [|v vr IH]; intros sigs H; cbn.
  - induction sigs as [|[s|] sr IHs]; cbn; auto.
    + specialize (H 0 s eq_refl). cbn in H. lia.
    + apply IHs. intros j sg Hj. specialize (H (S j) sg Hj). cbn in H. lia.
  - destruct sigs as [|[s|] sr]; cbn.
    + clear. induction vr; cbn; auto.
    + f_equal. apply IH. intros j sg Hj. specialize (H (S j) sg Hj). cbn in H. lia.
    + apply IH. intros j sg Hj. specialize (H (S j) sg Hj). cbn in H. lia.
Qed.

Lemma signers_sub {A B} (vals : list (option A)) : forall (sigs : list (option B)) a,
  In a (signers vals sigs) -> In a (somes vals).
Proof.
  induction vals as [|[v|] vr IH]; intros [|[s|] sr] a H; cbn in *; try contradiction; auto.
  - destruct H as [->|H]; [left; reflexivity|right; eauto].
  - right. eauto.
  - eauto.
  - eauto.
Qed.

Lemma signers_nodup {A B} (vals : list (option A)) : forall sigs : list (option B),
  NoDup (somes vals) -> NoDup (signers vals sigs).
Proof.
  induction vals as [|[v|] vr IH]; intros [|[s|] sr] H; cbn in *; try constructor; auto.
  - inversion H; subst. intro Hin. apply H2. eapply signers_sub; eauto.
  - inversion H; subst. auto.
  - inversion H; subst. auto.
Qed.

Lemma signers_pos {A B} (vals : list (option A)) : forall (sigs : list (option B)) a,
  In a (signers vals sigs) ->
  exists j sg, nth_error vals j = Some (Some a) /\ nth_error sigs j = Some (Some sg).
Proof.
  induction vals as [|v vr IH]; intros [|s sr] a H; cbn in H; try contradiction.
  destruct v as [v|], s as [s|].
  - destruct H as [->|H].
    + exists 0, s. split; reflexivity.
    + destruct (IH sr a H) as [j [sg [H1 H2]]]. exists (S j), sg. split; assumption.
  - destruct (IH sr a H) as [j [sg [H1 H2]]]. exists (S j), sg. split; assumption.
  - destruct (IH sr a H) as [j [sg [H1 H2]]]. exists (S j), sg. split; assumption.
  - destruct (IH sr a H) as [j [sg [H1 H2]]]. exists (S j), sg. split; assumption.
Qed.

Lemma signers_length {A B} (vals : list (option A)) : forall sigs : list (option B),
  (forall j sg, nth_error sigs j = Some (Some sg) -> exists a, nth_error vals j = Some (Some a)) ->
  length (signers vals sigs) = count_present sigs.
Proof.
  induction vals as [|v vr IH]; intros sigs H.
  - cbn. induction sigs as [|[s|] sr IHs]; cbn; auto.
    + destruct (H 0 s eq_refl) as [a Ha]. discriminate.
    + apply IHs. intros j sg Hj. destruct (H (S j) sg Hj) as [a Ha]. destruct j; discriminate.
  - destruct sigs as [|[s|] sr]; cbn.
    + destruct v; reflexivity.
    + destruct (H 0 s eq_refl) as [a Ha]. cbn in Ha. inversion Ha; subst. cbn. f_equal.
      apply IH. intros j sg Hj. apply (H (S j) sg Hj).
    + assert (E : length (signers vr sr) = count_present sr).
      { apply IH. intros j sg Hj. apply (H (S j) sg Hj). }
      destruct v; exact E.
Qed.

Section Proofs.
  Context {sigT addrT : Type}.
  Variable addr_eqb : addrT -> addrT -> bool.
  Variable recover : decision -> sigT -> option addrT.
  Hypothesis addr_eqb_eq : forall a b, addr_eqb a b = true <-> a = b.

  Notation verify_part := (verify_part addr_eqb recover).
  Notation verify_loop := (verify_loop addr_eqb recover).
  Notation verify := (verify addr_eqb recover).
  Notation pcm_verify := (pcm_verify addr_eqb recover).
  Notation pcm_loop := (pcm_loop addr_eqb recover).

  (* the signature recovers to the validator at position i *)
  Definition part_ok (d : decision) (vals : list (option addrT)) (i : nat) (sg : sigT) : Prop :=
    exists a, recover d sg = Some a /\ nth_error vals i = Some (Some a).

  Theorem verify_part_iff d vals idx s i :
    verify_part d vals idx s = Some i <->
    idx = Z.of_nat i /\ exists sg, s = Some sg /\ part_ok d vals i sg.
  Proof.
    unfold Model_BTPProof.verify_part, part_ok.
    destruct ((idx <? 0)%Z || (Z.of_nat (length vals) <=? idx)%Z) eqn:E.
    - split; [discriminate|]. intros [-> [sg [_ [a [_ Hn]]]]]. exfalso.
      assert (i < length vals) by (apply nth_error_Some; congruence).
      apply orb_true_iff in E. destruct E as [E|E].
      + apply Z.ltb_lt in E. lia.
      + apply Z.leb_le in E. lia.
    - apply orb_false_iff in E. destruct E as [E1 E2].
      apply Z.ltb_ge in E1. apply Z.leb_gt in E2.
      destruct (nth_error vals (Z.to_nat idx)) as [va|] eqn:Hn.
      + destruct s as [sg|].
        * destruct (recover d sg) as [a|] eqn:Hr.
          -- destruct va as [v|].
             ++ destruct (addr_eqb v a) eqn:Ha.
                ** apply addr_eqb_eq in Ha; subst. split.
                   --- intro H; inversion H; subst. split; [lia|]. exists sg. split; [reflexivity|].
                       exists a. auto.
                   --- intros [-> _]. rewrite Nat2Z.id. reflexivity.
                ** split; [discriminate|]. intros [-> [sg' [Hs [a' [Hr' Hn']]]]].
                   inversion Hs; subst. rewrite Nat2Z.id in Hn. rewrite Hr in Hr'. inversion Hr'; subst.
                   rewrite Hn in Hn'. inversion Hn'; subst.
                   assert (addr_eqb a' a' = true) by (apply addr_eqb_eq; reflexivity). congruence.
             ++ split; [discriminate|]. intros [-> [sg' [_ [a' [_ Hn']]]]].
                rewrite Nat2Z.id in Hn. congruence.
          -- split; [discriminate|]. intros [_ [sg' [Hs [a' [Hr' _]]]]]. inversion Hs; subst. congruence.
        * split; [discriminate|]. intros [_ [sg' [Hs _]]]. discriminate.
      + split; [discriminate|]. intros [-> [sg' [_ [a' [_ Hn']]]]]. rewrite Nat2Z.id in Hn. congruence.
  Qed.

  Lemma verify_part_pos d vals i sg :
    (exists j, verify_part d vals (Z.of_nat i) (Some sg) = Some j) <-> part_ok d vals i sg.
  Proof.
    split.
    - intros [j H]. apply verify_part_iff in H. destruct H as [Hi [sg' [Hs Hp]]].
      inversion Hs; subst. apply Nat2Z.inj in Hi. subst. exact Hp.
    - intro Hp. exists i. apply verify_part_iff. split; [reflexivity|]. exists sg. auto.
  Qed.

  Lemma loop_spec d vals sigs : forall i valid v,
    verify_loop d vals i sigs valid = Some v <->
    (forall j sg, nth_error sigs j = Some (Some sg) -> part_ok d vals (i + j) sg) /\
    v = valid + count_present sigs.
  Proof.
    induction sigs as [|[sg|] r IH]; intros i valid v; cbn [Model_BTPProof.verify_loop count_present].
    - split.
      + intro H; inversion H; subst. split; [|lia]. intros [|j] sg Hj; discriminate.
      + intros [_ ->]. f_equal. lia.
    - destruct (verify_part d vals (Z.of_nat i) (Some sg)) as [j|] eqn:Hp.
      + assert (Hok : part_ok d vals i sg) by (apply verify_part_pos; eauto).
        rewrite IH. split.
        * intros [H ->]. split; [|lia]. intros [|j'] sg' Hj.
          -- cbn in Hj. inversion Hj; subst. rewrite Nat.add_0_r. exact Hok.
          -- cbn in Hj. replace (i + S j') with (S i + j') by lia. apply H. exact Hj.
        * intros [H ->]. split; [|lia]. intros j' sg' Hj.
          replace (S i + j') with (i + S j') by lia. apply H. exact Hj.
      + split; [discriminate|]. intros [H _]. exfalso.
        assert (Hok : part_ok d vals (i + 0) sg) by (apply H; reflexivity).
        rewrite Nat.add_0_r in Hok. apply verify_part_pos in Hok. destruct Hok as [j Hj]. congruence.
    - rewrite IH. split.
      + intros [H ->]. split; [|reflexivity]. intros [|j'] sg' Hj; [discriminate|].
        cbn in Hj. replace (i + S j') with (S i + j') by lia. apply H. exact Hj.
      + intros [H ->]. split; [|reflexivity]. intros j' sg' Hj.
        replace (S i + j') with (i + S j') by lia. apply H. exact Hj.
  Qed.

  (* the accept set of Verify *)
  Theorem accept_iff d vals sigs :
    verify d vals sigs = true <->
    (forall i sg, nth_error sigs i = Some (Some sg) -> part_ok d vals i sg) /\
    3 * count_present sigs > 2 * length vals.
  Proof.
    unfold Model_BTPProof.verify.
    destruct (verify_loop d vals 0 sigs 0) as [v|] eqn:Hl.
    - apply loop_spec in Hl. destruct Hl as [H ->]. cbn [plus].
      rewrite negb_true_iff, ntm_too_few_spec. split.
      + intro Hq. split; [exact H|exact Hq].
      + intros [_ Hq]. exact Hq.
    - split; [discriminate|]. intros [H _]. exfalso.
      assert (verify_loop d vals 0 sigs 0 = Some (0 + count_present sigs)).
      { apply loop_spec. split; [exact H|reflexivity]. }
      congruence.
  Qed.

  (* a context without validators accepts nothing *)
  Theorem empty_context_rejects d sigs : verify d [] sigs = false.
  Proof.
    destruct (verify d [] sigs) eqn:E; [|reflexivity].
    apply accept_iff in E. destruct E as [H Hq]. cbn in Hq.
    destruct sigs as [|s r]; [cbn in Hq; lia|].
    exfalso. assert (exists i sg, nth_error (s :: r) i = Some (Some sg)) as [i [sg Hi]].
    { clear - Hq. generalize dependent (s :: r). intro l. induction l as [|[x|] l IH]; cbn; intro Hq.
      - lia.
      - exists 0, x. reflexivity.
      - destruct (IH Hq) as [i [sg Hi]]. exists (S i), sg. exact Hi. }
    destruct (H i sg Hi) as [a [_ Hn]]. destruct i; discriminate.
  Qed.

  (* the signers are distinct validators when the context lists distinct addresses *)
  Theorem distinct_signers d vals sigs :
    verify d vals sigs = true -> NoDup (somes vals) ->
    let ss := signers vals sigs in
    NoDup ss /\ length ss = count_present sigs /\ 3 * length ss > 2 * length vals /\
    forall a, In a ss -> In (Some a) vals /\ exists sg, In (Some sg) sigs /\ recover d sg = Some a.
  Proof.
    intros Hv Hnd. apply accept_iff in Hv. destruct Hv as [H Hq]. cbn zeta.
    assert (Hl : length (signers vals sigs) = count_present sigs).
    { apply signers_length. intros j sg Hj. destruct (H j sg Hj) as [a [_ Ha]]. eauto. }
    repeat split.
    - apply signers_nodup. exact Hnd.
    - exact Hl.
    - rewrite Hl. exact Hq.
    - destruct (signers_pos _ _ _ H0) as [j [sg [H1 H2]]]. eapply nth_error_In; eauto.
    - destruct (signers_pos _ _ _ H0) as [j [sg [H1 H2]]]. exists sg. split.
      + eapply nth_error_In; eauto.
      + destruct (H j sg H2) as [a' [Hr Hn]]. congruence.
  Qed.

  (* two accepted proofs over one context — for whatever decisions — carry a
     signature of the same validator position *)
  Theorem proofs_intersect vals d1 sigs1 d2 sigs2 :
    verify d1 vals sigs1 = true -> verify d2 vals sigs2 = true ->
    exists i sg1 sg2 a,
      nth_error sigs1 i = Some (Some sg1) /\ nth_error sigs2 i = Some (Some sg2) /\
      nth_error vals i = Some (Some a) /\ recover d1 sg1 = Some a /\ recover d2 sg2 = Some a.
  Proof.
    intros H1 H2. apply accept_iff in H1. apply accept_iff in H2.
    destruct H1 as [P1 Q1], H2 as [P2 Q2].
    assert (B1 : forall j sg, nth_error sigs1 j = Some (Some sg) -> j < length vals).
    { intros j sg Hj. destruct (P1 j sg Hj) as [a [_ Ha]]. apply nth_error_Some. congruence. }
    assert (B2 : forall j sg, nth_error sigs2 j = Some (Some sg) -> j < length vals).
    { intros j sg Hj. destruct (P2 j sg Hj) as [a [_ Ha]]. apply nth_error_Some. congruence. }
    destruct (quorum_intersect (length vals) (pflags vals sigs1) (pflags vals sigs2)) as [i [F1 F2]].
    - apply pflags_length.
    - apply pflags_length.
    - rewrite pflags_count by exact B1. exact Q1.
    - rewrite pflags_count by exact B2. exact Q2.
    - destruct (pflags_true _ _ _ F1) as [sg1 S1]. destruct (pflags_true _ _ _ F2) as [sg2 S2].
      destruct (P1 i sg1 S1) as [a1 [R1 N1]]. destruct (P2 i sg2 S2) as [a2 [R2 N2]].
      assert (a1 = a2) by congruence. subst.
      exists i, sg1, sg2, a2. auto.
  Qed.

  (* ---------- sequences of calls on one object ---------- *)

  (* the verdict of the k-th call on a part object is the verdict of a fresh
     call with the k-th decision: it depends on (context, decision, part) only *)
  Theorem part_session_stateless vals idx s ds k d :
    nth_error ds k = Some d ->
    nth_error (part_session addr_eqb recover vals idx s ds) k = Some (verify_part d vals idx s).
  Proof. intro H. exact (map_nth_error (fun d => verify_part d vals idx s) k ds H). Qed.

  Theorem verify_session_stateless vals sigs ds k d :
    nth_error ds k = Some d ->
    nth_error (verify_session addr_eqb recover vals sigs ds) k = Some (verify d vals sigs).
  Proof. intro H. exact (map_nth_error (fun d => verify d vals sigs) k ds H). Qed.

  (* in particular a part accepted for one decision is accepted for another one
     only if the signature recovers to the same validator for that one too *)
  Corollary part_session_no_replay vals idx s ds k d i :
    nth_error ds k = Some d ->
    nth_error (part_session addr_eqb recover vals idx s ds) k = Some (Some i) ->
    exists sg, s = Some sg /\ part_ok d vals i sg.
  Proof.
    intros Hk Hs. rewrite (part_session_stateless _ _ _ _ _ _ Hk) in Hs. inversion Hs as [Hv].
    apply verify_part_iff in Hv. destruct Hv as [_ Hv]. exact Hv.
  Qed.

  (* ---------- map versions ---------- *)

  Lemma pcm_step_prefix (maps : list (list (Z * list (option addrT)))) (o : @pcm_op sigT addrT) :
    exists extra, pcm_step maps o = maps ++ extra.
  Proof.
    destruct o as [from ch inact| |]; cbn.
    - destruct (nth_error maps from); [eexists; reflexivity | exists []; symmetry; apply app_nil_r].
    - exists []; symmetry; apply app_nil_r.
    - exists []; symmetry; apply app_nil_r.
  Qed.

  Lemma pcm_versions_prefix (ops : list (@pcm_op sigT addrT)) : forall maps : list (list (Z * list (option addrT))),
    exists extra, pcm_versions maps ops = maps ++ extra.
  Proof.
    unfold pcm_versions. induction ops as [|o r IH]; intro maps; cbn [fold_left].
    - exists []; symmetry; apply app_nil_r.
    - destruct (pcm_step_prefix maps o) as [e1 E]. rewrite E.
      destruct (IH (maps ++ e1)) as [e2 E2]. rewrite E2.
      exists (e1 ++ e2). symmetry; apply app_assoc.
  Qed.

  (* a version, once it exists, is the same map after any further history:
     deriving the next map never changes what an older map contains *)
  Theorem old_versions_unchanged (maps : list (list (Z * list (option addrT)))) (ops : list (@pcm_op sigT addrT)) i m :
    nth_error maps i = Some m -> nth_error (pcm_versions maps ops) i = Some m.
  Proof.
    intro H. destruct (pcm_versions_prefix ops maps) as [extra ->].
    rewrite nth_error_app1; [exact H|]. apply nth_error_Some. congruence.
  Qed.

  (* hence every verdict obtained from a version is obtained again later *)
  Theorem verdicts_repeat (maps : list (list (Z * list (option addrT)))) (ops : list (@pcm_op sigT addrT)) o b :
    pcm_answer addr_eqb recover maps o = Some b ->
    pcm_answer addr_eqb recover (pcm_versions maps ops) o = Some b.
  Proof.
    destruct o as [from ch inact|on src h r dg pf|on ntid]; cbn; [discriminate| |].
    - destruct (nth_error maps on) as [m|] eqn:Hm; [|discriminate].
      rewrite (old_versions_unchanged maps ops on m Hm). auto.
    - destruct (nth_error maps on) as [m|] eqn:Hm; [|discriminate].
      rewrite (old_versions_unchanged maps ops on m Hm). auto.
  Qed.

  (* ---------- proofContextMap.Verify ---------- *)

  (* the digests that have a proof context, with that context *)
  Fixpoint with_ctx (ctxs : list (Z * list (option addrT))) (digests : list (Z * bytes))
    : list (Z * bytes * list (option addrT)) :=
    match digests with
    | [] => []
    | (ntid, h) :: r =>
        match ctx_for ctxs ntid with
        | Some vals => (ntid, h, vals) :: with_ctx ctxs r
        | None => with_ctx ctxs r
        end
    end.

  Lemma pcm_count_with_ctx ctxs digests : pcm_count ctxs digests = length (with_ctx ctxs digests).
  Proof.
    induction digests as [|[ntid h] r IH]; cbn; auto.
    destruct (ctx_for ctxs ntid); cbn; auto.
  Qed.

  Definition proof_ok (src : bytes) (height round : Z)
             (e : Z * bytes * list (option addrT)) (sigs : list (option sigT)) : Prop :=
    verify (Decision src (fst (fst e)) height round (snd (fst e))) (snd e) sigs = true.

  Lemma pcm_loop_spec src height round ctxs digests : forall proofs,
    pcm_loop src height round ctxs digests proofs = true <->
    exists sigss rest, proofs = map Some sigss ++ rest /\
      Forall2 (proof_ok src height round) (with_ctx ctxs digests) sigss.
  Proof.
    induction digests as [|[ntid h] r IH]; intro proofs; cbn.
    - split; [|reflexivity]. intros _. exists [], proofs. split; [reflexivity|constructor].
    - destruct (ctx_for ctxs ntid) as [vals|] eqn:Hc.
      + destruct proofs as [|[sigs|] pr].
        * split; [discriminate|]. intros [sigss [rest [Hp HF]]]. inversion HF; subst. discriminate.
        * destruct (verify (Decision src ntid height round h) vals sigs) eqn:Hv.
          -- rewrite IH. split.
             ++ intros [sigss [rest [-> HF]]]. exists (sigs :: sigss), rest. split; [reflexivity|].
                constructor; [exact Hv|exact HF].
             ++ intros [sigss [rest [Hp HF]]]. inversion HF as [|? s' ? ss' Hok HF']; subst.
                cbn in Hp. inversion Hp; subst. exists ss', rest. split; [reflexivity|exact HF'].
          -- split; [discriminate|]. intros [sigss [rest [Hp HF]]].
             inversion HF as [|? s' ? ss' Hok HF']; subst. cbn in Hp. inversion Hp; subst.
             unfold proof_ok in Hok. cbn in Hok. congruence.
        * split; [discriminate|]. intros [sigss [rest [Hp HF]]].
          inversion HF; subst. cbn in Hp. discriminate.
      + apply IH.
  Qed.

  Lemma Forall2_len2 {A B} (P : A -> B -> Prop) l l' : Forall2 P l l' -> length l = length l'.
  Proof. intro HF. induction HF; cbn; auto. Qed.

  (* accepted iff there is exactly one decodable proof per network type that has
     a proof context, in digest order, and each verifies for its own decision *)
  Theorem pcm_accept_iff src height round ctxs digests proofs :
    pcm_verify src height round ctxs digests proofs = true <->
    exists sigss, proofs = map Some sigss /\
      Forall2 (proof_ok src height round) (with_ctx ctxs digests) sigss.
  Proof.
    unfold Model_BTPProof.pcm_verify. rewrite pcm_count_with_ctx.
    destruct (Nat.eqb (length (with_ctx ctxs digests)) (length proofs)) eqn:E.
    - apply Nat.eqb_eq in E. rewrite pcm_loop_spec. split.
      + intros [sigss [rest [-> HF]]]. exists sigss. split; [|exact HF].
        pose proof (Forall2_len2 _ _ _ HF) as L. rewrite app_length, map_length in E.
        destruct rest; [apply app_nil_r|cbn in E; lia].
      + intros [sigss [-> HF]]. exists sigss, []. split; [symmetry; apply app_nil_r|exact HF].
    - split; [discriminate|]. intros [sigss [-> HF]].
      pose proof (Forall2_len2 _ _ _ HF) as L. rewrite map_length in E.
      apply Nat.eqb_neq in E. contradiction.
  Qed.
End Proofs.

(* ---------- the ground-truth instance used by the correspondence run ---------- *)

Lemma baddr_eqb_eq a b : baddr_eqb a b = true <-> a = b.
Proof.
  destruct a as [i|], b as [j|]; cbn; split; intro H; try discriminate; try reflexivity.
  - apply Nat.eqb_eq in H. congruence.
  - inversion H. apply Nat.eqb_refl.
Qed.

Lemma decision_eqb_eq a b : decision_eqb a b = true <-> a = b.
Proof.
  destruct a as [s1 n1 h1 r1 x1], b as [s2 n2 h2 r2 x2]. unfold decision_eqb. cbn.
  rewrite !andb_true_iff, !Z.eqb_eq, !bytes_eqb_eq. split.
  - intros [[[[-> ->] ->] ->] ->]. reflexivity.
  - intro H; inversion H; subst. repeat split.
Qed.

(* with the signature ground truth: accepted iff every present entry i is a
   correct signature over exactly this decision by the key that the context
   lists at position i, and more than two thirds of the positions are present *)
Theorem bt_accept_iff d (vals : list (option nat)) (sigs : list (option bsig)) :
  bt_verify d vals sigs = true <->
  (forall i sg, nth_error sigs i = Some (Some sg) ->
     exists k, sg = BSigned k d /\ nth_error vals i = Some (Some k)) /\
  3 * count_present sigs > 2 * length vals.
Proof.
  unfold bt_verify. rewrite (accept_iff baddr_eqb bt_recover baddr_eqb_eq).
  unfold bt_vals. rewrite map_length.
  assert (Hx : forall i sg, part_ok bt_recover d (map (option_map BKey) vals) i sg <->
                            exists k, sg = BSigned k d /\ nth_error vals i = Some (Some k)).
  { intros i sg. unfold part_ok. split.
    - intros [a [Hr Hn]]. rewrite nth_error_map in Hn.
      destruct (nth_error vals i) as [[k|]|]; cbn in Hn; try discriminate.
      inversion Hn; subst. exists k. split; [|reflexivity].
      destruct sg as [k' d'| |]; cbn in Hr; try discriminate.
      destruct (decision_eqb d d') eqn:E; [|discriminate].
      apply decision_eqb_eq in E. inversion Hr; subst. reflexivity.
    - intros [k [-> Hn]]. exists (BKey k). split.
      + cbn. assert (E : decision_eqb d d = true) by (apply decision_eqb_eq; reflexivity).
        rewrite E. reflexivity.
      + rewrite nth_error_map, Hn. reflexivity. }
  split; intros [H Hq]; (split; [|exact Hq]); intros i sg Hi; apply Hx; auto.
Qed.

(* ---------- concrete instances (non-vacuity) ---------- *)

Definition exd : decision := Decision [7]%N 1 10 0 [8; 8]%N.
Definition exvals : list (option nat) := [Some 4; Some 2; None; Some 9].

Example ex_accept3 :
  bt_verify exd exvals [Some (BSigned 4 exd); Some (BSigned 2 exd); None; Some (BSigned 9 exd)] = true.
Proof. vm_compute. reflexivity. Qed.

Example ex_trailing_nil_ok :
  bt_verify exd exvals [Some (BSigned 4 exd); Some (BSigned 2 exd); None; Some (BSigned 9 exd); None; None] = true.
Proof. vm_compute. reflexivity. Qed.

Example ex_rejects :
  (* two of four *)
  bt_verify exd exvals [Some (BSigned 4 exd); Some (BSigned 2 exd)] = false /\
  (* right keys, wrong positions *)
  bt_verify exd exvals [Some (BSigned 2 exd); Some (BSigned 4 exd); None; Some (BSigned 9 exd)] = false /\
  (* a signature at the position of a validator without key *)
  bt_verify exd exvals [Some (BSigned 4 exd); Some (BSigned 2 exd); Some (BSigned 9 exd); Some (BSigned 9 exd)] = false /\
  (* one signature over another decision *)
  bt_verify exd exvals [Some (BSigned 4 exd); Some (BSigned 2 exd); None; Some (BSigned 9 (Decision [7]%N 1 10 1 [8; 8]%N))] = false /\
  (* a foreign key, junk, unrecoverable, beyond the context *)
  bt_verify exd exvals [Some (BSigned 4 exd); Some (BSigned 2 exd); None; Some (BSigned 5 exd)] = false /\
  bt_verify exd exvals [Some (BSigned 4 exd); Some (BSigned 2 exd); None; Some BJunk] = false /\
  bt_verify exd exvals [Some (BSigned 4 exd); Some (BSigned 2 exd); None; Some BUnrec] = false /\
  bt_verify exd exvals [Some (BSigned 4 exd); Some (BSigned 2 exd); None; Some (BSigned 9 exd); Some (BSigned 9 exd)] = false.
Proof. vm_compute. repeat split. Qed.

Example ex_part :
  bt_verify_part exd exvals 3 (Some (BSigned 9 exd)) = Some 3 /\
  bt_verify_part exd exvals 1 (Some (BSigned 9 exd)) = None /\
  bt_verify_part exd exvals (-1) (Some (BSigned 9 exd)) = None /\
  bt_verify_part exd exvals 4 (Some (BSigned 9 exd)) = None /\
  bt_verify_part exd exvals 3 None = None.
Proof. vm_compute. repeat split. Qed.

Example ex_distinct_hyp : NoDup (somes (bt_vals exvals)).
Proof. cbn. repeat constructor; cbn; intuition discriminate. Qed.

(* the defect this model exposed: VerifyPart on a part without signature
   dereferenced the nil signature instead of returning an error; the model
   (and the repaired code) refuses such a part *)
Example ex_nil_signature_part_refused : forall vals idx, bt_verify_part exd vals idx None = None.
Proof.
  intros vals idx. unfold bt_verify_part, verify_part.
  destruct ((idx <? 0)%Z || (Z.of_nat (length (bt_vals vals)) <=? idx)%Z); [reflexivity|].
  destruct (nth_error (bt_vals vals) (Z.to_nat idx)); reflexivity.
Qed.
