(* Property C33 — Flooded messages are delivered once and only from authorized origins.
   This file holds only the property theorems; proofs are in Proofs_Flood.v.
   NB = numOfBucket (>= 1), LB = lenOfBucket of the PacketPool; they are parameters of every
   statement (production: 20, 500). *)
From Coq Require Import List ZArith.
From Goloop Require Import Model_Flood Proofs_Flood.
From Goloop Require Import Link_C33.
Import ListNotations.

(* a one-hop packet (ttl != 0 or dest = peer) that passes the protocol/connection checks is
   handed to the application iff its source is the sending peer *)
Theorem C33_one_hop_iff : forall NB LB n p k n' o,
  eligible n p k -> is_one_hop (k_ttl k) (k_dest k) = true ->
  on_packet NB LB n p k = Some (n', o) ->
  (delivered o = true <-> pr_id p = k_src k).
Proof. exact one_hop_iff. Qed.
Print Assumptions C33_one_hop_iff.

(* with no side condition at all: a delivered one-hop packet came from its source *)
Theorem C33_one_hop_only_from_source : forall NB LB n p k n' o,
  on_packet NB LB n p k = Some (n', o) -> is_one_hop (k_ttl k) (k_dest k) = true ->
  delivered o = true -> pr_id p = k_src k.
Proof. exact one_hop_only_from_source. Qed.
Print Assumptions C33_one_hop_only_from_source.

(* an originator broadcast (dest = any, ttl = 0, source = sending peer) is delivered only if
   the peer holds the validator (root) role *)
Theorem C33_originator_needs_role : forall NB LB n p k n' o,
  on_packet NB LB n p k = Some (n', o) -> is_broadcast (k_dest k) (k_ttl k) = true ->
  pr_id p = k_src k -> delivered o = true -> role_has (pr_role p) role_root = true.
Proof. exact originator_needs_role. Qed.
Print Assumptions C33_originator_needs_role.

(* and with the role it passes: delivered unless the pool already has it *)
Theorem C33_originator_with_role_accepted : forall NB LB, (1 <= NB)%nat -> forall n p k,
  node_inv NB n -> eligible n p k -> is_broadcast (k_dest k) (k_ttl k) = true ->
  pr_id p = k_src k -> role_has (pr_role p) role_root = true ->
  exists n' o, on_packet NB LB n p k = Some (n', o) /\ (o = ODeliverFlood \/ o = ODropDup).
Proof. exact originator_with_role_accepted. Qed.
Print Assumptions C33_originator_with_role_accepted.

(* for ANY stream of (peer, packet) events received by a fresh node: if the packet at position
   |pre| was flood-delivered, and fewer than (NB-1)*LB packets were flood-delivered between it and
   a later packet with the same hash, the later one is not delivered again *)
Theorem C33_at_most_once : forall NB LB, (1 <= NB)%nat ->
  forall self cbs pre p1 k1 mid p2 k2 post n os,
  run NB LB (new_node NB self cbs) (pre ++ (p1, k1) :: mid ++ (p2, k2) :: post) = Some (n, os) ->
  k_hash k2 = k_hash k1 ->
  nth_error os (length pre) = Some ODeliverFlood ->
  (Z.of_nat (count_flood (firstn (length mid) (skipn (S (length pre)) os))) < Z.of_nat (NB - 1) * LB)%Z ->
  nth_error os (length pre + 1 + length mid) <> Some ODeliverFlood.
Proof. exact at_most_once. Qed.
Print Assumptions C33_at_most_once.

(* the same from any state satisfying the pool invariant, with the window counted in DISTINCT
   flood-delivered packets (hashes) between the two copies *)
Theorem C33_at_most_once_distinct : forall NB LB, (1 <= NB)%nat ->
  forall n p1 k1 n1 mid n2 os p2 k2 n3 o,
  node_inv NB n ->
  on_packet NB LB n p1 k1 = Some (n1, ODeliverFlood) ->
  run NB LB n1 mid = Some (n2, os) ->
  fewer_distinct (flood_hashes mid os) (Z.of_nat (NB - 1) * LB)%Z ->
  k_hash k2 = k_hash k1 ->
  on_packet NB LB n2 p2 k2 = Some (n3, o) -> o <> ODeliverFlood.
Proof. exact at_most_once_distinct_step. Qed.
Print Assumptions C33_at_most_once_distinct.

(* the pool-level statement: after a successful Put of h, h is refused as long as fewer than
   (NB-1)*LB Puts succeeded in between *)
Theorem C33_pool_window : forall NB LB, (1 <= NB)%nat -> forall p h p1 mid p2 rs,
  Inv NB p -> put NB LB p h = Some (p1, true) -> puts NB LB p1 mid = Some (p2, rs) ->
  (Z.of_nat (count_true rs) < Z.of_nat (NB - 1) * LB)%Z ->
  put NB LB p2 h = Some (p2, false).
Proof. exact pool_window. Qed.
Print Assumptions C33_pool_window.

(* the model never reaches a Go panic (index out of range / nil map write): every run from a
   fresh node is defined *)
Theorem C33_run_total : forall NB LB, (1 <= NB)%nat -> forall evs n, node_inv NB n ->
  exists n' os, run NB LB n evs = Some (n', os) /\ node_inv NB n'.
Proof. exact run_total. Qed.
Print Assumptions C33_run_total.

Theorem C33_new_node_inv : forall NB, (1 <= NB)%nat -> forall self cbs, node_inv NB (new_node NB self cbs).
Proof. exact new_node_inv. Qed.
Print Assumptions C33_new_node_inv.

(* tightness of the window for the production parameters: 9500 distinct packets in between
   make the pool forget *)
Theorem C33_window_tight_default : last_result 20 500 (tight_stream 20 500 (window 20 500)) = Some true.
Proof. exact tight_default. Qed.
Print Assumptions C33_window_tight_default.

(* ---- kernel links (Link_C33.v).  The five kernels are re-generated from
   network/p2p.go (onPacket) and network/peer.go (PeerRoleFlag.Has) on every run
   (tools/go2coq); the five boolean decisions of the model, used in all theorems
   above, ARE the decisions of the current Go code ---- *)
Theorem C33_kernel_onPacketIsOneHop : forall ttl dest,
  is_one_hop ttl dest = onPacketIsOneHop ttl dest.
Proof. exact is_one_hop_is_kernel. Qed.
Print Assumptions C33_kernel_onPacketIsOneHop.

Theorem C33_kernel_onPacketIsBroadcast : forall dest ttl,
  is_broadcast dest ttl = onPacketIsBroadcast dest ttl.
Proof. exact is_broadcast_is_kernel. Qed.
Print Assumptions C33_kernel_onPacketIsBroadcast.

Theorem C33_kernel_onPacketDropOneHop : forall isOneHop isSourcePeer,
  drop_one_hop isOneHop isSourcePeer = onPacketDropOneHop isOneHop isSourcePeer.
Proof. exact drop_one_hop_is_kernel. Qed.
Print Assumptions C33_kernel_onPacketDropOneHop.

Theorem C33_kernel_onPacketDropBroadcast : forall isBroadcast isSourcePeer hasRoot,
  drop_broadcast isBroadcast isSourcePeer hasRoot
  = onPacketDropBroadcast isBroadcast isSourcePeer hasRoot.
Proof. exact drop_broadcast_is_kernel. Qed.
Print Assumptions C33_kernel_onPacketDropBroadcast.

Theorem C33_kernel_peerRoleHas : forall pr o, role_has pr o = peerRoleHas pr o.
Proof. exact role_has_is_kernel. Qed.
Print Assumptions C33_kernel_peerRoleHas.

Theorem C33_kernel_params : Link_C33.kernel_params_pinned.
Proof. exact Link_C33.kernel_params_ok. Qed.
Print Assumptions C33_kernel_params.

(* ---- atomicity of PacketPool.Put.  `put` is ONE atomic test-and-insert step and every
   theorem above is about sequences of such steps (the write lock of Put must cover both
   halves).  With callers whose test and insertion are adjacent, the same hash offered by any
   number of callers is "new" for at most one of them ---- *)
Theorem C33_atomic_put_one_winner : forall NB LB, (1 <= NB)%nat -> forall cs p h seen p' ws,
  Inv NB p -> (0 < Z.of_nat (NB - 1) * LB)%Z ->
  put_split NB LB p h seen (atomic_sched cs) = Some (p', ws) -> (length ws <= 1)%nat.
Proof. exact atomic_put_one_winner. Qed.
Print Assumptions C33_atomic_put_one_winner.

(* REFUTED variant (the test and the insertion schedulable separately, i.e. the test under a
   read lock and no re-test under the write lock): from every pool state that does not hold h,
   the interleaving test0, test1, insert0, insert1 tells BOTH callers "new" *)
Theorem C33_split_put_refuted : forall NB LB, (1 <= NB)%nat -> forall p h,
  Inv NB p -> contains NB p h = Some false ->
  exists p1 p2, put_insert NB LB p h = Some p1 /\ put_insert NB LB p1 h = Some p2 /\
    put_split NB LB p h [] [SCheck 0; SCheck 1; SInsert 0; SInsert 1] = Some (p2, [0%nat; 1%nat]).
Proof. exact split_put_refuted. Qed.
Print Assumptions C33_split_put_refuted.

Theorem C33_put_is_check_then_insert : forall NB LB p h,
  put NB LB p h = match contains NB p h with
                  | None => None
                  | Some true => Some (p, false)
                  | Some false => match put_insert NB LB p h with Some q => Some (q, true) | None => None end
                  end.
Proof. exact put_check_then_insert. Qed.
Print Assumptions C33_put_is_check_then_insert.
