(* Link_C05.v -- ties the commit-certificate threshold of Model_Quorum (property C05) to
   the kernel enoughVote that tools/go2coq re-generates from
   consensus/commitvotelist.go on every run.

   The model works on nat (lengths of slices), the kernel on Z with Go int wrapping:
   for every number of votes and every number of voters a Go slice can have
   (voters <= 2^62-1: voters*2 does not overflow) the model's  enough  EQUALS the
   kernel on the injected values -- including voters = 0, where both say yes.
   Proved from enoughVote_spec (Proofs_K_enoughVote.v) and enough_spec /
   enough_no_voters (Proofs_Quorum.v), never from the shape of the generated text:
   `>` turned into `>=`, or `voters == 0` into `== 1`, breaks Proofs_K_enoughVote.v,
   hence this file, hence Prop_C05.v.
   Model_Quorum.v is shared with C29 and C01: this file is imported by Prop_C05.v only.
   Style: stdlib, lia. *)
From Coq Require Import Arith List Lia Bool ZArith ZifyBool ZifyNat.
From Goloop Require Import lib.GoInt Model_Quorum Proofs_Quorum.
From Goloop Require Import Proofs_K_tactics Proofs_K_enoughVote.
From Goloop.gen Require Export K_enoughVote.
Import ListNotations.

Ltac Zify.zify_post_hook ::= Z.to_euclidean_division_equations.

Lemma enough_is_enoughVote (voted voters : nat) :
  (Z.of_nat voters <= 4611686018427387903)%Z ->
  enough voted voters = enoughVote (Z.of_nat voted) (Z.of_nat voters).
Proof.
  intros Hv. apply bool_eq_iff. rewrite enoughVote_spec by lia.
  destruct (Nat.eq_dec voters 0) as [->|Hn].
  - rewrite enough_no_voters. split; intros _; [left; reflexivity | reflexivity].
  - rewrite (enough_spec voted voters Hn). lia.
Qed.

Definition kernel_params_pinned : Prop := enoughVote_params = ["voted"; "voters"]%string.

Lemma kernel_params_ok : kernel_params_pinned.
Proof. exact enoughVote_params_ok. Qed.

Example link_c05_nontrivial :
  enough 15 21 = enoughVote 15 21 /\ enoughVote 15 21 = true /\
  enough 14 21 = enoughVote 14 21 /\ enoughVote 14 21 = false /\ enoughVote 0 0 = true.
Proof. repeat split; reflexivity. Qed.
