(* Proofs_Wal.v — lemmas about Model_Wal for property C03.
   Style: stdlib only (List, NArith, Lia). *)
From Coq Require Import ZifyBool ZifyN ZifyNat.
From Goloop Require Import lib.Bytes lib.Crc32c Model_Wal.
Open Scope N_scope.

Ltac Zify.zify_post_hook ::= Z.div_mod_to_equations.

(* ------------------------------------------------------------------ *)
(* lists                                                              *)
(* ------------------------------------------------------------------ *)

Definition prefix {A} (a b : list A) : Prop := exists t, b = a ++ t.

Lemma prefix_refl {A} (a : list A) : prefix a a.
Proof. exists []. now rewrite app_nil_r. Qed.

Lemma prefix_nil {A} (a : list A) : prefix [] a.
Proof. now exists a. Qed.

Lemma prefix_trans {A} (a b c : list A) : prefix a b -> prefix b c -> prefix a c.
Proof. intros [t ->] [u ->]. exists (t ++ u). now rewrite app_assoc. Qed.

Lemma prefix_app_r {A} (a b : list A) : prefix a (a ++ b).
Proof. now exists b. Qed.

Lemma prefix_length {A} (a b : list A) : prefix a b -> (length a <= length b)%nat.
Proof. intros [t ->]. rewrite app_length. lia. Qed.

Lemma prefix_firstn {A} (n : nat) (l : list A) : prefix (firstn n l) l.
Proof. exists (skipn n l). now rewrite firstn_skipn. Qed.

Lemma prefix_is_firstn {A} (a b : list A) : prefix a b -> a = firstn (length a) b.
Proof.
  intros [t ->]. rewrite firstn_app, Nat.sub_diag, firstn_all. cbn. now rewrite app_nil_r.
Qed.

Lemma firstn_prefix_le {A} (n m : nat) (l : list A) :
  (n <= m)%nat -> prefix (firstn n l) (firstn m l).
Proof.
  intros H. replace (firstn n l) with (firstn n (firstn m l)).
  - apply prefix_firstn.
  - rewrite firstn_firstn. now rewrite Nat.min_l.
Qed.

Lemma prefix_In {A} (a b : list A) x : prefix a b -> In x a -> In x b.
Proof. intros [t ->] H. apply in_or_app. now left. Qed.

Lemma firstn_app_exact {A} (a b : list A) n : length a = n -> firstn n (a ++ b) = a.
Proof. intros <-. rewrite firstn_app, Nat.sub_diag, firstn_all. cbn. now rewrite app_nil_r. Qed.

Lemma skipn_app_exact {A} (a b : list A) n : length a = n -> skipn n (a ++ b) = b.
Proof. intros <-. rewrite skipn_app, Nat.sub_diag, skipn_all. reflexivity. Qed.

(* a prefix of a ++ b either covers a or stops strictly inside it *)
Lemma prefix_app_cases {A} (s a b : list A) :
  prefix s (a ++ b) ->
  (exists s', s = a ++ s' /\ prefix s' b) \/ (exists u, u <> [] /\ a = s ++ u).
Proof.
  revert s. induction a as [|x a IH]; intros s [t H].
  - left. exists s. split; [reflexivity|]. now exists t.
  - destruct s as [|y s].
    + right. exists (x :: a). split; [discriminate|reflexivity].
    + cbn in H. inversion H; subst y. destruct (IH s) as [[s' [-> P]]|[u [Hu ->]]].
      * now exists t.
      * left. exists s'. now split.
      * right. exists u. now split.
Qed.

Lemma app_eq_len {A} (a b c d : list A) :
  a ++ b = c ++ d -> length a = length c -> a = c /\ b = d.
Proof.
  revert c. induction a as [|x a IH]; intros [|y c] H L; cbn in *; try discriminate.
  - now split.
  - inversion H; subst. destruct (IH c) as [-> ->]; auto.
Qed.

(* ------------------------------------------------------------------ *)
(* big-endian 32-bit fields                                           *)
(* ------------------------------------------------------------------ *)

Lemma be_bytes_length n v : length (be_bytes n v) = n.
Proof. induction n; cbn; auto. Qed.

Lemma be_val_be32 v : be_val (be_bytes 4 v) = v mod 2 ^ 32.
Proof.
  unfold be_val, be_bytes. cbn [fold_left Nat.mul N.of_nat].
  change (8 * N.of_nat 3) with 24. change (8 * N.of_nat 2) with 16.
  change (8 * N.of_nat 1) with 8. change (8 * N.of_nat 0) with 0.
  change (2 ^ 24) with 16777216. change (2 ^ 16) with 65536. change (2 ^ 8) with 256.
  change (2 ^ 0) with 1. change (2 ^ 32) with 4294967296.
  lia.
Qed.

Section WalProofs.
Variable crc : bytes -> N.

Notation frame := (frame crc).
Notation frames := (frames crc).
Notation crcw := (crcw crc).
Notation read_one := (read_one crc).
Notation read_all := (read_all crc).
Notation read_stream := (read_stream crc).

Lemma be32_length v : length (be32 v) = 4%nat.
Proof. apply be_bytes_length. Qed.

Lemma frame_length p : length (frame p) = (8 + length p)%nat.
Proof. unfold frame. rewrite !app_length, !be32_length. lia. Qed.

Lemma frame_not_nil p : frame p <> [].
Proof. intro H. apply (f_equal (@length _)) in H. rewrite frame_length in H. cbn in H. lia. Qed.

Lemma frames_nil : frames [] = [].
Proof. reflexivity. Qed.

Lemma frames_cons p l : frames (p :: l) = frame p ++ frames l.
Proof. reflexivity. Qed.

Lemma frames_app a b : frames (a ++ b) = frames a ++ frames b.
Proof. unfold Model_Wal.frames. now rewrite map_app, concat_app. Qed.

Lemma crcw_lt p : crcw p < 2 ^ 32.
Proof. unfold Model_Wal.crcw. apply N.mod_lt. discriminate. Qed.

Lemma len32_ok p : payload_ok p -> len32 p = N.of_nat (length p).
Proof. unfold payload_ok, len32. intros H. apply N.mod_small. lia. Qed.

(* ------------------------------------------------------------------ *)
(* ReadBytes on whole and on torn frames                              *)
(* ------------------------------------------------------------------ *)

Lemma read_one_header eb (h1 h2 rest : bytes) :
  length h1 = 4%nat -> length h2 = 4%nat ->
  read_one_gen crc eb (h1 ++ h2 ++ rest) =
    if N.of_nat (length rest) <? be_val h2 then
      match rest with
      | [] => RErr (if eb then REof else RUnexpected)
      | _ => RErr RUnexpected
      end
    else
      let p := firstn (N.to_nat (be_val h2)) rest in
      if crcw p =? be_val h1 then ROk p (skipn (N.to_nat (be_val h2)) rest) else RErr RCorrupt.
Proof.
  intros L1 L2.
  destruct h1 as [|a1 [|a2 [|a3 [|a4 [|]]]]]; try discriminate.
  destruct h2 as [|b1 [|b2 [|b3 [|b4 [|]]]]]; try discriminate.
  unfold read_one_gen. cbn [app length Nat.ltb Nat.leb firstn skipn]. reflexivity.
Qed.

Lemma read_one_frame p r : payload_ok p -> read_one (frame p ++ r) = ROk p r.
Proof.
  intros Hp. unfold Model_Wal.read_one, Model_Wal.frame. rewrite <- !app_assoc.
  rewrite read_one_header by apply be32_length.
  unfold be32. rewrite !be_val_be32.
  rewrite (N.mod_small (len32 p)) by (unfold len32; apply N.mod_lt; discriminate).
  rewrite (len32_ok p Hp). rewrite Nat2N.id.
  replace (N.of_nat (length (p ++ r)) <? N.of_nat (length p)) with false
    by (rewrite app_length; lia).
  cbv zeta. rewrite firstn_app_exact, skipn_app_exact by reflexivity.
  rewrite (N.mod_small (crcw p)) by apply crcw_lt.
  now rewrite N.eqb_refl.
Qed.

(* a non-empty strict prefix of a frame is never a record and never "corrupted":
   either the header is incomplete, or it is complete — then the length field is
   the genuine one and the payload is short.  No property of crc is used. *)
Lemma read_one_torn p t u :
  payload_ok p -> t <> [] -> u <> [] -> frame p = t ++ u -> read_one t = RErr RUnexpected.
Proof.
  intros Hp Ht Hu E.
  assert (Lt : (length t < 8 + length p)%nat).
  { apply (f_equal (@length _)) in E. rewrite frame_length, app_length in E.
    destruct u; [congruence|cbn in E; lia]. }
  destruct (Nat.ltb (length t) 8) eqn:L8.
  - unfold Model_Wal.read_one, read_one_gen. destruct t as [|x t]; [congruence|].
    now rewrite L8.
  - apply Nat.ltb_ge in L8.
    assert (Et : t = be32 (crcw p) ++ be32 (len32 p) ++ firstn (length t - 8) p).
    { rewrite (prefix_is_firstn t (frame p)) at 1 by (exists u; exact E).
      unfold Model_Wal.frame. rewrite app_assoc, firstn_app.
      rewrite firstn_all2 by (rewrite app_length, !be32_length; lia).
      rewrite app_length, !be32_length. now rewrite <- app_assoc. }
    rewrite Et. unfold Model_Wal.read_one. rewrite read_one_header by apply be32_length.
    unfold be32 at 1. rewrite be_val_be32.
    rewrite (N.mod_small (len32 p)) by (unfold len32; apply N.mod_lt; discriminate).
    rewrite (len32_ok p Hp).
    replace (N.of_nat (length (firstn (length t - 8) p)) <? N.of_nat (length p)) with true
      by (rewrite firstn_length; lia).
    now destruct (firstn (length t - 8) p).
Qed.

(* reading a prefix of a frame sequence returns the whole frames it contains,
   the offset of their end, and EOF / UnexpectedEOF according to whether bytes
   of a further frame follow *)
Lemma read_all_prefix l :
  Forall payload_ok l ->
  forall s fuel, prefix s (frames l) -> (length s < fuel)%nat ->
  exists l1 l2 t e,
    l = l1 ++ l2 /\ s = frames l1 ++ t /\
    read_all fuel s = (l1, e, N.of_nat (length (frames l1))) /\
    ((t = [] /\ e = REof) \/
     (t <> [] /\ e = RUnexpected /\
      exists p l2' u, l2 = p :: l2' /\ u <> [] /\ frame p = t ++ u)).
Proof.
  induction l as [|p l IH]; intros Hok s fuel Hpre Hfuel.
  - destruct Hpre as [t Ht]. cbn in Ht. symmetry in Ht. apply app_eq_nil in Ht as [-> _].
    destruct fuel; [cbn in Hfuel; lia|].
    exists [], [], [], REof. repeat split; auto.
  - inversion Hok as [|? ? Hp Hl]; subst.
    rewrite frames_cons in Hpre.
    destruct (prefix_app_cases _ _ _ Hpre) as [[s' [-> Hs']]|[u [Hu Eu]]].
    + destruct fuel; [cbn in Hfuel; lia|].
      rewrite app_length, frame_length in Hfuel.
      destruct (IH Hl s' fuel Hs' ltac:(lia)) as (l1 & l2 & t & e & El & Es & Er & Hcase).
      exists (p :: l1), l2, t, e. split; [now rewrite El|].
      split; [rewrite frames_cons, <- app_assoc; now rewrite Es|].
      split; [|exact Hcase].
      unfold Model_Wal.read_all in *. cbn [read_all_gen].
      change (read_one_gen crc false) with read_one. rewrite read_one_frame by exact Hp.
      rewrite Er. f_equal. rewrite frames_cons, app_length, frame_length.
      unfold payload_ok in Hp. rewrite N.mod_small by lia. lia.
    + destruct fuel; [cbn in Hfuel; lia|].
      destruct s as [|x s].
      * exists [], (p :: l), [], REof. repeat split; auto.
      * exists [], (p :: l), (x :: s), RUnexpected. split; [reflexivity|]. split; [reflexivity|].
        split.
        -- unfold Model_Wal.read_all. cbn [read_all_gen].
           change (read_one_gen crc false) with read_one.
           rewrite (read_one_torn p (x :: s) u Hp ltac:(discriminate) Hu Eu). reflexivity.
        -- right. split; [discriminate|]. split; [reflexivity|]. now exists p, l, u.
Qed.

(* ------------------------------------------------------------------ *)
(* segment files: contiguous indices, split_last, CloseAndRepair      *)
(* ------------------------------------------------------------------ *)

Fixpoint contig (i : N) (d : disk) : Prop :=
  match d with
  | [] => True
  | sb :: r => fst sb = i /\ contig (i + 1) r
  end.

Lemma contig_app h a b :
  contig h (a ++ b) <-> contig h a /\ contig (h + N.of_nat (length a)) b.
Proof.
  revert h. induction a as [|x a IH]; intros h; cbn [app contig length].
  - rewrite N.add_0_r. tauto.
  - rewrite IH. replace (h + 1 + N.of_nat (length a)) with (h + N.of_nat (S (length a))) by lia.
    tauto.
Qed.

Lemma contig_bounds h a :
  contig h a -> Forall (fun sb => h <= fst sb /\ fst sb < h + N.of_nat (length a)) a.
Proof.
  revert h. induction a as [|x a IH]; intros h H; [constructor|].
  destruct H as [Hx Hr]. constructor.
  - cbn [length]. lia.
  - eapply Forall_impl; [|apply IH, Hr]. cbn [length]. intros sb. cbv beta. lia.
Qed.

Lemma split_last_app d x : split_last (d ++ [x]) = Some (d, x).
Proof.
  induction d as [|y d IH]; [reflexivity|]. cbn [app split_last]. now rewrite IH.
Qed.

Lemma split_last_some (d : disk) : d <> [] -> exists ss x, d = ss ++ [x].
Proof.
  intros H. destruct (exists_last H) as (ss & x & ->). now exists ss, x.
Qed.

Lemma stream_app a b : stream (a ++ b) = stream a ++ stream b.
Proof. unfold stream. now rewrite map_app, concat_app. Qed.

Lemma stream_single i b : stream [(i, b)] = b.
Proof. unfold stream. cbn. now rewrite app_nil_r. Qed.

(* what CloseAndRepair leaves: the segments before the one that holds the
   valid offset, then that segment cut at the offset *)
Fixpoint cut_segs (d : disk) (left : nat) : disk :=
  match d with
  | [] => []
  | sb :: r => if (left <=? length (snd sb))%nat then [(fst sb, firstn left (snd sb))]
               else sb :: cut_segs r (left - length (snd sb))
  end.

Lemma cut_segs_shape d n :
  d <> [] -> (n <= length (stream d))%nat ->
  exists pre i b post m,
    d = pre ++ (i, b) :: post /\ cut_segs d n = pre ++ [(i, firstn m b)] /\
    (m <= length b)%nat /\ n = (length (stream pre) + m)%nat.
Proof.
  revert n. induction d as [|[i b] r IH]; intros n Hd Hn; [congruence|].
  cbn [cut_segs fst snd]. destruct (Nat.leb n (length b)) eqn:L.
  - apply Nat.leb_le in L. exists [], i, b, r, n. cbn. repeat split; auto.
  - apply Nat.leb_gt in L.
    change ((i, b) :: r) with ([(i, b)] ++ r) in Hn. rewrite stream_app, stream_single, app_length in Hn.
    destruct r as [|y r'].
    { cbn in Hn. lia. }
    destruct (IH (n - length b)%nat ltac:(discriminate) ltac:(lia))
      as (pre & j & c & post & m & E & Ec & Hm & Hnm).
    exists ((i, b) :: pre), j, c, post, m. rewrite E at 1. rewrite Ec.
    repeat split; auto.
    change ((i, b) :: pre) with ([(i, b)] ++ pre). rewrite stream_app, stream_single, app_length. lia.
Qed.

Lemma filter_all {A} (f : A -> bool) l : Forall (fun x => f x = true) l -> filter f l = l.
Proof. induction 1 as [|x l Hx _ IH]; cbn; [reflexivity|]. now rewrite Hx, IH. Qed.

Lemma filter_none {A} (f : A -> bool) l : Forall (fun x => f x = false) l -> filter f l = [].
Proof. induction 1 as [|x l Hx _ IH]; cbn; [reflexivity|]. now rewrite Hx. Qed.

Lemma truncate_other l idx n : Forall (fun sb : seg => fst sb <> idx) l -> truncate_file l idx n = l.
Proof.
  unfold truncate_file. induction 1 as [|x l Hx _ IH]; cbn [map]; [reflexivity|].
  rewrite IH. cbv beta.
  match goal with |- context [?a =? idx] => destruct (N.eqb_spec a idx) as [E|E] end;
    [contradiction|reflexivity].
Qed.

Lemma truncate_app a b idx n :
  truncate_file (a ++ b) idx n = truncate_file a idx n ++ truncate_file b idx n.
Proof. unfold truncate_file. apply map_app. Qed.

Lemma truncate_cons_hit i b r n :
  truncate_file ((i, b) :: r) i n = (i, firstn (N.to_nat n) b) :: truncate_file r i n.
Proof. unfold truncate_file. cbn [map fst snd]. now rewrite N.eqb_refl. Qed.

(* the loop of CloseAndRepair, started at segment (h + |pre|) with the sizes of cur *)
Lemma repair_loop_spec cur : forall pre tl left h,
  contig h (pre ++ cur) ->
  Forall (fun sb : seg => fst sb <= tl) (pre ++ cur) ->
  repair_loop false (pre ++ cur) tl left (h + N.of_nat (length pre)) (file_sizes cur)
  = pre ++ cut_segs cur (N.to_nat left).
Proof.
  induction cur as [|[i b] post IH]; intros pre tl left h Hc Htl.
  - reflexivity.
  - change (file_sizes ((i, b) :: post)) with (N.of_nat (length b) :: file_sizes post).
    cbn [snd repair_loop cut_segs fst].
    pose proof Hc as Hc'. apply contig_app in Hc' as [Hpre Hcur].
    destruct Hcur as [Hi Hpost]. cbn [fst] in Hi.
    pose proof (contig_bounds _ _ Hpre) as Bpre.
    pose proof (contig_bounds _ _ Hpost) as Bpost.
    destruct (N.leb_spec left (N.of_nat (length b))) as [L|L].
    + replace (Nat.leb (N.to_nat left) (length b)) with true by lia.
      assert (RA : forall b', remove_after (pre ++ (i, b') :: post) i tl = pre ++ [(i, b')]).
      { intros b'. unfold remove_after. rewrite filter_app. cbn [filter fst].
        rewrite filter_all, filter_none.
        * replace (i <? i) with false by lia. reflexivity.
        * apply Forall_app in Htl as [_ Htl]. inversion Htl as [|? ? _ Htl']; subst.
          rewrite Forall_forall in *. intros sb Hin. specialize (Bpost sb Hin). specialize (Htl' sb Hin).
          cbv beta in *. lia.
        * eapply Forall_impl; [|exact Bpre]. cbv beta. intros sb. lia. }
      rewrite <- Hi.
      destruct (N.ltb_spec left (N.of_nat (length b))) as [L2|L2].
      * rewrite truncate_app, truncate_cons_hit.
        rewrite !truncate_other.
        -- apply RA.
        -- eapply Forall_impl; [|exact Bpost]. cbv beta. intros sb. lia.
        -- eapply Forall_impl; [|exact Bpre]. cbv beta. intros sb. lia.
      * rewrite firstn_all2 by lia. apply RA.
    + replace (Nat.leb (N.to_nat left) (length b)) with false by lia.
      pose proof (IH (pre ++ [(i, b)]) tl (left - N.of_nat (length b)) h) as IH'.
      rewrite <- !app_assoc in IH'. cbn [app] in IH'.
      replace (h + N.of_nat (length pre) + 1) with (h + N.of_nat (length (pre ++ [(i, b)])))
        by (rewrite app_length; cbn [length]; lia).
      rewrite IH' by assumption. do 3 f_equal. lia.
Qed.

Lemma contig_last_max h d ss t b :
  contig h d -> d = ss ++ [(t, b)] -> Forall (fun sb : seg => fst sb <= t) d.
Proof.
  intros Hc ->. pose proof (contig_bounds _ _ Hc) as B.
  apply contig_app in Hc as [_ [Ht _]]. cbn [fst] in Ht.
  eapply Forall_impl; [|exact B]. cbv beta. intros sb. rewrite app_length. cbn [length]. unfold seg, bytes in *. lia.
Qed.

Lemma repair_spec h d voff :
  contig h d -> d <> [] -> repair d voff = cut_segs d (N.to_nat voff).
Proof.
  intros Hc Hd. destruct (split_last_some d Hd) as (ss & [t b] & ->).
  unfold repair, repair_gen. rewrite split_last_app.
  pose proof (repair_loop_spec (ss ++ [(t, b)]) [] t voff h) as S. cbn [app length] in S.
  rewrite N.add_0_r in S.
  assert (Hmax : Forall (fun sb : seg => fst sb <= t) (ss ++ [(t, b)])).
  { eapply contig_last_max; eauto. }
  specialize (S Hc Hmax).
  destruct ss as [|[i0 b0] r]; cbn [app head_idx] in *; destruct Hc as [Hi _];
    cbn [fst] in Hi; subst; exact S.
Qed.

Lemma contig_cut h pre i b post m :
  contig h (pre ++ (i, b) :: post) -> contig h (pre ++ [(i, firstn m b)]).
Proof.
  rewrite !contig_app. cbn [contig fst]. tauto.
Qed.

(* ------------------------------------------------------------------ *)
(* unique decoding; whole segments                                    *)
(* ------------------------------------------------------------------ *)

Lemma frames_app_inv a : forall b x,
  Forall payload_ok a -> Forall payload_ok b -> frames a ++ x = frames b ->
  exists c, b = a ++ c /\ x = frames c.
Proof.
  induction a as [|p a IH]; intros b x Ha Hb E.
  - exists b. cbn in E. now split.
  - inversion Ha as [|? ? Hp Ha']; subst.
    destruct b as [|q b].
    + exfalso. rewrite frames_cons, frames_nil in E. apply app_eq_nil in E as [E _].
      apply app_eq_nil in E as [E _]. now apply frame_not_nil in E.
    + inversion Hb as [|? ? Hq Hb']; subst.
      rewrite !frames_cons, <- app_assoc in E.
      pose proof (read_one_frame p (frames a ++ x) Hp) as R1.
      pose proof (read_one_frame q (frames b) Hq) as R2.
      rewrite E in R1. rewrite R1 in R2. inversion R2; subst q.
      destruct (IH b x Ha' Hb' ltac:(assumption)) as (c & -> & ->).
      now exists c.
Qed.

Definition whole (sb : seg) : Prop :=
  exists grp, Forall payload_ok grp /\ snd sb = frames grp.

Lemma whole_stream (ss : disk) :
  Forall whole ss -> exists l, Forall payload_ok l /\ stream ss = frames l.
Proof.
  induction 1 as [|sb ss [grp [Hg E]] _ [l [Hl El]]].
  - exists []. split; [constructor|reflexivity].
  - exists (grp ++ l). split; [now apply Forall_app|].
    change (sb :: ss) with ([sb] ++ ss). rewrite stream_app, El, frames_app, <- E.
    unfold stream. cbn. now rewrite app_nil_r.
Qed.

(* the last piece of a frame sequence whose head consists of whole segments is
   itself a whole number of frames *)
Lemma whole_rest (ss : disk) x l :
  Forall whole ss -> Forall payload_ok l -> stream ss ++ x = frames l ->
  exists c, Forall payload_ok c /\ x = frames c.
Proof.
  intros Hw Hl E. destruct (whole_stream ss Hw) as (a & Ha & Ea). rewrite Ea in E.
  destruct (frames_app_inv a l x Ha Hl E) as (c & -> & ->).
  exists c. split; [|reflexivity]. now apply Forall_app in Hl as [_ Hc].
Qed.

Lemma Forall_prefix {A} (P : A -> Prop) a b : prefix a b -> Forall P b -> Forall P a.
Proof. intros [t ->] H. now apply Forall_app in H as [H _]. Qed.

Lemma app_last_split {A} (a pre post : list A) x y :
  a ++ [x] = pre ++ y :: post -> prefix pre a.
Proof.
  revert pre. induction a as [|z a IH]; intros pre E.
  - destruct pre as [|w pre]; [apply prefix_nil|].
    cbn in E. inversion E as [[E1 E2]]. destruct pre; discriminate.
  - destruct pre as [|w pre]; [apply prefix_nil|].
    cbn in E. inversion E as [[E1 E2]]; subst w. destruct (IH pre E2) as [t ->].
    now exists t.
Qed.

(* ------------------------------------------------------------------ *)
(* recovery of a directory that holds a prefix of a frame sequence    *)
(* ------------------------------------------------------------------ *)

Lemma durable_within l1 l2 k extra :
  (length (frames (firstn k (l1 ++ l2))) <= length (frames l1) + extra)%nat ->
  (l2 = [] \/ exists p l2', l2 = p :: l2' /\ (extra < length (frame p))%nat) ->
  prefix (firstn k (l1 ++ l2)) l1.
Proof.
  intros Hlen Hl2. rewrite firstn_app in *.
  destruct (Nat.le_gt_cases k (length l1)) as [Hk|Hk].
  - replace (k - length l1)%nat with 0%nat by lia. cbn [firstn]. rewrite app_nil_r.
    apply prefix_firstn.
  - rewrite firstn_all2 in * by lia.
    destruct Hl2 as [->|(p & l2' & -> & Hex)].
    + rewrite firstn_nil, app_nil_r. apply prefix_refl.
    + exfalso. destruct (k - length l1)%nat as [|j] eqn:Ej; [lia|].
      cbn [firstn] in Hlen. rewrite frames_app, frames_cons, !app_length in Hlen. lia.
Qed.

Lemma firstn_mid {A} (a b c : list A) m :
  (m <= length b)%nat -> firstn (length a + m) (a ++ b ++ c) = a ++ firstn m b.
Proof.
  intros H. rewrite firstn_app. rewrite firstn_all2 by lia.
  replace (length a + m - length a)%nat with m by lia.
  rewrite firstn_app. replace (m - length b)%nat with 0%nat by lia.
  cbn [firstn]. now rewrite app_nil_r.
Qed.

Lemma recover_core (d : disk) L k :
  contig 0 d -> d <> [] -> Forall payload_ok L ->
  prefix (stream d) (frames L) ->
  (length (frames (firstn k L)) <= length (stream d))%nat ->
  exists recs e pre i b post b',
    recover_disk crc d = (recs, e, pre ++ [(i, b')]) /\
    d = pre ++ (i, b) :: post /\
    prefix recs L /\ prefix (firstn k L) recs /\
    (e = REof \/ e = RUnexpected) /\
    stream pre ++ b' = frames recs /\
    contig 0 (pre ++ [(i, b')]).
Proof.
  intros Hc Hd Hok Hpre Hdur.
  destruct (read_all_prefix L Hok (stream d) (S (length (stream d))) Hpre ltac:(lia))
    as (l1 & l2 & t & e & EL & Es & Er & Hcase).
  unfold recover_disk, recover_disk_gen, read_stream_gen.
  change (read_all_gen crc false) with read_all. rewrite Er.
  destruct Hcase as [[-> ->]|(Ht & -> & p & l2' & u & -> & Hu & Eu)].
  - (* clean end: nothing to repair *)
    rewrite app_nil_r in Es.
    destruct (split_last_some d Hd) as (ss & [i b] & Ed). subst d.
    exists l1, REof, ss, i, b, [], b.
    split; [reflexivity|]. split; [reflexivity|].
    split; [rewrite EL; apply prefix_app_r|].
    split.
    { rewrite EL. apply (durable_within l1 l2 k 0).
      - rewrite <- EL. rewrite Es in Hdur. lia.
      - destruct l2 as [|q l2']; [now left|right]. exists q, l2'. split; [reflexivity|].
        rewrite frame_length. lia. }
    split; [now left|]. split; [|exact Hc].
    rewrite <- Es, stream_app, stream_single. reflexivity.
  - (* torn tail: CloseAndRepair *)
    rewrite (repair_spec 0 d _ Hc Hd), Nat2N.id.
    assert (Hn : (length (frames l1) <= length (stream d))%nat) by (rewrite Es, app_length; lia).
    destruct (cut_segs_shape d (length (frames l1)) Hd Hn) as (pre & i & b & post & m & Ed & Ec & Hm & Hnm).
    exists l1, RUnexpected, pre, i, b, post, (firstn m b). rewrite Ec.
    split; [reflexivity|]. split; [exact Ed|].
    split; [rewrite EL; apply prefix_app_r|].
    assert (Lt : (length t < length (frame p))%nat).
    { rewrite Eu, app_length. destruct u; [congruence|cbn; lia]. }
    split.
    { rewrite EL. apply (durable_within l1 (p :: l2') k (length t)).
      - rewrite <- EL. rewrite Es, app_length in Hdur. exact Hdur.
      - right. now exists p, l2'. }
    split; [now right|]. split.
    + assert (F : firstn (length (frames l1)) (stream d) = frames l1)
        by (rewrite Es; now apply firstn_app_exact).
      rewrite <- F. rewrite Ed.
      change ((i, b) :: post) with ([(i, b)] ++ post).
      rewrite !stream_app, stream_single, Hnm. symmetry. now apply firstn_mid.
    + rewrite Ed in Hc. eapply contig_cut; eauto.
Qed.

(* ------------------------------------------------------------------ *)
(* the invariant of all histories                                     *)
(* ------------------------------------------------------------------ *)

Notation step := (step crc).
Notation gstep := (gstep crc).
Notation grun := (grun crc).
Notation run := (run crc).
Notation do_recover := (do_recover crc).

Lemma bufio_write_spec b p out b' : bufio_write b p = (out, b') -> out ++ b' = b ++ p.
Proof.
  unfold bufio_write. generalize bufsize. intros n H.
  destruct (Nat.leb (length p) (n - length b)); [now inversion H|].
  destruct b as [|x b]; [inversion H; now rewrite app_nil_r|].
  destruct (Nat.leb (length (skipn (n - length (x :: b)) p)) n); inversion H; subst.
  - cbn [app]. rewrite <- ?app_assoc. now rewrite firstn_skipn.
  - cbn [app]. rewrite app_nil_r. now rewrite firstn_skipn.
Qed.

Lemma disk_of_not_nil st : disk_of st <> [].
Proof. unfold disk_of. intro H. apply app_eq_nil in H as [_ H]. discriminate. Qed.

Lemma stream_disk_of st : stream (disk_of st) = stream (segs st) ++ tail st.
Proof. unfold disk_of. now rewrite stream_app, stream_single. Qed.

Record Inv (st : state) (g : ghost) : Prop := {
  inv_contig : contig 0 (disk_of st);
  inv_whole  : Forall whole (segs st);
  inv_ok     : Forall payload_ok (logl g);
  inv_dur    : (dur g <= length (logl g))%nat;
  inv_up     : up st = true ->
               stream (disk_of st) ++ buf st = frames (logl g) /\
               (synced st <= length (tail st))%nat /\
               (length (frames (durable g)) <= length (stream (segs st)) + synced st)%nat;
  inv_down   : up st = false ->
               prefix (stream (disk_of st)) (frames (logl g)) /\
               (length (frames (durable g)) <= length (stream (disk_of st)))%nat
}.

Lemma Inv_init : Inv init ginit.
Proof.
  constructor; cbn; auto; try discriminate.
Qed.

Lemma durable_app g p :
  (dur g <= length (logl g))%nat ->
  durable {| logl := logl g ++ [p]; dur := dur g |} = durable g.
Proof.
  intros H. unfold durable. cbn [logl dur]. rewrite firstn_app.
  replace (dur g - length (logl g))%nat with 0%nat by lia. cbn [firstn]. now rewrite app_nil_r.
Qed.

Lemma Inv_append st g p :
  Inv st g -> up st = true -> payload_ok p ->
  Inv (do_append crc st p) {| logl := logl g ++ [p]; dur := dur g |}.
Proof.
  intros [Hc Hw Hok Hd Hu _] U Hp. destruct (Hu U) as (E & Hs & Hl).
  unfold do_append. destruct (bufio_write (buf st) (frame p)) as [out b'] eqn:B.
  apply bufio_write_spec in B.
  constructor; cbn [segs tidx tail buf synced up logl dur]; try discriminate.
  - unfold disk_of in *. cbn [segs tidx tail]. rewrite contig_app in *. cbn [contig fst] in *. tauto.
  - exact Hw.
  - apply Forall_app. split; [exact Hok|]. now constructor.
  - rewrite app_length. lia.
  - intros _. rewrite durable_app by exact Hd. split; [|split; [rewrite app_length; lia|exact Hl]].
    rewrite stream_disk_of in *. cbn [segs tail]. rewrite frames_app, <- E.
    rewrite <- !app_assoc. rewrite B. cbn [Model_Wal.frames map concat]. now rewrite app_nil_r.
Qed.

Lemma Inv_flush st g : Inv st g -> up st = true -> Inv (do_flush st) g.
Proof.
  intros [Hc Hw Hok Hd Hu _] U. destruct (Hu U) as (E & Hs & Hl).
  constructor; cbn [do_flush segs tidx tail buf synced up]; try discriminate; auto.
  - unfold disk_of in *. cbn [segs tidx tail]. rewrite contig_app in *. cbn [contig fst] in *. tauto.
  - intros _. split; [|split; [rewrite app_length; lia|exact Hl]].
    rewrite stream_disk_of in *. cbn [do_flush segs tail]. now rewrite app_nil_r, app_assoc.
Qed.

Lemma Inv_sync st g :
  Inv st g -> up st = true -> Inv (do_sync st) {| logl := logl g; dur := length (logl g) |}.
Proof.
  intros [Hc Hw Hok Hd Hu _] U. destruct (Hu U) as (E & Hs & Hl).
  constructor; cbn [do_sync segs tidx tail buf synced up logl dur]; try discriminate; auto.
  - unfold disk_of in *. cbn [segs tidx tail]. rewrite contig_app in *. cbn [contig fst] in *. tauto.
  - intros _. rewrite stream_disk_of in *. cbn [do_sync segs tail]. rewrite app_nil_r, app_assoc.
    split; [exact E|]. split; [lia|].
    unfold durable. cbn [logl dur]. rewrite firstn_all. rewrite <- E, !app_length. lia.
Qed.

Lemma Inv_shift st g :
  Inv st g -> up st = true -> Inv (do_shift st) {| logl := logl g; dur := length (logl g) |}.
Proof.
  intros I U. pose proof (Inv_sync st g I U) as [Hc Hw Hok Hd Hu _].
  destruct (Hu eq_refl) as (E & Hs & Hl).
  cbn [logl dur] in E, Hok, Hl, Hd.
  unfold do_shift. set (s1 := do_sync st) in *.
  rewrite stream_disk_of in E. assert (B1 : buf s1 = []) by reflexivity. rewrite B1, app_nil_r in E.
  constructor; cbn [segs tidx tail buf synced up logl dur]; try discriminate; auto.
  - unfold disk_of in *. cbn [segs tidx tail]. rewrite !contig_app in *. cbn [contig fst length] in *.
    rewrite app_length. cbn [length]. repeat split; try tauto. lia.
  - apply Forall_app. split; [exact Hw|]. constructor; [|constructor].
    destruct (whole_rest (segs s1) (tail s1) (logl g) Hw Hok E) as (c & Hc' & Ec).
    exists c. now split.
  - intros _. rewrite stream_disk_of. cbn [segs tail].
    rewrite !app_nil_r, stream_app, stream_single.
    split; [exact E|]. split; [cbn; lia|].
    unfold durable. cbn [logl dur]. rewrite firstn_all, <- E. rewrite !app_length. lia.
Qed.

Lemma Inv_crash st g k : Inv st g -> up st = true -> Inv (do_crash st k) g.
Proof.
  intros [Hc Hw Hok Hd Hu _] U. destruct (Hu U) as (E & Hs & Hl).
  constructor; cbn [do_crash segs tidx tail buf synced up]; try discriminate; auto.
  - unfold disk_of in *. cbn [segs tidx tail]. rewrite contig_app in *. cbn [contig fst] in *. tauto.
  - intros _. rewrite stream_disk_of in *. cbn [do_crash segs tail]. split.
    + rewrite <- E. exists (skipn (synced st + k) (tail st) ++ buf st).
      rewrite <- !app_assoc. f_equal. rewrite app_assoc. now rewrite firstn_skipn.
    + rewrite app_length, firstn_length. lia.
Qed.

(* what a recovery does, from any reachable state *)
Lemma recover_out st g :
  Inv st g ->
  exists recs e st',
    step st Recover = (st', Some (recs, e)) /\
    prefix recs (logl g) /\ prefix (must_survive st g) recs /\
    (e = REof \/ e = RUnexpected) /\
    stream (disk_of st') = frames recs /\ buf st' = [] /\ up st' = true /\
    Forall whole (disk_of st') /\
    Inv st' {| logl := recs; dur := length recs |}.
Proof.
  intros I.
  (* the state the reader sees, and what must survive, in "down" form *)
  assert (exists st0 K,
            st0 = (if up st then do_sync st else st) /\
            must_survive st g = firstn K (logl g) /\
            contig 0 (disk_of st0) /\ Forall whole (segs st0) /\ Forall payload_ok (logl g) /\
            prefix (stream (disk_of st0)) (frames (logl g)) /\
            (length (frames (firstn K (logl g))) <= length (stream (disk_of st0)))%nat)
    as (st0 & K & E0 & EK & Hc & Hw & Hok & Hpre & Hlen).
  { unfold must_survive. destruct (up st) eqn:U.
    - pose proof (Inv_sync st g I U) as [Hc Hw Hok Hd Hu _].
      destruct (Hu eq_refl) as (E & Hs & Hl). cbn [logl dur] in *.
      exists (do_sync st), (length (logl g)). repeat split; auto.
      + now rewrite firstn_all.
      + rewrite <- E. cbn [do_sync buf]. rewrite app_nil_r. apply prefix_refl.
      + unfold durable in Hl. cbn [logl dur] in Hl. rewrite stream_disk_of. rewrite app_length. lia.
    - destruct I as [Hc Hw Hok Hd _ Hdn]. destruct (Hdn U) as (P & Hl).
      exists st, (dur g). repeat split; auto. }
  destruct (recover_core (disk_of st0) (logl g) K Hc (disk_of_not_nil st0) Hok Hpre Hlen)
    as (recs & e & pre & i & b & post & b' & ER & Ed & P1 & P2 & He & Es & Hc').
  set (st' := {| segs := pre; tidx := i; tail := b'; buf := []; synced := length b'; up := true |}).
  assert (Estep : step st Recover = (st', Some (recs, e))).
  { unfold Model_Wal.step, step_gen, do_recover_gen. rewrite <- E0.
    change (recover_disk_gen crc false false (disk_of st0)) with (recover_disk crc (disk_of st0)).
    rewrite ER. unfold reopen. rewrite split_last_app. reflexivity. }
  assert (Hokr : Forall payload_ok recs) by (eapply Forall_prefix; eauto).
  assert (Hwp : Forall whole pre).
  { eapply Forall_prefix; [|exact Hw]. unfold disk_of in Ed. eapply app_last_split; eauto. }
  assert (Hwd : Forall whole (disk_of st')).
  { unfold disk_of. cbn [segs tidx tail st']. apply Forall_app. split; [exact Hwp|].
    constructor; [|constructor]. destruct (whole_rest pre b' recs Hwp Hokr Es) as (c & Hc2 & Ec).
    exists c. now split. }
  exists recs, e, st'. split; [exact Estep|]. split; [exact P1|]. split; [now rewrite EK|].
  split; [exact He|]. split; [now rewrite stream_disk_of|]. split; [reflexivity|]. split; [reflexivity|].
  split; [exact Hwd|].
  constructor; cbn [segs tidx tail buf synced up logl dur st']; try discriminate; auto.
  intros _. rewrite stream_disk_of. cbn [segs tail]. rewrite app_nil_r.
  split; [exact Es|]. split; [lia|].
  unfold durable. cbn [logl dur]. rewrite firstn_all, <- Es, app_length. lia.
Qed.

Lemma gstep_inv st g o :
  Inv st g -> op_ok o -> Inv (fst (gstep (st, g) o)) (snd (gstep (st, g) o)).
Proof.
  intros I Ho. unfold Model_Wal.gstep.
  destruct o as [p| | | |k|]; cbn [Model_Wal.step step_gen].
  - destruct (up st) eqn:U; cbn [fst snd]; [now apply Inv_append|exact I].
  - destruct (up st) eqn:U; cbn [fst snd]; [now apply Inv_flush|exact I].
  - destruct (up st) eqn:U; cbn [fst snd]; [now apply Inv_sync|exact I].
  - destruct (up st) eqn:U; cbn [fst snd]; [now apply Inv_shift|exact I].
  - destruct (up st) eqn:U; cbn [fst snd]; [now apply Inv_crash|exact I].
  - destruct (recover_out st g I) as (recs & e & st' & Es & _ & _ & _ & _ & _ & _ & _ & I').
    unfold Model_Wal.step, step_gen in Es.
    destruct (do_recover_gen crc false false st) as [st2 out]. inversion Es; subst.
    cbn [fst snd]. exact I'.
Qed.

Lemma grun_app sg h1 h2 : grun sg (h1 ++ h2) = grun (grun sg h1) h2.
Proof. unfold Model_Wal.grun. apply fold_left_app. Qed.

Lemma grun_inv h : forall st g,
  Inv st g -> hist_ok h -> Inv (fst (grun (st, g) h)) (snd (grun (st, g) h)).
Proof.
  induction h as [|o h IH]; intros st g I Hh; [exact I|].
  inversion Hh as [|? ? Ho Hh']; subst.
  unfold Model_Wal.grun. cbn [fold_left].
  pose proof (gstep_inv st g o I Ho) as I'.
  destruct (gstep (st, g) o) as [st1 g1]. cbn [fst snd] in I'. now apply IH.
Qed.

Lemma run_inv h : hist_ok h -> Inv (fst (run h)) (snd (run h)).
Proof. intros H. apply grun_inv; [apply Inv_init|exact H]. Qed.

(* ------------------------------------------------------------------ *)
(* the property                                                       *)
(* ------------------------------------------------------------------ *)

(* C03_recover_prefix *)
Lemma recover_prefix h :
  hist_ok h -> forall st g, run h = (st, g) ->
  forall st' recs e, step st Recover = (st', Some (recs, e)) ->
    prefix recs (logl g) /\ prefix (must_survive st g) recs /\ (e = REof \/ e = RUnexpected).
Proof.
  intros Hh st g Er st' recs e Es.
  pose proof (run_inv h Hh) as I. rewrite Er in I. cbn [fst snd] in I.
  destruct (recover_out st g I) as (recs' & e' & st'' & Es' & P1 & P2 & He & _).
  rewrite Es in Es'. inversion Es'; subst. auto.
Qed.

Lemma read_all_frames l :
  Forall payload_ok l -> forall fuel, (length (frames l) < fuel)%nat ->
  read_all fuel (frames l) = (l, REof, N.of_nat (length (frames l))).
Proof.
  induction 1 as [|p l Hp Hl IH]; intros fuel Hf.
  - destruct fuel; [cbn in Hf; lia|]. reflexivity.
  - destruct fuel; [cbn in Hf; lia|]. rewrite frames_cons in *. rewrite app_length, frame_length in Hf.
    unfold Model_Wal.read_all in *. cbn [read_all_gen].
    change (read_one_gen crc false) with read_one. rewrite read_one_frame by exact Hp.
    rewrite IH by lia. f_equal. rewrite app_length, frame_length.
    unfold payload_ok in Hp. rewrite N.mod_small by lia. lia.
Qed.

(* C03_recover_clean *)
Lemma recover_clean h :
  hist_ok h -> forall st g, run h = (st, g) ->
  forall st' recs e, step st Recover = (st', Some (recs, e)) ->
    stream (disk_of st') = frames recs /\ buf st' = [] /\ up st' = true /\
    Forall whole (disk_of st') /\
    forall more, Forall payload_ok more ->
      read_stream (stream (disk_of st') ++ frames more)
      = (recs ++ more, REof, N.of_nat (length (frames (recs ++ more)))).
Proof.
  intros Hh st g Er st' recs e Es.
  pose proof (run_inv h Hh) as I. rewrite Er in I. cbn [fst snd] in I.
  destruct (recover_out st g I) as (recs' & e' & st'' & Es' & P1 & _ & _ & S1 & S2 & S3 & S4 & I').
  rewrite Es in Es'. inversion Es'; subst. repeat split; auto.
  intros more Hm. rewrite S1, <- frames_app.
  unfold Model_Wal.read_stream, read_stream_gen. change (read_all_gen crc false) with read_all.
  apply read_all_frames; [|lia].
  apply Forall_app. split; [|exact Hm]. eapply Forall_prefix; [exact P1|]. apply (inv_ok _ _ I).
Qed.

(* one step never shortens the durable prefix *)
Lemma gstep_durable st g o :
  Inv st g -> op_ok o -> prefix (durable g) (durable (snd (gstep (st, g) o))).
Proof.
  intros I Ho. pose proof (inv_dur _ _ I) as Hd.
  unfold Model_Wal.gstep. destruct o as [p| | | |k|]; cbn [Model_Wal.step step_gen snd].
  - destruct (up st); [rewrite durable_app by exact Hd|]; apply prefix_refl.
  - apply prefix_refl.
  - destruct (up st); [|apply prefix_refl]. unfold durable. cbn [logl dur].
    rewrite firstn_all. apply prefix_firstn.
  - destruct (up st); [|apply prefix_refl]. unfold durable. cbn [logl dur].
    rewrite firstn_all. apply prefix_firstn.
  - apply prefix_refl.
  - destruct (recover_out st g I) as (recs & e & st' & Es & _ & P2 & _).
    unfold Model_Wal.step, step_gen in Es.
    destruct (do_recover_gen crc false false st) as [st2 [recs2 e2]]. inversion Es; subst.
    cbn [snd]. unfold durable at 2. cbn [logl dur]. rewrite firstn_all.
    eapply prefix_trans; [|exact P2]. unfold must_survive.
    destruct (up st); [apply prefix_firstn|apply prefix_refl].
Qed.

Lemma grun_durable h : forall st g,
  Inv st g -> hist_ok h -> prefix (durable g) (durable (snd (grun (st, g) h))).
Proof.
  induction h as [|o h IH]; intros st g I Hh; [apply prefix_refl|].
  inversion Hh as [|? ? Ho Hh']; subst.
  unfold Model_Wal.grun. cbn [fold_left].
  pose proof (gstep_inv st g o I Ho) as I'. pose proof (gstep_durable st g o I Ho) as P.
  destruct (gstep (st, g) o) as [st1 g1]. cbn [fst snd] in *.
  eapply prefix_trans; [exact P|]. now apply IH.
Qed.

(* C03_cycles, part 1: the durable prefix only grows, whatever happens *)
Lemma cycles_durable_monotone h1 h2 :
  hist_ok (h1 ++ h2) -> prefix (durable (snd (run h1))) (durable (snd (run (h1 ++ h2)))).
Proof.
  intros Hh. apply Forall_app in Hh as [H1 H2].
  unfold Model_Wal.run. rewrite grun_app.
  pose proof (run_inv h1 H1) as I. unfold Model_Wal.run in I.
  destruct (grun (init, ginit) h1) as [st1 g1]. cbn [fst snd] in *. now apply grun_durable.
Qed.

(* C03_cycles, part 2: whatever was durable at some point is returned, in
   order, by every later recovery *)
Lemma cycles_no_loss h1 h2 :
  hist_ok (h1 ++ h2) -> forall st g, run (h1 ++ h2) = (st, g) ->
  forall st' recs e, step st Recover = (st', Some (recs, e)) ->
    prefix (durable (snd (run h1))) recs.
Proof.
  intros Hh st g Er st' recs e Es.
  pose proof (cycles_durable_monotone h1 h2 Hh) as M. rewrite Er in M. cbn [snd] in M.
  destruct (recover_prefix _ Hh st g Er st' recs e Es) as (_ & P2 & _).
  eapply prefix_trans; [exact M|]. eapply prefix_trans; [|exact P2].
  unfold must_survive. pose proof (run_inv _ Hh) as I. rewrite Er in I. cbn [fst snd] in I.
  destruct (up st); [apply prefix_firstn|apply prefix_refl].
Qed.

(* operations that neither crash nor restart *)
Definition quiet (o : op) : Prop :=
  match o with Crash _ | Recover => False | _ => True end.

Lemma quiet_run p h : forall st g,
  Forall quiet h -> up st = true -> In p (logl g) ->
  up (fst (grun (st, g) h)) = true /\ In p (logl (snd (grun (st, g) h))).
Proof.
  induction h as [|o h IH]; intros st g Hq U Hin; [now split|].
  inversion Hq as [|? ? Ho Hq']; subst.
  unfold Model_Wal.grun. cbn [fold_left].
  assert (up (fst (gstep (st, g) o)) = true /\ In p (logl (snd (gstep (st, g) o)))) as [U' Hin'].
  { unfold Model_Wal.gstep. destruct o; cbn [quiet] in Ho; try contradiction;
      cbn [Model_Wal.step step_gen fst snd]; rewrite U; cbn [logl]; split; auto.
    - unfold do_append. now destruct (bufio_write _ _).
    - apply in_or_app. now left. }
  destruct (gstep (st, g) o) as [st1 g1]. cbn [fst snd] in *. now apply IH.
Qed.

(* C03_cycles, part 3 (no bookkeeping in the statement): a record appended by a
   running writer and then covered by a Sync or Shift is returned by every
   later recovery, however many crash / recover / append rounds lie between *)
Lemma cycles_returned h1 p h2 o h3 :
  hist_ok (h1 ++ Append p :: h2 ++ o :: h3) ->
  up (fst (run h1)) = true -> Forall quiet h2 -> (o = Sync \/ o = Shift) ->
  forall st g, run (h1 ++ Append p :: h2 ++ o :: h3) = (st, g) ->
  forall st' recs e, step st Recover = (st', Some (recs, e)) -> In p recs.
Proof.
  intros Hh U1 Hq Ho st g Er st' recs e Es.
  replace (h1 ++ Append p :: h2 ++ o :: h3) with ((h1 ++ Append p :: h2 ++ [o]) ++ h3) in *
    by (rewrite <- !app_assoc; cbn [app]; rewrite <- app_assoc; reflexivity).
  pose proof (cycles_no_loss _ _ Hh st g Er st' recs e Es) as P.
  eapply prefix_In; [exact P|].
  (* p is durable after h1 ++ Append p :: h2 ++ [o] *)
  unfold Model_Wal.run. rewrite grun_app.
  destruct (grun (init, ginit) h1) as [st1 g1] eqn:E1.
  unfold Model_Wal.run in U1. rewrite E1 in U1. cbn [fst] in U1.
  change (Append p :: h2 ++ [o]) with ([Append p] ++ h2 ++ [o]). rewrite !grun_app.
  assert (Ea : grun (st1, g1) [Append p] = (do_append crc st1 p, {| logl := logl g1 ++ [p]; dur := dur g1 |})).
  { unfold Model_Wal.grun. cbn [fold_left]. unfold Model_Wal.gstep.
    cbn [Model_Wal.step step_gen]. now rewrite U1. }
  rewrite Ea.
  destruct (quiet_run p h2 (do_append crc st1 p) {| logl := logl g1 ++ [p]; dur := dur g1 |} Hq)
    as [U2 Hin2].
  { unfold do_append. now destruct (bufio_write _ _). }
  { cbn [logl]. apply in_or_app. right. now left. }
  destruct (grun _ h2) as [st2 g2]. cbn [fst snd] in *.
  unfold Model_Wal.grun. cbn [fold_left]. unfold Model_Wal.gstep.
  destruct Ho as [-> | ->]; cbn [Model_Wal.step step_gen snd]; rewrite U2;
    unfold durable; cbn [logl dur]; now rewrite firstn_all.
Qed.

End WalProofs.

(* ------------------------------------------------------------------ *)
(* non-vacuity and the two repaired defects (executable CRC-32C)      *)
(* ------------------------------------------------------------------ *)

Definition ex_a : bytes := [1; 2; 3].
Definition ex_b : bytes := [9; 8; 7; 6; 5].
Definition ex_c : bytes := [42; 43].

(* a history meeting the hypotheses of cycles_returned, with two crash rounds *)
Definition ex_hist : list op :=
  [Append ex_a; Sync; Append ex_b; Flush; Crash 9; Recover] ++
  Append ex_c :: [Append ex_b; Flush] ++ Shift :: [Append ex_a; Flush; Crash 4; Recover; Append ex_b; Crash 0].

Example ex_hist_hyps :
  hist_ok ex_hist /\
  up (fst (run crc32c [Append ex_a; Sync; Append ex_b; Flush; Crash 9; Recover])) = true /\
  Forall quiet [Append ex_b; Flush].
Proof.
  split; [|split].
  - unfold ex_hist, hist_ok. repeat constructor; unfold payload_ok; cbn; lia.
  - vm_compute. reflexivity.
  - repeat constructor.
Qed.

Example ex_hist_result :
  let st := fst (run crc32c ex_hist) in
  fst (snd (do_recover crc32c st)) = [ex_a; ex_c; ex_b].
Proof. vm_compute. reflexivity. Qed.

(* the bookkeeping on that history: four records in the logical log, three of
   them durable, the machine is down — so the hypotheses of recover_prefix /
   recover_clean / cycles_no_loss are met with a non-trivial must_survive *)
Example ex_hist_ghost :
  let sg := run crc32c ex_hist in
  up (fst sg) = false /\ logl (snd sg) = [ex_a; ex_c; ex_b; ex_b] /\
  must_survive (fst sg) (snd sg) = [ex_a; ex_c; ex_b] /\
  map fst (disk_of (fst sg)) = [0].
Proof. vm_compute. repeat split; reflexivity. Qed.

(* -- defect repaired by 9b02e11: a tail cut exactly after an 8-byte header read
      as a clean EOF, so nothing was truncated; the next record, appended and
      SYNCED, was glued to the dangling header and destroyed by the following
      recovery.  (records returned by the two recoveries) *)
Definition hist_eofbug : list op :=
  [Append ex_a; Sync; Append ex_b; Flush; Crash 8; Recover; Append ex_c; Sync; Crash 0; Recover].

Definition recs_of (outs : list (list bytes * rerr * disk)) : list (list bytes * rerr) :=
  map (fun o => (fst (fst o), snd (fst o))) outs.

Lemma eofbug_refuted :
  recs_of (snd (exec_gen crc32c true false init hist_eofbug))
    = [([ex_a], REof); ([ex_a], RCorrupt)]           (* ex_c was synced and is lost *)
  /\ recs_of (snd (exec crc32c init hist_eofbug))
    = [([ex_a], RUnexpected); ([ex_a; ex_c], REof)]. (* repaired code *)
Proof. vm_compute. split; reflexivity. Qed.

(* -- defect repaired by 2fcca30: CloseAndRepair removed fileFor(id, idx) — the
      segment that holds the valid offset — instead of the later ones: torn bytes
      at the start of a new segment made the repair delete the last valid segment *)
Definition hist_wrongfile : list op :=
  [Append ex_a; Sync; Shift; Append ex_b; Flush; Crash 3; Recover; Recover].

Lemma wrongfile_refuted :
  recs_of (snd (exec_gen crc32c false true init hist_wrongfile))
    = [([ex_a], RUnexpected); ([], RUnexpected)]     (* ex_a was synced and is lost *)
  /\ recs_of (snd (exec crc32c init hist_wrongfile))
    = [([ex_a], RUnexpected); ([ex_a], REof)].       (* repaired code *)
Proof. vm_compute. split; reflexivity. Qed.

(* the pre-fix reader and repair, under the names used in the notes *)
Lemma eofbug_reader_is_prefix_variant s :
  read_all_prefix_eofbug crc32c (S (length s)) s = read_stream_gen crc32c true s.
Proof. reflexivity. Qed.

Lemma wrongfile_repair_example :
  repair_wrongfile [(0, frame crc32c ex_a); (1, [7; 7; 7])] 11 = [(1, [7; 7; 7])]
  /\ repair [(0, frame crc32c ex_a); (1, [7; 7; 7])] 11 = [(0, frame crc32c ex_a)].
Proof. vm_compute. split; reflexivity. Qed.

