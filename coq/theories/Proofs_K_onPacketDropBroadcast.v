(* Proofs_K_onPacketDropBroadcast.v -- network PeerToPeer.onPacket: drop rule for originator broadcasts
   Split out of Proofs_Kernels.v: this file imports ONLY the generated kernel(s)
   gen/K_onPacketDropBroadcast.v, so an edit of another kernel's Go source cannot break it.
   Style: stdlib only; arithmetic closed by lia with the euclidean-division hook. *)
From Coq Require Import ZArith Bool String List Lia.
From Coq Require Import ZifyBool.
From Goloop Require Import lib.GoInt Proofs_K_tactics.
From Goloop.gen Require Import K_onPacketDropBroadcast.
Import ListNotations.
Local Open Scope Z_scope.

Ltac Zify.zify_post_hook ::= Z.to_euclidean_division_equations.

(* drop rule 2: a broadcast whose source is the sending peer needs the root (validator) role *)
Lemma onPacketDropBroadcast_spec isBroadcast isSourcePeer hasRoot :
  onPacketDropBroadcast isBroadcast isSourcePeer hasRoot = true <->
  (isBroadcast = true /\ isSourcePeer = true /\ hasRoot = false).
Proof.
  unfold onPacketDropBroadcast. destruct isBroadcast, isSourcePeer, hasRoot; cbn; intuition congruence.
Qed.

Lemma onPacketDropBroadcast_params_ok :
  onPacketDropBroadcast_params = ["isBroadcast"; "isSourcePeer"; "p.HasRole(p2pRoleRoot)"]%string.
Proof. reflexivity. Qed.
