(* Model_Quorum.v — the two "more than two thirds" tests used for commit
   certificates and BTP proofs, written as the Go code writes them.  No proofs.

   consensus/commitvotelist.go
     func enoughVote(voted int, voters int) bool {
         if voters == 0 { return true }
         twoThirds := voters * 2 / 3
         return voted > twoThirds
     }
   btp/ntm/secp256k1proof.go, end of Verify
     if valid <= 2*len(pc.Validators)/3 { return error }

   Both arguments are lengths of slices (non-negative, far below 2^62), so
   they are nat here and Go's truncating division is Nat.div. *)
From Coq Require Import Arith.

Definition enough (voted voters : nat) : bool :=
  if voters =? 0 then true
  else let two_thirds := voters * 2 / 3 in two_thirds <? voted.

(* true = the proof is refused for lack of parts *)
Definition ntm_too_few (valid validators : nat) : bool :=
  valid <=? 2 * validators / 3.

(* number of set flags of a voted-vector *)
Fixpoint count_true (v : list bool) : nat :=
  match v with
  | nil => 0
  | cons true r => S (count_true r)
  | cons false r => count_true r
  end.
