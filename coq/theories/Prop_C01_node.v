(* Property C01, node-level half — the guards of the abstract protocol
   (Spec_Tendermint.v) hold for every decision the model of ONE validator's
   engine takes, in every event history (any message order, timeouts, callbacks,
   crash points, surviving WAL records, restarts).  Only theorems; proofs are in
   Proofs_ConsensusNode.v / Proofs_ConsensusNode_C01.v.  The protocol-level
   agreement theorem is Prop_C01.v (assembled from Proofs_Tendermint.v and these).

   [glog] is the model's ghost log of decisions ([gev] in Model_ConsensusNode.v);
   [gev_ok] spells out the guard of each kind of entry:
     GVote r Prevote d (Some (lr, b))   d = Some b         a locked validator prevotes its locked block
     GVote r Precommit (Some b) lk      lk = Some (r, b)   a block is precommitted only together with locking it at r
     GLock r b ev                       quorum_ev n r Prevote (Some b) ev     ... on +2/3 prevotes for it in round r
     GUnlock lr b r w ev                lr <= r, w <> Some b, quorum_ev n r Prevote w ev
                                                           unlock only on a +2/3 prevote set for something else at a round >= lockedRound
     GCommit b r ev                     quorum_ev n r Precommit (Some b) ev   enterCommit only on +2/3 precommits of one round
   [quorum_ev n r t w ev]: ev has one slot per validator, slot i holds a vote of
   validator i, of round r and type t, and more than 2n/3 slots vote w. *)
From Coq Require Import List ZArith.
From Goloop Require Import Model_ConsensusNode Proofs_ConsensusNode Proofs_ConsensusNode_C01.
Open Scope Z_scope.

Theorem C01n_decisions_justified :
  forall (n : nat) (own : Z) (blocks : list blk) evs,
    Forall (gev_ok n) (glog (run_evs n own blocks evs)).
Proof. exact decisions_justified. Qed.
Print Assumptions C01n_decisions_justified.

Theorem C01n_finalize_needs_quorum :
  forall (n : nat) (own : Z) (blocks : list blk) evs b,
    decided (run_evs n own blocks evs) = Some b ->
    exists r ev, quorum_ev n r Precommit (Some b) ev.
Proof. exact finalize_needs_quorum. Qed.
Print Assumptions C01n_finalize_needs_quorum.

Theorem C01n_lock_round_le_round :
  forall (n : nat) (own : Z) (blocks : list blk) evs,
    locked (run_evs n own blocks evs) <> None ->
    locked_round (run_evs n own blocks evs) <= round (run_evs n own blocks evs).
Proof. exact lock_round_le_round. Qed.
Print Assumptions C01n_lock_round_le_round.

Theorem C01n_rounds_monotone :
  forall (n : nat) (own : Z) (blocks : list blk), 0 <= own < Z.of_nat n ->
  forall evs m,
    status_ (run_evs n own blocks evs) = Running -> In m (sent (run_evs n own blocks evs)) ->
    msg_round m <= round (run_evs n own blocks evs).
Proof. exact sent_rounds_le. Qed.
Print Assumptions C01n_rounds_monotone.
