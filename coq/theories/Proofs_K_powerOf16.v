(* Proofs_K_powerOf16.v -- icon/merkle/hexary powerOf16
   Split out of Proofs_Kernels.v: this file imports ONLY the generated kernel(s)
   gen/K_powerOf16.v, so an edit of another kernel's Go source cannot break it.
   Style: stdlib only; arithmetic closed by lia with the euclidean-division hook. *)
From Coq Require Import ZArith Bool String List Lia.
From Coq Require Import ZifyBool.
From Goloop Require Import lib.GoInt Proofs_K_tactics.
From Goloop.gen Require Import K_powerOf16.
Import ListNotations.
Local Open Scope Z_scope.

Ltac Zify.zify_post_hook ::= Z.to_euclidean_division_equations.

Definition is_pow16 (n : Z) : Prop := exists k, 0 <= k /\ n = 16 ^ k.

Lemma is_pow16_step n :
  15 < n -> (is_pow16 n <-> n mod 16 = 0 /\ is_pow16 (n / 16)).
Proof.
  intros Hn. split.
  - intros [k [Hk ->]].
    assert (k <> 0) by (intros ->; cbn in Hn; lia).
    replace k with (Z.succ (k - 1)) by lia. rewrite Z.pow_succ_r by lia.
    split.
    + rewrite Z.mul_comm. apply Z.mod_mul. lia.
    + exists (k - 1). split; [lia|]. rewrite Z.mul_comm. rewrite Z.div_mul by lia. reflexivity.
  - intros [Hm [k [Hk He]]]. exists (k + 1). split; [lia|].
    rewrite Z.pow_add_r by lia. rewrite <- He. change (16 ^ 1) with 16. lia.
Qed.

Lemma is_pow16_small n : 0 <= n <= 15 -> (is_pow16 n <-> n = 1).
Proof.
  intros Hn. split.
  - intros [k [Hk ->]]. destruct (Z.eq_dec k 0) as [->|]; [reflexivity|].
    assert (16 ^ 1 <= 16 ^ k) by (apply Z.pow_le_mono_r; lia). change (16 ^ 1) with 16 in *. lia.
  - intros ->. exists 0. split; [lia|reflexivity].
Qed.

Lemma powerOf16_loop1_spec fuel : forall n,
  0 <= n < 16 * 16 ^ Z.of_nat fuel ->
  (exists m, powerOf16_loop1 (S fuel) n = Some (inr m) /\ 0 <= m <= 15 /\ (is_pow16 n <-> m = 1)) \/
  (powerOf16_loop1 (S fuel) n = Some (inl false) /\ ~ is_pow16 n).
Proof.
  induction fuel as [|fuel IH]; intros n Hn.
  - change (16 ^ Z.of_nat 0) with 1 in Hn. cbn [powerOf16_loop1].
    destruct (n >? 15) eqn:E; [lia|].
    left. exists n. split; [reflexivity|]. split; [lia|]. apply is_pow16_small. lia.
  - remember (S fuel) as f eqn:Hf. cbn [powerOf16_loop1]. destruct (n >? 15) eqn:E.
    + assert (H15 : 15 < n) by lia.
      change 15 with (2 ^ 4 - 1). rewrite land_ones_mod by lia. change (2 ^ 4) with 16.
      rewrite shiftr_div by lia. change (2 ^ 4) with 16.
      destruct (negb (n mod 16 =? 0)) eqn:E2.
      * right. split; [reflexivity|]. rewrite is_pow16_step by lia. lia.
      * assert (Hm : n mod 16 = 0) by lia.
        assert (Hr : 0 <= n / 16 < 16 * 16 ^ Z.of_nat fuel).
        { subst f. rewrite Nat2Z.inj_succ, Z.pow_succ_r in Hn by lia. lia. }
        subst f.
        destruct (IH (n / 16) Hr) as [[m [He [Hm15 Hiff]]]|[He Hnot]].
        -- left. exists m. split; [exact He|]. split; [exact Hm15|].
           rewrite is_pow16_step by lia. tauto.
        -- right. split; [exact He|]. rewrite is_pow16_step by lia. tauto.
    + left. exists n. split; [reflexivity|]. split; [lia|]. apply is_pow16_small. lia.
Qed.

(* 17 rounds of fuel suffice for every uint64; the result is "n is a power of 16" *)
Lemma powerOf16_spec fuel n :
  (17 <= fuel)%nat -> 0 <= n <= max_u64 ->
  exists b, powerOf16 fuel n = Some b /\ (b = true <-> is_pow16 n).
Proof.
  intros Hf Hn. destruct fuel as [|fuel]; [lia|].
  assert (Hlt : 0 <= n < 16 * 16 ^ Z.of_nat fuel).
  { split; [lia|]. assert (16 ^ 16 <= 16 ^ Z.of_nat fuel) by (apply Z.pow_le_mono_r; lia).
    change (16 ^ 16) with 18446744073709551616 in *. lia. }
  unfold powerOf16.
  destruct (powerOf16_loop1_spec fuel n Hlt) as [[m [He [Hm Hiff]]]|[He Hnot]]; rewrite He.
  - exists (m =? 1). split; [reflexivity|]. rewrite Hiff. lia.
  - exists false. split; [reflexivity|]. split; [discriminate|tauto].
Qed.

Example powerOf16_examples :
  powerOf16 17 1 = Some true /\ powerOf16 17 16 = Some true /\ powerOf16 17 4096 = Some true /\
  powerOf16 17 0 = Some false /\ powerOf16 17 32 = Some false /\ powerOf16 17 17 = Some false /\
  powerOf16 17 1152921504606846976 = Some true.
Proof. repeat split; vm_compute; reflexivity. Qed.
