(* Proofs_K_packetExtendInfoHint.v -- network packetExtendInfo.hint
   Split out of Proofs_Kernels.v: this file imports ONLY the generated kernel(s)
   gen/K_packetExtendInfoHint.v, so an edit of another kernel's Go source cannot break it.
   Style: stdlib only; arithmetic closed by lia with the euclidean-division hook. *)
From Coq Require Import ZArith Bool String List Lia.
From Coq Require Import ZifyBool.
From Goloop Require Import lib.GoInt Proofs_K_tactics.
From Goloop.gen Require Import K_packetExtendInfoHint.
Import ListNotations.
Local Open Scope Z_scope.

Ltac Zify.zify_post_hook ::= Z.to_euclidean_division_equations.

(* packetExtendMaxHint = 0x3F *)
Lemma packetExtendInfoHint_spec i :
  0 <= i <= max_u16 -> packetExtendInfoHint i = i / 1024.
Proof.
  intros Hi. unfold packetExtendInfoHint. cbv zeta.
  rewrite shiftr_div by lia. change 63 with (2 ^ 6 - 1). rewrite land_ones_mod by lia.
  change (2 ^ 10) with 1024. change (2 ^ 6) with 64.
  rewrite wrap_u8_small by lia. lia.
Qed.
