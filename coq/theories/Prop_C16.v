(* Property C16 — A failed transaction changes nothing but the fee.
   This file holds only the property theorems; proofs are in Proofs_TxExec.v.
   Model: Model_TxExec.v (frames, snapshots, rollback, fee charge). *)
From Coq Require Import List NArith ZArith.
From Goloop Require Import Model_TxExec Proofs_TxExec.
Import ListNotations.
Open Scope Z_scope.

(* whatever the transaction did before it failed (storage writes, balance moves between
   any accounts, nested frames, logs, BTP messages), the resulting state is the state
   before the transaction with the fee taken from the payer, and the receipt is empty *)
Theorem C16_failure_is_fee_only : forall p t s,
  r_status (fst (execute p t s)) <> 0%N ->
  snd (execute p t s) = charge_fee s (t_from t) (fee_of (fst (execute p t s)))
  /\ r_logs (fst (execute p t s)) = [] /\ r_btp (fst (execute p t s)) = [].
Proof. exact failure_is_fee_only. Qed.
Print Assumptions C16_failure_is_fee_only.

(* the same at any position of a block *)
Theorem C16_failure_in_block : forall p pre t s,
  let s0 := snd (exec_txs p pre s) in
  let r := fst (execute p t s0) in
  r_status r <> 0%N ->
  exec_txs p (pre ++ [t]) s = (fst (exec_txs p pre s) ++ [r], charge_fee s0 (t_from t) (fee_of r))
  /\ r_logs r = [] /\ r_btp r = [].
Proof. exact failure_in_block. Qed.
Print Assumptions C16_failure_in_block.

(* frame level: a call that fails, at whatever depth and after whatever partial mutation,
   leaves the world as it was when the call's root frame was pushed *)
Theorem C16_call_rollback : forall p async ops cur f stk,
  fst (fst (run p async ops cur f stk)) <> 0%N ->
  snd (fst (run p async ops cur f stk)) = root_snap f stk.
Proof. exact run_failure_restores. Qed.
Print Assumptions C16_call_rollback.

(* DoExecute level: any failure status (pre-check, out of step, handler failure) *)
Theorem C16_do_execute_rollback : forall p t s,
  fst (fst (do_execute p t s)) <> 0%N -> snd (fst (do_execute p t s)) = s.
Proof. exact do_execute_failure_restores. Qed.
Print Assumptions C16_do_execute_rollback.

(* timeout (call-context timer or a Timeout status reported by a callee) while inter-calls
   are running, at any nesting depth: cleanUpFrames drops every frame of the call and the
   world is the snapshot of the call's ROOT frame — the outer frames' writes do not survive *)
Theorem C16_timeout_rollback_all_frames : forall p async ops cur f stk,
  fst (fst (run p async ops cur f stk)) = StTimeout ->
  snd (fst (run p async ops cur f stk)) = root_snap f stk.
Proof. exact timeout_rollback_all_frames. Qed.
Print Assumptions C16_timeout_rollback_all_frames.

Theorem C16_cleanup_resets_to_target : forall k stk cur f,
  leave_k root_snap true k stk StTimeout cur f = (StTimeout, root_snap f stk, root_frame f stk).
Proof. exact cleanup_resets_to_target. Qed.
Print Assumptions C16_cleanup_resets_to_target.

(* ... and the timed-out transaction pays its whole (capped) step limit *)
Theorem C16_timeout_consumes_all : forall p t s,
  wf_params p -> wf_tx t -> fst (fst (do_execute p t s)) = StTimeout ->
  f_used (snd (do_execute p t s)) = tx_limit p t.
Proof. exact timeout_consumes_all. Qed.
Print Assumptions C16_timeout_consumes_all.

(* the variant of cleanUpFrames that resets to the snapshot of the frame that was current
   when the clean-up started (instead of the target's) does NOT have the property *)
Theorem C16_inner_only_cleanup_refuted :
  exists p t s,
    r_status (fst (execute_gen inner_snap p t s)) <> 0%N /\
    snd (execute_gen inner_snap p t s)
    <> charge_fee s (t_from t) (fee_of (fst (execute_gen inner_snap p t s))).
Proof. exact inner_only_cleanup_refuted. Qed.
Print Assumptions C16_inner_only_cleanup_refuted.

(* the validator list (and hence every IndexOf) is world state too: a failed transaction
   that granted / revoked validators leaves it as it was *)
Theorem C16_failure_keeps_validators : forall p t s,
  r_status (fst (execute p t s)) <> 0%N ->
  vals (snd (execute p t s)) = vals s
  /\ forall a, index_of a (vals (snd (execute p t s))) = index_of a (vals s).
Proof. exact failure_keeps_validators. Qed.
Print Assumptions C16_failure_keeps_validators.
