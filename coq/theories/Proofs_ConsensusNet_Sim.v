(* Proofs_ConsensusNet_Sim.v — the simulation relation between ONE engine of the
   network (slot i, correct) and the abstract protocol state, and its
   preservation by every primitive mutation of the engine model.

   Setting: during one event of engine i the rest of the network is fixed:
   [E] = the votes of everybody else (Byzantine injections and the votes the
   other correct engines have sent); [T0] = the abstract state at the beginning
   of the event.  [Sim s T]: T is reachable, differs from T0 only by actions of
   slot i ([frame]), its soup is (the image under [conv] of) E plus the votes in
   [sent s], its lock for i is the engine's lock, every vote the engine has
   stored (hvs) or used as evidence (ghost log) is in the soup, and a finalized
   block is decided in T.

   This file covers histories without crash points INSIDE events: [sm_fuse].  *)
From Coq Require Import List ZArith NArith Bool Arith Lia.
From Goloop Require Import Model_ConsensusNode Proofs_ConsensusNode Proofs_ConsensusNode_C01
  Model_ConsensusNet Proofs_ConsensusNet_Link.
Import ListNotations.
Open Scope Z_scope.

Set Implicit Arguments.

(* votes used as evidence by a ghost-log entry *)
Definition gev_votes (e : gev) : vset :=
  match e with
  | GLock _ _ ev | GUnlock _ _ _ _ ev | GCommit _ _ ev => ev
  | GVote _ _ _ _ => []
  end.

(* ------------------------------------------------------------------ what the relation reads *)

Record ssame (s s' : st) : Prop := {
  ss_status : status_ s' = status_ s;
  ss_locked : locked s' = locked s;
  ss_lr : locked_round s' = locked_round s;
  ss_hvs : hvs s' = hvs s;
  ss_glog : glog s' = glog s;
  ss_dec : decided s' = decided s;
  ss_round : round s' = round s;
  ss_fuse : fuse s' = fuse s;
  ss_sent : forall r t d k, In (SVote r t d k) (sent s') <-> In (SVote r t d k) (sent s)
}.

Lemma ssame_refl s : ssame s s.
Proof. constructor; auto. tauto. Qed.

Lemma ssame_trans a b c : ssame a b -> ssame b c -> ssame a c.
Proof.
  intros [] []; constructor; try congruence.
  intros. rewrite ss_sent1, ss_sent0. tauto.
Qed.

Definition sim_quiet (o : out) : bool :=
  match o with OSendVote _ | OFinalize _ => false | _ => true end.

Lemma emit_none o s : fuse s = None -> emit o s = apply_out o (set_outs (outs s ++ [o]) None s).
Proof. intro F. unfold emit. rewrite F. reflexivity. Qed.

Lemma fuse_emit o s : fuse s = None -> fuse (emit o s) = None.
Proof.
  intro F. rewrite emit_none; auto.
  destruct o as [[] ?|[]| | | | | | | | ]; reflexivity.
Qed.

Lemma fuse_emit_all l : forall s, fuse s = None -> fuse (emit_all l s) = None.
Proof. induction l as [|o l IH]; intros s F; cbn; auto. apply IH, fuse_emit; auto. Qed.

Lemma In_app_one {A} (l : list A) x y : In y (l ++ [x]) <-> In y l \/ y = x.
Proof. rewrite in_app_iff. cbn. intuition. Qed.

Lemma ssame_emit o s : fuse s = None -> sim_quiet o = true -> ssame s (emit o s).
Proof.
  intros F Q. rewrite emit_none; auto.
  destruct o as [[] ?|[]| | | | | | | | ]; try discriminate Q; constructor; cbn; auto; try tauto.
  intros. rewrite In_app_one. split; [intros [?|?]; [auto|discriminate]|auto].
Qed.

Lemma ssame_emit_all l : forall s, fuse s = None -> forallb sim_quiet l = true -> ssame s (emit_all l s).
Proof.
  induction l as [|o l IH]; intros s F Q; cbn in *; [apply ssame_refl|].
  apply andb_true_iff in Q as [Q1 Q2].
  eapply ssame_trans; [apply ssame_emit; eauto|]. apply IH; auto. apply fuse_emit; auto.
Qed.

Lemma ssame_send_proposal n blocks b pol s :
  fuse s = None -> ssame s (send_proposal n blocks b pol s).
Proof.
  intro F. unfold send_proposal.
  set (s1 := emit (OWrite WRound (RProposal (round s) b pol)) s).
  assert (S1 : ssame s s1) by (apply ssame_emit; auto).
  assert (F1 : fuse s1 = None) by (apply fuse_emit; auto).
  set (s2 := emit (OSync WRound) s1).
  assert (S2 : ssame s s2) by (eapply ssame_trans; [exact S1|apply ssame_emit; auto]).
  assert (F2 : fuse s2 = None) by (apply fuse_emit; auto).
  set (s3 := emit (OSendProposal (round s2) b pol) s2).
  assert (S3 : ssame s s3) by (eapply ssame_trans; [exact S2|apply ssame_emit; auto]).
  assert (F3 : fuse s3 = None) by (apply fuse_emit; auto).
  match goal with |- ssame _ (emit_all _ ?x) => set (s4 := x) end.
  assert (S4 : ssame s s4 /\ fuse s4 = None).
  { subst s4. destruct (Z.leb 0 pol).
    - split; [eapply ssame_trans; [exact S3|apply ssame_emit; auto]|apply fuse_emit; auto].
    - split; auto. }
  destruct S4 as [S4 F4].
  eapply ssame_trans; [exact S4|]. apply ssame_emit_all; auto.
  induction (all_parts blocks b); cbn; auto.
Qed.

Lemma ssame_write_lock_wal blocks pv b s :
  fuse s = None -> ssame s (write_lock_wal blocks pv b s).
Proof.
  intro F. unfold write_lock_wal.
  set (s1 := emit (OWrite WLock (RVoteList (vs_list pv))) s).
  assert (S1 : ssame s s1) by (apply ssame_emit; auto).
  assert (F1 : fuse s1 = None) by (apply fuse_emit; auto).
  match goal with |- ssame _ (emit _ ?x) => set (s2 := x) end.
  assert (S2 : ssame s1 s2).
  { subst s2. apply ssame_emit_all; auto. induction (all_parts blocks b); cbn; auto. }
  assert (F2 : fuse s2 = None) by (subst s2; apply fuse_emit_all; auto).
  eapply ssame_trans; [exact S1|]. eapply ssame_trans; [exact S2|]. apply ssame_emit; auto.
Qed.

Lemma ssame_add_part blocks b idx s : ssame s (snd (add_part blocks b idx s)).
Proof.
  unfold add_part. destruct (cur s); cbn; [|apply ssame_refl].
  destruct (negb _); cbn; [apply ssame_refl|]. destruct (negb _); cbn; [apply ssame_refl|].
  destruct (existsb _ _); cbn; [apply ssame_refl|]. constructor; cbn; auto. tauto.
Qed.

Lemma ssame_fill_from_cache blocks b s : ssame s (fill_from_cache blocks b s).
Proof.
  unfold fill_from_cache. generalize (all_parts blocks b). intro l.
  assert (G : forall s', ssame s s' ->
    ssame s (fold_left (fun s0 i => if existsb (fun e => N.eqb (fst e) b && N.eqb (snd e) i) (bpm s0)
                                    then snd (add_part blocks b i s0) else s0) l s')).
  { induction l as [|x l IH]; intros s' H; cbn; auto. apply IH.
    destruct (existsb _ _); auto. eapply ssame_trans; [exact H|apply ssame_add_part]. }
  apply G, ssame_refl.
Qed.

Lemma ssame_set_by_psid b s : ssame s (set_by_psid b s).
Proof. unfold set_by_psid. destruct (bps_id_is _ _); [apply ssame_refl|constructor; cbn; auto; tauto]. Qed.

(* ------------------------------------------------------------------ the relation *)

Section Sim.
  Variable n : nat.
  Variable byz : nat -> bool.
  Variable blocks : list blk.
  Variable i : nat.
  Hypothesis Hi : (i < n)%nat.
  Hypothesis Hbyz : byz i = false.
  Local Notation own := (Z.of_nat i).

  Variable E : list vote.               (* the votes of everybody else *)
  Hypothesis E_ok : forall v, In v E -> 0 <= v_from v < Z.of_nat n /\ 0 <= v_round v /\ v_from v <> own.
  Variable T0 : TM.state.               (* abstract state when the event begins *)
  Variable K0 : vote -> Prop.           (* votes known when the event begins *)

  Lemma Hown : 0 <= own < Z.of_nat n.
  Proof. lia. Qed.

  Definition sent_vote (s : st) (v : vote) : Prop :=
    exists r t d k, In (SVote r t d k) (sent s) /\ v = mkVote own r t d 0%N.

  Definition known (s : st) (v : vote) : Prop := In v E \/ sent_vote s v.

  Definition frame (T : TM.state) : Prop :=
    (forall j, j <> i -> TM.lock T j = TM.lock T0 j /\ TM.decided T j = TM.decided T0 j) /\
    incl (TM.soup T0) (TM.soup T).

  Record Sim (s : st) (T : TM.state) : Prop := {
    sm_reach : TM.reachable n byz T;
    sm_frame : frame T;
    sm_soup : forall m, In m (TM.soup T) <-> exists v, known s v /\ conv v = m;
    sm_lock : status_ s = Running -> TM.lock T i = convlock (lock_of s);
    sm_lpolka : forall lr b, TM.lock T i = Some (lr, b) -> TM.polka n (TM.soup T) lr (Some b) = true;
    sm_hvs : forall u, hvs_has (hvs s) u -> known s u;
    sm_glog : forall e u, In e (glog s) -> In (Some u) (gev_votes e) -> known s u;
    sm_dec : forall b, decided s = Some b -> TM.decided T i = Some b;
    sm_round : 0 <= round s;
    sm_sent : forall r t d k, In (SVote r t d k) (sent s) -> 0 <= r;
    sm_fuse : fuse s = None;
    sm_k0 : forall v, K0 v -> known s v
  }.

  Lemma frame_refl : frame T0.
  Proof. split; [auto|apply incl_refl]. Qed.

  Lemma known_ssame s s' v : ssame s s' -> known s v -> known s' v.
  Proof.
    intros S [H|[r [t [d [k [H ->]]]]]]; [left; auto|right].
    exists r, t, d, k. split; auto. apply (ss_sent S); auto.
  Qed.

  Lemma ssame_sym s s' : ssame s s' -> ssame s' s.
  Proof. intros []; constructor; auto. intros. rewrite ss_sent0. tauto. Qed.

  Lemma lock_of_ssame s s' : ssame s s' -> lock_of s' = lock_of s.
  Proof. intros []. unfold lock_of. rewrite ss_locked0, ss_lr0. reflexivity. Qed.

  Lemma Sim_ssame s s' T : ssame s s' -> Sim s T -> Sim s' T.
  Proof.
    intros S H. pose proof (ssame_sym S) as S'. destruct H. constructor; auto.
    - intro m. rewrite sm_soup0. split; intros [v [K C]]; exists v; split; auto; eapply known_ssame; eauto.
    - rewrite (ss_status S), (lock_of_ssame S). auto.
    - rewrite (ss_hvs S). intros u Hu. eapply known_ssame; eauto.
    - rewrite (ss_glog S). intros e u He Hu. eapply known_ssame; eauto.
    - rewrite (ss_dec S). auto.
    - rewrite (ss_round S). auto.
    - intros r t d k Hk. apply (ss_sent S) in Hk. eauto.
    - rewrite (ss_fuse S). auto.
    - intros v Hv. eapply known_ssame; eauto.
  Qed.

  (* the engine stops (panic) or finishes: nothing is claimed about the lock any more *)
  Lemma Sim_set_status x s T : x <> Running -> Sim s T -> Sim (set_status x s) T.
  Proof. intros N []. constructor; auto. cbn. intro; contradiction. Qed.

  Lemma Sim_new_step t s T : Sim s T -> Sim (new_step t s) T.
  Proof.
    intro H. unfold new_step. destruct (valid_transition _ _).
    - eapply Sim_ssame; [|exact H]. constructor; cbn; auto; tauto.
    - apply Sim_set_status; [discriminate|]. eapply Sim_ssame; [|exact H]. constructor; cbn; auto; tauto.
  Qed.

  Lemma Sim_new_round r s T : round s < r -> Sim s T -> Sim (new_round r s) T.
  Proof.
    intros L []. constructor; auto; cbn.
    - intros u Hu. apply sm_hvs0. eapply hvs_remove_lower_in; eauto.
    - lia.
  Qed.

  Lemma Sim_set_hvs h s T : (forall u, hvs_has h u -> known s u) -> Sim s T -> Sim (set_hvs h s) T.
  Proof. intros K []. constructor; auto. Qed.

  Lemma Sim_glog_add e s T :
    (forall u, In (Some u) (gev_votes e) -> known s u) -> Sim s T -> Sim (glog_add e s) T.
  Proof.
    intros K []. constructor; auto. cbn. intros e0 u He Hu.
    apply in_app_or in He as [He|[<-|[]]]; eauto.
  Qed.

  (* ---------------- pulling a soup vote of slot i back to the engine ---------------- *)

  Lemma soup_own s T m :
    Sim s T -> In m (TM.soup T) -> TM.v_sender m = i ->
    exists r t d k, In (SVote r t d k) (sent s) /\ 0 <= r /\
                    m = TM.mkVote i (Z.to_N r) (convt t) d.
  Proof.
    intros H Hm Hs. apply (sm_soup H) in Hm as [v [[K|K] C]].
    - exfalso. destruct (E_ok _ K) as [A [_ B]]. subst m. cbn in Hs. apply B. lia.
    - destruct K as [r [t [d [k [K ->]]]]]. exists r, t, d, k. split; auto. split; [eapply sm_sent; eauto|].
      subst m. unfold conv. cbn. rewrite Nat2Z.id. reflexivity.
  Qed.

  Lemma sim_own_le s T :
    Sim s T -> Inv own s -> status_ s = Running -> own_le i (TM.soup T) (Z.to_N (round s)).
  Proof.
    intros H HI R m Hm Hs. destruct (soup_own _ H Hm Hs) as [r [t [d [k [K [P ->]]]]]]. cbn.
    assert (U : unblown s) by (unfold unblown, blown; rewrite (sm_fuse H); reflexivity).
    pose proof (inv_dur HI _ K) as D. cbn in D.
    assert (D' : In (RVote (mkVote own r t d 0%N)) (wal_all (wal_r s))) by (unfold wal_all; apply in_or_app; left; auto).
    pose proof (ctl_votes (inv_ctl HI R U) _ D' eq_refl) as C. unfold pos_le, pos in C; cbn in C. lia.
  Qed.

  Lemma sim_own_bound s T t :
    Sim s T -> Inv own s -> status_ s = Running -> vote_ok own s t ->
    own_bound i (TM.soup T) (Z.to_N (round s)) (convt t).
  Proof.
    intros H HI R [_ [V _]] m Hm Hs. split; [eapply sim_own_le; eauto|].
    destruct (soup_own _ H Hm Hs) as [r [t0 [d [k [K [P ->]]]]]]. cbn. intros Er Et.
    apply convt_inj in Et. subst t0.
    pose proof (sm_round H) as Rd. assert (r = round s) by lia. subst r.
    pose proof (inv_dur HI _ K) as D. cbn in D.
    assert (D' : In (RVote (mkVote own (round s) t d 0%N)) (wal_all (wal_r s))) by (unfold wal_all; apply in_or_app; left; auto).
    apply (V _ D' eq_refl). cbn. auto.
  Qed.

  Lemma known_soup s T v : Sim s T -> known s v -> In (conv v) (TM.soup T).
  Proof. intros H K. apply (sm_soup H). eauto. Qed.

  (* a +2/3 set of known votes is a quorum of the abstract soup *)
  Lemma sim_quorum s T r t w ev :
    Sim s T -> quorum_ev n r t w ev -> (forall u, In (Some u) ev -> known s u) ->
    TM.quorum n (TM.soup T) (Z.to_N r) (convt t) w = true.
  Proof. intros H Q K. eapply quorum_link; eauto. intros v Hv. eapply known_soup; eauto. Qed.

  Lemma frame_set_lock T l : frame T -> frame (TM.set_lock T i l).
  Proof.
    intros [A B]. split; auto. intros j Hj. cbn. rewrite upd_other; auto.
  Qed.

  Lemma frame_add_vote T m : frame T -> frame (TM.add_vote T m).
  Proof. intros [A B]. split; auto. cbn. apply incl_tl; auto. Qed.

  (* ---------------- lock ---------------- *)

  Lemma Sim_lock s T b ev x :
    Sim s T -> Inv own s -> status_ s = Running ->
    quorum_ev n (round s) Prevote (Some b) ev -> (forall u, In (Some u) ev -> known s u) ->
    bps_id x = Some b ->
    exists T', Sim (set_lock (round s) x (glog_add (GLock (round s) b ev) s)) T'.
  Proof.
    intros H HI R Q K X.
    assert (Pk : TM.polka n (TM.soup T) (Z.to_N (round s)) (Some b) = true) by (eapply (sim_quorum (t:=Prevote)); eauto).
    exists (TM.set_lock T i (Some (Z.to_N (round s), b))).
    pose proof (tm_lock n byz i Hi Hbyz T _ _ (sim_own_le H HI R) Pk) as St.
    destruct H. constructor; auto; cbn.
    - eapply TP.reachable_step; eauto.
    - apply frame_set_lock; auto.
    - intros _. rewrite upd_same. unfold lock_of. cbn. destruct x as [p|]; cbn in *; [|discriminate].
      inversion X; subst. reflexivity.
    - intros lr b0. rewrite upd_same. intro Eq. inversion Eq; subst. exact Pk.
    - intros e u He Hu. apply in_app_or in He as [He|[<-|[]]]; eauto.
  Qed.

  (* ---------------- unlock ---------------- *)

  Lemma Sim_unlock_on s T r w ev :
    Sim s T -> status_ s = Running ->
    (forall l, locked s = Some l -> gev_ok n (GUnlock (locked_round s) (p_id l) r w ev)) ->
    (forall u, In (Some u) ev -> known s u) ->
    exists T', Sim (unlock_on r w ev s) T'.
  Proof.
    intros H R G K. unfold unlock_on. destruct (locked s) as [l|] eqn:L.
    - destruct (G l eq_refl) as [Le [Nw Q]].
      assert (Pk : TM.polka n (TM.soup T) (Z.to_N r) w = true) by (eapply (sim_quorum (t:=Prevote)); eauto).
      assert (Lk : TM.lock T i = Some (Z.to_N (locked_round s), p_id l)).
      { rewrite (sm_lock H R). unfold lock_of. rewrite L. reflexivity. }
      exists (TM.set_lock T i None).
      assert (St := tm_unlock n byz i Hi Hbyz T _ _ (Z.to_N r) w Lk ltac:(lia) Nw Pk).
      destruct H. constructor; auto; cbn.
      + eapply TP.reachable_step; eauto.
      + apply frame_set_lock; auto.
      + intros _. rewrite upd_same. reflexivity.
      + intros lr b0. rewrite upd_same. discriminate.
      + intros e u He Hu. apply in_app_or in He as [He|[<-|[]]]; eauto.
    - exists T. pose proof (sm_lock H R) as Lk. unfold lock_of in Lk. rewrite L in Lk. cbn in Lk.
      destruct H. constructor; auto.
  Qed.

  (* ---------------- sending an own vote ---------------- *)

  Lemma send3_none v s :
    fuse s = None ->
    send3 v s =
    set_sent (sent s ++ [SVote (v_round v) (v_type v) (v_dec v) (nsent s)]) (S (nsent s))
      (set_outs (outs s ++ [OWrite WRound (RVote v); OSync WRound; OSendVote v]) None
        (set_wals (mkWal (w_synced (wal_r s) ++ w_unsynced (wal_r s) ++ [RVote v]) []) (wal_l s) (wal_c s) s)).
  Proof.
    intro F. unfold send3, emit. rewrite F. cbn. rewrite <- !app_assoc. reflexivity.
  Qed.

  Lemma Sim_send3 s T t d :
    Sim s T -> Inv own s -> status_ s = Running ->
    vote_ok own s t -> gev_ok n (GVote (round s) t d (lock_of s)) ->
    let s' := send3 (own_vote own s t d) (glog_add (GVote (round s) t d (lock_of s)) s) in
    (exists T', Sim s' T') /\ known s' (own_vote own s t d).
  Proof.
    intros H HI R V G s'.
    assert (F : fuse (glog_add (GVote (round s) t d (lock_of s)) s) = None) by (cbn; apply (sm_fuse H)).
    assert (Es : sent s' = sent s ++ [SVote (round s) t d (nsent s)]).
    { subst s'. rewrite send3_none; auto. }
    assert (Kn : known s' (own_vote own s t d)).
    { right. exists (round s), t, d, (nsent s). split; [rewrite Es; apply in_or_app; right; left; auto|reflexivity]. }
    split; [|exact Kn].
    assert (Mono : forall v, known s v -> known s' v).
    { intros v [K|[r0 [t0 [d0 [k0 [K ->]]]]]]; [left; auto|right]. exists r0, t0, d0, k0. split; auto.
      rewrite Es. apply in_or_app; auto. }
    assert (Cv : conv (own_vote own s t d) = TM.mkVote i (Z.to_N (round s)) (convt t) d).
    { unfold conv, own_vote. cbn. rewrite Nat2Z.id. reflexivity. }
    pose proof (sim_own_bound H HI R V) as OB.
    assert (Lk := sm_lock H R).
    (* the abstract state after the vote *)
    set (T' := match t, d with
               | Precommit, Some b => TM.add_vote (TM.set_lock T i (Some (Z.to_N (round s), b))) (conv (own_vote own s t d))
               | _, _ => TM.add_vote T (conv (own_vote own s t d))
               end).
    assert (St : exists a, TM.step n byz T a = Some T').
    { subst T'. rewrite Cv. destruct t.
      - eexists. apply (tm_send_prevote n byz i Hi Hbyz T _ d OB).
        intros lr b El. rewrite Lk in El. cbn [gev_ok] in G.
        destruct (lock_of s) as [[lr0 b0]|]; cbn in El; [|discriminate]. inversion El; subst. first [exact G|reflexivity].
      - destruct d as [b|].
        + eexists. apply (tm_send_precommit_block n byz i Hi Hbyz T _ b OB).
          cbn [gev_ok] in G. rewrite G in Lk. cbn in Lk. apply (sm_lpolka H Lk).
        + eexists. apply (tm_send_precommit_nil n byz i Hi Hbyz T _ OB). }
    destruct St as [a St].
    assert (Sp : TM.soup T' = conv (own_vote own s t d) :: TM.soup T) by (subst T'; destruct t, d; reflexivity).
    assert (Dc : TM.decided T' = TM.decided T) by (subst T'; destruct t, d; reflexivity).
    exists T'. constructor.
    - eapply TP.reachable_step; [apply (sm_reach H)|exact St].
    - subst T'. destruct t, d; try (apply frame_add_vote, (sm_frame H)).
      apply frame_add_vote, frame_set_lock, (sm_frame H).
    - intro m. rewrite Sp. cbn. rewrite (sm_soup H). split.
      + intros [<-|[v [K C]]]; [exists (own_vote own s t d); auto|exists v; auto].
      + intros [v [[K|[r0 [t0 [d0 [k0 [K ->]]]]]] C]].
        * right. exists v. split; auto. left; auto.
        * rewrite Es in K. apply In_app_one in K as [K|K].
          -- right. eexists. split; [|exact C]. right. exists r0, t0, d0, k0. auto.
          -- inversion K; subst. left. reflexivity.
    - intros _.
      assert (Ls : lock_of s' = lock_of s) by (subst s'; rewrite send3_none; auto).
      rewrite Ls. subst T'. destruct t; [exact Lk|]. destruct d as [b|]; [|exact Lk].
      cbn [gev_ok] in G. rewrite G. cbn. rewrite upd_same. reflexivity.
    - intros lr b El. rewrite Sp. apply TP.polka_cons.
      subst T'. destruct t; [apply (sm_lpolka H El)|]. destruct d as [b0|]; [|apply (sm_lpolka H El)].
      cbn in El. rewrite upd_same in El. inversion El; subst.
      cbn [gev_ok] in G. rewrite G in Lk. cbn in Lk. apply (sm_lpolka H Lk).
    - assert (Hs : hvs s' = hvs s) by (subst s'; rewrite send3_none; auto).
      rewrite Hs. intros u Hu. apply Mono. apply (sm_hvs H); auto.
    - assert (Gs : glog s' = glog s ++ [GVote (round s) t d (lock_of s)]) by (subst s'; rewrite send3_none; auto).
      rewrite Gs. intros e u He Hu. apply in_app_or in He as [He|[<-|[]]]; [|destruct Hu].
      apply Mono. eapply (sm_glog H); eauto.
    - assert (Ds : decided s' = decided s) by (subst s'; rewrite send3_none; auto).
      rewrite Ds, Dc. apply (sm_dec H).
    - assert (Rs : round s' = round s) by (subst s'; rewrite send3_none; auto).
      rewrite Rs. apply (sm_round H).
    - intros r0 t0 d0 k0 K. rewrite Es in K. apply In_app_one in K as [K|K]; [eapply (sm_sent H); eauto|].
      inversion K; subst. apply (sm_round H).
    - subst s'. rewrite send3_none; auto.
    - intros v Hv. apply Mono. apply (sm_k0 H); auto.
  Qed.

  (* ---------------- finalize ---------------- *)

  Lemma Sim_finalize s T b :
    Sim s T -> InvD n s -> stp s = SCommit -> bps_id (cur s) = Some b ->
    exists T', Sim (emit (OFinalize b) s) T'.
  Proof.
    intros H HD St Cu.
    destruct (d_commit HD St) as [b' [r [ev [A B]]]]. rewrite Cu in A. inversion A; subst b'.
    pose proof (d_log HD) as L. rewrite Forall_forall in L. specialize (L _ B). cbn [gev_ok] in L.
    assert (Q : TM.qprecommit n (TM.soup T) (Z.to_N r) (Some b) = true).
    { eapply (sim_quorum (t:=Precommit)); eauto. intros u Hu. eapply (sm_glog H); eauto. }
    exists (TM.mkState (TM.soup T) (TM.lock T) (TM.upd (TM.decided T) i (Some b))).
    pose proof (tm_decide n byz i Hi Hbyz T _ _ Q) as Sx.
    rewrite emit_none; [|apply (sm_fuse H)]. destruct H. constructor; auto; cbn.
    - eapply TP.reachable_step; eauto.
    - destruct sm_frame0 as [F1 F2]. split; auto. intros j Hj. cbn. rewrite upd_other; auto.
    - intros b0 Eb. inversion Eb; subst. rewrite upd_same. reflexivity.
  Qed.

End Sim.
