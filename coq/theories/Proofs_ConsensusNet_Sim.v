(* Proofs_ConsensusNet_Sim.v — the simulation relation between ONE engine of the
   network (slot i, correct) and the abstract protocol state, and its
   preservation by every primitive mutation of the engine model.

   Setting: during one event of engine i the rest of the network is fixed:
   [E] = the votes of everybody else (Byzantine injections and the votes the
   other correct engines have sent); [T0] = the abstract state at the beginning
   of the event.  [Sim s T]: T is reachable, differs from T0 only by actions of
   slot i ([frame]), its soup is (the image under [conv] of) E plus the votes in
   [sent s], its lock for i is the engine's lock, every vote the engine has
   stored (hvs) or used as evidence (ghost log) is in the soup, and a finalized
   block is decided in T.

   Durable state: every vote inside a record of the round / commit WAL is in
   the soup ([sm_walr], [sm_walc]); the lock WAL is a sequence of complete lock
   entries (Proofs_ConsensusNet_LockWAL.v, [lockwal_shape]) fully synced, and the
   abstract lock of i is either none or the lock of the last entry ([sm_shape]:
   unlocks are not logged, deviation D2 of docs/notes/C01_spec.md).

   This file covers histories without crash points INSIDE events: [sm_fuse].  *)
From Coq Require Import List ZArith NArith Bool Arith Lia.
From Goloop Require Import Model_ConsensusNode Proofs_ConsensusNode Proofs_ConsensusNode_C01
  Model_ConsensusNet Proofs_ConsensusNet_Link Proofs_ConsensusNet_LockWAL.
Import ListNotations.
Open Scope Z_scope.

Set Implicit Arguments.

(* votes used as evidence by a ghost-log entry *)
Definition gev_votes (e : gev) : vset :=
  match e with
  | GLock _ _ ev | GUnlock _ _ _ _ ev | GCommit _ _ ev => ev
  | GVote _ _ _ _ => []
  end.

(* ------------------------------------------------------------------ what the relation reads *)

(* the volatile part *)
Record score (s s' : st) : Prop := {
  ss_status : status_ s' = status_ s;
  ss_locked : locked s' = locked s;
  ss_lr : locked_round s' = locked_round s;
  ss_hvs : hvs s' = hvs s;
  ss_glog : glog s' = glog s;
  ss_dec : decided s' = decided s;
  ss_round : round s' = round s;
  ss_fuse : fuse s' = fuse s;
  ss_sent : forall r t d k, In (SVote r t d k) (sent s') <-> In (SVote r t d k) (sent s)
}.

(* ... and the records of the three WALs *)
Record ssame (s s' : st) : Prop := {
  ss_core : score s s';
  ss_walr : wal_all (wal_r s') = wal_all (wal_r s);
  ss_wall : wal_all (wal_l s') = wal_all (wal_l s);
  ss_lsync : w_unsynced (wal_l s) = [] -> w_unsynced (wal_l s') = [];
  ss_walc : wal_all (wal_c s') = wal_all (wal_c s)
}.

Lemma score_refl s : score s s.
Proof. constructor; auto. tauto. Qed.

Lemma score_trans a b c : score a b -> score b c -> score a c.
Proof.
  intros [] []; constructor; try congruence.
  intros. rewrite ss_sent1, ss_sent0. tauto.
Qed.

Lemma ssame_refl s : ssame s s.
Proof. constructor; auto using score_refl. Qed.

Lemma ssame_trans a b c : ssame a b -> ssame b c -> ssame a c.
Proof.
  intros [] []; constructor; try congruence; eauto using score_trans.
Qed.

(* outputs that change neither the volatile part nor the WAL records *)
Definition sim_quiet (o : out) : bool :=
  match o with OSendVote _ | OFinalize _ | OWrite _ _ => false | _ => true end.

(* outputs that do not change the volatile part *)
Definition core_quiet (o : out) : bool :=
  match o with OSendVote _ | OFinalize _ => false | _ => true end.

Lemma emit_none o s : fuse s = None -> emit o s = apply_out o (set_outs (outs s ++ [o]) None s).
Proof. intro F. unfold emit. rewrite F. reflexivity. Qed.

Lemma fuse_emit o s : fuse s = None -> fuse (emit o s) = None.
Proof.
  intro F. rewrite emit_none; auto.
  destruct o as [[] ?|[]| | | | | | | | ]; reflexivity.
Qed.

Lemma fuse_emit_all l : forall s, fuse s = None -> fuse (emit_all l s) = None.
Proof. induction l as [|o l IH]; intros s F; cbn; auto. apply IH, fuse_emit; auto. Qed.

Lemma In_app_one {A} (l : list A) x y : In y (l ++ [x]) <-> In y l \/ y = x.
Proof. rewrite in_app_iff. cbn. intuition. Qed.

Lemma score_emit o s : fuse s = None -> core_quiet o = true -> score s (emit o s).
Proof.
  intros F Q. rewrite emit_none; auto.
  destruct o as [[] ?|[]| | | | | | | | ]; try discriminate Q; constructor; cbn; auto; try tauto.
  intros. rewrite In_app_one. split; [intros [?|?]; [auto|discriminate]|auto].
Qed.

Lemma wal_all_sync' w : wal_all (wal_sync w) = wal_all w.
Proof. unfold wal_all, wal_sync; cbn. now rewrite app_nil_r. Qed.

Lemma ssame_emit o s : fuse s = None -> sim_quiet o = true -> ssame s (emit o s).
Proof.
  intros F Q. constructor.
  - apply score_emit; auto. destruct o; auto; discriminate.
  - rewrite emit_none; auto. destruct o as [[] ?|[]| | | | | | | | ]; try discriminate Q; cbn -[wal_all]; auto using wal_all_sync'.
  - rewrite emit_none; auto. destruct o as [[] ?|[]| | | | | | | | ]; try discriminate Q; cbn -[wal_all]; auto using wal_all_sync'.
  - rewrite emit_none; auto. destruct o as [[] ?|[]| | | | | | | | ]; try discriminate Q; cbn; auto.
  - rewrite emit_none; auto. destruct o as [[] ?|[]| | | | | | | | ]; try discriminate Q; cbn -[wal_all]; auto using wal_all_sync'.
Qed.

Lemma ssame_emit_all l : forall s, fuse s = None -> forallb sim_quiet l = true -> ssame s (emit_all l s).
Proof.
  induction l as [|o l IH]; intros s F Q; cbn in *; [apply ssame_refl|].
  apply andb_true_iff in Q as [Q1 Q2].
  eapply ssame_trans; [apply ssame_emit; eauto|]. apply IH; auto. apply fuse_emit; auto.
Qed.

Ltac ss_plain := constructor; [constructor; cbn; auto; tauto|cbn; auto..].

Lemma ssame_add_part blocks b idx s : ssame s (snd (add_part blocks b idx s)).
Proof.
  unfold add_part. destruct (cur s); cbn; [|apply ssame_refl].
  destruct (negb _); cbn; [apply ssame_refl|]. destruct (negb _); cbn; [apply ssame_refl|].
  destruct (existsb _ _); cbn; [apply ssame_refl|]. ss_plain.
Qed.

Lemma ssame_fill_from_cache blocks b s : ssame s (fill_from_cache blocks b s).
Proof.
  unfold fill_from_cache. generalize (all_parts blocks b). intro l.
  assert (G : forall s', ssame s s' ->
    ssame s (fold_left (fun s0 i => if existsb (fun e => N.eqb (fst e) b && N.eqb (snd e) i) (bpm s0)
                                    then snd (add_part blocks b i s0) else s0) l s')).
  { induction l as [|x l IH]; intros s' H; cbn; auto. apply IH.
    destruct (existsb _ _); auto. eapply ssame_trans; [exact H|apply ssame_add_part]. }
  apply G, ssame_refl.
Qed.

Lemma ssame_set_by_psid b s : ssame s (set_by_psid b s).
Proof. unfold set_by_psid. destruct (bps_id_is _ _); [apply ssame_refl|ss_plain]. Qed.

(* what [write_lock_wal] does when the process survives it *)
Lemma emit_lockparts b l : forall s, fuse s = None ->
  let s' := emit_all (map (fun i => OWrite WLock (RPart b i)) l) s in
  score s s' /\ fuse s' = None /\ wal_r s' = wal_r s /\ wal_c s' = wal_c s /\
  w_synced (wal_l s') = w_synced (wal_l s) /\
  w_unsynced (wal_l s') = w_unsynced (wal_l s) ++ map (RPart b) l.
Proof.
  induction l as [|x l IH]; intros s F; cbn [map emit_all].
  - cbn. rewrite app_nil_r. repeat split; auto using score_refl.
  - set (s1 := emit (OWrite WLock (RPart b x)) s).
    assert (F1 : fuse s1 = None) by (apply fuse_emit; auto).
    destruct (IH s1 F1) as [A [B [C [D [G H]]]]]. cbv zeta in *.
    assert (E1 : s1 = apply_out (OWrite WLock (RPart b x)) (set_outs (outs s ++ [OWrite WLock (RPart b x)]) None s))
      by (apply emit_none; auto).
    split; [apply (@score_trans s s1); [subst s1; apply score_emit; auto|exact A]|].
    split; [exact B|]. rewrite C, D, G, H. rewrite E1. cbn. rewrite <- app_assoc. repeat split; auto.
Qed.

Lemma write_lock_wal_effect blocks pv b s :
  fuse s = None -> w_unsynced (wal_l s) = [] ->
  let s' := write_lock_wal blocks pv b s in
  score s s' /\ wal_r s' = wal_r s /\ wal_c s' = wal_c s /\
  wal_all (wal_l s') = wal_all (wal_l s) ++ lock_entry blocks pv b /\ w_unsynced (wal_l s') = [].
Proof.
  intros F U. unfold write_lock_wal.
  set (s1 := emit (OWrite WLock (RVoteList (vs_list pv))) s).
  assert (F1 : fuse s1 = None) by (apply fuse_emit; auto).
  assert (E1 : s1 = apply_out (OWrite WLock (RVoteList (vs_list pv))) (set_outs (outs s ++ [OWrite WLock (RVoteList (vs_list pv))]) None s))
    by (apply emit_none; auto).
  destruct (emit_lockparts b (all_parts blocks b) s1 F1) as [A [B [C [D [G H]]]]]. cbv zeta in *.
  match goal with |- context [emit (OSync WLock) ?x] => set (s2 := x) in * end.
  rewrite (emit_none (OSync WLock) s2 B). cbn.
  split; [|split; [|split; [|split]]]; auto.
  - apply (@score_trans s s1); [subst s1; apply score_emit; auto|]. apply (@score_trans s1 s2); [exact A|].
    constructor; cbn; auto; tauto.
  - rewrite C, E1. reflexivity.
  - rewrite D, E1. reflexivity.
  - unfold wal_all. cbn. rewrite G, H, E1. cbn. rewrite U. cbn. rewrite !app_nil_r. reflexivity.
Qed.

(* ------------------------------------------------------------------ the relation *)

Definition convL (L : option (N * Z)) : option (N * N) :=
  match L with Some (b, r) => Some (Z.to_N r, b) | None => None end.

Lemma rec_sub_mono (K K' : vote -> Prop) r : (forall v, K v -> K' v) -> rec_sub K r -> rec_sub K' r.
Proof. intros M. destruct r; cbn; auto. Qed.

Lemma Forall_rec_sub_mono (K K' : vote -> Prop) l :
  (forall v, K v -> K' v) -> Forall (rec_sub K) l -> Forall (rec_sub K') l.
Proof. intros M F. eapply Forall_impl; [|exact F]. intros r. apply rec_sub_mono; auto. Qed.

Lemma wal_all_write w r : wal_all (wal_write w r) = wal_all w ++ [r].
Proof. unfold wal_all, wal_write. cbn. apply app_assoc. Qed.

Section Sim.
  Variable n : nat.
  Variable byz : nat -> bool.
  Variable blocks : list blk.
  Variable i : nat.
  Hypothesis Hi : (i < n)%nat.
  Hypothesis Hbyz : byz i = false.
  Local Notation own := (Z.of_nat i).

  Variable E : list vote.               (* the votes of everybody else *)
  Hypothesis E_ok : forall v, In v E -> 0 <= v_from v < Z.of_nat n /\ 0 <= v_round v /\ v_from v <> own.
  Variable T0 : TM.state.               (* abstract state when the event begins *)
  Variable K0 : vote -> Prop.           (* votes known when the event begins *)

  Lemma Hown : 0 <= own < Z.of_nat n.
  Proof. lia. Qed.

  Definition sent_vote (s : st) (v : vote) : Prop :=
    exists r t d k, In (SVote r t d k) (sent s) /\ v = mkVote own r t d 0%N.

  Definition known (s : st) (v : vote) : Prop := In v E \/ sent_vote s v.

  Definition frame (T : TM.state) : Prop :=
    (forall j, j <> i -> TM.lock T j = TM.lock T0 j /\ TM.decided T j = TM.decided T0 j) /\
    incl (TM.soup T0) (TM.soup T).

  Record Sim (s : st) (T : TM.state) : Prop := {
    sm_reach : TM.reachable n byz T;
    sm_frame : frame T;
    sm_soup : forall m, In m (TM.soup T) <-> exists v, known s v /\ conv v = m;
    sm_lock : status_ s = Running -> TM.lock T i = convlock (lock_of s);
    sm_lpolka : forall lr b, TM.lock T i = Some (lr, b) -> TM.polka n (TM.soup T) lr (Some b) = true;
    sm_hvs : forall u, hvs_has (hvs s) u -> known s u;
    sm_glog : forall e u, In e (glog s) -> In (Some u) (gev_votes e) -> known s u;
    sm_dec : forall b, decided s = Some b -> TM.decided T i = Some b;
    sm_round : 0 <= round s;
    sm_sent : forall r t d k, In (SVote r t d k) (sent s) -> 0 <= r;
    sm_fuse : fuse s = None;
    sm_k0 : forall v, K0 v -> known s v;
    sm_walr : Forall (rec_sub (known s)) (wal_all (wal_r s));
    sm_walc : Forall (rec_sub (known s)) (wal_all (wal_c s));
    sm_shape : exists L, lockwal_shape n blocks (known s) (wal_all (wal_l s)) L /\
                         (TM.lock T i = None \/ TM.lock T i = convL L);
    sm_lsync : w_unsynced (wal_l s) = []
  }.

  Lemma frame_refl : frame T0.
  Proof. split; [auto|apply incl_refl]. Qed.

  Lemma known_score s s' v : score s s' -> known s v -> known s' v.
  Proof.
    intros S [H|[r [t [d [k [H ->]]]]]]; [left; auto|right].
    exists r, t, d, k. split; auto. apply (ss_sent S); auto.
  Qed.

  Lemma score_sym s s' : score s s' -> score s' s.
  Proof. intros []; constructor; auto. intros. rewrite ss_sent0. tauto. Qed.

  Lemma lock_of_score s s' : score s s' -> lock_of s' = lock_of s.
  Proof. intros []. unfold lock_of. rewrite ss_locked0, ss_lr0. reflexivity. Qed.

  (* a state with the same volatile part: the WAL clauses are what remains *)
  Lemma Sim_score s s' T :
    score s s' -> Sim s T ->
    Forall (rec_sub (known s')) (wal_all (wal_r s')) ->
    Forall (rec_sub (known s')) (wal_all (wal_c s')) ->
    (exists L, lockwal_shape n blocks (known s') (wal_all (wal_l s')) L /\
               (TM.lock T i = None \/ TM.lock T i = convL L)) ->
    w_unsynced (wal_l s') = [] ->
    Sim s' T.
  Proof.
    intros S H Wr Wc Sh Ls. pose proof (score_sym S) as S'.
    assert (M : forall v, known s v -> known s' v) by (intros v; apply known_score; auto).
    destruct H. constructor; auto.
    - intro m. rewrite sm_soup0. split; intros [v [K C]]; exists v; split; auto; eapply known_score; eauto.
    - rewrite (ss_status S), (lock_of_score S). auto.
    - rewrite (ss_hvs S). intros u Hu. eapply known_score; eauto.
    - rewrite (ss_glog S). intros e u He Hu. eapply known_score; eauto.
    - rewrite (ss_dec S). auto.
    - rewrite (ss_round S). auto.
    - intros r t d k Hk. apply (ss_sent S) in Hk. eauto.
    - rewrite (ss_fuse S). auto.
  Qed.

  Lemma Sim_ssame s s' T : ssame s s' -> Sim s T -> Sim s' T.
  Proof.
    intros [S Wr Wl Ls Wc] H.
    assert (M : forall v, known s v -> known s' v) by (intros v; apply known_score; auto).
    apply (Sim_score S H).
    - rewrite Wr. eapply Forall_rec_sub_mono; [exact M|apply (sm_walr H)].
    - rewrite Wc. eapply Forall_rec_sub_mono; [exact M|apply (sm_walc H)].
    - destruct (sm_shape H) as [L [Sh Lk]]. exists L. split; auto. rewrite Wl.
      eapply lockwal_shape_mono; [exact M|exact Sh].
    - apply Ls, (sm_lsync H).
  Qed.

  (* the engine stops (panic) or finishes: nothing is claimed about the lock any more *)
  Lemma Sim_set_status x s T : x <> Running -> Sim s T -> Sim (set_status x s) T.
  Proof. intros N []. constructor; auto. cbn. intro; contradiction. Qed.

  Lemma Sim_new_step t s T : Sim s T -> Sim (new_step t s) T.
  Proof.
    intro H. unfold new_step. destruct (valid_transition _ _).
    - eapply Sim_ssame; [|exact H]. ss_plain.
    - apply Sim_set_status; [discriminate|]. eapply Sim_ssame; [|exact H]. ss_plain.
  Qed.

  Lemma Sim_new_round r s T : round s < r -> Sim s T -> Sim (new_round r s) T.
  Proof.
    intros L []. constructor; auto; cbn.
    - intros u Hu. apply sm_hvs0. eapply hvs_remove_lower_in; eauto.
    - lia.
  Qed.

  Lemma Sim_set_hvs h s T : (forall u, hvs_has h u -> known s u) -> Sim s T -> Sim (set_hvs h s) T.
  Proof. intros K []. constructor; auto. Qed.

  Lemma Sim_glog_add e s T :
    (forall u, In (Some u) (gev_votes e) -> known s u) -> Sim s T -> Sim (glog_add e s) T.
  Proof.
    intros K []. constructor; auto. cbn. intros e0 u He Hu.
    apply in_app_or in He as [He|[<-|[]]]; eauto.
  Qed.

  (* a record whose votes are known is written to the round or the commit WAL *)
  Lemma Sim_write_r r s T : rec_sub (known s) r -> Sim s T -> Sim (emit (OWrite WRound r) s) T.
  Proof.
    intros K H. pose proof (sm_fuse H) as F.
    pose proof (score_emit (OWrite WRound r) s F eq_refl) as S.
    assert (M : forall v, known s v -> known (emit (OWrite WRound r) s) v) by (intro v; apply known_score; auto).
    assert (Wr : wal_all (wal_r (emit (OWrite WRound r) s)) = wal_all (wal_r s) ++ [r])
      by (rewrite emit_none; auto; cbn -[wal_all]; apply wal_all_write).
    assert (Wl : wal_l (emit (OWrite WRound r) s) = wal_l s) by (rewrite emit_none; auto).
    assert (Wc : wal_c (emit (OWrite WRound r) s) = wal_c s) by (rewrite emit_none; auto).
    apply (Sim_score S H).
    - rewrite Wr. apply Forall_app. split; [eapply Forall_rec_sub_mono; [exact M|apply (sm_walr H)]|].
      constructor; auto. eapply rec_sub_mono; eauto.
    - rewrite Wc. eapply Forall_rec_sub_mono; [exact M|apply (sm_walc H)].
    - destruct (sm_shape H) as [L [Sh Lk]]. exists L. split; auto. rewrite Wl.
      eapply lockwal_shape_mono; [exact M|exact Sh].
    - rewrite Wl. apply (sm_lsync H).
  Qed.

  Lemma Sim_write_c r s T : rec_sub (known s) r -> Sim s T -> Sim (emit (OWrite WCommit r) s) T.
  Proof.
    intros K H. pose proof (sm_fuse H) as F.
    pose proof (score_emit (OWrite WCommit r) s F eq_refl) as S.
    assert (M : forall v, known s v -> known (emit (OWrite WCommit r) s) v) by (intro v; apply known_score; auto).
    assert (Wc : wal_all (wal_c (emit (OWrite WCommit r) s)) = wal_all (wal_c s) ++ [r])
      by (rewrite emit_none; auto; cbn -[wal_all]; apply wal_all_write).
    assert (Wl : wal_l (emit (OWrite WCommit r) s) = wal_l s) by (rewrite emit_none; auto).
    assert (Wr : wal_r (emit (OWrite WCommit r) s) = wal_r s) by (rewrite emit_none; auto).
    apply (Sim_score S H).
    - rewrite Wr. eapply Forall_rec_sub_mono; [exact M|apply (sm_walr H)].
    - rewrite Wc. apply Forall_app. split; [eapply Forall_rec_sub_mono; [exact M|apply (sm_walc H)]|].
      constructor; auto. eapply rec_sub_mono; eauto.
    - destruct (sm_shape H) as [L [Sh Lk]]. exists L. split; auto. rewrite Wl.
      eapply lockwal_shape_mono; [exact M|exact Sh].
    - rewrite Wl. apply (sm_lsync H).
  Qed.

  Lemma Sim_emit o s T : sim_quiet o = true -> Sim s T -> Sim (emit o s) T.
  Proof. intros Q H. eapply Sim_ssame; [apply ssame_emit; [apply (sm_fuse H)|exact Q]|exact H]. Qed.

  Lemma Sim_emit_all l : forall s T, forallb sim_quiet l = true -> Sim s T -> Sim (emit_all l s) T.
  Proof.
    induction l as [|o l IH]; intros s T Q H; cbn in *; auto.
    apply andb_true_iff in Q as [Q1 Q2]. apply IH; auto. apply Sim_emit; auto.
  Qed.

  Lemma Sim_send_proposal b pol s T : Sim s T -> Sim (send_proposal n blocks b pol s) T.
  Proof.
    intro H. unfold send_proposal.
    apply Sim_emit_all. { induction (all_parts blocks b); cbn; auto. }
    match goal with |- Sim (if ?c then _ else _) _ => destruct c end.
    - apply Sim_emit; [reflexivity|]. apply Sim_emit; [reflexivity|]. apply Sim_emit; [reflexivity|].
      apply Sim_write_r; [exact I|exact H].
    - apply Sim_emit; [reflexivity|]. apply Sim_emit; [reflexivity|].
      apply Sim_write_r; [exact I|exact H].
  Qed.

  (* ---------------- pulling a soup vote of slot i back to the engine ---------------- *)

  Lemma soup_own s T m :
    Sim s T -> In m (TM.soup T) -> TM.v_sender m = i ->
    exists r t d k, In (SVote r t d k) (sent s) /\ 0 <= r /\
                    m = TM.mkVote i (Z.to_N r) (convt t) d.
  Proof.
    intros H Hm Hs. apply (sm_soup H) in Hm as [v [[K|K] C]].
    - exfalso. destruct (E_ok _ K) as [A [_ B]]. subst m. cbn in Hs. apply B. lia.
    - destruct K as [r [t [d [k [K ->]]]]]. exists r, t, d, k. split; auto. split; [eapply sm_sent; eauto|].
      subst m. unfold conv. cbn. rewrite Nat2Z.id. reflexivity.
  Qed.

  Lemma sim_own_le s T :
    Sim s T -> Inv own s -> status_ s = Running -> own_le i (TM.soup T) (Z.to_N (round s)).
  Proof.
    intros H HI R m Hm Hs. destruct (soup_own _ H Hm Hs) as [r [t [d [k [K [P ->]]]]]]. cbn.
    assert (U : unblown s) by (unfold unblown, blown; rewrite (sm_fuse H); reflexivity).
    pose proof (inv_dur HI _ K) as D. cbn in D.
    assert (D' : In (RVote (mkVote own r t d 0%N)) (wal_all (wal_r s))) by (unfold wal_all; apply in_or_app; left; auto).
    pose proof (ctl_votes (inv_ctl HI R U) _ D' eq_refl) as C. unfold pos_le, pos in C; cbn in C. lia.
  Qed.

  Lemma sim_own_bound s T t :
    Sim s T -> Inv own s -> status_ s = Running -> vote_ok own s t ->
    own_bound i (TM.soup T) (Z.to_N (round s)) (convt t).
  Proof.
    intros H HI R [_ [V _]] m Hm Hs. split; [eapply sim_own_le; eauto|].
    destruct (soup_own _ H Hm Hs) as [r [t0 [d [k [K [P ->]]]]]]. cbn. intros Er Et.
    apply convt_inj in Et. subst t0.
    pose proof (sm_round H) as Rd. assert (r = round s) by lia. subst r.
    pose proof (inv_dur HI _ K) as D. cbn in D.
    assert (D' : In (RVote (mkVote own (round s) t d 0%N)) (wal_all (wal_r s))) by (unfold wal_all; apply in_or_app; left; auto).
    apply (V _ D' eq_refl). cbn. auto.
  Qed.

  Lemma known_soup s T v : Sim s T -> known s v -> In (conv v) (TM.soup T).
  Proof. intros H K. apply (sm_soup H). eauto. Qed.

  (* a +2/3 set of known votes is a quorum of the abstract soup *)
  Lemma sim_quorum s T r t w ev :
    Sim s T -> quorum_ev n r t w ev -> (forall u, In (Some u) ev -> known s u) ->
    TM.quorum n (TM.soup T) (Z.to_N r) (convt t) w = true.
  Proof. intros H Q K. eapply quorum_link; eauto. intros v Hv. eapply known_soup; eauto. Qed.

  Lemma vs_sub_known s ev : (forall u, In (Some u) ev -> known s u) -> vs_sub (known s) ev.
  Proof. intros K k v Hk. apply K. eapply nth_error_In; eauto. Qed.

  Lemma known_vs_sub s ev : vs_sub (known s) ev -> forall u, In (Some u) ev -> known s u.
  Proof. intros S u Hu. apply In_nth_error in Hu as [k Hk]. eapply S; eauto. Qed.

  Lemma frame_set_lock T l : frame T -> frame (TM.set_lock T i l).
  Proof.
    intros [A B]. split; auto. intros j Hj. cbn. rewrite upd_other; auto.
  Qed.

  Lemma frame_add_vote T m : frame T -> frame (TM.add_vote T m).
  Proof. intros [A B]. split; auto. cbn. apply incl_tl; auto. Qed.

  (* ---------------- lock: memory, ghost log and lock WAL in one go ---------------- *)

  Hypothesis blocks_ok : forall x, In x blocks -> (1 <= b_parts x)%N.

  Lemma nparts_pos b : (1 <= nparts blocks b)%N.
  Proof.
    unfold nparts, blk_of. destruct (find _ blocks) as [x|] eqn:F; [|lia].
    apply find_some in F as [F _]. auto.
  Qed.

  Lemma Sim_lock_log s T b ev x :
    Sim s T -> Inv own s -> status_ s = Running ->
    quorum_ev n (round s) Prevote (Some b) ev -> (forall u, In (Some u) ev -> known s u) ->
    bps_id x = Some b ->
    exists T', Sim (write_lock_wal blocks ev b (set_lock (round s) x (glog_add (GLock (round s) b ev) s))) T'.
  Proof.
    intros H HI R Q K X.
    assert (Pk : TM.polka n (TM.soup T) (Z.to_N (round s)) (Some b) = true) by (eapply (sim_quorum (t:=Prevote)); eauto).
    exists (TM.set_lock T i (Some (Z.to_N (round s), b))).
    pose proof (tm_lock n byz i Hi Hbyz T _ _ (sim_own_le H HI R) Pk) as St.
    set (s1 := set_lock (round s) x (glog_add (GLock (round s) b ev) s)).
    assert (F1 : fuse s1 = None) by (subst s1; cbn; apply (sm_fuse H)).
    assert (U1 : w_unsynced (wal_l s1) = []) by (subst s1; cbn; apply (sm_lsync H)).
    destruct (write_lock_wal_effect blocks ev b s1 F1 U1) as [Sc [Wr [Wc [Wl Us]]]]. cbv zeta in *.
    set (s2 := write_lock_wal blocks ev b s1) in *.
    assert (M : forall v, known s v -> known s2 v).
    { intros v Kv. apply (known_score Sc). exact Kv. }
    assert (Lo : lock_of s2 = Some (round s, b)).
    { rewrite (lock_of_score Sc). subst s1. unfold lock_of. cbn. destruct x as [p|]; cbn in *; [|discriminate].
      inversion X; subst. reflexivity. }
    destruct H. constructor.
    - eapply TP.reachable_step; eauto.
    - apply frame_set_lock; auto.
    - intro m. cbn [TM.set_lock TM.soup]. rewrite sm_soup0. split; intros [v [Kv C]]; exists v; split; auto.
      apply (known_score (score_sym Sc)) in Kv. exact Kv.
    - intros _. cbn. rewrite upd_same, Lo. reflexivity.
    - intros lr b0. cbn. rewrite upd_same. intro Eq. inversion Eq; subst. exact Pk.
    - rewrite (ss_hvs Sc). subst s1. cbn. intros u Hu. apply M. auto.
    - rewrite (ss_glog Sc). subst s1. cbn. intros e u He Hu. apply M.
      apply in_app_or in He as [He|[<-|[]]]; eauto.
    - rewrite (ss_dec Sc). subst s1. cbn. auto.
    - rewrite (ss_round Sc). subst s1. cbn. auto.
    - intros r t d k Hk. apply (ss_sent Sc) in Hk. subst s1. cbn in Hk. eauto.
    - rewrite (ss_fuse Sc). exact F1.
    - intros v Hv. apply M. auto.
    - rewrite Wr. subst s1. cbn. eapply Forall_rec_sub_mono; eauto.
    - rewrite Wc. subst s1. cbn. eapply Forall_rec_sub_mono; eauto.
    - destruct sm_shape0 as [L [Sh _]]. exists (Some (b, round s)). split.
      + rewrite Wl. subst s1. cbn [wal_l set_lock glog_add set_glog].
        eapply LS_entry; [eapply lockwal_shape_mono; [exact M|exact Sh]|exact Q| |apply nparts_pos].
        apply vs_sub_known. intros u Hu. apply M. auto.
      + right. cbn. rewrite upd_same. reflexivity.
    - exact Us.
  Qed.

  (* ---------------- unlock ---------------- *)

  Lemma Sim_unlock_on s T r w ev :
    Sim s T -> status_ s = Running ->
    (forall l, locked s = Some l -> gev_ok n (GUnlock (locked_round s) (p_id l) r w ev)) ->
    (forall u, In (Some u) ev -> known s u) ->
    exists T', Sim (unlock_on r w ev s) T'.
  Proof.
    intros H R G K. unfold unlock_on. destruct (locked s) as [l|] eqn:L.
    - destruct (G l eq_refl) as [Le [Nw Q]].
      assert (Pk : TM.polka n (TM.soup T) (Z.to_N r) w = true) by (eapply (sim_quorum (t:=Prevote)); eauto).
      assert (Lk : TM.lock T i = Some (Z.to_N (locked_round s), p_id l)).
      { rewrite (sm_lock H R). unfold lock_of. rewrite L. reflexivity. }
      exists (TM.set_lock T i None).
      assert (St := tm_unlock n byz i Hi Hbyz T _ _ (Z.to_N r) w Lk ltac:(lia) Nw Pk).
      destruct H. constructor; auto; cbn.
      + eapply TP.reachable_step; eauto.
      + apply frame_set_lock; auto.
      + intros _. rewrite upd_same. reflexivity.
      + intros lr b0. rewrite upd_same. discriminate.
      + intros e u He Hu. apply in_app_or in He as [He|[<-|[]]]; eauto.
      + destruct sm_shape0 as [L0 [Sh _]]. exists L0. split; auto. left. rewrite upd_same. reflexivity.
    - exists T. pose proof (sm_lock H R) as Lk. unfold lock_of in Lk. rewrite L in Lk. cbn in Lk.
      destruct H. constructor; auto.
  Qed.

  (* ---------------- sending an own vote ---------------- *)

  Lemma send3_none v s :
    fuse s = None ->
    send3 v s =
    set_sent (sent s ++ [SVote (v_round v) (v_type v) (v_dec v) (nsent s)]) (S (nsent s))
      (set_outs (outs s ++ [OWrite WRound (RVote v); OSync WRound; OSendVote v]) None
        (set_wals (mkWal (w_synced (wal_r s) ++ w_unsynced (wal_r s) ++ [RVote v]) []) (wal_l s) (wal_c s) s)).
  Proof.
    intro F. unfold send3, emit. rewrite F. cbn. rewrite <- !app_assoc. reflexivity.
  Qed.

  Lemma Sim_send3 s T t d :
    Sim s T -> Inv own s -> status_ s = Running ->
    vote_ok own s t -> gev_ok n (GVote (round s) t d (lock_of s)) ->
    let s' := send3 (own_vote own s t d) (glog_add (GVote (round s) t d (lock_of s)) s) in
    (exists T', Sim s' T') /\ known s' (own_vote own s t d).
  Proof.
    intros H HI R V G s'.
    assert (F : fuse (glog_add (GVote (round s) t d (lock_of s)) s) = None) by (cbn; apply (sm_fuse H)).
    assert (Es : sent s' = sent s ++ [SVote (round s) t d (nsent s)]).
    { subst s'. rewrite send3_none; auto. }
    assert (Kn : known s' (own_vote own s t d)).
    { right. exists (round s), t, d, (nsent s). split; [rewrite Es; apply in_or_app; right; left; auto|reflexivity]. }
    split; [|exact Kn].
    assert (Mono : forall v, known s v -> known s' v).
    { intros v [K|[r0 [t0 [d0 [k0 [K ->]]]]]]; [left; auto|right]. exists r0, t0, d0, k0. split; auto.
      rewrite Es. apply in_or_app; auto. }
    assert (Cv : conv (own_vote own s t d) = TM.mkVote i (Z.to_N (round s)) (convt t) d).
    { unfold conv, own_vote. cbn. rewrite Nat2Z.id. reflexivity. }
    pose proof (sim_own_bound H HI R V) as OB.
    assert (Lk := sm_lock H R).
    (* the abstract state after the vote *)
    set (T' := match t, d with
               | Precommit, Some b => TM.add_vote (TM.set_lock T i (Some (Z.to_N (round s), b))) (conv (own_vote own s t d))
               | _, _ => TM.add_vote T (conv (own_vote own s t d))
               end).
    assert (St : exists a, TM.step n byz T a = Some T').
    { subst T'. rewrite Cv. destruct t.
      - eexists. apply (tm_send_prevote n byz i Hi Hbyz T _ d OB).
        intros lr b El. rewrite Lk in El. cbn [gev_ok] in G.
        destruct (lock_of s) as [[lr0 b0]|]; cbn in El; [|discriminate]. inversion El; subst. first [exact G|reflexivity].
      - destruct d as [b|].
        + eexists. apply (tm_send_precommit_block n byz i Hi Hbyz T _ b OB).
          cbn [gev_ok] in G. rewrite G in Lk. cbn in Lk. apply (sm_lpolka H Lk).
        + eexists. apply (tm_send_precommit_nil n byz i Hi Hbyz T _ OB). }
    destruct St as [a St].
    assert (Sp : TM.soup T' = conv (own_vote own s t d) :: TM.soup T) by (subst T'; destruct t, d; reflexivity).
    assert (Dc : TM.decided T' = TM.decided T) by (subst T'; destruct t, d; reflexivity).
    assert (Lk' : TM.lock T' i = TM.lock T i).
    { subst T'. destruct t; [reflexivity|]. destruct d as [b|]; [|reflexivity].
      cbn. rewrite upd_same. cbn [gev_ok] in G. rewrite Lk, G. reflexivity. }
    exists T'. constructor.
    - eapply TP.reachable_step; [apply (sm_reach H)|exact St].
    - subst T'. destruct t, d; try (apply frame_add_vote, (sm_frame H)).
      apply frame_add_vote, frame_set_lock, (sm_frame H).
    - intro m. rewrite Sp. cbn. rewrite (sm_soup H). split.
      + intros [<-|[v [K C]]]; [exists (own_vote own s t d); auto|exists v; auto].
      + intros [v [[K|[r0 [t0 [d0 [k0 [K ->]]]]]] C]].
        * right. exists v. split; auto. left; auto.
        * rewrite Es in K. apply In_app_one in K as [K|K].
          -- right. eexists. split; [|exact C]. right. exists r0, t0, d0, k0. auto.
          -- inversion K; subst. left. reflexivity.
    - intros _.
      assert (Ls : lock_of s' = lock_of s) by (subst s'; rewrite send3_none; auto).
      rewrite Ls, Lk'. exact Lk.
    - intros lr b El. rewrite Sp. apply TP.polka_cons. rewrite Lk' in El. apply (sm_lpolka H El).
    - assert (Hs : hvs s' = hvs s) by (subst s'; rewrite send3_none; auto).
      rewrite Hs. intros u Hu. apply Mono. apply (sm_hvs H); auto.
    - assert (Gs : glog s' = glog s ++ [GVote (round s) t d (lock_of s)]) by (subst s'; rewrite send3_none; auto).
      rewrite Gs. intros e u He Hu. apply in_app_or in He as [He|[<-|[]]]; [|destruct Hu].
      apply Mono. eapply (sm_glog H); eauto.
    - assert (Ds : decided s' = decided s) by (subst s'; rewrite send3_none; auto).
      rewrite Ds, Dc. apply (sm_dec H).
    - assert (Rs : round s' = round s) by (subst s'; rewrite send3_none; auto).
      rewrite Rs. apply (sm_round H).
    - intros r0 t0 d0 k0 K. rewrite Es in K. apply In_app_one in K as [K|K]; [eapply (sm_sent H); eauto|].
      inversion K; subst. apply (sm_round H).
    - subst s'. rewrite send3_none; auto.
    - intros v Hv. apply Mono. apply (sm_k0 H); auto.
    - assert (Ws : wal_all (wal_r s') = wal_all (wal_r s) ++ [RVote (own_vote own s t d)]).
      { subst s'. rewrite send3_none; auto. unfold wal_all. cbn. rewrite app_nil_r, app_assoc. reflexivity. }
      rewrite Ws. apply Forall_app. split.
      + eapply Forall_rec_sub_mono; [exact Mono|apply (sm_walr H)].
      + constructor; auto.
    - assert (Ws : wal_c s' = wal_c s) by (subst s'; rewrite send3_none; auto).
      rewrite Ws. eapply Forall_rec_sub_mono; [exact Mono|apply (sm_walc H)].
    - assert (Ws : wal_l s' = wal_l s) by (subst s'; rewrite send3_none; auto).
      rewrite Ws, Lk'. destruct (sm_shape H) as [L [Sh LL]]. exists L. split; auto.
      eapply lockwal_shape_mono; [exact Mono|exact Sh].
    - assert (Ws : wal_l s' = wal_l s) by (subst s'; rewrite send3_none; auto).
      rewrite Ws. apply (sm_lsync H).
  Qed.

  (* ---------------- finalize ---------------- *)

  Lemma Sim_finalize s T b :
    Sim s T -> InvD n s -> stp s = SCommit -> bps_id (cur s) = Some b ->
    exists T', Sim (emit (OFinalize b) s) T'.
  Proof.
    intros H HD St Cu.
    destruct (d_commit HD St) as [b' [r [ev [A B]]]]. rewrite Cu in A. inversion A; subst b'.
    pose proof (d_log HD) as L. rewrite Forall_forall in L. specialize (L _ B). cbn [gev_ok] in L.
    assert (Q : TM.qprecommit n (TM.soup T) (Z.to_N r) (Some b) = true).
    { eapply (sim_quorum (t:=Precommit)); eauto. intros u Hu. eapply (sm_glog H); eauto. }
    exists (TM.mkState (TM.soup T) (TM.lock T) (TM.upd (TM.decided T) i (Some b))).
    pose proof (tm_decide n byz i Hi Hbyz T _ _ Q) as Sx.
    rewrite emit_none; [|apply (sm_fuse H)]. destruct H. constructor; auto; cbn.
    - eapply TP.reachable_step; eauto.
    - destruct sm_frame0 as [F1 F2]. split; auto. intros j Hj. cbn. rewrite upd_other; auto.
    - intros b0 Eb. inversion Eb; subst. rewrite upd_same. reflexivity.
  Qed.

End Sim.
