(* Proofs_K_rlpCountBytesForSize.v -- common/containerdb rlpCountBytesForSize
   Split out of Proofs_Kernels.v: this file imports ONLY the generated kernel(s)
   gen/K_rlpCountBytesForSize.v, so an edit of another kernel's Go source cannot break it.
   Style: stdlib only; arithmetic closed by lia with the euclidean-division hook. *)
From Coq Require Import ZArith Bool String List Lia.
From Coq Require Import ZifyBool.
From Goloop Require Import lib.GoInt Proofs_K_tactics.
From Goloop.gen Require Import K_rlpCountBytesForSize.
Import ListNotations.
Local Open Scope Z_scope.

Ltac Zify.zify_post_hook ::= Z.to_euclidean_division_equations.

Lemma rlpCount_loop1_spec fuel : forall b cnt,
  0 <= b < 256 ^ Z.of_nat fuel -> 0 <= cnt -> cnt + Z.of_nat fuel <= max_i64 ->
  exists b' cnt', rlpCountBytesForSize_loop1 (S fuel) b cnt = Some (b', cnt') /\
    cnt <= cnt' <= cnt + Z.of_nat fuel /\ b < 256 ^ (cnt' - cnt) /\
    (cnt < cnt' -> 256 ^ (cnt' - cnt - 1) <= b).
Proof.
  induction fuel as [|fuel IH]; intros b cnt Hb Hc Hf.
  - change (256 ^ Z.of_nat 0) with 1 in Hb. cbn [rlpCountBytesForSize_loop1].
    destruct (b >? 0) eqn:E; [lia|].
    exists b, cnt. split; [reflexivity|]. split; [lia|].
    replace (cnt - cnt) with 0 by lia. cbn. lia.
  - remember (S fuel) as f eqn:Hfe. cbn [rlpCountBytesForSize_loop1]. destruct (b >? 0) eqn:E.
    + rewrite shiftr_div by lia. change (2 ^ 8) with 256.
      rewrite wrap_int_small by lia.
      assert (Hr : 0 <= b / 256 < 256 ^ Z.of_nat fuel).
      { subst f. rewrite Nat2Z.inj_succ, Z.pow_succ_r in Hb by lia. lia. }
      subst f.
      destruct (IH (b / 256) (cnt + 1) Hr ltac:(lia) ltac:(lia)) as [b' [cnt' [He [Hc' [Hlt Hge]]]]].
      exists b', cnt'. split; [exact He|]. split; [lia|].
      replace (cnt' - cnt) with (Z.succ (cnt' - (cnt + 1))) by lia.
      rewrite Z.pow_succ_r by lia. split; [lia|].
      intros _. replace (Z.succ (cnt' - (cnt + 1)) - 1) with (cnt' - (cnt + 1)) by lia.
      destruct (Z.eq_dec cnt' (cnt + 1)) as [->|Hne].
      * replace (cnt + 1 - (cnt + 1)) with 0 by lia. cbn. lia.
      * specialize (Hge ltac:(lia)).
        replace (cnt' - (cnt + 1)) with (Z.succ (cnt' - (cnt + 1) - 1)) by lia.
        rewrite Z.pow_succ_r by lia. lia.
    + exists b, cnt. split; [reflexivity|]. split; [lia|].
      replace (cnt - cnt) with 0 by lia. cbn. lia.
Qed.

(* the number of bytes of the big-endian representation of b (1 for b = 0) *)
Lemma rlpCountBytesForSize_spec fuel b :
  (8 <= fuel <= 1000)%nat -> 0 <= b <= max_i64 ->
  exists c, rlpCountBytesForSize fuel b = Some c /\
    1 <= c <= 8 /\ b < 256 ^ c /\ (1 < c -> 256 ^ (c - 1) <= b).
Proof.
  intros Hf Hb. destruct fuel as [|fuel]; [lia|].
  unfold rlpCountBytesForSize. cbv zeta.
  rewrite shiftr_div by lia. change (2 ^ 8) with 256.
  assert (Hr : 0 <= b / 256 < 256 ^ Z.of_nat fuel).
  { split; [lia|]. assert (256 ^ 7 <= 256 ^ Z.of_nat fuel) by (apply Z.pow_le_mono_r; lia).
    change (256 ^ 7) with 72057594037927936 in *. lia. }
  destruct (rlpCount_loop1_spec fuel (b / 256) 1 Hr ltac:(lia) ltac:(lia)) as [b' [c [He [Hc [Hlt Hge]]]]].
  rewrite He. exists c. split; [reflexivity|].
  assert (Hpow : b < 256 ^ c).
  { replace c with (Z.succ (c - 1)) by lia. rewrite Z.pow_succ_r by lia. lia. }
  assert (Hc8 : c <= 8).
  { destruct (Z_le_gt_dec c 8); [assumption|].
    specialize (Hge ltac:(lia)).
    assert (256 ^ 7 <= 256 ^ (c - 1 - 1)) by (apply Z.pow_le_mono_r; lia).
    change (256 ^ 7) with 72057594037927936 in *. lia. }
  split; [lia|]. split; [exact Hpow|].
  intros Hc1. specialize (Hge ltac:(lia)).
  replace (c - 1) with (Z.succ (c - 1 - 1)) by lia. rewrite Z.pow_succ_r by lia. lia.
Qed.

Example rlpCountBytesForSize_examples :
  rlpCountBytesForSize 8 0 = Some 1 /\ rlpCountBytesForSize 8 255 = Some 1 /\
  rlpCountBytesForSize 8 256 = Some 2 /\ rlpCountBytesForSize 8 65535 = Some 2 /\
  rlpCountBytesForSize 8 65536 = Some 3 /\ rlpCountBytesForSize 8 9223372036854775807 = Some 8.
Proof. repeat split; vm_compute; reflexivity. Qed.
