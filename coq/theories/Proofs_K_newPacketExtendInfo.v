(* Proofs_K_newPacketExtendInfo.v -- network newPacketExtendInfo (hint<<10 | len&0x3FF)
   Split out of Proofs_Kernels.v: this file imports ONLY the generated kernel(s)
   gen/K_newPacketExtendInfo.v, so an edit of another kernel's Go source cannot break it.
   Style: stdlib only; arithmetic closed by lia with the euclidean-division hook. *)
From Coq Require Import ZArith Bool String List Lia.
From Coq Require Import ZifyBool.
From Goloop Require Import lib.GoInt Proofs_K_tactics.
From Goloop.gen Require Import K_newPacketExtendInfo.
Import ListNotations.
Local Open Scope Z_scope.

Ltac Zify.zify_post_hook ::= Z.to_euclidean_division_equations.

(* packetExtendMaxHint = 0x3F, packetExtendMaxLen = 0x03FF *)
Lemma newPacketExtendInfo_spec hint len :
  0 <= hint <= 63 ->
  newPacketExtendInfo hint len = hint * 1024 + len mod 1024.
Proof.
  intros Hh. unfold newPacketExtendInfo.
  change 1023 with (2 ^ 10 - 1). rewrite land_ones_mod by lia. change (2 ^ 10) with 1024.
  rewrite (wrap_int_small (Z.shiftl hint 10))
    by (rewrite shiftl_mul by lia; change (2 ^ 10) with 1024; lia).
  rewrite lor_shiftl_low by (change (2 ^ 10) with 1024; lia).
  change (2 ^ 10) with 1024. apply wrap_u16_small. lia.
Qed.
