(* Proofs_K_timestampRangeMin.v -- service NewTimestampRange: field min
   Split out of Proofs_Kernels.v: this file imports ONLY the generated kernel(s)
   gen/K_timestampRangeMin.v, so an edit of another kernel's Go source cannot break it.
   Style: stdlib only; arithmetic closed by lia with the euclidean-division hook. *)
From Coq Require Import ZArith Bool String List Lia.
From Coq Require Import ZifyBool.
From Goloop Require Import lib.GoInt Proofs_K_tactics.
From Goloop.gen Require Import K_timestampRangeMin.
Import ListNotations.
Local Open Scope Z_scope.

Ltac Zify.zify_post_hook ::= Z.to_euclidean_division_equations.

Lemma timestampRangeMin_spec bts th :
  min_i64 <= bts - th <= max_i64 -> timestampRangeMin bts th = bts - th.
Proof. unfold timestampRangeMin. kernel_lia. Qed.
