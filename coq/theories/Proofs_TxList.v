(* Proofs_TxList.v — the index key is strictly monotone in byte (hence nibble)
   lexicographic order, so a list built from a slice iterates in index order and
   looks up by index. *)
From Coq Require Import Sorting.Sorted.
From Goloop Require Import lib.Bytes Model_RlpBytes Model_Trie Model_TxList Proofs_RlpBytes Proofs_Trie Proofs_TrieMap
  Proofs_TrieWf Proofs_TrieList.
From Coq Require Import ZifyBool ZifyN ZifyNat.
Ltac Zify.zify_post_hook ::= Z.div_mod_to_equations.
Open Scope N_scope.

(* ---------- big-endian bytes ---------- *)

Lemma be_bytes_mod k : forall v, be_bytes k (v mod 2 ^ (8 * N.of_nat k)) = be_bytes k v.
Proof.
  induction k as [|k IH]; intros v; [reflexivity|].
  cbn [be_bytes]. rewrite pow8_S. set (P := 2 ^ (8 * N.of_nat k)) in *.
  assert (HP : P <> 0) by apply pow2_nz.
  rewrite (N.mod_mul_r v P 256) by lia. f_equal.
  - rewrite (N.add_comm (v mod P)), (N.mul_comm P ((v / P) mod 256)). rewrite N.div_add_l by lia.
    rewrite (N.div_small (v mod P) P) by (apply N.mod_lt; lia). rewrite N.add_0_r.
    apply N.mod_mod. lia.
  - rewrite <- (IH (v mod P + P * ((v / P) mod 256))), <- (IH v). f_equal.
    rewrite (N.mul_comm P ((v / P) mod 256)), N.mod_add by lia. apply N.mod_mod. lia.
Qed.

Lemma be_bytes_ok k v : bytes_ok (be_bytes k v) = true.
Proof.
  induction k as [|k IH]; [reflexivity|]. cbn [be_bytes bytes_ok forallb]. fold (bytes_ok (be_bytes k v)).
  rewrite IH, andb_true_r. unfold byte_ok. apply N.ltb_lt. apply N.mod_lt. discriminate.
Qed.

Lemma be_bytes_lt k : forall i j,
  i < j -> j < 2 ^ (8 * N.of_nat k) -> lex_lt (be_bytes k i) (be_bytes k j).
Proof.
  induction k as [|k IH]; intros i j Hij Hj.
  - cbn in Hj. lia.
  - cbn [be_bytes lex_lt]. rewrite pow8_S in Hj. set (P := 2 ^ (8 * N.of_nat k)) in *.
    assert (HP : P <> 0) by apply pow2_nz.
    assert (Hi256 : i / P < 256) by (apply N.div_lt_upper_bound; lia).
    assert (Hj256 : j / P < 256) by (apply N.div_lt_upper_bound; lia).
    rewrite !N.mod_small by assumption.
    assert (Hle : i / P <= j / P) by (apply N.div_le_mono; lia).
    destruct (N.eq_dec (i / P) (j / P)) as [E|E].
    + right. split; [exact E|]. rewrite <- (be_bytes_mod k i), <- (be_bytes_mod k j). fold P.
      apply IH.
      * pose proof (N.div_mod i P HP). pose proof (N.div_mod j P HP). rewrite E in *. lia.
      * apply N.mod_lt. exact HP.
    + left. lia.
Qed.

(* ---------- the length class of an index ---------- *)

Definition klen (i : N) : N := N.size i / 8 + 1.

Lemma ubytes_len_klen i : ubytes_len i = N.to_nat (klen i).
Proof. reflexivity. Qed.

Lemma size_mono a b : a <= b -> N.size a <= N.size b.
Proof.
  intros L. destruct (N.eq_dec a 0) as [->|Ha]; [cbn; lia|].
  rewrite !N.size_log2 by lia. pose proof (N.log2_le_mono a b L). lia.
Qed.

Lemma klen_mono a b : a <= b -> klen a <= klen b.
Proof. intros L. unfold klen. pose proof (size_mono a b L). lia. Qed.

Lemma klen_bound i : i < 2 ^ (8 * klen i - 1).
Proof.
  unfold klen. eapply N.lt_le_trans; [apply N.size_gt|]. apply N.pow_le_mono_r; lia.
Qed.

Lemma klen_bound8 i : i < 2 ^ (8 * N.of_nat (ubytes_len i)).
Proof.
  rewrite ubytes_len_klen, N2Nat.id. eapply N.lt_le_trans; [apply klen_bound|].
  apply N.pow_le_mono_r; lia.
Qed.

Lemma klen_one i : klen i = 1 <-> i < 128.
Proof.
  unfold klen. split; intros X.
  - assert (N.size i <= 7) by lia. eapply N.lt_le_trans; [apply N.size_gt|].
    change 128 with (2 ^ 7). apply N.pow_le_mono_r; lia.
  - destruct (N.eq_dec i 0) as [->|Hi]; [reflexivity|].
    rewrite N.size_log2 by lia. assert (N.log2 i < 7); [|lia].
    apply N.log2_lt_pow2; [lia|exact X].
Qed.

Lemma klen_le9 i : i < 2 ^ 64 -> klen i <= 9.
Proof.
  intros X. unfold klen. assert (N.size i <= 64); [|lia].
  destruct (N.eq_dec i 0) as [->|Hi]; [cbn; lia|].
  rewrite N.size_log2 by lia. assert (N.log2 i < 64); [|lia]. apply N.log2_lt_pow2; [lia|exact X].
Qed.

(* the key, by class *)
Lemma index_key_small i : i < 128 -> index_key i = [i].
Proof.
  intros X. unfold index_key, ubytes. rewrite ubytes_len_klen. rewrite (proj2 (klen_one i) X).
  change (N.to_nat 1) with 1%nat. cbn [be_bytes]. change (2 ^ (8 * N.of_nat 0)) with 1. rewrite N.div_1_r.
  rewrite N.mod_small by lia. unfold rlp_str. replace (i <? 128) with true by lia. reflexivity.
Qed.

Lemma index_key_big i :
  128 <= i -> i < 2 ^ 64 -> index_key i = (128 + klen i) :: ubytes i.
Proof.
  intros X Y. unfold index_key.
  assert (L2 : 2 <= klen i).
  { pose proof (klen_one i). unfold klen in *. lia. }
  pose proof (klen_le9 i Y) as L9.
  assert (El : length (ubytes i) = N.to_nat (klen i)) by (unfold ubytes; now rewrite be_bytes_length).
  destruct (ubytes i) as [|b0 [|b1 r]] eqn:E; cbn [length] in El; try lia.
  unfold rlp_str, rlp_hdr, blen. cbn [length]. rewrite El.
  replace (N.of_nat (N.to_nat (klen i)) <=? 55) with true by lia.
  rewrite N2Nat.id. reflexivity.
Qed.

Lemma index_key_ok i : i < 2 ^ 64 -> bytes_ok (index_key i) = true.
Proof.
  intros Y. destruct (N.lt_ge_cases i 128) as [X|X].
  - rewrite index_key_small by exact X. cbn. unfold byte_ok. rewrite andb_true_r. lia.
  - rewrite index_key_big by assumption. cbn [bytes_ok forallb]. fold (bytes_ok (ubytes i)).
    unfold ubytes. rewrite be_bytes_ok, andb_true_r. unfold byte_ok. pose proof (klen_le9 i Y). lia.
Qed.

Theorem index_key_lt i j : i < j -> j < 2 ^ 64 -> lex_lt (index_key i) (index_key j).
Proof.
  intros Hij Hj. assert (Hi : i < 2 ^ 64) by lia.
  destruct (N.lt_ge_cases j 128) as [Xj|Xj].
  - rewrite !index_key_small by lia. cbn [lex_lt]. left. exact Hij.
  - rewrite (index_key_big j) by assumption.
    destruct (N.lt_ge_cases i 128) as [Xi|Xi].
    + rewrite index_key_small by exact Xi. cbn [lex_lt]. left. lia.
    + rewrite (index_key_big i) by assumption. cbn [lex_lt].
      pose proof (klen_mono i j ltac:(lia)) as M.
      destruct (N.eq_dec (klen i) (klen j)) as [E|E].
      * right. split; [lia|]. unfold ubytes. rewrite !ubytes_len_klen, E. apply be_bytes_lt; [exact Hij|].
        rewrite <- ubytes_len_klen. apply klen_bound8.
      * left. lia.
Qed.

(* ---------- bytes and nibbles ---------- *)

Lemma nibs_of_bytes_ok b : bytes_ok b = true -> nibs_ok (bytes_to_nibs b) = true.
Proof.
  induction b as [|x b IH]; [reflexivity|]. cbn [bytes_ok forallb bytes_to_nibs nibs_ok].
  intros X. apply andb_true_iff in X as [Hx Hb]. unfold byte_ok in Hx. fold (nibs_ok (bytes_to_nibs b)).
  rewrite (IH Hb). unfold nib_ok. replace (x / 16 <? 16) with true by lia.
  replace (x mod 16 <? 16) with true by lia. reflexivity.
Qed.

Lemma nibs_bytes_roundtrip b : bytes_ok b = true -> nibs_to_bytes (bytes_to_nibs b) = b.
Proof.
  induction b as [|x b IH]; [reflexivity|]. cbn [bytes_ok forallb bytes_to_nibs nibs_to_bytes].
  intros X. apply andb_true_iff in X as [Hx Hb]. fold (bytes_ok b) in Hb. rewrite (IH Hb). f_equal. lia.
Qed.

Lemma nibs_lex a : forall b,
  bytes_ok a = true -> bytes_ok b = true -> lex_lt a b -> lex_lt (bytes_to_nibs a) (bytes_to_nibs b).
Proof.
  induction a as [|x a IH]; intros [|y b] Ha Hb L; cbn in L; try tauto; try (cbn; exact I).
  cbn [bytes_ok forallb] in Ha, Hb. apply andb_true_iff in Ha as [Hx Ha]. apply andb_true_iff in Hb as [Hy Hb].
  unfold byte_ok in Hx, Hy. cbn [bytes_to_nibs lex_lt].
  destruct L as [L|[-> L]].
  - destruct (N.eq_dec (x / 16) (y / 16)) as [E|E]; [right; split; [exact E|]; left; lia|left; lia].
  - right. split; [reflexivity|]. right. split; [reflexivity|]. now apply IH.
Qed.

Theorem key_nibs_lt i j : i < j -> j < 2 ^ 64 -> lex_lt (key_nibs i) (key_nibs j).
Proof.
  intros Hij Hj. unfold key_nibs. apply nibs_lex; try (apply index_key_ok; lia). now apply index_key_lt.
Qed.

Theorem key_nibs_injective i j : i < 2 ^ 64 -> j < 2 ^ 64 -> key_nibs i = key_nibs j -> i = j.
Proof.
  intros Hi Hj E. destruct (N.lt_trichotomy i j) as [L|[L|L]]; [|exact L|].
  - pose proof (key_nibs_lt i j L Hj) as X. rewrite E in X. now apply lex_lt_irrefl in X.
  - pose proof (key_nibs_lt j i L Hi) as X. rewrite E in X. now apply lex_lt_irrefl in X.
Qed.

Theorem index_key_injective i j : i < 2 ^ 64 -> j < 2 ^ 64 -> index_key i = index_key j -> i = j.
Proof. intros Hi Hj E. apply key_nibs_injective; auto. unfold key_nibs. now rewrite E. Qed.

Lemma key_nibs_ok i : i < 2 ^ 64 -> nibs_ok (key_nibs i) = true.
Proof. intros. apply nibs_of_bytes_ok. now apply index_key_ok. Qed.

(* ---------- decoding the index from the key ---------- *)

Lemma be_val_cons0 r : be_val (0 :: r) = be_val r.
Proof. reflexivity. Qed.

Theorem index_of_key_roundtrip i : i < 2 ^ 64 -> index_of_key (index_key i) = Some i.
Proof.
  intros Y. destruct (N.lt_ge_cases i 128) as [X|X].
  - rewrite index_key_small by exact X. unfold index_of_key. replace (i <? 128) with true by lia.
    unfold safe_uint. destruct (i =? 0) eqn:E.
    + apply N.eqb_eq in E. subst. reflexivity.
    + replace (128 <=? i) with false by lia. cbn. f_equal; lia.
  - rewrite index_key_big by assumption. pose proof (klen_le9 i Y) as L9.
    assert (L2 : 2 <= klen i) by (pose proof (klen_one i); unfold klen in *; lia).
    unfold index_of_key. replace (128 + klen i <? 128) with false by lia.
    replace (128 + klen i <=? 183) with true by lia. replace (128 + klen i - 128) with (klen i) by lia.
    assert (El : length (ubytes i) = N.to_nat (klen i)) by (unfold ubytes; now rewrite be_bytes_length).
    rewrite El, Nat.ltb_irrefl. rewrite <- El, firstn_all.
    assert (Ev : be_val (ubytes i) = i) by (unfold ubytes; apply be_val_be_bytes, klen_bound8).
    (* the first byte *)
    unfold ubytes in *. rewrite ubytes_len_klen in *.
    destruct (N.to_nat (klen i)) as [|k] eqn:Ek; [lia|]. cbn [be_bytes] in *.
    set (P := 2 ^ (8 * N.of_nat k)) in *. assert (HP : P <> 0) by apply pow2_nz.
    assert (Hb : i / P < 128).
    { apply N.div_lt_upper_bound; [exact HP|]. pose proof (klen_bound i) as B.
      replace (8 * klen i - 1) with (8 * N.of_nat k + 7) in B by lia.
      rewrite N.pow_add_r in B. fold P in B. change (2 ^ 7) with 128 in B. lia. }
    rewrite N.mod_small in * by lia.
    unfold safe_uint. cbn [length] in El. destruct (i / P =? 0) eqn:E0.
    + apply N.eqb_eq in E0. rewrite E0 in Ev. rewrite be_val_cons0 in Ev.
      rewrite be_bytes_length. replace (k <=? 8)%nat with true by lia. now rewrite Ev.
    + replace (128 <=? i / P) with false by lia. cbn [length]. rewrite be_bytes_length.
      assert (k < 8)%nat.
      { destruct (Nat.lt_ge_cases k 8); [assumption|]. exfalso.
        assert (k = 8)%nat by lia. subst k. apply N.eqb_neq in E0. apply E0.
        apply N.div_small. unfold P. change (8 * N.of_nat 8) with 64. exact Y. }
      replace (S k <=? 8)%nat with true by lia. now rewrite Ev.
Qed.

(* ---------- the list ---------- *)

Definition items_ok (xs : list bytes) : Prop := Forall (fun x => x <> []) xs.

Lemma build_wf xs : forall i0 t,
  wf t -> items_ok xs -> i0 + N.of_nat (length xs) <= 2 ^ 64 -> wf (build_from i0 xs t).
Proof.
  induction xs as [|x r IH]; intros i0 t W F B; cbn [build_from]; [exact W|].
  inversion F; subst. apply IH; [|assumption|cbn [length] in B; lia].
  apply set_wf; [exact W| |assumption]. apply key_nibs_ok. cbn [length] in B. lia.
Qed.

Lemma build_get xs : forall i0 t j,
  wf t -> items_ok xs -> i0 + N.of_nat (length xs) <= 2 ^ 64 -> j < 2 ^ 64 ->
  get (build_from i0 xs t) (key_nibs j) =
  if (i0 <=? j) && (j <? i0 + N.of_nat (length xs)) then nth_error xs (N.to_nat (j - i0))
  else get t (key_nibs j).
Proof.
  induction xs as [|x r IH]; intros i0 t j W F B Hj; cbn [build_from].
  - cbn [length]. replace ((i0 <=? j) && (j <? i0 + N.of_nat 0)) with false by lia. reflexivity.
  - inversion F; subst. cbn [length] in B.
    assert (Hk : nibs_ok (key_nibs i0) = true) by (apply key_nibs_ok; lia).
    rewrite IH; [|apply set_wf; auto|assumption|lia|exact Hj].
    rewrite get_set by (auto; now apply W).
    cbn [length].
    destruct (N.eq_dec j i0) as [->|Hne].
    + rewrite bytes_eqb_refl. replace ((i0 + 1 <=? i0) && _) with false by lia.
      replace ((i0 <=? i0) && (i0 <? i0 + N.of_nat (S (length r)))) with true by lia.
      rewrite N.sub_diag. reflexivity.
    + replace (bytes_eqb (key_nibs j) (key_nibs i0)) with false.
      2:{ symmetry. apply nibs_eqb_neq. intros E. apply Hne. apply key_nibs_injective; auto; lia. }
      destruct ((i0 + 1 <=? j) && (j <? i0 + 1 + N.of_nat (length r))) eqn:C.
      * replace ((i0 <=? j) && (j <? i0 + N.of_nat (S (length r)))) with true by lia.
        replace (N.to_nat (j - i0)) with (S (N.to_nat (j - (i0 + 1)))) by lia. reflexivity.
      * replace ((i0 <=? j) && (j <? i0 + N.of_nat (S (length r)))) with false by lia. reflexivity.
Qed.

Lemma build_get_inv xs : forall i0 t k v,
  wf t -> items_ok xs -> i0 + N.of_nat (length xs) <= 2 ^ 64 ->
  get (build_from i0 xs t) k = Some v ->
  (exists j, i0 <= j /\ j < i0 + N.of_nat (length xs) /\ k = key_nibs j) \/ get t k = Some v.
Proof.
  induction xs as [|x r IH]; intros i0 t k v W F B G; cbn [build_from] in G; [now right|].
  inversion F; subst. cbn [length] in B.
  assert (Hk : nibs_ok (key_nibs i0) = true) by (apply key_nibs_ok; lia).
  destruct (IH (i0 + 1) _ k v (set_wf _ _ _ W Hk H1) H2 ltac:(lia) G) as [(j & A & C & E)|G'].
  - left. exists j. cbn [length]. repeat split; [lia|lia|exact E].
  - rewrite get_set in G' by (auto; now apply W).
    destruct (bytes_eqb k (key_nibs i0)) eqn:E; [|now right].
    apply nibs_eqb_eq in E. left. exists i0. cbn [length]. repeat split; [lia|lia|exact E].
Qed.

Theorem get_at_from_slice xs i :
  items_ok xs -> N.of_nat (length xs) <= 2 ^ 64 -> i < 2 ^ 64 ->
  get_at (from_slice xs) i = nth_error xs (N.to_nat i).
Proof.
  intros F B Hi. unfold get_at, from_slice. rewrite build_get; auto; [|now left].
  rewrite N.sub_0_r. cbn [get]. destruct ((0 <=? i) && (i <? 0 + N.of_nat (length xs))) eqn:C; [reflexivity|].
  symmetry. apply nth_error_None. lia.
Qed.

(* the expected content, keyed *)
Definition keyed (l : list (N * bytes)) : list (nibs * bytes) :=
  map (fun iv => (key_nibs (fst iv), snd iv)) l.

Lemma in_indexed xs : forall i0 j v,
  In (j, v) (indexed i0 xs) <-> i0 <= j /\ nth_error xs (N.to_nat (j - i0)) = Some v.
Proof.
  induction xs as [|x r IH]; intros i0 j v; cbn [indexed In].
  - split; [tauto|]. intros [_ X]. destruct (N.to_nat (j - i0)); discriminate.
  - rewrite IH. split.
    + intros [E|[A C]].
      * inversion E; subst. split; [lia|]. rewrite N.sub_diag. reflexivity.
      * split; [lia|]. replace (N.to_nat (j - i0)) with (S (N.to_nat (j - (i0 + 1)))) by lia. exact C.
    + intros [A C]. destruct (N.eq_dec j i0) as [->|Hne].
      * left. rewrite N.sub_diag in C. cbn in C. congruence.
      * right. split; [lia|]. replace (N.to_nat (j - i0)) with (S (N.to_nat (j - (i0 + 1)))) in C by lia. exact C.
Qed.

Lemma indexed_bound xs : forall i0 j v, In (j, v) (indexed i0 xs) -> i0 <= j < i0 + N.of_nat (length xs).
Proof.
  intros i0 j v X. apply in_indexed in X as [A C]. split; [exact A|].
  assert (N.to_nat (j - i0) < length xs)%nat by (apply nth_error_Some; congruence). lia.
Qed.

Lemma keyed_sorted xs : forall i0,
  i0 + N.of_nat (length xs) <= 2 ^ 64 ->
  StronglySorted lex_lt (map fst (keyed (indexed i0 xs))).
Proof.
  induction xs as [|x r IH]; intros i0 B; cbn [indexed keyed map fst]; [constructor|].
  cbn [length] in B. constructor; [apply IH; lia|].
  apply Forall_forall. intros k Hk. fold (keyed (indexed (i0 + 1) r)) in Hk.
  apply in_map_iff in Hk as [[k' v] [<- Hk]]. apply in_map_iff in Hk as [[j v'] [E Hj]].
  cbn in E. inversion E; subst. cbn [fst].
  apply indexed_bound in Hj. apply key_nibs_lt; lia.
Qed.

Lemma sorted_pairs_unique (l1 l2 : list (nibs * bytes)) :
  StronglySorted lex_lt (map fst l1) -> StronglySorted lex_lt (map fst l2) ->
  (forall k v, In (k, v) l1 <-> In (k, v) l2) -> l1 = l2.
Proof.
  revert l2. induction l1 as [|[a va] l1 IH]; intros l2 S1 S2 HI.
  - destruct l2 as [|[b vb] l2]; [reflexivity|]. exfalso. apply (HI b vb). now left.
  - destruct l2 as [|[b vb] l2]; [exfalso; apply (HI a va); now left|].
    cbn [map fst] in S1, S2.
    inversion S1 as [|? ? S1' F1]; inversion S2 as [|? ? S2' F2]; subst.
    rewrite Forall_forall in F1, F2.
    assert (E : (a, va) = (b, vb)).
    { destruct (proj1 (HI a va) (or_introl eq_refl)) as [E|Ha]; [auto|].
      destruct (proj2 (HI b vb) (or_introl eq_refl)) as [E|Hb]; [auto|].
      exfalso. apply (lex_lt_irrefl a). eapply lex_lt_trans.
      - apply F1. apply in_map_iff. exists (b, vb). auto.
      - apply F2. apply in_map_iff. exists (a, va). auto. }
    injection E as Ea Ev. subst b vb. f_equal. apply IH; auto.
    intros k v. split; intros Hx.
    + destruct (proj1 (HI k v) (or_intror Hx)) as [E'|Hx']; [|exact Hx'].
      injection E' as <- <-. exfalso. apply (lex_lt_irrefl a). apply F1. apply in_map_iff. exists (a, va). auto.
    + destruct (proj2 (HI k v) (or_intror Hx)) as [E'|Hx']; [|exact Hx'].
      injection E' as <- <-. exfalso. apply (lex_lt_irrefl a). apply F2. apply in_map_iff. exists (a, va). auto.
Qed.

Theorem to_list_from_slice xs :
  items_ok xs -> N.of_nat (length xs) <= 2 ^ 64 ->
  to_list (from_slice xs) = keyed (indexed 0 xs).
Proof.
  intros F B. apply sorted_pairs_unique.
  - apply to_list_sorted.
  - apply keyed_sorted. lia.
  - intros k v. rewrite to_list_complete. unfold from_slice. split.
    + intros G. destruct (build_get_inv xs 0 Empty k v (or_introl eq_refl) F ltac:(lia) G) as [(j & A & C & ->)|X];
        [|discriminate].
      rewrite build_get in G; auto; [|now left|lia].
      replace ((0 <=? j) && (j <? 0 + N.of_nat (length xs))) with true in G by lia.
      apply in_map_iff. exists (j, v). split; [reflexivity|]. apply in_indexed. split; [lia|exact G].
    + intros X. apply in_map_iff in X as [[j v'] [E Hj]]. cbn in E. inversion E; subst.
      pose proof (indexed_bound _ _ _ _ Hj) as Bj. apply in_indexed in Hj as [_ Hj].
      rewrite build_get; auto; [|now left|lia].
      replace ((0 <=? j) && (j <? 0 + N.of_nat (length xs))) with true by lia. exact Hj.
Qed.

Lemma decode_keyed l :
  (forall j v, In (j, v) l -> j < 2 ^ 64) -> decode_all (keyed l) = Some l.
Proof.
  induction l as [|[j v] l IH]; intros B; [reflexivity|].
  cbn [keyed map decode_all fst snd]. fold (keyed l). unfold key_nibs at 1.
  rewrite nibs_bytes_roundtrip by (apply index_key_ok; apply (B j v); now left).
  rewrite index_of_key_roundtrip by (apply (B j v); now left).
  rewrite IH; [reflexivity|]. intros j' v' X. apply (B j' v'). now right.
Qed.

Theorem iterate_from_slice xs :
  items_ok xs -> N.of_nat (length xs) <= 2 ^ 64 ->
  iterate (from_slice xs) = Some (indexed 0 xs).
Proof.
  intros F B. unfold iterate. rewrite to_list_from_slice by assumption.
  apply decode_keyed. intros j v X. apply indexed_bound in X. lia.
Qed.

Theorem list_roundtrip xs :
  items_ok xs -> N.of_nat (length xs) <= 2 ^ 64 ->
  iterate (from_slice xs) = Some (indexed 0 xs) /\
  forall i, i < 2 ^ 64 -> get_at (from_slice xs) i = nth_error xs (N.to_nat i).
Proof.
  intros F B. split; [now apply iterate_from_slice|]. intros i Hi. now apply get_at_from_slice.
Qed.

(* non-vacuity *)
Example ex_items : list bytes := [[1;2;3]; [4]; [5;6]].
Example ex_items_ok : items_ok ex_items /\ N.of_nat (length ex_items) <= 2 ^ 64.
Proof. split; [repeat constructor; discriminate|cbn; lia]. Qed.
Example ex_key_boundary :
  index_key 127 = [127] /\ index_key 128 = [130; 0; 128] /\ index_key 255 = [130; 0; 255] /\
  index_key 256 = [130; 1; 0] /\ index_key 32768 = [131; 0; 128; 0].
Proof. repeat split; reflexivity. Qed.
