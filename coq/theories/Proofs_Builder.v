(* Proofs_Builder.v — lemmas about Model_Builder (property C20).
   All statements are for every hasher H and every children function (Section variables),
   every initial target store, and every history of starts / deliveries / flushes.
   Style: stdlib only. *)
From Goloop Require Import lib.Bytes Model_Builder.
From Coq Require Import Arith.
Open Scope N_scope.

(* ------------------------------------------------------------------ *)
(* references, stores, databases                                       *)
(* ------------------------------------------------------------------ *)

Lemma ref_eqb_eq a b : ref_eqb a b = true <-> a = b.
Proof.
  destruct a as [a1 a2], b as [b1 b2]; unfold ref_eqb; cbn [fst snd].
  rewrite andb_true_iff, N.eqb_eq, bytes_eqb_eq. split.
  - intros [-> ->]; reflexivity.
  - intros E; inversion E; auto.
Qed.

Lemma ref_eqb_refl a : ref_eqb a a = true.
Proof. now apply ref_eqb_eq. Qed.

Lemma ref_eqb_neq a b : ref_eqb a b = false <-> a <> b.
Proof.
  split.
  - intros E F. apply ref_eqb_eq in F. congruence.
  - intros F. destruct (ref_eqb a b) eqn:E; auto. apply ref_eqb_eq in E. contradiction.
Qed.

Lemma bytes_eqb_neq a b : bytes_eqb a b = false <-> a <> b.
Proof.
  split.
  - intros E F. apply bytes_eqb_eq in F. congruence.
  - intros F. destruct (bytes_eqb a b) eqn:E; auto. apply bytes_eqb_eq in E. contradiction.
Qed.

Lemma bytes_eq_dec (a b : bytes) : {a = b} + {a <> b}.
Proof.
  destruct (bytes_eqb a b) eqn:E.
  - left. now apply bytes_eqb_eq.
  - right. now apply bytes_eqb_neq.
Qed.

Definition ref_eq_dec (a b : ref) : {a = b} + {a <> b}.
Proof.
  destruct (ref_eqb a b) eqn:E.
  - left. now apply ref_eqb_eq.
  - right. now apply ref_eqb_neq.
Defined.

Lemma st_find_app a b r :
  st_find (a ++ b) r = match st_find a r with Some v => Some v | None => st_find b r end.
Proof.
  induction a as [|[k v] a IH]; cbn; auto. destruct (ref_eqb k r); auto.
Qed.

Lemma st_find_in s r d : st_find s r = Some d -> In (r, d) s.
Proof.
  induction s as [|[k v] s IH]; cbn; try discriminate.
  destruct (ref_eqb k r) eqn:E.
  - intros F; inversion F; subst. apply ref_eqb_eq in E. subst. now left.
  - intros F. right. auto.
Qed.

Lemma in_st_find s r d : In (r, d) s -> st_find s r <> None.
Proof.
  induction s as [|[k v] s IH]; cbn; try tauto.
  intros [E | E].
  - inversion E; subst. rewrite ref_eqb_refl. discriminate.
  - destruct (ref_eqb k r); [discriminate | auto].
Qed.

Lemma entries_put x r d : entries (db_put x r d) = (r, d) :: entries x.
Proof. destruct x; reflexivity. Qed.

Lemma entries_flush x : entries (db_flush x) = entries x.
Proof. destruct x; reflexivity. Qed.

Lemma underlying_flush x : underlying (db_flush x) = entries x.
Proof. destruct x; reflexivity. Qed.

Lemma db_get_put x r d r' :
  db_get (db_put x r d) r' = if ref_eqb r r' then Some d else db_get x r'.
Proof. unfold db_get. rewrite entries_put. reflexivity. Qed.

Lemma db_has_true x r : db_has x r = true <-> db_get x r <> None.
Proof. unfold db_has. destruct (db_get x r); split; congruence. Qed.

Lemma db_has_false x r : db_has x r = false <-> db_get x r = None.
Proof. unfold db_has. destruct (db_get x r); split; congruence. Qed.

Lemma db_has_put_mono x r d c : db_has x c = true -> db_has (db_put x r d) c = true.
Proof.
  rewrite !db_has_true, db_get_put. destruct (ref_eqb r c); congruence.
Qed.

(* ------------------------------------------------------------------ *)
(* the request list                                                    *)
(* ------------------------------------------------------------------ *)

(* r = (bucket, hash) is waited for: the request of its hash carries its bucket *)
Definition req_in (p : list req) (r : ref) : Prop :=
  exists bks, In (snd r, bks) p /\ In (fst r) bks.

Definition all_ne (p : list req) : Prop := forall k bks, In (k, bks) p -> bks <> [].

Lemma find_req_some p h bks : find_req p h = Some bks -> In (h, bks) p.
Proof.
  induction p as [|[k b] p IH]; cbn; try discriminate.
  destruct (bytes_eqb k h) eqn:E.
  - intros F; inversion F; subst. apply bytes_eqb_eq in E. subst. now left.
  - intros F. right. auto.
Qed.

Lemma find_req_none p h : find_req p h = None -> forall bks, ~ In (h, bks) p.
Proof.
  induction p as [|[k b] p IH]; cbn; auto.
  destruct (bytes_eqb k h) eqn:E; try discriminate.
  intros F bks [G | G].
  - inversion G; subst. rewrite bytes_eqb_refl in E. discriminate.
  - eapply IH; eauto.
Qed.

Lemma add_requester_none p h bk : add_requester p h bk = None -> find_req p h = None.
Proof.
  induction p as [|[k b] p IH]; cbn; auto.
  destruct (bytes_eqb k h); try discriminate.
  destruct (add_requester p h bk); try discriminate. auto.
Qed.


Lemma add_requester_req_in p h bk p' : add_requester p h bk = Some p' ->
  forall r, req_in p' r <-> req_in p r \/ r = (bk, h).
Proof.
  revert p'. induction p as [|[k b] p IH]; cbn; try discriminate.
  intros p'. destruct (bytes_eqb k h) eqn:E.
  - intros F; inversion F; subst; clear F. apply bytes_eqb_eq in E. subst k.
    intros [rb rh]; unfold req_in; cbn [fst snd]. split.
    + intros [bks [[G | G] I]].
      * inversion G; subst. apply in_app_or in I as [I | [I | []]].
        -- left. exists b. split; [now left | auto].
        -- right. now subst.
      * left. exists bks. split; [now right | auto].
    + intros [[bks [[G | G] I]] | G].
      * inversion G; subst. exists (bks ++ [bk]). split; [now left | apply in_or_app; now left].
      * exists bks. split; [now right | auto].
      * inversion G; subst. exists (b ++ [bk]). split; [now left | apply in_or_app; right; now left].
  - destruct (add_requester p h bk) as [t'|] eqn:A; try discriminate.
    intros F; inversion F; subst; clear F.
    intros r. specialize (IH t' eq_refl r). unfold req_in in *. split.
    + intros [bks [[G | G] I]].
      * left. exists bks. split; [now left | auto].
      * destruct (proj1 IH (ex_intro _ bks (conj G I))) as [[b2 [G2 I2]] | G2].
        -- left. exists b2. split; [now right | auto].
        -- now right.
    + intros [[bks [[G | G] I]] | G].
      * exists bks. split; [now left | auto].
      * destruct (proj2 IH (or_introl (ex_intro _ bks (conj G I)))) as [b2 [G2 I2]].
        exists b2. split; [now right | auto].
      * destruct (proj2 IH (or_intror G)) as [b2 [G2 I2]].
        exists b2. split; [now right | auto].
Qed.

Lemma add_requester_ne p h bk p' : add_requester p h bk = Some p' -> all_ne p -> all_ne p'.
Proof.
  revert p'. induction p as [|[k b] p IH]; cbn; try discriminate.
  intros p'. destruct (bytes_eqb k h) eqn:E.
  - intros F; inversion F; subst; clear F. intros N k' bks [G | G].
    + inversion G; subst. destruct b; discriminate.
    + eapply N. right. eauto.
  - destruct (add_requester p h bk) as [t'|] eqn:A; try discriminate.
    intros F; inversion F; subst; clear F. intros N k' bks [G | G].
    + eapply N. left. eauto.
    + eapply (IH t' eq_refl); eauto. intros k2 b2 I. eapply N. right. eauto.
Qed.

Lemma add_requester_len p h bk p' : add_requester p h bk = Some p' -> length p' = length p.
Proof.
  revert p'. induction p as [|[k b] p IH]; cbn; try discriminate.
  intros p'. destruct (bytes_eqb k h).
  - intros F; inversion F; subst. reflexivity.
  - destruct (add_requester p h bk) as [t'|]; try discriminate.
    intros F; inversion F; subst. cbn. f_equal. auto.
Qed.

Lemma insert_after_in p m r x : In x (insert_after p m r) <-> In x p \/ x = r.
Proof.
  induction p as [|[k b] p IH]; cbn.
  - split; [intros [E | []]; auto | intros [[] | E]; auto].
  - destruct (bytes_eqb k m); cbn.
    + split; [intros [E | [E | E]] | intros [[E | E] | E]]; auto.
    + rewrite IH. tauto.
Qed.

Lemma insert_after_len p m r : length (insert_after p m r) = S (length p).
Proof.
  induction p as [|[k b] p IH]; cbn; auto.
  destruct (bytes_eqb k m); cbn; auto.
Qed.

Lemma request_data_req_in p m bk h r :
  req_in (fst (request_data p m bk h)) r <-> req_in p r \/ r = (bk, h).
Proof.
  unfold request_data. destruct (add_requester p h bk) as [p'|] eqn:A.
  - cbn [fst]. eapply add_requester_req_in; eauto.
  - assert (forall q, (forall x, In x q <-> In x p \/ x = (h, [bk])) ->
                      req_in q r <-> req_in p r \/ r = (bk, h)) as K.
    { intros q Q. unfold req_in. split.
      - intros [bks [G I]]. apply Q in G as [G | G].
        + left. eauto.
        + inversion G; subst. destruct I as [I | []]. right. destruct r; cbn in *; subst; auto.
      - intros [[bks [G I]] | G].
        + exists bks. split; auto. apply Q. auto.
        + subst r. exists [bk]. split; [apply Q; now right | now left]. }
    destruct m as [m|]; cbn [fst]; apply K; intros x.
    + apply insert_after_in.
    + rewrite in_app_iff. cbn. intuition.
Qed.

Lemma request_data_ne p m bk h : all_ne p -> all_ne (fst (request_data p m bk h)).
Proof.
  unfold request_data. destruct (add_requester p h bk) as [p'|] eqn:A.
  - cbn [fst]. eapply add_requester_ne; eauto.
  - intros N. destruct m as [m|]; cbn [fst]; intros k bks I.
    + apply insert_after_in in I as [I | I]; [eapply N; eauto | inversion I; discriminate].
    + apply in_app_or in I as [I | [I | []]]; [eapply N; eauto | inversion I; discriminate].
Qed.

Lemma remove_req_in p h k bks : In (k, bks) (remove_req p h) <-> In (k, bks) p /\ k <> h.
Proof.
  unfold remove_req. rewrite filter_In. cbn [fst].
  rewrite negb_true_iff, bytes_eqb_neq. tauto.
Qed.

Lemma remove_req_req_in p h r : req_in (remove_req p h) r <-> req_in p r /\ snd r <> h.
Proof.
  unfold req_in. split.
  - intros [bks [G I]]. apply remove_req_in in G as [G F]. eauto.
  - intros [[bks [G I]] F]. exists bks. split; auto. apply remove_req_in. auto.
Qed.

Lemma remove_req_ne p h : all_ne p -> all_ne (remove_req p h).
Proof. intros N k bks I. apply remove_req_in in I as [I _]. eapply N; eauto. Qed.

(* the request list is well formed: every request has a requester, one request per hash
   (the Go code: a request is created with one requester; reqMap has one element per key) *)
Definition pend_ok (p : list req) : Prop := all_ne p /\ NoDup (map fst p).

Lemma add_requester_keys p h bk p' : add_requester p h bk = Some p' -> map fst p' = map fst p.
Proof.
  revert p'. induction p as [|[k b] p IH]; cbn; try discriminate.
  intros p'. destruct (bytes_eqb k h).
  - intros F; inversion F; subst. reflexivity.
  - destruct (add_requester p h bk) as [t'|]; try discriminate.
    intros F; inversion F; subst. cbn. f_equal. auto.
Qed.

Lemma find_req_none_keys p h : find_req p h = None -> ~ In h (map fst p).
Proof.
  intros F G. apply in_map_iff in G as [[k b] [E G]]. cbn in E. subst k.
  eapply find_req_none; eauto.
Qed.

Lemma insert_after_keys_in p m r x :
  In x (map fst (insert_after p m r)) <-> In x (map fst p) \/ x = fst r.
Proof.
  rewrite !in_map_iff. split.
  - intros [y [E G]]. apply insert_after_in in G as [G | G].
    + left. eauto.
    + right. now subst.
  - intros [[y [E G]] | E].
    + exists y. split; auto. apply insert_after_in. auto.
    + exists r. split; auto. apply insert_after_in. auto.
Qed.

Lemma insert_after_nodup p m r :
  NoDup (map fst p) -> ~ In (fst r) (map fst p) -> NoDup (map fst (insert_after p m r)).
Proof.
  induction p as [|[k b] p IH]; cbn.
  - intros _ _. constructor; [tauto | constructor].
  - intros ND NI. inversion ND; subst. destruct (bytes_eqb k m); cbn.
    + constructor.
      * cbn. intros [E | E]; [apply NI; now left | auto].
      * constructor; auto.
    + constructor.
      * intros G. apply insert_after_keys_in in G as [G | G]; auto; try (apply NI; now left).
      * apply IH; auto.
Qed.

Lemma nodup_snoc {A} (l : list A) x : NoDup l -> ~ In x l -> NoDup (l ++ [x]).
Proof.
  induction l as [|y l IH]; cbn; intros ND NI.
  - constructor; [tauto | constructor].
  - inversion ND; subst. constructor.
    + rewrite in_app_iff. cbn. intros [G | [G | []]]; auto.
    + apply IH; auto.
Qed.

Lemma request_data_ok p m bk h : pend_ok p -> pend_ok (fst (request_data p m bk h)).
Proof.
  intros [N ND]. split.
  - unfold request_data. destruct (add_requester p h bk) as [p'|] eqn:A.
    + cbn [fst]. eapply add_requester_ne; eauto.
    + destruct m as [m|]; cbn [fst]; intros k bks I.
      * apply insert_after_in in I as [I | I]; [eapply N; eauto | inversion I; discriminate].
      * apply in_app_or in I as [I | [I | []]]; [eapply N; eauto | inversion I; discriminate].
  - unfold request_data. destruct (add_requester p h bk) as [p'|] eqn:A.
    + cbn [fst]. erewrite add_requester_keys; eauto.
    + apply add_requester_none, find_req_none_keys in A.
      destruct m as [m|]; cbn [fst].
      * apply insert_after_nodup; auto.
      * rewrite map_app. cbn. apply nodup_snoc; auto.
Qed.

Lemma remove_req_ok p h : pend_ok p -> pend_ok (remove_req p h).
Proof.
  intros [N ND]. split.
  - intros k bks I. apply remove_req_in in I as [I _]. eapply N; eauto.
  - unfold remove_req. clear N. induction p as [|[k b] p IH]; cbn; auto.
    inversion ND; subst. destruct (negb (bytes_eqb k h)); cbn; auto.
    constructor; auto. intros G. apply in_map_iff in G as [[k2 b2] [E G]]. cbn in E. subst k2.
    apply filter_In in G as [G _]. apply H1. apply in_map_iff. exists (k, b2). auto.
Qed.

Lemma nodup_keys_inj (p : list req) k b1 b2 :
  NoDup (map fst p) -> In (k, b1) p -> In (k, b2) p -> b1 = b2.
Proof.
  induction p as [|[k0 b0] p IH]; cbn; try tauto.
  intros ND. inversion ND; subst. intros [E1 | E1] [E2 | E2].
  - congruence.
  - inversion E1; subst. exfalso. apply H1. apply in_map_iff. exists (k, b2). auto.
  - inversion E2; subst. exfalso. apply H1. apply in_map_iff. exists (k, b1). auto.
  - auto.
Qed.

Section P.
  Variable H : bytes -> bytes.
  Variable children : N -> bytes -> list ref.

  Notation req_missing := (req_missing).
  Notation on_data := (on_data H children).
  Notation start := (start).
  Notation step := (step H children).
  Notation run := (run H children).
  Notation run_from := (run_from H children).
  Notation op := (op).

  Definition viewS (s : state) (r : ref) : option bytes := db_get (dbs s) r.

  (* ---------------------------------------------------------------- *)
  (* what one requester / one delivery does                            *)
  (* ---------------------------------------------------------------- *)

  Lemma fold_req_missing x cs : forall acc,
    let acc' := fold_left (req_missing x) cs acc in
    (forall r, req_in (fst acc') r <-> req_in (fst acc) r \/ (In r cs /\ db_has x r = false)) /\
    (pend_ok (fst acc) -> pend_ok (fst acc')).
  Proof.
    induction cs as [|c cs IH]; intros acc; cbn.
    - split; [intros r; tauto | auto].
    - destruct (IH (req_missing x acc c)) as [IH1 IH2]. split.
      + intros r. rewrite IH1. unfold Model_Builder.req_missing.
        destruct (db_has x c) eqn:E.
        * split; [intros [G | [G G2]]; auto | intros [G | [[G | G] G2]]; auto].
          subst. congruence.
        * rewrite request_data_req_in. destruct c as [cb ch]; cbn [fst snd].
          split; intros G; intuition (subst; auto).
      + intros N. apply IH2. unfold Model_Builder.req_missing.
        destruct (db_has x c); auto. now apply request_data_ok.
  Qed.

  Definition puts (h d : bytes) (bks : list N) : store :=
    rev (map (fun bk => ((bk, h), d)) bks).

  Lemma st_find_puts h d bks r :
    st_find (puts h d bks) r =
      if bytes_eqb h (snd r) && existsb (N.eqb (fst r)) bks then Some d else None.
  Proof.
    unfold puts. induction bks as [|bk bks IH]; cbn.
    - now rewrite andb_false_r.
    - rewrite st_find_app, IH. cbn. unfold ref_eqb at 1. cbn [fst snd].
      destruct r as [rb rh]; cbn [fst snd].
      destruct (bytes_eqb h rh); cbn; [|now rewrite andb_false_r].
      rewrite andb_true_r, (N.eqb_sym bk rb).
      destruct (existsb (N.eqb rb) bks); cbn.
      + now rewrite orb_true_r.
      + rewrite orb_false_r. destruct (rb =? bk); auto.
  Qed.

  Lemma has_app_mono l e c : st_find e c <> None -> st_find (l ++ e) c <> None.
  Proof. rewrite st_find_app. destruct (st_find l c); congruence. Qed.

  Lemma fold_deliver d h bks : forall x p m,
    let res := fold_left (deliver_one children d h) bks (x, (p, m)) in
    entries (fst res) = puts h d bks ++ entries x /\
    (forall r, req_in p r -> req_in (fst (snd res)) r) /\
    (forall r, req_in (fst (snd res)) r ->
       req_in p r \/ exists bk, In bk bks /\ In r (children bk d) /\ db_has x r = false) /\
    (forall bk c, In bk bks -> In c (children bk d) ->
       db_has (fst res) c = true \/ req_in (fst (snd res)) c) /\
    (pend_ok p -> pend_ok (fst (snd res))).
  Proof.
    induction bks as [|bk bks IH]; intros x p m.
    - cbn. split; [reflexivity|]. split; [auto|]. split; [auto|]. split; [intros bk c []|auto].
    - assert (fold_left (deliver_one children d h) (bk :: bks) (x, (p, m)) =
              fold_left (deliver_one children d h) bks
                (db_put x (bk, h) d,
                 fold_left (req_missing (db_put x (bk, h) d)) (children bk d) (p, m))) as EQ
        by reflexivity.
      rewrite EQ. clear EQ.
      set (x1 := db_put x (bk, h) d).
      destruct (fold_left (req_missing x1) (children bk d) (p, m)) as [p1 m1] eqn:E.
      pose proof (fold_req_missing x1 (children bk d) (p, m)) as [F1 F2].
      rewrite E in F1, F2. cbn [fst] in F1, F2.
      specialize (IH x1 p1 m1). cbn zeta in IH.
      destruct IH as (I1 & I2 & I3 & I4 & I5).
      set (res := fold_left (deliver_one children d h) bks (x1, (p1, m1))) in *.
      assert (forall c, db_has x c = true -> db_has x1 c = true) as M1
        by (intros c; apply db_has_put_mono).
      assert (forall c, db_has x1 c = true -> db_has (fst res) c = true) as M2.
      { intros c. rewrite !db_has_true. unfold db_get. rewrite I1. apply has_app_mono. }
      split; [|split; [|split; [|split]]].
      + rewrite I1. unfold x1. rewrite entries_put. unfold puts. cbn [map rev].
        rewrite <- app_assoc. reflexivity.
      + intros r G. apply I2. apply F1. auto.
      + intros r G. apply I3 in G as [G | (b2 & G1 & G2 & G3)].
        * apply F1 in G as [G | [G1 G2]]; auto.
          right. exists bk. split; [now left|]. split; auto.
          destruct (db_has x r) eqn:Q; auto. apply M1 in Q. congruence.
        * right. exists b2. split; [now right|]. split; auto.
          destruct (db_has x r) eqn:Q; auto. apply M1 in Q. congruence.
      + intros b2 c [G | G] G2.
        * subst b2. destruct (db_has x1 c) eqn:Q.
          -- left. auto.
          -- right. apply I2. apply F1. auto.
        * apply I4 with b2; auto.
      + intros N. auto.
  Qed.

  (* an accepted delivery *)
  Lemma on_data_ok s d bks : find_req (pending s) (H d) = Some bks ->
    let s' := fst (on_data s d) in let h := H d in
    snd (on_data s d) = ROk /\
    entries (dbs s') = puts h d bks ++ entries (dbs s) /\
    (forall r, req_in (pending s') r ->
       snd r <> h /\ (req_in (pending s) r \/
                      exists bk, In bk bks /\ In r (children bk d) /\ db_has (dbs s) r = false)) /\
    (forall r, req_in (pending s) r -> snd r <> h -> req_in (pending s') r) /\
    (forall bk c, In bk bks -> In c (children bk d) ->
       db_has (dbs s') c = true \/ req_in (pending s') c \/ snd c = h) /\
    (pend_ok (pending s) -> pend_ok (pending s')) /\
    resolved s' = S (resolved s).
  Proof.
    intros F. unfold Model_Builder.on_data. rewrite F. cbn [fst snd dbs pending resolved].
    pose proof (fold_deliver d (H d) bks (dbs s) (pending s) (Some (H d))) as K.
    cbn zeta in K. destruct K as (K1 & K2 & K3 & K4 & K5).
    split; [reflexivity|]. split; [exact K1|]. split; [|split; [|split; [|split]]].
    - intros r G. apply remove_req_req_in in G as [G G2]. split; auto.
    - intros r G G2. apply remove_req_req_in. split; auto.
    - intros bk c G G2. destruct (K4 bk c G G2) as [Q | Q]; auto.
      destruct (bytes_eq_dec (snd c) (H d)) as [E | E]; auto.
      right. left. apply remove_req_req_in. auto.
    - intros N. apply remove_req_ok. auto.
    - reflexivity.
  Qed.

  (* a delivery that fails (database write or requester error): the request stays, nothing
     outstanding is dropped, nothing readable is lost, nothing is counted as resolved; if the
     FIRST write fails the builder is unchanged *)
  Lemma failed_delivery_keeps_request s d i k bks : find_req (pending s) (H d) = Some bks ->
    let s' := fst (on_data_fail H children s d i k) in
    snd (on_data_fail H children s d i k) = RFail /\
    find_req (pending s') (H d) <> None /\
    (forall r, req_in (pending s) r -> req_in (pending s') r) /\
    (forall bk, In bk bks -> req_in (pending s') (bk, H d)) /\
    (forall c, db_has (dbs s) c = true -> db_has (dbs s') c = true) /\
    resolved s' = resolved s.
  Proof.
    intros F. unfold on_data_fail. rewrite F. cbn [fst snd dbs pending resolved].
    pose proof (fold_deliver d (H d) (firstn i bks) (dbs s) (pending s) (Some (H d))) as K.
    cbn zeta in K. destruct K as (K1 & K2 & _).
    set (r := fold_left (deliver_one children d (H d)) (firstn i bks) (dbs s, (pending s, Some (H d)))) in *.
    set (r' := match k, nth_error bks i with
               | Some n, Some bk => deliver_part children d (H d) r bk n
               | _, _ => r
               end).
    assert ((forall q, req_in (fst (snd r)) q -> req_in (fst (snd r')) q) /\
            (forall c, db_has (fst r) c = true -> db_has (fst r') c = true)) as [L1 L2].
    { unfold r'. destruct k as [n|]; [|auto]. destruct (nth_error bks i) as [bk|]; [|auto].
      unfold deliver_part. cbn [fst snd]. split.
      - intros q G.
        apply (proj1 (fold_req_missing (db_put (fst r) (bk, H d) d) (firstn n (children bk d)) (snd r))).
        auto.
      - intros c. apply db_has_put_mono. }
    assert (forall q, req_in (pending s) q -> req_in (fst (snd r')) q) as KK by (intros q G; auto).
    assert (forall bk, In bk bks -> req_in (pending s) (bk, H d)) as RQ.
    { intros bk G. exists bks. split; auto. now apply find_req_some. }
    split; [reflexivity|]. split; [|split; [exact KK|split; [|split; [|reflexivity]]]].
    - intros N. destruct bks as [|bk bks].
      + (* a request without requester: nothing is run at all *)
        assert (r' = (dbs s, (pending s, Some (H d)))) as E.
        { unfold r', r. destruct k, i; reflexivity. }
        rewrite E in N. cbn [fst snd] in N. congruence.
      + destruct (KK _ (RQ bk (or_introl eq_refl))) as [b2 [I _]]. cbn [snd] in I.
        eapply find_req_none; eauto.
    - intros bk G. apply KK. auto.
    - intros c G. apply L2. revert G. rewrite !db_has_true. unfold db_get. rewrite K1. apply has_app_mono.
  Qed.

  Lemma failed_first_write_noop s d : find_req (pending s) (H d) <> None ->
    on_data_fail H children s d 0 None = (s, RFail).
  Proof.
    intros F. unfold on_data_fail. destruct (find_req (pending s) (H d)); [|congruence].
    cbn. destruct s; reflexivity.
  Qed.

  Lemma on_data_ignored s d : find_req (pending s) (H d) = None -> on_data s d = (s, RNoRequester).
  Proof. intros F. unfold Model_Builder.on_data. now rewrite F. Qed.

  Lemma on_data_view s d bks : find_req (pending s) (H d) = Some bks -> forall r,
    viewS (fst (on_data s d)) r =
      if bytes_eqb (H d) (snd r) && existsb (N.eqb (fst r)) bks then Some d else viewS s r.
  Proof.
    intros F r. destruct (on_data_ok s d bks F) as (_ & E & _).
    unfold viewS, db_get. rewrite E, st_find_app, st_find_puts.
    destruct (bytes_eqb (H d) (snd r) && existsb (N.eqb (fst r)) bks); auto.
  Qed.

  Lemma start_view s r c : viewS (start s r) c = viewS s c.
  Proof. reflexivity. Qed.

  Lemma start_req_in s r c :
    req_in (pending (start s r)) c <-> req_in (pending s) c \/ (c = r /\ db_has (dbs s) r = false).
  Proof.
    unfold Model_Builder.start, Model_Builder.req_missing. cbn [pending fst snd].
    destruct (db_has (dbs s) r) eqn:E.
    - cbn [fst]. split; [auto | intros [G | [_ G]]; [auto | discriminate]].
    - rewrite request_data_req_in. destruct r as [rb rh]; cbn [fst snd]. tauto.
  Qed.

  Lemma start_ne s r : pend_ok (pending s) -> pend_ok (pending (start s r)).
  Proof.
    unfold Model_Builder.start, Model_Builder.req_missing. cbn [pending fst snd].
    destruct (db_has (dbs s) r); cbn [fst]; auto. apply request_data_ok.
  Qed.

  (* ---------------------------------------------------------------- *)
  (* C20_stores_only_requested, step level (any state)                 *)
  (* ---------------------------------------------------------------- *)

  Lemma existsb_eqb_in x l : existsb (N.eqb x) l = true <-> In x l.
  Proof.
    rewrite existsb_exists. split.
    - intros [y [G E]]. apply N.eqb_eq in E. now subst.
    - intros G. exists x. split; auto. apply N.eqb_refl.
  Qed.

  Lemma stores_only_requested_step s d r x :
    viewS (fst (on_data s d)) r = Some x ->
    viewS s r = Some x \/ (x = d /\ H d = snd r /\ req_in (pending s) r).
  Proof.
    destruct (find_req (pending s) (H d)) as [bks|] eqn:F.
    - rewrite (on_data_view s d bks F).
      destruct (bytes_eqb (H d) (snd r) && existsb (N.eqb (fst r)) bks) eqn:E; auto.
      apply andb_true_iff in E as [E1 E2]. apply bytes_eqb_eq in E1. apply existsb_eqb_in in E2.
      intros G; inversion G; subst. right. repeat split; auto.
      exists bks. rewrite <- E1. split; auto. now apply find_req_some.
    - rewrite on_data_ignored by auto. auto.
  Qed.

  (* ---------------------------------------------------------------- *)
  (* the DAG described by the stored bytes                             *)
  (* ---------------------------------------------------------------- *)

  Inductive closure (v : ref -> option bytes) (R : list ref) : ref -> Prop :=
  | cl_root r : In r R -> closure v R r
  | cl_child p d c : closure v R p -> v p = Some d -> In c (children (fst p) d) -> closure v R c.

  Lemma closure_mono v v' R R' r :
    (forall q d, v q = Some d -> v' q = Some d) -> incl R R' ->
    closure v R r -> closure v' R' r.
  Proof.
    intros Mv MR C. induction C.
    - apply cl_root. auto.
    - eapply cl_child; eauto.
  Qed.

  Definition complete (s : state) (R : list ref) : Prop :=
    forall r, closure (viewS s) R r -> db_has (dbs s) r = true.

  Definition roots_of (h : list op) : list ref :=
    flat_map (fun o => match o with OStart r => [r] | _ => [] end) h.
  Definition datas_of (h : list op) : list bytes :=
    flat_map (fun o => match o with OData d => [d] | _ => [] end) h.

  Lemma roots_of_app a b : roots_of (a ++ b) = roots_of a ++ roots_of b.
  Proof. unfold roots_of. now rewrite flat_map_app. Qed.
  Lemma datas_of_app a b : datas_of (a ++ b) = datas_of a ++ datas_of b.
  Proof. unfold datas_of. now rewrite flat_map_app. Qed.

  Lemma in_datas_of h d : In d (datas_of h) <-> In (OData d) h.
  Proof.
    unfold datas_of. rewrite in_flat_map. split.
    - intros [o [G I]]. destruct o; cbn in I; try tauto. destruct I as [I | []]. now subst.
    - intros G. exists (OData d). split; auto. now left.
  Qed.
  Lemma in_roots_of h r : In r (roots_of h) <-> In (OStart r) h.
  Proof.
    unfold roots_of. rewrite in_flat_map. split.
    - intros [o [G I]]. destruct o; cbn in I; try tauto. destruct I as [I | []]. now subst.
    - intros G. exists (OStart r). split; auto. now left.
  Qed.

  (* ---------------------------------------------------------------- *)
  (* invariants                                                        *)
  (* ---------------------------------------------------------------- *)

  (* A: requests carry at least one bucket; nothing that is waited for is stored *)
  Definition invA (s : state) : Prop :=
    pend_ok (pending s) /\ forall r, req_in (pending s) r -> db_has (dbs s) r = false.

  (* B: whatever is waited for or was stored by the builder is reachable from the roots
     through stored bytes, hashes to its key and was delivered *)
  Definition invB (b0 : store) (R : list ref) (D : list bytes) (s : state) : Prop :=
    (forall r, req_in (pending s) r -> closure (viewS s) R r) /\
    (forall r x, viewS s r = Some x ->
       st_find b0 r = Some x \/ (H x = snd r /\ closure (viewS s) R r /\ In x D)).

  (* C: no holes — every reference of a stored node and every root is stored or waited for *)
  Definition invC (R : list ref) (s : state) : Prop :=
    (forall r d, viewS s r = Some d -> forall c, In c (children (fst r) d) ->
       db_has (dbs s) c = true \/ req_in (pending s) c) /\
    (forall r, In r R -> db_has (dbs s) r = true \/ req_in (pending s) r).

  (* the anomaly that breaks C: a node that refers to its own hash *)
  Definition self_ref : Prop := exists bk d c, In c (children bk d) /\ snd c = H d.
  Definition collision : Prop := exists a b : bytes, a <> b /\ H a = H b.

  Definition closed_store (b0 : store) : Prop :=
    forall r d, st_find b0 r = Some d -> forall c, In c (children (fst r) d) -> st_find b0 c <> None.
  Definition wellkeyed (b0 : store) : Prop :=
    forall r d, st_find b0 r = Some d -> H d = snd r.

  (* view of an accepted delivery, given A *)
  Lemma on_data_view_old s d bks : find_req (pending s) (H d) = Some bks -> invA s ->
    forall r x, viewS s r = Some x -> viewS (fst (on_data s d)) r = Some x.
  Proof.
    intros F [_ A2] r x V. rewrite (on_data_view s d bks F).
    destruct (bytes_eqb (H d) (snd r) && existsb (N.eqb (fst r)) bks) eqn:E; auto.
    apply andb_true_iff in E as [E1 E2]. apply bytes_eqb_eq in E1. apply existsb_eqb_in in E2.
    assert (req_in (pending s) r) as Q.
    { exists bks. rewrite <- E1. split; auto. now apply find_req_some. }
    apply A2 in Q. apply db_has_false in Q. unfold viewS in V. congruence.
  Qed.

  Lemma on_data_has_mono s d c : db_has (dbs s) c = true -> db_has (dbs (fst (on_data s d))) c = true.
  Proof.
    destruct (find_req (pending s) (H d)) as [bks|] eqn:F.
    - destruct (on_data_ok s d bks F) as (_ & E & _).
      rewrite !db_has_true. unfold db_get. rewrite E. apply has_app_mono.
    - rewrite on_data_ignored by auto. auto.
  Qed.

  Lemma on_data_has_other s d c : snd c <> H d ->
    db_has (dbs (fst (on_data s d))) c = db_has (dbs s) c.
  Proof.
    intros N. destruct (find_req (pending s) (H d)) as [bks|] eqn:F.
    - pose proof (on_data_view s d bks F c) as V. unfold viewS in V.
      unfold db_has. rewrite V.
      destruct (bytes_eqb (H d) (snd c)) eqn:E; cbn; auto.
      apply bytes_eqb_eq in E. congruence.
    - rewrite on_data_ignored by auto. auto.
  Qed.

  Lemma invA_on_data s d : invA s -> invA (fst (on_data s d)).
  Proof.
    intros A. destruct (find_req (pending s) (H d)) as [bks|] eqn:F.
    - destruct (on_data_ok s d bks F) as (_ & E & P1 & P2 & P3 & P4 & _).
      destruct A as [A1 A2]. split; auto.
      intros r G. apply P1 in G as [N G]. rewrite on_data_has_other by auto.
      destruct G as [G | (bk & _ & _ & G)]; auto.
    - rewrite on_data_ignored by auto. auto.
  Qed.

  Lemma invA_start s r : invA s -> invA (start s r).
  Proof.
    intros [A1 A2]. split.
    - now apply start_ne.
    - intros c G. apply start_req_in in G as [G | [-> G]]; auto.
  Qed.

  Lemma invA_step s o : invA s -> invA (fst (step s o)).
  Proof.
    destruct o; cbn [Model_Builder.step fst]; intros A; auto using invA_on_data, invA_start.
    destruct A as [A1 A2]. split; auto. cbn [pending dbs].
    intros r G. apply A2 in G. unfold db_has, db_get in *. now rewrite entries_flush.
  Qed.

  Lemma invB_on_data b0 R D s d : invA s -> invB b0 R D s -> invB b0 R (D ++ [d]) (fst (on_data s d)).
  Proof.
    intros A [B1 B2]. destruct (find_req (pending s) (H d)) as [bks|] eqn:F.
    - destruct (on_data_ok s d bks F) as (_ & E & P1 & P2 & P3 & P4 & _).
      pose proof (on_data_view_old s d bks F A) as VO.
      assert (forall bk, In bk bks -> closure (viewS s) R (bk, H d)) as CB.
      { intros bk G. apply B1. exists bks. split; auto. now apply find_req_some. }
      assert (forall bk, In bk bks -> viewS (fst (on_data s d)) (bk, H d) = Some d) as VN.
      { intros bk G. rewrite (on_data_view s d bks F). cbn [fst snd].
        rewrite bytes_eqb_refl. cbn. apply existsb_eqb_in in G. now rewrite G. }
      split.
      + intros r G. apply P1 in G as [N [G | (bk & G1 & G2 & G3)]].
        * eapply closure_mono; [exact VO | apply incl_refl | auto].
        * eapply cl_child with (p := (bk, H d)); [| apply VN; auto | exact G2].
          eapply closure_mono; [exact VO | apply incl_refl | auto].
      + intros r x V. rewrite (on_data_view s d bks F) in V.
        destruct (bytes_eqb (H d) (snd r) && existsb (N.eqb (fst r)) bks) eqn:Q.
        * inversion V; subst x. apply andb_true_iff in Q as [Q1 Q2].
          apply bytes_eqb_eq in Q1. apply existsb_eqb_in in Q2.
          right. repeat split; auto.
          -- destruct r as [rb rh]; cbn [fst snd] in *. subst rh.
             eapply closure_mono; [exact VO | apply incl_refl | auto].
          -- apply in_or_app. right. now left.
        * apply B2 in V as [V | (V1 & V2 & V3)]; auto. right. repeat split; auto.
          -- eapply closure_mono; [exact VO | apply incl_refl | auto].
          -- apply in_or_app. now left.
    - rewrite on_data_ignored by auto. cbn [fst]. split; auto.
      intros r x V. apply B2 in V as [V | (V1 & V2 & V3)]; auto. right. repeat split; auto.
      apply in_or_app. now left.
  Qed.

  Lemma invB_start b0 R D s r : invB b0 R D s -> invB b0 (R ++ [r]) D (start s r).
  Proof.
    intros [B1 B2]. split.
    - intros c G. apply start_req_in in G as [G | [-> G]].
      + eapply closure_mono; [ | | apply B1; exact G]; auto. apply incl_appl, incl_refl.
      + apply cl_root. apply in_or_app. right. now left.
    - intros c x V. change (viewS s c = Some x) in V.
      apply B2 in V as [V | (V1 & V2 & V3)]; auto. right. repeat split; auto.
      eapply closure_mono; [ | | exact V2]; auto. apply incl_appl, incl_refl.
  Qed.

  Lemma viewS_flush s c :
    viewS {| dbs := db_flush (dbs s); pending := pending s; resolved := resolved s |} c = viewS s c.
  Proof. unfold viewS, db_get. cbn [dbs]. now rewrite entries_flush. Qed.

  Lemma closure_ext v v' R r : (forall q, v q = v' q) -> closure v R r -> closure v' R r.
  Proof. intros E. apply closure_mono; [intros q d; now rewrite E | apply incl_refl]. Qed.

  Lemma invB_step b0 R D s o : invA s -> invB b0 R D s ->
    invB b0 (R ++ roots_of [o]) (D ++ datas_of [o]) (fst (step s o)).
  Proof.
    intros A B. destruct o; cbn [Model_Builder.step fst roots_of datas_of flat_map]; rewrite ?app_nil_r.
    - now apply invB_start.
    - now apply invB_on_data.
    - exact B.
    - destruct B as [B1 B2]. split.
      + intros r G. eapply closure_ext; [intros q; symmetry; apply viewS_flush | auto].
      + intros r x V. rewrite viewS_flush in V.
        apply B2 in V as [V | (V1 & V2 & V3)]; auto. right. repeat split; auto.
        eapply closure_ext; [intros q; symmetry; apply viewS_flush | auto].
  Qed.

  (* C is kept by a delivery unless the node refers to its own hash *)
  Lemma invC_on_data R s d : invA s -> invC R s -> invC R (fst (on_data s d)) \/ self_ref.
  Proof.
    intros A [C1 C2]. destruct (find_req (pending s) (H d)) as [bks|] eqn:F.
    2:{ rewrite on_data_ignored by auto. left. split; auto. }
    destruct (existsb (fun bk => existsb (fun c => bytes_eqb (snd c) (H d)) (children bk d)) bks) eqn:SR.
    { right. apply existsb_exists in SR as [bk [_ G]]. apply existsb_exists in G as [c [G E]].
      apply bytes_eqb_eq in E. exists bk, d, c. auto. }
    assert (forall bk c, In bk bks -> In c (children bk d) -> snd c <> H d) as NS.
    { intros bk c G1 G2 E.
      assert (existsb (fun bk => existsb (fun c => bytes_eqb (snd c) (H d)) (children bk d)) bks = true);
        [|congruence].
      apply existsb_exists. exists bk. split; auto. apply existsb_exists. exists c. split; auto.
      now apply bytes_eqb_eq. }
    left.
    destruct (on_data_ok s d bks F) as (_ & E & P1 & P2 & P3 & P4 & _).
    assert (forall c, db_has (dbs s) c = true \/ req_in (pending s) c ->
                      db_has (dbs (fst (on_data s d))) c = true \/
                      req_in (pending (fst (on_data s d))) c) as K.
    { intros c [G | G].
      - left. now apply on_data_has_mono.
      - destruct (bytes_eq_dec (snd c) (H d)) as [Q | Q].
        + left. destruct G as [b2 [G1 G2]]. rewrite Q in G1.
          assert (b2 = bks) as ->.
          { eapply nodup_keys_inj; [apply A | exact G1 | now apply find_req_some]. }
          apply db_has_true. change (viewS (fst (on_data s d)) c <> None).
          rewrite (on_data_view s d bks F), Q, bytes_eqb_refl.
          apply existsb_eqb_in in G2. rewrite G2. cbn. discriminate.
        + right. apply P2; auto. }
    split.
    - intros r x V c G. rewrite (on_data_view s d bks F) in V.
      destruct (bytes_eqb (H d) (snd r) && existsb (N.eqb (fst r)) bks) eqn:Q.
      + inversion V; subst x. apply andb_true_iff in Q as [Q1 Q2]. apply existsb_eqb_in in Q2.
        destruct (P3 (fst r) c Q2 G) as [T | [T | T]]; auto. exfalso. eapply NS; eauto.
      + apply K. eapply C1; eauto.
    - intros r G. apply K. apply C2; auto.
  Qed.

  Lemma invC_start R s r : invC R s -> invC (R ++ [r]) (start s r).
  Proof.
    intros [C1 C2]. split.
    - intros q x V c G. change (viewS s q = Some x) in V.
      destruct (C1 q x V c G) as [T | T]; [left; exact T | right; apply start_req_in; auto].
    - intros q G. apply in_app_or in G as [G | [G | []]].
      + destruct (C2 q G) as [T | T]; [left; exact T | right; apply start_req_in; auto].
      + subst q. destruct (db_has (dbs s) r) eqn:E.
        * left. exact E.
        * right. apply start_req_in. auto.
  Qed.

  Lemma db_has_flush x c : db_has (db_flush x) c = db_has x c.
  Proof. unfold db_has, db_get. now rewrite entries_flush. Qed.

  Lemma invC_step R s o : invA s -> invC R s -> invC (R ++ roots_of [o]) (fst (step s o)) \/ self_ref.
  Proof.
    intros A C. destruct o; cbn [Model_Builder.step fst roots_of flat_map]; rewrite ?app_nil_r.
    - left. now apply invC_start.
    - now apply invC_on_data.
    - now left.
    - left. destruct C as [C1 C2]. split.
      + intros r x V c G. rewrite viewS_flush in V. cbn [dbs pending]. rewrite db_has_flush. eauto.
      + intros r G. cbn [dbs pending]. rewrite db_has_flush. auto.
  Qed.

  (* ---------------------------------------------------------------- *)
  (* all histories                                                     *)
  (* ---------------------------------------------------------------- *)

  Lemma run_snoc b0 h o : run b0 (h ++ [o]) = fst (step (run b0 h) o).
  Proof. unfold Model_Builder.run, Model_Builder.run_from. now rewrite fold_left_app. Qed.

  Lemma view_init b0 r : viewS (init (Layered [] b0)) r = st_find b0 r.
  Proof. reflexivity. Qed.

  Lemma run_invA b0 h : invA (run b0 h).
  Proof.
    induction h as [|o h IH] using rev_ind.
    - split; [split; [intros k bks [] | constructor] | intros r [bks [[] _]]].
    - rewrite run_snoc. now apply invA_step.
  Qed.

  Lemma run_invB b0 h : invB b0 (roots_of h) (datas_of h) (run b0 h).
  Proof.
    induction h as [|o h IH] using rev_ind.
    - split; [intros r [bks [[] _]] | intros r x V; left; exact V].
    - rewrite run_snoc, roots_of_app, datas_of_app. apply invB_step; auto. apply run_invA.
  Qed.

  Lemma run_invC b0 h : closed_store b0 -> invC (roots_of h) (run b0 h) \/ self_ref.
  Proof.
    intros CL. induction h as [|o h IH] using rev_ind.
    - left. split; [|intros r []].
      intros r d V c G. left. apply db_has_true. change (viewS (init (Layered [] b0)) c <> None).
      rewrite view_init in *. eapply CL; eauto.
    - destruct IH as [IH | IH]; [|now right].
      rewrite run_snoc, roots_of_app. apply invC_step; auto. apply run_invA.
  Qed.

  (* ---------- C20_stores_only_requested ---------- *)

  Lemma stores_only_requested b0 h r x : viewS (run b0 h) r = Some x ->
    st_find b0 r = Some x \/
    (H x = snd r /\ closure (viewS (run b0 h)) (roots_of h) r /\ In (OData x) h).
  Proof.
    intros V. destruct (run_invB b0 h) as [_ B2]. apply B2 in V as [V | (V1 & V2 & V3)]; auto.
    right. repeat split; auto. now apply in_datas_of.
  Qed.

  Lemma pending_reachable b0 h r : req_in (pending (run b0 h)) r ->
    closure (viewS (run b0 h)) (roots_of h) r /\ db_has (dbs (run b0 h)) r = false.
  Proof.
    intros G. split.
    - now apply (run_invB b0 h).
    - now apply (run_invA b0 h).
  Qed.

  (* before Flush the target database itself is not written at all *)
  Definition shape (x : db) : option store :=
    match x with Layered _ b => Some b | Direct _ => None end.

  Lemma shape_put x r d : shape (db_put x r d) = shape x.
  Proof. destruct x; reflexivity. Qed.

  Lemma shape_fold_deliver d h bks : forall acc,
    shape (fst (fold_left (deliver_one children d h) bks acc)) = shape (fst acc).
  Proof.
    induction bks as [|bk bks IH]; intros acc; cbn [fold_left]; auto.
    rewrite IH. unfold deliver_one. cbn [fst]. apply shape_put.
  Qed.

  Lemma shape_on_data s d : shape (dbs (fst (on_data s d))) = shape (dbs s).
  Proof.
    destruct (find_req (pending s) (H d)) as [bks|] eqn:F.
    - unfold Model_Builder.on_data. rewrite F. cbn [fst dbs]. now rewrite shape_fold_deliver.
    - rewrite on_data_ignored by auto. reflexivity.
  Qed.

  Lemma underlying_untouched b0 h : ~ In OFlush h -> underlying (dbs (run b0 h)) = b0.
  Proof.
    intros NF. assert (shape (dbs (run b0 h)) = Some b0) as S.
    { induction h as [|o h IH] using rev_ind.
      - reflexivity.
      - rewrite run_snoc.
        assert (~ In OFlush h) as NF2 by (intros G; apply NF, in_or_app; now left).
        specialize (IH NF2). destruct o; cbn [Model_Builder.step fst]; auto.
        + now rewrite shape_on_data.
        + exfalso. apply NF, in_or_app. right. now left. }
    destruct (dbs (run b0 h)); cbn in *; congruence.
  Qed.

  (* ---------- C20_done_iff_complete ---------- *)

  Lemma done_iff_complete_inv R s : invA s -> invC R s ->
    (forall r, req_in (pending s) r -> closure (viewS s) R r) ->
    (unresolved s = 0%nat <-> complete s R).
  Proof.
    intros [[A0 _] A2] [C1 C2] B1. unfold unresolved. split.
    - intros L. apply length_zero_iff_nil in L.
      assert (forall r, ~ req_in (pending s) r) as NP by (rewrite L; intros r [bks [[] _]]).
      intros r C. induction C as [r G | p d c Cp IH V G].
      + destruct (C2 r G) as [T | T]; auto. exfalso. eapply NP; eauto.
      + destruct (C1 p d V c G) as [T | T]; auto. exfalso. eapply NP; eauto.
    - intros CP. destruct (pending s) as [|[k bks] t] eqn:E; auto. exfalso.
      destruct bks as [|bk bks]; [eapply A0; [now left | reflexivity] |].
      assert (req_in ((k, bk :: bks) :: t) (bk, k)) as Q.
      { exists (bk :: bks). cbn [fst snd]. split; now left. }
      pose proof (A2 _ Q) as NH. pose proof (CP _ (B1 _ Q)) as YH. congruence.
  Qed.

  Lemma done_iff_complete b0 h : closed_store b0 ->
    (unresolved (run b0 h) = 0%nat <-> complete (run b0 h) (roots_of h)) \/ self_ref.
  Proof.
    intros CL. destruct (run_invC b0 h CL) as [C | C]; [left | now right].
    apply done_iff_complete_inv; auto using run_invA. apply (run_invB b0 h).
  Qed.

  (* ---------- C20_rebuilt_is_trusted ---------- *)

  Lemma done_trusted b0 h : closed_store b0 -> wellkeyed b0 -> unresolved (run b0 h) = 0%nat ->
    (forall r, closure (viewS (run b0 h)) (roots_of h) r ->
       exists d, viewS (run b0 h) r = Some d /\ H d = snd r) \/ self_ref.
  Proof.
    intros CL WK U. destruct (done_iff_complete b0 h CL) as [E | E]; [left | now right].
    intros r C. apply E in U. apply U in C. apply db_has_true in C.
    change (viewS (run b0 h) r <> None) in C.
    destruct (viewS (run b0 h) r) as [d|] eqn:V; [|congruence]. exists d. split; auto.
    apply stores_only_requested in V as [V | (V & _)]; auto.
  Qed.

  (* two stores that both hold, for the same roots, a complete DAG of correctly keyed nodes
     hold the SAME DAG — or two different byte strings with one hash are in hand *)
  Lemma closure_unique (v1 v2 : ref -> option bytes) R :
    (forall r, closure v1 R r -> exists d, v1 r = Some d /\ H d = snd r) ->
    (forall r, closure v2 R r -> exists d, v2 r = Some d /\ H d = snd r) ->
    forall r, closure v1 R r -> (closure v2 R r /\ v1 r = v2 r) \/ collision.
  Proof.
    intros W1 W2 r C.
    assert (forall q, closure v1 R q -> closure v2 R q -> v1 q = v2 q \/ collision) as SAME.
    { intros q Q1 Q2. destruct (W1 q Q1) as [d1 [E1 K1]]. destruct (W2 q Q2) as [d2 [E2 K2]].
      destruct (bytes_eq_dec d1 d2) as [E | E].
      - left. congruence.
      - right. exists d1, d2. split; auto. congruence. }
    induction C as [r G | p d c Cp IH V G].
    - assert (closure v2 R r) as Q2 by now apply cl_root.
      destruct (SAME r (cl_root v1 R r G) Q2) as [E | E]; auto.
    - destruct IH as [[Q2 E] | IH]; [|now right].
      assert (closure v2 R c) as Qc by (eapply cl_child; [exact Q2 | rewrite <- E; exact V | exact G]).
      destruct (SAME c (cl_child v1 R p d c Cp V G) Qc) as [E2 | E2]; auto.
  Qed.

  (* the store rebuilt by a finished sync equals, node by node, ANY correctly keyed complete
     store of the same roots (e.g. the database of the peer the state was copied from) *)
  Lemma rebuilt_in_source b0 h (src : ref -> option bytes) r :
    closed_store b0 -> wellkeyed b0 -> unresolved (run b0 h) = 0%nat ->
    (forall q, closure src (roots_of h) q -> exists d, src q = Some d /\ H d = snd q) ->
    closure (viewS (run b0 h)) (roots_of h) r ->
    (closure src (roots_of h) r /\ viewS (run b0 h) r = src r) \/ collision \/ self_ref.
  Proof.
    intros CL WK U WS C. destruct (done_trusted b0 h CL WK U) as [T | T]; [|now right; right].
    destruct (closure_unique _ _ _ T WS r C) as [E | E]; auto.
  Qed.

  Lemma source_in_rebuilt b0 h (src : ref -> option bytes) r :
    closed_store b0 -> wellkeyed b0 -> unresolved (run b0 h) = 0%nat ->
    (forall q, closure src (roots_of h) q -> exists d, src q = Some d /\ H d = snd q) ->
    closure src (roots_of h) r ->
    (closure (viewS (run b0 h)) (roots_of h) r /\ src r = viewS (run b0 h) r) \/ collision \/ self_ref.
  Proof.
    intros CL WK U WS C. destruct (done_trusted b0 h CL WK U) as [T | T]; [|now right; right].
    destruct (closure_unique _ _ _ WS T r C) as [E | E]; auto.
  Qed.

  (* Flush(true) makes the target database equal to what the builder showed *)
  Lemma flush_commits s : let s' := fst (step s OFlush) in
    (forall r, st_find (underlying (dbs s')) r = viewS s r) /\
    (forall r, viewS s' r = viewS s r) /\ pending s' = pending s /\ resolved s' = resolved s.
  Proof.
    cbn [Model_Builder.step fst dbs pending resolved]. repeat split.
    - intros r. now rewrite underlying_flush.
    - intros r. apply viewS_flush.
  Qed.

  (* ---------------------------------------------------------------- *)
  (* C20_progress                                                      *)
  (* ---------------------------------------------------------------- *)

  Definition dom (s : store) : list ref := nodup ref_eq_dec (map fst s).

  Lemma in_dom s r : In r (dom s) <-> st_find s r <> None.
  Proof.
    unfold dom. rewrite nodup_In, in_map_iff. split.
    - intros [[k v] [E G]]. cbn in E. subst k. eapply in_st_find; eauto.
    - intros G. destruct (st_find s r) as [d|] eqn:E; [|congruence].
      exists (r, d). split; auto. now apply st_find_in.
  Qed.

  (* nodes of the source that the target does not hold yet *)
  Definition missing (src : store) (x : db) : nat :=
    length (filter (fun r => negb (db_has x r)) (dom src)).

  Lemma filter_len_le {A} (f g : A -> bool) l :
    (forall y, g y = true -> f y = true) -> (length (filter g l) <= length (filter f l))%nat.
  Proof.
    intros M. induction l as [|y l IH]; cbn; auto.
    destruct (g y) eqn:G.
    - rewrite (M y G). cbn. lia.
    - destruct (f y); cbn; lia.
  Qed.

  Lemma filter_len_lt {A} (f g : A -> bool) l x :
    (forall y, g y = true -> f y = true) -> In x l -> f x = true -> g x = false ->
    (length (filter g l) < length (filter f l))%nat.
  Proof.
    intros M. induction l as [|y l IH]; cbn; [tauto|].
    intros [E | E] F G.
    - subst y. rewrite F, G. cbn. pose proof (filter_len_le f g l M). lia.
    - specialize (IH E F G). destruct (g y) eqn:Gy.
      + rewrite (M y Gy). cbn. lia.
      + destruct (f y); cbn; lia.
  Qed.

  Lemma filter_len_bound {A} (f : A -> bool) l : (length (filter f l) <= length l)%nat.
  Proof. induction l as [|y l IH]; cbn; auto. destruct (f y); cbn; lia. Qed.

  Lemma forallb_false {A} (f : A -> bool) l : forallb f l = false -> exists x, In x l /\ f x = false.
  Proof.
    induction l as [|y l IH]; cbn; [discriminate|].
    destruct (f y) eqn:E; cbn.
    - intros G. destruct (IH G) as [x [I F]]. eauto.
    - intros _. eauto.
  Qed.

  Section Source.
    Variable src : store.
    Hypothesis src_keyed : wellkeyed src.
    Hypothesis src_closed : closed_store src.

    (* S: the target only holds, and only waits for, nodes of the source *)
    Definition invS (s : state) : Prop :=
      (forall r d, viewS s r = Some d -> st_find src r = Some d) /\
      (forall r, req_in (pending s) r -> st_find src r <> None).

    Definition bound (s : state) : Prop :=
      (resolved s + missing src (dbs s) <= length (dom src))%nat.

    (* an accepted delivery: either it is the source's node — then S is kept and one more
       source node is held — or it is a second preimage of a requested hash *)
    Lemma accepted_step s d bks : invA s -> invS s -> find_req (pending s) (H d) = Some bks ->
      (invS (fst (on_data s d)) /\
       (missing src (dbs (fst (on_data s d))) < missing src (dbs s))%nat) \/ collision.
    Proof.
      intros A [S1 S2] F.
      assert (forall bk, In bk bks -> req_in (pending s) (bk, H d)) as RQ.
      { intros bk G. exists bks. split; auto. now apply find_req_some. }
      destruct (forallb (fun bk => match st_find src (bk, H d) with
                                   | Some d' => bytes_eqb d' d | None => false end) bks) eqn:Q.
      2:{ right. apply forallb_false in Q as [bk [G Q]].
          pose proof (S2 _ (RQ bk G)) as NN.
          destruct (st_find src (bk, H d)) as [d'|] eqn:E; [|congruence].
          apply bytes_eqb_neq in Q. exists d', d. split; auto.
          apply src_keyed in E. exact E. }
      left.
      assert (forall bk, In bk bks -> st_find src (bk, H d) = Some d) as SD.
      { intros bk G. rewrite forallb_forall in Q. specialize (Q bk G).
        destruct (st_find src (bk, H d)) as [d'|]; [|discriminate].
        apply bytes_eqb_eq in Q. now subst. }
      destruct (on_data_ok s d bks F) as (_ & E & P1 & P2 & P3 & P4 & _).
      split; [split|].
      - intros r x V. rewrite (on_data_view s d bks F) in V.
        destruct (bytes_eqb (H d) (snd r) && existsb (N.eqb (fst r)) bks) eqn:T; auto.
        inversion V; subst x. apply andb_true_iff in T as [T1 T2].
        apply bytes_eqb_eq in T1. apply existsb_eqb_in in T2.
        destruct r as [rb rh]; cbn [fst snd] in *. subst rh. auto.
      - intros r G. apply P1 in G as [_ [G | (bk & G1 & G2 & _)]]; auto.
        eapply src_closed; [apply (SD bk G1) | exact G2].
      - destruct A as [[A0 _] A2].
        destruct bks as [|bk0 bks']; [exfalso; eapply A0; [eapply find_req_some; eauto | reflexivity]|].
        unfold missing. eapply filter_len_lt with (x := (bk0, H d)).
        + intros y. rewrite !negb_true_iff. intros G.
          destruct (db_has (dbs s) y) eqn:Y; auto. apply (on_data_has_mono s d) in Y. congruence.
        + apply in_dom. rewrite SD; [discriminate | now left].
        + rewrite negb_true_iff. apply A2. apply RQ. now left.
        + rewrite negb_false_iff. apply db_has_true.
          change (viewS (fst (on_data s d)) (bk0, H d) <> None).
          rewrite (on_data_view s d _ F). cbn [fst snd]. rewrite bytes_eqb_refl. cbn.
          rewrite N.eqb_refl. cbn. discriminate.
    Qed.

    Definition invG (s : state) : Prop := invA s /\ invS s /\ bound s.

    Lemma invG_on_data s d : invG s -> invG (fst (on_data s d)) \/ collision.
    Proof.
      intros (A & S & B). destruct (find_req (pending s) (H d)) as [bks|] eqn:F.
      - destruct (accepted_step s d bks A S F) as [[S' M] | C]; [left | now right].
        split; [now apply invA_on_data | split; auto].
        destruct (on_data_ok s d bks F) as (_ & _ & _ & _ & _ & _ & R).
        unfold bound in *. rewrite R. lia.
      - rewrite on_data_ignored by auto. left. cbn [fst]. split; [exact A | split; [exact S | exact B]].
    Qed.

    Lemma invG_step s o : invG s ->
      (forall r, o = OStart r -> st_find src r <> None) ->
      invG (fst (step s o)) \/ collision.
    Proof.
      intros G OK. destruct o; cbn [Model_Builder.step fst].
      - left. destruct G as (A & [S1 S2] & B). split; [now apply invA_start | split].
        + split; [exact S1|]. intros c Q. apply start_req_in in Q as [Q | [-> Q]]; auto.
        + exact B.
      - now apply invG_on_data.
      - now left.
      - left. destruct G as (A & [S1 S2] & B). split; [apply (invA_step s OFlush A) | split].
        + split; [|exact S2]. intros r x V. rewrite viewS_flush in V. auto.
        + unfold bound, missing in *. cbn [dbs resolved].
          erewrite filter_ext; [exact B|]. intros r. cbn. now rewrite db_has_flush.
    Qed.

    Lemma run_invG b0 h :
      (forall r d, st_find b0 r = Some d -> st_find src r = Some d) ->
      (forall r, In (OStart r) h -> st_find src r <> None) ->
      invG (run b0 h) \/ collision.
    Proof.
      intros SUB RT. induction h as [|o h IH] using rev_ind.
      - left. split; [apply (run_invA b0 []) | split].
        + split; [intros r d V; apply SUB; exact V | intros r [bks [[] _]]].
        + unfold bound, missing. cbn [resolved Model_Builder.run Model_Builder.run_from fold_left init].
          apply filter_len_bound.
      - assert (forall r, In (OStart r) h -> st_find src r <> None) as PRE.
        { intros r G. apply RT. apply in_or_app. now left. }
        specialize (IH PRE). destruct IH as [IH | IH]; [|now right].
        rewrite run_snoc. apply invG_step; auto.
        intros r ->. apply RT. apply in_or_app. right. now left.
    Qed.

    (* every outstanding request can be answered from the source, and the answer is accepted *)
    Lemma answerable s k bks t : invG s -> pending s = (k, bks) :: t ->
      exists bk d, In bk bks /\ st_find src (bk, k) = Some d /\ snd (on_data s d) = ROk.
    Proof.
      intros ([[A0 _] _] & [_ S2] & _) E.
      destruct bks as [|bk bks]; [exfalso; eapply A0; [rewrite E; now left | reflexivity]|].
      assert (req_in (pending s) (bk, k)) as Q.
      { rewrite E. exists (bk :: bks). cbn [fst snd]. split; now left. }
      apply S2 in Q. destruct (st_find src (bk, k)) as [d|] eqn:F; [|congruence].
      exists bk, d. split; [now left | split; auto].
      apply src_keyed in F. cbn [snd] in F.
      unfold Model_Builder.on_data. rewrite F, E. cbn [find_req]. rewrite bytes_eqb_refl. reflexivity.
    Qed.

    (* an honest network: answer the first outstanding request from the source *)
    Definition honest_answer (s : state) : option bytes :=
      match pending s with
      | (k, bk :: _) :: _ => st_find src (bk, k)
      | _ => None
      end.

    Fixpoint honest_run (n : nat) (s : state) : state :=
      match n with
      | O => s
      | S m => match honest_answer s with
               | Some d => honest_run m (fst (on_data s d))
               | None => s
               end
      end.

    Lemma honest_terminates_from n : forall s, invG s -> (missing src (dbs s) <= n)%nat ->
      unresolved (honest_run n s) = 0%nat \/ collision.
    Proof.
      induction n as [|n IH]; intros s G M.
      - left. cbn [honest_run]. unfold unresolved.
        destruct (pending s) as [|[k bks] t] eqn:E; auto. exfalso.
        destruct G as ([[A0 _] A2] & [_ S2] & _).
        destruct bks as [|bk bks]; [eapply A0; [rewrite E; now left | reflexivity]|].
        assert (req_in (pending s) (bk, k)) as Q.
        { rewrite E. exists (bk :: bks). cbn [fst snd]. split; now left. }
        assert (In (bk, k) (filter (fun r => negb (db_has (dbs s) r)) (dom src))) as I.
        { apply filter_In. split; [apply in_dom; auto | rewrite negb_true_iff; auto]. }
        unfold missing in M. destruct (filter _ (dom src)); [destruct I | cbn in M; lia].
      - cbn [honest_run]. unfold honest_answer.
        destruct (pending s) as [|[k bks] t] eqn:E; [left; unfold unresolved; now rewrite E|].
        destruct (answerable s k bks t G E) as (bk0 & d0 & _ & _ & _).
        destruct bks as [|bk bks].
        { exfalso. destruct G as ([[A0 _] _] & _). eapply A0; [rewrite E; now left | reflexivity]. }
        destruct G as (A & S & B).
        assert (req_in (pending s) (bk, k)) as Q.
        { rewrite E. exists (bk :: bks). cbn [fst snd]. split; now left. }
        pose proof (proj2 S _ Q) as NN.
        destruct (st_find src (bk, k)) as [d|] eqn:F; [|congruence].
        pose proof (src_keyed _ _ F) as HK. cbn [snd] in HK.
        assert (find_req (pending s) (H d) = Some (bk :: bks)) as FR.
        { rewrite HK, E. cbn [find_req]. now rewrite bytes_eqb_refl. }
        destruct (accepted_step s d _ A S FR) as [[S' M'] | C]; [|now right].
        apply IH; [|lia].
        split; [now apply invA_on_data | split; auto].
        destruct (on_data_ok s d _ FR) as (_ & _ & _ & _ & _ & _ & R).
        unfold bound in *. rewrite R. lia.
    Qed.

    Lemma missing_le_dom x : (missing src x <= length (dom src))%nat.
    Proof. apply filter_len_bound. Qed.

    (* ---- the statements over histories ---- *)
    Definition sub_store (b0 : store) : Prop :=
      forall r d, st_find b0 r = Some d -> st_find src r = Some d.
    Definition roots_in_src (h : list op) : Prop :=
      forall r, In (OStart r) h -> st_find src r <> None.

    Lemma progress_bound b0 h : sub_store b0 -> roots_in_src h ->
      (resolved (run b0 h) + missing src (dbs (run b0 h)) <= length (dom src))%nat \/ collision.
    Proof.
      intros SUB RT. destruct (run_invG b0 h SUB RT) as [(_ & _ & B) | C]; [left; exact B | now right].
    Qed.

    Lemma progress_strict b0 h d : sub_store b0 -> roots_in_src h ->
      snd (on_data (run b0 h) d) = ROk ->
      (missing src (dbs (run b0 (h ++ [OData d]))) < missing src (dbs (run b0 h)))%nat \/ collision.
    Proof.
      intros SUB RT OK. destruct (run_invG b0 h SUB RT) as [(A & S & _) | C]; [|now right].
      rewrite run_snoc. cbn [Model_Builder.step].
      destruct (find_req (pending (run b0 h)) (H d)) as [bks|] eqn:F.
      - destruct (accepted_step _ d bks A S F) as [[_ M] | C]; [left; exact M | now right].
      - rewrite on_data_ignored in OK by auto. discriminate.
    Qed.

    Lemma progress_answerable b0 h k bks t : sub_store b0 -> roots_in_src h ->
      pending (run b0 h) = (k, bks) :: t ->
      (exists bk d, In bk bks /\ st_find src (bk, k) = Some d /\ snd (on_data (run b0 h) d) = ROk)
      \/ collision.
    Proof.
      intros SUB RT E. destruct (run_invG b0 h SUB RT) as [G | C]; [left | now right].
      eapply answerable; eauto.
    Qed.

    Lemma honest_terminates b0 h n : sub_store b0 -> roots_in_src h ->
      (length (dom src) <= n)%nat ->
      unresolved (honest_run n (run b0 h)) = 0%nat \/ collision.
    Proof.
      intros SUB RT L. destruct (run_invG b0 h SUB RT) as [G | C]; [|now right].
      apply honest_terminates_from; auto. pose proof (missing_le_dom (dbs (run b0 h))). lia.
    Qed.
  End Source.

  (* boolean checkers for the hypotheses (used by the examples) *)
  Definition closed_storeb (b0 : store) : bool :=
    forallb (fun e => forallb (fun c => db_has (Direct b0) c) (children (fst (fst e)) (snd e))) b0.
  Definition wellkeyedb (b0 : store) : bool :=
    forallb (fun e => bytes_eqb (H (snd e)) (snd (fst e))) b0.

  Lemma closed_storeb_ok b0 : closed_storeb b0 = true -> closed_store b0.
  Proof.
    unfold closed_storeb. rewrite forallb_forall. intros F r d E c G.
    apply st_find_in in E. specialize (F _ E). cbn [fst snd] in F.
    rewrite forallb_forall in F. specialize (F c G). now apply db_has_true in F.
  Qed.

  Lemma wellkeyedb_ok b0 : wellkeyedb b0 = true -> wellkeyed b0.
  Proof.
    unfold wellkeyedb. rewrite forallb_forall. intros F r d E.
    apply st_find_in in E. specialize (F _ E). cbn [fst snd] in F. now apply bytes_eqb_eq.
  Qed.
End P.

(* ------------------------------------------------------------------ *)
(* non-vacuity                                                         *)
(* ------------------------------------------------------------------ *)

(* a toy DAG: the hash is the identity (no collisions), a node starting with 3 refers to
   its two tails, with 2 to its tail in bucket 0 AND in bucket 1, with 1 to its tail;
   data asked for bucket 1 has no references *)
Definition exH (d : bytes) : bytes := d.
Definition exK (bk : N) (d : bytes) : list ref :=
  if bk =? 0 then
    match d with
    | 3 :: a :: rest => [(0, a :: rest); (0, rest)]
    | 2 :: rest => [(0, rest); (1, rest)]
    | 1 :: rest => [(0, rest)]
    | _ => []
    end
  else [].

Definition ex_src : store :=
  [((0, [3; 2; 1; 0]), [3; 2; 1; 0]); ((0, [2; 1; 0]), [2; 1; 0]); ((0, [1; 0]), [1; 0]);
   ((1, [1; 0]), [1; 0]); ((0, [0]), [0])].

Definition ex_root : ref := (0, [3; 2; 1; 0]).

(* a genuine but not yet requested node, a forged payload, the root, the root again,
   a delivery under a bucket without hasher, another forged payload, a flush *)
Definition ex_hist : list (op) :=
  [OStart ex_root; OData [0]; OData [9; 9]; OData [3; 2; 1; 0]; OData [3; 2; 1; 0];
   OData [2; 1; 0]; ONoHasher [1; 0]; OData [1; 0]; OData [7]; OData [0]; OFlush].

Example ex_no_anomaly : ~ self_ref exH exK /\ ~ collision exH.
Proof.
  split.
  - intros (bk & d & c & G & E). unfold exH in E. unfold exK in G.
    assert (length (snd c) < length d)%nat as L; [|rewrite E in L; lia].
    destruct (bk =? 0); [|destruct G].
    destruct d as [|x d]; [destruct G|].
    destruct x as [|p]; [destruct G|].
    destruct p as [[p|p|]|[p|p|]|]; cbn in G; try contradiction;
      try (destruct d as [|a d]; cbn in G; try contradiction);
      repeat (destruct G as [G | G]; [subst c; cbn; lia |]); contradiction.
  - intros (a & b & N & E). unfold exH in E. congruence.
Qed.

Example ex_src_ok : wellkeyed exH ex_src /\ closed_store exK ex_src.
Proof. split; [apply wellkeyedb_ok | apply closed_storeb_ok]; vm_compute; reflexivity. Qed.

Example ex_roots_in_src : sub_store ex_src [] /\ roots_in_src ex_src ex_hist.
Proof.
  split.
  - intros r d E. discriminate.
  - intros r [E | [E | [E | [E | [E | [E | [E | [E | [E | [E | [E | []]]]]]]]]]]]; try discriminate.
    inversion E. subst. vm_compute. discriminate.
Qed.

(* the run ends with nothing outstanding, four accepted deliveries, the target database holding
   exactly the source (same keys, same bytes), and neither forged payload anywhere *)
Example ex_run_done :
  let s := run exH exK [] ex_hist in
  unresolved s = 0%nat /\ resolved s = 4%nat /\
  forallb (fun r => opt_bytes_eqb (st_find (underlying (dbs s)) r) (st_find ex_src r)) (dom ex_src) = true /\
  forallb (fun e => match st_find ex_src (fst e) with Some _ => true | None => false end)
          (underlying (dbs s)) = true /\
  map snd (trace exH exK (init (Layered [] [])) ex_hist) =
    [ROk; RNoRequester; RNoRequester; ROk; RNoRequester; ROk; RNoHasher; ROk; RNoRequester; ROk; ROk].
Proof. vm_compute. repeat split; reflexivity. Qed.

(* a target that already holds a closed part of the state *)
Definition ex_b0 : store := [((0, [1; 0]), [1; 0]); ((1, [1; 0]), [1; 0]); ((0, [0]), [0])].
Example ex_b0_ok : wellkeyed exH ex_b0 /\ closed_store exK ex_b0 /\ sub_store ex_src ex_b0 /\
  unresolved (run exH exK ex_b0 [OStart ex_root; OData [3; 2; 1; 0]; OData [2; 1; 0]]) = 0%nat /\
  unresolved (run exH exK ex_b0 [OStart ex_root; OData [3; 2; 1; 0]]) = 1%nat.
Proof.
  split; [apply wellkeyedb_ok; vm_compute; reflexivity|].
  split; [apply closed_storeb_ok; vm_compute; reflexivity|].
  split; [|split; vm_compute; reflexivity].
  intros r d E. apply st_find_in in E.
  destruct E as [E | [E | [E | []]]]; inversion E; subst; vm_compute; reflexivity.
Qed.

(* the hypothesis closed_store is needed: a target that holds a node without what it refers
   to makes the builder finish with a hole (the node is found, its references are not followed) *)
Example ex_open_target_hole :
  let b0 := [((0, [2; 1; 0]), [2; 1; 0])] in
  let h := [OStart ex_root; OData [3; 2; 1; 0]; OData [1; 0]; OData [0]] in
  let s := run exH exK b0 h in
  closed_store exK b0 -> False.
Proof.
  intros b0 h s CL. specialize (CL (0, [2; 1; 0]) [2; 1; 0] eq_refl (0, [1; 0])).
  apply CL; [vm_compute; auto | reflexivity].
Qed.

Example ex_open_target_done_with_hole :
  let b0 := [((0, [2; 1; 0]), [2; 1; 0])] in
  let h := [OStart ex_root; OData [3; 2; 1; 0]; OData [1; 0]; OData [0]] in
  let s := run exH exK b0 h in
  unresolved s = 0%nat /\ closure exK (viewS s) (roots_of h) (1, [1; 0]) /\ db_has (dbs s) (1, [1; 0]) = false.
Proof.
  cbn zeta. split; [vm_compute; reflexivity | split; [|vm_compute; reflexivity]].
  eapply cl_child with (p := (0, [2; 1; 0])) (d := [2; 1; 0]).
  - eapply cl_child with (p := ex_root) (d := [3; 2; 1; 0]).
    + apply cl_root. vm_compute. auto.
    + vm_compute. reflexivity.
    + vm_compute. auto.
  - vm_compute. reflexivity.
  - vm_compute. auto.
Qed.

(* the self_ref escape is needed: a node that refers to its own hash in another bucket is
   "requested" on the request that is being removed, and is never fetched *)
Definition exKself (bk : N) (d : bytes) : list ref := if bk =? 0 then [(1, d)] else [].
Example ex_self_ref_hole :
  let h := [OStart (0, [5]); OData [5]] in
  let s := run exH exKself [] h in
  self_ref exH exKself /\ unresolved s = 0%nat /\
  closure exKself (viewS s) (roots_of h) (1, [5]) /\ db_has (dbs s) (1, [5]) = false.
Proof.
  cbn zeta. split; [exists 0, [5], (1, [5]); split; [vm_compute; auto | reflexivity]|].
  split; [vm_compute; reflexivity | split; [|vm_compute; reflexivity]].
  eapply cl_child with (p := (0, [5])) (d := [5]).
  - apply cl_root. vm_compute. auto.
  - vm_compute. reflexivity.
  - vm_compute. auto.
Qed.

(* a second preimage IS stored (the builder can only compare hashes): with a hash that
   forgets everything but the first byte the forged [2;9] replaces the node [2;1;0] *)
Example ex_collision_accepted :
  let Hc := (fun d : bytes => firstn 1 d) in
  let s := run Hc (fun _ _ => []) [] [OStart (0, [2]); OData [2; 9]] in
  collision Hc /\ unresolved s = 0%nat /\ viewS s (0, [2]) = Some [2; 9].
Proof.
  cbn zeta. split; [exists [2; 9], [2; 1; 0]; split; [discriminate | reflexivity]|].
  split; vm_compute; reflexivity.
Qed.

Example ex_honest_terminates :
  unresolved (honest_run exH exK ex_src 5 (run exH exK [] [OStart ex_root])) = 0%nat /\
  length (dom ex_src) = 5%nat.
Proof. split; vm_compute; reflexivity. Qed.
