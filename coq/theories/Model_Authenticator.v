(* Model_Authenticator.v - network/authenticator.go: Signature / VerifySignature,
   handleSignatureRequest, handleSignatureResponse and the wait-info check of
   peerhandler.go; network/peerid.go + common/address.go: the peer id of a
   public key.  Executable definitions only.

   SHA3-256, secp256k1 key parsing / serialisation and ECDSA verification are
   Section variables. *)
From Goloop Require Import lib.Bytes.
Open Scope N_scope.

(* crypto.ParseSignature: 65 bytes [R|S|V] or 64 bytes [R|S]; Signature.Verify
   looks at R and S only *)
Definition parse_sig (sig : bytes) : option bytes :=
  if Nat.eqb (length sig) 65 then Some (firstn 64 sig)
  else if Nat.eqb (length sig) 64 then Some sig
  else None.

(* Signature.Verify refuses a message of length 0 or above HashLen = 32 *)
Definition hash_ok (h : bytes) : bool := (1 <=? length h)%nat && (length h <=? 32)%nat.

Definition SUB_SIGREQ : N := 768.    (* p2pProtoAuthSignatureRequest  0x0300 *)
Definition SUB_SIGRESP : N := 1024.  (* p2pProtoAuthSignatureResponse 0x0400 *)

(* what the authenticator keeps per peer, as far as the two handlers use it *)
Record peer := {
  p_wait : option (N * bool);   (* AttrWaitSubProtocolInfo: expected sub protocol, processing flag *)
  p_extra : bytes;              (* p.secureKey.extra: the secret of THIS session *)
  p_id : option bytes;          (* p.ID() *)
  p_closed : bool;
  p_next : bool                 (* nextOnPeer was called: the peer is authenticated *)
}.

(* a received payload after codec.MP decoding; Undecodable = decode error or extra bytes *)
Inductive inmsg := Undecodable | Msg (pub sig : bytes) (err : bytes).

Definition close (p : peer) : peer :=
  {| p_wait := p_wait p; p_extra := p_extra p; p_id := p_id p; p_closed := true; p_next := p_next p |}.
Definition set_wait (p : peer) (w : option (N * bool)) : peer :=
  {| p_wait := w; p_extra := p_extra p; p_id := p_id p; p_closed := p_closed p; p_next := p_next p |}.
Definition set_id (p : peer) (id : option bytes) : peer :=
  {| p_wait := p_wait p; p_extra := p_extra p; p_id := id; p_closed := p_closed p; p_next := p_next p |}.
(* nextOnPeer: clearWaitInfo, hand over *)
Definition hand_over (p : peer) : peer :=
  {| p_wait := None; p_extra := p_extra p; p_id := p_id p; p_closed := p_closed p; p_next := true |}.

(* peerHandler.checkWaitInfo *)
Definition check_wait (p : peer) (sub : N) : bool * peer :=
  match p_wait p with
  | None => (true, p)
  | Some (pi, processing) =>
      if negb processing && (pi =? sub) then (true, set_wait p (Some (pi, true)))
      else (false, close p)
  end.

Section SIG.
  Variable pubkey : Type.
  Variable H : bytes -> bytes.                          (* crypto.SHA3Sum256 *)
  Variable parse_pub : bytes -> option pubkey.          (* crypto.ParsePublicKey *)
  Variable ser_pub : pubkey -> bytes.                   (* SerializeUncompressed: 0x04 | X | Y *)
  Variable verify : pubkey -> bytes -> bytes -> bool.   (* ECDSA: key, hash, R|S *)

  (* NewPeerIDFromPublicKey -> common.NewAccountAddressFromPublicKey:
     digest := SHA3Sum256(pk[1:]); id := digest[len(digest)-20:] *)
  Definition peer_id (k : pubkey) : bytes :=
    let d := H (skipn 1 (ser_pub k)) in skipn (length d - 20) d.

  (* Authenticator.VerifySignature(publicKey, signature, content) : (id, error?) *)
  Definition verify_signature (pub sig content : bytes) : option bytes * bool :=
    match parse_pub pub with
    | None => (None, true)
    | Some k =>
        match parse_sig sig with
        | None => (None, true)
        | Some rs =>
            let h := H content in
            if hash_ok h && verify k h rs then (Some (peer_id k), false)
            else (Some (peer_id k), true)      (* the id is returned next to ErrInvalidSignature *)
        end
    end.

  (* handleSignatureRequest (the accepting side).  Second component: the
     response sent, Some true = our key and signature, Some false = an Error text *)
  Definition on_sigreq (self : bytes) (p : peer) (m : inmsg) : peer * option bool :=
    let (ok, p1) := check_wait p SUB_SIGREQ in
    if negb ok then (p1, None) else
    match m with
    | Undecodable => (close p1, None)
    | Msg pub sig _ =>
        let (id, err) := verify_signature pub sig (p_extra p1) in
        let bad := err || match id with Some i => bytes_eqb i self | None => false end in
        let p2 := set_id p1 id in            (* p.setID(id) comes before the error is looked at *)
        if bad then (close p2, Some false) else (hand_over p2, Some true)
    end.

  (* handleSignatureResponse (the dialling side) *)
  Definition on_sigresp (p : peer) (m : inmsg) : peer :=
    let (ok, p1) := check_wait p SUB_SIGRESP in
    if negb ok then p1 else
    match m with
    | Undecodable => close p1
    | Msg pub sig e =>
        match e with
        | _ :: _ => close p1                      (* rm.Error != "" *)
        | [] =>
            let (id, err) := verify_signature pub sig (p_extra p1) in
            if err then close p1 else hand_over (set_id p1 id)
        end
    end.
End SIG.

(* ------------------------------------------------------------------ *)
(* The session secret.  handleSecureRequest / sendSecureRequest create a NEW
   ECDH key pair for every connection (newSecureKey); secureKey.setup derives
   extra = HKDF block of ECDH(own ephemeral key, peer's ephemeral public key).
   The handshake keys one Authenticator used in its successive sessions must
   therefore be pairwise different. *)
Fixpoint mem_bytes (x : bytes) (l : list bytes) : bool :=
  match l with [] => false | y :: r => bytes_eqb x y || mem_bytes x r end.
Fixpoint nodup_bytes (l : list bytes) : bool :=
  match l with [] => true | x :: r => negb (mem_bytes x r) && nodup_bytes r end.

Section SESSIONS.
  Variable eph : Type.                       (* an end's ephemeral handshake key *)
  Variable peerpub : Type.                   (* the ephemeral public key the other end supplied *)
  Variable xs : eph -> peerpub -> bytes.     (* extra of the session *)
  Definition session_secrets (l : list (eph * peerpub)) : list bytes :=
    map (fun sc => xs (fst sc) (snd sc)) l.
End SESSIONS.
