(* Proofs_VirtualState_Inv.v — the structural invariant of the small-step
   system of Model_VirtualState (which virtual states exist, what their entries
   look like, who has committed before whom) and its preservation by every
   step, for every list of transactions — with or without world read locks.
   Values are not mentioned here; see Proofs_VirtualState.v.  Style: stdlib. *)
From Coq Require Import List Arith Bool ZArith Lia.
From Goloop Require Import Model_VirtualState Proofs_VirtualState_Seq.
Import ListNotations.

Ltac eqb_cases :=
  repeat match goal with
  | |- context [Nat.eqb ?a ?b] => destruct (Nat.eqb_spec a b); subst
  | H : context [Nat.eqb ?a ?b] |- _ => destruct (Nat.eqb_spec a b); subst
  end.

Section Inv.
Variable txs : list tx.
Let n := length txs.

(* number of virtual states created / workers spawned so far *)
Definition dcount (g : gstate) : nat :=
  match g_disp g with DPrepare i => i | DSpawn i => S i | DDone => n end.
Definition scount (g : gstate) : nat :=
  match g_disp g with DPrepare i => i | DSpawn i => i | DDone => n end.

(* the worker is past GetSnapshot / UpdateSystemInfo; has committed *)
Definition startedb (g : gstate) (i : nat) : bool :=
  match g_work g i with Some (WRun _) | Some WRelease | Some WFinished => true | _ => false end.
Definition finishedb (g : gstate) (i : nat) : bool :=
  match g_work g i with Some WRelease | Some WFinished => true | _ => false end.

Definition earlier_done (g : gstate) (i : nat) (a : acct) : Prop :=
  forall j, j < i -> effw txs j a -> is_done g j = true.

(* one accountStates entry of the virtual state of transaction i; e is the
   lock the requests ask for *)
Definition las_ok (g : gstate) (i : nat) (done : bool) (a : acct) (e : lock) (l : las) : Prop :=
  l_lock l = (if done then match e with WriteLock => WriteUnlock | x => x end else e) /\
  match l_st l with
  | SDep d => last_writer txs i a = Some d /\ (e = WriteLock -> done = false)
  | SLive => e = WriteLock /\ done = false /\ earlier_done g i a
  | SRO _ => (e = ReadLock \/ done = true) /\ earlier_done g i a
  end.

Record vs_ok (g : gstate) (i : nat) (t : tx) (v : vstate) : Prop := {
  vo_wlock : v_wlock v = if v_done v
                         then match world_lock (reqs_of t) with WriteLock => WriteUnlock | x => x end
                         else world_lock (reqs_of t);
  vo_accts : forall a, match v_accts v a, entry (reqs_of t) a with
                       | None, None => True
                       | Some l, Some e => las_ok g i (v_done v) a e l
                       | _, _ => False
                       end;
  vo_keys : forall a, entry (reqs_of t) a <> None -> In a (v_keys v);
  vo_done : v_done v = finishedb g i;
  vo_base : v_base v <> None -> forall j, j < i -> is_done g j = true;
  vo_comm : v_committed v <> None -> forall j, j <= i -> is_done g j = true;
  vo_started : startedb g i = true -> world_lock (reqs_of t) <> NoLock -> v_base v <> None;
  vo_order : v_done v = true -> forall a, eff_writer t a = true -> earlier_done g i a;
  vo_base0 : i = 0 -> v_base v <> None;
  (* the worker took its snapshot before its first attempt *)
  vo_snap : startedb g i = true ->
            exists s, v_snap v = Some s /\ (world_lock (reqs_of t) = WriteLock -> s_base s <> None);
  (* a live account is in the snapshot, or has the base recorded when it was resolved *)
  vo_lbase : forall a, v_accts v a = Some (mkLas WriteLock SLive) ->
             v_snap v = None \/ (exists s, v_snap v = Some s /\ s_accts s a <> None) \/ v_lbase v a <> None
}.

Record Inv1 (g : gstate) : Prop := {
  i_disp : match g_disp g with DPrepare i => i <= n | DSpawn i => i < n | DDone => True end;
  i_vs_some : forall i, i < dcount g -> exists v, g_vs g i = Some v;
  i_vs_none : forall i, dcount g <= i -> g_vs g i = None;
  i_wk_some : forall i, i < scount g -> exists p, g_work g i = Some p;
  i_wk_none : forall i, scount g <= i -> g_work g i = None;
  i_vs_ok : forall i v t, g_vs g i = Some v -> nth_error txs i = Some t -> vs_ok g i t v;
  i_lockers : forall a, get_locker g a = last_writer txs (dcount g) a
}.

Lemma dcount_le g : Inv1 g -> dcount g <= n.
Proof. intros [H _ _ _ _ _ _]. unfold dcount. destruct (g_disp g); lia. Qed.
Lemma scount_le_dcount g : scount g <= dcount g.
Proof. unfold scount, dcount. destruct (g_disp g); lia. Qed.

Lemma vs_created g i v : Inv1 g -> g_vs g i = Some v -> i < dcount g.
Proof.
  intros I H. destruct (Nat.lt_ge_cases i (dcount g)); auto.
  rewrite (i_vs_none _ I i) in H by assumption. discriminate.
Qed.

Lemma tx_of_vs g i v : Inv1 g -> g_vs g i = Some v -> exists t, nth_error txs i = Some t.
Proof.
  intros I H. pose proof (vs_created _ _ _ I H). pose proof (dcount_le _ I).
  destruct (nth_error txs i) eqn:E; eauto. apply nth_error_None in E. fold n in E. lia.
Qed.

Lemma is_done_created g i : Inv1 g -> is_done g i = true -> i < dcount g.
Proof.
  unfold is_done. intros I H. destruct (g_vs g i) eqn:E; try discriminate. eapply vs_created; eauto.
Qed.

(* ------------------------------------------------------------------ *)
(* monotonicity                                                         *)

Definition done_mono (g g' : gstate) : Prop := forall j, is_done g j = true -> is_done g' j = true.

Lemma earlier_done_mono g g' i a : done_mono g g' -> earlier_done g i a -> earlier_done g' i a.
Proof. unfold earlier_done. auto. Qed.

Lemma las_ok_mono g g' i d a e l : done_mono g g' -> las_ok g i d a e l -> las_ok g' i d a e l.
Proof.
  intros M [H1 H2]. split; auto. destruct (l_st l); intuition eauto using earlier_done_mono.
Qed.

Lemma vs_ok_mono g g' i t v : done_mono g g' ->
  finishedb g' i = finishedb g i -> (startedb g' i = true -> startedb g i = true) ->
  vs_ok g i t v -> vs_ok g' i t v.
Proof.
  intros M F S [H1 H2 H3 H4 H5 H6 H7 H8 H9 H10 H11]. constructor; auto.
  - intro a. specialize (H2 a). destruct (v_accts v a), (entry (reqs_of t) a); auto.
    eapply las_ok_mono; eauto.
  - congruence.
  - intros; eauto using earlier_done_mono.
Qed.

(* ------------------------------------------------------------------ *)
(* replacing one virtual state                                          *)

Lemma is_done_set_vs g j v m : is_done (set_vs g j v) m = if Nat.eqb m j then v_done v else is_done g m.
Proof. unfold is_done, set_vs; cbn. destruct (Nat.eqb m j); auto. Qed.

Lemma done_mono_set_vs g j v v' : g_vs g j = Some v -> (v_done v = true -> v_done v' = true) ->
  done_mono g (set_vs g j v').
Proof.
  intros H M m. rewrite is_done_set_vs. destruct (Nat.eqb_spec m j); subst; auto.
  unfold is_done. rewrite H. auto.
Qed.

Lemma inv1_set_vs g j v v' : Inv1 g -> g_vs g j = Some v ->
  (v_done v = true -> v_done v' = true) ->
  (forall t, nth_error txs j = Some t -> vs_ok (set_vs g j v') j t v') ->
  Inv1 (set_vs g j v').
Proof.
  intros I Hj M Hok. pose proof (done_mono_set_vs _ _ _ _ Hj M) as DM.
  destruct I as [I1 I2 I3 I4 I5 I6 I7]. constructor; cbn; auto.
  - intros i Hi. destruct (Nat.eqb i j); eauto.
  - intros i Hi. destruct (Nat.eqb_spec i j); subst; auto.
    rewrite I3 in Hj by assumption. discriminate.
  - intros i v0 t H Ht. destruct (Nat.eqb_spec i j); subst.
    + inversion H; subst. auto.
    + eapply vs_ok_mono; eauto.
Qed.

(* ------------------------------------------------------------------ *)
(* Realize                                                              *)

(* if every member of the chain of j has committed, everything up to j has *)
Lemma chain_done g : Inv1 g -> forall j, j < dcount g ->
  forallb (is_done g) (chain g j) = true -> forall m, m <= j -> is_done g m = true.
Proof.
  intros I. induction j as [|j IH]; intros Hj Hc m Hm.
  - assert (m = 0) by lia; subst. cbn in Hc.
    destruct (i_vs_some _ I 0 Hj) as [v Hv]. destruct (tx_of_vs _ _ _ I Hv) as [t Ht].
    pose proof (i_vs_ok _ I _ _ _ Hv Ht) as OK. rewrite Hv in Hc.
    destruct (v_committed v) eqn:C.
    + apply (vo_comm _ _ _ _ OK); [congruence|lia].
    + cbn in Hc. apply andb_true_iff in Hc. tauto.
  - cbn in Hc. destruct (i_vs_some _ I (S j) Hj) as [v Hv]. destruct (tx_of_vs _ _ _ I Hv) as [t Ht].
    pose proof (i_vs_ok _ I _ _ _ Hv Ht) as OK. rewrite Hv in Hc.
    destruct (v_committed v) eqn:C.
    + apply (vo_comm _ _ _ _ OK); [congruence|lia].
    + cbn in Hc. apply andb_true_iff in Hc as [Hd Hc].
      destruct (Nat.eq_dec m (S j)) as [->|]; auto.
      destruct (v_base v) eqn:B.
      * apply (vo_base _ _ _ _ OK); [congruence|lia].
      * apply IH; auto; lia.
Qed.

(* the effect of a successful Realize of j *)
Definition realized (g g' : gstate) (j : nat) : Prop :=
  (forall m, m <= j -> is_done g m = true) /\
  (g' = g \/ exists v, g_vs g j = Some v /\ v_committed v = None /\ g' = set_vs g j (set_committed v (Some (g_real g)))).

Lemma realize_spec g j g' : Inv1 g -> j < dcount g -> realize g j = Some g' -> realized g g' j.
Proof.
  intros I Hj H. unfold realize in H.
  destruct (forallb (is_done g) (chain g j)) eqn:C; try discriminate.
  split; [apply (chain_done _ I _ Hj C)|].
  destruct (g_vs g j) as [v|] eqn:Hv; [|inversion H; auto].
  destruct (v_committed v) eqn:E; inversion H; subst; eauto.
Qed.

Lemma vs_ok_set_committed g j t v c : g_vs g j = Some v -> vs_ok g j t v ->
  (forall m, m <= j -> is_done g m = true) ->
  vs_ok (set_vs g j (set_committed v c)) j t (set_committed v c).
Proof.
  intros Hv OK D.
  assert (DM : done_mono g (set_vs g j (set_committed v c))) by (eapply done_mono_set_vs; eauto).
  destruct OK as [H1 H2 H3 H4 H5 H6 H7 H8 H9 H10 H11]. constructor; cbn.
  - exact H1.
  - intro a. specialize (H2 a). destruct (v_accts v a), (entry (reqs_of t) a); auto.
    eapply las_ok_mono; eauto.
  - exact H3.
  - exact H4.
  - intros Hb m Hm. apply DM. auto.
  - intros _ m Hm. apply DM. auto.
  - exact H7.
  - intros Hd a Ha. eapply earlier_done_mono; eauto.
  - exact H9.
  - exact H10.
  - exact H11.
Qed.

(* ------------------------------------------------------------------ *)
(* steps that change nothing but virtual states                         *)

Definition vs_only (g g' : gstate) : Prop :=
  g_real g' = g_real g /\ g_work g' = g_work g /\ g_disp g' = g_disp g /\ g_tokens g' = g_tokens g /\
  g_rcts g' = g_rcts g /\ g_lockers g' = g_lockers g /\ g_wlocker g' = g_wlocker g /\
  g_rocache g' = g_rocache g /\ g_final g' = g_final g.

Lemma vs_only_refl g : vs_only g g.
Proof. repeat split. Qed.
Lemma vs_only_set_vs g j v : vs_only g (set_vs g j v).
Proof. repeat split. Qed.
Lemma vs_only_trans g1 g2 g3 : vs_only g1 g2 -> vs_only g2 g3 -> vs_only g1 g3.
Proof. unfold vs_only. intuition congruence. Qed.

(* v' differs from v at most in base / committed, which were nil before *)
Definition vs_sim (real : world) (v v' : vstate) : Prop :=
  v_accts v' = v_accts v /\ v_wlock v' = v_wlock v /\ v_done v' = v_done v /\ v_keys v' = v_keys v /\
  (v_committed v' = v_committed v \/ (v_committed v = None /\ v_committed v' = Some real)) /\
  (v_base v' = v_base v \/ v_base v = None) /\
  v_lbase v' = v_lbase v /\ v_snap v' = v_snap v.

Definition st_sim (g g' : gstate) : Prop :=
  vs_only g g' /\
  forall m, match g_vs g m, g_vs g' m with
            | Some v, Some v' => vs_sim (g_real g) v v'
            | None, None => True
            | _, _ => False
            end.

Lemma vs_sim_refl r v : vs_sim r v v.
Proof. repeat split; auto. Qed.

Lemma st_sim_refl g : st_sim g g.
Proof. split; [apply vs_only_refl|]. intro m. destruct (g_vs g m); auto using vs_sim_refl. Qed.

Lemma vs_sim_trans r v1 v2 v3 : vs_sim r v1 v2 -> vs_sim r v2 v3 -> vs_sim r v1 v3.
Proof.
  intros (A1 & A2 & A3 & A4 & A5 & A6 & A7 & A8) (B1 & B2 & B3 & B4 & B5 & B6 & B7 & B8).
  repeat split; try congruence.
  - destruct A5 as [A5|[A5 A5']], B5 as [B5|[B5 B5']]; try (left; congruence); try (right; split; congruence).
  - destruct A6 as [A6|A6], B6 as [B6|B6]; try (left; congruence); right; congruence.
Qed.

Lemma st_sim_trans g1 g2 g3 : st_sim g1 g2 -> st_sim g2 g3 -> st_sim g1 g3.
Proof.
  intros [A1 A2] [B1 B2]. split; [eapply vs_only_trans; eauto|].
  intro m. specialize (A2 m). specialize (B2 m).
  destruct (g_vs g1 m), (g_vs g2 m), (g_vs g3 m); try tauto.
  assert (g_real g2 = g_real g1) by apply A1. rewrite H in B2. eapply vs_sim_trans; eauto.
Qed.

Lemma st_sim_done g g' m : st_sim g g' -> is_done g' m = is_done g m.
Proof.
  intros [_ H]. specialize (H m). unfold is_done.
  destruct (g_vs g m), (g_vs g' m); try tauto. apply H.
Qed.

Lemma st_sim_set_vs g j v v' : g_vs g j = Some v -> vs_sim (g_real g) v v' -> st_sim g (set_vs g j v').
Proof.
  intros H S. split; [apply vs_only_set_vs|]. intro m. cbn.
  destruct (Nat.eqb_spec m j); subst.
  - now rewrite H.
  - destruct (g_vs g m); auto using vs_sim_refl.
Qed.

Lemma realize_inv1 g j g' : Inv1 g -> j < dcount g -> realize g j = Some g' ->
  Inv1 g' /\ st_sim g g' /\ (forall m, m <= j -> is_done g m = true) /\
  (exists v', g_vs g' j = Some v' /\ v_committed v' <> None) /\
  (forall m, m <> j -> g_vs g' m = g_vs g m).
Proof.
  intros I Hj H. destruct (realize_spec _ _ _ I Hj H) as [D [->|(v & Hv & Hc & ->)]].
  - split; auto. split; [apply st_sim_refl|]. split; auto. split; auto.
    unfold realize in H. destruct (forallb (is_done g) (chain g j)); try discriminate.
    destruct (i_vs_some _ I j Hj) as [v Hv]. rewrite Hv in H. exists v. split; auto.
    destruct (v_committed v) eqn:E; try congruence.
    inversion H as [H1]. assert (E' : g_vs (set_vs g j (set_committed v (Some (g_real g)))) j = g_vs g j) by (rewrite H1; reflexivity).
    cbn in E'. rewrite Nat.eqb_refl, Hv in E'. inversion E' as [E'']. rewrite <- E'' in E. discriminate.
  - split; [|split; [|split; [|split]]]; auto.
    + eapply inv1_set_vs; eauto. intros t Ht. apply vs_ok_set_committed; auto.
      eapply i_vs_ok; eauto.
    + eapply st_sim_set_vs; eauto. repeat split; auto.
    + eexists. split; [cbn; now rewrite Nat.eqb_refl|]. cbn. congruence.
    + intros m Hm. cbn. destruct (Nat.eqb_spec m j); congruence.
Qed.

Lemma vs_ok_set_base g j t v b : g_vs g j = Some v -> vs_ok g j t v -> b <> None ->
  (forall m, m < j -> is_done g m = true) ->
  vs_ok (set_vs g j (set_base v b)) j t (set_base v b).
Proof.
  intros Hv OK Hb D.
  assert (DM : done_mono g (set_vs g j (set_base v b))) by (eapply done_mono_set_vs; eauto).
  destruct OK as [H1 H2 H3 H4 H5 H6 H7 H8 H9 H10 H11]. constructor; cbn.
  - exact H1.
  - intro a. specialize (H2 a). destruct (v_accts v a), (entry (reqs_of t) a); auto.
    eapply las_ok_mono; eauto.
  - exact H3.
  - exact H4.
  - intros _ m Hm. apply DM. auto.
  - intros Hc m Hm. apply DM. auto.
  - intros _ _. exact Hb.
  - intros Hd a Ha. eapply earlier_done_mono; eauto.
  - intros _. exact Hb.
  - exact H10.
  - exact H11.
Qed.

Lemma realize_base_inv1 g i v g' : Inv1 g -> g_vs g i = Some v -> realize_base g i = Some g' ->
  Inv1 g' /\ st_sim g g' /\
  (exists v', g_vs g' i = Some v' /\ v_base v' <> None /\ v_accts v' = v_accts v /\
              v_wlock v' = v_wlock v /\ v_done v' = v_done v /\ v_committed v' = v_committed v) /\
  (v_base v = None -> forall m, m < i -> is_done g m = true).
Proof.
  intros I Hv H. unfold realize_base in H. rewrite Hv in H.
  destruct (v_base v) eqn:B.
  - inversion H; subst. split; auto. split; [apply st_sim_refl|]. split; [|discriminate].
    exists v. repeat split; auto. congruence.
  - destruct i as [|j]; try discriminate.
    pose proof (vs_created _ _ _ I Hv) as Hc.
    destruct (realize g j) as [g1|] eqn:R; try discriminate.
    assert (Hj : j < dcount g) by lia.
    destruct (realize_inv1 _ _ _ I Hj R) as (I1 & S1 & D & (p & Hp & Cp) & Oth).
    rewrite Hp in H. rewrite (Oth (S j)) in H by lia. rewrite Hv in H. inversion H; subst. clear H.
    assert (Hv1 : g_vs g1 (S j) = Some v) by (rewrite Oth by lia; auto).
    assert (D1 : forall m, m < S j -> is_done g1 m = true).
    { intros m Hm. rewrite (st_sim_done _ _ _ S1). apply D. lia. }
    destruct (tx_of_vs _ _ _ I Hv) as [t Ht].
    split; [|split; [|split]].
    + eapply inv1_set_vs; eauto. intros t' Ht'. apply vs_ok_set_base; auto.
      eapply i_vs_ok; eauto.
    + eapply st_sim_trans; eauto. eapply st_sim_set_vs; eauto. repeat split; auto.
    + eexists. split; [cbn; now rewrite Nat.eqb_refl|]. cbn. repeat split; auto.
    + intros _ m Hm. apply D. lia.
Qed.

(* Realize / realizeBaseInLock of i touch only the virtual states i-1 and i *)
Lemma realize_others g j g' : realize g j = Some g' -> forall m, m <> j -> g_vs g' m = g_vs g m.
Proof.
  unfold realize. destruct (forallb (is_done g) (chain g j)); try discriminate.
  destruct (g_vs g j) as [v|]; [|intro E; inversion E; auto].
  destruct (v_committed v); intro E; inversion E; subst; auto.
  intros m Hm. cbn. destruct (Nat.eqb_spec m j); congruence.
Qed.

Lemma realize_base_same g j g' m v v' : realize g j = Some g' -> g_vs g m = Some v -> g_vs g' m = Some v' ->
  v_base v' = v_base v.
Proof.
  unfold realize. destruct (forallb (is_done g) (chain g j)); try discriminate.
  destruct (g_vs g j) as [u|] eqn:Hu; [|intro E; inversion E; subst; congruence].
  destruct (v_committed u); intro E; inversion E; subst; try congruence.
  cbn. destruct (Nat.eqb_spec m j); subst; intros H1 H2; [|congruence].
  inversion H2; subst. rewrite Hu in H1. inversion H1; subst. reflexivity.
Qed.

Lemma realize_base_others g i g' : realize_base g i = Some g' ->
  forall m, m <> i -> S m <> i -> g_vs g' m = g_vs g m.
Proof.
  unfold realize_base. destruct (g_vs g i) as [v|]; try discriminate.
  destruct (v_base v); [intro E; inversion E; auto|].
  destruct i as [|j]; try discriminate.
  destruct (realize g j) as [g1|] eqn:R; try discriminate.
  destruct (g_vs g1 j) as [p|]; try discriminate.
  destruct (g_vs g1 (S j)) as [v'|]; try discriminate.
  intro E; inversion E; subst. intros m H1 H2. cbn.
  destruct (Nat.eqb_spec m (S j)); [congruence|]. apply (realize_others _ _ _ R). congruence.
Qed.

(* ------------------------------------------------------------------ *)
(* account access                                                       *)

Lemma dep_done_earlier g i a d : Inv1 g -> last_writer txs i a = Some d -> is_done g d = true ->
  earlier_done g i a.
Proof.
  intros I L D j Hj E. destruct (last_writer_Some _ _ _ _ L) as (H1 & [td [Htd Ed]] & H3).
  destruct (Nat.lt_trichotomy j d) as [Hlt|[->|Hgt]]; auto.
  - unfold is_done in D. destruct (g_vs g d) as [vd|] eqn:Hvd; try discriminate.
    pose proof (i_vs_ok _ I _ _ _ Hvd Htd) as OK. eapply (vo_order _ _ _ _ OK); eauto.
  - exfalso. apply (H3 j); auto.
Qed.

Lemma set_las_eq g i v a l b : g_vs g i = Some v -> set_las g i a l b = set_vs g i (upd_accts v a l b).
Proof. intro H. unfold set_las. now rewrite H. Qed.

(* the ways GetAccountState can succeed *)
Inductive acc_kind (g : gstate) (i : nat) (a : acct) (g' : gstate) (h : handle) : Prop :=
| AK_acqw v d :
    g_vs g i = Some v -> v_accts v a = Some (mkLas WriteLock (SDep d)) -> is_done g d = true ->
    g' = set_vs g i (upd_accts v a (mkLas WriteLock SLive) (g_real g a)) -> h = HLive -> acc_kind g i a g' h
| AK_acqr v l d x :
    g_vs g i = Some v -> v_accts v a = Some (mkLas l (SDep d)) -> l <> WriteLock -> is_done g d = true ->
    peek g d a = Some x ->
    g' = set_vs g i (upd_accts v a (mkLas l (SRO x)) x) -> h = HRO x -> acc_kind g i a g' h
| AK_live v l :
    g_vs g i = Some v -> v_accts v a = Some (mkLas l SLive) -> g' = g -> h = HLive -> acc_kind g i a g' h
| AK_ro v l x :
    g_vs g i = Some v -> v_accts v a = Some (mkLas l (SRO x)) -> g' = g -> h = HRO x -> acc_kind g i a g' h
| AK_world v v' :
    g_vs g i = Some v -> v_accts v a = None -> v_wlock v <> NoLock ->
    realize_base g i = Some g' -> g_vs g' i = Some v' ->
    h = match v_committed v' with
        | Some w => HRO (w a)
        | None => match v_wlock v with
                  | WriteLock => HLive
                  | _ => match v_base v' with Some b => HRO (b a) | None => HLive end
                  end
        end ->
    (v_committed v' = None -> v_wlock v <> WriteLock -> v_base v' <> None) ->
    acc_kind g i a g' h.

Lemma access_cases g i a g' h : access g i a = Some (g', h) -> acc_kind g i a g' h.
Proof.
  unfold access. destruct (g_vs g i) as [v|] eqn:Hv; try discriminate.
  destruct (v_accts v a) as [[l st]|] eqn:Ha.
  - destruct st as [d| |x].
    + destruct (is_done g d) eqn:D; try discriminate.
      destruct l.
      * destruct (peek g d a) as [x|] eqn:P; try discriminate. intro H; inversion H; subst.
        eapply AK_acqr; eauto; try congruence. apply set_las_eq; auto.
      * destruct (peek g d a) as [x|] eqn:P; try discriminate. intro H; inversion H; subst.
        eapply AK_acqr; eauto; try congruence. apply set_las_eq; auto.
      * intro H; inversion H; subst. eapply AK_acqw; eauto. apply set_las_eq; auto.
      * destruct (peek g d a) as [x|] eqn:P; try discriminate. intro H; inversion H; subst.
        eapply AK_acqr; eauto; try congruence. apply set_las_eq; auto.
    + intro H; inversion H; subst. eapply AK_live; eauto.
    + intro H; inversion H; subst. eapply AK_ro; eauto.
  - destruct (v_wlock v) eqn:W; try discriminate;
    (destruct (realize_base g i) as [g1|] eqn:R; try discriminate;
     destruct (g_vs g1 i) as [v'|] eqn:Hv'; try discriminate;
     destruct (v_committed v') as [w|] eqn:C;
     [ intro H; inversion H; subst; eapply AK_world; eauto; try congruence; rewrite ?C, ?W; auto; congruence | ]).
    + destruct (v_base v') eqn:B; try discriminate. intro H; inversion H; subst.
      eapply AK_world; eauto; try congruence. rewrite C, W, B. auto.
    + intro H; inversion H; subst. eapply AK_world; eauto; try congruence. rewrite C, W. auto.
    + destruct (v_base v') eqn:B; try discriminate. intro H; inversion H; subst.
      eapply AK_world; eauto; try congruence. rewrite C, W, B. auto.
Qed.

Lemma vs_ok_acquire g i t v a l' b : g_vs g i = Some v -> vs_ok g i t v ->
  v_accts v a <> None ->
  (forall e, entry (reqs_of t) a = Some e -> las_ok g i (v_done v) a e l') ->
  vs_ok (set_vs g i (upd_accts v a l' b)) i t (upd_accts v a l' b).
Proof.
  intros Hv OK Hne Hl.
  assert (DM : done_mono g (set_vs g i (upd_accts v a l' b))) by (eapply done_mono_set_vs; eauto).
  destruct OK as [H1 H2 H3 H4 H5 H6 H7 H8 H9 H10 H11]. constructor; cbn.
  - exact H1.
  - intro x. destruct (Nat.eqb_spec x a); subst.
    + specialize (H2 a). destruct (v_accts v a); try congruence.
      destruct (entry (reqs_of t) a); try tauto. eapply las_ok_mono; eauto.
    + specialize (H2 x). destruct (v_accts v x), (entry (reqs_of t) x); auto.
      eapply las_ok_mono; eauto.
  - exact H3.
  - exact H4.
  - intros Hb m Hm. apply DM. auto.
  - intros Hc m Hm. apply DM. auto.
  - exact H7.
  - intros Hd x Hx. eapply earlier_done_mono; eauto.
  - exact H9.
  - exact H10.
  - intros x. destruct (Nat.eqb_spec x a); subst.
    + intros _. right. right. congruence.
    + apply H11.
Qed.

Lemma is_done_upd_accts g i v a l b m : g_vs g i = Some v ->
  is_done (set_vs g i (upd_accts v a l b)) m = is_done g m.
Proof.
  intro H. rewrite is_done_set_vs. destruct (Nat.eqb_spec m i); subst; auto.
  unfold is_done. now rewrite H.
Qed.

Lemma entry_rw reqs a e : entry reqs a = Some e -> e = ReadLock \/ e = WriteLock.
Proof. intro H. destruct (entry_cases reqs a) as [E|[E|E]]; rewrite E in H; inversion H; auto. Qed.

Lemma access_inv1 g i a g' h : Inv1 g -> access g i a = Some (g', h) ->
  Inv1 g' /\ (forall m, is_done g' m = is_done g m) /\ vs_only g g'.
Proof.
  intros I H. destruct (access_cases _ _ _ _ _ H) as
    [v d Hv Ha D -> ->|v l d x Hv Ha Hl D P -> ->|v l Hv Ha -> ->|v l x Hv Ha -> ->|v v' Hv Ha W R Hv' Hh Hb].
  - destruct (tx_of_vs _ _ _ I Hv) as [t Ht]. pose proof (i_vs_ok _ I _ _ _ Hv Ht) as OK.
    split; [|split; [intro; eapply is_done_upd_accts; eauto|apply vs_only_set_vs]].
    eapply inv1_set_vs; eauto. intros t' Ht'. assert (t' = t) by congruence; subst t'.
    apply vs_ok_acquire; auto; [congruence|]. intros e He.
    pose proof (vo_accts _ _ _ _ OK a) as LA. rewrite Ha, He in LA. destruct LA as [L1 L2]. cbn in L1, L2.
    destruct (entry_rw _ _ _ He) as [->| ->]; destruct (v_done v); try discriminate.
    split; cbn; auto. split; auto. split; auto. eapply dep_done_earlier; eauto. tauto.
  - destruct (tx_of_vs _ _ _ I Hv) as [t Ht]. pose proof (i_vs_ok _ I _ _ _ Hv Ht) as OK.
    split; [|split; [intro; eapply is_done_upd_accts; eauto|apply vs_only_set_vs]].
    eapply inv1_set_vs; eauto. intros t' Ht'. assert (t' = t) by congruence; subst t'.
    apply vs_ok_acquire; auto; [congruence|]. intros e He.
    pose proof (vo_accts _ _ _ _ OK a) as LA. rewrite Ha, He in LA. destruct LA as [L1 L2]. cbn in L1, L2.
    split; cbn; auto. split; [|eapply dep_done_earlier; eauto; tauto].
    destruct (v_done v); auto. left. destruct (entry_rw _ _ _ He) as [->| ->]; auto. congruence.
  - split; auto. split; auto using vs_only_refl.
  - split; auto. split; auto using vs_only_refl.
  - destruct (realize_base_inv1 _ _ _ _ I Hv R) as (I' & S & _ & _).
    split; auto. split; [intro; eapply st_sim_done; eauto|apply S].
Qed.

(* ------------------------------------------------------------------ *)
(* changes outside the virtual states                                   *)

Lemma is_done_vs_eq g g' : g_vs g' = g_vs g -> forall m, is_done g' m = is_done g m.
Proof. intros H m. unfold is_done. now rewrite H. Qed.

Lemma inv1_frame g g' : Inv1 g -> g_vs g' = g_vs g -> g_disp g' = g_disp g ->
  g_lockers g' = g_lockers g -> g_wlocker g' = g_wlocker g ->
  (forall i, finishedb g' i = finishedb g i) -> (forall i, startedb g' i = startedb g i) ->
  (forall i, g_work g' i = None <-> g_work g i = None) -> Inv1 g'.
Proof.
  intros [I1 I2 I3 I4 I5 I6 I7] Hvs Hd Hl Hw F S W.
  assert (DM : done_mono g g') by (intros m; rewrite (is_done_vs_eq _ _ Hvs); auto).
  assert (Dc : dcount g' = dcount g) by (unfold dcount; now rewrite Hd).
  assert (Sc : scount g' = scount g) by (unfold scount; now rewrite Hd).
  constructor.
  - now rewrite Hd.
  - intros i Hi. rewrite Hvs. apply I2. congruence.
  - intros i Hi. rewrite Hvs. apply I3. congruence.
  - intros i Hi. rewrite Sc in Hi. destruct (I4 i Hi) as [p Hp].
    destruct (g_work g' i) eqn:E; eauto. apply W in E. congruence.
  - intros i Hi. rewrite Sc in Hi. apply W. auto.
  - intros i v t Hv Ht. rewrite Hvs in Hv. eapply vs_ok_mono; eauto; rewrite S; auto.
  - intro a. unfold get_locker. rewrite Hl, Hw, Dc. apply I7.
Qed.

Lemma inv1_set_work g i p : Inv1 g -> g_work g i <> None ->
  finishedb (set_work g i p) i = finishedb g i ->
  (startedb (set_work g i p) i = true -> startedb g i = true \/
     forall v t, g_vs g i = Some v -> nth_error txs i = Some t ->
                 (world_lock (reqs_of t) <> NoLock -> v_base v <> None) /\
                 exists s, v_snap v = Some s /\ (world_lock (reqs_of t) = WriteLock -> s_base s <> None)) ->
  Inv1 (set_work g i p).
Proof.
  intros [I1 I2 I3 I4 I5 I6 I7] Hw F S.
  assert (DM : done_mono g (set_work g i p)) by (intros m H; exact H).
  constructor; auto.
  - intros m Hm. cbn. destruct (Nat.eqb m i); eauto; try (apply I4; exact Hm).
  - intros m Hm. cbn. destruct (Nat.eqb_spec m i); subst.
    + exfalso. apply Hw. apply I5. exact Hm.
    + apply I5. exact Hm.
  - intros m v t Hv Ht. cbn in Hv. destruct (Nat.eq_dec m i) as [->|Hne].
    + pose proof (I6 _ _ _ Hv Ht) as [H1 H2 H3 H4 H5 H6 H7 H8 H9 H10 H11]. constructor; auto.
      * congruence.
      * intros St Wl. destruct (S St) as [S'|S']; eauto. apply (S' _ _ Hv Ht); auto.
      * intros St. destruct (S St) as [S'|S']; eauto. apply (S' _ _ Hv Ht).
    + eapply vs_ok_mono; eauto.
      * unfold finishedb; cbn. destruct (Nat.eqb_spec m i); congruence.
      * unfold startedb; cbn. destruct (Nat.eqb_spec m i); congruence.
Qed.

(* ------------------------------------------------------------------ *)
(* Commit                                                               *)

Lemma commit_las_ok g i done a e l l' : Inv1 g -> done = false -> las_ok g i done a e l ->
  commit_las g a l = Some l' -> las_ok g i true a e l'.
Proof.
  intros I -> [L1 L2] H. unfold commit_las in H. rewrite L1 in H.
  destruct e.
  - inversion H; subst. split; auto. destruct (l_st l'); intuition congruence.
  - inversion H; subst. split; auto. destruct (l_st l'); intuition congruence.
  - destruct (l_st l) as [d| |x] eqn:St.
    + destruct (is_done g d) eqn:D; try discriminate.
      destruct (peek g d a); try discriminate. inversion H; subst. split; cbn; auto.
      split; auto. eapply dep_done_earlier; eauto. tauto.
    + inversion H; subst. split; cbn; auto. split; auto. tauto.
    + inversion H; subst. split; cbn; auto. split; auto. tauto.
  - inversion H; subst. split; auto. destruct (l_st l'); intuition congruence.
Qed.

Lemma commit_inv1 g i r q g' : Inv1 g -> g_work g i = Some (WRun q) ->
  commit (set_rct g i r) i = Some g' -> Inv1 (set_work g' i WRelease).
Proof.
  intros I Hw H. unfold commit in H. cbn [g_vs set_rct] in H.
  destruct (g_vs g i) as [v|] eqn:Hv; try discriminate.
  destruct (tx_of_vs _ _ _ I Hv) as [t Ht]. pose proof (i_vs_ok _ I _ _ _ Hv Ht) as OK.
  assert (Hnd : v_done v = false).
  { rewrite (vo_done _ _ _ _ OK). unfold finishedb. now rewrite Hw. }
  rewrite Hnd in H.
  match type of H with (if ?c then _ else _) = _ => destruct c eqn:FA; try discriminate end.
  rewrite forallb_forall in FA.
  set (accts' := fun a => match v_accts v a with
                          | Some l => match commit_las (set_rct g i r) a l with Some l' => Some l' | None => Some l end
                          | None => None end) in *.
  assert (St : startedb g i = true) by (unfold startedb; now rewrite Hw).
  assert (Hbase : world_lock (reqs_of t) <> NoLock -> forall m, m < i -> is_done g m = true).
  { intros Wl. apply (vo_base _ _ _ _ OK). apply (vo_started _ _ _ _ OK); auto. }
  assert (exists wl' cm', g' = set_vs (set_rct g i r) i (mkV wl' accts' (v_keys v) (v_base v) cm' true (v_lbase v) (v_snap v)) /\
            wl' = match world_lock (reqs_of t) with WriteLock => WriteUnlock | x => x end /\
            (cm' <> None -> v_committed v <> None \/ world_lock (reqs_of t) = WriteLock)) as (wl' & cm' & -> & Hwl & Hcm).
  { rewrite (vo_wlock _ _ _ _ OK), Hnd in H.
    destruct (world_lock (reqs_of t)) eqn:Wl; inversion H; subst; do 2 eexists; split; eauto; split; eauto. }
  set (v' := mkV wl' accts' (v_keys v) (v_base v) cm' true (v_lbase v) (v_snap v)).
  set (g1 := set_vs (set_rct g i r) i v').
  assert (DM : done_mono g (set_work g1 i WRelease)).
  { intros m Hm. unfold is_done in *. cbn. destruct (Nat.eqb m i); auto. }
  assert (Hlas : forall a l e, v_accts v a = Some l -> entry (reqs_of t) a = Some e ->
                 exists l', accts' a = Some l' /\ las_ok (set_work g1 i WRelease) i true a e l').
  { intros a l e Ha He.
    assert (Hin : In a (v_keys v)) by (apply (vo_keys _ _ _ _ OK); congruence).
    specialize (FA a Hin). rewrite Ha in FA.
    pose proof (vo_accts _ _ _ _ OK a) as LA. rewrite Ha, He in LA.
    unfold accts'. rewrite Ha.
    destruct (commit_las (set_rct g i r) a l) as [l'|] eqn:CL; try discriminate.
    exists l'. split; auto. eapply las_ok_mono; eauto.
    assert (CL' : commit_las g a l = Some l') by exact CL.
    eapply commit_las_ok; eauto. }
  destruct I as [I1 I2 I3 I4 I5 I6 I7]. constructor; auto.
  - intros m Hm. cbn. destruct (Nat.eqb m i); eauto; try (apply I2; exact Hm).
  - intros m Hm. cbn. destruct (Nat.eqb_spec m i); subst; auto.
    rewrite I3 in Hv by exact Hm. discriminate.
  - intros m Hm. cbn. destruct (Nat.eqb m i); eauto; try (apply I4; exact Hm).
  - intros m Hm. cbn. destruct (Nat.eqb_spec m i); subst; auto.
    rewrite I5 in Hw by exact Hm. discriminate.
  - intros m vm tm Hvm Htm. cbn in Hvm. destruct (Nat.eq_dec m i) as [->|Hne].
    + rewrite Nat.eqb_refl in Hvm. inversion Hvm; subst vm. assert (tm = t) by congruence; subst tm.
      constructor; cbn.
      * exact Hwl.
      * intro a. pose proof (vo_accts _ _ _ _ OK a) as LA.
        destruct (v_accts v a) as [l|] eqn:Ha, (entry (reqs_of t) a) as [e|] eqn:He; try tauto.
        -- destruct (Hlas a l e Ha He) as (l' & -> & Hl'). exact Hl'.
        -- unfold accts'. now rewrite Ha.
      * apply (vo_keys _ _ _ _ OK).
      * unfold finishedb; cbn. now rewrite Nat.eqb_refl.
      * intros Hb m Hm. apply DM. apply (vo_base _ _ _ _ OK); auto.
      * intros Hc m Hm. destruct (Nat.eq_dec m i) as [->|].
        -- unfold is_done; cbn. now rewrite Nat.eqb_refl.
        -- apply DM. destruct (Hcm Hc) as [Hc'|Hc'].
           ++ apply (vo_comm _ _ _ _ OK); auto.
           ++ apply Hbase; [congruence|lia].
      * intros _. apply (vo_started _ _ _ _ OK); auto.
      * intros _ a Ea j Hj Ej. apply DM. apply can_write_spec in Ea as [Ea|Ea].
        -- apply Hbase; [congruence|lia].
        -- pose proof (vo_accts _ _ _ _ OK a) as LA. rewrite Ea in LA.
           destruct (v_accts v a) as [l|] eqn:Ha; try tauto.
           destruct (Hlas a l _ Ha Ea) as (l' & Hl' & [L1 L2]).
           assert (ED : earlier_done (set_work g1 i WRelease) i a).
           { destruct (l_st l'); try tauto. destruct L2 as [_ L2]. specialize (L2 eq_refl). discriminate. }
           (* earlier_done in the new state talks about the same flags for j < i *)
           specialize (ED j Hj Ej). unfold is_done in *. cbn in ED.
           destruct (Nat.eqb_spec j i); [lia|exact ED].
      * apply (vo_base0 _ _ _ _ OK).
      * intros _. apply (vo_snap _ _ _ _ OK). exact St.
      * intros a Ha. exfalso. pose proof (vo_accts _ _ _ _ OK a) as LA.
        destruct (v_accts v a) as [l|] eqn:Hl; [|unfold accts' in Ha; rewrite Hl in Ha; discriminate].
        destruct (entry (reqs_of t) a) as [e|] eqn:He; try contradiction.
        destruct (Hlas a l e Hl He) as (l' & El' & [L1 _]). rewrite El' in Ha. inversion Ha; subst l'.
        cbn in L1. destruct e; discriminate.
    + assert (Hvm' : g_vs g m = Some vm) by (destruct (Nat.eqb_spec m i); congruence).
      eapply vs_ok_mono; eauto.
      * unfold finishedb; cbn. destruct (Nat.eqb_spec m i); congruence.
      * unfold startedb; cbn. destruct (Nat.eqb_spec m i); congruence.
Qed.

(* ------------------------------------------------------------------ *)
(* worker steps                                                         *)

Lemma access_keep g i a g' h v : Inv1 g -> access g i a = Some (g', h) -> g_vs g i = Some v ->
  exists v', g_vs g' i = Some v' /\ (v_base v <> None -> v_base v' <> None) /\ v_snap v' = v_snap v.
Proof.
  intros I H Hv. destruct (access_cases _ _ _ _ _ H) as
    [v0 d Hv0 Ha D -> ->|v0 l d x Hv0 Ha Hl D P -> ->|v0 l Hv0 Ha -> ->|v0 l x Hv0 Ha -> ->|v0 v' Hv0 Ha W R Hv' Hh Hb'];
  assert (v0 = v) by congruence; subst v0.
  - eexists. split; [cbn; now rewrite Nat.eqb_refl|]. auto.
  - eexists. split; [cbn; now rewrite Nat.eqb_refl|]. auto.
  - eauto.
  - eauto.
  - destruct (realize_base_inv1 _ _ _ _ I Hv R) as (_ & [_ S] & (v'' & Hv'' & B & _) & _).
    specialize (S i). rewrite Hv, Hv'' in S. destruct S as (_ & _ & _ & _ & _ & _ & _ & Sn). eauto.
Qed.

Lemma access_base g i a g' h v : Inv1 g -> access g i a = Some (g', h) -> g_vs g i = Some v ->
  v_base v <> None -> exists v', g_vs g' i = Some v' /\ v_base v' <> None.
Proof.
  intros I H Hv Hb. destruct (access_keep _ _ _ _ _ _ I H Hv) as (v' & Hv' & B & _). eauto.
Qed.

Lemma not_done_of_phase g i v t : Inv1 g -> g_vs g i = Some v -> nth_error txs i = Some t ->
  finishedb g i = false -> v_done v = false /\ v_committed v = None /\ v_wlock v = world_lock (reqs_of t).
Proof.
  intros I Hv Ht F. pose proof (i_vs_ok _ I _ _ _ Hv Ht) as OK.
  assert (D : v_done v = false) by (rewrite (vo_done _ _ _ _ OK); auto).
  split; auto. split.
  - destruct (v_committed v) eqn:C; auto. exfalso.
    assert (is_done g i = true) by (apply (vo_comm _ _ _ _ OK); [congruence|lia]).
    unfold is_done in H. rewrite Hv in H. congruence.
  - rewrite (vo_wlock _ _ _ _ OK), D. auto.
Qed.

Lemma vs_ok_set_snap g i t v s : g_vs g i = Some v -> vs_ok g i t v -> startedb g i = false ->
  (forall a, v_accts v a = Some (mkLas WriteLock SLive) -> s_accts s a <> None) ->
  vs_ok (set_vs g i (set_snap v s)) i t (set_snap v s).
Proof.
  intros Hv OK Hs Hl.
  assert (DM : done_mono g (set_vs g i (set_snap v s))) by (eapply done_mono_set_vs; eauto).
  destruct OK as [H1 H2 H3 H4 H5 H6 H7 H8 H9 H10 H11]. constructor; cbn.
  - exact H1.
  - intro a. specialize (H2 a). destruct (v_accts v a), (entry (reqs_of t) a); auto.
    eapply las_ok_mono; eauto.
  - exact H3.
  - exact H4.
  - intros Hb m Hm. apply DM. auto.
  - intros Hc m Hm. apply DM. auto.
  - exact H7.
  - intros Hd x Hx. eapply earlier_done_mono; eauto.
  - exact H9.
  - intro St. change (startedb g i = true) in St. congruence.
  - intros a Ha. right. left. eauto.
Qed.

Lemma take_snapshot_live g v t i a : vs_ok g i t v -> v_committed v = None -> v_done v = false ->
  v_accts v a = Some (mkLas WriteLock SLive) -> s_accts (take_snapshot g v) a <> None.
Proof.
  intros OK Hc Hnd Ha. unfold take_snapshot. rewrite Hc.
  destruct (v_wlock v) eqn:W; cbn; rewrite ?Ha; try discriminate.
  exfalso. rewrite (vo_wlock _ _ _ _ OK), Hnd in W.
  pose proof (vo_accts _ _ _ _ OK a) as LA. rewrite Ha, (entry_world_write _ a W) in LA. exact LA.
Qed.

(* the state in which the worker of i makes its first access: a world locker has
   realized its base, the snapshot is taken *)
Lemma start_prefix g i t v g' : Inv1 g -> g_work g i = Some WStart ->
  nth_error txs i = Some t -> g_vs g i = Some v -> step_start txs g i = Some g' ->
  exists g1 v1, Inv1 g1 /\ st_sim g g1 /\ g_vs g1 i = Some v1 /\
    v_done v1 = false /\ v_committed v1 = None /\ v_wlock v1 = world_lock (reqs_of t) /\
    (world_lock (reqs_of t) <> NoLock -> v_base v1 <> None) /\
    (v_base v = None -> world_lock (reqs_of t) <> NoLock -> forall m, m < i -> is_done g m = true) /\
    Inv1 (set_vs g1 i (set_snap v1 (take_snapshot g1 v1))) /\
    match access (set_vs g1 i (set_snap v1 (take_snapshot g1 v1))) i SYS with
    | Some (g2, _) => Some (set_work g2 i (WRun (tx_prog t)))
    | None => None
    end = Some g' /\
    (g1 = g \/ (realize_base g i = Some g1 /\ v_wlock v <> NoLock)).
Proof.
  intros I Hw Ht Hv H. unfold step_start in H. rewrite Ht, Hv in H.
  assert (F : finishedb g i = false) by (unfold finishedb; now rewrite Hw).
  destruct (not_done_of_phase _ _ _ _ I Hv Ht F) as (Hnd & Hc & Hwl).
  rewrite Hc, Hwl in H.
  assert (exists g1, Inv1 g1 /\ st_sim g g1 /\
            (exists v1, g_vs g1 i = Some v1 /\ (world_lock (reqs_of t) <> NoLock -> v_base v1 <> None)) /\
            (v_base v = None -> world_lock (reqs_of t) <> NoLock -> forall m, m < i -> is_done g m = true) /\
            match g_vs g1 i with
            | Some v1 =>
                match access (set_vs g1 i (set_snap v1 (take_snapshot g1 v1))) i SYS with
                | Some (g2, _) => Some (set_work g2 i (WRun (tx_prog t)))
                | None => None
                end
            | None => None
            end = Some g' /\
            (g1 = g \/ (realize_base g i = Some g1 /\ v_wlock v <> NoLock))) as (g1 & I1 & S1 & (v1 & Hv1 & Hb1) & Hpred & H1 & Org).
  { destruct (world_lock (reqs_of t)) eqn:Wl.
    - exists g. split; auto. split; [apply st_sim_refl|]. split; [exists v; split; auto; congruence|].
      split; [congruence|]. split; [exact H|auto].
    - destruct (realize_base g i) as [g1|] eqn:R; try discriminate.
      destruct (realize_base_inv1 _ _ _ _ I Hv R) as (I1 & S & (v1 & Hv1 & B & _) & P).
      exists g1. split; auto. split; auto. split; eauto. split; auto. split; auto. right. split; auto. congruence.
    - destruct (realize_base g i) as [g1|] eqn:R; try discriminate.
      destruct (realize_base_inv1 _ _ _ _ I Hv R) as (I1 & S & (v1 & Hv1 & B & _) & P).
      exists g1. split; auto. split; auto. split; eauto. split; auto. split; auto. right. split; auto. congruence.
    - exfalso. destruct (world_lock_cases (reqs_of t)) as [E|[E|E]]; congruence. }
  rewrite Hv1 in H1.
  assert (Hw1 : g_work g1 i = Some WStart) by (destruct S1 as [(_ & W & _) _]; now rewrite W).
  assert (F1 : finishedb g1 i = false) by (unfold finishedb; now rewrite Hw1).
  destruct (not_done_of_phase _ _ _ _ I1 Hv1 Ht F1) as (Hnd1 & Hc1 & Hwl1).
  exists g1, v1. repeat (split; [assumption|]). split; [|split; assumption].
  eapply inv1_set_vs; eauto. intros t' Ht'. assert (t' = t) by congruence; subst t'.
  apply vs_ok_set_snap; auto.
  - eapply i_vs_ok; eauto.
  - unfold startedb. now rewrite Hw1.
  - intros a Ha. eapply take_snapshot_live; eauto. eapply i_vs_ok; eauto.
Qed.

Lemma step_start_inv1 g i g' : Inv1 g -> g_work g i = Some WStart -> step_start txs g i = Some g' -> Inv1 g'.
Proof.
  intros I Hw H.
  destruct (nth_error txs i) as [t|] eqn:Ht; [|unfold step_start in H; rewrite Ht in H; discriminate].
  destruct (g_vs g i) as [v|] eqn:Hv; [|unfold step_start in H; rewrite Ht, Hv in H; discriminate].
  destruct (start_prefix _ _ _ _ _ I Hw Ht Hv H) as (g1 & v1 & I1 & S1 & Hv1 & Hnd1 & Hc1 & Hwl1 & Hb1 & _ & I1' & H1 & _).
  set (g1' := set_vs g1 i (set_snap v1 (take_snapshot g1 v1))) in *.
  destruct (access g1' i SYS) as [[g2 h]|] eqn:A; try discriminate. inversion H1; subst g'. clear H1.
  destruct (access_inv1 _ _ _ _ _ I1' A) as (I2 & D2 & VO2).
  assert (Hw2 : g_work g2 i = Some WStart).
  { destruct S1 as [(_ & W1 & _) _]. destruct VO2 as (_ & W2 & _). rewrite W2. cbn. rewrite W1. auto. }
  assert (Hv1' : g_vs g1' i = Some (set_snap v1 (take_snapshot g1 v1))) by (unfold g1'; cbn; now rewrite Nat.eqb_refl).
  destruct (access_keep _ _ _ _ _ _ I1' A Hv1') as (v2 & Hv2 & B2 & Sn2).
  apply inv1_set_work; auto.
  - congruence.
  - unfold finishedb. cbn. now rewrite Nat.eqb_refl, Hw2.
  - intros _. right. intros v2' t2 Hv2' Ht2. assert (t2 = t) by congruence; subst t2.
    assert (v2' = v2) by congruence; subst v2'. split.
    + intro Wl. apply B2. cbn. auto.
    + rewrite Sn2. cbn. eexists. split; eauto. intro Ww.
      unfold take_snapshot. rewrite Hc1, Hwl1, Ww. cbn. discriminate.
Qed.

Lemma reset_real g i g' : reset g i = Some g' -> exists R, g' = set_real g R.
Proof.
  unfold reset. destruct (g_vs g i) as [v|]; try discriminate.
  destruct (v_done v); try discriminate. destruct (v_snap v) as [s|]; try discriminate.
  destruct (v_wlock v);
  try (match goal with |- (if ?c then _ else _) = _ -> _ => destruct c; try discriminate end;
       intro E; inversion E; eauto).
  destruct (s_base s); try discriminate. intro E; inversion E; eauto.
Qed.

Lemma step_worker_inv1 g i g' : Inv1 g -> step_worker txs g i = Some g' -> Inv1 g'.
Proof.
  intros I H. unfold step_worker in H.
  destruct (g_work g i) as [[|p| |]|] eqn:Hw; try discriminate.
  - eapply step_start_inv1; eauto.
  - destruct p as [r|a k|a x k|k].
    + destruct (commit (set_rct g i r) i) as [g1|] eqn:C; try discriminate.
      inversion H; subst. eapply commit_inv1; eauto.
    + destruct (access g i a) as [[g1 h]|] eqn:A; try discriminate. inversion H; subst. clear H.
      destruct (access_inv1 _ _ _ _ _ I A) as (I1 & D1 & VO).
      assert (Hw1 : g_work g1 i = Some (WRun (Read a k))) by (destruct VO as (_ & W1 & _); rewrite W1; auto).
      apply inv1_set_work; auto.
      * congruence.
      * unfold finishedb. cbn. now rewrite Nat.eqb_refl, Hw1.
      * intros _. left. unfold startedb. now rewrite Hw1.
    + destruct (access g i a) as [[g1 [|y]]|] eqn:A; try discriminate. inversion H; subst. clear H.
      destruct (access_inv1 _ _ _ _ _ I A) as (I1 & D1 & VO).
      assert (Hw1 : g_work g1 i = Some (WRun (Write a x k))) by (destruct VO as (_ & W1 & _); rewrite W1; auto).
      assert (I2 : Inv1 (set_real g1 (upd (g_real g1) a x))).
      { eapply inv1_frame; eauto; intros; reflexivity. }
      apply inv1_set_work; auto.
      * cbn. congruence.
      * unfold finishedb. cbn. now rewrite Nat.eqb_refl, Hw1.
      * intros _. left. unfold startedb. cbn. now rewrite Hw1.
    + destruct (reset g i) as [g1|] eqn:R; try discriminate. inversion H; subst. clear H.
      destruct (reset_real _ _ _ R) as [Rw ->].
      assert (I2 : Inv1 (set_real g Rw)).
      { eapply inv1_frame; eauto; intros; reflexivity. }
      apply inv1_set_work; auto.
      * cbn. congruence.
      * unfold finishedb. cbn. now rewrite Nat.eqb_refl, Hw.
      * intros _. left. unfold startedb. cbn. now rewrite Hw.
  - inversion H; subst. clear H.
    assert (I2 : Inv1 (set_tokens g (S (g_tokens g)))).
    { eapply inv1_frame; eauto; intros; reflexivity. }
    apply inv1_set_work; auto.
    + cbn. congruence.
    + unfold finishedb. cbn. now rewrite Nat.eqb_refl, Hw.
    + intros _. left. unfold startedb. cbn. now rewrite Hw.
Qed.

(* ------------------------------------------------------------------ *)
(* GetFuture                                                            *)

Definition base_for (g : gstate) (i : nat) : option world :=
  match i with
  | O => Some (g_real g)
  | S j => match g_vs g j with Some p => v_committed p | None => None end
  end.

Lemma get_future_spec g i t :
  exists vnew,
    (forall m, g_vs (get_future g i t) m = if Nat.eqb m i then Some vnew else g_vs g m) /\
    v_wlock vnew = world_lock (reqs_of t) /\ v_done vnew = false /\ v_committed vnew = None /\
    v_base vnew = base_for g i /\
    (forall a, v_accts vnew a = match entry (reqs_of t) a with Some l => Some (init_las g a l) | None => None end) /\
    (forall a, entry (reqs_of t) a <> None -> In a (v_keys vnew)) /\
    (forall a, get_locker (get_future g i t) a = if can_write t a then Some i else get_locker g a) /\
    g_work (get_future g i t) = g_work g /\ g_disp (get_future g i t) = g_disp g /\
    g_real (get_future g i t) = g_real g /\ g_tokens (get_future g i t) = g_tokens g /\
    g_rcts (get_future g i t) = g_rcts g /\ g_final (get_future g i t) = g_final g.
Proof.
  unfold get_future. fold (base_for g i).
  destruct (world_lock (reqs_of t)) eqn:Wl.
  1,2,4: (eexists; split; [intro m; cbn; reflexivity|]; cbn; repeat split; auto;
    [ intros a Ha; apply entry_keys; auto
    | intro a; unfold get_locker; cbn; unfold can_write; rewrite Wl;
      destruct (entry_cases (reqs_of t) a) as [E|[E|E]]; rewrite E; auto ]).
  eexists; split; [intro m; cbn; reflexivity|]; cbn; repeat split; auto.
  - intro a. now rewrite (entry_world_write _ a Wl).
  - intros a Ha. rewrite (entry_world_write _ a Wl) in Ha. congruence.
  - intro a. unfold get_locker, can_write. cbn. now rewrite Wl.
Qed.

Lemma get_future_snap g i t vn : g_vs (get_future g i t) i = Some vn -> v_snap vn = None.
Proof.
  unfold get_future. destruct (world_lock (reqs_of t)); cbn; rewrite Nat.eqb_refl;
  intro E; inversion E; reflexivity.
Qed.

Lemma get_future_lbase g i t vn a : g_vs (get_future g i t) i = Some vn -> v_lbase vn a = None.
Proof.
  unfold get_future. destruct (world_lock (reqs_of t)); cbn; rewrite Nat.eqb_refl;
  intro E; inversion E; reflexivity.
Qed.

Lemma prepare_inv1 g i t : Inv1 g -> g_disp g = DPrepare i -> nth_error txs i = Some t ->
  Inv1 (set_disp (get_future g i t) (DSpawn i)).
Proof.
  intros I Hd Ht.
  destruct (get_future_spec g i t) as (vn & Hvs & Wn & Dn & Cn & Bn & An & Kn & Ln & Wk & _).
  set (g' := set_disp (get_future g i t) (DSpawn i)).
  assert (Hdc : dcount g = i) by (unfold dcount; now rewrite Hd).
  assert (Hsc : scount g = i) by (unfold scount; now rewrite Hd).
  assert (Hin : i < n) by (apply nth_error_Some; congruence).
  assert (Hnone : g_vs g i = None) by (apply (i_vs_none _ I); lia).
  assert (Dsame : forall m, is_done g' m = is_done g m).
  { intro m. unfold is_done, g'. cbn. rewrite Hvs. destruct (Nat.eqb_spec m i); subst; auto.
    now rewrite Dn, Hnone. }
  assert (DM : done_mono g g') by (intros m Hm; now rewrite Dsame).
  constructor.
  - cbn. exact Hin.
  - intros m Hm. unfold g'. cbn in *. rewrite Hvs. destruct (Nat.eqb_spec m i); eauto.
    apply (i_vs_some _ I). lia.
  - intros m Hm. unfold g'. cbn in *. rewrite Hvs. destruct (Nat.eqb_spec m i); [lia|].
    apply (i_vs_none _ I). lia.
  - intros m Hm. unfold g'. cbn in *. rewrite Wk. apply (i_wk_some _ I). lia.
  - intros m Hm. unfold g'. cbn in *. rewrite Wk. apply (i_wk_none _ I). lia.
  - intros m v tm Hv Htm. unfold g' in Hv. cbn in Hv. rewrite Hvs in Hv.
    assert (Fm : finishedb g' m = finishedb g m) by (unfold finishedb, g'; cbn; now rewrite Wk).
    assert (Sm : startedb g' m = startedb g m) by (unfold startedb, g'; cbn; now rewrite Wk).
    destruct (Nat.eq_dec m i) as [->|Hne].
    + rewrite Nat.eqb_refl in Hv. inversion Hv; subst v. assert (tm = t) by congruence; subst tm.
      assert (Wnone : g_work g i = None) by (apply (i_wk_none _ I); lia).
      constructor.
      * rewrite Dn. exact Wn.
      * intro a. rewrite An, Dn. destruct (entry (reqs_of t) a) as [e|] eqn:He; auto.
        unfold init_las. rewrite (i_lockers _ I a), Hdc.
        destruct (last_writer txs i a) as [d|] eqn:L.
        -- split; cbn; auto.
        -- assert (ED : earlier_done g' i a).
           { intros j Hj Ej. exfalso. eapply last_writer_None; eauto. }
           destruct (entry_rw _ _ _ He) as [->| ->]; split; cbn; auto.
      * exact Kn.
      * rewrite Dn, Fm. unfold finishedb. now rewrite Wnone.
      * rewrite Bn. intros Hb j Hj. apply DM. destruct i as [|i']; [lia|]. cbn in Hb.
        destruct (g_vs g i') as [p|] eqn:Hp; try congruence.
        destruct (tx_of_vs _ _ _ I Hp) as [tp Htp].
        apply (vo_comm _ _ _ _ (i_vs_ok _ I _ _ _ Hp Htp)); auto. lia.
      * rewrite Cn. congruence.
      * rewrite Sm. unfold startedb. rewrite Wnone. discriminate.
      * rewrite Dn. discriminate.
      * rewrite Bn. intros ->. cbn. congruence.
      * rewrite Sm. unfold startedb. rewrite Wnone. discriminate.
      * intros a _. left. apply (get_future_snap g i t). rewrite Hvs, Nat.eqb_refl. reflexivity.
    + destruct (Nat.eqb_spec m i); [congruence|].
      apply (vs_ok_mono g g' m tm v DM Fm); [rewrite Sm; auto | eapply i_vs_ok; eauto].
  - intro a. unfold g'. cbn [dcount g_disp set_disp].
    assert (E : get_locker (set_disp (get_future g i t) (DSpawn i)) a = get_locker (get_future g i t) a) by reflexivity.
    rewrite E, Ln, (last_writer_S _ _ _ _ Ht). unfold eff_writer.
    destruct (can_write t a); auto. rewrite (i_lockers _ I a), Hdc. auto.
Qed.

(* ------------------------------------------------------------------ *)
(* dispatcher steps                                                     *)

Lemma inv1_frame2 g g' : Inv1 g -> g_vs g' = g_vs g ->
  dcount g' = dcount g -> scount g' = scount g ->
  match g_disp g' with DPrepare i => i <= n | DSpawn i => i < n | DDone => True end ->
  g_lockers g' = g_lockers g -> g_wlocker g' = g_wlocker g -> g_work g' = g_work g -> Inv1 g'.
Proof.
  intros [I1 I2 I3 I4 I5 I6 I7] Hvs Dc Sc Hd Hl Hw Wk.
  assert (DM : done_mono g g') by (intros m; rewrite (is_done_vs_eq _ _ Hvs); auto).
  constructor; auto.
  - intros i Hi. rewrite Hvs. apply I2. congruence.
  - intros i Hi. rewrite Hvs. apply I3. congruence.
  - intros i Hi. rewrite Wk. apply I4. congruence.
  - intros i Hi. rewrite Wk. apply I5. congruence.
  - intros i v t Hv Ht. rewrite Hvs in Hv. eapply vs_ok_mono; eauto.
    + unfold finishedb. now rewrite Wk.
    + unfold startedb. now rewrite Wk.
  - intro a. unfold get_locker. rewrite Hl, Hw, Dc. apply I7.
Qed.

Lemma step_disp_inv1 g g' : Inv1 g -> step_disp txs g = Some g' -> Inv1 g'.
Proof.
  intros I H. unfold step_disp in H. destruct (g_disp g) as [i|i|] eqn:Hd; try discriminate.
  - destruct (nth_error txs i) as [t|] eqn:Ht.
    + inversion H; subst. apply prepare_inv1; auto.
    + assert (Hn : n <= i) by (apply nth_error_None; auto).
      assert (Hi : i <= n) by (pose proof (i_disp _ I) as B; rewrite Hd in B; exact B).
      destruct i as [|j].
      * inversion H; subst. eapply inv1_frame2; eauto; cbn; auto; unfold dcount, scount; rewrite Hd; lia.
      * destruct (realize g j) as [g1|] eqn:R; try discriminate. inversion H; subst. clear H.
        assert (Hj : j < dcount g) by (unfold dcount; rewrite Hd; lia).
        destruct (realize_inv1 _ _ _ I Hj R) as (I1 & S1 & _).
        destruct S1 as [VO _]. destruct VO as (_ & W1 & D1 & _ & _ & L1 & WL1 & _).
        eapply inv1_frame2; eauto; cbn; auto; unfold dcount, scount; rewrite D1, Hd; lia.
  - destruct (g_tokens g) as [|k] eqn:Tk; try discriminate. inversion H; subst. clear H.
    assert (Hi : i < n) by (pose proof (i_disp _ I) as B; rewrite Hd in B; exact B).
    destruct I as [I1 I2 I3 I4 I5 I6 I7].
    assert (Dc : dcount g = S i) by (unfold dcount; now rewrite Hd).
    assert (Sc : scount g = i) by (unfold scount; now rewrite Hd).
    assert (Wn : g_work g i = None) by (apply I5; lia).
    set (g' := set_disp (set_work (set_tokens g k) i WStart) (DPrepare (S i))).
    assert (DM : done_mono g g') by (intros m Hm; exact Hm).
    constructor.
    + cbn. lia.
    + intros m Hm. cbn in *. apply I2. lia.
    + intros m Hm. cbn in *. apply I3. lia.
    + intros m Hm. cbn in *. destruct (Nat.eqb_spec m i); eauto. apply I4. lia.
    + intros m Hm. cbn in *. destruct (Nat.eqb_spec m i); [lia|]. apply I5. lia.
    + intros m v t Hv Ht. cbn in Hv. eapply vs_ok_mono; eauto.
      * unfold finishedb, g'. cbn. destruct (Nat.eqb_spec m i); subst; auto. now rewrite Wn.
      * unfold startedb, g'. cbn. destruct (Nat.eqb_spec m i); subst; auto. discriminate.
    + intro a. unfold get_locker, g'. cbn. unfold get_locker in I7. rewrite I7, Dc. reflexivity.
Qed.

Lemma step_inv1 g a g' : Inv1 g -> step txs g a = Some g' -> Inv1 g'.
Proof. destruct a; cbn; eauto using step_disp_inv1, step_worker_inv1. Qed.

Lemma init_inv1 level w : Inv1 (init_state level w).
Proof.
  constructor; cbn; try lia; try discriminate; auto.
Qed.

Lemma run_inv1 sched : forall g, Inv1 g -> Inv1 (run txs g sched).
Proof.
  induction sched as [|a s IH]; intros g I; cbn; auto.
  destruct (step txs g a) eqn:E; eauto using step_inv1.
Qed.

(* ------------------------------------------------------------------ *)
(* enabledness: a worker all of whose predecessors have committed can move *)

Lemma chain_le g j m : In m (chain g j) -> m <= j.
Proof.
  revert m; induction j as [|j IH]; intros m H; cbn in H.
  - destruct (g_vs g 0) as [v|]; [|contradiction]. destruct (v_committed v); [contradiction|].
    destruct H as [<-|H]; auto. destruct (v_base v); contradiction.
  - destruct (g_vs g (S j)) as [v|]; [|contradiction]. destruct (v_committed v); [contradiction|].
    destruct H as [<-|H]; auto. destruct (v_base v); [contradiction|]. apply IH in H. lia.
Qed.

Lemma realize_enabled g j : (forall m, m <= j -> is_done g m = true) -> exists g', realize g j = Some g'.
Proof.
  intro D. unfold realize.
  assert (E : forallb (is_done g) (chain g j) = true).
  { apply forallb_forall. intros m Hm. apply D. eapply chain_le; eauto. }
  rewrite E. destruct (g_vs g j) as [v|]; eauto. destruct (v_committed v); eauto.
Qed.

Lemma realize_base_enabled g i v t : Inv1 g -> g_vs g i = Some v -> nth_error txs i = Some t ->
  (forall m, m < i -> is_done g m = true) -> exists g', realize_base g i = Some g'.
Proof.
  intros I Hv Ht D. unfold realize_base. rewrite Hv.
  destruct (v_base v) eqn:B; eauto.
  destruct i as [|j].
  - exfalso. apply (vo_base0 _ _ _ _ (i_vs_ok _ I _ _ _ Hv Ht)); auto.
  - destruct (realize_enabled g j) as [g1 R]; [intros; apply D; lia|].
    rewrite R. pose proof (vs_created _ _ _ I Hv) as Hc.
    assert (Hj : j < dcount g) by lia.
    destruct (realize_inv1 _ _ _ I Hj R) as (_ & _ & _ & (p & Hp & _) & Oth).
    rewrite Hp, (Oth (S j)) by lia. rewrite Hv. eauto.
Qed.

Lemma done_started g i : Inv1 g -> is_done g i = true -> startedb g i = true.
Proof.
  intros I D. unfold is_done in D. destruct (g_vs g i) as [v|] eqn:Hv; try discriminate.
  destruct (tx_of_vs _ _ _ I Hv) as [t Ht]. pose proof (vo_done _ _ _ _ (i_vs_ok _ I _ _ _ Hv Ht)) as F.
  rewrite D in F. unfold finishedb in F. unfold startedb. destruct (g_work g i) as [[| | |]|]; congruence.
Qed.

(* GetAccountROState of a depend that has committed succeeds *)
Lemma peek_ok g i a d : Inv1 g -> last_writer txs i a = Some d -> is_done g d = true ->
  exists x, peek g d a = Some x.
Proof.
  intros I L D. destruct (last_writer_Some _ _ _ _ L) as (_ & [td [Htd Ed]] & _).
  pose proof (done_started _ _ I D) as St.
  unfold is_done in D. destruct (g_vs g d) as [vd|] eqn:Hvd; try discriminate.
  pose proof (i_vs_ok _ I _ _ _ Hvd Htd) as OK. unfold peek. rewrite Hvd.
  apply can_write_spec in Ed as [Ed|Ed].
  - pose proof (vo_accts _ _ _ _ OK a) as LA. rewrite (entry_world_write _ a Ed) in LA.
    destruct (v_accts vd a); try contradiction.
    rewrite (vo_wlock _ _ _ _ OK), D, Ed.
    assert (B : v_base vd <> None) by (apply (vo_started _ _ _ _ OK); auto; congruence).
    destruct (v_base vd); try congruence. destruct (v_committed vd); eauto.
  - pose proof (vo_accts _ _ _ _ OK a) as LA. rewrite Ed in LA.
    destruct (v_accts vd a) as [[l st]|]; try contradiction. destruct LA as [_ L2]. cbn in L2.
    destruct st as [d'| |x]; eauto.
    destruct L2 as [_ L2]. specialize (L2 eq_refl). congruence.
Qed.

Lemma access_enabled g i a v t : Inv1 g -> g_vs g i = Some v -> nth_error txs i = Some t ->
  v_done v = false -> (forall m, m < i -> is_done g m = true) -> can_read t a = true ->
  exists g' h, access g i a = Some (g', h) /\ (can_write t a = true -> h = HLive).
Proof.
  intros I Hv Ht Hnd D Cr. pose proof (i_vs_ok _ I _ _ _ Hv Ht) as OK.
  pose proof (vo_accts _ _ _ _ OK a) as LA. unfold access. rewrite Hv.
  destruct (v_accts v a) as [[l st]|] eqn:Ha.
  - destruct (entry (reqs_of t) a) as [e|] eqn:He; try contradiction.
    destruct LA as [L1 L2]. cbn in L1, L2. rewrite Hnd in L1. subst l.
    destruct st as [d| |x].
    + destruct L2 as [L2 _]. destruct (last_writer_Some _ _ _ _ L2) as (Hd & _).
      rewrite (D d Hd). destruct (peek_ok _ _ _ _ I L2 (D d Hd)) as [x Px]. rewrite Px.
      destruct (entry_rw _ _ _ He) as [->| ->]; do 2 eexists; split; eauto.
      intro Cw. apply can_write_spec in Cw as [Cw|Cw]; [|congruence].
      rewrite (entry_world_write _ a Cw) in He. discriminate.
    + do 2 eexists; split; eauto.
    + do 2 eexists; split; eauto. intro Cw. exfalso.
      destruct L2 as [[L2|L2] _]; [|congruence]. subst e.
      apply can_write_spec in Cw as [Cw|Cw]; [|congruence].
      rewrite (entry_world_write _ a Cw) in He. discriminate.
  - destruct (entry (reqs_of t) a) eqn:He; try contradiction.
    assert (Wl : world_lock (reqs_of t) <> NoLock).
    { apply can_read_spec in Cr as [Cr|Cr]; auto; congruence. }
    rewrite (vo_wlock _ _ _ _ OK), Hnd.
    destruct (realize_base_enabled _ _ _ _ I Hv Ht D) as [g1 R].
    destruct (realize_base_inv1 _ _ _ _ I Hv R) as (_ & _ & (v1 & Hv1 & B1 & _) & _).
    destruct (world_lock_cases (reqs_of t)) as [E|[E|E]]; try congruence; rewrite E, R, Hv1.
    + destruct (v_committed v1); [|destruct (v_base v1); try congruence];
      do 2 eexists; split; eauto; intro Cw; apply can_write_spec in Cw as [Cw|Cw]; congruence.
    + destruct (v_committed v1) eqn:C1; do 2 eexists; split; eauto.
      intros _. exfalso.
      (* committed != nil would mean it has committed *)
      pose proof (realize_base_inv1 _ _ _ _ I Hv R) as (I1 & S1 & (v1' & Hv1' & _ & _ & _ & Dn & Cn) & _).
      assert (v1' = v1) by congruence; subst v1'. rewrite C1 in Cn.
      assert (is_done g i = true) by (apply (vo_comm _ _ _ _ OK); [congruence|lia]).
      unfold is_done in H. rewrite Hv in H. congruence.
Qed.

Lemma commit_enabled g i v t : Inv1 g -> g_vs g i = Some v -> nth_error txs i = Some t ->
  v_done v = false -> (forall m, m < i -> is_done g m = true) -> exists g', commit g i = Some g'.
Proof.
  intros I Hv Ht Hnd D. pose proof (i_vs_ok _ I _ _ _ Hv Ht) as OK.
  unfold commit. rewrite Hv, Hnd.
  match goal with |- exists _, (if ?c then _ else _) = _ => assert (E : c = true) end.
  { apply forallb_forall. intros a _. pose proof (vo_accts _ _ _ _ OK a) as LA.
    destruct (v_accts v a) as [[l st]|]; auto.
    destruct (entry (reqs_of t) a) as [e|]; try contradiction. destruct LA as [L1 L2]. cbn in L1, L2.
    unfold commit_las. cbn. destruct l; auto. destruct st as [d| |x]; auto.
    destruct L2 as [L2 _]. destruct (last_writer_Some _ _ _ _ L2) as (Hd & _).
    rewrite (D d Hd). destruct (peek_ok _ _ _ _ I L2 (D d Hd)) as [x ->]. auto. }
  rewrite E. destruct (v_wlock v); eauto.
Qed.

(* ------------------------------------------------------------------ *)
(* tokens and remaining programs                                        *)

Hypothesis Hwd : forall i t, nth_error txs i = Some t -> well_declared t.

Definition unfinishedb (g : gstate) (i : nat) : bool :=
  match g_work g i with Some WStart | Some (WRun _) | Some WRelease => true | _ => false end.

Record Inv3 (g : gstate) : Prop := {
  i_tokens : g_tokens g = 0 -> exists i, unfinishedb g i = true;
  i_progs : forall i p, g_work g i = Some (WRun p) -> exists t, nth_error txs i = Some t /\ touches_only t p
}.

Lemma inv3_set_work g g1 i p : Inv3 g -> g_work g1 = g_work g -> g_tokens g1 = g_tokens g ->
  unfinishedb g i = true ->
  match p with
  | WStart | WRelease => True
  | WRun q => exists t, nth_error txs i = Some t /\ touches_only t q
  | WFinished => False
  end ->
  Inv3 (set_work g1 i p).
Proof.
  intros [T P] Hw Ht U Hp. constructor.
  - cbn. rewrite Ht. intro Z. exists i. unfold unfinishedb. cbn. rewrite Nat.eqb_refl.
    destruct p; auto; contradiction.
  - intros j q. cbn. destruct (Nat.eqb_spec j i); subst.
    + intro E. inversion E; subst. exact Hp.
    + rewrite Hw. apply P.
Qed.

Lemma step_worker_inv3 g i g' : Inv1 g -> Inv3 g -> step_worker txs g i = Some g' -> Inv3 g'.
Proof.
  intros I I3 H. unfold step_worker in H.
  destruct (g_work g i) as [[|p| |]|] eqn:Hw; try discriminate.
  - destruct (nth_error txs i) as [t|] eqn:Ht; [|unfold step_start in H; rewrite Ht in H; discriminate].
    destruct (g_vs g i) as [v|] eqn:Hv; [|unfold step_start in H; rewrite Ht, Hv in H; discriminate].
    destruct (start_prefix _ _ _ _ _ I Hw Ht Hv H) as (g1 & v1 & I1 & S1 & Hv1 & _ & _ & _ & _ & _ & I1' & H1 & _).
    set (g1' := set_vs g1 i (set_snap v1 (take_snapshot g1 v1))) in *.
    destruct (access g1' i SYS) as [[g2 h]|] eqn:A; try discriminate. inversion H1; subst g'.
    destruct (access_inv1 _ _ _ _ _ I1' A) as (_ & _ & (_ & W2 & _ & T2 & _)).
    destruct S1 as [(_ & W1 & _ & T1 & _) _].
    assert (W : g_work g2 = g_work g) by (rewrite W2; cbn; exact W1).
    assert (T : g_tokens g2 = g_tokens g) by (rewrite T2; cbn; exact T1).
    eapply inv3_set_work; eauto.
    + unfold unfinishedb. now rewrite Hw.
    + exists t. split; auto. apply (Hwd _ _ Ht).
  - destruct (i_progs _ I3 _ _ Hw) as (t & Ht & TO).
    assert (U : unfinishedb g i = true) by (unfold unfinishedb; now rewrite Hw).
    destruct p as [r|a k|a x k|k].
    4:{ destruct (reset g i) as [g1|] eqn:R; try discriminate. inversion H; subst.
        destruct (reset_real _ _ _ R) as [Rw ->].
        eapply (inv3_set_work g (set_real g Rw)); eauto. exists t. split; auto.
        apply touches_fail_inv in TO. exact TO. }
    + destruct (commit (set_rct g i r) i) as [g1|] eqn:C; try discriminate. inversion H; subst.
      assert (W : g_work g1 = g_work g /\ g_tokens g1 = g_tokens g).
      { unfold commit in C. cbn [g_vs set_rct] in C. destruct (g_vs g i) as [v|]; try discriminate.
        destruct (v_done v); [inversion C; subst; auto|].
        match type of C with (if ?c then _ else _) = _ => destruct c; try discriminate end.
        destruct (v_wlock v); inversion C; subst; auto. }
      destruct W. eapply inv3_set_work; eauto; exact Logic.I.
    + destruct (access g i a) as [[g1 h]|] eqn:A; try discriminate. inversion H; subst.
      destruct (access_inv1 _ _ _ _ _ I A) as (_ & _ & (_ & W & _ & T & _)).
      eapply inv3_set_work; eauto. exists t. split; auto. apply touches_read_inv in TO. apply TO.
    + destruct (access g i a) as [[g1 [|y]]|] eqn:A; try discriminate. inversion H; subst.
      destruct (access_inv1 _ _ _ _ _ I A) as (_ & _ & (_ & W & _ & T & _)).
      eapply inv3_set_work; eauto. exists t. split; auto. apply touches_write_inv in TO. apply TO.
  - inversion H; subst. destruct I3 as [T P]. constructor.
    + cbn. discriminate.
    + intros j q. cbn. destruct (Nat.eqb_spec j i); [discriminate|]. apply P.
Qed.

Lemma step_disp_inv3 g g' : Inv1 g -> Inv3 g -> step_disp txs g = Some g' -> Inv3 g'.
Proof.
  intros I [T P] H. unfold step_disp in H. destruct (g_disp g) as [i|i|] eqn:Hd; try discriminate.
  - destruct (nth_error txs i) as [t|] eqn:Ht.
    + inversion H; subst.
      destruct (get_future_spec g i t) as (vn & _ & _ & _ & _ & _ & _ & _ & _ & Wk & _ & _ & Tk & _).
      constructor; cbn.
      * rewrite Tk. intro Z. destruct (T Z) as [j U]. exists j. unfold unfinishedb in *. cbn. now rewrite Wk.
      * rewrite Wk. apply P.
    + destruct i as [|j].
      * inversion H; subst. constructor; auto.
      * destruct (realize g j) as [g1|] eqn:R; try discriminate. inversion H; subst.
        assert (Hj : j < dcount g).
        { unfold dcount. rewrite Hd. lia. }
        destruct (realize_inv1 _ _ _ I Hj R) as (_ & [(_ & W & _ & Tk & _) _] & _).
        constructor; cbn.
        -- rewrite Tk. intro Z. destruct (T Z) as [m U]. exists m. unfold unfinishedb in *. cbn. now rewrite W.
        -- rewrite W. apply P.
  - destruct (g_tokens g) as [|k] eqn:Tk; try discriminate. inversion H; subst. constructor; cbn.
    + intros _. exists i. unfold unfinishedb. cbn. now rewrite Nat.eqb_refl.
    + intros j q. destruct (Nat.eqb_spec j i); [discriminate|]. apply P.
Qed.

Lemma init_inv3 level w : level <> 0 -> Inv3 (init_state level w).
Proof. intro L. constructor; cbn; [congruence|discriminate]. Qed.

Lemma run_inv13 sched : forall g, Inv1 g -> Inv3 g -> Inv1 (run txs g sched) /\ Inv3 (run txs g sched).
Proof.
  induction sched as [|a s IH]; intros g I I3; cbn; auto.
  destruct (step txs g a) as [g'|] eqn:E; auto.
  apply IH; [eapply step_inv1; eauto|].
  destruct a; cbn in E; eauto using step_disp_inv3, step_worker_inv3.
Qed.

(* ------------------------------------------------------------------ *)
(* no deadlock                                                          *)

Lemma min_unfinished g : forall m, unfinishedb g m = true ->
  exists m0, unfinishedb g m0 = true /\ forall j, j < m0 -> unfinishedb g j = false.
Proof.
  induction m as [m IH] using lt_wf_ind. intro U.
  destruct (forallb (fun j => negb (unfinishedb g j)) (seq 0 m)) eqn:F.
  - exists m. split; auto. intros j Hj. rewrite forallb_forall in F.
    specialize (F j). rewrite in_seq in F. apply negb_true_iff. apply F. lia.
  - assert (exists j, j < m /\ unfinishedb g j = true) as (j & Hj & Uj).
    { clear - F. induction m as [|m IHm]; [cbn in F; discriminate|].
      rewrite seq_S, forallb_app in F. cbn in F. apply andb_false_iff in F as [F|F].
      - destruct (IHm F) as (j & Hj & Uj). exists j. split; auto.
      - exists m. split; auto. rewrite andb_true_r in F. now apply negb_false_iff in F. }
    eauto.
Qed.

Lemma can_write_read t a : can_write t a = true -> can_read t a = true.
Proof.
  intro H. apply can_write_spec in H. apply can_read_spec. destruct H as [H|H]; [left|right]; congruence.
Qed.

Lemma can_read_sys t : can_read t SYS = true.
Proof.
  apply can_read_spec. destruct (world_lock (reqs_of t)) eqn:W; try (left; congruence).
  right. apply entry_sys; auto.
Qed.

Lemma unfinished_spawned g i : Inv1 g -> unfinishedb g i = true -> i < scount g.
Proof.
  intros I U. destruct (Nat.lt_ge_cases i (scount g)); auto.
  unfold unfinishedb in U. rewrite (i_wk_none _ I i) in U by assumption. discriminate.
Qed.

Lemma finished_done g j : Inv1 g -> j < scount g -> unfinishedb g j = false -> is_done g j = true.
Proof.
  intros I Hj U. destruct (i_wk_some _ I j Hj) as [p Hp].
  pose proof (scount_le_dcount g) as Hle.
  destruct (i_vs_some _ I j) as [v Hv]; [lia|]. destruct (tx_of_vs _ _ _ I Hv) as [t Ht].
  unfold is_done. rewrite Hv. rewrite (vo_done _ _ _ _ (i_vs_ok _ I _ _ _ Hv Ht)).
  unfold unfinishedb in U. unfold finishedb. rewrite Hp in *. destruct p; congruence.
Qed.

(* Reset never hits a nil snapshot *)
Lemma reset_enabled g i v t : Inv1 g -> g_vs g i = Some v -> nth_error txs i = Some t ->
  v_done v = false -> startedb g i = true -> exists g', reset g i = Some g'.
Proof.
  intros I Hv Ht Hnd St. pose proof (i_vs_ok _ I _ _ _ Hv Ht) as OK.
  destruct (vo_snap _ _ _ _ OK St) as (s & Hs & Hsb).
  unfold reset. rewrite Hv, Hnd, Hs.
  assert (Hwl : v_wlock v = world_lock (reqs_of t)) by (rewrite (vo_wlock _ _ _ _ OK), Hnd; auto).
  assert (FA : forallb (fun a => match reset_val v s a with Some _ => true | None => false end) (v_keys v) = true).
  { apply forallb_forall. intros a _. unfold reset_val.
    pose proof (vo_accts _ _ _ _ OK a) as LA.
    destruct (v_accts v a) as [[l st]|] eqn:Ha; auto. destruct l; auto.
    destruct (s_accts s a) eqn:Sa; auto. destruct st as [d| |x]; auto.
    - destruct (s_base s); auto.
      destruct (vo_lbase _ _ _ _ OK a Ha) as [N|[(s' & Hs' & N)|N]]; try congruence.
      destruct (v_lbase v a); auto; congruence.
    - exfalso. destruct (entry (reqs_of t) a) as [e|]; try contradiction.
      destruct LA as [L1 [[L2|L2] _]]; cbn in *; rewrite Hnd in *; try congruence; subst e; discriminate. }
  rewrite Hwl. destruct (world_lock (reqs_of t)) eqn:Wl; rewrite ?FA; eauto.
  destruct (s_base s) eqn:B; eauto. exfalso. apply Hsb; auto.
Qed.

(* a spawned, unfinished worker all of whose predecessors have committed can take a step *)
Lemma worker_enabled g i : Inv1 g -> Inv3 g -> unfinishedb g i = true ->
  (forall m, m < i -> is_done g m = true) -> exists g', step_worker txs g i = Some g'.
Proof.
  intros I I3 U D. pose proof (unfinished_spawned _ _ I U) as Hs.
  pose proof (scount_le_dcount g) as Hle.
  destruct (i_vs_some _ I i) as [v Hv]; [lia|]. destruct (tx_of_vs _ _ _ I Hv) as [t Ht].
  unfold step_worker. unfold unfinishedb in U.
  destruct (g_work g i) as [[|p| |]|] eqn:Hw; try discriminate.
  - assert (F : finishedb g i = false) by (unfold finishedb; now rewrite Hw).
    destruct (not_done_of_phase _ _ _ _ I Hv Ht F) as (Hnd & Hc & Hwl).
    unfold step_start. rewrite Ht, Hv, Hc, Hwl.
    assert (exists g1, match world_lock (reqs_of t) with
                       | WriteLock | ReadLock => realize_base g i
                       | _ => Some g end = Some g1 /\ Inv1 g1 /\ st_sim g g1) as (g1 & E & I1 & S1).
    { destruct (world_lock (reqs_of t)); try (exists g; split; auto; split; auto using st_sim_refl);
      (destruct (realize_base_enabled _ _ _ _ I Hv Ht D) as [g1 R]; exists g1; split; auto;
       destruct (realize_base_inv1 _ _ _ _ I Hv R) as (I1 & S & _); auto). }
    rewrite E.
    assert (exists v1, g_vs g1 i = Some v1) as (v1 & Hv1).
    { destruct S1 as [_ S1]. specialize (S1 i). rewrite Hv in S1.
      destruct (g_vs g1 i) as [v1|]; try contradiction. eauto. }
    rewrite Hv1.
    assert (Hw1 : g_work g1 i = Some WStart) by (destruct S1 as [(_ & W & _) _]; now rewrite W).
    assert (F1 : finishedb g1 i = false) by (unfold finishedb; now rewrite Hw1).
    destruct (not_done_of_phase _ _ _ _ I1 Hv1 Ht F1) as (Hnd1 & Hc1 & Hwl1).
    set (v1' := set_snap v1 (take_snapshot g1 v1)).
    assert (I1' : Inv1 (set_vs g1 i v1')).
    { eapply inv1_set_vs; eauto. intros t' Ht'. assert (t' = t) by congruence; subst t'.
      apply vs_ok_set_snap; auto.
      - eapply i_vs_ok; eauto.
      - unfold startedb. now rewrite Hw1.
      - intros a Ha. eapply take_snapshot_live; eauto. eapply i_vs_ok; eauto. }
    destruct (access_enabled (set_vs g1 i v1') i SYS v1' t I1') as (g2 & h & A & _); auto.
    + cbn. now rewrite Nat.eqb_refl.
    + intros m Hm. rewrite is_done_set_vs. destruct (Nat.eqb_spec m i); [lia|].
      rewrite (st_sim_done _ _ _ S1). auto.
    + apply can_read_sys.
    + rewrite A. eauto.
  - assert (F : finishedb g i = false) by (unfold finishedb; now rewrite Hw).
    destruct (not_done_of_phase _ _ _ _ I Hv Ht F) as (Hnd & Hc & Hwl).
    destruct (i_progs _ I3 _ _ Hw) as (t' & Ht' & TO). assert (t' = t) by congruence; subst t'.
    destruct p as [r|a k|a x k|k].
    4:{ assert (St : startedb g i = true) by (unfold startedb; now rewrite Hw).
        destruct (reset_enabled g i v t I Hv Ht Hnd St) as [g' R]. rewrite R. eauto. }
    + assert (I' : Inv1 (set_rct g i r)) by (eapply inv1_frame; eauto; intros; reflexivity).
      destruct (commit_enabled (set_rct g i r) i v t I' Hv Ht Hnd) as [g' C]; auto.
      rewrite C. eauto.
    + apply touches_read_inv in TO as [Cr _].
      destruct (access_enabled g i a v t I Hv Ht Hnd D Cr) as (g1 & h & A & _). rewrite A. eauto.
    + apply touches_write_inv in TO as [Cw _].
      destruct (access_enabled g i a v t I Hv Ht Hnd D (can_write_read _ _ Cw)) as (g1 & h & A & Hh).
      rewrite A, (Hh Cw). eauto.
  - eauto.
Qed.

Theorem no_deadlock_inv g : Inv1 g -> Inv3 g -> complete g = false ->
  exists a, In a (actors txs) /\ can_step txs g a = true.
Proof.
  intros I I3 C.
  assert (Wk : forall m, unfinishedb g m = true -> exists a, In a (actors txs) /\ can_step txs g a = true).
  { intros m U. destruct (min_unfinished g m U) as (m0 & U0 & Min).
    pose proof (unfinished_spawned _ _ I U0) as Hs.
    destruct (worker_enabled g m0 I I3 U0) as [g' Hg'].
    - intros j Hj. apply finished_done; auto. lia.
    - exists (AWorker m0). split.
      + right. apply in_map, in_seq. pose proof (scount_le_dcount g). pose proof (dcount_le _ I). fold n. lia.
      + unfold can_step. cbn. now rewrite Hg'. }
  assert (Dp : (exists g', step_disp txs g = Some g') -> exists a, In a (actors txs) /\ can_step txs g a = true).
  { intros [g' Hg']. exists ADisp. split; [left; auto|]. unfold can_step. cbn. now rewrite Hg'. }
  unfold complete in C. destruct (g_disp g) as [i|i|] eqn:Hd; try discriminate.
  - destruct (nth_error txs i) as [t|] eqn:Ht.
    + apply Dp. unfold step_disp. rewrite Hd, Ht. eauto.
    + destruct i as [|j].
      * apply Dp. unfold step_disp. rewrite Hd, Ht. eauto.
      * destruct (forallb (is_done g) (seq 0 (S j))) eqn:F.
        -- apply Dp. unfold step_disp. rewrite Hd, Ht.
           destruct (realize_enabled g j) as [g1 R].
           { intros m Hm. rewrite forallb_forall in F. apply F. apply in_seq. lia. }
           rewrite R. eauto.
        -- assert (exists m, m < S j /\ is_done g m = false) as (m & Hm & Dm).
           { clear - F. induction (S j) as [|k IHk]; [cbn in F; discriminate|].
             rewrite seq_S, forallb_app in F. cbn in F. apply andb_false_iff in F as [F|F].
             - destruct (IHk F) as (m & Hm & Dm). exists m. split; auto.
             - exists k. split; auto. rewrite andb_true_r in F. exact F. }
           apply (Wk m). assert (Sc : scount g = S j) by (unfold scount; now rewrite Hd).
           destruct (unfinishedb g m) eqn:U; auto.
           rewrite (finished_done g m I) in Dm; auto. lia.
  - destruct (g_tokens g) as [|k] eqn:Tk.
    + destruct (i_tokens _ I3 Tk) as [m U]. apply (Wk m U).
    + apply Dp. unfold step_disp. rewrite Hd, Tk. eauto.
Qed.

End Inv.
