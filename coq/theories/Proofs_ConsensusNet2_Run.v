(* Proofs_ConsensusNet2_Run.v — [run] preserves  P s := Inv s /\ InvD s /\ exists L T, SimS L s T
   for EVERY crash point (fuse) of the event: fourth pass over [run], same case
   analysis as run_inv / run_invD / run_P (Proofs_ConsensusNet_Run.v), with the
   relation of Proofs_ConsensusNet2_Sim.v.  After the crash point every output is
   a no-op and the volatile clauses are void, so every lemma has a trivial
   "already dead" case; composite outputs (own vote = write, sync, send; lock =
   memory, entry records, sync; enterCommit) are chains of one-output lemmas,
   which is what makes every cut point between two outputs a proved case. *)
From Coq Require Import List ZArith NArith Bool Arith Lia.
From Goloop Require Import Model_ConsensusNode Proofs_ConsensusNode Proofs_ConsensusNode_C01
  Model_ConsensusNet Proofs_ConsensusNet_Link Proofs_ConsensusNet_LockWAL Proofs_ConsensusNet2_Sim.
From Goloop Require Proofs_ConsensusNet_Run.
Import ListNotations.
Open Scope Z_scope.

Set Implicit Arguments.

Section RunP2.
  Variable n : nat.
  Variable byz : nat -> bool.
  Variable blocks : list blk.
  Variable i : nat.
  Hypothesis Hi : (i < n)%nat.
  Hypothesis Hbyz : byz i = false.
  Local Notation own := (Z.of_nat i).
  Variable E : list vote.
  Hypothesis E_ok : forall v, In v E -> 0 <= v_from v < Z.of_nat n /\ 0 <= v_round v /\ v_from v <> own.
  Variable T0 : TM.state.
  Variable K0 : vote -> Prop.
  Hypothesis blocks_ok : forall x, In x blocks -> (1 <= b_parts x)%N.
  Hypothesis Hb3 : (3 * TM.countn byz n < n)%nat.

  Local Notation SimR := (SimR n byz blocks i E T0 K0).
  Local Notation SimS := (SimS n byz blocks i E T0 K0).
  Local Notation known := (known E).

  Record P (s : st) : Prop := {
    p_inv : Inv own s;
    p_invd : InvD n s;
    p_sim : exists L T, SimS L s T
  }.

  Lemma not_vol_blown s : blown s = true -> ~ vol_ok s.
  Proof. intros B [_ X]. congruence. Qed.

  Lemma not_vol_status s : status_ s <> Running -> ~ vol_ok s.
  Proof. intros N [X _]. contradiction. Qed.

  (* ---------------- volatile steps ---------------- *)

  Lemma SimS_vol L s s' T :
    dur_same s s' -> vol_same s s' ->
    (vol_ok s' -> stp s' = SCommit -> stp s = SCommit /\ bps_id (cur s') = bps_id (cur s)) ->
    SimS L s T -> SimS L s' T.
  Proof.
    intros D V C [H Ul Cm]. constructor.
    - eapply SimR_same; eauto.
    - intro O. rewrite (du_l D). apply Ul. apply (vs_ok V O).
    - intros O St. destruct (C O St) as [A B]. rewrite B. apply Cm; auto. apply (vs_ok V O).
  Qed.

  Lemma P_vol s s' :
    neutral s s' -> dsame s s' -> dur_same s s' -> vol_same s s' ->
    (vol_ok s' -> stp s' = SCommit -> stp s = SCommit /\ bps_id (cur s') = bps_id (cur s)) ->
    P s -> P s'.
  Proof.
    intros N D Du V C [HI HD [L [T HS]]]. constructor.
    - eapply Inv_neutral; eauto.
    - eapply InvD_dsame; eauto.
    - exists L, T. eapply SimS_vol; eauto.
  Qed.

  Ltac dsame_t := constructor; reflexivity.
  Ltac vsame_t := constructor; try reflexivity; let O := fresh in intro O; exact O.

  Lemma P_set_timer x s : P s -> P (set_timer x s).
  Proof. apply P_vol; [apply nt_set_timer, neutral_refl|apply ds_set_timer, dsame_refl|dsame_t|vsame_t|cbn; auto]. Qed.
  Lemma P_set_pol x s : P s -> P (set_pol x s).
  Proof. apply P_vol; [apply nt_set_pol, neutral_refl|apply ds_set_pol, dsame_refl|dsame_t|vsame_t|cbn; auto]. Qed.
  Lemma P_set_bpm x s : P s -> P (set_bpm x s).
  Proof. apply P_vol; [apply nt_set_bpm, neutral_refl|apply ds_set_bpm, dsame_refl|dsame_t|vsame_t|cbn; auto]. Qed.
  Lemma P_set_commit_round x s : P s -> P (set_commit_round x s).
  Proof. apply P_vol; [apply nt_set_commit_round, neutral_refl|apply ds_set_commit_round, dsame_refl|dsame_t|vsame_t|cbn; auto]. Qed.
  Lemma P_set_commit_req x s : P s -> P (set_commit_req x s).
  Proof. apply P_vol; [apply nt_set_commit_req, neutral_refl|apply ds_set_commit_req, dsame_refl|dsame_t|vsame_t|cbn; auto]. Qed.

  Lemma P_set_cur x s : stp s <> SCommit -> P s -> P (set_cur x s).
  Proof.
    intros N [HI HD [L [T HS]]]. constructor.
    - eapply Inv_neutral; [apply nt_set_cur, neutral_refl|auto].
    - apply InvD_set_cur; auto.
    - exists L, T. eapply (@SimS_vol L s); [dsame_t|vsame_t| |exact HS]. cbn. intros _ St. contradiction.
  Qed.

  Lemma P_set_cur_same x s : bps_id x = bps_id (cur s) -> P s -> P (set_cur x s).
  Proof.
    intros N [HI HD [L [T HS]]]. constructor.
    - eapply Inv_neutral; [apply nt_set_cur, neutral_refl|auto].
    - eapply InvD_dsame; [apply ds_set_cur_same; [exact N|apply dsame_refl]|auto].
    - exists L, T. eapply (@SimS_vol L s); [dsame_t|vsame_t| |exact HS]. cbn. auto.
  Qed.

  Lemma P_set_by_psid b s : stp s <> SCommit -> P s -> P (set_by_psid b s).
  Proof. intros N H. unfold set_by_psid. destruct (bps_id_is _ _); auto. apply P_set_cur; auto. Qed.

  Lemma ds_add_part_cur b idx s : bps_id (cur (snd (add_part blocks b idx s))) = bps_id (cur s).
  Proof. apply (ds_cur (ds_add_part blocks b idx (dsame_refl s))). Qed.

  Lemma P_add_part b idx s : P s -> P (snd (add_part blocks b idx s)).
  Proof.
    apply P_vol; [apply nt_add_part, neutral_refl|apply ds_add_part, dsame_refl| | |].
    - unfold add_part. destruct (cur s); cbn; [|dsame_t]. destruct (negb _); cbn; [dsame_t|].
      destruct (negb _); cbn; [dsame_t|]. destruct (existsb _ _); cbn; dsame_t.
    - unfold add_part. destruct (cur s); cbn; [|vsame_t]. destruct (negb _); cbn; [vsame_t|].
      destruct (negb _); cbn; [vsame_t|]. destruct (existsb _ _); cbn; vsame_t.
    - intros _ St. split; [|apply ds_add_part_cur].
      rewrite <- (ds_stp (ds_add_part blocks b idx (dsame_refl s))). exact St.
  Qed.

  Lemma P_fill_from_cache b s : P s -> P (fill_from_cache blocks b s).
  Proof.
    unfold fill_from_cache. generalize (all_parts blocks b). intro l. revert s.
    induction l as [|x l IH]; intros s H; cbn; auto.
    apply IH. destruct (existsb _ _); auto. apply P_add_part; auto.
  Qed.

  Lemma P_set_status x s : x <> Running -> P s -> P (set_status x s).
  Proof.
    intros N [HI HD [L [T HS]]]. constructor.
    - eapply Inv_down; [| | |exact HI]; cbn; auto.
    - eapply InvD_dsame; [apply ds_set_status, dsame_refl|auto].
    - exists L, T. eapply (@SimS_dead _ _ _ _ _ _ _ L s); [dsame_t| |exact HS]. apply not_vol_status. exact N.
  Qed.

  Lemma P_panic s : P s -> P (panic s).
  Proof. apply P_set_status. discriminate. Qed.

  Lemma SimS_new_step L t s T : t <> SCommit -> SimS L s T -> SimS L (new_step t s) T.
  Proof.
    intros N [H Ul Cm]. constructor.
    - apply SimR_new_step; auto.
    - unfold new_step. destruct (valid_transition _ _); [exact Ul|]. intros [R _]. discriminate R.
    - unfold new_step. destruct (valid_transition _ _).
      + intros _ St. cbn in St. contradiction.
      + intros [R _]. discriminate R.
  Qed.

  Lemma P_new_step t s : plain_step t -> t <> SCommit -> P s -> P (new_step t s).
  Proof.
    intros Pt N [HI HD [L [T HS]]]. constructor.
    - apply Inv_new_step; auto.
    - apply InvD_new_step; auto.
    - exists L, T. apply SimS_new_step; auto.
  Qed.

  Lemma P_new_round r s : round s < r -> P s -> P (new_round r s).
  Proof.
    intros Lt [HI HD [L [T [H Ul Cm]]]]. constructor.
    - apply Inv_new_round; auto.
    - apply InvD_new_round; auto.
    - exists L, T. constructor.
      + apply SimR_new_round; auto.
      + exact Ul.
      + intros _ St. discriminate St.
  Qed.

  (* ---------------- outputs ---------------- *)

  (* an output that leaves lock WAL, step and current part set alone *)
  Lemma SimS_lift L L' s s' T T' :
    SimS L s T -> SimR L' s' T' ->
    (vol_ok s' -> vol_ok s) -> wal_l s' = wal_l s -> stp s' = stp s -> cur s' = cur s ->
    TM.decided T' = TM.decided T -> SimS L' s' T'.
  Proof.
    intros [H Ul Cm] H' Ok El Es Ec Ed. constructor; auto.
    - intro O. rewrite El. apply Ul; auto.
    - intros O St. rewrite Ed, Ec. apply Cm; auto. rewrite <- Es. exact St.
  Qed.

  Lemma emit_frame o s :
    (vol_ok (emit o s) -> vol_ok s) /\ stp (emit o s) = stp s /\ cur (emit o s) = cur s.
  Proof.
    destruct (blown s) eqn:B; [rewrite emit_blown; auto|].
    destruct (emit_unblown o s B) as [k ->]. split; [|split].
    - intro O. eapply vol_ok_apply; eauto.
    - destruct o as [[] ?|[]| | | | | | | | ]; reflexivity.
    - destruct o as [[] ?|[]| | | | | | | | ]; reflexivity.
  Qed.

  Lemma emit_wal_l o s : (forall r, o <> OWrite WLock r) -> o <> OSync WLock -> wal_l (emit o s) = wal_l s.
  Proof.
    intros N1 N2. destruct (blown s) eqn:B; [rewrite emit_blown; auto|].
    destruct (emit_unblown o s B) as [k ->].
    destruct o as [[] r|[]| | | | | | | | ]; try reflexivity; [exfalso; eapply N1; eauto|congruence].
  Qed.

  Lemma SimS_emit_neutral L o s T : neutral2 o = true -> SimS L s T -> SimS L (emit o s) T.
  Proof.
    intros Q HS. destruct (emit_frame o s) as [A [B C]].
    eapply SimS_lift; eauto.
    - apply SimR_emit_neutral; auto. apply (ss_r HS).
    - apply emit_wal_l; intros; intro X; subst; discriminate.
  Qed.

  Definition pq (o : out) : bool := quiet o && not_final o && neutral2 o.

  Lemma P_emit o s : pq o = true -> P s -> P (emit o s).
  Proof.
    intros Q [HI HD [L [T HS]]]. unfold pq in Q. apply andb_true_iff in Q as [Q Q3]. apply andb_true_iff in Q as [Q1 Q2].
    constructor.
    - eapply Inv_neutral; [apply neutral_emit; auto|auto].
    - eapply InvD_dsame; [apply ds_emit; [exact Q2|apply dsame_refl]|auto].
    - exists L, T. apply SimS_emit_neutral; auto.
  Qed.

  Lemma SimS_write_r L r s T :
    not_rvote r -> (blown s = false -> lsub (known s) r) -> SimS L s T -> SimS L (emit (OWrite WRound r) s) T.
  Proof.
    intros NR K HS. destruct (emit_frame (OWrite WRound r) s) as [A [B C]].
    eapply SimS_lift; eauto.
    - apply SimR_write_r; auto. apply (ss_r HS).
    - apply emit_wal_l; intros; intro X; discriminate.
  Qed.

  Lemma SimS_write_c L r s T :
    not_rvote r -> (blown s = false -> lsub (known s) r) -> SimS L s T -> SimS L (emit (OWrite WCommit r) s) T.
  Proof.
    intros NR K HS. destruct (emit_frame (OWrite WCommit r) s) as [A [B C]].
    eapply SimS_lift; eauto.
    - apply SimR_write_c; auto. apply (ss_r HS).
    - apply emit_wal_l; intros; intro X; discriminate.
  Qed.

  Lemma SimS_sync_c L s T : SimS L s T -> SimS L (emit (OSync WCommit) s) T.
  Proof.
    intros HS. destruct (emit_frame (OSync WCommit) s) as [A [B C]].
    eapply SimS_lift; eauto.
    - apply SimR_sync_c; auto. apply (ss_r HS).
    - apply emit_wal_l; intros; intro X; discriminate.
  Qed.

  Lemma SimS_sync_r L s T : SimS L s T -> exists T', SimS L (emit (OSync WRound) s) T'.
  Proof.
    intros HS. destruct (emit_frame (OSync WRound) s) as [A [B C]].
    destruct (SimR_sync_r Hi Hbyz Hb3 (ss_r HS)) as [T' [H' [Lk Dd]]].
    exists T'. eapply SimS_lift; eauto.
    apply emit_wal_l; intros; intro X; discriminate.
  Qed.

  (* the votes of the engine's own vote sets are known *)
  Lemma vs_list_known L s T r t v : SimR L s T -> vol_ok s -> In v (vs_list (votes_for n s r t)) -> known s v.
  Proof.
    intros H Ok Hv. apply vs_list_in in Hv as [k Hk]. apply (sr_hvs H Ok).
    eapply hvs_for_in. eapply nth_error_In; eauto.
  Qed.

  Lemma P_emit_rvl l s :
    (P s -> vol_ok s -> forall v, In v l -> known s v) -> status_ s = Running ->
    P s -> P (emit (OWrite WRound (RVoteList l)) s).
  Proof.
    intros K R H. specialize (K H). destruct H as [HI HD [L [T HS]]]. constructor.
    - eapply Inv_neutral; [apply neutral_emit; reflexivity|auto].
    - eapply InvD_dsame; [apply ds_emit; [reflexivity|apply dsame_refl]|auto].
    - exists L, T. apply SimS_write_r; auto; [intros v X; discriminate|].
      intros B. cbn. apply K. split; auto.
  Qed.

  Lemma emit_all_neutral L l : forall s T, forallb neutral2 l = true -> SimS L s T -> SimS L (emit_all l s) T.
  Proof.
    induction l as [|o l IH]; intros s T Q H; cbn in *; auto.
    apply andb_true_iff in Q as [Q1 Q2]. apply IH; auto. apply SimS_emit_neutral; auto.
  Qed.

  Lemma P_send_proposal b pol s :
    P s -> status_ s = Running -> (unblown s -> prop_ok s) -> P (send_proposal n blocks b pol s).
  Proof.
    intros [HI HD [L [T HS]]] R K. constructor.
    - apply Inv_send_proposal; auto.
    - eapply InvD_dsame; [apply ds_send_proposal, dsame_refl|auto].
    - unfold send_proposal.
      assert (H1 : SimS L (emit (OWrite WRound (RProposal (round s) b pol)) s) T).
      { apply SimS_write_r; auto; [intros v X; discriminate|intros _; exact I]. }
      destruct (SimS_sync_r H1) as [T' H2].
      exists L, T'. apply emit_all_neutral. { induction (all_parts blocks b); cbn; auto. }
      match goal with |- Proofs_ConsensusNet2_Sim.SimS _ _ _ _ _ _ _ _ (if ?c then _ else _) _ => destruct c end.
      + apply SimS_emit_neutral; [reflexivity|]. apply SimS_emit_neutral; [reflexivity|]. exact H2.
      + apply SimS_emit_neutral; [reflexivity|]. exact H2.
  Qed.

  Lemma P_set_prop_req s :
    P s ->
    (status_ s = Running -> unblown s ->
       stp s = SPropose /\ forall b p, ~ In (RProposal (round s) b p) (wal_all (wal_r s))) ->
    P (set_prop_req (Some (round s)) s).
  Proof.
    intros [HI HD [L [T HS]]] K. constructor.
    - apply Inv_set_prop_req; auto.
    - eapply InvD_dsame; [apply ds_set_prop_req, dsame_refl|auto].
    - exists L, T. eapply (@SimS_vol L s); [dsame_t|vsame_t|cbn; auto|exact HS].
  Qed.

  Lemma P_clear_prop_req s : P s -> P (set_prop_req None s).
  Proof.
    intros [HI HD [L [T HS]]]. constructor.
    - apply Inv_clear_prop_req; auto.
    - eapply InvD_dsame; [apply ds_set_prop_req, dsame_refl|auto].
    - exists L, T. eapply (@SimS_vol L s); [dsame_t|vsame_t|cbn; auto|exact HS].
  Qed.

  Lemma P_clear_imp_req s : P s -> P (set_imp_req None s).
  Proof.
    intros [HI HD [L [T HS]]]. constructor.
    - apply Inv_clear_imp_req; auto.
    - apply InvD_clear_imp_req; auto.
    - exists L, T. eapply (@SimS_vol L s); [dsame_t|vsame_t|cbn; auto|exact HS].
  Qed.

  Lemma P_import_request s b :
    P s -> status_ s = Running -> status_ (new_step SPrevote s) = Running ->
    locked (new_step SPrevote s) = None ->
    P (set_imp_req (Some (round (new_step SPrevote s), b))
         (emit (OImportReq b false false) (new_step SPrevote s))).
  Proof.
    intros [HI HD [L [T HS]]] R R' Lc. constructor.
    - apply Inv_import_request; auto.
    - apply InvD_set_imp_req.
      + autorewrite with frame. reflexivity.
      + autorewrite with frame. exact Lc.
      + eapply InvD_dsame; [apply ds_emit; [reflexivity|apply dsame_refl]|].
        apply InvD_new_step; [split; discriminate|discriminate|auto].
    - exists L, T.
      assert (H1 : SimS L (emit (OImportReq b false false) (new_step SPrevote s)) T).
      { apply SimS_emit_neutral; [reflexivity|]. apply SimS_new_step; [discriminate|exact HS]. }
      eapply (@SimS_vol L _ _ T _ _ _ H1). Unshelve. all: try dsame_t; try vsame_t. cbn; auto.
  Qed.

  Lemma SimS_of_R L L' s s' T T' :
    SimS L s T -> SimR L' s' T' ->
    (vol_ok s' -> vol_ok s) -> wal_l s' = wal_l s ->
    (vol_ok s' -> stp s' = SCommit -> stp s = SCommit /\ bps_id (cur s') = bps_id (cur s)) ->
    TM.decided T' = TM.decided T -> SimS L' s' T'.
  Proof.
    intros [H Ul Cm] H' Ok El Ec Ed. constructor; auto.
    - intro O. rewrite El. apply Ul; auto.
    - intros O St. destruct (Ec O St) as [A B]. rewrite Ed, B. apply Cm; auto.
  Qed.

  (* ---------------- receiving a vote ---------------- *)

  Lemma P_recv s v added h :
    P s -> 0 <= v_from v -> hvs_add n (hvs s) (Z.to_nat (v_from v)) v = (added, h) ->
    (vol_ok s -> known s v) -> P (set_hvs h s).
  Proof.
    intros [HI HD [L [T HS]]] Rg Ha K.
    assert (Eh : h = snd (hvs_add n (hvs s) (Z.to_nat (v_from v)) v)) by (rewrite Ha; reflexivity).
    constructor.
    - eapply Inv_neutral; [apply nt_set_hvs, neutral_refl|auto].
    - apply InvD_set_hvs; auto. rewrite Eh. apply hvs_add_wf; [apply (d_hvs HD)|]. rewrite Z2Nat.id; auto.
    - exists L, T. refine (@SimS_of_R L L s (set_hvs h s) T T HS _ (fun O => O) eq_refl _ eq_refl).
      + apply SimR_set_hvs; [|apply (ss_r HS)]. intros O u Hu. rewrite Eh in Hu.
        apply hvs_add_in in Hu as [->|Hu]; auto. apply (sr_hvs (ss_r HS) O); auto.
      + cbn. auto.
  Qed.

  (* ---------------- unlock ---------------- *)

  Lemma unlock_on_frame r w ev s :
    wal_l (unlock_on r w ev s) = wal_l s /\ stp (unlock_on r w ev s) = stp s /\ cur (unlock_on r w ev s) = cur s /\
    status_ (unlock_on r w ev s) = status_ s /\ blown (unlock_on r w ev s) = blown s.
  Proof. unfold unlock_on. destruct (locked s); repeat split; reflexivity. Qed.

  Lemma P_unlock_on s r w ev :
    P s -> status_ s = Running -> ev = hvs_for n (hvs s) r Prevote ->
    (forall l, locked s = Some l -> gev_ok n (GUnlock (locked_round s) (p_id l) r w ev)) ->
    P (unlock_on r w ev s).
  Proof.
    intros [HI HD [L [T HS]]] R -> G. constructor.
    - eapply Inv_neutral; [apply nt_unlock_on, neutral_refl|auto].
    - apply InvD_unlock_on; auto.
    - destruct (unlock_on_frame r w (hvs_for n (hvs s) r Prevote) s) as [F1 [F2 [F3 [F4 F5]]]].
      destruct (SimR_unlock_on Hi Hbyz Hb3 (r:=r) (w:=w) (ev:=hvs_for n (hvs s) r Prevote) (ss_r HS) (ss_lsync HS)) as [T' [H' Dd]].
      + intros _. exact G.
      + intros O u Hu. apply (sr_hvs (ss_r HS) O). eapply hvs_for_in; eauto.
      + exists L, T'. eapply (@SimS_of_R L L s); eauto.
        * intros [A B]. split; congruence.
        * rewrite F2, F3. auto.
  Qed.

  Lemma P_unlock_here s r w ev :
    P s -> status_ s = Running -> r = round s -> ev = hvs_for n (hvs s) r Prevote -> vs_over23 ev = Some w ->
    (forall l, locked s = Some l -> w <> Some (p_id l)) ->
    P (unlock_on r w ev s).
  Proof.
    intros H R -> -> O NE. apply P_unlock_on; auto.
    pose proof (p_invd H) as HD.
    intros l Hl. cbn [gev_ok]. split; [|split; [|split]].
    - apply (d_lk HD). congruence.
    - apply NE; auto.
    - apply hvs_for_wf. apply (d_hvs HD).
    - apply find_some_over in O. destruct (hvs_for_wf (round s) Prevote (d_hvs HD)) as [Ln _]. rewrite Ln in O. exact O.
  Qed.

  Lemma P_unlock_prevote s r d ev :
    P s -> status_ s = Running -> ev = hvs_for n (hvs s) r Prevote ->
    Z.ltb (locked_round s) r && match locked s with Some l => negb (dec_eqb (Some (p_id l)) d) | None => false end = true ->
    vs_over23 ev = Some d ->
    P (unlock_on r d ev s).
  Proof.
    intros H R -> C O. apply P_unlock_on; auto. pose proof (p_invd H) as HD.
    apply andb_true_iff in C as [C1 C2]. apply Z.ltb_lt in C1.
    intros l Hl. rewrite Hl in C2. cbn [gev_ok]. split; [lia|split; [|split]].
    - intro Eq. subst d. rewrite dec_eqb_refl in C2. discriminate.
    - apply hvs_for_wf. apply (d_hvs HD).
    - apply find_some_over in O. destruct (hvs_for_wf r Prevote (d_hvs HD)) as [Ln _]. rewrite Ln in O. exact O.
  Qed.

  (* ---------------- lock: memory, ghost log, the lock-WAL entry record by record, sync ---------------- *)

  Lemma emit_all_blown l : forall s, blown s = true -> emit_all l s = s.
  Proof. induction l as [|o l IH]; intros s B; cbn; auto. rewrite emit_blown; auto. Qed.

  Lemma write_lock_wal_blown pv b s : blown s = true -> write_lock_wal blocks pv b s = s.
  Proof. intro B. unfold write_lock_wal. rewrite (emit_blown _ s B), (emit_all_blown _ s B), emit_blown; auto. Qed.

  Lemma P_lock_log s b x :
    P s -> status_ s = Running -> (5 < step_code (stp s))%N ->
    vs_over23 (votes_for n s (round s) Prevote) = Some (Some b) -> bps_id x = Some b ->
    P (write_lock_wal blocks (votes_for n s (round s) Prevote) b
         (set_lock (round s) x (glog_add (GLock (round s) b (votes_for n s (round s) Prevote)) s))).
  Proof.
    intros [HI HD [L [T HS]]] R Lt O X.
    set (pv := votes_for n s (round s) Prevote) in *.
    set (s1 := set_lock (round s) x (glog_add (GLock (round s) b pv) s)).
    constructor.
    - eapply Inv_neutral; [apply nt_write_lock_wal, nt_set_lock, nt_glog_add, neutral_refl|auto].
    - apply InvD_write_lock_wal.
      + intros v Hv. eapply vs_list_type; [apply hvs_for_wf, (d_hvs HD)|exact Hv].
      + apply InvD_lock_here; auto.
    - destruct (blown s) eqn:B.
      { (* already dead: only volatile garbage changes *)
        rewrite write_lock_wal_blown; [|exact B]. exists L, T.
        eapply (@SimS_dead _ _ _ _ _ _ _ L s); [constructor; reflexivity|apply not_vol_blown; exact B|exact HS]. }
      assert (Ok : vol_ok s) by (split; auto).
      assert (Q : quorum_ev n (round s) Prevote (Some b) pv).
      { apply quorum_of_over23; auto. apply hvs_for_wf, (d_hvs HD). }
      assert (K : forall u, In (Some u) pv -> known s u).
      { intros u Hu. apply (sr_hvs (ss_r HS) Ok). unfold pv, votes_for in Hu. eapply hvs_for_in; exact Hu. }
      destruct (@SimR_lock_first n byz blocks i Hi Hbyz E E_ok T0 K0 Hb3 L s T b pv x (ss_r HS) HI Ok (ss_lsync HS Ok) Q K X)
        as [T1 [H1 [Lk1 [Dd1 U1]]]].
      fold s1 in H1, U1.
      set (s2 := emit (OWrite WLock (RVoteList (vs_list pv))) s1) in *.
      assert (St2 : status_ s2 = Running) by (unfold s2; autorewrite with frame; exact R).
      assert (Sp2 : vs_sub (known s2) pv).
      { apply vs_sub_known. intros u Hu. specialize (K u Hu). destruct K as [A|A]; [left; auto|right].
        unfold cast, s2. destruct (blown s1) eqn:B1; [rewrite emit_blown; auto|].
        destruct (emit_unblown (OWrite WLock (RVoteList (vs_list pv))) s1 B1) as [k0 ->]. exact A. }
      destruct (@SimR_lock_parts n byz blocks i E T0 K0 L pv b (round s) T1 Q Lk1 (all_parts blocks b) 1%nat s2 eq_refl (le_n 1) H1 Sp2)
        as [H3 [Sp3 Pre3]].
      { intro B2. split; auto. }
      cbv zeta in H3, Sp3, Pre3.
      set (s3 := emit_all (map (fun idx => OWrite WLock (RPart b idx)) (all_parts blocks b)) s2) in *.
      destruct (@SimR_lock_sync n byz blocks i Hi Hbyz E T0 K0 blocks_ok Hb3 L s3 T1 pv b (round s) H3 Q Sp3 Lk1 Pre3) as [L' [H4 U4]].
      exists L', T1.
      change (write_lock_wal blocks pv b s1) with (emit (OSync WLock) s3).
      constructor; auto.
      + intros [R4 B4]. apply U4. exact B4.
      + intros [R4 B4] St4. rewrite Dd1.
        assert (Es : stp (emit (OSync WLock) s3) = stp s) by (unfold s3, s2, s1; autorewrite with frame; reflexivity).
        assert (Ec : cur (emit (OSync WLock) s3) = cur s) by (unfold s3, s2, s1; autorewrite with frame; reflexivity).
        rewrite Ec. apply (ss_commit HS Ok). rewrite <- Es. exact St4.
  Qed.

  (* ---------------- an own vote ---------------- *)

  Lemma P_send_vote s t d :
    P s -> status_ s = Running -> (unblown s -> vote_ok own s t) -> gev_ok n (GVote (round s) t d (lock_of s)) ->
    let s' := send3 (own_vote own s t d) (glog_add (GVote (round s) t d (lock_of s)) s) in
    P s' /\ (vol_ok s' -> known s' (own_vote own s t d)).
  Proof.
    intros [HI HD [L [T HS]]] R V G s'.
    set (s1 := glog_add (GVote (round s) t d (lock_of s)) s) in *.
    assert (N1 : neutral s s1) by (apply nt_glog_add, neutral_refl).
    assert (HI1 : Inv own s1) by (eapply Inv_neutral; eauto).
    assert (HS1 : SimS L s1 T).
    { eapply (@SimS_vol L s); [constructor; reflexivity|constructor; try reflexivity; auto|cbn; auto|exact HS]. }
    assert (PI : Inv own s' /\ InvD n s').
    { split.
      - subst s'. change (own_vote own s t d) with (own_vote own s1 t d).
        apply Inv_send3; auto. all: try (intros U; apply (vote_ok_neutral N1); apply V; exact U).
      - subst s'. unfold send3.
        eapply InvD_dsame; [apply ds_emit; [reflexivity|]; apply ds_emit; [reflexivity|]; apply ds_emit; [reflexivity|]; apply dsame_refl|].
        apply InvD_glog_add; auto. }
    destruct PI as [HI' HD'].
    destruct (blown s) eqn:B.
    { (* dead: nothing is written *)
      assert (E' : s' = s1).
      { subst s'. unfold send3. rewrite (emit_blown _ s1 B), (emit_blown _ s1 B), emit_blown; auto. }
      split.
      - constructor; auto. exists L, T. rewrite E'. exact HS1.
      - intros [_ B']. rewrite E' in B'. change (blown s = false) in B'. congruence. }
    assert (Ok1 : vol_ok s1) by (split; auto).
    assert (V1 : vote_ok own s1 t) by (eapply vote_ok_neutral; [exact N1|]; apply V; exact B).
    destruct (@SimR_write_sync_own n byz blocks i Hi Hbyz E E_ok T0 K0 Hb3 L s1 T t d (ss_r HS1) HI1 Ok1 (ss_lsync HS1 Ok1) V1 G)
      as [T' [H2 [Dd2 C2]]].
    cbv zeta in H2, C2. change (own_vote own s1 t d) with (own_vote own s t d) in *.
    set (v := own_vote own s t d) in *.
    set (s2 := emit (OSync WRound) (emit (OWrite WRound (RVote v)) s1)) in *.
    assert (Es : s' = emit (OSendVote v) s2) by reflexivity.
    destruct (emit_frame (OWrite WRound (RVote v)) s1) as [A1 [B1 C1]].
    destruct (emit_frame (OSync WRound) (emit (OWrite WRound (RVote v)) s1)) as [A2 [B2 C2']].
    destruct (emit_frame (OSendVote v) s2) as [A3 [B3 C3]].
    assert (Wl : wal_l s' = wal_l s1).
    { rewrite Es. rewrite emit_wal_l; [|intros; intro X; discriminate|discriminate].
      unfold s2. rewrite emit_wal_l; [|intros; intro X; discriminate|discriminate].
      rewrite emit_wal_l; [auto|intros; intro X; discriminate|discriminate]. }
    assert (H3 : SimR L s' T') by (rewrite Es; apply SimR_emit_neutral; auto).
    split.
    - constructor; auto. exists L, T'.
      refine (@SimS_lift L L s1 s' T T' HS1 H3 _ Wl _ _ Dd2).
      + intro O. rewrite Es in O. auto.
      + rewrite Es, B3. unfold s2. rewrite B2, B1. reflexivity.
      + rewrite Es, C3. unfold s2. rewrite C2', C1. reflexivity.
    - intros O. rewrite Es in O. pose proof (A3 O) as [R2 Bl2]. specialize (C2 Bl2).
      right. unfold cast in *. rewrite Es.
      destruct (emit_unblown (OSendVote v) s2 Bl2) as [k0 ->]. exact C2.
  Qed.

  (* ---------------- commit ---------------- *)

  Lemma P_finalize s b : P s -> status_ s = Running -> stp s = SCommit -> bps_id (cur s) = Some b -> P (emit (OFinalize b) s).
  Proof.
    intros [HI HD [L [T HS]]] R St Cu. constructor.
    - eapply Inv_neutral; [apply neutral_emit; reflexivity|auto].
    - apply InvD_emit_finalize; auto.
    - exists L, T. apply SimS_finalize; auto.
  Qed.

  Lemma P_new_step_commit_down s :
    P s -> status_ s = Running -> status_ (new_step SCommit s) <> Running -> P (new_step SCommit s).
  Proof.
    intros [HI HD [L [T HS]]] R NR. constructor.
    - apply Inv_new_step; auto. split; discriminate.
    - apply InvD_panic_new_step_commit; auto.
    - exists L, T. eapply (@SimS_dead _ _ _ _ _ _ _ L s); [|apply not_vol_status; exact NR|exact HS].
      unfold new_step. destruct (valid_transition _ _); constructor; reflexivity.
  Qed.

  (* enterCommit up to the point where the current part set is the committed one;
     the abstract decision is taken here *)
  Lemma P_enter_commit s r b :
    P s -> status_ s = Running -> status_ (new_step SCommit s) = Running ->
    quorum_ev n r Precommit (Some b) (votes_for n s r Precommit) ->
    let s0 := new_step SCommit s in
    let s1 := set_commit_round r s0 in
    let s2 := glog_add (GCommit b r (votes_for n s1 r Precommit)) s1 in
    let s3 := emit (OWrite WCommit (RVoteList (vs_list (votes_for n s2 r Precommit)))) s2 in
    let s4 := emit (OSync WCommit) s3 in
    P (set_by_psid b s4).
  Proof.
    intros [HI HD [L [T HS]]] R R' Q s0 s1 s2 s3 s4.
    assert (E0 : s0 = set_stp SCommit (set_timer false s)) by (apply new_step_ok; auto).
    assert (V1 : votes_for n s1 r Precommit = votes_for n s r Precommit) by (subst s1; rewrite E0; reflexivity).
    constructor.
    - eapply Inv_neutral; [apply nt_set_by_psid, nt_emit; [reflexivity|]; apply nt_emit; [reflexivity|];
                           apply nt_glog_add, nt_set_commit_round, neutral_refl|].
      apply Inv_new_step; auto. split; discriminate.
    - apply (@InvD_enter_commit n s1 r b).
      + subst s1. eapply InvDw_dsame; [apply ds_set_commit_round, dsame_refl|]. apply InvDw_new_step_commit; auto.
      + rewrite V1. exact Q.
      + apply ds_emit; [reflexivity|]. apply ds_emit; [reflexivity|]. apply dsame_refl.
    - (* the relation: decide (if alive), then the two commit-WAL outputs *)
      assert (D : exists T', SimR L s T' /\ (vol_ok s -> TM.decided T' i = Some b) /\
                             (vol_ok s \/ TM.decided T' = TM.decided T)).
      { destruct (blown s) eqn:B.
        - exists T. split; [apply (ss_r HS)|split; [intros [_ X]; congruence|auto]].
        - destruct (SimR_decide Hi Hbyz Hb3 (ss_r HS) (conj R B) Q) as [T' [A C]].
          exists T'. split; auto. split; auto. left. split; auto. }
      destruct D as [T' [H0 [Dc Alt]]].
      assert (H2 : SimR L s2 T').
      { apply (@SimR_same _ _ _ _ _ _ _ L s); auto.
        - subst s2 s1. rewrite E0. constructor; reflexivity.
        - subst s2 s1. rewrite E0. constructor; try reflexivity. auto. }
      assert (St2 : status_ s2 = Running) by (subst s2 s1; rewrite E0; exact R).
      assert (H3 : SimR L s3 T').
      { subst s3. apply SimR_write_c; auto; [intros v X; discriminate|].
        intros B2. cbn. intros v Hv. apply (@vs_list_known L s2 T' r Precommit v H2 (conj St2 B2) Hv). }
      assert (H4 : SimR L s4 T') by (subst s4; apply SimR_sync_c; auto).
      assert (F4 : (vol_ok s4 -> vol_ok s) /\ wal_l s4 = wal_l s /\ stp s4 = SCommit).
      { destruct (emit_frame (OSync WCommit) s3) as [A4 [B4 C4]].
        destruct (emit_frame (OWrite WCommit (RVoteList (vs_list (votes_for n s2 r Precommit)))) s2) as [A3 [B3 C3]].
        split; [|split].
        - intro O. subst s4 s3. specialize (A3 (A4 O)). subst s2 s1. rewrite E0 in A3. exact A3.
        - subst s4 s3. rewrite emit_wal_l; [|intros; intro X; discriminate|discriminate].
          rewrite emit_wal_l; [|intros; intro X; discriminate|discriminate]. subst s2 s1. rewrite E0. reflexivity.
        - subst s4 s3. rewrite B4, B3. subst s2 s1. rewrite E0. reflexivity. }
      destruct F4 as [Ok4 [Wl4 St4]].
      exists L, T'. constructor.
      + apply (@SimR_same _ _ _ _ _ _ _ L s4); auto.
        * unfold set_by_psid. destruct (bps_id_is _ _); constructor; reflexivity.
        * unfold set_by_psid. destruct (bps_id_is _ _); constructor; try reflexivity; auto.
      + intros O.
        assert (O4 : vol_ok s4) by (unfold set_by_psid in O; destruct (bps_id_is (cur s4) b); exact O).
        replace (wal_l (set_by_psid b s4)) with (wal_l s4) by (unfold set_by_psid; destruct (bps_id_is _ _); reflexivity).
        rewrite Wl4. apply (ss_lsync HS). auto.
      + intros O _.
        assert (O4 : vol_ok s4) by (unfold set_by_psid in O; destruct (bps_id_is (cur s4) b); exact O).
        rewrite (Dc (Ok4 O4)). unfold set_by_psid. destruct (bps_id_is (cur s4) b) eqn:Eb; [|reflexivity].
        symmetry. apply bps_id_of_is. exact Eb.
  Qed.

  (* ------------------------------------------------------------------ the induction over [run] *)

  Definition preS (a : act) (s : st) : Prop :=
    match a with
    | ARecvVote v => vol_ok s -> known s v
    | _ => True
    end.

  Record PRE (a : act) (s : st) : Prop := {
    pre_c : pre own a s;
    pre_d : preD n a s;
    pre_s : preS a s
  }.

  Variable delay : bool.

  Ltac plet_step :=
    lazymatch goal with
    | |- P (let x := ?v in @?b x) =>
        let y := fresh "s" in let E := fresh "E" in
        remember v as y eqn:E; change (P (b y)); cbv beta
    end.

  Ltac andb_hyp :=
    match goal with
    | H : _ && _ = true |- _ => apply andb_true_iff in H; destruct H
    end.

  Ltac ppeel :=
    first
      [ assumption
      | apply P_panic
      | (apply P_set_status; [discriminate|])
      | apply P_set_timer | apply P_set_pol | apply P_set_bpm | apply P_set_commit_round | apply P_set_commit_req
      | apply P_fill_from_cache
      | apply P_emit_rvl
      | (apply P_emit; [reflexivity|])
      | (apply P_new_step; [split; discriminate|discriminate|]) ].

  Ltac pcrunch IH :=
    repeat match goal with
      | |- P (write_lock_wal _ _ _ _) => fail 1
      | |- P (let x := ?v in _) => plet_step
      | E : ?g = (fun _ => _) |- P (?g _) => rewrite E; cbv beta
      | |- P (run _ _ _ _ _ _ _) => apply IH
      | |- P (new_round _ _) => apply P_new_round; [ apply Z.ltb_lt; repeat andb_hyp; eauto | ]
      | |- P (if ?c then _ else _) => destruct c eqn:?
      | |- P (match ?x with _ => _ end) => destruct x eqn:?
      | E : ?y = _ |- P ?y => rewrite E
      | |- PRE _ _ => solve [constructor; exact I]
      | _ => ppeel
      end.

  Ltac neut :=
    repeat first
      [ apply neutral_refl
      | apply nt_write_lock_wal
      | apply nt_emit; [ reflexivity | ]
      | apply nt_unlock_on | apply nt_glog_add | apply nt_unlock | apply nt_set_lock | apply nt_set_by_psid
      | apply nt_set_timer | apply nt_set_cur | apply nt_set_hvs | apply nt_set_pol ].

  (* vote_ok for a state that is a neutral modification of [new_step (mstep_of t) s] *)
  Ltac vote_ok_tac HI R t :=
    subst;
    match goal with
    | U : unblown ?s' |- vote_ok _ ?s' _ =>
        match s' with
        | context [new_step ?st ?s0] =>
            let N := fresh "N" in
            assert (N : neutral (new_step st s0) s') by neut;
            eapply vote_ok_neutral; [ exact N | ];
            apply (@vote_ok_new_step own s0 t);
            [ exact HI | exact R | cbn [mstep_of]; assumption
            | cbn [mstep_of]; eapply unblown_neutral; [ exact N | exact U ] ]
        end
    end.

  Ltac norm R :=
    subst;
    repeat match goal with
           | H : status_ (new_step ?t ?s) = Running |- _ => rewrite (new_step_ok t s R H) in *
           end;
    repeat (autorewrite with frame in *; cbn [stp round locked locked_round hvs imp_req cur status_ glog
              set_stp set_timer set_cur set_lock set_pol set_hvs set_bpm set_commit_round set_commit_req
              set_prop_req set_imp_req set_status set_glog glog_add unlock panic lock_of votes_for] in *).

  Lemma run_P : forall f a s, P s -> PRE a s -> P (run n own blocks delay f a s).
  Proof.
    induction f as [|f IH]; intros a s HP HPRE.
    { cbn. destruct (status_ s); auto. apply P_panic; auto. }
    cbn beta iota delta [run]. fold (run n own blocks delay). destruct (status_ s) eqn:R; auto.
    pose proof (p_inv HP) as HI. pose proof (p_invd HP) as HD.
    destruct a.
    - (* AEnterPropose *)
      pcrunch IH.
      + apply P_set_cur; [norm R; discriminate|].
        subst s2. apply P_send_proposal.
        * subst s1 s0. pcrunch IH.
        * subst s1. cbn. exact Heqs1.
        * intro U. subst s1 s0. eapply prop_ok_neutral; [apply nt_set_timer, neutral_refl|].
          apply (proj1 (prop_ok_new_step HI R Heqs1 U)).
      + apply P_set_prop_req.
        * subst s2 s1 s0. pcrunch IH.
        * intros R2 U2. subst s2 s1 s0.
          assert (N2 : neutral (new_step SPropose s) (emit (OProposeReq false) (set_timer true (new_step SPropose s)))).
          { apply nt_emit; [reflexivity|]. apply nt_set_timer, neutral_refl. }
          assert (U1 := unblown_neutral N2 U2).
          destruct (prop_ok_new_step HI R Heqs1 U1) as [[K1 [K2 K3]] T].
          rewrite (nt_stp N2), (nt_round N2). split; auto.
          intros b p Hb. eapply K2. apply (nt_recs N2); eauto.
    - (* AEnterPrevote *)
      pcrunch IH.
      all: try solve [ constructor;
             [ cbn [pre]; intro; vote_ok_tac HI R Prevote
             | cbn [preD]; unfold lock_of; autorewrite with frame;
               match goal with H : locked _ = _ |- _ => rewrite H end; cbn; auto
             | exact I ] ].
      all: subst s0; apply P_import_request; auto.
    - (* AEnterPrevoteWait *)
      pcrunch IH.
      all: try solve [intros [_ _ [L' [T' HS']]] O v Hv; subst; eapply vs_list_known; [apply (ss_r HS')|exact O|exact Hv]].
      all: try solve [subst; autorewrite with frame; assumption].
    - (* AEnterPrecommit *)
      assert (HP0 : status_ (new_step SPrecommit s) = Running -> P (new_step SPrecommit s))
        by (intros _; apply P_new_step; [split; discriminate|discriminate|auto]).
      pcrunch IH.
      all: try solve [ constructor;
             [ cbn [pre]; intro; vote_ok_tac HI R Precommit
             | first [ cbn [preD gev_ok]; exact I
                     | subst; apply preD_precommit_lock; [ reflexivity | apply bps_id_of_is; assumption ]
                     | subst; apply preD_precommit_lock; [ reflexivity | apply bps_id_of_is; repeat andb_hyp; assumption ] ]
             | exact I ] ].
      all: try solve [ subst s3 s1; apply P_lock_log;
             [ apply HP0; reflexivity | exact Heqs1 | norm R; cbn; lia | assumption
             | apply bps_id_of_is; first [assumption | repeat andb_hyp; assumption] ] ].
      all: try solve [ apply P_unlock_here;
          [ subst s3; apply P_set_by_psid; [ norm R; discriminate | apply HP0; reflexivity ]
          | subst s3; autorewrite with frame; exact Heqs1
          | subst s3; autorewrite with frame; reflexivity
          | subst; unfold votes_for; autorewrite with frame; reflexivity
          | assumption
          | intros l Hl; subst s3; autorewrite with frame in Hl; eapply bps_id_is_false; eauto ] ].
      all: try solve [ apply P_unlock_here;
          [ apply HP0; reflexivity | exact Heqs1 | reflexivity | subst; reflexivity | assumption | intros; discriminate ] ].
    - (* AEnterPrecommitWait *)
      pcrunch IH.
      all: try solve [intros [_ _ [L' [T' HS']]] O v Hv; subst; eapply vs_list_known; [apply (ss_r HS')|exact O|exact Hv]].
      all: try solve [subst; autorewrite with frame; assumption].
      constructor; [exact I| |exact I].
      apply (@preD_commit n s0);
        [ apply p_invd; subst s0; pcrunch IH | subst s2; autorewrite with frame; reflexivity
        | subst s2 s1; unfold votes_for in Heqo; autorewrite with frame; exact Heqo ].
    - (* AEnterCommit *)
      pcrunch IH.
      all: try solve [ apply P_new_step_commit_down; auto; congruence ].
      all: try solve [ subst s4 s3 s2 s1 s0; apply P_enter_commit; auto; exact (pre_d HPRE) ].
      all: try solve [ constructor; [exact I| |exact I]; cbn [preD]; norm R; reflexivity
                     | constructor; [exact I| |exact I]; cbn [preD]; subst s6; destruct (cur_complete blocks s5); norm R; reflexivity ].
    - (* AEnterNewRound *)
      plet_step. destruct delay.
      + ppeel. subst s0. apply P_new_round; [lia|auto].
      + apply IH; [|constructor; exact I]. subst s0. apply P_new_round; [lia|auto].
    - (* ACommitNewHeight *)
      pcrunch IH.
      apply P_finalize; auto; [exact (pre_d HPRE)|rewrite Heqo; reflexivity].
    - (* ASendVote *)
      destruct (_ || _); auto.
      repeat plet_step. subst s4 s3 s2.
      change (P (run n own blocks delay f (ARecvVote s0) (send3 s0 s1))). subst s0 s1.
      destruct (@P_send_vote s t d HP R (pre_c HPRE) (pre_d HPRE)) as [A B].
      apply IH; [exact A|]. constructor; [exact I|exact I|exact B].
    - (* ARecvVote *)
      destruct (_ || _) eqn:Hrange; auto.
      destruct (hvs_add n (hvs s) (Z.to_nat (v_from v)) v) as [added h] eqn:Hadd.
      destruct (negb added); auto.
      plet_step.
      assert (H0 : P s0).
      { subst s0. apply orb_false_iff in Hrange as [Hr _]. apply Z.ltb_ge in Hr.
        eapply P_recv; eauto. exact (pre_s HPRE). }
      assert (R0 : status_ s0 = Running) by (subst s0; exact R).
      clear HP HI HD E0 Hadd HPRE.
      pcrunch IH.
      all: try solve [ constructor; [exact I| |exact I];
                       apply (@preD_commit n s0); [apply p_invd; exact H0|reflexivity|subst; unfold votes_for in *; congruence] ].
      all: try solve [ apply P_unlock_prevote; [ assumption | assumption | subst; reflexivity | assumption | congruence ] ].
      all: apply P_set_by_psid;
        [ subst s5; match goal with |- context [if ?c then _ else _] => destruct c end;
          autorewrite with frame; intro Hc; rewrite Hc in *; discriminate
        | subst s5; match goal with |- context [if ?c then _ else _] => destruct c eqn:? end;
          [ apply P_unlock_prevote; [ assumption | assumption | subst; reflexivity | assumption | congruence ] | assumption ] ].
  Qed.

  (* ------------------------------------------------------------------ the event handlers *)

  Ltac hp :=
    repeat match goal with
      | |- P (write_lock_wal _ _ _ _) => fail 1
      | |- P (let x := ?v in _) => plet_step
      | |- P (run _ _ _ _ _ _ _) => apply run_P
      | |- P (new_round _ _) => apply P_new_round; [ apply Z.ltb_lt; repeat andb_hyp; eauto | ]
      | |- P (if ?c then _ else _) => destruct c eqn:?
      | |- P (match ?x with _ => _ end) => destruct x eqn:?
      | E : ?y = _ |- P ?y => rewrite E
      | |- PRE _ _ => solve [constructor; exact I]
      | _ => ppeel
      end.

  Lemma P_recv_proposal curh r from pol b s : P s -> P (recv_proposal n own blocks delay curh r from pol b s).
  Proof.
    intro HP. cbv beta delta [recv_proposal].
    destruct (_ || _); auto. destruct (_ || _) eqn:C; auto.
    apply orb_false_iff in C as [_ C]. apply step_leb_commit_false in C.
    destruct (_ || _); auto. destruct (negb _); auto. destruct (cur s); auto.
    repeat plet_step.
    assert (H2 : P s2).
    { subst s2 s1 s0. ppeel. apply P_set_cur; [cbn; auto|]. repeat ppeel. }
    clear HP E0 E1 E2. hp.
  Qed.

  Lemma P_recv_part curh b idx s : P s -> P (recv_part n own blocks delay curh b idx s).
  Proof.
    intro HP. cbv beta delta [recv_part]. plet_step.
    assert (H0 : P s0) by (subst s0; destruct (existsb _ _); auto; repeat ppeel).
    clear E0 HP. destruct (negb curh); auto. destruct (cur s0); auto. destruct (bps_complete _ _); auto.
    assert (H1 : P (snd (add_part blocks b idx s0))) by (apply P_add_part; auto).
    destruct (add_part blocks b idx s0) as [added s1]. cbn in H1.
    hp. constructor; [exact I| |exact I]. cbn. apply andb_true_iff in Heqb2 as [A _]. apply step_eqb_true; auto.
  Qed.

  Lemma P_recv_vote curh v s : P s -> (vol_ok s -> known s v) -> P (recv_vote n own blocks delay curh v s).
  Proof.
    intros HP K. cbv beta delta [recv_vote]. destruct (negb curh); auto.
    apply run_P; auto. constructor; [exact I|exact I|exact K].
  Qed.

  Lemma P_timeout s : P s -> P (timeout n own blocks delay s).
  Proof. intro HP. cbv beta delta [timeout]. hp. Qed.

  Lemma P_commit_cb rr ok s : P s -> status_ s = Running -> P (commit_cb blocks rr ok s).
  Proof.
    intros HP R. cbv beta delta [commit_cb]. destruct (commit_req s); auto. destruct (negb _); auto.
    plet_step. assert (H0 : P s0) by (subst s0; repeat ppeel).
    destruct (negb _) eqn:C; auto. destruct (negb ok); [apply P_panic; auto|].
    apply negb_false_iff, andb_true_iff in C as [_ C]. apply step_eqb_true in C.
    destruct (cur s0) as [p|] eqn:Cu; [|apply P_panic; auto].
    plet_step. apply P_set_status; [discriminate|]. subst s1. apply P_finalize; cbn; auto.
    - apply P_set_cur_same; auto. rewrite Cu; reflexivity.
    - subst s0. cbn. exact R.
  Qed.

  Lemma P_propose_cb rr ok b s :
    P s -> status_ s = Running -> P (propose_cb n own blocks delay rr ok b s).
  Proof.
    intros HP R. cbv beta delta [propose_cb]. destruct (prop_req s) as [r|] eqn:Q; auto.
    destruct (negb (Z.eqb r rr)); auto.
    pose proof (p_inv HP) as HI.
    plet_step. assert (H0 : P s0) by (subst s0; apply P_clear_prop_req; auto).
    destruct (negb _) eqn:C; auto.
    destruct (negb ok); [apply run_P; auto; constructor; exact I|].
    repeat plet_step. apply run_P; [|constructor; exact I]. subst s2.
    apply negb_false_iff in C. apply andb_true_iff in C as [C1 C2]. apply Z.eqb_eq in C1.
    apply step_eqb_true in C2.
    apply P_set_cur; [subst s1; autorewrite with frame; rewrite C2; discriminate|].
    subst s1. apply P_send_proposal; auto.
    - subst s0. cbn. auto.
    - intro U. subst s0. cbn in *.
      assert (U0 : unblown s) by exact U.
      destruct (inv_ctl HI R U0) as [_ _ _ cq]. destruct (cq _ Q) as [_ B].
      unfold prop_ok; cbn. rewrite C2. repeat split.
      + cbn; lia.
      + rewrite C1. apply B; auto.
      + discriminate.
  Qed.

  Lemma P_import_cb rr ok s :
    P s -> status_ s = Running -> P (import_cb n own blocks delay rr ok s).
  Proof.
    intros HP R. cbv beta delta [import_cb]. destruct (imp_req s) as [[r b]|] eqn:Q; auto.
    destruct (negb (Z.eqb r rr)); auto.
    pose proof (p_inv HP) as HI. pose proof (p_invd HP) as HD.
    plet_step. assert (H0 : P s0) by (subst s0; apply P_clear_imp_req; auto).
    destruct (_ || _) eqn:C; auto.
    apply orb_false_iff in C as [C1 C2]. apply negb_false_iff, Z.eqb_eq in C1.
    assert (OK : forall s', neutral s0 s' -> step_leb (stp s') SPrevoteWait = true -> unblown s' -> vote_ok own s' Prevote).
    { intros s' N L U. eapply vote_ok_neutral; [exact N|].
      assert (U0 : unblown s) by (apply (unblown_neutral N) in U; subst s0; exact U).
      destruct (inv_ctl HI R U0) as [_ _ ci _]. destruct (ci _ _ Q) as [A B].
      rewrite (nt_stp N) in L. subst s0. cbn in *.
      unfold step_leb in L. apply N.leb_le in L. cbn in L.
      unfold vote_ok; cbn. repeat split.
      - unfold pos_le, pos in A; cbn in A. lia.
      - intros v Hv Ho [E1 E2]. eapply B; eauto. congruence.
      - intros _ b0 Hb. discriminate. }
    assert (NL : step_leb (stp s0) SPrevoteWait = true -> locked s0 = None).
    { intro L. destruct (d_imp HD Q) as [_ B]. subst s0. cbn in *.
      apply B; auto. unfold step_leb in L. apply N.leb_le in L. exact L. }
    pose proof (step_leb_commit_false _ C2) as NC.
    destruct ok.
    - plet_step.
      assert (N1 : neutral s0 s1) by (subst s1; destruct (_ && _); auto using neutral_refl, nt_set_cur).
      assert (H1 : P s1) by (subst s1; destruct (_ && _); auto; apply P_set_cur; auto).
      assert (S1 : stp s1 = stp s0 /\ locked s1 = locked s0) by (subst s1; destruct (_ && _); cbn; auto).
      destruct S1 as [S1 L1].
      destruct (step_leb (stp s1) SPrevoteWait) eqn:L; auto.
      destruct (cur s1); [|apply P_panic; auto].
      destruct (p_block b0); [|apply P_panic; auto].
      apply run_P; auto. constructor; [cbn; intro; apply OK; auto| |exact I].
      cbn [preD gev_ok]. unfold lock_of. rewrite L1, NL; cbn; auto. rewrite <- S1. exact L.
    - destruct (step_leb (stp s0) SPrevoteWait) eqn:L; auto.
      apply run_P; auto. constructor; [cbn; intro; apply OK; auto using neutral_refl| |exact I].
      cbn [preD gev_ok]. unfold lock_of. rewrite NL; cbn; auto.
  Qed.


  (* ------------------------------------------------------------------ crash and restart *)

  Lemma P_crash kr kl kc s : P s -> P (crash kr kl kc s).
  Proof.
    intros [HI HD [L [T HS]]]. constructor.
    - apply Inv_crash; auto.
    - apply InvD_crash; auto.
    - exists L, T. apply SimS_crash; auto.
  Qed.

  Lemma P_restart s : P s -> P (restart n own blocks delay s).
  Proof.
    intros [HI HD [L [T HS]]].
    destruct (SimS_restart Hi Hbyz blocks_ok Hb3 HS HI HD) as [s0 [ok [L' [T' [E0 [HS0 [HI0 HD0]]]]]]].
    assert (HP0 : P s0) by (constructor; eauto).
    rewrite restart_decomp, E0. unfold restart_fin.
    destruct (negb ok); [apply P_panic; auto|].
    assert (D : P (start_dispatch n own blocks delay s0)).
    { unfold start_dispatch. destruct (stp s0); auto.
      - destruct (Z.eqb (round s0) 0).
        + apply run_P; [|constructor; exact I]. apply P_new_step; [split; discriminate|discriminate|auto].
        + apply run_P; [auto|constructor; exact I].
      - apply run_P; [auto|constructor; exact I].
      - destruct (vs_has23 _); auto. apply run_P; [auto|constructor; exact I].
      - destruct (vs_has23 _); auto. apply run_P; [auto|constructor; exact I]. }
    destruct L' as [[b lr]|]; auto.
    destruct (negb (decodable blocks b)); auto. apply P_panic; auto.
  Qed.

  (* ------------------------------------------------------------------ one event, any crash point *)

  (* at event boundaries a running engine has not passed a crash point *)
  Definition PB (s : st) : Prop := P s /\ (status_ s = Running -> blown s = false).

  Lemma P_set_outs fz s : PB s -> P (set_outs [] fz s).
  Proof.
    intros [[HI HD [L [T HS]]] B]. constructor.
    - destruct HI as [d k c]. constructor; cbn; auto. intros R _. apply Ctl_set_outs. apply c; auto. unfold unblown. apply B; auto.
    - eapply InvD_dsame; [apply ds_set_outs, dsame_refl|auto].
    - exists L, T. eapply (@SimS_vol L s); [constructor; reflexivity| |cbn; auto|exact HS].
      constructor; try reflexivity. intros [R _]. split; auto.
  Qed.

  (* the votes an event carries for the current height were known when the event began *)
  Definition ev_k0 (e : event) : Prop :=
    match e with
    | EVote true v => K0 v
    | EVoteList l => forall c v, In (c, v) l -> c = true -> K0 v
    | _ => True
    end.

  Lemma P_k0 s v : P s -> K0 v -> known s v.
  Proof. intros [_ _ [L [T H]]] K. apply (sr_k0 (ss_r H)); auto. Qed.

  Lemma P_votelist l : forall s,
    P s -> (forall c v, In (c, v) l -> c = true -> K0 v) ->
    P (fold_left (fun s cv => recv_vote n own blocks delay (fst cv) (snd cv) s) l s).
  Proof.
    induction l as [|[c v] l IH]; intros s HP K; cbn [fold_left fst snd]; auto.
    apply IH; [|intros c0 v0 H0; apply K; right; auto].
    unfold recv_vote. destruct c; cbn [negb]; auto.
    apply run_P; auto. constructor; [exact I|exact I|]. cbn [preS]. intros _. apply P_k0; auto. apply (K true v); auto. left; auto.
  Qed.

  Lemma P_step_ev e fz s : PB s -> ev_k0 e -> PB (step_ev n own blocks delay e fz s).
  Proof.
    intros HB K. cbv beta delta [step_ev].
    set (s0 := set_outs [] fz s).
    assert (H0 : P s0) by (subst s0; apply P_set_outs; auto).
    clearbody s0. cbv zeta.
    match goal with |- PB (if blown ?x then _ else _) => set (s1 := x) end.
    assert (H1 : P s1).
    { subst s1. destruct e; try (destruct (status_ s0) eqn:R; auto).
      - apply P_recv_proposal; auto.
      - apply P_recv_part; auto.
      - destruct curh; [apply P_recv_vote; auto; intros _; apply P_k0; auto|unfold recv_vote; cbn [negb]; auto].
      - apply P_votelist; auto.
      - apply P_timeout; auto.
      - apply P_propose_cb; auto.
      - apply P_import_cb; auto.
      - apply P_commit_cb; auto.
      - apply P_crash; auto.
      - apply P_crash; auto.
      - apply P_restart; auto. }
    clearbody s1. destruct (blown s1) eqn:B.
    - split.
      + apply P_set_status; auto. destruct (status_ s1); discriminate.
      + cbn. destruct (status_ s1); discriminate.
    - split; auto.
  Qed.

  Lemma PB_init_like s : P s -> status_ s <> Running -> PB s.
  Proof. intros H N. split; auto. intro R. contradiction. Qed.

End RunP2.
