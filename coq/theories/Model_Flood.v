(* Model_Flood.v — network/p2p.go: the data-packet branch of PeerToPeer.onPacket,
   network/pool.go: PacketPool (NewPacketPool, _contains, Put, Contains, Clear),
   network/protocolhandler.go: the relay decision of onPacketResult.

   Peer ids and packet hashes are integers (two ids are Equal iff the integers are
   equal; the pool is keyed by Packet.hashOfPacket only).  Integers are Z as in the
   go2coq kernels; the five small boolean definitions below mirror the generated
   kernels K_onPacketIsOneHop, K_onPacketIsBroadcast, K_onPacketDropOneHop,
   K_onPacketDropBroadcast, K_peerRoleHas literally (same argument order) so that they
   can be replaced by them.   No proofs in this file. *)
From Coq Require Import List ZArith Bool.
Import ListNotations.
Open Scope Z_scope.

(* ---------- kernels (p2p.go onPacket, peer.go PeerRoleFlag.Has) ---------- *)

(* isOneHop := pkt.ttl != 0 || pkt.dest == p2pDestPeer *)
Definition is_one_hop (pkt_ttl : Z) (pkt_dest : Z) : bool :=
  ((negb (pkt_ttl =? 0)) || (pkt_dest =? 255)).

(* isBroadcast := pkt.dest == p2pDestAny && pkt.ttl == 0 *)
Definition is_broadcast (pkt_dest : Z) (pkt_ttl : Z) : bool :=
  ((pkt_dest =? 0) && (pkt_ttl =? 0)).

(* if isOneHop && !isSourcePeer { drop } *)
Definition drop_one_hop (isOneHop : bool) (isSourcePeer : bool) : bool :=
  (isOneHop && (negb isSourcePeer)).

(* if isBroadcast && isSourcePeer && !p.HasRole(p2pRoleRoot) { drop } *)
Definition drop_broadcast (isBroadcast : bool) (isSourcePeer : bool) (p_HasRole_p2pRoleRoot : bool) : bool :=
  ((isBroadcast && isSourcePeer) && (negb p_HasRole_p2pRoleRoot)).

(* func (pr PeerRoleFlag) Has(o PeerRoleFlag) bool { return pr&o == o } *)
Definition role_has (pr : Z) (o : Z) : bool :=
  ((Z.land pr o) =? o).

Definition role_seed : Z := 1.   (* p2pRoleSeed = module.RoleSeed *)
Definition role_root : Z := 2.   (* p2pRoleRoot = module.RoleValidator *)
Definition dest_any : Z := 0.    (* p2pDestAny *)
Definition dest_peer : Z := 255. (* p2pDestPeer *)

(* protocolHandler.onPacketResult: isRelay && pkt.ttl == BroadcastAll && pkt.dest != p2pDestPeer *)
Definition relay_decision (isRelay : bool) (pkt_ttl pkt_dest : Z) : bool :=
  isRelay && (pkt_ttl =? 0) && negb (pkt_dest =? 255).

(* ---------- PacketPool ---------- *)

Definition memZ (h : Z) (m : list Z) : bool := existsb (Z.eqb h) m.

Fixpoint set_nth {A} (i : nat) (x : A) (l : list A) : list A :=
  match l with
  | [] => []
  | y :: r => match i with O => x :: r | S k => y :: set_nth k x r end
  end.

(* a bucket is a Go map used as a set of hashes; None is the nil map *)
Definition bucket := option (list Z).

Record pool := {
  pl_buckets : list bucket;   (* buckets []map[uint64]*Packet *)
  pl_len : list Z;            (* len []int *)
  pl_cur : nat                (* cur *)
}.

Section Pool.
  Variable NB : nat.   (* numOfBucket *)
  Variable LB : Z.     (* lenOfBucket *)

  (* NewPacketPool: buckets[0] = make(map); the others nil *)
  Definition new_pool : pool :=
    {| pl_buckets := Some [] :: repeat None (NB - 1); pl_len := repeat 0 NB; pl_cur := O |}.

  (* if cur < 1 { cur = numOfBucket }; cur-- *)
  Definition prev_idx (cur : nat) : nat := Nat.pred (if Nat.ltb cur 1 then NB else cur).
  (* cur++; if cur >= numOfBucket { cur = 0 } *)
  Definition next_idx (cur : nat) : nat := if Nat.leb NB (S cur) then O else S cur.

  (* _contains: for i := 0; i < numOfBucket; i++ { m := buckets[cur]; if m == nil {return false}; ... }
     None = index out of range (a Go panic) *)
  Fixpoint contains_loop (i : nat) (cur : nat) (bs : list bucket) (h : Z) : option bool :=
    match i with
    | O => Some false
    | S i' =>
      match nth_error bs cur with
      | None => None
      | Some None => Some false
      | Some (Some m) => if memZ h m then Some true else contains_loop i' (prev_idx cur) bs h
      end
    end.

  Definition contains (p : pool) (h : Z) : option bool :=
    contains_loop NB (pl_cur p) (pl_buckets p) h.

  (* Put: (pool after, "was new") ; None = Go panic (index out of range / write to nil map) *)
  Definition put (p : pool) (h : Z) : option (pool * bool) :=
    match contains p h with
    | None => None
    | Some true => Some (p, false)
    | Some false =>
      match nth_error (pl_buckets p) (pl_cur p), nth_error (pl_len p) (pl_cur p) with
      | Some (Some m), Some l =>
          let bs1 := set_nth (pl_cur p) (Some (h :: m)) (pl_buckets p) in
          let l1 := l + 1 in
          let ls1 := set_nth (pl_cur p) l1 (pl_len p) in
          if LB <=? l1 then
            let c := next_idx (pl_cur p) in
            match nth_error bs1 c, nth_error ls1 c with
            | Some _, Some _ =>
                Some ({| pl_buckets := set_nth c (Some []) bs1; pl_len := set_nth c 0 ls1; pl_cur := c |}, true)
            | _, _ => None
            end
          else Some ({| pl_buckets := bs1; pl_len := ls1; pl_cur := pl_cur p |}, true)
      | _, _ => None
      end
    end.

  (* Clear: all buckets nil, cur = 0, buckets[0] = make(map); len[] is left as it is *)
  Definition clear (p : pool) : pool :=
    {| pl_buckets := match pl_buckets p with [] => [] | _ :: r => Some [] :: map (fun _ => None) r end;
       pl_len := pl_len p; pl_cur := O |}.

  (* ATOMICITY.  `put` above is ONE step: PacketPool.Put holds the write lock from the
     _contains test to the insertion, and every theorem about sequences of Puts (puts, run)
     is about sequences of such atomic steps; concurrent callers are serialised by the lock.
     The two halves are given separately below to state what goes wrong if they can be
     scheduled separately (test under a read lock, insertion under the write lock, no re-test). *)

  (* the part of Put after the test: insert into the current bucket and rotate when full *)
  Definition put_insert (p : pool) (h : Z) : option pool :=
    match nth_error (pl_buckets p) (pl_cur p), nth_error (pl_len p) (pl_cur p) with
    | Some (Some m), Some l =>
        let bs1 := set_nth (pl_cur p) (Some (h :: m)) (pl_buckets p) in
        let l1 := l + 1 in
        let ls1 := set_nth (pl_cur p) l1 (pl_len p) in
        if LB <=? l1 then
          let c := next_idx (pl_cur p) in
          match nth_error bs1 c, nth_error ls1 c with
          | Some _, Some _ =>
              Some {| pl_buckets := set_nth c (Some []) bs1; pl_len := set_nth c 0 ls1; pl_cur := c |}
          | _, _ => None
          end
        else Some {| pl_buckets := bs1; pl_len := ls1; pl_cur := pl_cur p |}
    | _, _ => None
    end.

  (* a non-atomic Put: caller c first tests (SCheck c), later inserts (SInsert c) if its test
     said "not there"; `seen` remembers each caller's test result; the result lists the callers
     that were told "new" (Put returned true), in the order of their insertions *)
  Inductive split_act := SCheck (c : nat) | SInsert (c : nat).

  Fixpoint seen_lookup (c : nat) (seen : list (nat * bool)) : option bool :=
    match seen with
    | [] => None
    | (c', b) :: r => if Nat.eqb c c' then Some b else seen_lookup c r
    end.

  Fixpoint put_split (p : pool) (h : Z) (seen : list (nat * bool)) (sched : list split_act)
    : option (pool * list nat) :=
    match sched with
    | [] => Some (p, [])
    | SCheck c :: r =>
        match contains p h with
        | None => None
        | Some b => put_split p h ((c, b) :: seen) r
        end
    | SInsert c :: r =>
        match seen_lookup c seen with
        | Some false =>
            match put_insert p h with
            | None => None
            | Some p1 =>
              match put_split p1 h seen r with
              | None => None
              | Some (p2, ws) => Some (p2, c :: ws)
              end
            end
        | _ => put_split p h seen r      (* its test said "duplicate" (or it never tested): returns false *)
        end
    end.

  (* a sequence of Put calls: the results *)
  Fixpoint puts (p : pool) (hs : list Z) : option (pool * list bool) :=
    match hs with
    | [] => Some (p, [])
    | h :: r =>
      match put p h with
      | None => None
      | Some (p1, b) =>
        match puts p1 r with
        | None => None
        | Some (p2, bs) => Some (p2, b :: bs)
        end
      end
    end.

  (* ---------- onPacket ---------- *)

  Record peer := {
    pr_id : Z;             (* p.ID() *)
    pr_role : Z;           (* p.Role() flags: the role this node resolved for the peer *)
    pr_recv_role : Z;      (* p.RecvRole(): what the peer announced about itself; onPacket does not read it *)
    pr_conn : Z;           (* p.ConnType(), 0 = p2pConnTypeNone *)
    pr_protos : list Z     (* p.ProtocolInfos() *)
  }.

  Record pkt := {
    k_proto : Z;           (* pkt.protocol (uint16) *)
    k_src : Z;             (* pkt.src *)
    k_dest : Z;
    k_ttl : Z;
    k_hash : Z             (* pkt.hashOfPacket *)
  }.

  Record node := {
    nd_self : Z;           (* p2p.ID() *)
    nd_cbs : list Z;       (* keys of onPacketCbFuncs *)
    nd_pool : pool
  }.

  Inductive outcome :=
  | OCloseProto      (* peer does not support the protocol: p.CloseByError *)
  | OControl         (* p2p control protocol: handled elsewhere, not modelled *)
  | ODropConnNone    (* undetermined PeerConnectionType *)
  | ODropSelfSrc     (* src is this node *)
  | ODropOneHopSrc   (* one-hop packet whose src is not the sending peer *)
  | ODropNotAuth     (* originator broadcast from a peer without the root role *)
  | ODeliverDirect   (* callback invoked, one-hop packet (pool not consulted) *)
  | ODeliverFlood    (* callback invoked, packet was new in the pool *)
  | ODropDup         (* duplicated by footer *)
  | OCloseNoCb.      (* no callback registered: p.CloseByError *)

  Definition with_pool (n : node) (pl : pool) : node :=
    {| nd_self := nd_self n; nd_cbs := nd_cbs n; nd_pool := pl |}.

  Definition on_packet (n : node) (p : peer) (k : pkt) : option (node * outcome) :=
    if negb (memZ (k_proto k) (pr_protos p)) then Some (n, OCloseProto) else
    if Z.shiftr (k_proto k) 8 =? 0 then Some (n, OControl) else
    if pr_conn p =? 0 then Some (n, ODropConnNone) else
    if nd_self n =? k_src k then Some (n, ODropSelfSrc) else
    let isSourcePeer := pr_id p =? k_src k in
    let isOneHop := is_one_hop (k_ttl k) (k_dest k) in
    if drop_one_hop isOneHop isSourcePeer then Some (n, ODropOneHopSrc) else
    let isBroadcast := is_broadcast (k_dest k) (k_ttl k) in
    if drop_broadcast isBroadcast isSourcePeer (role_has (pr_role p) role_root) then Some (n, ODropNotAuth) else
    if memZ (k_proto k) (nd_cbs n) then
      if isOneHop then Some (n, ODeliverDirect) else
      match put (nd_pool n) (k_hash k) with
      | None => None
      | Some (pl, true) => Some (with_pool n pl, ODeliverFlood)
      | Some (pl, false) => Some (with_pool n pl, ODropDup)
      end
    else Some (n, OCloseNoCb).

  Definition delivered (o : outcome) : bool :=
    match o with ODeliverDirect | ODeliverFlood => true | _ => false end.
  Definition closes (o : outcome) : bool :=
    match o with OCloseProto | OCloseNoCb => true | _ => false end.
  Definition is_flood (o : outcome) : bool :=
    match o with ODeliverFlood => true | _ => false end.

  Fixpoint run (n : node) (evs : list (peer * pkt)) : option (node * list outcome) :=
    match evs with
    | [] => Some (n, [])
    | (p, k) :: r =>
      match on_packet n p k with
      | None => None
      | Some (n1, o) =>
        match run n1 r with
        | None => None
        | Some (n2, os) => Some (n2, o :: os)
        end
      end
    end.

  Definition new_node (self : Z) (cbs : list Z) : node :=
    {| nd_self := self; nd_cbs := cbs; nd_pool := new_pool |}.
End Pool.
