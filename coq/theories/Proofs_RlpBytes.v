(* Proofs_RlpBytes.v — decoding what the node encoder produced (Model_RlpBytes). *)
From Goloop Require Import lib.Bytes Model_RlpBytes.
From Coq Require Import ZifyBool ZifyN ZifyNat.
Open Scope N_scope.

(* ---------- big-endian sizes ---------- *)

Lemma be_bytes_length k v : length (be_bytes k v) = k.
Proof. induction k; cbn; [reflexivity|]. now rewrite IHk. Qed.

Lemma pow8_S k : 2 ^ (8 * N.of_nat (S k)) = 2 ^ (8 * N.of_nat k) * 256.
Proof.
  replace (8 * N.of_nat (S k)) with (8 * N.of_nat k + 8) by lia.
  rewrite N.pow_add_r. reflexivity.
Qed.

Lemma pow2_nz n : 2 ^ n <> 0.
Proof. apply N.pow_nonzero. discriminate. Qed.

Lemma fold_be k : forall v acc,
  fold_left (fun a b => a * 256 + b) (be_bytes k v) acc =
  acc * 2 ^ (8 * N.of_nat k) + v mod 2 ^ (8 * N.of_nat k).
Proof.
  induction k as [|k IH]; intros v acc.
  - cbn. rewrite N.mod_1_r. lia.
  - cbn [be_bytes fold_left]. rewrite IH, pow8_S.
    rewrite (N.mod_mul_r v (2 ^ (8 * N.of_nat k)) 256) by (try apply pow2_nz; discriminate).
    ring.
Qed.

Lemma be_val_be_bytes k v : v < 2 ^ (8 * N.of_nat k) -> be_val (be_bytes k v) = v.
Proof. intros H. unfold be_val. rewrite fold_be. rewrite N.mod_small by exact H. lia. Qed.

(* the byte count chosen for a size *)
Lemma size_count_bounds n :
  0 < n ->
  2 ^ (8 * (N.of_nat (size_count n) - 1)) <= n /\ n < 2 ^ (8 * N.of_nat (size_count n)) /\
  (1 <= size_count n)%nat.
Proof.
  intros Hn. unfold size_count. set (s := N.size n).
  assert (Es : s = N.succ (N.log2 n)) by (apply N.size_log2; lia).
  destruct (N.log2_spec n Hn) as [L1 L2]. rewrite <- Es in L2.
  set (q := (s + 7) / 8). assert (Hq : 8 * q <= s + 7 < 8 * q + 8) by (unfold q; lia).
  assert (Hq1 : 1 <= q) by lia.
  rewrite N.max_r by lia. rewrite N2Nat.id. repeat split; [| |lia].
  - eapply N.le_trans; [|exact L1]. apply N.pow_le_mono_r; lia.
  - eapply N.lt_le_trans; [exact L2|]. apply N.pow_le_mono_r; lia.
Qed.

Lemma size_count_le8 n : 0 < n -> n < 2 ^ 64 -> (size_count n <= 8)%nat.
Proof.
  intros Hn Hb. destruct (size_count_bounds n Hn) as (L1 & _ & L3).
  assert (H : 2 ^ (8 * (N.of_nat (size_count n) - 1)) < 2 ^ 64) by lia.
  apply N.pow_lt_mono_r_iff in H; lia.
Qed.

Lemma size_bytes_spec n :
  56 <= n -> n < 2 ^ 64 ->
  exists b0 r, size_bytes n = b0 :: r /\ b0 <> 0 /\ b0 < 256 /\ be_val (size_bytes n) = n /\
               (1 <= length (size_bytes n) <= 8)%nat.
Proof.
  intros Hn Hb. unfold size_bytes.
  destruct (size_count_bounds n ltac:(lia)) as (L1 & L2 & L3).
  pose proof (size_count_le8 n ltac:(lia) Hb) as L4.
  destruct (size_count n) as [|k] eqn:Ek; [lia|].
  cbn [be_bytes]. eexists _, _. split; [reflexivity|].
  replace (N.of_nat (S k) - 1) with (N.of_nat k) in L1 by lia.
  assert (Hd : 1 <= n / 2 ^ (8 * N.of_nat k)).
  { apply N.div_le_lower_bound; [apply pow2_nz|lia]. }
  assert (Hu : n / 2 ^ (8 * N.of_nat k) < 256).
  { apply N.div_lt_upper_bound; [apply pow2_nz|]. rewrite pow8_S in L2. lia. }
  split; [rewrite N.mod_small by exact Hu; lia|].
  split; [apply N.mod_lt; discriminate|].
  split.
  - change ((n / 2 ^ (8 * N.of_nat k)) mod 256 :: be_bytes k n) with (be_bytes (S k) n).
    now apply be_val_be_bytes.
  - cbn [length]. rewrite be_bytes_length. lia.
Qed.

(* ---------- headers ---------- *)

Lemma blen_app a b : blen (a ++ b) = blen a + blen b.
Proof. unfold blen. rewrite app_length. lia. Qed.

Lemma take_app (a b : bytes) : take (blen a) (a ++ b) = a.
Proof.
  unfold take, blen. rewrite Nat2N.id.
  rewrite <- (Nat.add_0_r (length a)). rewrite firstn_app_2. cbn. apply app_nil_r.
Qed.

Lemma drop_app (a b : bytes) : drop (blen a) (a ++ b) = b.
Proof.
  unfold drop, blen. rewrite Nat2N.id. rewrite skipn_app, skipn_all, Nat.sub_diag. reflexivity.
Qed.

Lemma take_all (a : bytes) : take (blen a) a = a.
Proof. unfold take, blen. rewrite Nat2N.id. apply firstn_all. Qed.

Lemma read_size_ok sb rest n :
  (1 <= length sb)%nat -> be_val sb = n -> 56 <= n -> (exists b0 r, sb = b0 :: r /\ b0 <> 0) ->
  read_size (sb ++ rest) (blen sb) = Some n.
Proof.
  intros L E Hn (b0 & r & -> & Hb0). unfold read_size.
  replace (blen ((b0 :: r) ++ rest) <? blen (b0 :: r)) with false by (rewrite blen_app; lia).
  fold (take (blen (b0 :: r)) ((b0 :: r) ++ rest)). rewrite take_app.
  rewrite E. replace (n <? 56) with false by lia. replace (b0 =? 0) with false by lia. reflexivity.
Qed.

(* what a header followed by its payload parses to *)
Lemma parse_hdr_short base isl n payload rest :
  (base = 128 /\ isl = false /\ ~ (n = 1 /\ exists x t, payload ++ rest = x :: t /\ x < 128)
   \/ base = 192 /\ isl = true) ->
  blen payload = n -> n <= 55 ->
  parse_header ((base + n) :: payload ++ rest) = Some (isl, 1, n).
Proof.
  intros Hb Hl Hn. unfold parse_header.
  assert (Hc : blen ((base + n) :: payload ++ rest) - 1 <? n = false).
  { unfold blen in *. cbn [length]. rewrite app_length. lia. }
  destruct Hb as [(-> & -> & Hs)|(-> & ->)].
  - replace (256 <=? 128 + n) with false by lia. replace (128 + n <? 128) with false by lia.
    replace (128 + n <? 184) with true by lia. replace (128 + n - 128) with n by lia.
    destruct ((n =? 1) && match payload ++ rest with x :: _ => x <? 128 | [] => false end) eqn:F.
    + exfalso. apply andb_true_iff in F as [F1 F2]. apply Hs. split; [lia|].
      destruct (payload ++ rest) as [|x t]; [discriminate|]. exists x, t. split; [reflexivity|lia].
    + now rewrite Hc.
  - replace (256 <=? 192 + n) with false by lia. replace (192 + n <? 128) with false by lia.
    replace (192 + n <? 184) with false by lia. replace (192 + n <? 192) with false by lia.
    replace (192 + n <? 248) with true by lia. replace (192 + n - 192) with n by lia.
    now rewrite Hc.
Qed.

Lemma parse_hdr_long base isl n payload rest :
  (base = 128 /\ isl = false \/ base = 192 /\ isl = true) ->
  blen payload = n -> 56 <= n -> n < 2 ^ 64 ->
  parse_header ((base + 55 + blen (size_bytes n)) :: size_bytes n ++ payload ++ rest) =
  Some (isl, 1 + blen (size_bytes n), n).
Proof.
  intros Hb Hl Hn Hu. destruct (size_bytes_spec n Hn Hu) as (b0 & r & Es & Hb0 & _ & Ev & Hlen).
  set (sb := size_bytes n) in *. set (c := blen sb).
  assert (Hc : 1 <= c <= 8) by (unfold c, blen; lia).
  assert (Hr : read_size (sb ++ payload ++ rest) c = Some n).
  { apply read_size_ok; try lia; eauto. }
  assert (Hk : blen ((base + 55 + c) :: sb ++ payload ++ rest) - (1 + c) <? n = false).
  { unfold blen in *. cbn [length]. rewrite !app_length. fold c. lia. }
  unfold parse_header. destruct Hb as [(-> & ->)|(-> & ->)].
  - replace (256 <=? 128 + 55 + c) with false by lia. replace (128 + 55 + c <? 128) with false by lia.
    replace (128 + 55 + c <? 184) with false by lia. replace (128 + 55 + c <? 192) with true by lia.
    replace (128 + 55 + c - 183) with c by lia. rewrite Hr.
    replace (c + 1) with (1 + c) by lia. now rewrite Hk.
  - replace (256 <=? 192 + 55 + c) with false by lia. replace (192 + 55 + c <? 128) with false by lia.
    replace (192 + 55 + c <? 184) with false by lia. replace (192 + 55 + c <? 192) with false by lia.
    replace (192 + 55 + c <? 248) with false by lia.
    replace (192 + 55 + c - 247) with c by lia. rewrite Hr.
    replace (c + 1) with (1 + c) by lia. now rewrite Hk.
Qed.

(* a well-delimited item: its header announces exactly its own length *)
Definition rlp_item (it : bytes) : Prop :=
  forall rest, exists isl ts cs,
    parse_header (it ++ rest) = Some (isl, ts, cs) /\ ts + cs = blen it.

Lemma rlp_hdr_len base n : blen (rlp_hdr base n) = if n <=? 55 then 1 else 1 + blen (size_bytes n).
Proof. unfold rlp_hdr. destruct (n <=? 55); unfold blen; cbn [length]; lia. Qed.

Lemma rlp_item_hdr base isl payload :
  (base = 128 /\ isl = false /\ ~ (exists x, payload = [x] /\ x < 128) \/ base = 192 /\ isl = true) ->
  blen payload < 2 ^ 64 ->
  forall rest,
    parse_header ((rlp_hdr base (blen payload) ++ payload) ++ rest) =
    Some (isl, blen (rlp_hdr base (blen payload)), blen payload).
Proof.
  intros Hb Hu rest. rewrite rlp_hdr_len. unfold rlp_hdr.
  destruct (blen payload <=? 55) eqn:E.
  - cbn [app]. rewrite <- ?app_assoc. apply parse_hdr_short; [|reflexivity|lia].
    destruct Hb as [(-> & -> & Hs)|(-> & ->)]; [left|right; auto]. repeat split.
    intros (E1 & x & t & E2 & Hx). apply Hs. exists x. split; [|exact Hx].
    destruct payload as [|y [|z p]]; unfold blen in E1; cbn in E1; try lia. cbn in E2. congruence.
  - cbn [app]. rewrite <- ?app_assoc. apply parse_hdr_long; [|reflexivity|lia|exact Hu].
    destruct Hb as [(-> & -> & _)|(-> & ->)]; auto.
Qed.

Lemma rlp_str_cases b :
  (exists x, b = [x] /\ x < 128 /\ rlp_str b = [x]) \/
  (~ (exists x, b = [x] /\ x < 128) /\ rlp_str b = rlp_hdr 128 (blen b) ++ b).
Proof.
  destruct b as [|x [|y r]].
  - right. split; [intros (x & E & _); discriminate|reflexivity].
  - unfold rlp_str. destruct (x <? 128) eqn:E.
    + left. exists x. repeat split. lia.
    + right. split; [|reflexivity]. intros (z & Ez & Hz). inversion Ez; subst. lia.
  - right. split; [intros (z & E & _); discriminate|reflexivity].
Qed.

Lemma rlp_item_str b : blen b < 2 ^ 64 -> rlp_item (rlp_str b).
Proof.
  intros Hu rest. destruct (rlp_str_cases b) as [(x & -> & Hx & ->)|(Hn & ->)].
  - exists false, 0, 1. split; [|reflexivity]. cbn [app]. unfold parse_header.
    replace (256 <=? x) with false by lia. replace (x <? 128) with true by lia.
    replace (blen (x :: rest) - 0 <? 1) with false by (unfold blen; cbn [length]; lia). reflexivity.
  - eexists _, _, _. split; [apply rlp_item_hdr; auto|]. rewrite blen_app. reflexivity.
Qed.

Lemma rlp_item_list items : blen (concat items) < 2 ^ 64 -> rlp_item (rlp_list items).
Proof.
  intros Hu rest. unfold rlp_list.
  eexists _, _, _. split; [apply rlp_item_hdr; auto|]. rewrite blen_app. reflexivity.
Qed.

Lemma parse_bytes_str b : blen b < 2 ^ 64 -> parse_bytes (rlp_str b) = Some b.
Proof.
  intros Hu. unfold parse_bytes. destruct (rlp_str_cases b) as [(x & -> & Hx & ->)|(Hn & ->)].
  - unfold parse_header. replace (256 <=? x) with false by lia. replace (x <? 128) with true by lia.
    cbn. reflexivity.
  - pose proof (rlp_item_hdr 128 false b (or_introl (conj eq_refl (conj eq_refl Hn))) Hu []) as P.
    rewrite app_nil_r in P. rewrite P. rewrite drop_app. f_equal.
    rewrite <- (app_nil_r b) at 2. apply take_app.
Qed.

Lemma parse_header_list items :
  blen (concat items) < 2 ^ 64 ->
  parse_header (rlp_list items) =
  Some (true, blen (rlp_hdr 192 (blen (concat items))), blen (concat items)).
Proof.
  intros Hu. pose proof (rlp_item_hdr 192 true (concat items) (or_intror (conj eq_refl eq_refl)) Hu []) as P.
  rewrite app_nil_r in P. exact P.
Qed.

(* the item loop splits a concatenation of well-delimited items *)
Lemma split_items_concat items : forall fuel,
  Forall rlp_item items -> (length (concat items) <= fuel)%nat ->
  split_items fuel (concat items) = Some items.
Proof.
  induction items as [|it items IH]; intros fuel F L.
  - destruct fuel; reflexivity.
  - inversion F as [|? ? Hit Hrest]; subst. cbn [concat] in *.
    destruct (Hit (concat items)) as (isl & ts & cs & P & E).
    assert (Hpos : 1 <= ts + cs).
    { unfold parse_header in P. destruct (it ++ concat items) as [|b r]; [discriminate|].
      destruct (256 <=? b); [discriminate|]. destruct (b <? 128).
      - destruct (blen (b :: r) - 0 <? 1); inversion P; lia.
      - destruct (b <? 184).
        + destruct ((b - 128 =? 1) && _); [discriminate|]. destruct (_ <? _); inversion P; lia.
        + destruct (b <? 192).
          * destruct (read_size r (b - 183)); [|discriminate]. destruct (_ <? _); inversion P; lia.
          * destruct (b <? 248).
            -- destruct (_ <? _); inversion P; lia.
            -- destruct (read_size r (b - 247)); [|discriminate]. destruct (_ <? _); inversion P; lia. }
    assert (Hne : it <> []) by (intros ->; unfold blen in E; cbn in E; lia).
    destruct (it ++ concat items) as [|b0 r0] eqn:Eb.
    { destruct it; [congruence|discriminate]. }
    destruct fuel as [|f].
    { rewrite <- Eb in L. rewrite app_length in L. destruct it; [congruence|cbn in L; lia]. }
    cbn [split_items]. rewrite P. rewrite <- Eb. rewrite E, drop_app, take_app.
    rewrite IH; [reflexivity|assumption|].
    rewrite <- Eb in L. rewrite app_length in L. destruct it; [congruence|cbn in L; lia].
Qed.

Lemma parse_list_list items :
  Forall rlp_item items -> blen (concat items) < 2 ^ 64 ->
  parse_list (rlp_list items) = Some items.
Proof.
  intros F Hu. unfold parse_list. rewrite parse_header_list by exact Hu.
  unfold rlp_list. rewrite drop_app.
  rewrite take_all.
  apply split_items_concat; [exact F|]. rewrite app_length. lia.
Qed.

(* sizes *)
Lemma rlp_hdr_nonempty base n : (1 <= length (rlp_hdr base n))%nat.
Proof. unfold rlp_hdr. destruct (n <=? 55); cbn; lia. Qed.

Lemma rlp_list_length items : (length (concat items) < length (rlp_list items))%nat.
Proof. unfold rlp_list. rewrite app_length. pose proof (rlp_hdr_nonempty 192 (blen (concat items))). lia. Qed.

Lemma rlp_str_length b : (length b <= length (rlp_str b))%nat.
Proof.
  destruct (rlp_str_cases b) as [(x & -> & _ & ->)|(_ & ->)]; [cbn; lia|]. rewrite app_length. lia.
Qed.

Lemma concat_in_length (it : bytes) items : In it items -> (length it <= length (concat items))%nat.
Proof.
  induction items as [|a items IH]; intros H; [destruct H|]. cbn [concat]. rewrite app_length.
  destruct H as [->|H]; [lia|]. specialize (IH H). lia.
Qed.

(* first byte of a list *)
Lemma rlp_list_head items :
  blen (concat items) < 2 ^ 64 -> exists b0 r, rlp_list items = b0 :: r /\ 192 <= b0 /\ b0 < 256.
Proof.
  intros Hu. unfold rlp_list, rlp_hdr. destruct (blen (concat items) <=? 55) eqn:E.
  - eexists _, _. split; [reflexivity|]. lia.
  - destruct (size_bytes_spec (blen (concat items)) ltac:(lia) Hu) as (_ & _ & _ & _ & _ & _ & L).
    eexists _, _. split; [reflexivity|]. unfold blen at 1 3. lia.
Qed.
