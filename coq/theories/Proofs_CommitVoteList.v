(* Proofs_CommitVoteList.v — what VerifyBlock accepts, for every validator
   list, every item list and every recovery function. *)
From Coq Require Import Arith.
From Goloop Require Import lib.Bytes Model_Quorum Proofs_Quorum Model_CommitVoteList.
Open Scope nat_scope.

(* ---------- flag vectors ---------- *)

Lemma set_true_length i v : length (set_true i v) = length v.
Proof. revert i; induction v as [|x v IH]; intros [|i]; cbn; auto. Qed.

Lemma nth_error_set_true_same v : forall i, i < length v -> nth_error (set_true i v) i = Some true.
Proof.
  induction v as [|x v IH]; intros [|i] H; cbn in *; try lia; auto.
  apply IH. lia.
Qed.

Lemma nth_error_set_true_other v : forall i j, i <> j -> nth_error (set_true i v) j = nth_error v j.
Proof.
  induction v as [|x v IH]; intros [|i] [|j] H; cbn; auto; try congruence.
Qed.

Lemma count_true_set_true v : forall i, nth_error v i = Some false ->
  count_true (set_true i v) = S (count_true v).
Proof.
  induction v as [|x v IH]; intros [|i] H; cbn in *; try discriminate.
  - inversion H; subst. reflexivity.
  - destruct x; rewrite (IH i H); reflexivity.
Qed.

Definition set_all (idxs : list nat) (v : list bool) : list bool :=
  fold_left (fun v i => set_true i v) idxs v.

Lemma set_all_length idxs : forall v, length (set_all idxs v) = length v.
Proof.
  induction idxs as [|i r IH]; intro v; cbn; auto.
  unfold set_all in *. rewrite IH. apply set_true_length.
Qed.

Lemma set_all_true idxs : forall v j,
  nth_error (set_all idxs v) j = Some true <->
  (nth_error v j = Some true \/ (In j idxs /\ j < length v)).
Proof.
  induction idxs as [|i r IH]; intros v j; cbn.
  - intuition.
  - unfold set_all in IH. rewrite IH. rewrite set_true_length.
    destruct (Nat.eq_dec i j) as [->|Hne].
    + split.
      * intros [H|[H1 H2]]; [|auto].
        assert (Hl : j < length (set_true j v)) by (apply nth_error_Some; congruence).
        rewrite set_true_length in Hl. auto.
      * intros [H|[_ H]].
        -- left. rewrite nth_error_set_true_same; auto. apply nth_error_Some. congruence.
        -- left. apply nth_error_set_true_same; auto.
    + rewrite nth_error_set_true_other by assumption. intuition congruence.
Qed.

Lemma set_all_count idxs : forall v,
  NoDup idxs -> Forall (fun i => nth_error v i = Some false) idxs ->
  count_true (set_all idxs v) = count_true v + length idxs.
Proof.
  induction idxs as [|i r IH]; intros v Hnd Hf; cbn; [lia|].
  inversion Hnd as [|? ? Hni Hnd']; subst. inversion Hf as [|? ? Hi Hf']; subst.
  unfold set_all in IH. rewrite IH; auto.
  - rewrite count_true_set_true by assumption. lia.
  - apply Forall_forall. intros j Hj. rewrite Forall_forall in Hf'.
    rewrite nth_error_set_true_other; auto. intro; subst; contradiction.
Qed.

Lemma nth_error_repeat_false n i : i < n -> nth_error (repeat false n) i = Some false.
Proof.
  revert i; induction n as [|n IH]; intros [|i] H; cbn; try lia; auto. apply IH. lia.
Qed.

Lemma count_true_repeat_false n : count_true (repeat false n) = 0.
Proof. induction n; cbn; auto. Qed.

Lemma repeat_false_not_true n i : nth_error (repeat false n) i <> Some true.
Proof.
  revert i; induction n as [|n IH]; intros [|i]; cbn; try discriminate. apply IH.
Qed.

Lemma Forall2_imp {A B} (P Q : A -> B -> Prop) :
  (forall a b, P a b -> Q a b) -> forall l l', Forall2 P l l' -> Forall2 Q l l'.
Proof. intros H l l' HF. induction HF; constructor; auto. Qed.

Lemma Forall2_len {A B} (P : A -> B -> Prop) l l' : Forall2 P l l' -> length l = length l'.
Proof. intro HF. induction HF; cbn; auto. Qed.

(* ---------- the loop ---------- *)

Section Proofs.
  Context {sigT addrT : Type}.
  Variable addr_eqb : addrT -> addrT -> bool.
  Variable recover : vote_msg -> sigT -> option addrT.
  Hypothesis addr_eqb_eq : forall a b, addr_eqb a b = true <-> a = b.

  Notation index_of := (index_of addr_eqb).
  Notation signer_index := (signer_index addr_eqb recover).
  Notation scan := (scan addr_eqb recover).
  Notation verify_block := (verify_block addr_eqb recover).

  Lemma index_of_from_sound vals : forall k a i,
    index_of_from addr_eqb k vals a = Some i ->
    exists j, i = k + j /\ nth_error vals j = Some a.
  Proof.
    induction vals as [|x r IH]; intros k a i H; cbn in H; [discriminate|].
    destruct (addr_eqb x a) eqn:E.
    - inversion H; subst. apply addr_eqb_eq in E; subst. exists 0. split; [lia|reflexivity].
    - destruct (IH _ _ _ H) as [j [-> Hj]]. exists (S j). split; [lia|exact Hj].
  Qed.

  Lemma index_of_sound vals a i : index_of vals a = Some i -> nth_error vals i = Some a.
  Proof.
    intro H. destruct (index_of_from_sound _ _ _ _ H) as [j [-> Hj]]. exact Hj.
  Qed.

  Lemma index_of_from_complete vals : forall k a j,
    NoDup vals -> nth_error vals j = Some a -> index_of_from addr_eqb k vals a = Some (k + j).
  Proof.
    induction vals as [|x r IH]; intros k a [|j] Hnd H; cbn in *; try discriminate.
    - inversion H; subst. assert (E : addr_eqb a a = true) by (apply addr_eqb_eq; reflexivity).
      rewrite E. f_equal. lia.
    - inversion Hnd as [|? ? Hni Hnd']; subst.
      destruct (addr_eqb x a) eqn:E.
      + apply addr_eqb_eq in E; subst. exfalso. apply Hni. eapply nth_error_In; eauto.
      + rewrite (IH (S k) a j Hnd' H). f_equal. lia.
  Qed.

  Lemma index_of_iff vals a i : NoDup vals ->
    (index_of vals a = Some i <-> nth_error vals i = Some a).
  Proof.
    intro Hnd. split; [apply index_of_sound|].
    intro H. unfold Model_CommitVoteList.index_of.
    rewrite (index_of_from_complete vals 0 a i Hnd H). reflexivity.
  Qed.

  Lemma scan_spec mk vals items : forall vset v',
    scan mk vals vset items = Some v' <->
    exists idxs,
      Forall2 (fun it i => signer_index mk vals it = Some i) items idxs /\
      NoDup idxs /\
      Forall (fun i => nth_error vset i = Some false) idxs /\
      v' = set_all idxs vset.
  Proof.
    induction items as [|it r IH]; intros vset v'; cbn.
    - split.
      + intro H; inversion H; subst. exists []. repeat split; constructor.
      + intros [idxs [HF [_ [_ ->]]]]. inversion HF; subst. reflexivity.
    - split.
      + destruct (signer_index mk vals it) as [i|] eqn:Hs; [|discriminate].
        destruct (nth_error vset i) as [[|]|] eqn:Hn; try discriminate.
        intro H. apply IH in H. destruct H as [idxs [HF [Hnd [Hfa ->]]]].
        assert (Hlt : i < length vset) by (apply nth_error_Some; congruence).
        exists (i :: idxs). repeat split.
        * constructor; assumption.
        * constructor; [|assumption]. intro Hin. rewrite Forall_forall in Hfa.
          specialize (Hfa i Hin). rewrite nth_error_set_true_same in Hfa by assumption. discriminate.
        * constructor; [assumption|]. apply Forall_forall. intros j Hj.
          rewrite Forall_forall in Hfa. specialize (Hfa j Hj).
          destruct (Nat.eq_dec i j) as [->|Hne].
          -- rewrite nth_error_set_true_same in Hfa by assumption. discriminate.
          -- rewrite nth_error_set_true_other in Hfa by assumption. exact Hfa.
      + intros [idxs [HF [Hnd [Hfa ->]]]].
        inversion HF as [|? i ? idxs' Hs HF']; subst.
        inversion Hnd as [|? ? Hni Hnd']; subst. inversion Hfa as [|? ? Hi Hfa']; subst.
        rewrite Hs, Hi. apply IH. exists idxs'. repeat split; try assumption.
        apply Forall_forall. intros j Hj. rewrite Forall_forall in Hfa'.
        rewrite nth_error_set_true_other; auto. intro; subst; contradiction.
  Qed.

  (* ---------- from positions to members ---------- *)

  Lemma idx_addr_nodup (vals : list addrT) : NoDup vals -> forall idxs addrs,
    Forall2 (fun i a => nth_error vals i = Some a) idxs addrs ->
    (NoDup idxs <-> NoDup addrs).
  Proof.
    intros Hnd idxs addrs HF. induction HF as [|i a is_ as_ Hia HF IH].
    - split; constructor.
    - assert (Hin : In i is_ <-> In a as_).
      { clear IH. split; intro H.
        - induction HF as [|i' a' is' as' Hia' HF' IH']; [contradiction|].
          destruct H as [->|H]; [left; congruence | right; auto].
        - induction HF as [|i' a' is' as' Hia' HF' IH']; [contradiction|].
          destruct H as [->|H]; [left | right; auto].
          rewrite NoDup_nth_error in Hnd. apply Hnd.
          + apply nth_error_Some. congruence.
          + congruence. }
      split; intro H; inversion H; subst; constructor; tauto.
  Qed.

  Definition signed_at (mk : Z -> vote_msg) (vals : list addrT) (it : Z * sigT) (i : nat) : Prop :=
    exists a, recover (mk (fst it)) (snd it) = Some a /\ nth_error vals i = Some a.

  Definition signed_by_member (mk : Z -> vote_msg) (vals : list addrT) (it : Z * sigT) (a : addrT) : Prop :=
    recover (mk (fst it)) (snd it) = Some a /\ In a vals.

  Lemma signer_index_iff mk vals it i : NoDup vals ->
    (signer_index mk vals it = Some i <-> signed_at mk vals it i).
  Proof.
    intro Hnd. unfold Model_CommitVoteList.signer_index, signed_at.
    destruct (recover (mk (fst it)) (snd it)) as [a|].
    - rewrite index_of_iff by assumption. split.
      + intro H. exists a. auto.
      + intros [a' [Ha' H]]. inversion Ha'; subst. exact H.
    - split; [discriminate|]. intros [a [H _]]. discriminate.
  Qed.

  Lemma positions_members mk vals items : NoDup vals ->
    ((exists idxs, Forall2 (signed_at mk vals) items idxs /\ NoDup idxs) <->
     (exists addrs, Forall2 (signed_by_member mk vals) items addrs /\ NoDup addrs)).
  Proof.
    intro Hnd. split.
    - intros [idxs [HF Hd]].
      assert (exists addrs, Forall2 (signed_by_member mk vals) items addrs /\
                            Forall2 (fun i a => nth_error vals i = Some a) idxs addrs) as [addrs [H1 H2]].
      { clear Hd. induction HF as [|it i r is_ [a [Hr Hn]] HF IH].
        - exists []. split; constructor.
        - destruct IH as [addrs [H1 H2]]. exists (a :: addrs). split; constructor; auto.
          split; [assumption|]. eapply nth_error_In; eauto. }
      exists addrs. split; [assumption|]. apply (idx_addr_nodup vals Hnd idxs addrs H2). assumption.
    - intros [addrs [HF Hd]].
      assert (exists idxs, Forall2 (signed_at mk vals) items idxs /\
                           Forall2 (fun i a => nth_error vals i = Some a) idxs addrs) as [idxs [H1 H2]].
      { clear Hd. induction HF as [|it a r as_ [Hr Hin] HF IH].
        - exists []. split; constructor.
        - destruct IH as [idxs [H1 H2]]. destruct (In_nth_error _ _ Hin) as [i Hi].
          exists (i :: idxs). split; constructor; auto. exists a. auto. }
      exists idxs. split; [assumption|]. apply (idx_addr_nodup vals Hnd idxs addrs H2). assumption.
  Qed.

  (* ---------- VerifyBlock ---------- *)

  Definition accepted (o : outcome) : Prop := exists v, o = Accept v.

  Lemma verify_block_positions height round bid ps vals items v :
    height <> 0%Z ->
    (verify_block height round bid ps (Some vals) items = Accept v <->
     exists idxs,
       Forall2 (fun it i => signer_index (item_msg height round bid ps) vals it = Some i) items idxs /\
       NoDup idxs /\ Forall (fun i => i < length vals) idxs /\
       enough (length items) (length vals) = true /\
       v = set_all idxs (repeat false (length vals))).
  Proof.
    intro Hh. unfold Model_CommitVoteList.verify_block.
    destruct (height =? 0)%Z eqn:E; [apply Z.eqb_eq in E; contradiction|].
    destruct (scan (item_msg height round bid ps) vals (repeat false (length vals)) items) as [vs|] eqn:Hs.
    - apply scan_spec in Hs. destruct Hs as [idxs [HF [Hnd [Hfa ->]]]].
      assert (Hlt : Forall (fun i => i < length vals) idxs).
      { apply Forall_forall. intros i Hi. rewrite Forall_forall in Hfa. specialize (Hfa i Hi).
        rewrite <- (repeat_length false (length vals)) at 1. apply nth_error_Some. congruence. }
      destruct (enough (length items) (length vals)) eqn:En.
      + split.
        * intro H; inversion H; subst. exists idxs. auto.
        * intros [idxs' [HF' [_ [_ [_ ->]]]]].
          assert (idxs' = idxs).
          { clear - HF HF'. revert idxs' HF'. induction HF; intros idxs' HF'; inversion HF'; subst; auto.
            f_equal; [congruence|auto]. }
          subst. reflexivity.
      + split; [discriminate|]. intros [? [_ [_ [_ [H _]]]]]. discriminate.
    - split; [discriminate|]. intros [idxs [HF [Hnd [Hlt [_ _]]]]]. exfalso.
      assert (exists v', scan (item_msg height round bid ps) vals (repeat false (length vals)) items = Some v') as [v' Hv'].
      { eexists. apply scan_spec. exists idxs. repeat split; auto.
        apply Forall_forall. intros i Hi. rewrite Forall_forall in Hlt.
        apply nth_error_repeat_false. auto. }
      congruence.
  Qed.

  (* the accept set, by positions *)
  Lemma accept_iff_positions height round bid ps vals items :
    height <> 0%Z -> vals <> [] -> NoDup vals ->
    (accepted (verify_block height round bid ps (Some vals) items) <->
     exists idxs, Forall2 (signed_at (item_msg height round bid ps) vals) items idxs /\
                  NoDup idxs /\ 3 * length items > 2 * length vals).
  Proof.
    intros Hh Hne Hnd. unfold accepted.
    assert (Hn : length vals <> 0) by (destruct vals; cbn; congruence).
    split.
    - intros [v H]. apply verify_block_positions in H; [|assumption].
      destruct H as [idxs [HF [Hd [_ [En _]]]]]. exists idxs. repeat split; auto.
      + eapply Forall2_imp; [|exact HF]. intros it i. apply signer_index_iff. assumption.
      + apply enough_spec; assumption.
    - intros [idxs [HF [Hd Hq]]]. eexists. apply verify_block_positions; [assumption|].
      exists idxs. repeat split; auto.
      + eapply Forall2_imp; [|exact HF]. intros it i. apply signer_index_iff. assumption.
      + clear - HF. induction HF as [|it i r is_ [a [_ Hn]] HF IH]; constructor; auto.
        apply nth_error_Some. congruence.
      + apply enough_spec; assumption.
  Qed.

  (* the accept set, by members of the validator list — the property statement *)
  Theorem accept_iff height round bid ps vals items :
    height <> 0%Z -> vals <> [] -> NoDup vals ->
    (accepted (verify_block height round bid ps (Some vals) items) <->
     (exists signers,
        Forall2 (signed_by_member (item_msg height round bid ps) vals) items signers /\
        NoDup signers) /\
     3 * length items > 2 * length vals).
  Proof.
    intros Hh Hne Hnd. rewrite accept_iff_positions by assumption.
    rewrite <- positions_members by assumption. split.
    - intros [idxs [H1 [H2 H3]]]. split; [exists idxs; auto|assumption].
    - intros [[idxs [H1 H2]] H3]. exists idxs. auto.
  Qed.

  (* what the returned flags say *)
  Theorem accept_voted height round bid ps vals items v :
    height <> 0%Z ->
    verify_block height round bid ps (Some vals) items = Accept v ->
    length v = length vals /\
    count_true v = length items /\
    forall i, nth_error v i = Some true <->
              exists it, In it items /\ signer_index (item_msg height round bid ps) vals it = Some i.
  Proof.
    intros Hh H. apply verify_block_positions in H; [|assumption].
    destruct H as [idxs [HF [Hd [Hlt [_ ->]]]]]. repeat split.
    - rewrite set_all_length. apply repeat_length.
    - rewrite set_all_count; auto.
      + rewrite count_true_repeat_false. cbn. symmetry. eapply Forall2_len; eauto.
      + eapply Forall_impl; [|exact Hlt]. intros i Hi. apply nth_error_repeat_false. exact Hi.
    - intro Ht. apply set_all_true in Ht. destruct Ht as [Ht|[Hin _]].
      + exfalso. eapply repeat_false_not_true; eauto.
      + clear - HF Hin. induction HF as [|it j r is_ Hs HF IH]; [contradiction|].
        destruct Hin as [->|Hin].
        * exists it. split; [left; reflexivity|assumption].
        * destruct (IH Hin) as [it' [H1 H2]]. exists it'. split; [right; assumption|assumption].
    - intros [it [Hin Hs]]. apply set_all_true. right.
      assert (In i idxs).
      { clear - HF Hin Hs. induction HF as [|it' j r is_ Hs' HF IH]; [contradiction|].
        destruct Hin as [->|Hin]; [left; congruence|right; auto]. }
      split; [assumption|]. rewrite repeat_length. rewrite Forall_forall in Hlt. auto.
  Qed.

  (* more than two thirds of the positions are flagged *)
  Theorem accept_quorum height round bid ps vals items v :
    height <> 0%Z -> vals <> [] ->
    verify_block height round bid ps (Some vals) items = Accept v ->
    3 * count_true v > 2 * length vals.
  Proof.
    intros Hh Hne H. destruct (accept_voted _ _ _ _ _ _ _ Hh H) as [_ [Hc _]].
    apply verify_block_positions in H; [|assumption].
    destruct H as [idxs [_ [_ [_ [En _]]]]]. rewrite Hc.
    apply enough_spec; [destruct vals; cbn; congruence|assumption].
  Qed.

  (* two certificates checked against the same validator list — for whatever
     blocks, rounds, heights — share a signer position *)
  Theorem certs_intersect vals h1 r1 b1 p1 items1 v1 h2 r2 b2 p2 items2 v2 :
    h1 <> 0%Z -> h2 <> 0%Z -> vals <> [] ->
    verify_block h1 r1 b1 p1 (Some vals) items1 = Accept v1 ->
    verify_block h2 r2 b2 p2 (Some vals) items2 = Accept v2 ->
    exists i, nth_error v1 i = Some true /\ nth_error v2 i = Some true.
  Proof.
    intros H1 H2 Hne A1 A2.
    destruct (accept_voted _ _ _ _ _ _ _ H1 A1) as [L1 _].
    destruct (accept_voted _ _ _ _ _ _ _ H2 A2) as [L2 _].
    apply (quorum_intersect (length vals)); auto.
    - exact (accept_quorum h1 r1 b1 p1 vals items1 v1 H1 Hne A1).
    - exact (accept_quorum h2 r2 b2 p2 vals items2 v2 H2 Hne A2).
  Qed.

  (* height 0, or a nil validator list: only the empty list passes *)
  Theorem genesis_accept height round bid ps vals items :
    (height = 0%Z \/ vals = None) ->
    forall v, verify_block height round bid ps vals items = Accept v <-> items = [] /\ v = [].
  Proof.
    intros Hg v. unfold Model_CommitVoteList.verify_block.
    assert ((if (height =? 0)%Z then None else vals) = None) as ->.
    { destruct Hg as [->| ->]; [reflexivity|]. destruct (height =? 0)%Z; reflexivity. }
    destruct items; split.
    - intro H; inversion H; auto.
    - intros [_ ->]. reflexivity.
    - discriminate.
    - intros [H _]. discriminate.
  Qed.

  (* a non-nil validator list without members: only the empty list passes *)
  Theorem no_validators_accept height round bid ps items :
    height <> 0%Z ->
    forall v, verify_block height round bid ps (Some []) items = Accept v <-> items = [] /\ v = [].
  Proof.
    intros Hh v. rewrite verify_block_positions by assumption. cbn [length repeat]. split.
    - intros [idxs [HF [_ [Hlt [_ ->]]]]].
      destruct idxs as [|i r].
      + inversion HF; subst. auto.
      + inversion Hlt; subst. lia.
    - intros [-> ->]. exists []. repeat split; constructor.
  Qed.
End Proofs.

(* ---------- several calls on one list object ---------- *)

Theorem verify_session_stateless {sigT addrT : Type} (addr_eqb : addrT -> addrT -> bool)
        (recover : vote_msg -> sigT -> option addrT) round ps vals items blocks k h bid :
  nth_error blocks k = Some (h, bid) ->
  nth_error (verify_session addr_eqb recover round ps vals items blocks) k =
  Some (verify_block addr_eqb recover h round bid ps vals items).
Proof.
  intro H.
  exact (map_nth_error (fun hb => verify_block addr_eqb recover (fst hb) round (snd hb) ps vals items) k blocks H).
Qed.

(* ---------- the fast-sync path ---------- *)

Lemma dedup_in l : forall x, In x (dedup l) <-> In x l.
Proof.
  induction l as [|y r IH]; intro x; cbn; [tauto|].
  destruct (existsb (Nat.eqb y) r) eqn:E.
  - rewrite IH. split; [auto|]. intros [->|H]; [|exact H].
    apply existsb_exists in E. destruct E as [z [Hz Hy]]. apply Nat.eqb_eq in Hy. subst. exact Hz.
  - cbn. rewrite IH. tauto.
Qed.

Lemma dedup_nodup l : NoDup (dedup l).
Proof.
  induction l as [|y r IH]; cbn; [constructor|].
  destruct (existsb (Nat.eqb y) r) eqn:E; [exact IH|].
  constructor; [|exact IH]. rewrite dedup_in. intro Hin.
  assert (existsb (Nat.eqb y) r = true); [|congruence].
  apply existsb_exists. exists y. split; [exact Hin|apply Nat.eqb_refl].
Qed.

Lemma two_thirds_lt n c : Nat.ltb (n * 2 / 3) c = true <-> 3 * c > 2 * n.
Proof.
  rewrite Nat.ltb_lt.
  pose proof (Nat.div_mod (n * 2) 3 ltac:(lia)) as D.
  pose proof (Nat.mod_upper_bound (n * 2) 3 ltac:(lia)) as U.
  split; intro H; lia.
Qed.

Section FastSyncProofs.
  Context {sigT addrT : Type}.
  Variable addr_eqb : addrT -> addrT -> bool.
  Variable recover : vote_msg -> sigT -> option addrT.

  Lemma indices_spec mk vals items idxs :
    indices addr_eqb recover mk vals items = Some idxs <->
    Forall2 (fun it i => signer_index addr_eqb recover mk vals it = Some i) items idxs.
  Proof.
    revert idxs. induction items as [|it r IH]; intro idxs; cbn.
    - split.
      + intro H; inversion H; constructor.
      + intro H; inversion H; reflexivity.
    - destruct (signer_index addr_eqb recover mk vals it) as [i|] eqn:Hs.
      + destruct (indices addr_eqb recover mk vals r) as [l|] eqn:Hl.
        * split.
          -- intro H; inversion H; subst. constructor; [exact Hs|]. apply IH. reflexivity.
          -- intro H; inversion H as [|? j ? l' Hj HF]; subst.
             apply IH in HF. inversion HF; subst. congruence.
        * split; [discriminate|]. intro H; inversion H as [|? j ? l' Hj HF]; subst.
          apply IH in HF. discriminate.
      + split; [discriminate|]. intro H; inversion H; subst. congruence.
  Qed.

  (* processBlock consumes the block iff every item is a validator's precommit
     signature for this block (position list idxs), the DISTINCT signer
     positions are more than two thirds, and the part-set id is the block's *)
  Theorem fs_accept_iff height round bid ps real vals items :
    fs_accept addr_eqb recover height round bid ps real vals items = true <->
    exists idxs distinct,
      Forall2 (fun it i => signer_index addr_eqb recover (item_msg height round bid ps) vals it = Some i)
              items idxs /\
      NoDup distinct /\ (forall i, In i distinct <-> In i idxs) /\
      3 * length distinct > 2 * length vals /\
      ps_id_matches ps real = true.
  Proof.
    unfold fs_accept.
    destruct (indices addr_eqb recover (item_msg height round bid ps) vals items) as [idxs|] eqn:Hi.
    - rewrite andb_true_iff, two_thirds_lt. apply indices_spec in Hi. split.
      + intros [Hq Hp]. exists idxs, (dedup idxs). repeat split; auto.
        * apply dedup_nodup.
        * apply dedup_in.
        * apply dedup_in.
      + intros [idxs' [ds [HF [Hnd [Hin [Hq Hp]]]]]]. split; [|exact Hp].
        assert (idxs' = idxs).
        { clear - HF Hi. revert idxs' HF. induction Hi; intros idxs' HF; inversion HF; subst; auto.
          f_equal; [congruence|auto]. }
        subst.
        assert (length ds <= length (dedup idxs)); [|lia].
        apply NoDup_incl_length; [exact Hnd|]. intros x Hx. apply dedup_in. apply Hin. exact Hx.
    - split; [discriminate|]. intros [idxs [_ [HF _]]]. apply indices_spec in HF. congruence.
  Qed.
End FastSyncProofs.

(* ---------- the ground-truth instance used by the correspondence run ---------- *)

Lemma gaddr_eqb_eq a b : gaddr_eqb a b = true <-> a = b.
Proof.
  destruct a as [i|], b as [j|]; cbn; split; intro H; try discriminate; try reflexivity.
  - apply Nat.eqb_eq in H. congruence.
  - inversion H. apply Nat.eqb_refl.
Qed.

Lemma vote_type_eqb_eq a b : vote_type_eqb a b = true <-> a = b.
Proof. destruct a, b; cbn; split; congruence. Qed.

Lemma psid_eqb_eq a b : psid_eqb a b = true <-> a = b.
Proof.
  destruct a as [[c1 h1]|], b as [[c2 h2]|]; cbn; split; intro H; try discriminate; try reflexivity.
  - apply andb_true_iff in H as [H1 H2]. apply N.eqb_eq in H1. apply bytes_eqb_eq in H2. congruence.
  - inversion H; subst. rewrite N.eqb_refl, bytes_eqb_refl. reflexivity.
Qed.

Lemma vote_msg_eqb_eq a b : vote_msg_eqb a b = true <-> a = b.
Proof.
  destruct a as [h1 r1 t1 b1 p1 s1], b as [h2 r2 t2 b2 p2 s2]. unfold vote_msg_eqb. cbn.
  rewrite !andb_true_iff, !Z.eqb_eq, vote_type_eqb_eq, bytes_eqb_eq, psid_eqb_eq.
  split.
  - intros [[[[[-> ->] ->] ->] ->] ->]. reflexivity.
  - intro H; inversion H; subst. repeat split.
Qed.

Lemma NoDup_map_Key l : NoDup (map Key l) <-> NoDup l.
Proof.
  induction l as [|x l IH]; cbn; split; intro H; try constructor; inversion H; subst.
  - intro Hin. apply H2. apply in_map. exact Hin.
  - apply IH. assumption.
  - intro Hin. apply in_map_iff in Hin. destruct Hin as [y [Hy Hin]]. inversion Hy; subst. contradiction.
  - apply IH. assumption.
Qed.

Definition gt_signed (mk : Z -> vote_msg) (vals : list nat) (it : Z * gsig) (k : nat) : Prop :=
  snd it = Signed k (mk (fst it)) /\ In k vals.

Lemma gt_member mk vals it a :
  signed_by_member gt_recover mk (map Key vals) it a <-> exists k, a = Key k /\ gt_signed mk vals it k.
Proof.
  unfold signed_by_member, gt_signed. destruct it as [ts sg]. cbn [fst snd]. split.
  - intros [Hr Hin]. apply in_map_iff in Hin. destruct Hin as [k [<- Hin]]. exists k.
    split; [reflexivity|]. split; [|assumption].
    destruct sg as [k' m'| |]; cbn in Hr; try discriminate.
    destruct (vote_msg_eqb (mk ts) m') eqn:E; [|discriminate].
    apply vote_msg_eqb_eq in E. inversion Hr; subst. reflexivity.
  - intros [k [-> [Hs Hin]]]. subst sg. cbn.
    assert (E : vote_msg_eqb (mk ts) (mk ts) = true) by (apply vote_msg_eqb_eq; reflexivity).
    rewrite E. split; [reflexivity|]. apply in_map. assumption.
Qed.

Theorem gt_accept_iff height round bid ps vals items :
  height <> 0%Z -> vals <> [] -> NoDup vals ->
  (accepted (gt_verify_block height round bid ps (Some vals) items) <->
   (exists ks, Forall2 (gt_signed (item_msg height round bid ps) vals) items ks /\ NoDup ks) /\
   3 * length items > 2 * length vals).
Proof.
  intros Hh Hne Hnd. unfold gt_verify_block. cbn [option_map].
  rewrite (accept_iff gaddr_eqb gt_recover gaddr_eqb_eq).
  - rewrite map_length.
    assert (Hx : (exists signers, Forall2 (signed_by_member gt_recover (item_msg height round bid ps) (map Key vals)) items signers /\ NoDup signers)
            <-> (exists ks, Forall2 (gt_signed (item_msg height round bid ps) vals) items ks /\ NoDup ks)).
    { split.
      - intros [signers [HF Hd]].
        assert (exists ks, signers = map Key ks /\ Forall2 (gt_signed (item_msg height round bid ps) vals) items ks) as [ks [-> HF']].
        { clear Hd. induction HF as [|it a r as_ Hm HF IH].
          - exists []. split; [reflexivity|constructor].
          - destruct IH as [ks [-> HF']]. apply gt_member in Hm. destruct Hm as [k [-> Hk]].
            exists (k :: ks). split; [reflexivity|constructor; assumption]. }
        exists ks. split; [assumption|]. apply NoDup_map_Key. assumption.
      - intros [ks [HF Hd]]. exists (map Key ks). split; [|apply NoDup_map_Key; assumption].
        clear Hd. induction HF as [|it k r ks' Hk HF IH]; cbn; constructor; auto.
        apply gt_member. exists k. auto. }
    rewrite Hx. reflexivity.
  - assumption.
  - destruct vals; cbn; congruence.
  - apply NoDup_map_Key. assumption.
Qed.

(* ---------- concrete instances (non-vacuity) ---------- *)

Definition ex_bid : bytes := [1; 2; 3]%N.
Definition ex_ps : psid := Some (1%N, [9]%N).
Definition ex_msg (ts : Z) := item_msg 5 2 ex_bid ex_ps ts.
Definition ex_item (k : nat) (ts : Z) : Z * gsig := (ts, Signed k (ex_msg ts)).
Definition ex_vals := [2; 0; 1; 3].

(* three of four validators, in any order: accepted, and the flags are by position *)
Example ex_accept :
  gt_verify_block 5 2 ex_bid ex_ps (Some ex_vals) [ex_item 3 10; ex_item 2 11; ex_item 0 12]
  = Accept [true; true; false; true].
Proof. vm_compute. reflexivity. Qed.

Example ex_hyps : (5 <> 0)%Z /\ ex_vals <> [] /\ NoDup ex_vals.
Proof.
  split; [discriminate|]. split; [discriminate|].
  repeat constructor; cbn; intuition discriminate.
Qed.

Example ex_too_few :
  gt_verify_block 5 2 ex_bid ex_ps (Some ex_vals) [ex_item 3 10; ex_item 2 11] = Reject.
Proof. vm_compute. reflexivity. Qed.

(* a sufficient set plus one more item that is not a validator's signature over
   this block: the whole list is refused *)
Example ex_extra_forged :
  gt_verify_block 5 2 ex_bid ex_ps (Some ex_vals) [ex_item 3 10; ex_item 2 11; ex_item 0 12; (13%Z, Junk)] = Reject
  /\ gt_verify_block 5 2 ex_bid ex_ps (Some ex_vals) [ex_item 3 10; ex_item 2 11; ex_item 0 12; (13%Z, Unrec)] = Reject
  /\ gt_verify_block 5 2 ex_bid ex_ps (Some ex_vals) [ex_item 3 10; ex_item 2 11; ex_item 0 12; ex_item 7 13] = Reject
  /\ gt_verify_block 5 2 ex_bid ex_ps (Some ex_vals) [ex_item 3 10; ex_item 2 11; ex_item 0 12; ex_item 2 13] = Reject.
Proof. vm_compute. repeat split. Qed.

(* a signature of a validator over another round / height / block / part set /
   vote type / timestamp does not count *)
Example ex_wrong_target :
  let other := [ (12%Z, Signed 0 (item_msg 5 3 ex_bid ex_ps 12));
                 (12%Z, Signed 0 (item_msg 6 2 ex_bid ex_ps 12));
                 (12%Z, Signed 0 (item_msg 5 2 [1; 2; 4]%N ex_ps 12));
                 (12%Z, Signed 0 (item_msg 5 2 ex_bid (Some (2%N, [9]%N)) 12));
                 (12%Z, Signed 0 (item_msg 5 2 ex_bid None 12));
                 (12%Z, Signed 0 (VoteMsg 5 2 Prevote ex_bid ex_ps 12));
                 (12%Z, Signed 0 (item_msg 5 2 ex_bid ex_ps 13)) ] in
  forallb (fun it => match gt_verify_block 5 2 ex_bid ex_ps (Some ex_vals) [ex_item 3 10; ex_item 2 11; it] with
                     | Reject => true | Accept _ => false end) other = true.
Proof. vm_compute. reflexivity. Qed.

Example ex_genesis :
  gt_verify_block 0 0 ex_bid ex_ps (Some ex_vals) [] = Accept [] /\
  gt_verify_block 0 0 ex_bid ex_ps (Some ex_vals) [ex_item 3 10; ex_item 2 11; ex_item 0 12] = Reject /\
  gt_verify_block 5 2 ex_bid ex_ps None [] = Accept [] /\
  gt_verify_block 5 2 ex_bid ex_ps None [ex_item 3 10] = Reject /\
  gt_verify_block 5 2 ex_bid ex_ps (Some []) [] = Accept [].
Proof. vm_compute. repeat split. Qed.

(* the defect this model exposed (repaired in /repo by commit ac6da88): before
   the repair an item whose signature does not recover was not refused — the
   nil address was dereferenced *)
Theorem prefix_crash_refuted :
  exists items, scan0 gaddr_eqb gt_recover ex_msg (map Key ex_vals) (repeat false 4) items = Crash0.
Proof. exists [ex_item 3 10; (11%Z, Unrec)]. vm_compute. reflexivity. Qed.

(* the fast-sync path accepts a list in which a signer appears twice, as long as
   the distinct signers suffice — VerifyBlock refuses the same list *)
Example ex_fastsync_tolerates_duplicates :
  let items := [ex_item 3 10; ex_item 2 11; ex_item 0 12; ex_item 2 11] in
  gt_fs_accept 5 2 ex_bid ex_ps (1%N, [9]%N) ex_vals items = true /\
  gt_verify_block 5 2 ex_bid ex_ps (Some ex_vals) items = Reject.
Proof. vm_compute. split; reflexivity. Qed.

Example ex_fastsync_rejects :
  gt_fs_accept 5 2 ex_bid ex_ps (1%N, [9]%N) ex_vals [ex_item 3 10; ex_item 2 11; ex_item 2 12] = false /\
  gt_fs_accept 5 2 ex_bid ex_ps (1%N, [9]%N) ex_vals [ex_item 3 10; ex_item 2 11; ex_item 0 12; (13%Z, Junk)] = false /\
  gt_fs_accept 5 2 ex_bid ex_ps (2%N, [9]%N) ex_vals [ex_item 3 10; ex_item 2 11; ex_item 0 12] = false /\
  gt_fs_accept 5 2 ex_bid ex_ps (1%N, [9]%N) ex_vals [] = false.
Proof. vm_compute. repeat split. Qed.
