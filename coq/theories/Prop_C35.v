(* Property C35 -- Rewards never exceed the term's reward budget.
   This file holds only the property theorems; proofs are in Proofs_Reward.v.

   [calculate] is the model of iiss4Reward.Calculate (Model_Reward.v); [ROk o]
   means it completed; [m_prep_credits] / [m_voter_credits] are the I-Score
   credits (UpdateIScore calls) of the term; [budget_prep] / [budget_wage] are
   fundToPeriodIScore of the Iprep / Iwage share of Iglobal for the term's
   period; [wf_inputb] is the static well-formedness of a term (rates,
   non-negative amounts, sorted offsets within the term, no duplicates, P-Rep
   vote totals = sum of the voters' votes).  Running vote totals that go
   negative make [calculate] return [RErr] (nothing is credited). *)
From Coq Require Import List ZArith NArith Bool.
From Goloop Require Import Model_Reward Proofs_Reward.
Import ListNotations.
Open Scope Z_scope.

Theorem C35_budget : forall i o,
  wf_inputb i = true -> calculate i = ROk o ->
  sumZ snd (m_prep_credits o) + sumZ snd (m_voter_credits o) <= budget_prep i + budget_wage i.
Proof. exact reward_budget. Qed.
Print Assumptions C35_budget.

Theorem C35_budget_per_fund : forall i o,
  wf_inputb i = true -> calculate i = ROk o ->
  sumZ (fun e => p_comm (snd e)) (pi_preps (m_info o)) + sumZ snd (m_voter_credits o) <= budget_prep i
  /\ sumZ (fun e => p_wage (snd e)) (pi_preps (m_info o)) <= budget_wage i.
Proof. exact reward_budget_funds. Qed.
Print Assumptions C35_budget_per_fund.

Theorem C35_credits_nonneg : forall i o,
  wf_inputb i = true -> calculate i = ROk o ->
  (forall c, In c (m_prep_credits o) -> 0 <= snd c) /\ (forall c, In c (m_voter_credits o) -> 0 <= snd c).
Proof. exact credits_nonneg. Qed.
Print Assumptions C35_credits_nonneg.

Theorem C35_voter_share : forall i o,
  wf_inputb i = true -> calculate i = ROk o -> i_elected i <> 0 ->
  (forall v, In v (voters i) ->
     aget v (m_voter_credits o) =
     Some (sumZ (fun kp => if is_rewardable (i_elected i) (snd kp)
                           then acc_votes i v (fst kp) * p_vr (snd kp) / p_accv (snd kp) else 0)
                (pi_preps (m_info o))))
  /\ (forall k p, In (k, p) (pi_preps (m_info o)) ->
        sumZ (fun v => if is_rewardable (i_elected i) p then acc_votes i v k * p_vr p / p_accv p else 0) (voters i)
        <= p_vr p).
Proof. exact voter_share_formula. Qed.
Print Assumptions C35_voter_share.

Theorem C35_commission_split : forall i o,
  wf_inputb i = true -> calculate i = ROk o -> i_elected i <> 0 ->
  forall k p, In (k, p) (pi_preps (m_info o)) ->
    let prep_share := if memb k (elected_keys (i_elected i) (m_info o)) && is_rewardable (i_elected i) p
                      then budget_prep i * p_accp p / pi_total (m_info o) else 0 in
    p_comm p = rate_mul (p_rate p) prep_share /\ p_comm p + p_vr p = prep_share
    /\ 0 <= p_comm p /\ 0 <= p_vr p.
Proof. exact commission_split. Qed.
Print Assumptions C35_commission_split.

Theorem C35_no_panic : forall i, wf_inputb i = true -> calculate i <> RPanic.
Proof. exact no_panic. Qed.
Print Assumptions C35_no_panic.
