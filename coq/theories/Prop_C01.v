(* Property C01 — consensus agreement: no two correct validators finalize
   different blocks; a block is finalized only after more than two thirds of
   the validators precommitted it in one round.
   Only theorem statements; proofs are in Proofs_Tendermint.v (abstract
   protocol), Proofs_ConsensusNode*.v (one validator's engine) and
   Proofs_ConsensusNet*.v (n engines + Byzantine senders refine the protocol).

   Part A (this block): the abstract protocol Spec_Tendermint.v is safe.
   [TM.reachable n byz s]: s is a state of the guarded-action protocol after
   any action list; [TM.correct n byz k]: k < n and not Byzantine. *)
From Coq Require Import List Arith NArith.
From Goloop Require Spec_Tendermint Proofs_Tendermint.

Module TM := Spec_Tendermint.

Theorem C01_spec_agreement :
  forall (n : nat) (byz : nat -> bool), 3 * TM.countn byz n < n ->
  forall s i j v w, TM.reachable n byz s ->
    TM.correct n byz i = true -> TM.correct n byz j = true ->
    TM.decided s i = Some v -> TM.decided s j = Some w -> v = w.
Proof. exact Proofs_Tendermint.tm_agreement. Qed.
Print Assumptions C01_spec_agreement.

Theorem C01_spec_decide_needs_quorum :
  forall (n : nat) (byz : nat -> bool), 3 * TM.countn byz n < n ->
  forall s i b, TM.reachable n byz s -> TM.decided s i = Some b ->
    exists r, TM.qprecommit n (TM.soup s) r (Some b) = true.
Proof. exact Proofs_Tendermint.tm_decide_needs_quorum. Qed.
Print Assumptions C01_spec_decide_needs_quorum.

Theorem C01_spec_no_equivocation :
  forall (n : nat) (byz : nat -> bool), 3 * TM.countn byz n < n ->
  forall s k r t v w, TM.reachable n byz s -> TM.correct n byz k = true ->
    TM.has_vote (TM.soup s) k r t v = true -> TM.has_vote (TM.soup s) k r t w = true -> v = w.
Proof. exact Proofs_Tendermint.tm_no_equivocation. Qed.
Print Assumptions C01_spec_no_equivocation.

(* once more than 2n/3 slots precommitted b in round r, no polka for anything
   else (block or nil) exists in any later round *)
Theorem C01_spec_lock_invariant :
  forall (n : nat) (byz : nat -> bool), 3 * TM.countn byz n < n ->
  forall s r b r' w, TM.reachable n byz s ->
    TM.qprecommit n (TM.soup s) r (Some b) = true -> (r < r')%N -> w <> Some b ->
    TM.polka n (TM.soup s) r' w = false.
Proof. exact Proofs_Tendermint.tm_lock_invariant. Qed.
Print Assumptions C01_spec_lock_invariant.

(* the pre-fix behaviour of applyLockWAL (a restart brings back the lock of the
   last WRITTEN lock-WAL entry, i.e. an older lockedRound after a re-lock that
   was kept in memory only): agreement fails with one Byzantine slot of four *)
Theorem C01_stale_lock_refuted :
  exists n byz acts s i j v w,
    3 * TM.countn byz n < n /\ TM.run_x n byz (TM.init) acts = Some s /\
    TM.correct n byz i = true /\ TM.correct n byz j = true /\
    TM.decided s i = Some v /\ TM.decided s j = Some w /\ v <> w.
Proof. exact Proofs_Tendermint.agreement_with_stale_lock_restart_refuted. Qed.
Print Assumptions C01_stale_lock_refuted.

(* ================================================================== *)
(* Part B: the network of engine models (Model_ConsensusNet.v: n copies of the
   model of consensus.go, Byzantine slots sending arbitrary votes, any delivery
   order / loss / duplication, any timeouts and callbacks) refines the
   protocol, hence agrees.

   [run_net n byz blocks evs]: the network after ANY event list (illegal
   events — a vote that nobody sent, a Byzantine vote signed for a correct slot —
   are ignored); [decided_of net i]: the block engine i handed to Finalize;
   [correct n byz i]: i < n and not Byzantine; [nbyz n byz]: number of Byzantine
   slots; [soup byz net]: all votes sent by correct engines or injected by
   Byzantine slots; [count_precommits sp n r b]: number of slots < n with a
   precommit for b of round r in sp. *)
From Coq Require Import ZArith.
From Goloop Require Import Model_ConsensusNode Model_ConsensusNet.
From Goloop Require Proofs_ConsensusNet.

(* the property at full strength (all event lists, crash points inside events included) *)
Definition C01_full_statement : Prop :=
  forall (n : nat) (byz : nat -> bool) (blocks : list blk) (evs : list nev),
    (3 * nbyz n byz < n)%nat ->
    forall i j v w, correct n byz i -> correct n byz j ->
      decided_of (run_net n byz blocks evs) i = Some v ->
      decided_of (run_net n byz blocks evs) j = Some w -> v = w.

(* proved for histories without crashes ([no_crash]: no crash point inside an
   event, no crash event, every engine started once) *)
Theorem C01_agreement_partial_no_crash :
  forall (n : nat) (byz : nat -> bool) (blocks : list blk) (evs : list nev),
    no_crash evs = true -> (3 * nbyz n byz < n)%nat ->
    forall i j v w, correct n byz i -> correct n byz j ->
      decided_of (run_net n byz blocks evs) i = Some v ->
      decided_of (run_net n byz blocks evs) j = Some w -> v = w.
Proof. exact Proofs_ConsensusNet.agreement_no_crash. Qed.
Print Assumptions C01_agreement_partial_no_crash.

Theorem C01_finalize_needs_quorum_partial_no_crash :
  forall (n : nat) (byz : nat -> bool) (blocks : list blk) (evs : list nev),
    no_crash evs = true -> (3 * nbyz n byz < n)%nat ->
    forall i b, correct n byz i -> decided_of (run_net n byz blocks evs) i = Some b ->
      exists r, (0 <= r)%Z /\
        over23 (count_precommits (soup byz (run_net n byz blocks evs)) n r b) n = true.
Proof. exact Proofs_ConsensusNet.finalize_needs_quorum_no_crash. Qed.
Print Assumptions C01_finalize_needs_quorum_partial_no_crash.
