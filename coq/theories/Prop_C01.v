(* Property C01 — consensus agreement: no two correct validators finalize
   different blocks; a block is finalized only after more than two thirds of
   the validators precommitted it in one round.
   Only theorem statements; proofs are in Proofs_Tendermint.v (abstract
   protocol), Proofs_ConsensusNode*.v (one validator's engine) and
   Proofs_ConsensusNet*.v (n engines + Byzantine senders refine the protocol).

   Part A (this block): the abstract protocol Spec_Tendermint.v is safe.
   [TM.reachable n byz s]: s is a state of the guarded-action protocol after
   any action list; [TM.correct n byz k]: k < n and not Byzantine. *)
From Coq Require Import List Arith NArith.
From Goloop Require Spec_Tendermint Proofs_Tendermint.

Module TM := Spec_Tendermint.

Theorem C01_spec_agreement :
  forall (n : nat) (byz : nat -> bool), 3 * TM.countn byz n < n ->
  forall s i j v w, TM.reachable n byz s ->
    TM.correct n byz i = true -> TM.correct n byz j = true ->
    TM.decided s i = Some v -> TM.decided s j = Some w -> v = w.
Proof. exact Proofs_Tendermint.tm_agreement. Qed.
Print Assumptions C01_spec_agreement.

Theorem C01_spec_decide_needs_quorum :
  forall (n : nat) (byz : nat -> bool), 3 * TM.countn byz n < n ->
  forall s i b, TM.reachable n byz s -> TM.decided s i = Some b ->
    exists r, TM.qprecommit n (TM.soup s) r (Some b) = true.
Proof. exact Proofs_Tendermint.tm_decide_needs_quorum. Qed.
Print Assumptions C01_spec_decide_needs_quorum.

Theorem C01_spec_no_equivocation :
  forall (n : nat) (byz : nat -> bool), 3 * TM.countn byz n < n ->
  forall s k r t v w, TM.reachable n byz s -> TM.correct n byz k = true ->
    TM.has_vote (TM.soup s) k r t v = true -> TM.has_vote (TM.soup s) k r t w = true -> v = w.
Proof. exact Proofs_Tendermint.tm_no_equivocation. Qed.
Print Assumptions C01_spec_no_equivocation.

(* once more than 2n/3 slots precommitted b in round r, no polka for anything
   else (block or nil) exists in any later round *)
Theorem C01_spec_lock_invariant :
  forall (n : nat) (byz : nat -> bool), 3 * TM.countn byz n < n ->
  forall s r b r' w, TM.reachable n byz s ->
    TM.qprecommit n (TM.soup s) r (Some b) = true -> (r < r')%N -> w <> Some b ->
    TM.polka n (TM.soup s) r' w = false.
Proof. exact Proofs_Tendermint.tm_lock_invariant. Qed.
Print Assumptions C01_spec_lock_invariant.

(* the pre-fix behaviour of applyLockWAL (a restart brings back the lock of the
   last WRITTEN lock-WAL entry, i.e. an older lockedRound after a re-lock that
   was kept in memory only): agreement fails with one Byzantine slot of four *)
Theorem C01_stale_lock_refuted :
  exists n byz acts s i j v w,
    3 * TM.countn byz n < n /\ TM.run_x n byz (TM.init) acts = Some s /\
    TM.correct n byz i = true /\ TM.correct n byz j = true /\
    TM.decided s i = Some v /\ TM.decided s j = Some w /\ v <> w.
Proof. exact Proofs_Tendermint.agreement_with_stale_lock_restart_refuted. Qed.
Print Assumptions C01_stale_lock_refuted.

(* ================================================================== *)
(* Part B: the network of engine models (Model_ConsensusNet.v: n copies of the
   model of consensus.go, Byzantine slots sending arbitrary votes, any delivery
   order / loss / duplication, any timeouts and callbacks) refines the
   protocol, hence agrees.

   [run_net n byz blocks evs]: the network after ANY event list (illegal
   events — a vote that nobody signed (not in [csoup]), a Byzantine vote signed
   for a correct slot — are ignored); [decided_of net i]: the block engine i handed to Finalize;
   [correct n byz i]: i < n and not Byzantine; [nbyz n byz]: number of Byzantine
   slots; [soup byz net]: all votes sent by correct engines or injected by
   Byzantine slots; [count_precommits sp n r b]: number of slots < n with a
   precommit for b of round r in sp. *)
From Coq Require Import ZArith.
From Goloop Require Import Model_ConsensusNode Model_ConsensusNet.
From Goloop Require Proofs_ConsensusNet_Link Proofs_ConsensusNet.

(* the property at full strength: ALL event lists (crash points inside events
   included).  The only side condition is on the block table: a part set has at
   least one part (PartSetID.Count >= 1 in the code; with a zero-part block the
   lock WAL entry of the model would never be complete).  Proved below as
   [C01_agreement] / [C01_full_statement_holds]. *)
Definition C01_full_statement : Prop :=
  forall (n : nat) (byz : nat -> bool) (blocks : list blk),
    (forall x, In x blocks -> (1 <= b_parts x)%N) ->
    (3 * nbyz n byz < n)%nat ->
    forall (evs : list nev) i j v w, correct n byz i -> correct n byz j ->
      decided_of (run_net n byz blocks evs) i = Some v ->
      decided_of (run_net n byz blocks evs) j = Some w -> v = w.

(* Proved for every history whose crashes happen BETWEEN events
   ([boundary_crashes evs]: no crash point inside an event; [ECrash kr kl kc]
   events with any number of surviving unsynced WAL records and [ERestart]
   events replaying the three WALs are allowed, any number of times, for any
   engine, as are panics of the engine followed by a restart).
   [blocks] hypothesis: a part set has at least one part. *)
Theorem C01_agreement_partial :
  forall (n : nat) (byz : nat -> bool) (blocks : list blk),
    (forall x, In x blocks -> (1 <= b_parts x)%N) ->
    (3 * nbyz n byz < n)%nat ->
  forall evs : list nev,
    boundary_crashes evs = true ->
    forall i j v w, correct n byz i -> correct n byz j ->
      decided_of (run_net n byz blocks evs) i = Some v ->
      decided_of (run_net n byz blocks evs) j = Some w -> v = w.
Proof. exact Proofs_ConsensusNet.agreement_boundary. Qed.
Print Assumptions C01_agreement_partial.

Theorem C01_finalize_needs_quorum_partial :
  forall (n : nat) (byz : nat -> bool) (blocks : list blk),
    (forall x, In x blocks -> (1 <= b_parts x)%N) ->
    (3 * nbyz n byz < n)%nat ->
  forall evs : list nev,
    boundary_crashes evs = true ->
    forall i b, correct n byz i -> decided_of (run_net n byz blocks evs) i = Some b ->
      exists r, (0 <= r)%Z /\
        over23 (count_precommits (soup byz (run_net n byz blocks evs)) n r b) n = true.
Proof. exact Proofs_ConsensusNet.finalize_needs_quorum_boundary. Qed.
Print Assumptions C01_finalize_needs_quorum_partial.

(* the refinement itself: the network state is related to a reachable state of
   the abstract protocol (same soup up to [conv], same locks, finalized blocks
   decided) *)
Theorem C01_refinement_partial :
  forall (n : nat) (byz : nat -> bool) (blocks : list blk),
    (forall x, In x blocks -> (1 <= b_parts x)%N) ->
    (3 * nbyz n byz < n)%nat ->
  forall evs : list nev,
    boundary_crashes evs = true ->
    exists T, TM.reachable n byz T /\
      forall i s, correct n byz i -> node_of (run_net n byz blocks evs) i = Some s ->
        (forall m, In m (TM.soup T) <->
           exists v, In v (soup byz (run_net n byz blocks evs)) /\ Proofs_ConsensusNet_Link.conv v = m) /\
        (status_ s = Running -> TM.lock T i = Proofs_ConsensusNet_Link.convlock (lock_of s)) /\
        (forall b, decided s = Some b -> TM.decided T i = Some b).
Proof. exact Proofs_ConsensusNet.refinement_boundary. Qed.
Print Assumptions C01_refinement_partial.

(* ---- the restart lemmas (proved separately, used by the theorems above) ----
   [P n byz blocks i E T0 K0 s] (Proofs_ConsensusNet_Run.v): engine state s of the
   correct slot i satisfies the C02 invariant, the decision invariant and is
   related to SOME reachable protocol state by the simulation relation [Sim]
   (Proofs_ConsensusNet_Sim.v), E being the votes of everybody else. *)
From Goloop Require Proofs_ConsensusNet_Run Proofs_ConsensusNet_LockWAL.

(* a crash between events keeps the relation (the lock WAL is fully synced there) *)
Theorem C01_crash_keeps_simulation :
  forall (n : nat) (byz : nat -> bool) (blocks : list blk) (i : nat) (E : list vote)
         (T0 : TM.state) (K0 : vote -> Prop) (kr kl kc : nat) (s : st),
    Proofs_ConsensusNet_Run.P n byz blocks i E T0 K0 s ->
    Proofs_ConsensusNet_Run.P n byz blocks i E T0 K0 (crash kr kl kc s).
Proof. exact Proofs_ConsensusNet_Run.P_crash. Qed.
Print Assumptions C01_crash_keeps_simulation.

(* a restart (replay of round, lock and commit WAL, then the Start dispatch) keeps
   the relation: the abstract lock becomes the restored one by [SetLock], which
   is [lock_safe] because the abstract lock was either none (unlocks are not
   logged) or the lock of the last complete lock-WAL entry *)
Theorem C01_restart_keeps_simulation :
  forall (n : nat) (byz : nat -> bool) (blocks : list blk) (i : nat),
    (i < n)%nat -> byz i = false ->
  forall E : list vote,
    (forall v, In v E ->
       (0 <= v_from v < Z.of_nat n)%Z /\ (0 <= v_round v)%Z /\ v_from v <> Z.of_nat i) ->
  forall (T0 : TM.state) (K0 : vote -> Prop),
    (forall x, In x blocks -> (1 <= b_parts x)%N) ->
  forall delay : bool,
    (3 * TM.countn byz n < n)%nat ->
  forall s : st,
    Proofs_ConsensusNet_Run.P n byz blocks i E T0 K0 s ->
    Proofs_ConsensusNet_Run.P n byz blocks i E T0 K0 (restart n (Z.of_nat i) blocks delay s).
Proof. exact Proofs_ConsensusNet_Run.P_restart. Qed.
Print Assumptions C01_restart_keeps_simulation.

(* the lock restored by [restart] is the lock of the last complete entry of the
   lock WAL (agent c01lock, Proofs_ConsensusNet_LockWAL.v); K = the known votes,
   the first hypothesis = at most one polka per round among them *)
Theorem C01_restart_lock_restored :
  forall (n : nat) (own : Z) (blocks : list blk) (delay : bool) (K : vote -> Prop),
    (forall r vs d vs' d',
       Proofs_ConsensusNode_C01.vs_wf n r Prevote vs -> Proofs_ConsensusNet_LockWAL.vs_sub K vs ->
       over23 (vs_count_dec vs d) n = true ->
       Proofs_ConsensusNode_C01.vs_wf n r Prevote vs' -> Proofs_ConsensusNet_LockWAL.vs_sub K vs' ->
       over23 (vs_count_dec vs' d') n = true -> d = d') ->
  forall (s : st) h rs ok (L : option (N * Z)),
    fold_left (apply_round_rec n own) (wal_all (wal_r s)) (nil, (0%Z, SNewHeight), true) = (h, rs, ok) ->
    Proofs_ConsensusNet_LockWAL.hvs_sub K h ->
    Proofs_ConsensusNet_LockWAL.lockwal_shape n blocks K (wal_all (wal_l s)) L ->
    exists s0,
      restart n own blocks delay s = Proofs_ConsensusNet_LockWAL.restart_fin n own blocks delay (s0, ok, L) /\
      status_ s0 = Running /\
      lock_of s0 = option_map (fun bl : N * Z => (snd bl, fst bl)) L /\
      locked_round s0 = match L with Some (_, lr) => lr | None => (-1)%Z end /\
      locked s0 = option_map (fun bl : N * Z => mkBps (fst bl) (all_parts blocks (fst bl)) true false) L /\
      cur s0 = locked s0.
Proof. exact Proofs_ConsensusNet_LockWAL.restart_lock_restored. Qed.
Print Assumptions C01_restart_lock_restored.

(* ================================================================== *)
(* Part C: the property at full strength — ALL event lists: any crash point
   inside any event ([fuse = Some k]: the process dies after k outputs of the
   event), any number of surviving unsynced WAL records, any restarts.
   Proofs: Proofs_ConsensusNet2_Sim.v / _Run.v / Proofs_ConsensusNet2.v. *)
From Goloop Require Proofs_ConsensusNet2.

Theorem C01_agreement :
  forall (n : nat) (byz : nat -> bool) (blocks : list blk),
    (forall x, In x blocks -> (1 <= b_parts x)%N) ->
    (3 * nbyz n byz < n)%nat ->
  forall (evs : list nev) i j v w, correct n byz i -> correct n byz j ->
    decided_of (run_net n byz blocks evs) i = Some v ->
    decided_of (run_net n byz blocks evs) j = Some w -> v = w.
Proof. exact Proofs_ConsensusNet2.agreement. Qed.
Print Assumptions C01_agreement.

Theorem C01_full_statement_holds : C01_full_statement.
Proof. exact Proofs_ConsensusNet2.agreement. Qed.
Print Assumptions C01_full_statement_holds.

(* a block is finalized only after more than 2n/3 of the validator slots have a
   precommit for it in ONE round among the Byzantine votes and the votes the
   correct engines made durable ([csoup]: synced round-WAL vote records; every
   vote that was sent is among them, and an engine's own durable precommit counts
   in its own vote set even if the crash came before the broadcast) *)
Theorem C01_finalize_needs_quorum :
  forall (n : nat) (byz : nat -> bool) (blocks : list blk),
    (forall x, In x blocks -> (1 <= b_parts x)%N) ->
    (3 * nbyz n byz < n)%nat ->
  forall (evs : list nev) i b, correct n byz i ->
    decided_of (run_net n byz blocks evs) i = Some b ->
    exists r, (0 <= r)%Z /\
      over23 (count_precommits (csoup byz (run_net n byz blocks evs)) n r b) n = true.
Proof. exact Proofs_ConsensusNet2.finalize_needs_quorum. Qed.
Print Assumptions C01_finalize_needs_quorum.

Theorem C01_refinement :
  forall (n : nat) (byz : nat -> bool) (blocks : list blk),
    (forall x, In x blocks -> (1 <= b_parts x)%N) ->
    (3 * nbyz n byz < n)%nat ->
  forall evs : list nev,
    exists T, TM.reachable n byz T /\
      forall i s, correct n byz i -> node_of (run_net n byz blocks evs) i = Some s ->
        (forall m, In m (TM.soup T) <->
           exists v, In v (csoup byz (run_net n byz blocks evs)) /\ Proofs_ConsensusNet_Link.conv v = m) /\
        (status_ s = Running -> TM.lock T i = Proofs_ConsensusNet_Link.convlock (lock_of s)) /\
        (forall b, decided s = Some b -> TM.decided T i = Some b).
Proof. exact Proofs_ConsensusNet2.refinement. Qed.
Print Assumptions C01_refinement.

(* ---- kernel links (Link_C01.v).  hasOverTwoThirds, overTwoThirdsDecision
   (consensus/voteset.go) and enoughVote (consensus/commitvotelist.go) are re-generated
   from the Go source on every run (tools/go2coq).  For every count c and every
   validator number n a Go slice can have (fits_int n: n <= 2^62-1) the threshold test
   of the CODE is the quorum test 2n < 3c of the SPECIFICATION (TM.over23, behind
   TM.quorum / polka / qprecommit and the over23 of the engines in Part B) on which the
   agreement theorems above rest ---- *)
From Goloop Require Import Link_C01.

Theorem C01_kernel_threshold_is_spec_quorum : forall c n : nat, fits_int n ->
  (hasOverTwoThirds (Z.of_nat c) (Z.of_nat n) = true <-> (2 * n < 3 * c)%nat) /\
  (overTwoThirdsDecision (Z.of_nat c) (Z.of_nat n) = true <-> (2 * n < 3 * c)%nat) /\
  (n <> 0%nat -> (enoughVote (Z.of_nat c) (Z.of_nat n) = true <-> (2 * n < 3 * c)%nat)).
Proof. exact code_threshold_is_spec_quorum. Qed.
Print Assumptions C01_kernel_threshold_is_spec_quorum.

Theorem C01_kernel_hasOverTwoThirds : forall c n : nat, fits_int n ->
  TM.over23 c n = hasOverTwoThirds (Z.of_nat c) (Z.of_nat n).
Proof. exact spec_over23_is_hasOverTwoThirds. Qed.
Print Assumptions C01_kernel_hasOverTwoThirds.

Theorem C01_kernel_overTwoThirdsDecision : forall c n : nat, fits_int n ->
  TM.over23 c n = overTwoThirdsDecision (Z.of_nat c) (Z.of_nat n).
Proof. exact spec_over23_is_overTwoThirdsDecision. Qed.
Print Assumptions C01_kernel_overTwoThirdsDecision.

Theorem C01_kernel_enoughVote : forall c n : nat, n <> 0%nat -> fits_int n ->
  TM.over23 c n = enoughVote (Z.of_nat c) (Z.of_nat n).
Proof. exact spec_over23_is_enoughVote. Qed.
Print Assumptions C01_kernel_enoughVote.

(* the quorum of precommits that a decision needs (C01_spec_decide_needs_quorum) is the
   test getOverTwoThirdsRoundDecisionDigest makes on the counter of that block *)
Theorem C01_kernel_qprecommit : forall (n : nat) sp r v, fits_int n ->
  TM.qprecommit n sp r v
  = overTwoThirdsDecision
      (Z.of_nat (TM.countn (fun k => TM.has_vote sp k r TM.Precommit v) n)) (Z.of_nat n).
Proof. exact qprecommit_is_overTwoThirdsDecision. Qed.
Print Assumptions C01_kernel_qprecommit.

Theorem C01_kernel_polka : forall (n : nat) sp r v, fits_int n ->
  TM.polka n sp r v
  = overTwoThirdsDecision
      (Z.of_nat (TM.countn (fun k => TM.has_vote sp k r TM.Prevote v) n)) (Z.of_nat n).
Proof. exact polka_is_overTwoThirdsDecision. Qed.
Print Assumptions C01_kernel_polka.

(* the over23 of the engines (C01_finalize_needs_quorum) is the same predicate *)
Theorem C01_kernel_engine_over23 : forall c n : nat, fits_int n ->
  over23 c n = TM.over23 c n /\
  over23 c n = hasOverTwoThirds (Z.of_nat c) (Z.of_nat n) /\
  over23 c n = overTwoThirdsDecision (Z.of_nat c) (Z.of_nat n).
Proof.
  exact (fun c n H => conj (engine_over23_is_spec c n)
           (conj (engine_over23_is_hasOverTwoThirds c n H)
                 (engine_over23_is_overTwoThirdsDecision c n H))).
Qed.
Print Assumptions C01_kernel_engine_over23.

Theorem C01_kernel_params : Link_C01.kernel_params_pinned.
Proof. exact Link_C01.kernel_params_ok. Qed.
Print Assumptions C01_kernel_params.
