(* Property C01 — consensus agreement: no two correct validators finalize
   different blocks; a block is finalized only after more than two thirds of
   the validators precommitted it in one round.
   Only theorem statements; proofs are in Proofs_Tendermint.v (abstract
   protocol), Proofs_ConsensusNode*.v (one validator's engine) and
   Proofs_ConsensusNet*.v (n engines + Byzantine senders refine the protocol).

   Part A (this block): the abstract protocol Spec_Tendermint.v is safe.
   [TM.reachable n byz s]: s is a state of the guarded-action protocol after
   any action list; [TM.correct n byz k]: k < n and not Byzantine. *)
From Coq Require Import List Arith NArith.
From Goloop Require Spec_Tendermint Proofs_Tendermint.

Module TM := Spec_Tendermint.

Theorem C01_spec_agreement :
  forall (n : nat) (byz : nat -> bool), 3 * TM.countn byz n < n ->
  forall s i j v w, TM.reachable n byz s ->
    TM.correct n byz i = true -> TM.correct n byz j = true ->
    TM.decided s i = Some v -> TM.decided s j = Some w -> v = w.
Proof. exact Proofs_Tendermint.tm_agreement. Qed.
Print Assumptions C01_spec_agreement.

Theorem C01_spec_decide_needs_quorum :
  forall (n : nat) (byz : nat -> bool), 3 * TM.countn byz n < n ->
  forall s i b, TM.reachable n byz s -> TM.decided s i = Some b ->
    exists r, TM.qprecommit n (TM.soup s) r (Some b) = true.
Proof. exact Proofs_Tendermint.tm_decide_needs_quorum. Qed.
Print Assumptions C01_spec_decide_needs_quorum.

Theorem C01_spec_no_equivocation :
  forall (n : nat) (byz : nat -> bool), 3 * TM.countn byz n < n ->
  forall s k r t v w, TM.reachable n byz s -> TM.correct n byz k = true ->
    TM.has_vote (TM.soup s) k r t v = true -> TM.has_vote (TM.soup s) k r t w = true -> v = w.
Proof. exact Proofs_Tendermint.tm_no_equivocation. Qed.
Print Assumptions C01_spec_no_equivocation.

(* once more than 2n/3 slots precommitted b in round r, no polka for anything
   else (block or nil) exists in any later round *)
Theorem C01_spec_lock_invariant :
  forall (n : nat) (byz : nat -> bool), 3 * TM.countn byz n < n ->
  forall s r b r' w, TM.reachable n byz s ->
    TM.qprecommit n (TM.soup s) r (Some b) = true -> (r < r')%N -> w <> Some b ->
    TM.polka n (TM.soup s) r' w = false.
Proof. exact Proofs_Tendermint.tm_lock_invariant. Qed.
Print Assumptions C01_spec_lock_invariant.

(* the pre-fix behaviour of applyLockWAL (a restart brings back the lock of the
   last WRITTEN lock-WAL entry, i.e. an older lockedRound after a re-lock that
   was kept in memory only): agreement fails with one Byzantine slot of four *)
Theorem C01_stale_lock_refuted :
  exists n byz acts s i j v w,
    3 * TM.countn byz n < n /\ TM.run_x n byz (TM.init) acts = Some s /\
    TM.correct n byz i = true /\ TM.correct n byz j = true /\
    TM.decided s i = Some v /\ TM.decided s j = Some w /\ v <> w.
Proof. exact Proofs_Tendermint.agreement_with_stale_lock_restart_refuted. Qed.
Print Assumptions C01_stale_lock_refuted.
