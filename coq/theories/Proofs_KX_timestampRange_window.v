(* Proofs_KX_timestampRange_window.v -- NewTimestampRange(bts, th).CheckTx accepts exactly (bts-th, bts+th]
   Split out of Proofs_Kernels.v: this file imports ONLY the generated kernel(s)
   gen/K_CheckTxTimestamp.v, gen/K_timestampRangeMin.v, gen/K_timestampRangeMax.v, so an edit of another kernel's Go source cannot break it.
   Style: stdlib only; arithmetic closed by lia with the euclidean-division hook. *)
From Coq Require Import ZArith Bool String List Lia.
From Coq Require Import ZifyBool.
From Goloop Require Import lib.GoInt Proofs_K_tactics Proofs_K_CheckTxTimestamp Proofs_K_timestampRangeMin Proofs_K_timestampRangeMax.
From Goloop.gen Require Import K_CheckTxTimestamp K_timestampRangeMin K_timestampRangeMax.
Import ListNotations.
Local Open Scope Z_scope.

Ltac Zify.zify_post_hook ::= Z.to_euclidean_division_equations.

(* NewTimestampRange(bts, th).CheckTx accepts exactly the window (bts-th, bts+th] *)
Lemma timestampRange_window bts th ts :
  min_i64 <= bts - th <= max_i64 -> min_i64 <= bts + th <= max_i64 ->
  CheckTxTimestamp (timestampRangeMin bts th) (timestampRangeMax bts th) ts = ENil
  <-> bts - th < ts <= bts + th.
Proof.
  intros. rewrite timestampRangeMin_spec, timestampRangeMax_spec by lia.
  apply CheckTxTimestamp_spec.
Qed.
