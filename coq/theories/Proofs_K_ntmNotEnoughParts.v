(* Proofs_K_ntmNotEnoughParts.v -- btp/ntm secp256k1ProofContext.Verify: not enough proof parts
   Split out of Proofs_Kernels.v: this file imports ONLY the generated kernel(s)
   gen/K_ntmNotEnoughParts.v, so an edit of another kernel's Go source cannot break it.
   Style: stdlib only; arithmetic closed by lia with the euclidean-division hook. *)
From Coq Require Import ZArith Bool String List Lia.
From Coq Require Import ZifyBool.
From Goloop Require Import lib.GoInt Proofs_K_tactics.
From Goloop.gen Require Import K_ntmNotEnoughParts.
Import ListNotations.
Local Open Scope Z_scope.

Ltac Zify.zify_post_hook ::= Z.to_euclidean_division_equations.

(* Verify rejects ("not enough proof parts") exactly when valid is NOT over two thirds *)
Lemma ntmNotEnoughParts_spec valid n :
  0 <= n <= half_i64 ->
  ntmNotEnoughParts valid n = true <-> 3 * valid <= 2 * n.
Proof.
  unfold ntmNotEnoughParts. kernel_lia.
Qed.

Lemma ntmNotEnoughParts_params_ok :
  ntmNotEnoughParts_params = ["valid"; "len(pc.Validators)"]%string.
Proof. reflexivity. Qed.
