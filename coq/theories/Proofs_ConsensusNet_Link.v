(* Proofs_ConsensusNet_Link.v — the bridge between the data of the engine model
   (Model_ConsensusNode.v: votes with Z slots / rounds and a stamp, vote sets with
   one slot per validator) and the abstract protocol (Spec_Tendermint.v: votes
   with nat slots and N rounds, a soup, counting by [countn]).

     conv v                the abstract vote of a node-level vote
     quorum_link           a +2/3 vote set all of whose votes are in the soup is a
                           quorum of the soup ([TM.quorum])
     tm_*                  the abstract steps with their guards stated by
                           membership (what the simulation proofs discharge) *)
From Coq Require Import List ZArith NArith Bool Arith Lia.
From Goloop Require Import Model_ConsensusNode Proofs_ConsensusNode Proofs_ConsensusNode_C01.
From Goloop Require Spec_Tendermint Proofs_Tendermint.
Import ListNotations.
Open Scope Z_scope.

Module TM := Spec_Tendermint.
Module TP := Proofs_Tendermint.

Definition convt (t : vtype) : TM.vtype :=
  match t with Prevote => TM.Prevote | Precommit => TM.Precommit end.

Definition conv (v : vote) : TM.vote :=
  TM.mkVote (Z.to_nat (v_from v)) (Z.to_N (v_round v)) (convt (v_type v)) (v_dec v).

Definition convlock (l : option (Z * N)) : option (N * N) :=
  match l with Some (lr, b) => Some (Z.to_N lr, b) | None => None end.

Lemma convt_inj a b : convt a = convt b -> a = b.
Proof. destruct a, b; cbn; intro H; try reflexivity; discriminate. Qed.

(* ------------------------------------------------------------------ counting *)

Lemma count_le_filter_seq {A} (g : A -> bool) (p : nat -> bool) (l : list A) : forall a,
  (forall k x, nth_error l k = Some x -> g x = true -> p (a + k)%nat = true) ->
  (length (filter g l) <= length (filter p (seq a (length l))))%nat.
Proof.
  induction l as [|x l IH]; intros a H; cbn; [lia|].
  assert (IH' : (length (filter g l) <= length (filter p (seq (S a) (length l))))%nat).
  { apply IH. intros k y Hk Hg. replace (S a + k)%nat with (a + S k)%nat by lia. apply (H (S k) y); auto. }
  destruct (g x) eqn:G.
  - assert (P0 : p a = true) by (replace a with (a + 0)%nat by lia; apply (H 0%nat x); auto).
    rewrite P0. cbn. lia.
  - destruct (p a); cbn; lia.
Qed.

Lemma dec_eqb_true a b : dec_eqb a b = true -> a = b.
Proof. destruct a, b; cbn; intro H; try discriminate; auto. apply N.eqb_eq in H. congruence. Qed.

(* a +2/3 vote set whose votes are all in the soup is a quorum of the soup *)
Lemma quorum_link n sp r t w ev :
  quorum_ev n r t w ev ->
  (forall v, In (Some v) ev -> In (conv v) sp) ->
  TM.quorum n sp (Z.to_N r) (convt t) w = true.
Proof.
  intros [[L W] O] K. unfold TM.quorum.
  change (over23 (TM.countn (fun k => TM.has_vote sp k (Z.to_N r) (convt t) w) n) n = true).
  eapply over23_mono; [|exact O].
  unfold vs_count_dec, TM.countn. rewrite <- L.
  apply count_le_filter_seq. intros k x Hk G. destruct x as [v|]; [|discriminate].
  cbn. apply TP.has_vote_In. destruct (W _ _ Hk) as [Hf [Hr Ht]].
  apply dec_eqb_true in G. specialize (K v (nth_error_In _ _ Hk)).
  unfold conv in K. rewrite Hf, Hr, Ht, G, Nat2Z.id in K. exact K.
Qed.

(* ------------------------------------------------------------------ vote sets: where a stored vote comes from *)

Lemma In_set_nth {A} i (x y : A) l : In y (set_nth i x l) -> y = x \/ In y l.
Proof.
  revert i; induction l as [|a l IH]; intros [|i]; cbn; try tauto.
  - intros [H|H]; auto.
  - intros [H|H]; auto. destruct (IH _ H); auto.
Qed.

Lemma vs_add_in vs i v u : In (Some u) (snd (vs_add vs i v)) -> u = v \/ In (Some u) vs.
Proof.
  unfold vs_add. destruct (nth_error vs i) as [[o|]|]; cbn; auto.
  - destruct (vote_eqb o v); cbn; auto.
    destruct (vs_over23 vs) as [d|].
    + destruct (dec_eqb d (v_dec o)); cbn; auto.
      intro H. apply In_set_nth in H as [H|H]; auto. inversion H; auto.
    + cbn. intro H. apply In_set_nth in H as [H|H]; auto. inversion H; auto.
  - intro H. apply In_set_nth in H as [H|H]; auto. inversion H; auto.
Qed.

(* all votes stored in a height vote set *)
Definition hvs_has (h : hvs_t) (u : vote) : Prop :=
  exists r p, In (r, p) h /\ (In (Some u) (fst p) \/ In (Some u) (snd p)).

Lemma hvs_get_in n h r u :
  In (Some u) (fst (hvs_get n h r)) \/ In (Some u) (snd (hvs_get n h r)) -> hvs_has h u.
Proof.
  induction h as [|[r' p] h IH]; cbn.
  - intros [H|H]; apply repeat_spec in H; discriminate.
  - destruct (Z.eqb r r').
    + intro H. exists r', p. split; auto. left; auto.
    + intro H. destruct (IH H) as [r0 [p0 [A B]]]. exists r0, p0. split; auto. right; auto.
Qed.

Lemma hvs_for_in n h r t u : In (Some u) (hvs_for n h r t) -> hvs_has h u.
Proof. unfold hvs_for. intro H. apply (@hvs_get_in n h r u). destruct t; auto. Qed.

Lemma hvs_set_in h r p u :
  hvs_has (hvs_set h r p) u -> hvs_has h u \/ In (Some u) (fst p) \/ In (Some u) (snd p).
Proof.
  induction h as [|[r' q] h IH]; cbn.
  - intros [r0 [p0 [[E|[]] B]]]. inversion E; subst. right; auto.
  - destruct (Z.eqb r r').
    + intros [r0 [p0 [[E|A] B]]].
      * inversion E; subst. right; auto.
      * left. exists r0, p0. split; auto. right; auto.
    + intros [r0 [p0 [[E|A] B]]].
      * inversion E; subst. left. exists r0, p0. split; auto. left; auto.
      * destruct IH as [[r1 [p1 [A1 B1]]]|H]; [exists r0, p0; auto| |right; auto].
        left. exists r1, p1. split; auto. right; auto.
Qed.

Lemma hvs_add_in n h i v u : hvs_has (snd (hvs_add n h i v)) u -> u = v \/ hvs_has h u.
Proof.
  unfold hvs_add. destruct (v_type v).
  - destruct (vs_add (fst (hvs_get n h (v_round v))) i v) as [a s] eqn:E. cbn.
    intro H. apply hvs_set_in in H as [H|[H|H]]; auto; cbn in H.
    + change s with (snd (a, s)) in H. rewrite <- E in H. apply vs_add_in in H as [H|H]; auto.
      right. eapply hvs_get_in; eauto.
    + right. eapply hvs_get_in; eauto.
  - destruct (vs_add (snd (hvs_get n h (v_round v))) i v) as [a s] eqn:E. cbn.
    intro H. apply hvs_set_in in H as [H|[H|H]]; auto; cbn in H.
    + right. eapply hvs_get_in; eauto.
    + change s with (snd (a, s)) in H. rewrite <- E in H. apply vs_add_in in H as [H|H]; auto.
      right. eapply hvs_get_in; eauto.
Qed.

Lemma hvs_remove_lower_in h a b u : hvs_has (hvs_remove_lower h a b) u -> hvs_has h u.
Proof. intros [r [p [A B]]]. apply filter_In in A as [A _]. exists r, p. auto. Qed.

Lemma hvs_has_nil u : ~ hvs_has [] u.
Proof. intros [r [p [[] _]]]. Qed.

(* ------------------------------------------------------------------ the abstract steps, guards by membership *)

Section Steps.
  Variable n : nat.
  Variable byz : nat -> bool.
  Variable i : nat.
  Hypothesis Hi : (i < n)%nat.
  Hypothesis Hbyz : byz i = false.

  Lemma correct_i : TM.correct n byz i = true.
  Proof. unfold TM.correct. rewrite Hbyz. cbn. rewrite andb_true_r. apply Nat.ltb_lt; auto. Qed.

  (* every vote of i in the soup is at a round <= r and is not a (r, t) vote *)
  Definition own_bound (sp : list TM.vote) (r : N) (t : TM.vtype) : Prop :=
    forall m, In m sp -> TM.v_sender m = i -> (TM.v_round m <= r)%N /\ (TM.v_round m = r -> TM.v_type m <> t).

  Lemma own_bound_voted_in sp r t : own_bound sp r t -> TM.voted_in sp i r t = false.
  Proof.
    intro H. unfold TM.voted_in. destruct (existsb _ sp) eqn:E; auto.
    apply existsb_exists in E as [m [Hm C]]. rewrite !andb_true_iff in C. destruct C as [[C1 C2] C3].
    apply Nat.eqb_eq in C1. apply N.eqb_eq in C2. apply TP.vtype_eqb_eq in C3.
    destruct (H m Hm C1) as [_ B]. exfalso. apply (B C2 C3).
  Qed.

  Lemma own_bound_rounds_le sp r t : own_bound sp r t -> TM.rounds_le sp i r = true.
  Proof.
    intro H. unfold TM.rounds_le. apply forallb_forall. intros m Hm.
    destruct (Nat.eqb (TM.v_sender m) i) eqn:E; cbn; auto.
    apply Nat.eqb_eq in E. destruct (H m Hm E) as [A _]. apply N.leb_le; auto.
  Qed.

  Lemma tm_send_prevote T r v :
    own_bound (TM.soup T) r TM.Prevote ->
    (forall lr b, TM.lock T i = Some (lr, b) -> v = Some b) ->
    TM.step n byz T (TM.SendPrevote i r v) = Some (TM.add_vote T (TM.mkVote i r TM.Prevote v)).
  Proof.
    intros B L. cbn. rewrite correct_i, (own_bound_voted_in _ _ _ B), (own_bound_rounds_le _ _ _ B). cbn.
    destruct (TM.lock T i) as [[lr b]|]; auto.
    rewrite (L lr b eq_refl). cbn. rewrite N.eqb_refl. reflexivity.
  Qed.

  Lemma tm_send_precommit_nil T r :
    own_bound (TM.soup T) r TM.Precommit ->
    TM.step n byz T (TM.SendPrecommit i r None) = Some (TM.add_vote T (TM.mkVote i r TM.Precommit None)).
  Proof. intros B. cbn. rewrite correct_i, (own_bound_voted_in _ _ _ B), (own_bound_rounds_le _ _ _ B). reflexivity. Qed.

  Lemma tm_send_precommit_block T r b :
    own_bound (TM.soup T) r TM.Precommit ->
    TM.polka n (TM.soup T) r (Some b) = true ->
    TM.step n byz T (TM.SendPrecommit i r (Some b))
    = Some (TM.add_vote (TM.set_lock T i (Some (r, b))) (TM.mkVote i r TM.Precommit (Some b))).
  Proof.
    intros B Pk. cbn -[TM.polka]. rewrite correct_i, (own_bound_voted_in _ _ _ B), (own_bound_rounds_le _ _ _ B). cbn -[TM.polka].
    rewrite Pk. reflexivity.
  Qed.

  (* every vote of i in the soup is at a round <= r *)
  Definition own_le (sp : list TM.vote) (r : N) : Prop :=
    forall m, In m sp -> TM.v_sender m = i -> (TM.v_round m <= r)%N.

  Lemma own_le_rounds_le sp r : own_le sp r -> TM.rounds_le sp i r = true.
  Proof.
    intro H. unfold TM.rounds_le. apply forallb_forall. intros m Hm.
    destruct (Nat.eqb (TM.v_sender m) i) eqn:E; cbn; auto.
    apply Nat.eqb_eq in E. apply N.leb_le. apply H; auto.
  Qed.

  Lemma tm_lock T r b :
    own_le (TM.soup T) r ->
    TM.polka n (TM.soup T) r (Some b) = true ->
    TM.step n byz T (TM.Lock i r b) = Some (TM.set_lock T i (Some (r, b))).
  Proof.
    intros B Pk. cbn -[TM.polka]. rewrite correct_i, (own_le_rounds_le _ _ B), Pk. reflexivity.
  Qed.

  Lemma tm_unlock T lr b r w :
    TM.lock T i = Some (lr, b) -> (lr <= r)%N -> w <> Some b ->
    TM.polka n (TM.soup T) r w = true ->
    TM.step n byz T (TM.Unlock i r w) = Some (TM.set_lock T i None).
  Proof.
    intros L Le Nw Pk. cbn -[TM.polka]. rewrite L, correct_i.
    apply N.leb_le in Le. rewrite Le. apply TP.value_eqb_neq in Nw. rewrite Nw, Pk. reflexivity.
  Qed.

  Lemma tm_decide T r b :
    TM.qprecommit n (TM.soup T) r (Some b) = true ->
    TM.step n byz T (TM.Decide i r b)
    = Some (TM.mkState (TM.soup T) (TM.lock T) (TM.upd (TM.decided T) i (Some b))).
  Proof. intros Q. cbn -[TM.qprecommit]. rewrite correct_i, Q. reflexivity. Qed.

  Lemma tm_setlock T l :
    TM.lock_safe n (TM.soup T) i l = true ->
    TM.step n byz T (TM.SetLock i l) = Some (TM.set_lock T i l).
  Proof. intros S. cbn -[TM.lock_safe]. rewrite correct_i, S. reflexivity. Qed.
End Steps.

Lemma tm_byzsend n byz T m :
  byz (TM.v_sender m) = true -> TM.step n byz T (TM.ByzSend m) = Some (TM.add_vote T m).
Proof. intro H. cbn. rewrite H. reflexivity. Qed.

Lemma upd_same {A} (f : nat -> A) i x : TM.upd f i x i = x.
Proof. unfold TM.upd. rewrite Nat.eqb_refl. reflexivity. Qed.

Lemma upd_other {A} (f : nat -> A) i x j : j <> i -> TM.upd f i x j = f j.
Proof. unfold TM.upd. intro H. apply Nat.eqb_neq in H. rewrite H. reflexivity. Qed.
