(* Proofs_K_enoughVote.v -- consensus enoughVote: the commit-vote threshold
   Split out of Proofs_Kernels.v: this file imports ONLY the generated kernel(s)
   gen/K_enoughVote.v, so an edit of another kernel's Go source cannot break it.
   Style: stdlib only; arithmetic closed by lia with the euclidean-division hook. *)
From Coq Require Import ZArith Bool String List Lia.
From Coq Require Import ZifyBool.
From Goloop Require Import lib.GoInt Proofs_K_tactics.
From Goloop.gen Require Import K_enoughVote.
Import ListNotations.
Local Open Scope Z_scope.

Ltac Zify.zify_post_hook ::= Z.to_euclidean_division_equations.

Lemma enoughVote_spec voted voters :
  0 <= voters <= half_i64 ->
  enoughVote voted voters = true <-> (voters = 0 \/ 3 * voted > 2 * voters).
Proof. unfold enoughVote. kernel_lia. Qed.

Lemma enoughVote_params_ok : enoughVote_params = ["voted"; "voters"]%string.
Proof. reflexivity. Qed.

Example enoughVote_boundary :
  enoughVote 14 21 = false /\ enoughVote 15 21 = true /\ enoughVote 2 3 = false /\
  enoughVote 3 4 = true /\ enoughVote 0 0 = true.
Proof. repeat split; reflexivity. Qed.
