(* Proofs_K_destructPSIDAppData.v -- consensus destructPSIDAppData
   Split out of Proofs_Kernels.v: this file imports ONLY the generated kernel(s)
   gen/K_destructPSIDAppData.v, so an edit of another kernel's Go source cannot break it.
   Style: stdlib only; arithmetic closed by lia with the euclidean-division hook. *)
From Coq Require Import ZArith Bool String List Lia.
From Coq Require Import ZifyBool.
From Goloop Require Import lib.GoInt Proofs_K_tactics.
From Goloop.gen Require Import K_destructPSIDAppData.
Import ListNotations.
Local Open Scope Z_scope.

Ltac Zify.zify_post_hook ::= Z.to_euclidean_division_equations.

Lemma destructPSIDAppData_spec a :
  0 <= a <= max_u64 ->
  destructPSIDAppData a = ((a / 65536) mod 4294967296, a mod 65536).
Proof.
  intros Ha. unfold destructPSIDAppData. cbv zeta.
  rewrite shiftr_div by lia. reflexivity.
Qed.
