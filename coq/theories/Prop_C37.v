(* Property C37 — Proposed transactions are valid for the block being proposed.
   This file holds only the property theorems; definitions are in
   Model_TxPool.v (over Model_Locator.v of C11), proofs in Proofs_TxPool.v.

   Reading the statements.
   * `candidate m f g ms bts maxB maxC pool b` is the list TransactionPool.Candidate
     returns for the pool of group g (`pool`, in iteration order), the locator
     manager m, the fee parameters f, the configured timestamp threshold ms
     (milliseconds), the timestamp bts of the block being proposed, the two
     limits as passed by the caller (<= 0: defaults) and the balances b of the
     parent's world state.
   * `validate_block st p f g ms bts txs b` is what a node that did not propose
     the block does with the list: the logger of the parent transition (tracker
     p of the locator state st) hands out a new logger, the ids are added with
     force = false (DuplicateTx), then every transaction is checked against the
     window and pre-validated on the shared, cumulatively updated world state.
   * `parent_finalized st p g`: the tracker of the parent transition is
     committed and has no uncommitted ancestor — the parent block is finalized.
     The consensus engine proposes on its last finalized block only
     (consensus.go: BlockManager().Propose(cs.lastBlock.ID(), ...)), and
     block.Manager.finalize commits the ids of the block's transactions.
     C37_unfinalized_parent_refuted shows the hypothesis is needed.
   * `pool_ok g pool`: an id occurs once in the pool (transactionList.Add
     rejects a second one) and every element is of the pool's group
     (TransactionManager.addInLock routes by tx.Group()).
   Nothing is assumed about timestamps, balances (may be negative or zero),
   values, step limits, sizes, the limits, the fee parameters, or the locator
   state (any history of tracker operations, any eviction state). *)
From Goloop Require Import lib.Bytes Model_Locator Proofs_Locator Model_TxPool Proofs_TxPool.
From Goloop Require Import Link_C37.
Open Scope Z_scope.

(* The main statement: whatever the pool holds, the list the proposer selects
   is accepted by the validation of its peers. *)
Theorem C37_candidates_validate : forall st p f g ms bts maxB maxC pool b,
  parent_finalized st p g -> pool_ok g pool ->
  validate_block st p f g ms bts (candidate (s_mgr st) f g ms bts maxB maxC pool b) b = Some cOk.
Proof. exact candidates_validate. Qed.
Print Assumptions C37_candidates_validate.

(* Proposer and validator consult the same lookup.  When the parent block is
   finalized, the lookup the validator's tracker.Add performs for the new block
   (parentHasInLock of the fresh tracker) is manager.Has with the group of the
   tracker — literally the call TransactionPool.Candidate makes — for EVERY id
   and EVERY timestamp: the top of the window ts = bts+th (where tracker.Has of
   an uncommitted tracker skips its own list, the known finding of C11) and the
   maxTSInDB shortcut are answered identically on both sides. *)
Theorem C37_has_agreement : forall st p g bts th,
  parent_finalized st p g ->
  exists st1 tk, tracker_new st p bts th = Some st1 /\
    get (s_trk st1) (length (s_trk st)) = Some tk /\ t_grp tk = g /\
    forall id ts, parent_has_v VCode st1 tk id ts = Some (manager_has (s_mgr st) g id ts).
Proof. exact has_agreement. Qed.
Print Assumptions C37_has_agreement.

(* ... hence the validator's duplicate check accepts a list iff it holds no id
   twice and manager.Has answers false for each element. *)
Theorem C37_validator_dup_check : forall st p g bts th txs,
  parent_finalized st p g ->
  exists cls, record_ids st p bts th txs = Some cls /\
    (cls = 0%N <-> NoDup (map x_id txs) /\
                   Forall (fun t => manager_has (s_mgr st) g (x_id t) (x_ts t) = false) txs).
Proof. exact validator_dup_check. Qed.
Print Assumptions C37_validator_dup_check.

(* Every selected transaction is inside the window (bts-th, bts+th] of the block
   and is unknown to the locator manager. *)
Theorem C37_selected_in_window_not_included : forall m f g ms bts maxB maxC pool b t,
  In t (candidate m f g ms bts maxB maxC pool b) ->
  in_window bts (threshold g ms) (x_ts t) /\
  manager_has m (x_grp t) (x_id t) (x_ts t) = false.
Proof. exact selected_window_nothas. Qed.
Print Assumptions C37_selected_in_window_not_included.

(* "Has not been included before", in terms of blocks: in every locator state
   reached by a history of validated blocks (C11's hist_ok: arbitrary branches,
   block timestamps, thresholds, commit timing, eviction; full window), if the
   parent block is finalized then no selected transaction is recorded in the
   parent block or in any of its ancestors. *)
Theorem C37_selected_not_on_chain : forall tsof gof h,
  hist_ok tsof gof VCode in_window init h ->
  let st := run init h in
  forall p g f ms bts maxB maxC pool b t,
    parent_finalized st p g ->
    In t (candidate (s_mgr st) f g ms bts maxB maxC pool b) ->
    x_ts t = tsof (x_id t) -> x_grp t = g ->
    ~ In (x_id t) (chain_ids st p).
Proof. exact selected_not_on_chain. Qed.
Print Assumptions C37_selected_not_on_chain.

(* Cumulative balance: for every selected transaction t, the balance of its
   sender in the parent state, minus everything the sender was charged
   (value + stepLimit*stepPrice) by the transactions selected before t, plus
   the values it received from them, covers the charge of t; and a normal
   transaction's step limit covers the minimum steps. *)
Theorem C37_cumulative_balance : forall m f g ms bts maxB maxC pool b pre t post,
  candidate m f g ms bts maxB maxC pool b = pre ++ t :: post ->
  charge f t <= working f b pre (x_from t) /\
  (x_grp t = true -> min_step f t <= x_step t).
Proof. exact cumulative_balance. Qed.
Print Assumptions C37_cumulative_balance.

(* ... so no account's working balance is ever negative. *)
Theorem C37_working_balance_nonneg : forall m f g ms bts maxB maxC pool b,
  (forall a, 0 <= b a) ->
  Forall (fun e => 0 <= x_value (p_tx e)) pool ->
  forall pre post, candidate m f g ms bts maxB maxC pool b = pre ++ post ->
  forall a, 0 <= working f b pre a.
Proof. exact working_nonneg. Qed.
Print Assumptions C37_working_balance_nonneg.

(* The working balance of the closed formula is the state the loop threads. *)
Theorem C37_working_is_threaded_state : forall f pre b a,
  fold_left (apply_tx f) pre b a = working f b pre a.
Proof. exact fold_working. Qed.
Print Assumptions C37_working_is_threaded_state.

(* Limits: total serialised size and count (defaults for limits <= 0). *)
Theorem C37_within_limits : forall m f g ms bts maxB maxC pool b,
  total_size (candidate m f g ms bts maxB maxC pool b) <= eff_bytes maxB /\
  Z.of_nat (length (candidate m f g ms bts maxB maxC pool b)) <= eff_count maxC.
Proof. exact within_limits. Qed.
Print Assumptions C37_within_limits.

(* The selected list keeps the pool's order (the cumulative check depends on it). *)
Theorem C37_order_preserved : forall m f g ms bts maxB maxC pool b,
  subseq (candidate m f g ms bts maxB maxC pool b) (map p_tx pool).
Proof. exact order_preserved. Qed.
Print Assumptions C37_order_preserved.

(* The hypothesis `parent_finalized` cannot be dropped: the pool consults only
   the manager (committed blocks), the validator also uncommitted ancestors.
   On an uncommitted parent block whose transaction is still in the pool, the
   proposed list is rejected as DuplicateTx. *)
Theorem C37_unfinalized_parent_refuted :
  exists st p f g ms bts maxB maxC pool b,
    pool_ok g pool /\
    (exists tp, get (s_trk st) p = Some tp /\ t_open tp = true /\ t_grp tp = g) /\
    validate_block st p f g ms bts (candidate (s_mgr st) f g ms bts maxB maxC pool b) b = Some cDup.
Proof. exact unfinalized_parent_refuted. Qed.
Print Assumptions C37_unfinalized_parent_refuted.

(* ---- kernel links (Link_C37.v, re-using Link_C11.v).  CheckTxTimestamp,
   timestampRangeMin/Max (service/tschecker.go), locatorCacheMiss and trackerHasGuard
   (common/txlocator/manager.go) are re-generated from the Go source on every run
   (tools/go2coq); the window test and the lookup that proposer and validator share in
   the theorems above ARE the decisions of the current Go code.  i64 x: x is an int64;
   ts_err_of_class: class 0 / 1 / 2 -> nil / ExpiredTransactionError / FutureTransactionError ---- *)
Theorem C37_kernel_CheckTxTimestamp : forall bts th ts, i64 (bts - th) -> i64 (bts + th) ->
  CheckTxTimestamp (timestampRangeMin bts th) (timestampRangeMax bts th) ts
  = ts_err_of_class (range_check bts th ts).
Proof. exact txpool_window_is_kernels. Qed.
Print Assumptions C37_kernel_CheckTxTimestamp.

Theorem C37_kernel_timestampRange : forall bts th ts, i64 (bts - th) -> i64 (bts + th) ->
  (in_window bts th ts <->
   CheckTxTimestamp (timestampRangeMin bts th) (timestampRangeMax bts th) ts = ts_err_of_class 0).
Proof. exact in_window_is_kernels. Qed.
Print Assumptions C37_kernel_timestampRange.

Theorem C37_kernel_locatorCacheMiss : forall (m : manager) (g : bool) (id : N) (ts : Z),
  manager_has m g id ts =
  if mem id (m_locs m) then true
  else if locatorCacheMiss (c_max (cache_of m g)) ts then false
  else mem id (m_db m).
Proof. exact manager_has_is_kernel. Qed.
Print Assumptions C37_kernel_locatorCacheMiss.

(* the guard of tracker.Has in the walk parent_has_v VCode of C37_has_agreement *)
Theorem C37_kernel_trackerHasGuard : forall ts lts lth, i64 (lts + lth) ->
  skip_own VCode ts (lts + lth) = trackerHasGuard ts lts lth.
Proof. exact skip_own_is_trackerHasGuard. Qed.
Print Assumptions C37_kernel_trackerHasGuard.

Theorem C37_kernel_params : Link_C11.kernel_params_pinned.
Proof. exact Link_C11.kernel_params_ok. Qed.
Print Assumptions C37_kernel_params.
