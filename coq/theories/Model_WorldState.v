(* Model_WorldState.v — service/state/worldstate.go (worldStateImpl, worldSnapshotImpl),
   service/state/account.go (accountStateImpl, accountSnapshotImpl, accountData) and
   service/state/readonlyworldstate.go.

   Implementation-level model (mirrors the code):
     amap V       a finite map as an association list keyed by byte strings.  It stands for
                  BOTH tries of the code: the account trie (key = sha3(address id); here keyed
                  by the address id itself — sha3 collision freedom on ids is assumed) and the
                  per-account storage trie.  The Merkle root of such a map is a Section
                  variable (end of this file) with the hypothesis that it is a function of the
                  map's extensional content — that is property C17 (C17_root_canonical).
     adata        the fields of accountData that the exported, deploy-free API can change:
                  balance, store (None = the Go nil store), isContract, contractOwner, state, deposits
     asnap        an accountSnapshotImpl: its data and a STAMP = its identity as a Go pointer
                  (index into the allocation log `heap`); the code compares snapshot pointers
                  in three places (accountStateImpl.GetSnapshot/Reset: s.last;
                  flushAccountCacheInLock: ass == s) and the model compares stamps there
     astate       an accountStateImpl: live data + `last` (nil after markDirty)
     entry        ws.mutableAccounts[id] together with ws.lastAccounts[id] (two Go maps with the
                  same key set, merged into one record)
     wstate       worldStateImpl: the account trie + the cache of entries
     sys          what a history acts on: the live world state, the allocation log, every
                  world snapshot taken so far (a world snapshot IS the account trie value at
                  that time), and which of them were flushed to the database

   Specification-level model: a total function account id -> logical account, snapshots are
   copies of the function, Reset is assignment; ClearCache/Flush/reload change nothing.

   Style: stdlib only.  No proofs in this file. *)
From Goloop Require Import lib.Bytes.
Open Scope N_scope.

(* ---------- finite maps as association lists ---------- *)
Section AMap.
  Context {V : Type}.
  Definition amap := list (bytes * V).

  Fixpoint am_get (m : amap) (k : bytes) : option V :=
    match m with
    | [] => None
    | (k', v) :: r => if bytes_eqb k' k then Some v else am_get r k
    end.

  Fixpoint am_del (k : bytes) (m : amap) : amap :=
    match m with
    | [] => []
    | (k', v) :: r => if bytes_eqb k' k then am_del k r else (k', v) :: am_del k r
    end.

  Definition am_set (k : bytes) (v : V) (m : amap) : amap := (k, v) :: am_del k m.

  (* in-place update of the value under k (a Go map holding a pointer whose target is mutated) *)
  Fixpoint am_upd (f : V -> V) (k : bytes) (m : amap) : amap :=
    match m with
    | [] => []
    | (k', v) :: r => if bytes_eqb k' k then (k', f v) :: r else (k', v) :: am_upd f k r
    end.

  Definition am_is_empty (m : amap) : bool := match m with [] => true | _ => false end.
End AMap.
Arguments amap : clear implicits.

Definition aid := bytes.                 (* address id *)
Definition smap := amap bytes.           (* storage: key -> non-empty value *)

(* ---------- fee-sharing deposits (service/state/deposit.go, depositlist.go) ---------- *)
(* depositV1 {ID, DepositAmount, DepositRemain, ExpireHeight, StepIssued, StepRemain} and
   depositV2 {DepositRemain}.  depositV1.isExhausted (not serialized; recomputed on decode as
   DepositRemain <= DepositAmount/10) is modelled as that derived value — equal to the stored
   flag whenever deposit amounts are positive. *)
Inductive deposit :=
| DV1 (id : bytes) (amount remain expire issued sremain : Z)
| DV2 (remain : Z).

(* DepositContext / PayContext *)
Record dctx := mkDC { c_price : Z; c_height : Z; c_term : Z; c_rate : Z; c_tid : bytes; c_on : bool }.

Definition dep_is_id (d : deposit) (id : bytes) : bool :=
  match d with DV1 i _ _ _ _ _ => bytes_eqb i id | DV2 _ => match id with [] => true | _ => false end end.

Definition min_deposit (amount : Z) : Z := (amount / 10)%Z.
Definition calc_vsteps (amount rate price : Z) : Z :=
  if (price <=? 0)%Z then 0%Z else (amount * rate / 100 / price)%Z.
Definition expired (d : deposit) (h : Z) : bool :=
  match d with DV1 _ _ _ e _ _ => (e <=? h)%Z | DV2 _ => false end.
Definition exhausted (d : deposit) : bool :=
  match d with DV1 _ a r _ _ _ => (r <=? min_deposit a)%Z | DV2 _ => false end.

(* depositList.AddDeposit: add in place to the deposit identified by the id, else append; None = error *)
Fixpoint dl_add_in (id : bytes) (v : Z) (dl : list deposit) : option (option (list deposit)) :=
  match dl with                                   (* None: not found; Some None: found, error *)
  | [] => None
  | d :: r =>
      if dep_is_id d id then
        match d with
        | DV1 _ _ _ _ _ _ => Some None                                  (* DuplicateDeposit *)
        | DV2 rem => Some (Some (DV2 (rem + v)%Z :: r))
        end
      else match dl_add_in id v r with
           | None => None
           | Some None => Some None
           | Some (Some r') => Some (Some (d :: r'))
           end
  end.

Definition dl_add (c : dctx) (v : Z) (dl : list deposit) : option (list deposit) :=
  let tid := if (c_term c =? 0)%Z then [] else c_tid c in
  match dl_add_in tid v dl with
  | Some r => r
  | None =>
      let issue := calc_vsteps v (c_rate c) (c_price c) in
      Some (dl ++ [if (c_term c =? 0)%Z then DV2 v
                   else DV1 (c_tid c) v v (c_height c + c_term c)%Z issue issue])
  end.

Definition is_noneZ (v : option Z) : bool := match v with None => true | Some _ => false end.

(* deposit.Withdraw: (amount, penalty, removal, deposit afterwards); None = error *)
Definition dep_withdraw (d : deposit) (h price : Z) (v : option Z) : option (Z * Z * bool * deposit) :=
  match d with
  | DV1 i a r e iss sr =>
      match v with
      | Some _ => None                                                  (* PartialWithdrawIsDenied *)
      | None =>
          if expired d h then Some (r, 0%Z, true, d)
          else let pen := ((iss - sr) * price)%Z in
               if (pen <=? r)%Z then Some ((r - pen)%Z, pen, true, d) else Some (0%Z, r, true, d)
      end
  | DV2 r =>
      let amount := match v with Some x => x | None => r end in
      if (amount <? r)%Z then Some (amount, 0%Z, false, DV2 (r - amount)%Z)
      else if (amount =? r)%Z
           then Some (amount, 0%Z, is_noneZ v, match v with Some _ => DV2 0%Z | None => d end)
           else None                                                    (* NotEnoughBalance *)
  end.

(* depositList.WithdrawDeposit: first deposit identified by id; removed from the list on removal *)
Fixpoint dl_withdraw_in (h price : Z) (id : bytes) (v : option Z) (dl : list deposit)
  : option (option (Z * Z * list deposit)) :=     (* None: not found; Some None: error *)
  match dl with
  | [] => None
  | d :: r =>
      if dep_is_id d id then
        match dep_withdraw d h price v with
        | None => Some None
        | Some (amount, pen, removal, d') => Some (Some (amount, pen, if removal then r else d' :: r))
        end
      else match dl_withdraw_in h price id v r with
           | None => None
           | Some None => Some None
           | Some (Some (a, p, r')) => Some (Some (a, p, d :: r'))
           end
  end.

Definition dl_withdraw (c : dctx) (id : bytes) (v : option Z) (dl : list deposit) : option (Z * Z * list deposit) :=
  match v with
  | Some x => if (x <? 0)%Z then None else
      match dl_withdraw_in (c_height c) (c_price c) id v dl with Some r => r | None => None end
  | None => match dl_withdraw_in (c_height c) (c_price c) id v dl with Some r => r | None => None end
  end.

(* ConsumeSteps / ConsumeDepositLv1 / ConsumeDepositLv2: (deposit afterwards, what remains to pay) *)
Definition dep_consume_steps (h : Z) (d : deposit) (steps : Z) : deposit * Z :=
  match d with
  | DV1 i a r e iss sr =>
      if expired d h then (d, steps)
      else if (sr =? 0)%Z then (d, steps)
      else if (sr <? steps)%Z then (DV1 i a r e iss 0%Z, (steps - sr)%Z)
      else (DV1 i a r e iss (sr - steps)%Z, 0%Z)
  | DV2 _ => (d, steps)
  end.

Definition dep_lv1 (h : Z) (d : deposit) (fee : Z) : deposit * Z :=
  match d with
  | DV1 i a r e iss sr =>
      if expired d h || exhausted d then (d, fee)
      else let payable := (r - min_deposit a)%Z in
           if (payable <=? fee)%Z then (DV1 i a (r - payable)%Z e iss sr, (fee - payable)%Z)
           else (DV1 i a (r - fee)%Z e iss sr, 0%Z)
  | DV2 r => if (r <=? fee)%Z then (DV2 0%Z, (fee - r)%Z) else (DV2 (r - fee)%Z, 0%Z)
  end.

Definition dep_lv2 (h : Z) (d : deposit) (fee : Z) : deposit * Z :=
  match d with
  | DV1 i a r e iss sr =>
      if expired d h then (d, fee)
      else if (r <? fee)%Z then (DV1 i a 0%Z e iss sr, (fee - r)%Z)
      else (DV1 i a (r - fee)%Z e iss sr, 0%Z)
  | DV2 _ => (d, fee)
  end.

(* a loop over the list that stops as soon as nothing remains *)
Fixpoint dl_sweep (f : deposit -> Z -> deposit * Z) (dl : list deposit) (x : Z) : list deposit * Z :=
  match dl with
  | [] => ([], x)
  | d :: r =>
      let '(d', x') := f d x in
      if (x' =? 0)%Z then (d' :: r, 0%Z)
      else let '(r', x'') := dl_sweep f r x' in (d' :: r', x'')
  end.

Definition dep_available (h : Z) (d : deposit) : Z :=
  match d with DV1 _ _ r _ _ _ => if expired d h then 0%Z else r | DV2 r => r end.

(* depositList.PaySteps: (list afterwards, paid steps, steps paid by deposit); None results = nil *)
Definition dl_pay (c : dctx) (steps : Z) (dl : list deposit) : list deposit * option Z * option Z :=
  if (c_price c <=? 0)%Z || match dl with [] => true | _ => false end then (dl, None, None)
  else
    let '(dl1, remains) := dl_sweep (dep_consume_steps (c_height c)) dl steps in
    if (remains =? 0)%Z then (dl1, Some steps, None)
    else
      let avail := fold_left (fun acc d => (acc + dep_available (c_height c) d)%Z) dl1 0%Z in
      let payable := (avail / c_price c)%Z in
      let by_dep := if (payable <? remains)%Z then payable else remains in
      let paid := if (payable <? remains)%Z then (steps - remains + payable)%Z else steps in
      let fee := (by_dep * c_price c)%Z in
      let '(dl2, fee2) := dl_sweep (dep_lv1 (c_height c)) dl1 fee in
      let dl3 := if (fee2 =? 0)%Z then dl2 else fst (dl_sweep (dep_lv2 (c_height c)) dl2 fee2) in
      (dl3, Some paid, Some by_dep).

(* ---------- accountData ---------- *)
Record adata := mkA {
  d_bal : Z;                  (* balance *)
  d_store : option smap;      (* store; None = nil *)
  d_isc : bool;               (* isContract *)
  d_own : option bytes;       (* contractOwner; None = nil *)
  d_flg : N;                  (* state: ASDisabled = 1, ASBlocked = 2 *)
  d_dep : list deposit }.     (* deposits *)

Definition empty_data : adata := mkA 0%Z None false None 0 [].    (* newAccountSnapshot / Clear() *)

Definition is_none {A} (o : option A) : bool := match o with None => true | Some _ => false end.

(* accountData.IsEmpty: balance.Sign()==0 && store==nil && !isContract && state==0 *)
Definition is_empty (d : adata) : bool :=
  (d_bal d =? 0)%Z && is_none (d_store d) && negb (d_isc d) && (d_flg d =? 0).

(* accountData.GetValue *)
Definition data_value (d : adata) (k : bytes) : option bytes :=
  match d_store d with None => None | Some m => am_get m k end.

Definition flag_on (f bit : N) : bool := negb (N.land f bit =? 0).
Definition AS_DISABLED : N := 1.
Definition AS_BLOCKED : N := 2.

(* ---------- snapshots of one account, the allocation log ---------- *)
Record asnap := mkS { stamp : nat; sdata : adata }.
Definition heap := list adata.

Record astate := mkAS { live : adata; last : option asnap }.

(* markDirty *)
Definition dirty (d : adata) : astate := mkAS d None.

Definition with_bal (d : adata) (v : Z) := mkA v (d_store d) (d_isc d) (d_own d) (d_flg d) (d_dep d).
Definition with_store (d : adata) (s : option smap) := mkA (d_bal d) s (d_isc d) (d_own d) (d_flg d) (d_dep d).
Definition with_flg (d : adata) (f : N) := mkA (d_bal d) (d_store d) (d_isc d) (d_own d) f (d_dep d).
Definition with_dep (d : adata) (dl : list deposit) := mkA (d_bal d) (d_store d) (d_isc d) (d_own d) (d_flg d) dl.

(* accountStateImpl.SetBalance *)
Definition a_set_balance (s : astate) (v : Z) : astate :=
  if (d_bal (live s) =? v)%Z then s else dirty (with_bal (live s) v).

(* accountStateImpl.DeleteValue: returns the old value only when it was non-empty, and only
   then marks the account dirty *)
Definition a_delete_value (s : astate) (k : bytes) : astate * option bytes :=
  match d_store (live s) with
  | None => (s, None)
  | Some m =>
      match am_get m k with
      | Some (b :: r) => (dirty (with_store (live s) (Some (am_del k m))), Some (b :: r))
      | Some [] => (mkAS (with_store (live s) (Some (am_del k m))) (last s), None)
      | None => (s, None)
      end
  end.

(* accountStateImpl.SetValue: an empty value is a delete; the store is created on demand *)
Definition a_set_value (s : astate) (k v : bytes) : astate * option bytes :=
  match v with
  | [] => a_delete_value s k
  | _ =>
      let m := match d_store (live s) with Some m => m | None => [] end in
      (dirty (with_store (live s) (Some (am_set k v m))), am_get m k)
  end.

(* accountStateImpl.InitContractAccount *)
Definition a_init_contract (s : astate) (owner : bytes) : astate * bool :=
  if d_isc (live s) then (s, false)
  else (dirty (mkA (d_bal (live s)) (d_store (live s)) true (Some owner) (d_flg (live s)) (d_dep (live s))), true).

(* accountStateImpl.SetBlock *)
Definition a_set_block (s : astate) (b : bool) : astate :=
  if Bool.eqb (flag_on (d_flg (live s)) AS_BLOCKED) b then s
  else dirty (with_flg (live s) (N.lxor (d_flg (live s)) AS_BLOCKED)).

(* accountStateImpl.SetDisable: only for contract accounts *)
Definition a_set_disable (s : astate) (b : bool) : astate :=
  if d_isc (live s) then
    if Bool.eqb (flag_on (d_flg (live s)) AS_DISABLED) b then s
    else dirty (with_flg (live s) (N.lxor (d_flg (live s)) AS_DISABLED))
  else s.


(* results of the deposit operations: None = an error was returned *)
Definition dres := option (option Z * option Z).

(* accountStateImpl.AddDeposit / WithdrawDeposit / PaySteps.  The code has no isContract check
   here (the service layer only calls them for contract accounts); the model refuses them on
   other accounts — the bool says whether the operation was admitted *)
Definition a_add_deposit (s : astate) (c : dctx) (v : Z) : astate * (bool * dres) :=
  if d_isc (live s) then
    match dl_add c v (d_dep (live s)) with
    | Some dl => (dirty (with_dep (live s) dl), (true, Some (None, None)))
    | None => (s, (true, None))
    end
  else (s, (false, None)).

Definition a_withdraw_deposit (s : astate) (c : dctx) (id : bytes) (v : option Z) : astate * (bool * dres) :=
  if d_isc (live s) then
    match dl_withdraw c id v (d_dep (live s)) with
    | Some (amount, pen, dl) => (dirty (with_dep (live s) dl), (true, Some (Some amount, Some pen)))
    | None => (s, (true, None))
    end
  else (s, (false, None)).

Definition a_pay_steps (s : astate) (c : dctx) (steps : Z) : astate * (bool * dres) :=
  if d_isc (live s) then
    if c_on c && match d_dep (live s) with [] => false | _ => true end then
      let '(dl, paid, by_dep) := dl_pay c steps (d_dep (live s)) in
      (dirty (with_dep (live s) dl), (true, Some (paid, by_dep)))
    else (s, (true, Some (None, None)))
  else (s, (false, None)).

(* the data of a fresh snapshot: `if store.Empty() { store = nil }` *)
Definition norm_store (o : option smap) : option smap :=
  match o with
  | Some m => if am_is_empty m then None else Some m
  | None => None
  end.
Definition snap_data (d : adata) : adata := with_store d (norm_store (d_store d)).

(* accountStateImpl.GetSnapshot: the cached one, or a new object *)
Definition a_get_snapshot (h : heap) (s : astate) : heap * astate * asnap :=
  match last s with
  | Some x => (h, s, x)
  | None =>
      let x := mkS (length h) (snap_data (live s)) in
      (h ++ [sdata x], mkAS (live s) (Some x), x)
  end.

(* accountStateImpl.Reset: nothing to do when s.last == snapshot (pointer comparison) *)
Definition a_reset (s : astate) (x : asnap) : astate :=
  match last s with
  | Some y => if Nat.eqb (stamp y) (stamp x) then s else mkAS (sdata x) (Some x)
  | None => mkAS (sdata x) (Some x)
  end.

(* accountStateImpl.Clear *)
Definition a_clear : astate := mkAS empty_data None.

(* newAccountState *)
Definition new_astate (o : option asnap) : astate :=
  match o with
  | Some x => mkAS (sdata x) (Some x)
  | None => a_clear
  end.

(* ---------- worldStateImpl ---------- *)
Record entry := mkE { e_st : astate; e_wlast : option asnap }.    (* mutableAccounts[id], lastAccounts[id] *)
Definition trie := amap asnap.
Record wstate := mkW { w_trie : trie; w_cache : amap entry }.

Definition w_empty : wstate := mkW [] [].

(* GetAccountState *)
Definition w_touch (w : wstate) (a : aid) : wstate * astate :=
  match am_get (w_cache w) a with
  | Some e => (w, e_st e)
  | None =>
      let o := am_get (w_trie w) a in
      let s := new_astate o in
      (mkW (w_trie w) ((a, mkE s o) :: w_cache w), s)
  end.

(* GetAccountState(a) followed by a mutation through the returned handle *)
Definition w_modify {R} (w : wstate) (a : aid) (f : astate -> astate * R) : wstate * R :=
  let '(w1, s) := w_touch w a in
  let '(s', r) := f s in
  (mkW (w_trie w1) (am_upd (fun e => mkE s' (e_wlast e)) a (w_cache w1)), r).

(* one iteration of the loop of flushAccountCacheInLock *)
Definition flush_one (h : heap) (t : trie) (a : aid) (e : entry) : heap * trie * entry :=
  let '(h1, st1, s) := a_get_snapshot h (e_st e) in
  let skip := match e_wlast e with
              | Some ass => Nat.eqb (stamp ass) (stamp s)
              | None => is_empty (sdata s)
              end in
  if skip then (h1, t, mkE st1 (e_wlast e))
  else (h1, (if is_empty (sdata s) then am_del a t else am_set a s t), mkE st1 (Some s)).

(* flushAccountCacheInLock (the Go map is iterated in an unspecified order; here: list order) *)
Fixpoint flush_entries (h : heap) (t : trie) (c : amap entry) : heap * trie * amap entry :=
  match c with
  | [] => (h, t, [])
  | (a, e) :: r =>
      let '(h1, t1, e1) := flush_one h t a e in
      let '(h2, t2, r2) := flush_entries h1 t1 r in
      (h2, t2, (a, e1) :: r2)
  end.

Definition w_flush (h : heap) (w : wstate) : heap * wstate :=
  let '(h', t', c') := flush_entries h (w_trie w) (w_cache w) in (h', mkW t' c').

(* GetSnapshot: flush the cache, the snapshot is the account trie *)
Definition w_get_snapshot (h : heap) (w : wstate) : heap * wstate * trie :=
  let '(h', w') := w_flush h w in (h', w', w_trie w').

(* ClearCache: flush, then forget both maps *)
Definition w_clear_cache (h : heap) (w : wstate) : heap * wstate :=
  let '(h', w') := w_flush h w in (h', mkW (w_trie w') []).

(* Reset: the trie is replaced; every cached account state is reset to the snapshot's
   account, or cleared when the snapshot has none *)
Definition reset_entry (t : trie) (a : aid) (e : entry) : entry :=
  match am_get t a with
  | None => mkE a_clear None
  | Some v => mkE (a_reset (e_st e) v) (Some v)
  end.
Definition w_reset (w : wstate) (t : trie) : wstate :=
  mkW t (map (fun ae => (fst ae, reset_entry t (fst ae) (snd ae))) (w_cache w)).

(* worldStateImpl.GetAccountSnapshot: the cached state's snapshot, else the trie's, else empty *)
Definition w_peek (h : heap) (w : wstate) (a : aid) : heap * wstate * adata :=
  match am_get (w_cache w) a with
  | Some e =>
      let '(h1, st1, s) := a_get_snapshot h (e_st e) in
      (h1, mkW (w_trie w) (am_upd (fun e => mkE st1 (e_wlast e)) a (w_cache w)), sdata s)
  | None =>
      (h, w, match am_get (w_trie w) a with Some x => sdata x | None => empty_data end)
  end.

(* what the world state holds for an account, logically *)
Definition live_view (w : wstate) (a : aid) : adata :=
  match am_get (w_cache w) a with
  | Some e => live (e_st e)
  | None => match am_get (w_trie w) a with Some x => sdata x | None => empty_data end
  end.

(* worldSnapshotImpl.GetAccountSnapshot: nil when the trie has no entry *)
Definition snap_view (t : trie) (a : aid) : option adata := option_map sdata (am_get t a).

(* readOnlyWorldState.GetAccountState: the snapshot's account, or an empty one *)
Definition ro_view (t : trie) (a : aid) : adata :=
  match am_get t a with Some x => sdata x | None => empty_data end.

(* ---------- histories ---------- *)
Record sys := mkSys {
  s_heap : heap;
  s_ws : wstate;
  s_snaps : list trie;        (* every WorldSnapshot obtained so far, oldest first *)
  s_flushed : list nat }.     (* indices of snapshots whose Flush() was called (or that were loaded from the database) *)

Definition init : sys := mkSys [] w_empty [] [].

Inductive target :=
| TLive (a : aid)             (* ws.GetAccountState(a)      — creates the cache entry *)
| TPeek (a : aid)             (* ws.GetAccountSnapshot(a)   — does not *)
| TSnap (i : nat) (a : aid)   (* snapshot i .GetAccountSnapshot(a) — may be nil *)
| TRO (i : nat) (a : aid).    (* NewReadOnlyWorldState(snapshot i).GetAccountState(a) *)

Inductive query := QBalance | QValue (k : bytes) | QInfo | QDeposits.

Inductive op :=
| OTouch (a : aid)
| OSetBalance (a : aid) (v : Z)
| OSetValue (a : aid) (k v : bytes)
| ODelValue (a : aid) (k : bytes)
| OInitContract (a : aid) (owner : bytes)
| OSetBlock (a : aid) (b : bool)
| OSetDisable (a : aid) (b : bool)
| OAddDeposit (a : aid) (c : dctx) (v : Z)
| OWithdrawDeposit (a : aid) (c : dctx) (id : bytes) (v : option Z)
| OPaySteps (a : aid) (c : dctx) (steps : Z)
| ORead (t : target) (q : query)
| OGetSnapshot                (* ws.GetSnapshot(), appended to the snapshot list *)
| OReset (i : nat)            (* ws.Reset(snapshot i) *)
| OClearCache
| OFlush (i : nat)            (* snapshot i .Flush() *)
| OReload (i : nat)           (* the live world state is replaced by NewWorldState(db, StateHash of snapshot i) *)
| OFromSnap (i : nat)         (* the live world state is replaced by WorldStateFromSnapshot(snapshot i) *)
| OLoadSnap (i : nat).        (* NewWorldSnapshot(db, StateHash of snapshot i), appended to the snapshot list *)

Inductive out :=
| RUnit
| RIllegal                    (* snapshot index out of range, or loading a state that was never flushed *)
| RNil                        (* the account snapshot is nil *)
| RBal (v : Z)
| RVal (v : option bytes)     (* None = nil *)
| RInfo (isc : bool) (own : option bytes) (flg : N)
| RBool (b : bool)
| RDeps (dl : list deposit)
| RDep (r : dres).          (* deposit operation: None = error; otherwise the two returned numbers (None = nil) *)

Definition read_data (d : adata) (q : query) : out :=
  match q with
  | QBalance => RBal (d_bal d)
  | QValue k => RVal (data_value d k)
  | QInfo => RInfo (d_isc d) (d_own d) (d_flg d)
  | QDeposits => RDeps (d_dep d)
  end.

Definition dep_out (r : bool * dres) : out := if fst r then RDep (snd r) else RIllegal.

Definition is_flushed (s : sys) (i : nat) : bool := existsb (Nat.eqb i) (s_flushed s).

Definition set_ws (s : sys) (w : wstate) : sys := mkSys (s_heap s) w (s_snaps s) (s_flushed s).

Definition s_modify {R} (s : sys) (a : aid) (f : astate -> astate * R) (g : R -> out) : sys * out :=
  let '(w', r) := w_modify (s_ws s) a f in (set_ws s w', g r).

Definition step (s : sys) (o : op) : sys * out :=
  let modify {R} := @s_modify R s in
  match o with
  | OTouch a => (set_ws s (fst (w_touch (s_ws s) a)), RUnit)
  | OSetBalance a v => modify a (fun st => (a_set_balance st v, tt)) (fun _ => RUnit)
  | OSetValue a k v => modify a (fun st => a_set_value st k v) RVal
  | ODelValue a k => modify a (fun st => a_delete_value st k) RVal
  | OInitContract a owner => modify a (fun st => a_init_contract st owner) RBool
  | OSetBlock a b => modify a (fun st => (a_set_block st b, tt)) (fun _ => RUnit)
  | OSetDisable a b => modify a (fun st => (a_set_disable st b, tt)) (fun _ => RUnit)
  | OAddDeposit a c v => modify a (fun st => a_add_deposit st c v) dep_out
  | OWithdrawDeposit a c id v => modify a (fun st => a_withdraw_deposit st c id v) dep_out
  | OPaySteps a c steps => modify a (fun st => a_pay_steps st c steps) dep_out
  | ORead (TLive a) q =>
      let '(w', st) := w_touch (s_ws s) a in (set_ws s w', read_data (live st) q)
  | ORead (TPeek a) q =>
      let '(h', w', d) := w_peek (s_heap s) (s_ws s) a in
      (mkSys h' w' (s_snaps s) (s_flushed s), read_data d q)
  | ORead (TSnap i a) q =>
      match nth_error (s_snaps s) i with
      | None => (s, RIllegal)
      | Some t => (s, match snap_view t a with None => RNil | Some d => read_data d q end)
      end
  | ORead (TRO i a) q =>
      match nth_error (s_snaps s) i with
      | None => (s, RIllegal)
      | Some t => (s, read_data (ro_view t a) q)
      end
  | OGetSnapshot =>
      let '(h', w', t) := w_get_snapshot (s_heap s) (s_ws s) in
      (mkSys h' w' (s_snaps s ++ [t]) (s_flushed s), RUnit)
  | OReset i =>
      match nth_error (s_snaps s) i with
      | None => (s, RIllegal)
      | Some t => (set_ws s (w_reset (s_ws s) t), RUnit)
      end
  | OClearCache =>
      let '(h', w') := w_clear_cache (s_heap s) (s_ws s) in
      (mkSys h' w' (s_snaps s) (s_flushed s), RUnit)
  | OFlush i =>
      match nth_error (s_snaps s) i with
      | None => (s, RIllegal)
      | Some _ => (mkSys (s_heap s) (s_ws s) (s_snaps s) (i :: s_flushed s), RUnit)
      end
  | OReload i =>
      match nth_error (s_snaps s) i with
      | None => (s, RIllegal)
      | Some t => if is_flushed s i then (set_ws s (mkW t []), RUnit) else (s, RIllegal)
      end
  | OFromSnap i =>
      match nth_error (s_snaps s) i with
      | None => (s, RIllegal)
      | Some t => (set_ws s (mkW t []), RUnit)
      end
  | OLoadSnap i =>
      match nth_error (s_snaps s) i with
      | None => (s, RIllegal)
      | Some t =>
          if is_flushed s i
          then (mkSys (s_heap s) (s_ws s) (s_snaps s ++ [t]) (length (s_snaps s) :: s_flushed s), RUnit)
          else (s, RIllegal)
      end
  end.

Fixpoint run (s : sys) (l : list op) : sys * list out :=
  match l with
  | [] => (s, [])
  | o :: r => let '(s1, x) := step s o in let '(s2, xs) := run s1 r in (s2, x :: xs)
  end.

Definition state_of (s : sys) (l : list op) : sys := fst (run s l).
Definition outs_of (s : sys) (l : list op) : list out := snd (run s l).

(* the snapshot a GetSnapshot() would return now *)
Definition current_snapshot (s : sys) : trie := snd (w_get_snapshot (s_heap s) (s_ws s)).

(* ---------- specification: a total map of logical accounts ---------- *)
Record lacct := mkL { l_bal : Z; l_store : smap; l_isc : bool; l_own : option bytes; l_flg : N; l_dep : list deposit }.
Definition l_empty : lacct := mkL 0%Z [] false None 0 [].
Definition l_with_dep (l : lacct) (dl : list deposit) : lacct :=
  mkL (l_bal l) (l_store l) (l_isc l) (l_own l) (l_flg l) dl.

Definition l_is_empty (l : lacct) : bool :=
  (l_bal l =? 0)%Z && am_is_empty (l_store l) && negb (l_isc l) && (l_flg l =? 0).

Definition lworld := aid -> lacct.

Record spec := mkSpec { sp_cur : lworld; sp_snaps : list lworld; sp_flushed : list nat }.
Definition spec_init : spec := mkSpec (fun _ => l_empty) [] [].

Definition lupd (f : lworld) (a : aid) (v : lacct) : lworld :=
  fun a' => if bytes_eqb a a' then v else f a'.

Definition read_l (l : lacct) (q : query) : out :=
  match q with
  | QBalance => RBal (l_bal l)
  | QValue k => RVal (am_get (l_store l) k)
  | QInfo => RInfo (l_isc l) (l_own l) (l_flg l)
  | QDeposits => RDeps (l_dep l)
  end.

Definition sp_is_flushed (s : spec) (i : nat) : bool := existsb (Nat.eqb i) (sp_flushed s).

Definition spec_step (s : spec) (o : op) : spec * out :=
  let cur a := sp_cur s a in
  let put a l := mkSpec (lupd (sp_cur s) a l) (sp_snaps s) (sp_flushed s) in
  match o with
  | OTouch a => (s, RUnit)
  | OSetBalance a v =>
      (put a (mkL v (l_store (cur a)) (l_isc (cur a)) (l_own (cur a)) (l_flg (cur a)) (l_dep (cur a))), RUnit)
  | OSetValue a k v =>
      (put a (mkL (l_bal (cur a))
                  (match v with [] => am_del k (l_store (cur a)) | _ => am_set k v (l_store (cur a)) end)
                  (l_isc (cur a)) (l_own (cur a)) (l_flg (cur a)) (l_dep (cur a))),
       RVal (am_get (l_store (cur a)) k))
  | ODelValue a k =>
      (put a (mkL (l_bal (cur a)) (am_del k (l_store (cur a))) (l_isc (cur a)) (l_own (cur a)) (l_flg (cur a)) (l_dep (cur a))),
       RVal (am_get (l_store (cur a)) k))
  | OInitContract a owner =>
      if l_isc (cur a) then (s, RBool false)
      else (put a (mkL (l_bal (cur a)) (l_store (cur a)) true (Some owner) (l_flg (cur a)) (l_dep (cur a))), RBool true)
  | OSetBlock a b =>
      (put a (mkL (l_bal (cur a)) (l_store (cur a)) (l_isc (cur a)) (l_own (cur a))
                  (if Bool.eqb (flag_on (l_flg (cur a)) AS_BLOCKED) b then l_flg (cur a)
                   else N.lxor (l_flg (cur a)) AS_BLOCKED) (l_dep (cur a))), RUnit)
  | OSetDisable a b =>
      (put a (mkL (l_bal (cur a)) (l_store (cur a)) (l_isc (cur a)) (l_own (cur a))
                  (if l_isc (cur a) && negb (Bool.eqb (flag_on (l_flg (cur a)) AS_DISABLED) b)
                   then N.lxor (l_flg (cur a)) AS_DISABLED else l_flg (cur a)) (l_dep (cur a))), RUnit)
  | OAddDeposit a c v =>
      if l_isc (cur a) then
        match dl_add c v (l_dep (cur a)) with
        | Some dl => (put a (l_with_dep (cur a) dl), RDep (Some (None, None)))
        | None => (s, RDep None)
        end
      else (s, RIllegal)
  | OWithdrawDeposit a c id v =>
      if l_isc (cur a) then
        match dl_withdraw c id v (l_dep (cur a)) with
        | Some (amount, pen, dl) => (put a (l_with_dep (cur a) dl), RDep (Some (Some amount, Some pen)))
        | None => (s, RDep None)
        end
      else (s, RIllegal)
  | OPaySteps a c steps =>
      if l_isc (cur a) then
        if c_on c && match l_dep (cur a) with [] => false | _ => true end then
          let '(dl, paid, by_dep) := dl_pay c steps (l_dep (cur a)) in
          (put a (l_with_dep (cur a) dl), RDep (Some (paid, by_dep)))
        else (s, RDep (Some (None, None)))
      else (s, RIllegal)
  | ORead (TLive a) q | ORead (TPeek a) q => (s, read_l (cur a) q)
  | ORead (TSnap i a) q =>
      match nth_error (sp_snaps s) i with
      | None => (s, RIllegal)
      | Some f => (s, if l_is_empty (f a) then RNil else read_l (f a) q)    (* empty = absent *)
      end
  | ORead (TRO i a) q =>
      match nth_error (sp_snaps s) i with
      | None => (s, RIllegal)
      | Some f => (s, read_l (f a) q)
      end
  | OGetSnapshot => (mkSpec (sp_cur s) (sp_snaps s ++ [sp_cur s]) (sp_flushed s), RUnit)
  | OReset i =>
      match nth_error (sp_snaps s) i with
      | None => (s, RIllegal)
      | Some f => (mkSpec f (sp_snaps s) (sp_flushed s), RUnit)
      end
  | OClearCache => (s, RUnit)
  | OFlush i =>
      match nth_error (sp_snaps s) i with
      | None => (s, RIllegal)
      | Some _ => (mkSpec (sp_cur s) (sp_snaps s) (i :: sp_flushed s), RUnit)
      end
  | OReload i =>
      match nth_error (sp_snaps s) i with
      | None => (s, RIllegal)
      | Some f => if sp_is_flushed s i then (mkSpec f (sp_snaps s) (sp_flushed s), RUnit) else (s, RIllegal)
      end
  | OFromSnap i =>
      match nth_error (sp_snaps s) i with
      | None => (s, RIllegal)
      | Some f => (mkSpec f (sp_snaps s) (sp_flushed s), RUnit)
      end
  | OLoadSnap i =>
      match nth_error (sp_snaps s) i with
      | None => (s, RIllegal)
      | Some f =>
          if sp_is_flushed s i
          then (mkSpec (sp_cur s) (sp_snaps s ++ [f]) (length (sp_snaps s) :: sp_flushed s), RUnit)
          else (s, RIllegal)
      end
  end.

Fixpoint spec_run (s : spec) (l : list op) : spec * list out :=
  match l with
  | [] => (s, [])
  | o :: r => let '(s1, x) := spec_step s o in let '(s2, xs) := spec_run s1 r in (s2, x :: xs)
  end.

(* ---------- abstraction and logical equality ---------- *)
Definition abs (d : adata) : lacct :=
  mkL (d_bal d) (match d_store d with Some m => m | None => [] end) (d_isc d) (d_own d) (d_flg d) (d_dep d).

Definition abs_opt (o : option asnap) : lacct :=
  match o with Some x => abs (sdata x) | None => l_empty end.

(* two logical accounts are the same: equal scalars, and the stores agree on every key *)
Definition l_equiv (x y : lacct) : Prop :=
  l_bal x = l_bal y /\ l_isc x = l_isc y /\ l_own x = l_own y /\ l_flg x = l_flg y /\
  l_dep x = l_dep y /\
  forall k, am_get (l_store x) k = am_get (l_store y) k.

(* two world snapshots hold the same logical contents (an absent account is an empty one) *)
Definition trie_equiv (t1 t2 : trie) : Prop :=
  forall a, l_equiv (abs_opt (am_get t1 a)) (abs_opt (am_get t2 a)).

(* the same, decided (used by the correspondence run to predict which state hashes coincide) *)
Definition opt_eqb {A} (eqb : A -> A -> bool) (x y : option A) : bool :=
  match x, y with
  | None, None => true
  | Some a, Some b => eqb a b
  | _, _ => false
  end.

Definition store_equivb (m1 m2 : smap) : bool :=
  forallb (fun k => opt_bytes_eqb (am_get m1 k) (am_get m2 k)) (map fst m1 ++ map fst m2).

Definition deposit_eqb (x y : deposit) : bool :=
  match x, y with
  | DV1 i a r e s t, DV1 i' a' r' e' s' t' =>
      bytes_eqb i i' && (a =? a')%Z && (r =? r')%Z && (e =? e')%Z && (s =? s')%Z && (t =? t')%Z
  | DV2 r, DV2 r' => (r =? r')%Z
  | _, _ => false
  end.

Fixpoint deposits_eqb (x y : list deposit) : bool :=
  match x, y with
  | [], [] => true
  | a :: x', b :: y' => deposit_eqb a b && deposits_eqb x' y'
  | _, _ => false
  end.

Definition l_equivb (x y : lacct) : bool :=
  (l_bal x =? l_bal y)%Z && Bool.eqb (l_isc x) (l_isc y) && opt_bytes_eqb (l_own x) (l_own y) &&
  (l_flg x =? l_flg y) && deposits_eqb (l_dep x) (l_dep y) && store_equivb (l_store x) (l_store y).

Definition trie_equivb (t1 t2 : trie) : bool :=
  forallb (fun a => l_equivb (abs_opt (am_get t1 a)) (abs_opt (am_get t2 a))) (map fst t1 ++ map fst t2).

(* ---------- the state hash ---------- *)
Section Hash.
  Variable hash : Type.       (* Merkle roots *)
  Variable leaf : Type.       (* serialized account snapshots *)
  (* root of a storage trie, as a function of the association list that represents its content *)
  Variable store_root : smap -> hash.
  (* accountSnapshotImpl.RLPEncodeSelf: a function of the fields; the store enters by its root *)
  Variable acct_leaf : Z -> bool -> option bytes -> N -> list deposit -> option hash -> leaf.
  (* root of the account trie *)
  Variable world_root : amap leaf -> hash.

  Definition leaf_of (d : adata) : leaf :=
    acct_leaf (d_bal d) (d_isc d) (d_own d) (d_flg d) (d_dep d) (option_map store_root (d_store d)).

  (* worldSnapshotImpl.StateHash *)
  Definition state_hash (t : trie) : hash :=
    world_root (map (fun ax => (fst ax, leaf_of (sdata (snd ax)))) t).
End Hash.
