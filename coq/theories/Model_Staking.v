(* Model_Staking.v -- executable model of the ICX staking bookkeeping of
   icon/iiss/extension.go (SetStake, SetDelegation, SetBond, SetBonderList,
   RegisterPRep, UnregisterPRep, ClaimIScore), icon/iiss/icstate/account.go,
   unstake.go, unbond.go, timer.go, state.go (RegisterPRep/DisablePRep totals),
   icon/iiss/timerhandler.go and the ICX movements of icon/icsim/context.go, at
   the latest protocol revision.  No proofs here.

   Conventions
   * amounts and heights are unbounded Z (Go: big.Int / int64 far from wrap);
   * the account universe is a list; an account is named by its position
     (field [aid] repeats it).  Addresses are chosen by the harness so that the
     byte order of addresses is the order of positions (sorted map keys of
     UpdateUnbonds = increasing position);
   * [unstakes] is kept LATEST FIRST, i.e. it is the reverse of the Go slice;
   * the timer tables of the code map a height to a set of addresses; the model
     keeps the transposed relation: per account the set of heights at which it
     sits in the unstaking ([ust]) / unbonding ([ubt]) timer;
   * cached sums of the code (totalDelegation, totalBond, totalUnbond of an
     account) are recomputed from the lists;
   * amounts the model cannot derive are inputs of the operation: the unstake
     lock period (float arithmetic in CalcUnstakeLockPeriod), the ICX paid by a
     claim (reward calculation), the ICX issued by a base transaction;
   * [g_in], [g_back], [g_paid] are ghost counters (ICX that entered unstaking,
     that was re-staked out of unstake slots, that was paid at slot expiry). *)
From Coq Require Import List ZArith Bool Lia.
Import ListNotations.
Open Scope Z_scope.

Inductive pstatus := PNone | PActive | PUnreg.

Definition pstatus_eqb (a b : pstatus) : bool :=
  match a, b with
  | PNone, PNone | PActive, PActive | PUnreg, PUnreg => true
  | _, _ => false
  end.

Record acct := mkAcct {
  aid : nat;
  bal : Z;
  stake : Z;
  unstakes : list (Z * Z);        (* (amount, expire height), latest first *)
  delegs : list (nat * Z);        (* (target, amount) *)
  bonds : list (nat * Z);
  unbonds : list (nat * Z * Z);   (* (target, amount, expire height) *)
  ust : list Z;                   (* unstaking timer heights of this account *)
  ubt : list Z;                   (* unbonding timer heights of this account *)
  pstat : pstatus;                (* PRepStatus.status: NotReady / Active / Unregistered *)
  pdeleg : Z;                     (* PRepStatus.delegated *)
  pbond : Z;                      (* PRepStatus.bonded *)
  bonders : list nat;             (* PRepBase.bonderList *)
  g_in : Z;
  g_back : Z;
  g_paid : Z
}.

Record state := mkState {
  accts : list acct;
  height : Z;       (* last finalised block; transactions run in block height+1 *)
  supply : Z;       (* system total supply *)
  tstake : Z;       (* State.totalStake *)
  tdeleg : Z;       (* State.totalDelegation *)
  tbond : Z         (* State.totalBond *)
}.

Record config := mkConfig {
  slot_max : nat;        (* unstakeSlotMax *)
  unbond_max : nat;      (* unbondingMax *)
  unbond_period : Z;     (* unbondingPeriodMultiplier * termPeriod *)
  deleg_max : nat;       (* delegationSlotMax *)
  bond_max : nat;        (* maxBonds *)
  bonder_max : nat;      (* max bonder list length *)
  reg_fee : Z;           (* P-Rep registration fee, burnt *)
  treasury : nat         (* position of the treasury account *)
}.

Inductive op :=
| OTransfer (from to : nat) (amt : Z)
| OSetStake (a : nat) (v : Z) (lock : Z)
| OSetDelegation (a : nat) (ds : list (nat * Z))
| OSetBond (a : nat) (bs : list (nat * Z))
| OSetBonderList (p : nat) (bl : list nat)
| ORegister (a : nat)
| OUnregister (a : nat)
| OClaim (a : nat) (icx : Z)
| OIssue (amt : Z)
| OEndBlock.

(* ---------- sums and list helpers ---------- *)

Fixpoint sumZ {A} (f : A -> Z) (l : list A) : Z :=
  match l with
  | [] => 0
  | x :: r => f x + sumZ f r
  end.

Definition amt_of (l : list (nat * Z)) : Z := sumZ snd l.
Definition amt_to (p : nat) (l : list (nat * Z)) : Z :=
  sumZ (fun e => if Nat.eqb (fst e) p then snd e else 0) l.
Definition us_total (l : list (Z * Z)) : Z := sumZ fst l.
Definition ub_amt (e : nat * Z * Z) : Z := snd (fst e).
Definition ub_to (e : nat * Z * Z) : nat := fst (fst e).
Definition ub_exp (e : nat * Z * Z) : Z := snd e.
Definition ub_total (l : list (nat * Z * Z)) : Z := sumZ ub_amt l.

(* AccountState.UsingStake *)
Definition using_stake (x : acct) : Z := amt_of (delegs x) + amt_of (bonds x) + ub_total (unbonds x).
(* accountData.GetTotalStake *)
Definition total_stake_of (x : acct) : Z := stake x + us_total (unstakes x).

Fixpoint upd {A} (i : nat) (f : A -> A) (l : list A) : list A :=
  match l, i with
  | [], _ => []
  | x :: r, O => f x :: r
  | x :: r, S k => x :: upd k f r
  end.

Definition is_active (x : acct) : bool := pstatus_eqb (pstat x) PActive.
Definition has_base (x : acct) : bool := negb (pstatus_eqb (pstat x) PNone).

(* ---------- field setters ---------- *)

Definition set_bal (x : acct) (v : Z) : acct :=
  mkAcct (aid x) v (stake x) (unstakes x) (delegs x) (bonds x) (unbonds x) (ust x) (ubt x)
         (pstat x) (pdeleg x) (pbond x) (bonders x) (g_in x) (g_back x) (g_paid x).
Definition set_delegs (x : acct) (v : list (nat * Z)) : acct :=
  mkAcct (aid x) (bal x) (stake x) (unstakes x) v (bonds x) (unbonds x) (ust x) (ubt x)
         (pstat x) (pdeleg x) (pbond x) (bonders x) (g_in x) (g_back x) (g_paid x).
Definition set_bonding (x : acct) (bs : list (nat * Z)) (ubs : list (nat * Z * Z)) (t : list Z) : acct :=
  mkAcct (aid x) (bal x) (stake x) (unstakes x) (delegs x) bs ubs (ust x) t
         (pstat x) (pdeleg x) (pbond x) (bonders x) (g_in x) (g_back x) (g_paid x).
Definition set_pdeleg (x : acct) (v : Z) : acct :=
  mkAcct (aid x) (bal x) (stake x) (unstakes x) (delegs x) (bonds x) (unbonds x) (ust x) (ubt x)
         (pstat x) v (pbond x) (bonders x) (g_in x) (g_back x) (g_paid x).
Definition set_pbond (x : acct) (v : Z) : acct :=
  mkAcct (aid x) (bal x) (stake x) (unstakes x) (delegs x) (bonds x) (unbonds x) (ust x) (ubt x)
         (pstat x) (pdeleg x) v (bonders x) (g_in x) (g_back x) (g_paid x).
Definition set_pstat (x : acct) (v : pstatus) : acct :=
  mkAcct (aid x) (bal x) (stake x) (unstakes x) (delegs x) (bonds x) (unbonds x) (ust x) (ubt x)
         v (pdeleg x) (pbond x) (bonders x) (g_in x) (g_back x) (g_paid x).
Definition set_bonders (x : acct) (v : list nat) : acct :=
  mkAcct (aid x) (bal x) (stake x) (unstakes x) (delegs x) (bonds x) (unbonds x) (ust x) (ubt x)
         (pstat x) (pdeleg x) (pbond x) v (g_in x) (g_back x) (g_paid x).

(* ---------- timers (icstate/timer.go: TimerState.Add / Delete, transposed) ---------- *)

Definition tmem (h : Z) (t : list Z) : bool := existsb (Z.eqb h) t.
Definition tadd (h : Z) (t : list Z) : list Z := if tmem h t then t else t ++ [h].
Definition tdel (h : Z) (t : list Z) : list Z := filter (fun k => negb (k =? h)) t.

(* ---------- unstake slots (icstate/unstake.go), on the latest-first list ---------- *)

(* Unstakes.decreaseUnstake: consume [remain] from the latest slots; returns the
   new slots and the expire heights whose timer job is removed *)
Fixpoint dec_unstake (l : list (Z * Z)) (remain : Z) : list (Z * Z) * list Z :=
  match l with
  | [] => ([], [])
  | (v, e) :: r =>
      if v <=? remain then
        if remain =? v then (r, [e])
        else let (r', t) := dec_unstake r (remain - v) in (r', e :: t)
      else ((v - remain, e) :: r, [])
  end.

(* Unstakes.findIndex + insertion, on the reversed list *)
Fixpoint ins_unstake (v eh : Z) (l : list (Z * Z)) : list (Z * Z) :=
  match l with
  | [] => [(v, eh)]
  | (v', e') :: r => if e' <=? eh then (v, eh) :: (v', e') :: r else (v', e') :: ins_unstake v eh r
  end.

(* Unstakes.increaseUnstake: Some (new slots, new timer heights) *)
Definition inc_unstake (slotmax : nat) (v eh : Z) (l : list (Z * Z)) (t : list Z)
  : option (list (Z * Z) * list Z) :=
  if (slotmax <=? length l)%nat then
    match l with
    | [] => None    (* index -1: the Go code panics; unreachable when slotmax >= 1 *)
    | (lv, le) :: r =>
        if le <? eh then Some ((lv + v, eh) :: r, tadd eh (tdel le t))
        else Some ((lv + v, le) :: r, t)
    end
  else Some (ins_unstake v eh l, tadd eh t).

(* ---------- unbonds (AccountState.UpdateUnbonds) ---------- *)

Definition count_exp (h : Z) (ubs : list (nat * Z * Z)) : nat :=
  length (filter (fun e => ub_exp e =? h) ubs).

Fixpoint find_ub (p : nat) (ubs : list (nat * Z * Z)) : option (Z * Z) :=
  match ubs with
  | [] => None
  | (t, v, e) :: r => if Nat.eqb t p then Some (v, e) else find_ub p r
  end.

Fixpoint set_ub (p : nat) (v e : Z) (ubs : list (nat * Z * Z)) : list (nat * Z * Z) :=
  match ubs with
  | [] => []
  | (t, v0, e0) :: r => if Nat.eqb t p then (t, v, e) :: r else (t, v0, e0) :: set_ub p v e r
  end.

Fixpoint del_ub (p : nat) (ubs : list (nat * Z * Z)) : list (nat * Z * Z) :=
  match ubs with
  | [] => []
  | (t, v0, e0) :: r => if Nat.eqb t p then r else (t, v0, e0) :: del_ub p r
  end.

(* one key of bondDelta: d = new bond - old bond towards p; eh = new unbond expire *)
Definition ub_step (eh : Z) (d : Z) (p : nat) (st : list (nat * Z * Z) * list Z)
  : list (nat * Z * Z) * list Z :=
  let (ubs, t) := st in
  if d =? 0 then st
  else if d <? 0 then
    let t1 := if (count_exp eh ubs =? 0)%nat then tadd eh t else t in
    match find_ub p ubs with
    | Some (v, e) =>
        let t2 := if (count_exp e ubs =? 1)%nat && negb (e =? eh) then tdel e t1 else t1 in
        (set_ub p (v - d) eh ubs, t2)
    | None => (ubs ++ [(p, - d, eh)], t1)
    end
  else
    match find_ub p ubs with
    | Some (v, e) =>
        if v - d <=? 0 then
          (del_ub p ubs, if (count_exp e ubs =? 1)%nat then tdel e t else t)
        else (set_ub p (v - d) e ubs, t)
    | None => st
    end.

Definition update_unbonds (n : nat) (c : nat -> Z) (eh : Z) (ubs : list (nat * Z * Z)) (t : list Z) :=
  fold_left (fun st p => ub_step eh (c p) p st) (seq 0 n) (ubs, t).

(* ---------- vote lists (icstate.NewDelegations / NewBonds) ---------- *)

Fixpoint nodup_targets (l : list (nat * Z)) : bool :=
  match l with
  | [] => true
  | e :: r => negb (existsb (Nat.eqb (fst e)) (map fst r)) && nodup_targets r
  end.

Definition votes_ok (n maxlen : nat) (l : list (nat * Z)) : bool :=
  (length l <=? maxlen)%nat && nodup_targets l &&
  forallb (fun e => (fst e <? n)%nat && (0 <=? snd e)) l.

Definition norm_votes (l : list (nat * Z)) : list (nat * Z) := filter (fun e => 0 <? snd e) l.

Fixpoint nodup_nat (l : list nat) : bool :=
  match l with
  | [] => true
  | e :: r => negb (existsb (Nat.eqb e) r) && nodup_nat r
  end.

(* ---------- operations ---------- *)

Definition with_accts (s : state) (l : list acct) : state :=
  mkState l (height s) (supply s) (tstake s) (tdeleg s) (tbond s).

(* icsim worldContext.Transfer *)
Definition do_transfer (s : state) (from to : nat) (amt : Z) : option state :=
  match nth_error (accts s) from, nth_error (accts s) to with
  | Some x, Some _ =>
      if amt <? 0 then None
      else if (amt =? 0) || Nat.eqb from to then Some s
      else if bal x <? amt then None
      else Some (with_accts s (upd to (fun y => set_bal y (bal y + amt))
                                   (upd from (fun y => set_bal y (bal y - amt)) (accts s))))
  | _, _ => None
  end.

(* ExtensionStateImpl.SetStake, revision >= 13 *)
Definition do_set_stake (cfg : config) (s : state) (a : nat) (v lock : Z) : option state :=
  match nth_error (accts s) a with
  | None => None
  | Some x =>
      if v <? using_stake x then None
      else
        let inc := v - stake x in
        if inc =? 0 then Some s
        else if bal x + total_stake_of x <? v then None
        else
          let eh := height s + 1 + lock in
          let r :=
            if 0 <? inc then
              let (us', rm) := dec_unstake (unstakes x) inc in
              Some (us', fold_left (fun t h => tdel h t) rm (ust x))
            else inc_unstake (slot_max cfg) (- inc) eh (unstakes x) (ust x) in
          match r with
          | None => None
          | Some (us', t') =>
              let diff := (v + us_total us') - total_stake_of x in
              if diff <? 0 then None
              else if bal x <? diff then None
              else
                let consumed := us_total (unstakes x) + (if 0 <? inc then 0 else - inc) - us_total us' in
                let x' := mkAcct (aid x) (bal x - diff) v us' (delegs x) (bonds x) (unbonds x) t' (ubt x)
                                 (pstat x) (pdeleg x) (pbond x) (bonders x)
                                 (g_in x + (if 0 <? inc then 0 else - inc)) (g_back x + consumed) (g_paid x) in
                Some (mkState (upd a (fun _ => x') (accts s)) (height s) (supply s)
                              (tstake s + inc) (tdeleg s) (tbond s))
          end
  end.

(* ExtensionStateImpl.SetDelegation after icstate.NewDelegations *)
Definition do_set_delegation (cfg : config) (s : state) (a : nat) (raw : list (nat * Z)) : option state :=
  match nth_error (accts s) a with
  | None => None
  | Some x =>
      if negb (votes_ok (length (accts s)) (deleg_max cfg) raw) then None
      else
        let ds := norm_votes raw in
        if stake x <? amt_of ds + ub_total (unbonds x) + amt_of (bonds x) then None
        else
          let c := fun p => amt_to p ds - amt_to p (delegs x) in
          let l1 := map (fun y => set_pdeleg y (pdeleg y + c (aid y))) (accts s) in
          let l2 := upd a (fun y => set_delegs y ds) l1 in
          Some (mkState l2 (height s) (supply s) (tstake s)
                        (tdeleg s + sumZ (fun y => if is_active y then c (aid y) else 0) (accts s))
                        (tbond s))
  end.

(* ExtensionStateImpl.SetBond after icstate.NewBonds *)
Definition do_set_bond (cfg : config) (s : state) (a : nat) (raw : list (nat * Z)) : option state :=
  match nth_error (accts s) a with
  | None => None
  | Some x =>
      if negb (votes_ok (length (accts s)) (bond_max cfg) raw) then None
      else
        let bs := norm_votes raw in
        if negb (forallb (fun e => match nth_error (accts s) (fst e) with
                                   | Some p => has_base p && existsb (Nat.eqb a) (bonders p)
                                   | None => false
                                   end) bs) then None
        else if stake x <? amt_of bs + amt_of (delegs x) then None
        else
          let c := fun p => amt_to p bs - amt_to p (bonds x) in
          let eh := height s + 1 + unbond_period cfg in
          let (ubs', t') := update_unbonds (length (accts s)) c eh (unbonds x) (ubt x) in
          if (unbond_max cfg <? length ubs')%nat then None
          else if stake x <? amt_of bs + amt_of (delegs x) + ub_total ubs' then None
          else
            let l1 := map (fun y => set_pbond y (pbond y + c (aid y))) (accts s) in
            let l2 := upd a (fun y => set_bonding y bs ubs' t') l1 in
            Some (mkState l2 (height s) (supply s) (tstake s) (tdeleg s)
                          (tbond s + sumZ (fun y => if is_active y then c (aid y) else 0) (accts s)))
  end.

(* ExtensionStateImpl.SetBonderList after icstate.NewBonderList *)
Definition do_set_bonder_list (cfg : config) (s : state) (p : nat) (bl : list nat) : option state :=
  match nth_error (accts s) p with
  | None => None
  | Some x =>
      if negb ((length bl <=? bonder_max cfg)%nat && nodup_nat bl &&
               forallb (fun b => (b <? length (accts s))%nat) bl) then None
      else if negb (is_active x) then None
      else if negb (forallb (fun old =>
                     existsb (Nat.eqb old) bl ||
                     match nth_error (accts s) old with
                     | Some y => negb (existsb (fun e => Nat.eqb (fst e) p) (bonds y)) &&
                                 negb (existsb (fun e => Nat.eqb (ub_to e) p) (unbonds y))
                     | None => true
                     end) (bonders x)) then None
      else Some (with_accts s (upd p (fun y => set_bonders y bl) (accts s)))
  end.

(* icsim registerPRep (fee to the system address) + ExtensionStateImpl.RegisterPRep
   (fee withdrawn and burnt) + State.RegisterPRep *)
Definition do_register (cfg : config) (s : state) (a : nat) : option state :=
  match nth_error (accts s) a with
  | None => None
  | Some x =>
      if reg_fee cfg <? 0 then None
      else if bal x <? reg_fee cfg then None
      else if supply s <? reg_fee cfg then None
      else if negb (pstatus_eqb (pstat x) PNone) then None
      else
        Some (mkState (upd a (fun y => set_pstat (set_bal y (bal y - reg_fee cfg)) PActive) (accts s))
                      (height s) (supply s - reg_fee cfg) (tstake s)
                      (tdeleg s + (if 0 <? pdeleg x then pdeleg x else 0)) (tbond s))
  end.

(* ExtensionStateImpl.UnregisterPRep + State.DisablePRep *)
Definition do_unregister (s : state) (a : nat) : option state :=
  match nth_error (accts s) a with
  | None => None
  | Some x =>
      if 0 <? pbond x then None
      else if negb (is_active x) then None
      else
        Some (mkState (upd a (fun y => set_pstat y PUnreg) (accts s))
                      (height s) (supply s) (tstake s) (tdeleg s - pdeleg x) (tbond s))
  end.

(* ExtensionStateImpl.ClaimIScore: the ICX amount is an input *)
Definition do_claim (cfg : config) (s : state) (a : nat) (icx : Z) : option state :=
  match nth_error (accts s) a with
  | None => None
  | Some _ => do_transfer s (treasury cfg) a icx
  end.

(* handleICXIssue: Deposit to the treasury + AddTotalSupply *)
Definition do_issue (cfg : config) (s : state) (amt : Z) : option state :=
  match nth_error (accts s) (treasury cfg) with
  | None => None
  | Some _ =>
      if amt <? 0 then None
      else Some (mkState (upd (treasury cfg) (fun y => set_bal y (bal y + amt)) (accts s))
                         (height s) (supply s + amt) (tstake s) (tdeleg s) (tbond s))
  end.

(* timerhandler.go, per account: handleUnbondingTimer then handleUnstakingTimer *)
Definition fire_ok (bh : Z) (x : acct) : bool :=
  (negb (tmem bh (ubt x)) || existsb (fun e => ub_exp e =? bh) (unbonds x)) &&
  (negb (tmem bh (ust x)) || existsb (fun e => snd e =? bh) (unstakes x)).

Definition fire (bh : Z) (x : acct) : acct :=
  let ubs' := if tmem bh (ubt x) then filter (fun e => negb (ub_exp e =? bh)) (unbonds x) else unbonds x in
  let due := if tmem bh (ust x) then filter (fun e => snd e =? bh) (unstakes x) else [] in
  let us' := if tmem bh (ust x) then filter (fun e => negb (snd e =? bh)) (unstakes x) else unstakes x in
  mkAcct (aid x) (bal x + us_total due) (stake x) us' (delegs x) (bonds x) ubs' (ust x) (ubt x)
         (pstat x) (pdeleg x) (pbond x) (bonders x) (g_in x) (g_back x) (g_paid x + us_total due).

Definition do_end_block (s : state) : option state :=
  let bh := height s + 1 in
  if forallb (fire_ok bh) (accts s) then
    Some (mkState (map (fire bh) (accts s)) bh (supply s) (tstake s) (tdeleg s) (tbond s))
  else None.

Definition try_op (cfg : config) (s : state) (o : op) : option state :=
  match o with
  | OTransfer f t v => do_transfer s f t v
  | OSetStake a v lock => do_set_stake cfg s a v lock
  | OSetDelegation a ds => do_set_delegation cfg s a ds
  | OSetBond a bs => do_set_bond cfg s a bs
  | OSetBonderList p bl => do_set_bonder_list cfg s p bl
  | ORegister a => do_register cfg s a
  | OUnregister a => do_unregister s a
  | OClaim a icx => do_claim cfg s a icx
  | OIssue amt => do_issue cfg s amt
  | OEndBlock => do_end_block s
  end.

(* a rejected operation (failed transaction, reverted) leaves the state unchanged *)
Definition step (cfg : config) (s : state) (o : op) : state * bool :=
  match try_op cfg s o with
  | Some s' => (s', true)
  | None => (s, false)
  end.

Definition run (cfg : config) (s : state) (ops : list op) : state :=
  fold_left (fun s o => fst (step cfg s o)) ops s.

(* ---------- genesis ---------- *)

Definition empty_acct (i : nat) (b : Z) : acct :=
  mkAcct i b 0 [] [] [] [] [] [] PNone 0 0 [] 0 0 0.

Fixpoint genesis_accts (i : nat) (bals : list Z) : list acct :=
  match bals with
  | [] => []
  | b :: r => empty_acct i b :: genesis_accts (S i) r
  end.

Definition genesis (bals : list Z) : state :=
  mkState (genesis_accts 0 bals) 0 (sumZ (fun b => b) bals) 0 0 0.

(* ---------- the side condition of C34_unstake_once_partial ---------- *)

(* an accepted stake decrease that opens a NEW slot does so at an expire height
   that no existing slot of the account has *)
Definition fresh_op (cfg : config) (s : state) (o : op) : bool :=
  match o with
  | OSetStake a v lock =>
      match nth_error (accts s) a with
      | Some x =>
          (0 <=? lock) &&
          ((stake x <=? v) || (slot_max cfg <=? length (unstakes x))%nat ||
           negb (existsb (fun e => snd e =? height s + 1 + lock) (unstakes x)))
      | None => true
      end
  | _ => true
  end.

Fixpoint fresh_run (cfg : config) (s : state) (ops : list op) : bool :=
  match ops with
  | [] => true
  | o :: r => fresh_op cfg s o && fresh_run cfg (fst (step cfg s o)) r
  end.
