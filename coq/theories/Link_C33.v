(* Link_C33.v -- ties the five scalar decisions of Model_Flood (property C33) to the
   kernels that tools/go2coq re-generates from network/p2p.go (PeerToPeer.onPacket) and
   network/peer.go (PeerRoleFlag.Has) on every run:

     onPacketIsOneHop        <->  is_one_hop      (isOneHop := pkt.ttl != 0 || pkt.dest == p2pDestPeer)
     onPacketIsBroadcast     <->  is_broadcast    (isBroadcast := pkt.dest == p2pDestAny && pkt.ttl == 0)
     onPacketDropOneHop      <->  drop_one_hop    (if isOneHop && !isSourcePeer)
     onPacketDropBroadcast   <->  drop_broadcast  (if isBroadcast && isSourcePeer && !p.HasRole(p2pRoleRoot))
     peerRoleHas             <->  role_has        (pr&o == o)

   Each model definition EQUALS its kernel for all arguments, in the argument order
   pinned by <name>_params_ok.  Proved from the kernels' characterising lemmas
   (Proofs_K_<name>.v), never from the shape of the generated text: `||` turned into
   `&&` in isOneHop, a changed p2pDestPeer / p2pDestAny constant, a dropped `!`, or
   `== o` turned into `!= 0` in Has break Proofs_K_<name>.v, hence this file, hence
   Prop_C33.v -- and nothing else.
   Style: stdlib, lia. *)
From Coq Require Import List ZArith Bool Lia ZifyBool.
From Goloop Require Import lib.GoInt Model_Flood.
From Goloop Require Import Proofs_K_tactics Proofs_K_onPacketIsOneHop Proofs_K_onPacketIsBroadcast
  Proofs_K_onPacketDropOneHop Proofs_K_onPacketDropBroadcast Proofs_K_peerRoleHas.
From Goloop.gen Require Export K_onPacketIsOneHop K_onPacketIsBroadcast K_onPacketDropOneHop
  K_onPacketDropBroadcast K_peerRoleHas.
Import ListNotations.
Local Open Scope Z_scope.

Ltac Zify.zify_post_hook ::= Z.to_euclidean_division_equations.

Lemma is_one_hop_is_kernel ttl dest : is_one_hop ttl dest = onPacketIsOneHop ttl dest.
Proof.
  apply bool_eq_iff. rewrite onPacketIsOneHop_spec. unfold is_one_hop. lia.
Qed.

Lemma is_broadcast_is_kernel dest ttl : is_broadcast dest ttl = onPacketIsBroadcast dest ttl.
Proof.
  apply bool_eq_iff. rewrite onPacketIsBroadcast_spec. unfold is_broadcast. lia.
Qed.

Lemma drop_one_hop_is_kernel isOneHop isSourcePeer :
  drop_one_hop isOneHop isSourcePeer = onPacketDropOneHop isOneHop isSourcePeer.
Proof.
  rename isOneHop into a, isSourcePeer into b.
  apply bool_eq_iff. rewrite onPacketDropOneHop_spec. unfold drop_one_hop.
  destruct a, b; cbn; intuition congruence.
Qed.

Lemma drop_broadcast_is_kernel isBroadcast isSourcePeer hasRoot :
  drop_broadcast isBroadcast isSourcePeer hasRoot
  = onPacketDropBroadcast isBroadcast isSourcePeer hasRoot.
Proof.
  rename isBroadcast into a, isSourcePeer into b, hasRoot into c.
  apply bool_eq_iff. rewrite onPacketDropBroadcast_spec. unfold drop_broadcast.
  destruct a, b, c; cbn; intuition congruence.
Qed.

Lemma role_has_is_kernel pr o : role_has pr o = peerRoleHas pr o.
Proof.
  apply bool_eq_iff. rewrite peerRoleHas_spec. unfold role_has. apply Z.eqb_eq.
Qed.

(* the two drop tests of on_packet, written with the kernels only *)
Lemma on_packet_drop_tests_are_kernels (p : peer) (k : pkt) :
  let isSourcePeer := pr_id p =? k_src k in
  drop_one_hop (is_one_hop (k_ttl k) (k_dest k)) isSourcePeer
  = onPacketDropOneHop (onPacketIsOneHop (k_ttl k) (k_dest k)) isSourcePeer /\
  drop_broadcast (is_broadcast (k_dest k) (k_ttl k)) isSourcePeer (role_has (pr_role p) role_root)
  = onPacketDropBroadcast (onPacketIsBroadcast (k_dest k) (k_ttl k)) isSourcePeer
      (peerRoleHas (pr_role p) role_root).
Proof.
  cbv zeta.
  rewrite drop_one_hop_is_kernel, is_one_hop_is_kernel, drop_broadcast_is_kernel,
          is_broadcast_is_kernel, role_has_is_kernel.
  split; reflexivity.
Qed.

(* the order in which the translator abstracted the operands (a reordering in the Go
   source would silently swap the arguments of the positional calls above) *)
Definition kernel_params_pinned : Prop :=
  onPacketIsOneHop_params = ["pkt.ttl"; "pkt.dest"]%string /\
  onPacketIsBroadcast_params = ["pkt.dest"; "pkt.ttl"]%string /\
  onPacketDropOneHop_params = ["isOneHop"; "isSourcePeer"]%string /\
  onPacketDropBroadcast_params = ["isBroadcast"; "isSourcePeer"; "p.HasRole(p2pRoleRoot)"]%string /\
  peerRoleHas_params = ["pr"; "o"]%string.

Lemma kernel_params_ok : kernel_params_pinned.
Proof.
  exact (conj onPacketIsOneHop_params_ok (conj onPacketIsBroadcast_params_ok
         (conj onPacketDropOneHop_params_ok (conj onPacketDropBroadcast_params_ok eq_refl)))).
Qed.

Example link_c33_nontrivial :
  onPacketIsOneHop 1 0 = true /\ onPacketIsOneHop 0 255 = true /\ onPacketIsOneHop 0 0 = false /\
  onPacketIsBroadcast 0 0 = true /\ onPacketIsBroadcast 0 1 = false /\
  onPacketDropOneHop true false = true /\ onPacketDropBroadcast true true false = true /\
  peerRoleHas 3 role_root = true /\ peerRoleHas 1 role_root = false.
Proof. repeat split; reflexivity. Qed.
