(* Proofs_ContainerKeyKernel.v — ties the model's rlp_count_bytes to the kernel that
   tools/go2coq re-generates from common/containerdb/common.go (rlpCountBytesForSize)
   on every run: for every size that fits a Go int both compute the same count. *)
From Goloop Require Import lib.Bytes lib.GoInt Model_ContainerKey Proofs_ContainerKey gen.K_rlpCountBytesForSize.
From Coq Require Import ZifyBool ZifyN ZifyNat.
Ltac Zify.zify_post_hook ::= Z.div_mod_to_equations.
Local Open Scope Z_scope.

Lemma kernel_loop_cnt f : forall g b cnt,
  0 <= b < 256 ^ Z.of_nat f -> (Z.to_nat b <= g)%nat -> 0 <= cnt -> cnt + Z.of_nat f < 9223372036854775807 ->
  exists b', rlpCountBytesForSize_loop1 (S f) b cnt = Some (b', cnt + Z.of_nat (cnt_loop g (Z.to_N b))).
Proof.
  induction f as [|f IH]; intros g b cnt Hb Hg Hc Hm.
  - change (256 ^ Z.of_nat 0) with 1 in Hb. assert (b = 0) by lia. subst.
    cbn [rlpCountBytesForSize_loop1]. change (0 >? 0) with false. cbv iota.
    exists 0. f_equal. f_equal. destruct g; cbn; lia.
  - remember (S f) as f1 eqn:Ef. cbn [rlpCountBytesForSize_loop1].
    destruct (b >? 0) eqn:E.
    + rewrite shiftr_div by lia. change (2 ^ 8) with 256.
      rewrite wrap_int_small by lia.
      destruct g as [|g1]; [lia|].
      subst f1. rewrite Nat2Z.inj_succ, Z.pow_succ_r in Hb by lia.
      destruct (IH g1 (b / 256) (cnt + 1) ltac:(lia) ltac:(lia) ltac:(lia) ltac:(lia)) as [b' He].
      exists b'. rewrite He. f_equal. f_equal. cbn [cnt_loop].
      destruct (0 <? Z.to_N b)%N eqn:E2; [|lia].
      replace (Z.to_N b / 256)%N with (Z.to_N (b / 256)) by (rewrite Z2N.inj_div by lia; reflexivity).
      lia.
    + exists b. assert (b = 0) by lia. subst. f_equal. f_equal. destruct g; cbn; lia.
Qed.

Lemma count_kernel_agrees (l : bytes) : (lenN l <= max_int)%N ->
  rlpCountBytesForSize 8 (Z.of_N (lenN l)) = Some (Z.of_nat (rlp_count_bytes (length l) (lenN l))).
Proof.
  intros Hm. unfold max_int in Hm. unfold rlpCountBytesForSize. cbv zeta.
  rewrite shiftr_div by lia. change (2 ^ 8) with 256.
  destruct (kernel_loop_cnt 7 (length l) (Z.of_N (lenN l) / 256) 1) as [b' He].
  - change (256 ^ Z.of_nat 7) with 72057594037927936. lia.
  - unfold lenN. lia.
  - lia.
  - lia.
  - rewrite He. unfold rlp_count_bytes. f_equal.
    replace (Z.to_N (Z.of_N (lenN l) / 256)) with (lenN l / 256)%N by (rewrite Z2N.inj_div by lia; rewrite N2Z.id; reflexivity).
    lia.
Qed.
