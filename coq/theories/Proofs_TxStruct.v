(* Proofs_TxStruct.v — the hash over the parsed fields (transactionV3Data.calcHash):
   canonical integer and address texts, and injectivity of the pre-image
   (pre_struct) in the field values.  Style: stdlib only. *)
From Coq Require Import String Ascii.
From Goloop Require Import lib.Bytes Model_Address Proofs_Address Model_TxSerialize Proofs_TxSerialize.
From Coq Require Import ZifyBool ZifyN ZifyNat.
Ltac Zify.zify_post_hook ::= Z.div_mod_to_equations.
Open Scope N_scope.

(* ================================================================== *)
(* hexadecimal texts                                                    *)
(* ================================================================== *)

(* 0-9 a-f *)
Definition is_hexc (c : N) : bool := ((48 <=? c) && (c <=? 57)) || ((97 <=? c) && (c <=? 102)).

Lemma hexdigit_spec d : d < 16 -> is_hexc (hexdigit d) = true /\ hexval (hexdigit d) = Some d.
Proof.
  intro Hd. unfold is_hexc, hexval, hexdigit. destruct (d <? 10) eqn:E.
  - split; [lia|]. replace ((48 <=? 48 + d) && (48 + d <=? 57)) with true by lia. f_equal. lia.
  - split; [lia|]. replace ((48 <=? 87 + d) && (87 + d <=? 57)) with false by lia.
    replace ((97 <=? 87 + d) && (87 + d <=? 102)) with true by lia. f_equal. lia.
Qed.

Lemma hexc_hexval c : is_hexc c = true -> exists d, hexval c = Some d /\ d < 16.
Proof.
  unfold is_hexc, hexval. intro Hc.
  destruct ((48 <=? c) && (c <=? 57)) eqn:E1; [eexists; split; [reflexivity|lia]|].
  destruct ((97 <=? c) && (c <=? 102)) eqn:E2; [eexists; split; [reflexivity|lia]|]. discriminate.
Qed.

Lemma hex_loop_spec fuel : forall n acc, n < 16 ^ N.of_nat fuel -> (1 <= fuel)%nat ->
  exists ds, hex_loop fuel n acc = ds ++ acc /\ ds <> [] /\ forallb is_hexc ds = true
             /\ forall rest a0, hex_acc (ds ++ rest) a0 = hex_acc rest (a0 * 16 ^ N.of_nat (length ds) + n).
Proof.
  induction fuel as [|f IH]; intros n acc Hn Hf; [lia|]. cbn [hex_loop].
  assert (Hm : n mod 16 < 16) by (apply N.mod_lt; lia).
  destruct (hexdigit_spec _ Hm) as [Hc Hv].
  destruct (n / 16 =? 0) eqn:Ez.
  - exists [hexdigit (n mod 16)]. split; [reflexivity|]. split; [discriminate|]. split; [cbn; now rewrite Hc|].
    intros rest a0. cbn [app hex_acc length]. rewrite Hv. f_equal.
    replace (16 ^ N.of_nat 1) with 16 by reflexivity. lia.
  - rewrite Nat2N.inj_succ, N.pow_succ_r' in Hn.
    destruct f as [|f']; [cbn in Hn; lia|].
    destruct (IH (n / 16) (hexdigit (n mod 16) :: acc)) as (ds & E & Hne & Hall & Hacc); [lia|lia|].
    exists (ds ++ [hexdigit (n mod 16)]). split; [rewrite E, <- app_assoc; reflexivity|].
    split; [destruct ds; discriminate|]. split; [rewrite forallb_app, Hall; cbn; now rewrite Hc|].
    intros rest a0. rewrite <- app_assoc. rewrite Hacc. cbn [app hex_acc]. rewrite Hv. f_equal.
    rewrite app_length. cbn [length]. rewrite Nat.add_1_r, Nat2N.inj_succ, N.pow_succ_r'.
    generalize (16 ^ N.of_nat (length ds)). intro P. lia.
Qed.

Lemma size_nat_bound n : n < 16 ^ N.of_nat (S (N.size_nat n)).
Proof.
  destruct n as [|p]; [cbn; lia|].
  pose proof (pos_size_nat_gt p) as Hp. cbn [N.size_nat].
  assert (H2 : (Z.of_N (N.pos p) < 16 ^ Z.of_nat (S (Pos.size_nat p)))%Z).
  { cbn [Z.of_N]. eapply Z.lt_le_trans; [exact Hp|].
    eapply Z.le_trans; [apply (Z.pow_le_mono_l 2 16); lia|].
    apply Z.pow_le_mono_r; lia. }
  apply N2Z.inj_lt. rewrite N2Z.inj_pow, nat_N_Z. exact H2.
Qed.

Lemma hex_n_spec n : hex_n n <> [] /\ forallb is_hexc (hex_n n) = true
  /\ forall rest, hex_acc (hex_n n ++ rest) 0 = hex_acc rest n.
Proof.
  unfold hex_n.
  destruct (hex_loop_spec (S (N.size_nat n)) n [] (size_nat_bound n) ltac:(lia)) as (ds & E & Hne & Hall & Hacc).
  rewrite app_nil_r in E. rewrite E. split; [exact Hne|]. split; [exact Hall|].
  intro rest. rewrite Hacc. f_equal.
Qed.

Lemma hex_n_value n : hex_acc (hex_n n) 0 = Some n.
Proof. destruct (hex_n_spec n) as (_ & _ & Ha). specialize (Ha []). now rewrite app_nil_r in Ha. Qed.

Lemma hex_n_inj a b : hex_n a = hex_n b -> a = b.
Proof. intro E. pose proof (hex_n_value a) as Ha. rewrite E, hex_n_value in Ha. now inversion Ha. Qed.

(* fmt_z parses back: the canonical text of every integer is in the modelled sub-language *)
Theorem parse_fmt_z z : parse_hexint (fmt_z z) = Some z.
Proof.
  unfold fmt_z. destruct (hex_n_spec (Z.abs_N z)) as (Hne1 & _ & _).
  destruct (hex_n_spec (Z.to_N z)) as (Hne2 & _ & _).
  destruct (z <? 0)%Z eqn:Ez.
  - change (str "-0x") with [45; 48; 120]. cbn [app parse_hexint].
    destruct (hex_n (Z.abs_N z)) as [|d r] eqn:E; [congruence|]. rewrite <- E, hex_n_value.
    cbn [option_map]. f_equal. lia.
  - change (str "0x") with [48; 120]. cbn [app].
    destruct (hex_n (Z.to_N z)) as [|d r] eqn:E; [congruence|].
    unfold parse_hexint. rewrite <- E, hex_n_value. cbn [option_map]. f_equal. lia.
Qed.

Lemma fmt_z_inj a b : fmt_z a = fmt_z b -> a = b.
Proof. intro E. pose proof (parse_fmt_z a) as Ha. rewrite E, parse_fmt_z in Ha. now inversion Ha. Qed.

(* the characters of canonical texts: - 0 x and hex digits; none is special *)
Definition plain (c : N) : bool := negb (is_special c).

Lemma hexc_plain c : is_hexc c = true -> plain c = true.
Proof.
  unfold is_hexc, plain. intro Hc. destruct (is_special c) eqn:Es; [|reflexivity].
  apply special_cases in Es. lia.
Qed.

Lemma forallb_impl {A} (p q : A -> bool) l : (forall x, p x = true -> q x = true) ->
  forallb p l = true -> forallb q l = true.
Proof. intros Hpq. induction l as [|x r IH]; cbn; auto. intro Hf. apply andb_true_iff in Hf as [Hx Hr]. now rewrite (Hpq _ Hx), IH. Qed.

Lemma fmt_z_plain z : forallb plain (fmt_z z) = true.
Proof.
  unfold fmt_z. destruct (z <? 0)%Z.
  - change (str "-0x") with [45; 48; 120]. cbn [app forallb].
    destruct (hex_n_spec (Z.abs_N z)) as (_ & Hall & _).
    rewrite (forallb_impl _ _ _ hexc_plain Hall). reflexivity.
  - change (str "0x") with [48; 120]. cbn [app forallb].
    destruct (hex_n_spec (Z.to_N z)) as (_ & Hall & _).
    rewrite (forallb_impl _ _ _ hexc_plain Hall). reflexivity.
Qed.

Lemma hex_encode_hexc bs : bytes_ok bs = true -> forallb is_hexc (hex_encode bs) = true.
Proof.
  induction bs as [|b r IH]; [reflexivity|]. cbn [bytes_ok forallb hex_encode]. fold (bytes_ok r).
  intro Hb. apply andb_true_iff in Hb as [Hb Hr]. unfold byte_ok in Hb.
  destruct (hexdigit_spec (b / 16) ltac:(lia)) as [H1 _].
  destruct (hexdigit_spec (b mod 16) ltac:(lia)) as [H2 _]. now rewrite H1, H2, IH.
Qed.

Lemma to_string_plain a : addr_ok a = true -> forallb plain (to_string a) = true.
Proof.
  unfold addr_ok, to_string. intro Ha. apply andb_true_iff in Ha as [_ Hb].
  cbn [forallb]. rewrite (forallb_impl _ _ _ hexc_plain (hex_encode_hexc _ Hb)).
  destruct (a_contract a); reflexivity.
Qed.

Lemma to_string_inj a b : addr_ok a = true -> addr_ok b = true -> to_string a = to_string b -> a = b.
Proof.
  intros Ha Hb E. pose proof (strict_roundtrip a Ha) as Ra. rewrite E, (strict_roundtrip b Hb) in Ra.
  now inversion Ra.
Qed.

Lemma esc_plain s : forallb plain s = true -> esc s = s.
Proof.
  induction s as [|c r IH]; [reflexivity|]. cbn [forallb esc]. intro Hf.
  apply andb_true_iff in Hf as [Hc Hr]. unfold plain in Hc. destruct (is_special c); [discriminate|].
  now rewrite IH.
Qed.

Definition dotfree (s : bytes) : bool := forallb (fun c => negb (c =? 46)) s.

Lemma plain_dotfree s : forallb plain s = true -> dotfree s = true.
Proof.
  apply forallb_impl. intros c Hc. unfold plain in Hc. destruct (c =? 46) eqn:E; [|reflexivity].
  apply N.eqb_eq in E. subst. discriminate.
Qed.

(* ================================================================== *)
(* splitting at unescaped dots; the last occurrence of an atom          *)
(* ================================================================== *)

Fixpoint split_dot (s : bytes) : list bytes :=
  match s with
  | [] => [[]]
  | c :: r =>
      if c =? 46 then [] :: split_dot r
      else match split_dot r with
           | p :: ps => (c :: p) :: ps
           | [] => [[c]]
           end
  end.

Lemma split_dot_nonempty s : split_dot s <> [].
Proof. destruct s as [|c r]; cbn; [discriminate|]. destruct (c =? 46); [discriminate|]. destruct (split_dot r); discriminate. Qed.

Lemma split_dot_app X Y : split_dot (X ++ 46 :: Y) = split_dot X ++ split_dot Y.
Proof.
  induction X as [|c r IH]; [reflexivity|]. cbn [app split_dot]. rewrite IH.
  destruct (c =? 46); [reflexivity|].
  destruct (split_dot r) as [|p ps] eqn:E; [now apply split_dot_nonempty in E|]. reflexivity.
Qed.

Lemma split_dot_atom s : dotfree s = true -> split_dot s = [s].
Proof.
  induction s as [|c r IH]; [reflexivity|]. cbn [dotfree forallb split_dot]. intro Hf.
  apply andb_true_iff in Hf as [Hc Hr]. destruct (c =? 46); [discriminate|]. fold (dotfree r) in Hr.
  now rewrite (IH Hr).
Qed.

Lemma join_split s : bjoin (split_dot s) = s.
Proof.
  induction s as [|c r IH]; [reflexivity|]. cbn [split_dot]. destruct (c =? 46) eqn:Ec.
  - apply N.eqb_eq in Ec. subst c. destruct (split_dot r) as [|p ps] eqn:E; [now apply split_dot_nonempty in E|].
    cbn [bjoin app flat_map] in *. rewrite IH. reflexivity.
  - destruct (split_dot r) as [|p ps] eqn:E; [now apply split_dot_nonempty in E|].
    cbn [bjoin app] in *. now rewrite IH.
Qed.

Lemma split_join_atoms l : l <> [] -> forallb dotfree l = true -> split_dot (bjoin l) = l.
Proof.
  induction l as [|a r IH]; [congruence|]. intros _ Hf. cbn [forallb] in Hf.
  apply andb_true_iff in Hf as [Ha Hr]. destruct r as [|b r'].
  - cbn [bjoin flat_map]. rewrite app_nil_r. now apply split_dot_atom.
  - change (bjoin (a :: b :: r')) with (a ++ 46 :: bjoin (b :: r')).
    rewrite split_dot_app, (split_dot_atom a Ha), IH by (auto; discriminate). reflexivity.
Qed.

(* (before, after) the last occurrence of k *)
Fixpoint after_last (k : bytes) (l : list bytes) : option (list bytes * list bytes) :=
  match l with
  | [] => None
  | x :: r =>
      match after_last k r with
      | Some (b, a) => Some (x :: b, a)
      | None => if bytes_eqb x k then Some ([], r) else None
      end
  end.

Lemma after_last_none k Q : ~ In k Q -> after_last k Q = None.
Proof.
  induction Q as [|x r IH]; [reflexivity|]. intro Hn. cbn [after_last].
  rewrite IH by (intro; apply Hn; now right).
  destruct (bytes_eqb x k) eqn:E; [|reflexivity]. apply bytes_eqb_eq in E. subst. exfalso. apply Hn. now left.
Qed.

Lemma after_last_app k P Q : ~ In k Q -> after_last k (P ++ k :: Q) = Some (P, Q).
Proof.
  intro Hn. induction P as [|x r IH]; cbn [app after_last].
  - now rewrite (after_last_none k Q Hn), bytes_eqb_refl.
  - now rewrite IH.
Qed.

(* X . from . atoms  determines X and atoms when no atom is "from" or holds a dot *)
Lemma tail_atoms_unique X1 X2 L1 L2 k :
  dotfree k = true ->
  forallb dotfree L1 = true -> forallb dotfree L2 = true -> ~ In k L1 -> ~ In k L2 ->
  X1 ++ 46 :: bjoin (k :: L1) = X2 ++ 46 :: bjoin (k :: L2) -> X1 = X2 /\ L1 = L2.
Proof.
  intros Hk H1 H2 N1 N2 E. apply (f_equal split_dot) in E. rewrite !split_dot_app in E.
  rewrite !split_join_atoms in E by (try discriminate; cbn [forallb]; rewrite Hk; assumption).
  apply (f_equal (after_last k)) in E. rewrite !after_last_app in E by assumption.
  inversion E as [[E1 E2]]. split; [|reflexivity].
  rewrite <- (join_split X1), <- (join_split X2). now rewrite E1.
Qed.

(* ================================================================== *)
(* the shape of the struct pre-image                                    *)
(* ================================================================== *)

Ltac norm_str :=
  repeat match goal with
         | |- context [str ?s] => let v := eval vm_compute in (str s) in change (str s) with v
         end.
Ltac norm_str_in H :=
  repeat match type of H with
         | context [str ?s] => let v := eval vm_compute in (str s) in change (str s) with v in H
         end.

Definition opt_atoms (label : bytes) (o : option bytes) : list bytes :=
  match o with Some s => [label; s] | None => [] end.

(* the dot-separated atoms after ".from." *)
Definition tail_atoms (f : txdata) : list bytes :=
  [to_string (t_from f)]
  ++ opt_atoms (str "nid") (option_map fmt_z (t_nid f))
  ++ opt_atoms (str "nonce") (option_map fmt_z (t_nonce f))
  ++ [str "stepLimit"; fmt_z (t_stepLimit f); str "timestamp"; fmt_z (t_timestamp f);
      str "to"; to_string (t_to f)]
  ++ opt_atoms (str "value") (option_map fmt_z (t_value f))
  ++ [str "version"; fmt_z (Z.of_N (t_version f))].

Definition data_part (d : tdata) : option bytes :=
  match d with
  | DNone => Some []
  | DEmpty => Some (str ".data.")
  | DBad => None
  | DTree j => match ser_value j with Some b => Some (str ".data." ++ b) | None => None end
  end.

Definition head_part (f : txdata) (dp : bytes) : bytes :=
  str "icx_sendTransaction" ++ dp ++ opt_part (str ".dataType.") (t_dataType f).

Lemma pre_struct_shape f p : pre_struct f = Some p ->
  exists dp, data_part (t_data f) = Some dp /\ p = head_part f dp ++ 46 :: bjoin (str "from" :: tail_atoms f).
Proof.
  unfold pre_struct, data_part.
  destruct (t_data f) as [| | |j]; [| |discriminate|destruct (ser_value j) as [b|]; [|discriminate]];
    intro E; injection E as <-; eexists; (split; [reflexivity|]);
  unfold head_part, tail_atoms, opt_atoms, opt_part;
  destruct (t_nid f), (t_nonce f), (t_value f), (t_dataType f); cbn [option_map];
    norm_str; unfold c_dot; cbn [app bjoin flat_map]; rewrite <- ?app_assoc; cbn [app];
    rewrite <- ?app_assoc; rewrite ?app_nil_r; reflexivity.
Qed.

Lemma dotfree_fmt_z z : dotfree (fmt_z z) = true.
Proof. apply plain_dotfree, fmt_z_plain. Qed.
Lemma dotfree_to_string a : addr_ok a = true -> dotfree (to_string a) = true.
Proof. intro Ha. now apply plain_dotfree, to_string_plain. Qed.

Lemma tail_atoms_dotfree f : addr_ok (t_from f) = true -> addr_ok (t_to f) = true ->
  forallb dotfree (tail_atoms f) = true.
Proof.
  intros H1 H2. unfold tail_atoms, opt_atoms.
  destruct (t_nid f), (t_nonce f), (t_value f); cbn [option_map app forallb];
    rewrite ?dotfree_fmt_z, ?(dotfree_to_string _ H1), ?(dotfree_to_string _ H2); reflexivity.
Qed.

Lemma fmt_z_not_label z s : (match s with c :: _ => negb (c =? 45) && negb (c =? 48) | [] => true end) = true ->
  fmt_z z <> s.
Proof.
  unfold fmt_z. intros Hs E. destruct (z <? 0)%Z.
  - change (str "-0x") with [45; 48; 120] in E. cbn [app] in E. subst s. discriminate.
  - change (str "0x") with [48; 120] in E. cbn [app] in E. subst s. discriminate.
Qed.

Lemma to_string_not_label a s : (match s with c :: _ => negb (c =? 99) && negb (c =? 104) | [] => true end) = true ->
  to_string a <> s.
Proof. unfold to_string, c_c, c_h. intros Hs E. subst s. destruct (a_contract a); discriminate. Qed.

Lemma tail_atoms_nofrom f : ~ In (str "from") (tail_atoms f).
Proof.
  assert (Hz : forall z, fmt_z z <> str "from") by (intro z; apply fmt_z_not_label; reflexivity).
  assert (Ha : forall a, to_string a <> str "from") by (intro a; apply to_string_not_label; reflexivity).
  unfold tail_atoms, opt_atoms.
  destruct (t_nid f), (t_nonce f), (t_value f); cbn [option_map app In]; intro Hin;
    repeat (destruct Hin as [Hin|Hin]; [try (now apply Hz in Hin); try (now apply Ha in Hin); try discriminate Hin|]);
    try contradiction.
Qed.

(* ================================================================== *)
(* injectivity of the struct pre-image                                  *)
(* ================================================================== *)

Lemma lex_dot_cons r : lex (46 :: r) = TDot :: lex r.
Proof. reflexivity. Qed.

(* two printed values followed by nothing or by a dot: same value, same remainder *)
Lemma tokens_prefix_inj n1 n2 r1 r2 : nf n1 = true -> nf n2 = true ->
  (r1 = [] \/ exists x, r1 = 46 :: x) -> (r2 = [] \/ exists x, r2 = 46 :: x) ->
  unlex (tser n1) ++ r1 = unlex (tser n2) ++ r2 -> n1 = n2 /\ r1 = r2.
Proof.
  intros N1 N2 R1 R2 E. apply (f_equal lex) in E.
  rewrite !lex_unlex_app in E by apply good_tser.
  assert (D1 : delim_start (lex r1)) by (destruct R1 as [->|[x ->]]; cbn; exact I).
  assert (D2 : delim_start (lex r2)) by (destruct R2 as [->|[x ->]]; cbn; exact I).
  pose proof (parse_roundtrip n1 N1 (jsize n1 + jsize n2) (lex r1) ltac:(lia) D1) as P1.
  pose proof (parse_roundtrip n2 N2 (jsize n1 + jsize n2) (lex r2) ltac:(lia) D2) as P2.
  rewrite E in P1. rewrite P1 in P2. injection P2 as E1 E2. split; [exact E1|]. now apply lex_inj.
Qed.

(* what of the data enters the id *)
Definition data_key (d : tdata) : option json :=
  match d with
  | DNone | DBad => None
  | DEmpty => Some (JStr [])          (* ".data." followed by nothing, like the empty string *)
  | DTree j => Some (norm j)
  end.
Definition data_icon (d : tdata) : bool :=
  match d with DTree j => icon j | DBad => false | _ => true end.

Lemma data_part_key d dp : data_icon d = true -> data_part d = Some dp ->
  match data_key d with
  | None => dp = []
  | Some n => dp = str ".data." ++ unlex (tser n) /\ nf n = true
  end.
Proof.
  destruct d as [| | |j]; cbn [data_icon data_part data_key]; intros Hi E; try discriminate.
  - now inversion E.
  - inversion E. split; [now rewrite app_nil_r|reflexivity].
  - rewrite (ser_value_tokens j Hi) in E. inversion E. split; [reflexivity|now apply nf_norm].
Qed.

Record same_signed (f1 f2 : txdata) : Prop := {
  ss_from : t_from f1 = t_from f2;
  ss_to : t_to f1 = t_to f2;
  ss_value : t_value f1 = t_value f2;
  ss_step : t_stepLimit f1 = t_stepLimit f2;
  ss_ts : t_timestamp f1 = t_timestamp f2;
  ss_nid : t_nid f1 = t_nid f2;
  ss_nonce : t_nonce f1 = t_nonce f2;
  ss_version : t_version f1 = t_version f2;
  ss_dataType : t_dataType f1 = t_dataType f2;
  ss_data : data_key (t_data f1) = data_key (t_data f2)
}.

Lemma opt_fmt_inj a b : option_map fmt_z a = option_map fmt_z b -> a = b.
Proof. destruct a, b; cbn; intro E; inversion E; [|reflexivity]. f_equal. now apply fmt_z_inj. Qed.

Lemma tail_atoms_inj f1 f2 :
  addr_ok (t_from f1) = true -> addr_ok (t_from f2) = true ->
  addr_ok (t_to f1) = true -> addr_ok (t_to f2) = true ->
  tail_atoms f1 = tail_atoms f2 ->
  t_from f1 = t_from f2 /\ t_to f1 = t_to f2 /\ t_value f1 = t_value f2 /\ t_stepLimit f1 = t_stepLimit f2
  /\ t_timestamp f1 = t_timestamp f2 /\ t_nid f1 = t_nid f2 /\ t_nonce f1 = t_nonce f2
  /\ t_version f1 = t_version f2.
Proof.
  intros A1 A2 B1 B2 E. unfold tail_atoms, opt_atoms in E.
  assert (Hz : forall z s, (match s with c :: _ => negb (c =? 45) && negb (c =? 48) | [] => true end) = true ->
                           fmt_z z = s -> False) by (intros z s Hs Ez; exact (fmt_z_not_label z s Hs Ez)).
  assert (Hz' : forall z s, (match s with c :: _ => negb (c =? 45) && negb (c =? 48) | [] => true end) = true ->
                           s = fmt_z z -> False) by (intros z s Hs Ez; exact (fmt_z_not_label z s Hs (eq_sym Ez))).
  destruct (t_nid f1) as [n1|], (t_nid f2) as [n2|], (t_nonce f1) as [m1|], (t_nonce f2) as [m2|],
           (t_value f1) as [v1|], (t_value f2) as [v2|];
    cbn [option_map app] in E;
    repeat match type of E with
           | context [fmt_z ?z] => let x := fresh "fz" in remember (fmt_z z) as x
           | context [to_string ?a] => let x := fresh "ts" in remember (to_string a) as x
           end;
    repeat match type of E with
           | _ :: _ = _ :: _ => let Hh := fresh "Hh" in injection E as Hh E
           end;
    try discriminate E;
    repeat match goal with
           | Hq : ?x = fmt_z _ |- _ => subst x
           | Hq : ?x = to_string _ |- _ => subst x
           end;
    try (exfalso;
         match goal with
         | Hh : str ?a = str ?b |- _ => norm_str_in Hh; discriminate Hh
         | Hh : fmt_z ?z = str ?b |- _ => exact (Hz z (str b) eq_refl Hh)
         | Hh : str ?b = fmt_z ?z |- _ => exact (Hz' z (str b) eq_refl Hh)
         end);
    repeat match goal with
           | Hh : to_string _ = to_string _ |- _ => apply to_string_inj in Hh; [|assumption|assumption]
           | Hh : fmt_z _ = fmt_z _ |- _ => apply fmt_z_inj in Hh
           end;
    repeat split; try congruence; try lia.
Qed.

Theorem pre_struct_inj f1 f2 p :
  addr_ok (t_from f1) = true -> addr_ok (t_from f2) = true ->
  addr_ok (t_to f1) = true -> addr_ok (t_to f2) = true ->
  data_icon (t_data f1) = true -> data_icon (t_data f2) = true ->
  pre_struct f1 = Some p -> pre_struct f2 = Some p -> same_signed f1 f2.
Proof.
  intros A1 A2 B1 B2 I1 I2 P1 P2.
  destruct (pre_struct_shape _ _ P1) as (dp1 & D1 & S1). destruct (pre_struct_shape _ _ P2) as (dp2 & D2 & S2).
  rewrite S1 in S2.
  destruct (tail_atoms_unique _ _ _ _ (str "from") eq_refl (tail_atoms_dotfree f1 A1 B1) (tail_atoms_dotfree f2 A2 B2)
              (tail_atoms_nofrom f1) (tail_atoms_nofrom f2) S2) as [EH ET].
  destruct (tail_atoms_inj f1 f2 A1 A2 B1 B2 ET) as (E1 & E2 & E3 & E4 & E5 & E6 & E7 & E8).
  unfold head_part in EH. apply app_inv_head in EH.
  pose proof (data_part_key _ _ I1 D1) as K1. pose proof (data_part_key _ _ I2 D2) as K2.
  assert (Hfin : t_dataType f1 = t_dataType f2 /\ data_key (t_data f1) = data_key (t_data f2)).
  { unfold opt_part in EH.
    destruct (data_key (t_data f1)) as [n1|], (data_key (t_data f2)) as [n2|].
    - destruct K1 as [-> N1], K2 as [-> N2]. rewrite <- !app_assoc in EH. apply app_inv_head in EH.
      assert (R : forall o : option bytes, (match o with Some s => str ".dataType." ++ s | None => [] end) = []
                    \/ exists x, (match o with Some s => str ".dataType." ++ s | None => [] end) = 46 :: x).
      { intros [s|]; [right|left; reflexivity]. norm_str. cbn [app]. eauto. }
      destruct (tokens_prefix_inj n1 n2 _ _ N1 N2 (R (t_dataType f1)) (R (t_dataType f2)) EH) as [En Er].
      split; [|now rewrite En].
      destruct (t_dataType f1), (t_dataType f2); try reflexivity.
      + apply app_inv_head in Er. now subst.
      + norm_str_in Er. discriminate Er.
      + norm_str_in Er. discriminate Er.
    - destruct K1 as [-> N1]. subst dp2. cbn [app] in EH. exfalso.
      destruct (t_dataType f2); norm_str_in EH; cbn [app] in EH; [|discriminate EH].
      rewrite <- ?app_assoc in EH. cbn [app] in EH. discriminate EH.
    - destruct K2 as [-> N2]. subst dp1. cbn [app] in EH. exfalso.
      destruct (t_dataType f1); norm_str_in EH; cbn [app] in EH; [|discriminate EH].
      rewrite <- ?app_assoc in EH. cbn [app] in EH. discriminate EH.
    - subst dp1 dp2. cbn [app] in EH. split; [|reflexivity].
      destruct (t_dataType f1), (t_dataType f2); try reflexivity.
      + apply app_inv_head in EH. now subst.
      + norm_str_in EH. discriminate EH.
      + norm_str_in EH. discriminate EH. }
  destruct Hfin as [F1 F2]. constructor; assumption.
Qed.

(* ------------------------------------------------------------------ *)
(* converse, and the statement on ids                                   *)
(* ------------------------------------------------------------------ *)

Definition struct_rest (f : txdata) (dp : bytes) : bytes :=
  str "icx_sendTransaction" ++ dp
  ++ opt_part (str ".dataType.") (t_dataType f)
  ++ str ".from." ++ to_string (t_from f)
  ++ opt_part (str ".nid.") (option_map fmt_z (t_nid f))
  ++ opt_part (str ".nonce.") (option_map fmt_z (t_nonce f))
  ++ str ".stepLimit." ++ fmt_z (t_stepLimit f)
  ++ str ".timestamp." ++ fmt_z (t_timestamp f)
  ++ str ".to." ++ to_string (t_to f)
  ++ opt_part (str ".value.") (option_map fmt_z (t_value f))
  ++ str ".version." ++ fmt_z (Z.of_N (t_version f)).

Lemma pre_struct_alt f :
  pre_struct f = match data_part (t_data f) with Some dp => Some (struct_rest f dp) | None => None end.
Proof.
  unfold pre_struct, data_part, struct_rest. destruct (t_data f) as [| | |j]; try reflexivity.
  all: destruct (ser_value j); reflexivity.
Qed.

Lemma data_key_part d1 d2 : data_icon d1 = true -> data_icon d2 = true ->
  data_key d1 = data_key d2 -> data_part d1 = data_part d2.
Proof.
  destruct d1 as [| | |j1], d2 as [| | |j2]; cbn [data_icon data_key data_part]; intros I1 I2 E;
    try discriminate; try reflexivity.
  - inversion E as [En]. rewrite (ser_value_tokens j2 I2), <- En. cbn [tser map unlex flat_map]. now rewrite app_nil_r.
  - inversion E as [En]. rewrite (ser_value_tokens j1 I1), En. cbn [tser map unlex flat_map]. now rewrite app_nil_r.
  - inversion E as [En]. now rewrite (ser_value_norm_eq j1 j2 I1 I2 En).
Qed.

Theorem same_signed_same_pre f1 f2 : data_icon (t_data f1) = true -> data_icon (t_data f2) = true ->
  same_signed f1 f2 -> pre_struct f1 = pre_struct f2.
Proof.
  intros I1 I2 [E1 E2 E3 E4 E5 E6 E7 E8 E9 E10]. rewrite !pre_struct_alt.
  rewrite (data_key_part _ _ I1 I2 E10). unfold struct_rest.
  now rewrite E1, E2, E3, E4, E5, E6, E7, E8, E9.
Qed.

Section StructId.
  Variable H : bytes -> bytes.

  (* two transactions on the struct path with one id have the same signed
     content, or a collision of H is exhibited *)
  Theorem struct_same_id f1 f2 p1 p2 :
    addr_ok (t_from f1) = true -> addr_ok (t_from f2) = true ->
    addr_ok (t_to f1) = true -> addr_ok (t_to f2) = true ->
    data_icon (t_data f1) = true -> data_icon (t_data f2) = true ->
    pre_struct f1 = Some p1 -> pre_struct f2 = Some p2 ->
    id_struct H f1 = id_struct H f2 -> same_signed f1 f2 \/ collision H.
  Proof.
    intros A1 A2 B1 B2 I1 I2 P1 P2 E. unfold id_struct in E. rewrite P1, P2 in E.
    destruct (list_eq_dec N.eq_dec p1 p2) as [Ep|Np].
    - left. subst p2. eapply pre_struct_inj; eauto.
    - right. exists p1, p2. auto.
  Qed.
End StructId.

(* The two hash paths are not injective together: the struct path writes
   dataType without escaping, the JSON-map path escapes it and admits unknown
   keys.  A binary transaction and a JSON transaction with different content and
   the same pre-image (finding F2 of docs/notes/C12.md): *)
Definition ex_f_struct : txdata :=
  {| t_version := 3; t_from := zero_addr; t_to := zero_addr; t_value := None; t_stepLimit := 1%Z;
     t_timestamp := 1%Z; t_nid := None; t_nonce := None; t_sig := SigNone;
     t_dataType := Some (str "message.extra.b"); t_data := DNone |}.
Definition ex_m_json : list (bytes * json) :=
  [(str "version", JStr (str "0x3")); (str "from", JStr (to_string zero_addr)); (str "to", JStr (to_string zero_addr));
   (str "stepLimit", JStr (str "0x1")); (str "timestamp", JStr (str "0x1"));
   (str "dataType", JStr (str "message")); (str "extra", JStr (str "b"))].
Example cross_path_collision :
  pre_struct ex_f_struct = pre_map ex_m_json
  /\ t_dataType ex_f_struct <> Some (str "message").
Proof. split; [vm_compute; reflexivity|vm_compute; discriminate]. Qed.

(* non-vacuity of pre_struct_inj / same_signed: two field records that differ
   only in the spelling of the data (key order, a dropped leading "") *)
Example ex_same_signed :
  let f1 := {| t_version := 3; t_from := zero_addr; t_to := zero_addr; t_value := Some 5%Z; t_stepLimit := 1%Z;
               t_timestamp := 1%Z; t_nid := Some 1%Z; t_nonce := None; t_sig := SigNone;
               t_dataType := Some (str "message");
               t_data := DTree (JObj [(str "b", JList [JStr []; JStr (str "x.y")]); (str "a", JNull)]) |} in
  let f2 := {| t_version := 3; t_from := zero_addr; t_to := zero_addr; t_value := Some 5%Z; t_stepLimit := 1%Z;
               t_timestamp := 1%Z; t_nid := Some 1%Z; t_nonce := None; t_sig := SigNone;
               t_dataType := Some (str "message");
               t_data := DTree (JObj [(str "a", JNull); (str "b", JList [JStr (str "x.y")])]) |} in
  pre_struct f1 = pre_struct f2 /\ pre_struct f1 <> None /\ t_data f1 <> t_data f2
  /\ addr_ok (t_from f1) = true /\ data_icon (t_data f1) = true.
Proof. cbv zeta. split; [vm_compute; reflexivity|]. split; [vm_compute; discriminate|]. split; [discriminate|]. split; reflexivity. Qed.

(* ================================================================== *)
(* The property at full strength is refuted by the implemented format:  *)
(* witnesses (known findings F1, F2/F3 and the number printing)          *)
(* ================================================================== *)

Lemma same_pre_same_id (H : bytes -> bytes) (dec : bytes -> option bytes) m1 m2 t1 t2 :
  pre_map m1 = pre_map m2 ->
  from_json H dec (JObj m1) = Ok t1 -> from_json H dec (JObj m2) = Ok t2 -> id H t1 = id H t2.
Proof.
  intros E F1 F2. destruct (from_json_id H dec _ _ F1) as (p1 & P1 & I1).
  destruct (from_json_id H dec _ _ F2) as (p2 & P2 & I2). congruence.
Qed.

Definition is_ok {A} (r : result A) : bool := match r with Ok _ => true | _ => false end.
Lemma is_ok_exists {A} (r : result A) : is_ok r = true -> exists t, r = Ok t.
Proof. destruct r; try discriminate. eauto. Qed.

Definition wit_map (data : json) : list (bytes * json) :=
  [(str "version", JStr (str "0x3")); (str "from", JStr ex_addr); (str "to", JStr ex_addr);
   (str "stepLimit", JStr (str "0x186a0")); (str "timestamp", JStr (str "0x1"));
   (str "signature", JStr ex_sig); (str "dataType", JStr (str "message")); (str "data", data)].

(* what "changing any signed field changes the id" would say for JSON submissions *)
Definition data_change_changes_id (d1 d2 : json) : Prop :=
  d1 <> d2 ->
  forall (H : bytes -> bytes) (dec : bytes -> option bytes) t1 t2,
    from_json H dec (JObj (wit_map d1)) = Ok t1 -> from_json H dec (JObj (wit_map d2)) = Ok t2 ->
    id H t1 = id H t2 -> collision H.

(* F1: ["","a"] against ["a"] — both accepted, different data, one id for every H *)
Theorem leading_empty_refuted :
  let d1 := JList [JStr []; JStr (str "a")] in let d2 := JList [JStr (str "a")] in
  d1 <> d2
  /\ (forall (H : bytes -> bytes) dec t1 t2,
        from_json H dec (JObj (wit_map d1)) = Ok t1 -> from_json H dec (JObj (wit_map d2)) = Ok t2 ->
        id H t1 = id H t2)
  /\ (exists t1 t2, from_json ex_H ex_dec (JObj (wit_map d1)) = Ok t1
                    /\ from_json ex_H ex_dec (JObj (wit_map d2)) = Ok t2)
  /\ ~ data_change_changes_id d1 d2.
Proof.
  cbv zeta.
  assert (E : pre_map (wit_map (JList [JStr []; JStr (str "a")])) = pre_map (wit_map (JList [JStr (str "a")])))
    by (vm_compute; reflexivity).
  assert (X : exists t1 t2, from_json ex_H ex_dec (JObj (wit_map (JList [JStr []; JStr (str "a")]))) = Ok t1
                    /\ from_json ex_H ex_dec (JObj (wit_map (JList [JStr (str "a")]))) = Ok t2).
  { destruct (is_ok_exists (from_json ex_H ex_dec (JObj (wit_map (JList [JStr []; JStr (str "a")]))))) as [t1 E1];
      [vm_compute; reflexivity|].
    destruct (is_ok_exists (from_json ex_H ex_dec (JObj (wit_map (JList [JStr (str "a")]))))) as [t2 E2];
      [vm_compute; reflexivity|]. eauto. }
  split; [discriminate|]. split; [intros; eapply same_pre_same_id; eauto|]. split; [exact X|].
  intro Hp. destruct X as (t1 & t2 & E1 & E2).
  destruct (Hp ltac:(discriminate) ex_H ex_dec t1 t2 E1 E2 (same_pre_same_id _ _ _ _ _ _ E E1 E2)) as (p & q & Npq & Epq).
  apply Npq. exact Epq.
Qed.

(* the number printing: {"a":1} (also 1.5) against {"a":"1"} *)
Theorem number_string_refuted :
  let d1 := JObj [(str "a", JNum 1)] in let d2 := JObj [(str "a", JStr (str "1"))] in
  d1 <> d2
  /\ (forall (H : bytes -> bytes) dec t1 t2,
        from_json H dec (JObj (wit_map d1)) = Ok t1 -> from_json H dec (JObj (wit_map d2)) = Ok t2 ->
        id H t1 = id H t2)
  /\ (exists t1 t2, from_json ex_H ex_dec (JObj (wit_map d1)) = Ok t1
                    /\ from_json ex_H ex_dec (JObj (wit_map d2)) = Ok t2).
Proof.
  cbv zeta.
  assert (E : pre_map (wit_map (JObj [(str "a", JNum 1)])) = pre_map (wit_map (JObj [(str "a", JStr (str "1"))])))
    by (vm_compute; reflexivity).
  split; [discriminate|]. split; [intros; eapply same_pre_same_id; eauto|].
  destruct (is_ok_exists (from_json ex_H ex_dec (JObj (wit_map (JObj [(str "a", JNum 1)]))))) as [t1 E1];
    [vm_compute; reflexivity|].
  destruct (is_ok_exists (from_json ex_H ex_dec (JObj (wit_map (JObj [(str "a", JStr (str "1"))]))))) as [t2 E2];
    [vm_compute; reflexivity|]. eauto.
Qed.

(* F2: a stored transaction (struct path) and a JSON transaction with another
   dataType and an extra field: one id for every H; the stored form is well
   formed (it round-trips through the binary form) and the JSON one is accepted *)
Theorem datatype_unescaped_refuted :
  t_dataType ex_f_struct = Some (str "message.extra.b")
  /\ lookup (str "dataType") ex_m_json = Some (JStr (str "message"))
  /\ wf_fields ex_f_struct = true /\ wf_sig (t_sig ex_f_struct) = true
  /\ (forall (H : bytes -> bytes) dec t,
        from_json H dec (JObj ex_m_json) = Ok t -> id H t = id H (TxStruct ex_f_struct))
  /\ (exists t, from_json ex_H ex_dec (JObj ex_m_json) = Ok t).
Proof.
  split; [reflexivity|]. split; [reflexivity|]. split; [reflexivity|]. split; [reflexivity|]. split.
  - intros H dec t F. destruct (from_json_id H dec _ _ F) as (p & P & I). rewrite I. cbn [id]. unfold id_struct.
    destruct cross_path_collision as [E _]. rewrite E, P. reflexivity.
  - apply is_ok_exists. vm_compute. reflexivity.
Qed.

(* F3: the stored transaction's own JSON form (dataType escaped by the map path)
   has another pre-image *)
Example datatype_json_trip_differs :
  match to_json ex_H (fun b => b) (TxStruct ex_f_struct) with
  | Some (JObj m) => pre_map m <> pre_struct ex_f_struct /\ pre_map m <> None
  | _ => False
  end.
Proof. vm_compute. split; discriminate. Qed.
