(* Property C30 — P2P packet framing round-trips and detects corruption.
   This file holds only the property theorems; proofs are in Proofs_Packet.v.
   encode/parse are instantiated with the FNV-1a-64 model fnv1a. *)
From Goloop Require Import lib.Bytes Model_Packet Proofs_Packet.
From Goloop Require Import Link_C30.

(* any sequence of well-formed packets written back to back is read back unchanged,
   and the loop then stops on a clean end of stream *)
Theorem C30_stream_roundtrip : forall ps, Forall wf ps ->
  parse_stream fnv1a (concat (map (encode fnv1a) ps)) = (ps, StopEOF).
Proof. exact (stream_roundtrip fnv1a fnv1a_lt). Qed.
Print Assumptions C30_stream_roundtrip.

(* the _read loop over ANY chunking (any list of chunks, empty ones included, of ANY
   byte stream, valid or not) yields what the contiguous stream yields *)
Theorem C30_chunking_irrelevant : forall chunks,
  parse_chunked fnv1a chunks = parse_stream fnv1a (concat chunks).
Proof. exact (chunking_irrelevant fnv1a). Qed.
Print Assumptions C30_chunking_irrelevant.

Theorem C30_chunked_roundtrip : forall ps chunks, Forall wf ps ->
  concat chunks = concat (map (encode fnv1a) ps) -> parse_chunked fnv1a chunks = (ps, StopEOF).
Proof. exact chunked_roundtrip. Qed.
Print Assumptions C30_chunked_roundtrip.

(* substituting one byte of the header (length field excluded), of the payload or of
   the stored hash of a packet anywhere in a stream: the packets before it are
   delivered, the packet is rejected (hash mismatch) and the loop stops *)
Theorem C30_single_byte_detected : forall pre p post i b b',
  Forall wf pre -> wf p -> covered p i = true ->
  nth_error (encode fnv1a p) i = Some b -> (b' < 256)%N -> b' <> b ->
  parse_stream fnv1a (concat (map (encode fnv1a) pre) ++ subst_at i b' (encode fnv1a p) ++ post)
  = (pre, StopBad).
Proof. exact single_byte_detected. Qed.
Print Assumptions C30_single_byte_detected.

(* the hash function fact behind it: FNV-1a-64 separates any two byte strings that
   differ in exactly one position *)
Theorem C30_fnv1a_one_byte : forall l i b b',
  bytes_ok l = true -> nth_error l i = Some b -> (b' < 256)%N -> b' <> b ->
  fnv1a (subst_at i b' l) <> fnv1a l.
Proof. exact fnv1a_subst_neq. Qed.
Print Assumptions C30_fnv1a_one_byte.

(* by-design limit, stated exactly: a changed extension byte is accepted *)
Theorem C30_ext_byte_undetected : forall p j b',
  wf p -> (j < length (p_ext p))%nat -> (b' < 256)%N ->
  parse_stream fnv1a (subst_at (40 + length (p_payload p) + j) b' (encode fnv1a p))
  = ([with_ext p (subst_at j b' (p_ext p))], StopEOF).
Proof. exact ext_byte_undetected. Qed.
Print Assumptions C30_ext_byte_undetected.

(* the loop's fuel is never the reason it stops *)
Theorem C30_parse_total : forall s, snd (parse_stream fnv1a s) <> StopFuel.
Proof. exact (parse_stream_never_out_of_fuel fnv1a). Qed.
Print Assumptions C30_parse_total.

(* the correspondence run evaluates with fnv1a_fast *)
Theorem C30_fast_hash_agrees : forall bs, fnv1a_fast bs = fnv1a bs.
Proof. exact fnv1a_fast_eq. Qed.
Print Assumptions C30_fast_hash_agrees.

(* ---- kernel links (Link_C30.v).  The three kernels are re-generated from
   network/packet.go on every run (tools/go2coq); the extendInfo word of the model
   (written by encode, split by parse) IS the bit packing of the current Go code.
   packetDestInfo (dead code in packet.go) has no counterpart in the model ---- *)
Theorem C30_kernel_newPacketExtendInfo : forall p, wf p ->
  Z.of_N (extinfo p) = newPacketExtendInfo (Z.of_N (p_hint p)) (Z.of_N (lenN (p_ext p))).
Proof. exact extinfo_is_newPacketExtendInfo_wf. Qed.
Print Assumptions C30_kernel_newPacketExtendInfo.

Theorem C30_kernel_packetExtendInfoLen : forall f,
  Z.of_N (ext_len f) = packetExtendInfoLen (Z.of_N (be_val (skipn 8 f))).
Proof. exact ext_len_is_packetExtendInfoLen. Qed.
Print Assumptions C30_kernel_packetExtendInfoLen.

Theorem C30_kernel_packetExtendInfoHint :
  forall (H : bytes -> N) (R : Type) (h pl f ex : bytes) (rest rest' : R) (p : packet),
  (be_val (skipn 8 f) < 65536)%N ->
  assemble H h pl f ex rest = ROk p rest' ->
  Z.of_N (p_hint p) = packetExtendInfoHint (Z.of_N (be_val (skipn 8 f))).
Proof. exact assemble_hint_is_packetExtendInfoHint. Qed.
Print Assumptions C30_kernel_packetExtendInfoHint.

Theorem C30_kernel_params : Link_C30.kernel_params_pinned.
Proof. exact Link_C30.kernel_params_ok. Qed.
Print Assumptions C30_kernel_params.

(* relay hops can grow the extension past the 10-bit length field (sendToFriends): WriteTo writes
   only the announced len mod 1024 bytes, so the framing stays intact — the reader gets the packet
   with the cut extension (norm_ext) and every following packet unchanged *)
Theorem C30_oversize_ext_keeps_framing : forall pre p post,
  Forall wf pre -> wf (norm_ext p) -> Forall wf post ->
  parse_stream fnv1a (concat (map (encode fnv1a) pre) ++ encode fnv1a p ++ concat (map (encode fnv1a) post))
  = (pre ++ norm_ext p :: post, StopEOF).
Proof. exact oversize_ext_stream. Qed.
Print Assumptions C30_oversize_ext_keeps_framing.
