(* Property C10 — Block execution never silently drops a transaction.
   This file holds only the property theorems; proofs are in Proofs_BlockExec.v.
   slots_match k txs s rs :=  length rs = length txs /\
     forall i < length txs, exists r, nth_error rs i = Some (Some r) /\ receipt_of k txs s i = Some r. *)
From Coq Require Import List Arith NArith.
From Goloop Require Import Model_BlockExec Proofs_BlockExec.
Import ListNotations.

(* sequential mode: an error, or exactly one receipt per transaction, in block order *)
Theorem C10_seq_all_or_error : forall skipping txs s,
  exec_seq skipping txs s = Err \/
  exists rs, exec_seq skipping txs s = Ok rs /\ length rs = length txs /\
    forall i, i < length txs -> exists r, nth_error rs i = Some (Some r) /\ receipt_of skipping txs s i = Some r.
Proof. exact seq_all_or_error. Qed.
Print Assumptions C10_seq_all_or_error.

(* concurrent mode, any level, any script, ANY schedule under which the function returns *)
Theorem C10_conc_all_or_error : forall level txs s sched,
  complete level txs s sched ->
  exec_conc level txs s sched = Err \/
  exists rs, exec_conc level txs s sched = Ok rs /\ length rs = length txs /\
    forall i, i < length txs -> exists r, nth_error rs i = Some (Some r) /\ receipt_of false txs s i = Some r.
Proof. exact conc_all_or_error. Qed.
Print Assumptions C10_conc_all_or_error.

(* a transaction that ends with a non-retryable error or exhausts its retries fails the block *)
Theorem C10_fatal_fails_block_seq : forall skipping txs s,
  (exists i t, nth_error txs i = Some t /\ must_run skipping t /\ tx_fails (s i)) ->
  exec_seq skipping txs s = Err.
Proof. exact seq_fatal_fails_block. Qed.
Print Assumptions C10_fatal_fails_block_seq.

Theorem C10_fatal_fails_block_conc : forall level txs s sched,
  complete level txs s sched ->
  (exists i, i < length txs /\ tx_fails (s i)) ->
  exec_conc level txs s sched = Err.
Proof. exact conc_fatal_fails_block. Qed.
Print Assumptions C10_fatal_fails_block_conc.

(* a completed concurrent execution returns exactly what sequential execution returns *)
Theorem C10_conc_equiv_seq : forall level txs s sched,
  complete level txs s sched -> exec_conc level txs s sched = exec_seq false txs s.
Proof. exact conc_equiv_seq. Qed.
Print Assumptions C10_conc_equiv_seq.

Theorem C10_conc_equiv_seq_on_success : forall level txs s sched,
  no_tx_fails txs s -> complete level txs s sched ->
  exists rs, exec_conc level txs s sched = Ok rs /\ exec_seq false txs s = Ok rs /\ slots_match false txs s rs.
Proof. exact conc_equiv_seq_on_success. Qed.
Print Assumptions C10_conc_equiv_seq_on_success.

(* executeTxs (the mode switch) *)
Theorem C10_all_or_error : forall skipping level txs s sched,
  complete_txs skipping level txs s sched ->
  exec_txs skipping level txs s sched = Err \/
  exists rs, exec_txs skipping level txs s sched = Ok rs /\ slots_match skipping txs s rs.
Proof. exact txs_all_or_error. Qed.
Print Assumptions C10_all_or_error.

Theorem C10_fatal_fails_block : forall skipping level txs s sched,
  complete_txs skipping level txs s sched ->
  (exists i t, nth_error txs i = Some t /\ must_run skipping t /\ tx_fails (s i)) ->
  exec_txs skipping level txs s sched = Err.
Proof. exact txs_fatal_fails_block. Qed.
Print Assumptions C10_fatal_fails_block.

(* the declarative reading of "fails" agrees with the attempt loop *)
Theorem C10_tx_fails_iff : forall sc, run_tx sc = TxFail <-> tx_fails sc.
Proof. exact run_tx_fail_iff. Qed.
Print Assumptions C10_tx_fails_iff.

(* while executeTxsConcurrent has not returned some goroutine can take a step *)
Theorem C10_no_deadlock : forall level txs s sched,
  1 <= level ->
  is_done (final_state current level txs s sched) = false ->
  exists a st', step current (length txs) s (final_state current level txs s sched) a = Some st'.
Proof. exact no_deadlock. Qed.
Print Assumptions C10_no_deadlock.

(* every partial execution can be run to completion: `complete` is satisfiable from any prefix *)
Theorem C10_complete_extension : forall level txs s sched,
  1 <= level -> exists more, complete level txs s (sched ++ more).
Proof. exact complete_extension. Qed.
Print Assumptions C10_complete_extension.

(* the code before commit b7219de drops a transaction (both halves, each on its own) *)
Theorem C10_prefix_both_refuted : dropped prefix_both.
Proof. exact prefix_both_refuted. Qed.
Print Assumptions C10_prefix_both_refuted.

Theorem C10_prefix_report_only_refuted : dropped prefix_report_only.
Proof. exact prefix_report_only_refuted. Qed.
Print Assumptions C10_prefix_report_only_refuted.

Theorem C10_prefix_return_only_refuted : dropped prefix_return_only.
Proof. exact prefix_return_only_refuted. Qed.
Print Assumptions C10_prefix_return_only_refuted.

(* the order Report-before-Commit in the worker is essential: with the two calls swapped
   (everything else as in the current code) a failing transaction can be dropped *)
Theorem C10_commit_before_report_refuted : dropped commit_before_report.
Proof. exact commit_before_report_refuted. Qed.
Print Assumptions C10_commit_before_report_refuted.
