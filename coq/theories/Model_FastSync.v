(* Model_FastSync.v — consensus/consensus.go processBlock on a node that may
   already hold precommits of the list's round (gossip, earlier block results):
   the votes of the list are ADDED to the precommit vote set of that round
   (Model_VoteSet: one slot per validator, replacement rules of voteSet.add),
   then getOverTwoThirdsPartSetID must report a decision, and the part-set id of
   THAT decision — not the id named in the list — must be the id of the
   delivered block's part set.  No proofs here.

   Decisions are the abstract ids of Model_VoteSet (0 = nil vote).  `good d`
   says that the part-set id of decision d is the delivered block's. *)
From Goloop Require Import lib.Bytes Model_VoteSet Model_CommitVoteList.
Open Scope Z_scope.

(* the precommit that toVoteList rebuilds from one item of the list *)
Definition list_vote (h r : Z) (dl : N) (ts : Z) : vote := mkVote dl ts h r 1.

Definition list_ops (h r : Z) (dl : N) (idxs : list nat) (tss : list Z) : list op :=
  map (fun it => OAdd (fst it) (list_vote h r dl (snd it))) (combine idxs tss).

(* prior: the adds that built the node's vote set of round r so far;
   idxs: validator positions of the items (None: some item is not a validator's
   signature for this block — toVoteList refuses the list); tss: item timestamps.
   true = br.Consume(), false = br.Reject() *)
Definition fs_process (n : nat) (prior : list op) (h r : Z) (dl : N) (good : N -> bool)
           (idxs : option (list nat)) (tss : list Z) : bool :=
  match idxs with
  | None => false
  | Some is_ =>
      match run n (prior ++ list_ops h r dl is_ tss) with
      | None => false
      | Some s =>
          match over23_psid s with
          | Some (Some d, true) => good d
          | _ => false
          end
      end
  end.

(* with the signature ground truth of the correspondence run *)
Definition gt_fs_process (prior : list (nat * N * Z)) (h r : Z) (bid : bytes) (ps : psid)
           (dl : N) (good : list N) (vals : list nat) (items : list (Z * gsig)) : bool :=
  fs_process (length vals)
             (map (fun p => OAdd (fst (fst p)) (list_vote h r (snd (fst p)) (snd p))) prior)
             h r dl (fun d => existsb (N.eqb d) good)
             (indices gaddr_eqb gt_recover (item_msg h r bid ps) (map Key vals) items)
             (map fst items).
