(* Proofs_ConsensusNode_C01.v — node-level half of C01 (agreement): every
   decision the engine model takes that matters for agreement satisfies the
   guard of the abstract protocol (Spec_Tendermint.v), for ALL event histories
   including crashes and restarts.

   The model keeps a ghost log [glog] (Model_ConsensusNode.v, [gev]): one entry
   for every own vote the engine decides to send (with its lock at that moment),
   every lock, every unlock (with the lock that is dropped and the prevote set
   it acted on) and every enterCommit (with the precommit set).  The invariant
   [InvD] says that every entry is justified:

     GVote r Prevote d (Some (lr, b))   d = Some b        (locked => prevote the locked block)
     GVote r Precommit (Some b) lk      lk = Some (r, b)  (a block precommit locks (r, b))
     GLock r b ev                       ev = +2/3 prevotes of round r for b
     GUnlock lr b r w ev                lr <= r, w <> Some b, ev = +2/3 prevotes of round r for w
     GCommit b r ev                     ev = +2/3 precommits of round r for b

   where "ev = +2/3 ... of round r for w" means: ev has one slot per validator,
   the vote in slot i is signed by validator i, is of round r and of the right
   type, and more than 2n/3 slots vote w.  A block is finalized ([decided]) only
   if a GCommit entry for it exists. *)
From Coq Require Import List ZArith NArith Bool Arith Lia.
From Goloop Require Import Model_ConsensusNode Proofs_ConsensusNode.
Import ListNotations.
Open Scope Z_scope.

Set Implicit Arguments.

(* ------------------------------------------------------------------ vote sets *)

Definition vs_wf (n : nat) (r : Z) (t : vtype) (vs : vset) : Prop :=
  length vs = n /\
  forall i v, nth_error vs i = Some (Some v) -> v_from v = Z.of_nat i /\ v_round v = r /\ v_type v = t.

Definition hvs_wf (n : nat) (h : hvs_t) : Prop :=
  forall r p, In (r, p) h -> vs_wf n r Prevote (fst p) /\ vs_wf n r Precommit (snd p).

(* more than 2n/3 of the n slots of ev hold a vote for w, all of round r and type t *)
Definition quorum_ev (n : nat) (r : Z) (t : vtype) (w : option N) (ev : vset) : Prop :=
  vs_wf n r t ev /\ over23 (vs_count_dec ev w) n = true.

Definition gev_ok (n : nat) (e : gev) : Prop :=
  match e with
  | GVote r Prevote d (Some (lr, b)) => d = Some b
  | GVote r Precommit (Some b) lk => lk = Some (r, b)
  | GVote _ _ _ _ => True
  | GLock r b ev => quorum_ev n r Prevote (Some b) ev
  | GUnlock lr b r w ev => lr <= r /\ w <> Some b /\ quorum_ev n r Prevote w ev
  | GCommit b r ev => quorum_ev n r Precommit (Some b) ev
  end.

(* lock WAL records: the vote lists are prevote lists (writeLockWAL writes the polka) *)
Definition lockrec_ok (r : wrec) : Prop :=
  match r with
  | RVoteList l => forall v, In v l -> v_type v = Prevote
  | _ => True
  end.

Lemma vs_list_in vs v : In v (vs_list vs) -> exists i, nth_error vs i = Some (Some v).
Proof.
  unfold vs_list. intro H. apply in_flat_map in H as [[u|] [H1 H2]]; [|contradiction].
  destruct H2 as [->|[]]. apply In_nth_error in H1. exact H1.
Qed.

Lemma vs_list_type n r t vs v : vs_wf n r t vs -> In v (vs_list vs) -> v_type v = t.
Proof. intros [_ W] H. apply vs_list_in in H as [i H]. apply W in H. tauto. Qed.

Lemma vs_wf_empty n r t : vs_wf n r t (vs_empty n).
Proof.
  split; [apply repeat_length|]. intros i v H. exfalso.
  unfold vs_empty in H. assert (In (Some v) (repeat None n)) by (eapply nth_error_In; eauto).
  apply repeat_spec in H0. discriminate.
Qed.

Lemma set_nth_length {A} i (x : A) l : length (set_nth i x l) = length l.
Proof. revert i; induction l; intros [|i]; cbn; auto. Qed.

Lemma nth_error_set_nth {A} i j (x : A) l :
  nth_error (set_nth i x l) j = if Nat.eqb i j then (if Nat.ltb i (length l) then Some x else None) else nth_error l j.
Proof.
  revert i j; induction l as [|a l IH]; intros [|i] [|j]; cbn; auto.
  - destruct (Nat.eqb i j); reflexivity.
  - rewrite IH. destruct (Nat.eqb i j); auto.
Qed.

Lemma vs_add_wf n r t vs i v :
  vs_wf n r t vs -> v_from v = Z.of_nat i -> v_round v = r -> v_type v = t -> vs_wf n r t (snd (vs_add vs i v)).
Proof.
  intros [L W] Hf Hr Ht. unfold vs_add.
  assert (S : vs_wf n r t (set_nth i (Some v) vs)).
  { split; [rewrite set_nth_length; auto|]. intros j u H. rewrite nth_error_set_nth in H.
    destruct (Nat.eqb i j) eqn:E.
    - apply Nat.eqb_eq in E; subst j. destruct (Nat.ltb i (length vs)); inversion H; subst; auto.
    - apply W; auto. }
  destruct (nth_error vs i) as [[o|]|]; cbn; auto; [|split; auto].
  destruct (vote_eqb o v); cbn; [split; auto|].
  destruct (vs_over23 vs) as [d|]; cbn; auto. destruct (dec_eqb d (v_dec o)); cbn; auto. split; auto.
Qed.

Lemma hvs_get_wf n h r : hvs_wf n h -> vs_wf n r Prevote (fst (hvs_get n h r)) /\ vs_wf n r Precommit (snd (hvs_get n h r)).
Proof.
  induction h as [|[r' p] h IH]; intro W; cbn.
  - split; apply vs_wf_empty.
  - destruct (Z.eqb r r') eqn:E.
    + apply Z.eqb_eq in E; subst r'. apply (W r p). left; auto.
    + apply IH. intros r0 p0 H. apply W. right; auto.
Qed.

Lemma hvs_for_wf n h r t : hvs_wf n h -> vs_wf n r t (hvs_for n h r t).
Proof. intro W. unfold hvs_for. destruct (hvs_get_wf r W). destruct t; auto. Qed.

Lemma hvs_set_wf n h r p :
  hvs_wf n h -> vs_wf n r Prevote (fst p) -> vs_wf n r Precommit (snd p) -> hvs_wf n (hvs_set h r p).
Proof.
  induction h as [|[r' q] h IH]; intros W A B; cbn.
  - intros r0 p0 [E|[]]. inversion E; subst. auto.
  - destruct (Z.eqb r r') eqn:E.
    + intros r0 p0 [E0|H]; [inversion E0; subst; auto|]. apply W; right; auto.
    + intros r0 p0 [E0|H]; [apply W; left; auto|].
      revert H. apply IH; auto. intros r1 p1 H1. apply W; right; auto.
Qed.

Lemma hvs_add_wf n h i v :
  hvs_wf n h -> v_from v = Z.of_nat i -> hvs_wf n (snd (hvs_add n h i v)).
Proof.
  intros W Hf. unfold hvs_add. destruct (hvs_get_wf (v_round v) W) as [A B].
  destruct (v_type v) eqn:T.
  - destruct (vs_add (fst (hvs_get n h (v_round v))) i v) as [a s] eqn:E. cbn.
    apply hvs_set_wf; cbn; auto.
    change s with (snd (a, s)). rewrite <- E. apply vs_add_wf; auto.
  - destruct (vs_add (snd (hvs_get n h (v_round v))) i v) as [a s] eqn:E. cbn.
    apply hvs_set_wf; cbn; auto.
    change s with (snd (a, s)). rewrite <- E. apply vs_add_wf; auto.
Qed.

Lemma hvs_remove_lower_wf n h a b : hvs_wf n h -> hvs_wf n (hvs_remove_lower h a b).
Proof. intros W r p H. apply filter_In in H as [H _]. apply W; auto. Qed.

Lemma find_some_over vs d :
  vs_over23 vs = Some d -> over23 (vs_count_dec vs d) (length vs) = true.
Proof.
  unfold vs_over23. destruct (find _ vs) as [[v|]|] eqn:F; try discriminate.
  intro E. inversion E; subst. apply find_some in F as [_ F]. exact F.
Qed.

Lemma quorum_of_over23 n r t vs d :
  vs_wf n r t vs -> vs_over23 vs = Some d -> quorum_ev n r t d vs.
Proof.
  intros W O. split; auto. apply find_some_over in O. destruct W as [L _]. rewrite L in O. exact O.
Qed.

(* ------------------------------------------------------------------ the invariant *)

Section InvD.
  Variable n : nat.
  Variable own : Z.
  Variable blocks : list blk.

  Record InvD (s : st) : Prop := {
    d_hvs : hvs_wf n (hvs s);
    d_log : Forall (gev_ok n) (glog s);
    d_lk : locked s <> None -> locked_round s <= round s;
    d_imp : forall r b, imp_req s = Some (r, b) ->
              r <= round s /\ (r = round s -> (step_code (stp s) <= 5)%N -> locked s = None);
    d_commit : stp s = SCommit -> exists b r ev, bps_id (cur s) = Some b /\ In (GCommit b r ev) (glog s);
    d_dec : forall b, decided s = Some b -> exists r ev, In (GCommit b r ev) (glog s);
    d_lockwal : Forall lockrec_ok (wal_all (wal_l s))
  }.

  (* steps that leave everything InvD reads unchanged *)
  Record dsame (s s' : st) : Prop := {
    ds_hvs : hvs s' = hvs s; ds_glog : glog s' = glog s; ds_locked : locked s' = locked s;
    ds_lr : locked_round s' = locked_round s; ds_round : round s' = round s; ds_stp : stp s' = stp s;
    ds_imp : imp_req s' = imp_req s; ds_cur : bps_id (cur s') = bps_id (cur s); ds_dec : decided s' = decided s;
    ds_wall : wal_all (wal_l s') = wal_all (wal_l s)
  }.

  Lemma dsame_refl s : dsame s s.
  Proof. constructor; auto. Qed.

  Lemma dsame_trans a b c : dsame a b -> dsame b c -> dsame a c.
  Proof. intros [] []; constructor; congruence. Qed.

  Lemma InvD_dsame s s' : dsame s s' -> InvD s -> InvD s'.
  Proof.
    intros [] [h l k i c d lw]. constructor; [| | | | | |rewrite ds_wall0; exact lw].
    - rewrite ds_hvs0; auto.
    - rewrite ds_glog0; auto.
    - rewrite ds_locked0, ds_lr0, ds_round0; auto.
    - intros r b. rewrite ds_imp0, ds_round0, ds_stp0, ds_locked0. apply i.
    - rewrite ds_stp0, ds_cur0, ds_glog0. exact c.
    - intro b. rewrite ds_dec0, ds_glog0. apply d.
  Qed.

  Ltac ds_setter := intros [? ? ? ? ? ? ? ? ? ?]; constructor; cbn; auto.

  Lemma ds_set_pol s s' x : dsame s s' -> dsame s (set_pol x s'). Proof. ds_setter. Qed.
  Lemma ds_set_timer s s' x : dsame s s' -> dsame s (set_timer x s'). Proof. ds_setter. Qed.
  Lemma ds_set_bpm s s' x : dsame s s' -> dsame s (set_bpm x s'). Proof. ds_setter. Qed.
  Lemma ds_set_commit_round s s' x : dsame s s' -> dsame s (set_commit_round x s'). Proof. ds_setter. Qed.
  Lemma ds_set_commit_req s s' x : dsame s s' -> dsame s (set_commit_req x s'). Proof. ds_setter. Qed.
  Lemma ds_set_prop_req s s' x : dsame s s' -> dsame s (set_prop_req x s'). Proof. ds_setter. Qed.
  Lemma ds_set_status s s' x : dsame s s' -> dsame s (set_status x s'). Proof. ds_setter. Qed.
  Lemma ds_set_outs s s' x f : dsame s s' -> dsame s (set_outs x f s'). Proof. ds_setter. Qed.
  Lemma ds_set_sent s s' a b : dsame s s' -> dsame s (set_sent a b s'). Proof. ds_setter. Qed.

  Definition not_final (o : out) : bool :=
    match o with OFinalize _ => false | OWrite WLock _ => false | _ => true end.

  Lemma ds_emit s s' o : not_final o = true -> dsame s s' -> dsame s (emit o s').
  Proof.
    intros Q H. eapply dsame_trans; [exact H|]. unfold emit.
    destruct (fuse s') as [[|k]|]; [apply dsame_refl| |];
      (destruct o as [[] ?|[]| | | | | | | | ]; try discriminate Q; constructor; cbn; auto;
       unfold wal_all; cbn; rewrite ?app_nil_r; auto).
  Qed.

  Lemma ds_emit_all s s' l : forallb not_final l = true -> dsame s s' -> dsame s (emit_all l s').
  Proof.
    revert s'; induction l as [|o l IH]; intros s' Q H; cbn in *; auto.
    apply andb_true_iff in Q as [Q1 Q2]. apply IH; auto. apply ds_emit; auto.
  Qed.

  Lemma ds_send_proposal s s' b pol : dsame s s' -> dsame s (send_proposal n blocks b pol s').
  Proof.
    intro H. unfold send_proposal.
    apply ds_emit_all. { induction (all_parts blocks b); cbn; auto. }
    match goal with |- dsame _ (if ?c then _ else _) => destruct c end;
      repeat (apply ds_emit; [reflexivity|]); auto.
  Qed.

  Lemma InvD_emit_lockwrite s r : lockrec_ok r -> InvD s -> InvD (emit (OWrite WLock r) s).
  Proof.
    intros K H. unfold emit. destruct (fuse s) as [[|k]|]; auto;
      destruct H as [h l k0 i c d lw]; constructor; cbn; auto;
      unfold wal_all in *; cbn; rewrite app_assoc; apply Forall_app; split; auto.
  Qed.

  Lemma InvD_write_lock_wal s pv b :
    (forall v, In v (vs_list pv) -> v_type v = Prevote) -> InvD s -> InvD (write_lock_wal blocks pv b s).
  Proof.
    intros K H. unfold write_lock_wal.
    eapply InvD_dsame; [apply ds_emit; [reflexivity|apply dsame_refl]|].
    assert (H1 : InvD (emit (OWrite WLock (RVoteList (vs_list pv))) s)) by (apply InvD_emit_lockwrite; auto).
    revert H1. generalize (emit (OWrite WLock (RVoteList (vs_list pv))) s). generalize (all_parts blocks b).
    induction l as [|i l IH]; intros s1 H1; cbn; auto.
    apply IH. apply InvD_emit_lockwrite; cbn; auto.
  Qed.

  (* cur changes that keep the id *)
  Lemma ds_set_cur_same s s' x : bps_id x = bps_id (cur s') -> dsame s s' -> dsame s (set_cur x s').
  Proof. intros E [? ? ? ? ? ? ? ? ? ?]; constructor; cbn; auto. congruence. Qed.

  Lemma ds_add_part s s' b i : dsame s s' -> dsame s (snd (add_part blocks b i s')).
  Proof.
    intro H. unfold add_part. destruct (cur s') as [p|] eqn:C; cbn; auto.
    destruct (negb (N.eqb (p_id p) b)) eqn:E1; cbn; auto.
    destruct (negb (N.ltb i (nparts blocks b))); cbn; auto.
    destruct (existsb (N.eqb i) (p_have p)); cbn; auto.
    apply ds_set_cur_same; auto. cbn. rewrite C. cbn.
    apply negb_false_iff, N.eqb_eq in E1. congruence.
  Qed.

  Lemma ds_fill_from_cache s s' b : dsame s s' -> dsame s (fill_from_cache blocks b s').
  Proof.
    unfold fill_from_cache. generalize (all_parts blocks b). intros l; revert s'.
    induction l as [|i l IH]; intros s' H; cbn; auto.
    apply IH. destruct (existsb _ _); auto using ds_add_part.
  Qed.

  (* ---------------- steps with side conditions ---------------- *)

  Lemma InvD_set_hvs s h : hvs_wf n h -> InvD s -> InvD (set_hvs h s).
  Proof. intros W [h0 l k i c d lw]. constructor; cbn; auto. Qed.

  Lemma InvD_glog_add s e : gev_ok n e -> InvD s -> InvD (glog_add e s).
  Proof.
    intros G [h l k i c d lw]. constructor; cbn; auto.
    - apply Forall_app; split; auto.
    - intro E. destruct (c E) as [b [r [ev [A B]]]]. exists b, r, ev. split; auto. apply in_or_app; auto.
    - intros b E. destruct (d _ E) as [r [ev B]]. exists r, ev. apply in_or_app; auto.
  Qed.

  Lemma InvD_unlock s : InvD s -> InvD (unlock s).
  Proof.
    intros [h l k i c d lw]. constructor; cbn; auto.
    - intro H; contradiction.
    - intros r b E. destruct (i _ _ E). split; auto.
  Qed.

  Lemma InvD_set_cur s x : stp s <> SCommit -> InvD s -> InvD (set_cur x s).
  Proof. intros N [h l k i c d lw]. constructor; cbn; auto. intro; contradiction. Qed.

  Lemma InvD_set_by_psid s b : stp s <> SCommit -> InvD s -> InvD (set_by_psid b s).
  Proof. intros N H. unfold set_by_psid. destruct (bps_id_is _ _); auto using InvD_set_cur. Qed.

  Lemma InvD_set_lock_here s x : (5 < step_code (stp s))%N -> InvD s -> InvD (set_lock (round s) x s).
  Proof.
    intros L [h l k i c d lw]. constructor; cbn; auto.
    - intros _. lia.
    - intros r b E. destruct (i _ _ E) as [A B]. split; auto. intros _ L2. lia.
  Qed.

  Lemma InvD_set_imp_req s r b : r = round s -> locked s = None -> InvD s -> InvD (set_imp_req (Some (r, b)) s).
  Proof.
    intros -> L [h l k i c d lw]. constructor; cbn; auto.
    intros r b0 E. inversion E; subst. split; [lia|auto].
  Qed.

  Lemma InvD_clear_imp_req s : InvD s -> InvD (set_imp_req None s).
  Proof. intros [h l k i c d lw]. constructor; cbn; auto. intros; discriminate. Qed.

  Lemma InvD_emit_finalize s b :
    stp s = SCommit -> bps_id (cur s) = Some b -> InvD s -> InvD (emit (OFinalize b) s).
  Proof.
    intros T C H. unfold emit. destruct (fuse s) as [[|k]|]; auto.
    - destruct H as [h l k0 i c d lw]. constructor; cbn; auto.
      intros b0 E. inversion E; subst. destruct (c T) as [b1 [r [ev [A B]]]]. rewrite C in A. inversion A; subst. eauto.
    - destruct H as [h l k0 i c d lw]. constructor; cbn; auto.
      intros b0 E. inversion E; subst. destruct (c T) as [b1 [r [ev [A B]]]]. rewrite C in A. inversion A; subst. eauto.
  Qed.

  Definition plain_stepD (t : step) : Prop := t <> SNewHeight /\ t <> SNewRound.

  Lemma InvD_new_step s t : plain_stepD t -> t <> SCommit -> InvD s -> InvD (new_step t s).
  Proof.
    intros [P1 P2] NC [h l k i c d lw]. unfold new_step. cbn.
    destruct (valid_transition (stp s) t) eqn:V.
    - assert (L : (step_code (stp s) < step_code t)%N).
      { destruct t; try congruence; cbn in V; unfold step_ltb in V; apply N.ltb_lt in V; exact V. }
      constructor; cbn; auto.
      + intros r b E. destruct (i _ _ E) as [A B]. split; auto. intros E1 L1. apply B; auto. lia.
      + intro; contradiction.
    - constructor; cbn; auto.
  Qed.

  Lemma InvD_new_round s r : round s < r -> InvD s -> InvD (new_round r s).
  Proof.
    intros L [h l k i c d lw]. constructor; cbn; auto.
    - apply hvs_remove_lower_wf; auto.
    - intro H. specialize (k H). lia.
    - intros r0 b E. destruct (i _ _ E) as [A B]. split; [lia|]. intros; lia.
    - discriminate.
  Qed.

  (* enterCommit: between the step change and the moment the current part set is
     the committed one, everything but [d_commit] holds *)
  Record InvDw (s : st) : Prop := {
    w_hvs : hvs_wf n (hvs s);
    w_log : Forall (gev_ok n) (glog s);
    w_lk : locked s <> None -> locked_round s <= round s;
    w_imp : forall r b, imp_req s = Some (r, b) ->
              r <= round s /\ (r = round s -> (step_code (stp s) <= 5)%N -> locked s = None);
    w_dec : forall b, decided s = Some b -> exists r ev, In (GCommit b r ev) (glog s);
    w_lockwal : Forall lockrec_ok (wal_all (wal_l s))
  }.

  Lemma InvDw_new_step_commit s : InvD s -> InvDw (new_step SCommit s).
  Proof.
    intros [h l k i c d lw]. unfold new_step. cbn [valid_transition].
    destruct (step_ltb (stp (set_timer false s)) SCommit) eqn:V.
    - unfold step_ltb in V. apply N.ltb_lt in V. cbn in V.
      constructor; cbn; auto.
      intros r b E. destruct (i _ _ E) as [A B]. split; auto. intros E1 L1. lia.
    - constructor; cbn; auto.
  Qed.

  Lemma InvD_panic_new_step_commit s :
    InvD s -> status_ (new_step SCommit s) <> Running -> status_ s = Running -> InvD (new_step SCommit s).
  Proof.
    intros H NR R. unfold new_step in *. cbn [valid_transition] in *.
    destruct (step_ltb (stp (set_timer false s)) SCommit); cbn in *; [congruence|].
    eapply InvD_dsame; [|exact H]. constructor; cbn; auto.
  Qed.

  Lemma InvDw_dsame s s' : dsame s s' -> InvDw s -> InvDw s'.
  Proof.
    intros [] [h l k i d lw]. constructor.
    - rewrite ds_hvs0; auto.
    - rewrite ds_glog0; auto.
    - rewrite ds_locked0, ds_lr0, ds_round0; auto.
    - intros r b. rewrite ds_imp0, ds_round0, ds_stp0, ds_locked0. apply i.
    - intro b. rewrite ds_dec0, ds_glog0. apply d.
    - rewrite ds_wall0. exact lw.
  Qed.

  Lemma InvD_enter_commit s r b s1 :
    InvDw s -> quorum_ev n r Precommit (Some b) (votes_for n s r Precommit) ->
    dsame (glog_add (GCommit b r (votes_for n s r Precommit)) s) s1 ->
    InvD (set_by_psid b s1).
  Proof.
    intros [h l k i d lw] Q DS.
    assert (G : In (GCommit b r (votes_for n s r Precommit)) (glog s1)).
    { destruct DS. rewrite ds_glog0. cbn. apply in_or_app; right; left; auto. }
    destruct DS. unfold set_by_psid.
    assert (L1 : Forall (gev_ok n) (glog s1)).
    { rewrite ds_glog0. cbn. apply Forall_app; split; auto. }
    assert (D1 : forall b0, decided s1 = Some b0 -> exists r0 ev, In (GCommit b0 r0 ev) (glog s1)).
    { intros b0 E. rewrite ds_dec0 in E. cbn in E. destruct (d _ E) as [r1 [ev B]]. exists r1, ev.
      rewrite ds_glog0. cbn. apply in_or_app; auto. }
    cbn in *.
    destruct (bps_id_is (cur s1) b) eqn:E.
    - constructor; auto.
      + rewrite ds_hvs0; auto.
      + rewrite ds_locked0, ds_lr0, ds_round0; auto.
      + intros r0 b0. rewrite ds_imp0, ds_round0, ds_stp0, ds_locked0. apply i.
      + intros _. exists b, r, (votes_for n s r Precommit). split; auto.
        unfold bps_id_is in E. destruct (cur s1); [|discriminate]. apply N.eqb_eq in E. cbn. congruence.
      + rewrite ds_wall0. exact lw.
    - constructor; cbn; auto.
      + rewrite ds_hvs0; auto.
      + rewrite ds_locked0, ds_lr0, ds_round0; auto.
      + intros r0 b0. rewrite ds_imp0, ds_round0, ds_stp0, ds_locked0. apply i.
      + intros _. exists b, r, (votes_for n s r Precommit). split; auto.
      + rewrite ds_wall0. exact lw.
  Qed.

End InvD.

(* ------------------------------------------------------------------ frame lemmas: what outputs do not touch *)
Section Frame.
  Variable n : nat.
  Variable blocks : list blk.
  Lemma stp_emit o s : stp (emit o s) = stp s.
  Proof. unfold emit. destruct (fuse s) as [[|k]|]; auto; destruct o as [[] ?|[]| | | | | | | | ]; reflexivity. Qed.
  Lemma stp_emit_all l s : stp (emit_all l s) = stp s.
  Proof. revert s; induction l as [|o l IH]; intro s; cbn; auto. rewrite IH. apply stp_emit. Qed.
  Lemma stp_send_proposal b pol s : stp (send_proposal n blocks b pol s) = stp s.
  Proof. unfold send_proposal. rewrite stp_emit_all. destruct (Z.leb 0 pol); rewrite ?stp_emit; reflexivity. Qed.
  Lemma stp_write_lock_wal pv b s : stp (write_lock_wal blocks pv b s) = stp s.
  Proof. unfold write_lock_wal. rewrite stp_emit, stp_emit_all, stp_emit. reflexivity. Qed.
  Lemma round_emit o s : round (emit o s) = round s.
  Proof. unfold emit. destruct (fuse s) as [[|k]|]; auto; destruct o as [[] ?|[]| | | | | | | | ]; reflexivity. Qed.
  Lemma round_emit_all l s : round (emit_all l s) = round s.
  Proof. revert s; induction l as [|o l IH]; intro s; cbn; auto. rewrite IH. apply round_emit. Qed.
  Lemma round_send_proposal b pol s : round (send_proposal n blocks b pol s) = round s.
  Proof. unfold send_proposal. rewrite round_emit_all. destruct (Z.leb 0 pol); rewrite ?round_emit; reflexivity. Qed.
  Lemma round_write_lock_wal pv b s : round (write_lock_wal blocks pv b s) = round s.
  Proof. unfold write_lock_wal. rewrite round_emit, round_emit_all, round_emit. reflexivity. Qed.
  Lemma locked_emit o s : locked (emit o s) = locked s.
  Proof. unfold emit. destruct (fuse s) as [[|k]|]; auto; destruct o as [[] ?|[]| | | | | | | | ]; reflexivity. Qed.
  Lemma locked_emit_all l s : locked (emit_all l s) = locked s.
  Proof. revert s; induction l as [|o l IH]; intro s; cbn; auto. rewrite IH. apply locked_emit. Qed.
  Lemma locked_send_proposal b pol s : locked (send_proposal n blocks b pol s) = locked s.
  Proof. unfold send_proposal. rewrite locked_emit_all. destruct (Z.leb 0 pol); rewrite ?locked_emit; reflexivity. Qed.
  Lemma locked_write_lock_wal pv b s : locked (write_lock_wal blocks pv b s) = locked s.
  Proof. unfold write_lock_wal. rewrite locked_emit, locked_emit_all, locked_emit. reflexivity. Qed.
  Lemma locked_round_emit o s : locked_round (emit o s) = locked_round s.
  Proof. unfold emit. destruct (fuse s) as [[|k]|]; auto; destruct o as [[] ?|[]| | | | | | | | ]; reflexivity. Qed.
  Lemma locked_round_emit_all l s : locked_round (emit_all l s) = locked_round s.
  Proof. revert s; induction l as [|o l IH]; intro s; cbn; auto. rewrite IH. apply locked_round_emit. Qed.
  Lemma locked_round_send_proposal b pol s : locked_round (send_proposal n blocks b pol s) = locked_round s.
  Proof. unfold send_proposal. rewrite locked_round_emit_all. destruct (Z.leb 0 pol); rewrite ?locked_round_emit; reflexivity. Qed.
  Lemma locked_round_write_lock_wal pv b s : locked_round (write_lock_wal blocks pv b s) = locked_round s.
  Proof. unfold write_lock_wal. rewrite locked_round_emit, locked_round_emit_all, locked_round_emit. reflexivity. Qed.
  Lemma hvs_emit o s : hvs (emit o s) = hvs s.
  Proof. unfold emit. destruct (fuse s) as [[|k]|]; auto; destruct o as [[] ?|[]| | | | | | | | ]; reflexivity. Qed.
  Lemma hvs_emit_all l s : hvs (emit_all l s) = hvs s.
  Proof. revert s; induction l as [|o l IH]; intro s; cbn; auto. rewrite IH. apply hvs_emit. Qed.
  Lemma hvs_send_proposal b pol s : hvs (send_proposal n blocks b pol s) = hvs s.
  Proof. unfold send_proposal. rewrite hvs_emit_all. destruct (Z.leb 0 pol); rewrite ?hvs_emit; reflexivity. Qed.
  Lemma hvs_write_lock_wal pv b s : hvs (write_lock_wal blocks pv b s) = hvs s.
  Proof. unfold write_lock_wal. rewrite hvs_emit, hvs_emit_all, hvs_emit. reflexivity. Qed.
  Lemma imp_req_emit o s : imp_req (emit o s) = imp_req s.
  Proof. unfold emit. destruct (fuse s) as [[|k]|]; auto; destruct o as [[] ?|[]| | | | | | | | ]; reflexivity. Qed.
  Lemma imp_req_emit_all l s : imp_req (emit_all l s) = imp_req s.
  Proof. revert s; induction l as [|o l IH]; intro s; cbn; auto. rewrite IH. apply imp_req_emit. Qed.
  Lemma imp_req_send_proposal b pol s : imp_req (send_proposal n blocks b pol s) = imp_req s.
  Proof. unfold send_proposal. rewrite imp_req_emit_all. destruct (Z.leb 0 pol); rewrite ?imp_req_emit; reflexivity. Qed.
  Lemma imp_req_write_lock_wal pv b s : imp_req (write_lock_wal blocks pv b s) = imp_req s.
  Proof. unfold write_lock_wal. rewrite imp_req_emit, imp_req_emit_all, imp_req_emit. reflexivity. Qed.
  Lemma cur_emit o s : cur (emit o s) = cur s.
  Proof. unfold emit. destruct (fuse s) as [[|k]|]; auto; destruct o as [[] ?|[]| | | | | | | | ]; reflexivity. Qed.
  Lemma cur_emit_all l s : cur (emit_all l s) = cur s.
  Proof. revert s; induction l as [|o l IH]; intro s; cbn; auto. rewrite IH. apply cur_emit. Qed.
  Lemma cur_send_proposal b pol s : cur (send_proposal n blocks b pol s) = cur s.
  Proof. unfold send_proposal. rewrite cur_emit_all. destruct (Z.leb 0 pol); rewrite ?cur_emit; reflexivity. Qed.
  Lemma cur_write_lock_wal pv b s : cur (write_lock_wal blocks pv b s) = cur s.
  Proof. unfold write_lock_wal. rewrite cur_emit, cur_emit_all, cur_emit. reflexivity. Qed.
  Lemma status__emit o s : status_ (emit o s) = status_ s.
  Proof. unfold emit. destruct (fuse s) as [[|k]|]; auto; destruct o as [[] ?|[]| | | | | | | | ]; reflexivity. Qed.
  Lemma status__emit_all l s : status_ (emit_all l s) = status_ s.
  Proof. revert s; induction l as [|o l IH]; intro s; cbn; auto. rewrite IH. apply status__emit. Qed.
  Lemma status__send_proposal b pol s : status_ (send_proposal n blocks b pol s) = status_ s.
  Proof. unfold send_proposal. rewrite status__emit_all. destruct (Z.leb 0 pol); rewrite ?status__emit; reflexivity. Qed.
  Lemma status__write_lock_wal pv b s : status_ (write_lock_wal blocks pv b s) = status_ s.
  Proof. unfold write_lock_wal. rewrite status__emit, status__emit_all, status__emit. reflexivity. Qed.
  Lemma glog_emit o s : glog (emit o s) = glog s.
  Proof. unfold emit. destruct (fuse s) as [[|k]|]; auto; destruct o as [[] ?|[]| | | | | | | | ]; reflexivity. Qed.
  Lemma glog_emit_all l s : glog (emit_all l s) = glog s.
  Proof. revert s; induction l as [|o l IH]; intro s; cbn; auto. rewrite IH. apply glog_emit. Qed.
  Lemma glog_send_proposal b pol s : glog (send_proposal n blocks b pol s) = glog s.
  Proof. unfold send_proposal. rewrite glog_emit_all. destruct (Z.leb 0 pol); rewrite ?glog_emit; reflexivity. Qed.
  Lemma glog_write_lock_wal pv b s : glog (write_lock_wal blocks pv b s) = glog s.
  Proof. unfold write_lock_wal. rewrite glog_emit, glog_emit_all, glog_emit. reflexivity. Qed.
End Frame.
#[export] Hint Rewrite stp_emit stp_emit_all stp_send_proposal stp_write_lock_wal round_emit round_emit_all round_send_proposal round_write_lock_wal locked_emit locked_emit_all locked_send_proposal locked_write_lock_wal locked_round_emit locked_round_emit_all locked_round_send_proposal locked_round_write_lock_wal hvs_emit hvs_emit_all hvs_send_proposal hvs_write_lock_wal imp_req_emit imp_req_emit_all imp_req_send_proposal imp_req_write_lock_wal cur_emit cur_emit_all cur_send_proposal cur_write_lock_wal status__emit status__emit_all status__send_proposal status__write_lock_wal glog_emit glog_emit_all glog_send_proposal glog_write_lock_wal : frame.

Lemma stp_set_by_psid b s : stp (set_by_psid b s) = stp s.
Proof. unfold set_by_psid. destruct (bps_id_is (cur s) b); reflexivity. Qed.
Lemma round_set_by_psid b s : round (set_by_psid b s) = round s.
Proof. unfold set_by_psid. destruct (bps_id_is (cur s) b); reflexivity. Qed.
Lemma locked_set_by_psid b s : locked (set_by_psid b s) = locked s.
Proof. unfold set_by_psid. destruct (bps_id_is (cur s) b); reflexivity. Qed.
Lemma locked_round_set_by_psid b s : locked_round (set_by_psid b s) = locked_round s.
Proof. unfold set_by_psid. destruct (bps_id_is (cur s) b); reflexivity. Qed.
Lemma hvs_set_by_psid b s : hvs (set_by_psid b s) = hvs s.
Proof. unfold set_by_psid. destruct (bps_id_is (cur s) b); reflexivity. Qed.
Lemma imp_req_set_by_psid b s : imp_req (set_by_psid b s) = imp_req s.
Proof. unfold set_by_psid. destruct (bps_id_is (cur s) b); reflexivity. Qed.
Lemma status__set_by_psid b s : status_ (set_by_psid b s) = status_ s.
Proof. unfold set_by_psid. destruct (bps_id_is (cur s) b); reflexivity. Qed.
Lemma glog_set_by_psid b s : glog (set_by_psid b s) = glog s.
Proof. unfold set_by_psid. destruct (bps_id_is (cur s) b); reflexivity. Qed.
#[export] Hint Rewrite stp_set_by_psid round_set_by_psid locked_set_by_psid locked_round_set_by_psid hvs_set_by_psid imp_req_set_by_psid status__set_by_psid glog_set_by_psid : frame.

Lemma stp_fill_from_cache blocks b s : stp (fill_from_cache blocks b s) = stp s.
Proof. apply (ds_stp (ds_fill_from_cache blocks b (dsame_refl s))). Qed.
Lemma round_fill_from_cache blocks b s : round (fill_from_cache blocks b s) = round s.
Proof. apply (ds_round (ds_fill_from_cache blocks b (dsame_refl s))). Qed.
Lemma locked_fill_from_cache blocks b s : locked (fill_from_cache blocks b s) = locked s.
Proof. apply (ds_locked (ds_fill_from_cache blocks b (dsame_refl s))). Qed.
Lemma locked_round_fill_from_cache blocks b s : locked_round (fill_from_cache blocks b s) = locked_round s.
Proof. apply (ds_lr (ds_fill_from_cache blocks b (dsame_refl s))). Qed.
Lemma hvs_fill_from_cache blocks b s : hvs (fill_from_cache blocks b s) = hvs s.
Proof. apply (ds_hvs (ds_fill_from_cache blocks b (dsame_refl s))). Qed.
Lemma imp_req_fill_from_cache blocks b s : imp_req (fill_from_cache blocks b s) = imp_req s.
Proof. apply (ds_imp (ds_fill_from_cache blocks b (dsame_refl s))). Qed.
Lemma glog_fill_from_cache blocks b s : glog (fill_from_cache blocks b s) = glog s.
Proof. apply (ds_glog (ds_fill_from_cache blocks b (dsame_refl s))). Qed.
#[export] Hint Rewrite stp_fill_from_cache round_fill_from_cache locked_fill_from_cache locked_round_fill_from_cache hvs_fill_from_cache imp_req_fill_from_cache glog_fill_from_cache : frame.

Lemma stp_unlock_on r w ev s : stp (unlock_on r w ev s) = stp s.
Proof. unfold unlock_on. destruct (locked s); reflexivity. Qed.
Lemma round_unlock_on r w ev s : round (unlock_on r w ev s) = round s.
Proof. unfold unlock_on. destruct (locked s); reflexivity. Qed.
Lemma hvs_unlock_on r w ev s : hvs (unlock_on r w ev s) = hvs s.
Proof. unfold unlock_on. destruct (locked s); reflexivity. Qed.
Lemma imp_req_unlock_on r w ev s : imp_req (unlock_on r w ev s) = imp_req s.
Proof. unfold unlock_on. destruct (locked s); reflexivity. Qed.
Lemma status__unlock_on r w ev s : status_ (unlock_on r w ev s) = status_ s.
Proof. unfold unlock_on. destruct (locked s); reflexivity. Qed.
#[export] Hint Rewrite stp_unlock_on round_unlock_on hvs_unlock_on imp_req_unlock_on status__unlock_on : frame.

Section RunD.
  Variable n : nat.
  Variable own : Z.
  Variable blocks : list blk.
  Variable delay : bool.

  Local Notation InvD := (InvD n).

  Definition preD (a : act) (s : st) : Prop :=
    match a with
    | ASendVote t d => gev_ok n (GVote (round s) t d (lock_of s))
    | AEnterCommit r b => quorum_ev n r Precommit (Some b) (votes_for n s r Precommit)
    | ACommitNewHeight => stp s = SCommit
    | _ => True
    end.

  Lemma new_step_ok t s :
    status_ s = Running -> status_ (new_step t s) = Running -> new_step t s = set_stp t (set_timer false s).
  Proof.
    intros R R'. unfold new_step in *. destruct (valid_transition _ _); auto. cbn in R'. discriminate.
  Qed.

  Lemma InvD_panic s : InvD s -> InvD (panic s).
  Proof. apply InvD_dsame. apply ds_set_status, dsame_refl. Qed.

  Lemma InvD_unlock_on s r w ev :
    (forall l, locked s = Some l -> gev_ok n (GUnlock (locked_round s) (p_id l) r w ev)) ->
    InvD s -> InvD (unlock_on r w ev s).
  Proof.
    intros G H. unfold unlock_on. destruct (locked s) as [l|] eqn:L.
    - apply InvD_unlock. apply InvD_glog_add; auto.
    - apply InvD_unlock; auto.
  Qed.

  Lemma InvD_lock_here s r b ev x :
    InvD s -> r = round s -> ev = hvs_for n (hvs s) r Prevote -> (5 < step_code (stp s))%N ->
    vs_over23 ev = Some (Some b) ->
    InvD (set_lock r x (glog_add (GLock r b ev) s)).
  Proof.
    intros H -> -> L O.
    change (round s) with (round (glog_add (GLock (round s) b (hvs_for n (hvs s) (round s) Prevote)) s)) at 1.
    apply InvD_set_lock_here; [exact L|]. apply InvD_glog_add; auto.
    cbn [gev_ok]. apply quorum_of_over23; auto. apply hvs_for_wf. apply (d_hvs H).
  Qed.

  Lemma InvD_unlock_here s r w ev :
    InvD s -> r = round s -> ev = hvs_for n (hvs s) r Prevote -> vs_over23 ev = Some w ->
    (forall l, locked s = Some l -> w <> Some (p_id l)) ->
    InvD (unlock_on r w ev s).
  Proof.
    intros H -> -> O NE. apply InvD_unlock_on; auto.
    intros l Hl. cbn [gev_ok]. split; [|split; [|split]].
    - apply (d_lk H). congruence.
    - apply NE; auto.
    - apply hvs_for_wf. apply (d_hvs H).
    - apply find_some_over in O. destruct (hvs_for_wf (round s) Prevote (d_hvs H)) as [Ln _]. rewrite Ln in O. exact O.
  Qed.

  Lemma bps_id_is_true o b : bps_id_is o b = true -> exists l, o = Some l /\ p_id l = b.
  Proof. unfold bps_id_is. destruct o as [l|]; [|discriminate]. intro E. apply N.eqb_eq in E. eauto. Qed.

  Lemma bps_id_is_false o b l : bps_id_is o b = false -> o = Some l -> Some b <> Some (p_id l).
  Proof. unfold bps_id_is. intros E ->. apply N.eqb_neq in E. congruence. Qed.

  Lemma bps_id_of_is o b : bps_id_is o b = true -> bps_id o = Some b.
  Proof. intro H. apply bps_id_is_true in H as [l [-> <-]]. reflexivity. Qed.

  Lemma preD_precommit_lock s' r b x pv :
    r = round s' -> bps_id x = Some b ->
    preD (ASendVote Precommit (Some b)) (write_lock_wal blocks pv b (set_lock r x s')).
  Proof.
    intros -> Hx. cbn [preD gev_ok]. unfold lock_of. autorewrite with frame. cbn.
    destruct x; cbn in *; inversion Hx; reflexivity.
  Qed.

  Lemma preD_commit s s' r b :
    InvD s -> hvs s' = hvs s -> vs_over23 (hvs_for n (hvs s) r Precommit) = Some (Some b) ->
    preD (AEnterCommit r b) s'.
  Proof.
    intros H E O. cbn [preD]. unfold votes_for. rewrite E. apply quorum_of_over23; auto.
    apply hvs_for_wf. apply (d_hvs H).
  Qed.

  Lemma dec_eqb_eq a b : dec_eqb a b = true -> a = b.
  Proof. destruct a, b; cbn; intro H; try discriminate; auto. apply N.eqb_eq in H. congruence. Qed.

  Lemma dec_eqb_refl a : dec_eqb a a = true.
  Proof. destruct a; cbn; auto. apply N.eqb_refl. Qed.

  Lemma InvD_unlock_prevote s r d ev :
    InvD s -> ev = hvs_for n (hvs s) r Prevote ->
    Z.ltb (locked_round s) r && match locked s with Some l => negb (dec_eqb (Some (p_id l)) d) | None => false end = true ->
    vs_over23 ev = Some d ->
    InvD (unlock_on r d ev s).
  Proof.
    intros H -> C O. apply andb_true_iff in C as [C1 C2]. apply Z.ltb_lt in C1.
    apply InvD_unlock_on; auto. intros l Hl. rewrite Hl in C2. cbn [gev_ok]. split; [lia|split; [|split]].
    - intro E. subst d. rewrite dec_eqb_refl in C2. discriminate.
    - apply hvs_for_wf. apply (d_hvs H).
    - apply find_some_over in O. destruct (hvs_for_wf r Prevote (d_hvs H)) as [Ln _]. rewrite Ln in O. exact O.
  Qed.

  Ltac dpeel1 lem := eapply InvD_dsame; [ apply lem; apply dsame_refl | ].

  Ltac dpeel :=
    first
      [ assumption
      | apply InvD_panic
      | dpeel1 ds_set_pol | dpeel1 ds_set_timer | dpeel1 ds_set_bpm | dpeel1 ds_set_commit_round
      | dpeel1 ds_set_commit_req | dpeel1 ds_set_prop_req | dpeel1 ds_set_status
      | dpeel1 ds_send_proposal | dpeel1 ds_fill_from_cache
      | (apply InvD_write_lock_wal; [ | ])
      | (eapply InvD_dsame; [ apply ds_emit; [ reflexivity | apply dsame_refl ] | ])
      | apply InvD_unlock
      | apply InvD_clear_imp_req
      | (apply InvD_new_step; [ split; discriminate | discriminate | ])
      ].

  Ltac dlet_step :=
    lazymatch goal with
    | |- InvD (let x := ?v in @?b x) =>
        let y := fresh "s" in let E := fresh "E" in
        remember v as y eqn:E; change (InvD (b y)); cbv beta
    end.

  Ltac andb_hyp :=
    match goal with
    | H : _ && _ = true |- _ => apply andb_true_iff in H; destruct H
    end.

  Ltac dcrunch IH :=
    repeat match goal with
      | |- InvD (let x := ?v in _) => dlet_step
      | E : ?g = (fun _ => _) |- InvD (?g _) => rewrite E; cbv beta
      | |- InvD (run _ _ _ _ _ _ _) => apply IH
      | |- InvD (new_round _ _) => apply InvD_new_round; [ apply Z.ltb_lt; repeat andb_hyp; eauto | ]
      | |- InvD (if ?c then _ else _) => destruct c eqn:?
      | |- InvD (match ?x with _ => _ end) => destruct x eqn:?
      | E : ?y = _ |- InvD ?y => rewrite E
      | |- preD AEnterPropose _ => exact I
      | |- preD AEnterPrevote _ => exact I
      | |- preD AEnterPrevoteWait _ => exact I
      | |- preD AEnterPrecommit _ => exact I
      | |- preD AEnterPrecommitWait _ => exact I
      | |- preD AEnterNewRound _ => exact I
      | |- preD (ARecvVote _) _ => exact I
      | _ => dpeel
      end.

  (* normalise projections of states built from setters, outputs and a successful new_step *)
  Ltac norm R :=
    subst;
    repeat match goal with
           | H : status_ (new_step ?t ?s) = Running |- _ => rewrite (new_step_ok t s R H) in *
           end;
    repeat (autorewrite with frame in *; cbn [stp round locked locked_round hvs imp_req cur status_ glog
              set_stp set_timer set_cur set_lock set_pol set_hvs set_bpm set_commit_round set_commit_req
              set_prop_req set_imp_req set_status set_glog glog_add unlock panic lock_of votes_for] in *).

  Lemma run_invD : forall f a s, InvD s -> preD a s -> InvD (run n own blocks delay f a s).
  Proof.
    induction f as [|f IH]; intros a s HI HP.
    { cbn. destruct (status_ s); auto. apply InvD_panic; auto. }
    cbn beta iota delta [run]. fold (run n own blocks delay). destruct (status_ s) eqn:R; auto.
    destruct a.
    - (* AEnterPropose *)
      dcrunch IH.
      apply InvD_set_cur; [norm R; discriminate|]. dcrunch IH.
    - (* AEnterPrevote *)
      dcrunch IH;
        try solve [ cbn [preD]; unfold lock_of; autorewrite with frame;
                    match goal with H : locked _ = _ |- _ => rewrite H end; cbn; auto ].
      all: apply InvD_set_imp_req;
        [ autorewrite with frame; reflexivity | autorewrite with frame; assumption | dcrunch IH ].
    - (* AEnterPrevoteWait *)
      dcrunch IH.
    - (* AEnterPrecommit *)
      assert (HI0 : status_ (new_step SPrecommit s) = Running -> InvD (new_step SPrecommit s))
        by (intros _; apply InvD_new_step; [split; discriminate|discriminate|auto]).
      dcrunch IH.
      all: try solve [ intros v Hv; subst s1; eapply vs_list_type;
                       [ apply hvs_for_wf; apply d_hvs; apply HI0; first [ assumption | reflexivity ] | exact Hv ] ].
      all: try solve [ apply InvD_lock_here; [ dcrunch IH | reflexivity | subst; reflexivity | norm R; cbn; lia | assumption ] ].
      all: try solve [ subst; apply preD_precommit_lock; [ reflexivity | apply bps_id_of_is; assumption ]
                     | subst; apply preD_precommit_lock; [ reflexivity | apply bps_id_of_is; repeat andb_hyp; assumption ] ].
      all: try solve [ apply InvD_unlock_here;
          [ apply InvD_set_by_psid; [ norm R; discriminate | dcrunch IH ]
          | reflexivity
          | subst; unfold votes_for; autorewrite with frame; reflexivity
          | assumption
          | intros l Hl; autorewrite with frame in Hl; eapply bps_id_is_false; eauto ] ].
      all: try solve [ apply InvD_unlock_here;
          [ dcrunch IH | reflexivity | subst; reflexivity | assumption | intros; discriminate ] ].
      all: subst s3; apply InvD_unlock_here;
          [ apply InvD_set_by_psid; [ norm R; discriminate | dcrunch IH ]
          | reflexivity
          | subst; unfold votes_for; autorewrite with frame; reflexivity
          | assumption
          | intros l Hl; autorewrite with frame in Hl; eapply bps_id_is_false; eauto ].
    - (* AEnterPrecommitWait *)
      dcrunch IH.
      apply (@preD_commit s0); [ subst s0; dcrunch IH | subst s2; autorewrite with frame; reflexivity
                               | subst s2 s1; unfold votes_for in Heqo; autorewrite with frame; exact Heqo ].
    - (* AEnterCommit *)
      dcrunch IH.
      all: try solve [ apply InvD_panic_new_step_commit; auto; congruence ].
      all: try solve [ cbn [preD]; norm R; reflexivity
                     | cbn [preD]; subst s6; destruct (cur_complete blocks s5); norm R; reflexivity ].
      all: subst s4 s3 s2;
        apply (@InvD_enter_commit n s1 r b);
        [ subst s1; eapply InvDw_dsame; [ apply ds_set_commit_round, dsame_refl | subst s0; apply InvDw_new_step_commit; auto ]
        | subst s1; cbn [preD] in HP; norm R; exact HP
        | apply ds_emit; [reflexivity|]; apply ds_emit; [reflexivity|]; apply dsame_refl ].
    - (* AEnterNewRound *)
      dlet_step. destruct delay.
      + dpeel. subst s0. apply InvD_new_round; [lia|auto].
      + apply IH; [|exact I]. subst s0. apply InvD_new_round; [lia|auto].
    - (* ACommitNewHeight *)
      dcrunch IH.
      apply InvD_emit_finalize; auto. rewrite Heqo. reflexivity.
    - (* ASendVote *)
      destruct (_ || _); auto.
      repeat dlet_step. apply IH; [|exact I]. subst.
      dcrunch IH. apply InvD_glog_add; auto.
    - (* ARecvVote *)
      destruct (_ || _) eqn:Hrange; auto.
      destruct (hvs_add n (hvs s) (Z.to_nat (v_from v)) v) as [added h] eqn:Hadd.
      destruct (negb added); auto.
      dlet_step.
      assert (H0 : InvD s0).
      { subst s0. apply InvD_set_hvs; auto. change h with (snd (added, h)). rewrite <- Hadd.
        apply hvs_add_wf; [apply (d_hvs HI)|].
        apply orb_false_iff in Hrange as [Hr _]. apply Z.ltb_ge in Hr. rewrite Z2Nat.id; auto. }
      clear HI E Hadd.
      dcrunch IH.
      all: try solve [ apply (@preD_commit s0); auto; subst; unfold votes_for in *; congruence ].
      all: try solve [ apply InvD_unlock_prevote; [ assumption | subst; reflexivity | assumption | congruence ] ].
      all: apply InvD_set_by_psid;
        [ subst s5; match goal with |- context [if ?c then _ else _] => destruct c end;
          autorewrite with frame; intro Hc; rewrite Hc in *; discriminate
        | subst s5; match goal with |- context [if ?c then _ else _] => destruct c eqn:? end;
          [ apply InvD_unlock_prevote; [ assumption | subst; reflexivity | assumption | congruence ] | assumption ] ].
  Qed.
End RunD.

(* ------------------------------------------------------------------ restart *)

Section RestartD.
  Variable n : nat.
  Variable own : Z.
  Variable blocks : list blk.

  Lemma add_votes_wf l : forall h, hvs_wf n h -> hvs_wf n (add_votes n l h).
  Proof.
    unfold add_votes. induction l as [|v l IH]; intros h W; cbn; auto.
    apply IH. destruct (_ || _) eqn:C; auto.
    apply orb_false_iff in C as [C _]. apply Z.ltb_ge in C.
    apply hvs_add_wf; auto. rewrite Z2Nat.id; auto.
  Qed.

  Lemma over23_mono c1 c2 m : (c1 <= c2)%nat -> over23 c1 m = true -> over23 c2 m = true.
  Proof. unfold over23. intros L H. apply Nat.ltb_lt in H. apply Nat.ltb_lt. lia. Qed.

  Lemma count_dec_le vs d : (vs_count_dec vs d <= vs_count vs)%nat.
  Proof.
    unfold vs_count_dec, vs_count. induction vs as [|[v|] vs IH]; cbn; auto.
    destruct (dec_eqb (v_dec v) d); cbn; lia.
  Qed.

  Lemma over23_has23 vs d : vs_over23 vs = Some d -> vs_has23 vs = true.
  Proof. intro H. apply find_some_over in H. unfold vs_has23. eapply over23_mono; [apply count_dec_le|exact H]. Qed.

  Definition restorable (st : step) : Prop := st = SNewHeight \/ st = SPropose \/ st = SPrevote \/ st = SPrecommit.

  Lemma restorable_mstep t : restorable (mstep_of t).
  Proof. destruct t; unfold restorable; cbn; auto. Qed.

  Lemma bump_restorable l h rs : restorable (snd rs) -> restorable (snd (bump_by_list n l h rs)).
  Proof.
    intro H. unfold bump_by_list. destruct l as [|v0 l]; auto. destruct rs as [r st0].
    destruct (_ || _); auto. destruct (vs_has23 _); auto. cbn. apply restorable_mstep.
  Qed.

  Lemma pos_le_fst a b : pos_le a b -> fst a <= fst b.
  Proof. unfold pos_le. lia. Qed.

  (* ---- round fold ---- *)
  Lemma round_rec_inv acc rec :
    hvs_wf n (fst (fst acc)) -> restorable (snd (snd (fst acc))) ->
    hvs_wf n (fst (fst (apply_round_rec n own acc rec))) /\ restorable (snd (snd (fst (apply_round_rec n own acc rec)))).
  Proof.
    destruct acc as [[h [r st0]] ok]. cbn [fst snd]. intros W S.
    destruct rec as [v|pr pb ppol|l|pb idx|]; cbn [apply_round_rec fst snd]; auto.
    - destruct (negb _); cbn [fst snd]; auto. destruct (_ || _) eqn:C; cbn [fst snd]; auto.
      apply orb_false_iff in C as [C _]. apply Z.ltb_ge in C.
      assert (W' : hvs_wf n (snd (hvs_add n h (Z.to_nat (v_from v)) v))) by (apply hvs_add_wf; auto; rewrite Z2Nat.id; auto).
      destruct (_ || _); cbn [fst snd]; split; auto. apply restorable_mstep.
    - destruct (_ || _); cbn [fst snd]; split; auto. unfold restorable; auto.
    - destruct l; cbn [fst snd]; split; auto using add_votes_wf.
      apply bump_restorable; auto.
  Qed.

  Lemma fold_round_inv L : forall acc,
    hvs_wf n (fst (fst acc)) -> restorable (snd (snd (fst acc))) ->
    hvs_wf n (fst (fst (fold_left (apply_round_rec n own) L acc))) /\
    restorable (snd (snd (fst (fold_left (apply_round_rec n own) L acc)))).
  Proof.
    induction L as [|x L IH]; intros acc W S; cbn; auto.
    destruct (round_rec_inv acc x W S). apply IH; auto.
  Qed.

  (* ---- lock fold ---- *)
  Definition lock_acc_ok (acc : hvs_t * (Z * step) * option (N * Z * list N) * option (N * Z)) : Prop :=
    let '(h, rs, bp, last) := acc in
    hvs_wf n h /\ restorable (snd rs) /\
    (forall pb plr have, bp = Some (pb, plr, have) -> plr <= fst rs) /\
    (forall b lr, last = Some (b, lr) -> lr <= fst rs).

  Lemma lock_acc_ok_intro h rs bp last :
    hvs_wf n h -> restorable (snd rs) ->
    (forall pb plr have, bp = Some (pb, plr, have) -> plr <= fst rs) ->
    (forall b lr, last = Some (b, lr) -> lr <= fst rs) -> lock_acc_ok (h, rs, bp, last).
  Proof. intros. unfold lock_acc_ok. auto. Qed.

  Lemma lock_rec_inv acc rec : lockrec_ok rec -> lock_acc_ok acc -> lock_acc_ok (apply_lock_rec n blocks acc rec).
  Proof.
    destruct acc as [[[h rs] bp] last]. intros K [W [S [B L]]].
    destruct rec as [v|pr pb0 ppol|l|b idx|]; cbn [apply_lock_rec];
      try (apply lock_acc_ok_intro; assumption).
    - destruct l as [|v0 l]; [apply lock_acc_ok_intro; assumption|].
      set (h' := add_votes n (v0 :: l) h).
      assert (W' : hvs_wf n h') by (apply add_votes_wf; auto).
      pose proof (bump_by_list_mono n (v0 :: l) h' rs) as M. apply pos_le_fst in M. cbn [fst pcode] in M.
      apply lock_acc_ok_intro; auto.
      + apply bump_restorable; auto.
      + destruct (vs_over23 (hvs_for n h' (v_round v0) Prevote)) as [[b|]|] eqn:O.
        * intros pb plr have E. inversion E; subst. clear E.
          (* the polka is a prevote set; the list's head is a prevote, so the bump sees the same set *)
          assert (T : v_type v0 = Prevote) by (apply K; left; auto).
          unfold bump_by_list. destruct rs as [r st0]. rewrite T.
          destruct (_ || _) eqn:C.
          -- fold h'. rewrite (over23_has23 _ O). cbn. lia.
          -- cbn. apply orb_false_iff in C as [C _]. apply Z.ltb_ge in C. lia.
        * intros pb plr have E. specialize (B _ _ _ E). lia.
        * intros pb plr have E. specialize (B _ _ _ E). lia.
      + intros b lr E. specialize (L _ _ E). lia.
    - destruct bp as [[[pb plr] have]|]; [|apply lock_acc_ok_intro; assumption].
      destruct (_ || _); [apply lock_acc_ok_intro; assumption|].
      apply lock_acc_ok_intro; auto.
      + intros pb1 plr0 have0 E. inversion E; subst. eapply B; eauto.
      + intros b0 lr E. destruct (N.eqb _ _); [inversion E; subst; eapply B; eauto|eapply L; eauto].
  Qed.

  Lemma fold_lock_inv L : forall acc,
    Forall lockrec_ok L -> lock_acc_ok acc -> lock_acc_ok (fold_left (apply_lock_rec n blocks) L acc).
  Proof.
    induction L as [|x L IH]; intros acc F A; cbn; auto. inversion F; subst.
    apply IH; auto. apply lock_rec_inv; auto.
  Qed.

  (* ---- commit fold ---- *)
  Lemma commit_rec_inv acc rec :
    hvs_wf n (fst acc) -> restorable (snd (snd acc)) ->
    hvs_wf n (fst (apply_commit_rec n acc rec)) /\ restorable (snd (snd (apply_commit_rec n acc rec))).
  Proof.
    destruct acc as [h rs]. cbn [fst snd]. intros W S.
    destruct rec as [v|pr pb ppol|l|pb idx|]; cbn [apply_commit_rec fst snd]; auto.
    destruct l; cbn [fst snd]; split; auto using add_votes_wf. apply bump_restorable; auto.
  Qed.

  Lemma fold_commit_inv L : forall acc,
    hvs_wf n (fst acc) -> restorable (snd (snd acc)) ->
    hvs_wf n (fst (fold_left (apply_commit_rec n) L acc)) /\
    restorable (snd (snd (fold_left (apply_commit_rec n) L acc))).
  Proof.
    induction L as [|x L IH]; intros acc W S; cbn; auto.
    destruct (commit_rec_inv acc x W S). apply IH; auto.
  Qed.

End RestartD.

(* ------------------------------------------------------------------ events and histories *)

Section HandlersD.
  Variable n : nat.
  Variable own : Z.
  Variable blocks : list blk.

  Local Notation InvD := (InvD n).

  Ltac dpeel1 lem := eapply InvD_dsame; [ apply lem; apply dsame_refl | ].
  Ltac dpeel :=
    first
      [ assumption
      | apply InvD_panic
      | dpeel1 ds_set_pol | dpeel1 ds_set_timer | dpeel1 ds_set_bpm | dpeel1 ds_set_commit_round
      | dpeel1 ds_set_commit_req | dpeel1 ds_set_prop_req | dpeel1 ds_set_status
      | dpeel1 ds_send_proposal | dpeel1 ds_fill_from_cache
      | (eapply InvD_dsame; [ apply ds_emit; [ reflexivity | apply dsame_refl ] | ])
      | apply InvD_clear_imp_req
      | (apply InvD_new_step; [ split; discriminate | discriminate | ])
      ].
  Ltac dlet_step :=
    lazymatch goal with
    | |- InvD (let x := ?v in @?b x) =>
        let y := fresh "s" in let E := fresh "E" in
        remember v as y eqn:E; change (InvD (b y)); cbv beta
    end.
  Ltac hd :=
    repeat match goal with
      | |- InvD (let x := ?v in _) => dlet_step
      | |- InvD (run _ _ _ _ _ _ _) => apply run_invD
      | |- InvD (if ?c then _ else _) => destruct c eqn:?
      | |- InvD (match ?x with _ => _ end) => destruct x eqn:?
      | E : ?y = _ |- InvD ?y => rewrite E
      | |- preD _ AEnterPropose _ => exact I
      | |- preD _ AEnterPrevote _ => exact I
      | |- preD _ AEnterPrevoteWait _ => exact I
      | |- preD _ AEnterPrecommit _ => exact I
      | |- preD _ AEnterPrecommitWait _ => exact I
      | |- preD _ AEnterNewRound _ => exact I
      | |- preD _ (ARecvVote _) _ => exact I
      | _ => dpeel
      end.

  Lemma step_leb_commit_false s : step_leb SCommit (stp s) = false -> stp s <> SCommit.
  Proof. intros H E. rewrite E in H. discriminate. Qed.

  Lemma step_eqb_true a b : step_eqb a b = true -> a = b.
  Proof. unfold step_eqb. intro H. apply N.eqb_eq in H. destruct a, b; cbn in H; try reflexivity; discriminate. Qed.

  Variable delay : bool.

  Lemma InvD_recv_proposal curh r from pol b s : InvD s -> InvD (recv_proposal n own blocks delay curh r from pol b s).
  Proof.
    intro HI. cbv beta delta [recv_proposal].
    destruct (_ || _); auto. destruct (_ || _) eqn:C; auto.
    apply orb_false_iff in C as [_ C]. apply step_leb_commit_false in C.
    destruct (_ || _); auto. destruct (negb _); auto. destruct (cur s); auto.
    repeat dlet_step.
    assert (H2 : InvD s2).
    { subst s2 s1 s0. dpeel. apply InvD_set_cur; [cbn; auto|]. dpeel. auto. }
    clear HI E E0 E1. hd.
  Qed.

  Lemma InvD_recv_part curh b idx s : InvD s -> InvD (recv_part n own blocks delay curh b idx s).
  Proof.
    intro HI. cbv beta delta [recv_part]. dlet_step.
    assert (H0 : InvD s0) by (subst s0; destruct (existsb _ _); auto; dpeel; auto).
    clear E HI. destruct (negb curh); auto. destruct (cur s0); auto. destruct (bps_complete _ _); auto.
    assert (H1 : InvD (snd (add_part blocks b idx s0))) by (eapply InvD_dsame; [apply ds_add_part, dsame_refl|auto]).
    destruct (add_part blocks b idx s0) as [added s1]. cbn in H1.
    hd. cbn. apply andb_true_iff in Heqb2 as [A _]. apply step_eqb_true; auto.
  Qed.

  Lemma InvD_recv_vote curh v s : InvD s -> InvD (recv_vote n own blocks delay curh v s).
  Proof. intro HI. cbv beta delta [recv_vote]. hd. Qed.

  Lemma InvD_timeout s : InvD s -> InvD (timeout n own blocks delay s).
  Proof. intro HI. cbv beta delta [timeout]. hd. Qed.

  Lemma InvD_propose_cb rr ok b s : InvD s -> InvD (propose_cb n own blocks delay rr ok b s).
  Proof.
    intro HI. cbv beta delta [propose_cb]. destruct (prop_req s); auto. destruct (negb _); auto.
    dlet_step. assert (H0 : InvD s0) by (subst s0; dpeel; auto).
    destruct (negb _) eqn:C; auto. destruct (negb ok); [apply run_invD; auto; exact I|].
    repeat dlet_step. apply run_invD; [|exact I]. subst s2.
    apply negb_false_iff, andb_true_iff in C as [_ C]. apply step_eqb_true in C.
    apply InvD_set_cur; [subst s1; autorewrite with frame; rewrite C; discriminate|].
    subst s1. dpeel. auto.
  Qed.

  Lemma InvD_import_cb rr ok s : InvD s -> InvD (import_cb n own blocks delay rr ok s).
  Proof.
    intro HI. cbv beta delta [import_cb]. destruct (imp_req s) as [[r b]|] eqn:Q; auto.
    destruct (negb _); auto.
    dlet_step. assert (H0 : InvD s0) by (subst s0; apply InvD_clear_imp_req; auto).
    destruct (_ || _) eqn:C; auto. apply orb_false_iff in C as [C1 C2].
    apply negb_false_iff, Z.eqb_eq in C1. apply step_leb_commit_false in C2.
    (* while the request is outstanding in its round and step, the engine is not locked *)
    assert (NL : step_leb (stp s0) SPrevoteWait = true -> locked s0 = None).
    { intro L. destruct (d_imp HI Q) as [_ B]. subst s0. cbn in *.
      apply B; auto. unfold step_leb in L. apply N.leb_le in L. exact L. }
    destruct ok.
    - dlet_step.
      assert (H1 : InvD s1).
      { subst s1. destruct (_ && _); auto. apply InvD_set_cur; auto. }
      assert (S1 : stp s1 = stp s0 /\ locked s1 = locked s0) by (subst s1; destruct (_ && _); cbn; auto).
      destruct S1 as [S1 L1].
      destruct (step_leb (stp s1) SPrevoteWait) eqn:L; auto.
      destruct (cur s1); [|apply InvD_panic; auto]. destruct (p_block b0); [|apply InvD_panic; auto].
      apply run_invD; auto. cbn [preD gev_ok]. unfold lock_of. rewrite L1, NL; cbn; auto. rewrite <- S1. exact L.
    - destruct (step_leb (stp s0) SPrevoteWait) eqn:L; auto.
      apply run_invD; auto. cbn [preD gev_ok]. unfold lock_of. rewrite NL; cbn; auto.
  Qed.

  Lemma InvD_commit_cb rr ok s : InvD s -> InvD (commit_cb blocks rr ok s).
  Proof.
    intro HI. cbv beta delta [commit_cb]. destruct (commit_req s); auto. destruct (negb _); auto.
    dlet_step. assert (H0 : InvD s0) by (subst s0; dpeel; auto).
    destruct (negb _) eqn:C; auto. destruct (negb ok); [apply InvD_panic; auto|].
    apply negb_false_iff, andb_true_iff in C as [_ C]. apply step_eqb_true in C.
    destruct (cur s0) as [p|] eqn:Cu; [|apply InvD_panic; auto].
    dlet_step. dpeel. subst s1. apply InvD_emit_finalize; cbn; auto.
    eapply InvD_dsame; [apply ds_set_cur_same; [|apply dsame_refl]|auto]. rewrite Cu. reflexivity.
  Qed.

  Lemma In_firstn_incl {A} k (l : list A) x : In x (firstn k l) -> In x l.
  Proof. revert l; induction k; intros [|a l]; cbn; try tauto. intros [?|?]; auto. Qed.

  Lemma InvD_crash kr kl kc s : InvD s -> InvD (crash kr kl kc s).
  Proof.
    intros [h l k i c d lw]. constructor; cbn; auto.
    unfold wal_all, wal_crash in *. cbn. apply Forall_app in lw as [A B]. apply Forall_app; split; auto.
    apply Forall_forall. intros x Hx. rewrite Forall_forall in B. apply B. eapply In_firstn_incl; eauto.
  Qed.

  Lemma hvs_wf_nil : hvs_wf n [].
  Proof. intros r p H. inversion H. Qed.

  Lemma restorable_not_commit st : restorable st -> st <> SCommit.
  Proof. intro H. destruct H as [H|[H|[H|H]]]; subst; discriminate. Qed.

  Lemma InvD_restart s : InvD s -> InvD (restart n own blocks delay s).
  Proof.
    intros HI. cbv beta delta [restart]. repeat dlet_step.
    destruct (fold_left (apply_round_rec n own) _ _) as [[h rs] ok] eqn:F1.
    destruct (fold_left (apply_lock_rec n blocks) _ _) as [[[h2 rs2] bp] last] eqn:F2.
    destruct (fold_left (apply_commit_rec n) _ _) as [h3 rs3] eqn:F3.
    repeat dlet_step.
    assert (H0 : InvD s4).
    { destruct (@fold_round_inv n own (w_synced s0) ([], (0, SNewHeight), true) hvs_wf_nil) as [W1 S1].
      { unfold restorable; cbn; auto. }
      rewrite F1 in W1, S1. cbn [fst snd] in W1, S1.
      assert (LW : Forall lockrec_ok (w_synced s1)).
      { subst s1. cbn. apply (d_lockwal HI). }
      assert (A2 : lock_acc_ok n (h2, rs2, bp, last)).
      { rewrite <- F2. apply fold_lock_inv; auto. apply lock_acc_ok_intro; auto; intros; discriminate. }
      destruct A2 as [W2 [S2 [_ L2]]].
      destruct (@fold_commit_inv n (w_synced s2) (h2, rs2) W2 S2) as [W3 S3].
      rewrite F3 in W3, S3. cbn [fst snd] in W3, S3.
      pose proof (fold_commit_mono n (w_synced s2) (h2, rs2)) as M3. rewrite F3 in M3. cbn [fst snd] in M3.
      apply pos_le_fst in M3. cbn [fst pcode] in M3.
      subst s4. destruct HI as [hh l k i c d lw]. constructor; cbn; auto.
      - subst s3. destruct last as [[b lr]|]; cbn; [|intro H; contradiction].
        intros _. specialize (L2 _ _ eq_refl). lia.
      - intros; discriminate.
      - intro Ec. exfalso. eapply restorable_not_commit; eauto.
      - subst s1. unfold wal_all. cbn. rewrite app_nil_r. exact lw. }
    clear HI E3.
    destruct (negb ok); [apply InvD_panic; auto|].
    destruct last as [[b lr]|].
    - destruct (negb (decodable blocks b)); [apply InvD_panic; auto|].
      destruct (snd rs3); auto; hd.
    - destruct (snd rs3); auto; hd.
  Qed.

  Lemma InvD_event_body e s :
    InvD s ->
    InvD (match e with
         | ECrash kr kl kc => match status_ s with Decided => s | _ => crash kr kl kc s end
         | ERestart => match status_ s with Down => restart n own blocks delay s | _ => s end
         | _ =>
             match status_ s with
             | Running =>
                 match e with
                 | EProposal curh r from pol b => recv_proposal n own blocks delay curh r from pol b s
                 | EPart curh b idx => recv_part n own blocks delay curh b idx s
                 | EVote curh v => recv_vote n own blocks delay curh v s
                 | EVoteList l => fold_left (fun s cv => recv_vote n own blocks delay (fst cv) (snd cv) s) l s
                 | ETimeout => timeout n own blocks delay s
                 | EProposeCb rr ok b => propose_cb n own blocks delay rr ok b s
                 | EImportCb rr ok => import_cb n own blocks delay rr ok s
                 | ECommitCb rr ok => commit_cb blocks rr ok s
                 | _ => s
                 end
             | _ => s
             end
         end).
  Proof.
    intro HI. destruct e; try (destruct (status_ s) eqn:R; auto).
    - apply InvD_recv_proposal; auto.
    - apply InvD_recv_part; auto.
    - apply InvD_recv_vote; auto.
    - clear R. revert s HI. induction l as [|cv l IH]; intros s HI; cbn; auto.
      apply IH. apply InvD_recv_vote; auto.
    - apply InvD_timeout; auto.
    - apply InvD_propose_cb; auto.
    - apply InvD_import_cb; auto.
    - apply InvD_commit_cb; auto.
    - apply InvD_crash; auto.
    - apply InvD_crash; auto.
    - apply InvD_restart; auto.
  Qed.

  Lemma InvD_step_ev e fz s : InvD s -> InvD (step_ev n own blocks delay e fz s).
  Proof.
    intros HI. cbv beta delta [step_ev].
    set (s0 := set_outs [] fz s).
    assert (H0 : InvD s0) by (subst s0; destruct HI; constructor; cbn; auto).
    clearbody s0. cbv zeta.
    match goal with |- InvD (if blown ?x then _ else _) => set (s1 := x) end.
    assert (H1 : InvD s1) by (subst s1; apply InvD_event_body; auto).
    clearbody s1. destruct (blown s1); auto. dpeel. auto.
  Qed.

End HandlersD.

Section HistoriesD.
  Variable n : nat.
  Variable own : Z.
  Variable blocks : list blk.

  Lemma InvD_init : InvD n init.
  Proof.
    constructor; cbn; auto.
    - intros r p H. inversion H.
    - intro H; contradiction.
    - intros; discriminate.
    - discriminate.
    - intros; discriminate.
  Qed.

  Lemma InvD_run_from l : forall s, InvD n s -> InvD n (fold_left (step_in n own blocks) l s).
  Proof.
    induction l as [|i l IH]; intros s H; cbn; auto. apply IH. apply InvD_step_ev; auto.
  Qed.

  Lemma InvD_run l : InvD n (run_evs n own blocks l).
  Proof. apply InvD_run_from, InvD_init. Qed.

  (* every decision in the ghost log is justified *)
  Lemma decisions_justified evs : Forall (gev_ok n) (glog (run_evs n own blocks evs)).
  Proof. apply (d_log (InvD_run evs)). Qed.

  (* a block is finalized only after an enterCommit on +2/3 precommits of one round for it *)
  Lemma finalize_needs_quorum evs b :
    decided (run_evs n own blocks evs) = Some b ->
    exists r ev, quorum_ev n r Precommit (Some b) ev.
  Proof.
    intro H. destruct (d_dec (InvD_run evs) H) as [r [ev G]].
    exists r, ev. pose proof (decisions_justified evs) as F. rewrite Forall_forall in F. apply (F _ G).
  Qed.

  (* while locked, the lock round is not ahead of the current round *)
  Lemma lock_round_le_round evs :
    locked (run_evs n own blocks evs) <> None ->
    locked_round (run_evs n own blocks evs) <= round (run_evs n own blocks evs).
  Proof. apply (d_lk (InvD_run evs)). Qed.
End HistoriesD.

(* ------------------------------------------------------------------ non-vacuity *)

(* n = 4, own slot 2: proposal, block, import, a polka, a lock, the precommits:
   the ghost log holds a prevote decision, the lock, the locked precommit and the
   commit, and the block is decided. *)
Definition exd_hist : list (event * option nat * bool) :=
  [ (ERestart, None, false);
    (EProposal true 0 1 (-1) 1, None, false);
    (EPart true 1 0, None, false);
    (EImportCb 0 true, None, false);
    (EVote true (mkVote 0 0 Prevote (Some 1%N) 1), None, false);
    (EVote true (mkVote 1 0 Prevote (Some 1%N) 1), None, false);
    (EVote true (mkVote 0 0 Precommit (Some 1%N) 1), None, false);
    (EVote true (mkVote 1 0 Precommit (Some 1%N) 1), None, false) ].

Example exd_decided : decided (run_evs 4 2 ex_blocks exd_hist) = Some 1%N.
Proof. vm_compute. reflexivity. Qed.

Example exd_log_shape :
  map (fun e => match e with GVote _ _ _ _ => 0 | GLock _ _ _ => 1 | GUnlock _ _ _ _ _ => 2 | GCommit _ _ _ => 3 end%nat)
      (glog (run_evs 4 2 ex_blocks exd_hist)) = [0; 1; 0; 3]%nat.
Proof. vm_compute. reflexivity. Qed.

(* an unlock: locked on block 1 at round 0, then a nil polka at round 1 *)
Definition exd_unlock : list (event * option nat * bool) :=
  firstn 6 exd_hist ++
  [ (EVoteList [(true, mkVote 0 1 Prevote None 1); (true, mkVote 1 1 Prevote None 1); (true, mkVote 3 1 Prevote None 1)], None, false) ].

Example exd_unlock_logged :
  existsb (fun e => match e with GUnlock 0 1%N 1 None _ => true | _ => false end)
          (glog (run_evs 4 2 ex_blocks exd_unlock)) = true.
Proof. vm_compute. reflexivity. Qed.
