(* Proofs_Bloom.v — lemmas about Model_Bloom (property C26). stdlib only. *)
From Coq Require Import Permutation.
From Goloop Require Import lib.Bytes Model_Bloom Model_Lzw Proofs_Lzw.
From Coq Require Import ZifyBool ZifyN ZifyNat.
Open Scope N_scope.

(* ---------- bit-level facts ---------- *)

Lemma contain_iff_bits b q :
  contain b q = true <-> (forall k, N.testbit q k = true -> N.testbit b k = true).
Proof.
  unfold contain. rewrite N.eqb_eq. split.
  - intros E k Hk. rewrite <- E in Hk. rewrite N.land_spec in Hk.
    now apply andb_true_iff in Hk.
  - intros Hs. apply N.bits_inj. intro k. rewrite N.land_spec.
    destruct (N.testbit q k) eqn:Eq.
    + rewrite (Hs k Eq). reflexivity.
    + now rewrite andb_false_r.
Qed.

Lemma merge_comm a b : merge a b = merge b a.
Proof. apply N.lor_comm. Qed.
Lemma merge_assoc a b c : merge (merge a b) c = merge a (merge b c).
Proof. unfold merge. now rewrite N.lor_assoc. Qed.
Lemma merge_idem a : merge a a = a.
Proof. apply N.lor_diag. Qed.
Lemma merge_0_l a : merge 0 a = a.
Proof. apply N.lor_0_l. Qed.
Lemma merge_0_r a : merge a 0 = a.
Proof. apply N.lor_0_r. Qed.

Lemma contain_refl b : contain b b = true.
Proof. unfold contain. rewrite N.land_diag. apply N.eqb_refl. Qed.

Lemma contain_0 b : contain b 0 = true.
Proof. unfold contain. now rewrite N.land_0_r. Qed.

Lemma contain_trans a b c : contain a b = true -> contain b c = true -> contain a c = true.
Proof. rewrite !contain_iff_bits. auto. Qed.

Lemma contain_merge_l a b q : contain a q = true -> contain (merge a b) q = true.
Proof.
  rewrite !contain_iff_bits. intros Hs k Hk. unfold merge. rewrite N.lor_spec.
  now rewrite (Hs k Hk).
Qed.

Lemma contain_merge_r a b q : contain b q = true -> contain (merge a b) q = true.
Proof. rewrite merge_comm. apply contain_merge_l. Qed.

Lemma contain_merge_self_l a b : contain (merge a b) a = true.
Proof. apply contain_merge_l, contain_refl. Qed.
Lemma contain_merge_self_r a b : contain (merge a b) b = true.
Proof. apply contain_merge_r, contain_refl. Qed.

(* a query made of two parts is contained iff both parts are *)
Lemma contain_merge_query b q1 q2 :
  contain b (merge q1 q2) = true <-> contain b q1 = true /\ contain b q2 = true.
Proof.
  rewrite !contain_iff_bits. unfold merge. split.
  - intros Hs. split; intros k Hk; apply Hs; rewrite N.lor_spec, Hk; auto using orb_true_r.
  - intros [H1 H2] k Hk. rewrite N.lor_spec in Hk. apply orb_true_iff in Hk as [Hk|Hk]; auto.
Qed.

(* ---------- merge of many, any order, any shape ---------- *)

Lemma fold_merge_acc bs : forall a, fold_left merge bs a = merge a (fold_left merge bs 0).
Proof.
  induction bs as [|b bs IH]; intro a; cbn [fold_left].
  - now rewrite merge_0_r.
  - rewrite IH. rewrite (IH (merge 0 b)). rewrite merge_0_l. apply merge_assoc.
Qed.

Lemma merge_all_cons b bs : merge_all (b :: bs) = merge b (merge_all bs).
Proof. unfold merge_all. cbn [fold_left]. rewrite merge_0_l. apply fold_merge_acc. Qed.

Lemma merge_all_app xs ys : merge_all (xs ++ ys) = merge (merge_all xs) (merge_all ys).
Proof.
  induction xs as [|x xs IH].
  - cbn [app]. change (merge_all []) with 0. now rewrite merge_0_l.
  - cbn [app]. rewrite !merge_all_cons, IH. now rewrite merge_assoc.
Qed.

Lemma merge_all_perm xs ys : Permutation xs ys -> merge_all xs = merge_all ys.
Proof.
  induction 1.
  - reflexivity.
  - rewrite !merge_all_cons. now f_equal.
  - rewrite !merge_all_cons. rewrite <- !merge_assoc. f_equal. apply merge_comm.
  - congruence.
Qed.

Lemma mt_eval_leaves t : mt_eval t = merge_all (mt_leaves t).
Proof.
  induction t as [b|l IHl r IHr]; cbn [mt_eval mt_leaves].
  - rewrite merge_all_cons. change (merge_all []) with 0. now rewrite merge_0_r.
  - rewrite merge_all_app. congruence.
Qed.

Lemma mt_eval_perm t t' : Permutation (mt_leaves t) (mt_leaves t') -> mt_eval t = mt_eval t'.
Proof. intro P. rewrite !mt_eval_leaves. now apply merge_all_perm. Qed.

(* duplicates do not matter either *)
Lemma merge_all_contains bs b : In b bs -> contain (merge_all bs) b = true.
Proof.
  induction bs as [|x bs IH]; [intros []|intros [E|Hin]].
  - subst. rewrite merge_all_cons. apply contain_merge_self_l.
  - rewrite merge_all_cons. apply contain_merge_r. now apply IH.
Qed.

Lemma merge_all_same_set xs ys :
  (forall b, In b xs <-> In b ys) -> merge_all xs = merge_all ys.
Proof.
  assert (Hle : forall xs ys, (forall b, In b xs -> In b ys) -> contain (merge_all ys) (merge_all xs) = true).
  { intros xs0 ys0 Hs. induction xs0 as [|x xs0 IH].
    - apply contain_0.
    - rewrite merge_all_cons. apply contain_merge_query. split.
      + apply merge_all_contains. apply Hs. now left.
      + apply IH. intros b Hb. apply Hs. now right. }
  intros Hs.
  assert (A : contain (merge_all ys) (merge_all xs) = true) by (apply Hle; intros; now apply Hs).
  assert (B : contain (merge_all xs) (merge_all ys) = true) by (apply Hle; intros; now apply Hs).
  unfold contain in A, B. apply N.eqb_eq in A, B. rewrite <- A. rewrite N.land_comm. exact B.
Qed.

(* ---------- items of a log ---------- *)

(* what items a log has: the address and every non-nil indexed value at its position *)
Lemma indexed_items_in vs : forall i k v,
  nth_error vs k = Some (Some v) -> In (indexed_item (i + N.of_nat k) v) (indexed_items i vs).
Proof.
  induction vs as [|o vs IH]; intros i k v Hn.
  - destruct k; discriminate.
  - destruct k as [|k].
    + cbn in Hn. inversion Hn; subst. cbn [indexed_items]. rewrite N.add_0_r. now left.
    + cbn [nth_error] in Hn. specialize (IH (i + 1) k v Hn).
      replace (i + N.of_nat (S k)) with (i + 1 + N.of_nat k) by lia.
      destruct o; cbn [indexed_items]; [now right|assumption].
Qed.

Lemma items_of_addr l : l_indexed l <> [] -> In (addr_item (l_addr l)) (items_of l).
Proof. unfold items_of. destruct (l_indexed l); [congruence|intros _; now left]. Qed.

Lemma items_of_indexed l k v :
  nth_error (l_indexed l) k = Some (Some v) -> In (indexed_item (N.of_nat k) v) (items_of l).
Proof.
  intro Hn. unfold items_of. destruct (l_indexed l) as [|o vs] eqn:E.
  - destruct k; discriminate.
  - right. apply (indexed_items_in (o :: vs) 0 k v Hn).
Qed.

(* ---------- adding items ---------- *)

Section WithHash.
  Variable H : bytes -> N.

  Lemma add_item_merge b it : add_item H b it = merge b (item_mask H it).
  Proof.
    unfold item_mask, add_item, add_bit, merge. rewrite !N.setbit_spec'.
    rewrite N.lor_0_l. now rewrite !N.lor_assoc.
  Qed.

  Lemma fold_add_item_merge its : forall b,
    fold_left (add_item H) its b = merge b (query_bloom H its).
  Proof.
    unfold query_bloom.
    induction its as [|it its IH]; intro b; cbn [fold_left].
    - now rewrite merge_0_r.
    - rewrite IH. rewrite (IH (add_item H 0 it)). rewrite !add_item_merge.
      rewrite merge_0_l. apply merge_assoc.
  Qed.

  Lemma add_log_merge b l : add_log H b l = merge b (bloom_of H l).
  Proof.
    unfold bloom_of, add_log. rewrite fold_add_item_merge.
    rewrite (fold_add_item_merge _ 0). now rewrite merge_0_l.
  Qed.

  Lemma query_bloom_contains its it : In it its -> contain (query_bloom H its) (item_mask H it) = true.
  Proof.
    unfold query_bloom.
    induction its as [|x its IH]; [intros []|intros [E|Hin]]; cbn [fold_left].
    - subst. rewrite fold_add_item_merge. apply contain_merge_l.
      rewrite add_item_merge. apply contain_merge_self_r.
    - rewrite fold_add_item_merge. apply contain_merge_r. now apply IH.
  Qed.

  Lemma bloom_of_contains l it : In it (items_of l) -> contain (bloom_of H l) (item_mask H it) = true.
  Proof. intro Hin. unfold bloom_of, add_log. now apply query_bloom_contains. Qed.

  Lemma receipt_bloom_merge_all ls : receipt_bloom H ls = merge_all (map (bloom_of H) ls).
  Proof.
    unfold receipt_bloom.
    assert (G : forall b, fold_left (add_log H) ls b = merge b (merge_all (map (bloom_of H) ls))).
    { induction ls as [|l ls IH]; intro b; cbn [fold_left map].
      - change (merge_all []) with 0. now rewrite merge_0_r.
      - rewrite IH, add_log_merge, merge_all_cons. apply merge_assoc. }
    rewrite G. apply merge_0_l.
  Qed.

  Lemma receipt_bloom_contains ls l it :
    In l ls -> In it (items_of l) -> contain (receipt_bloom H ls) (item_mask H it) = true.
  Proof.
    intros Hl Hit. rewrite receipt_bloom_merge_all.
    eapply contain_trans.
    - apply merge_all_contains. apply in_map_iff. exists l. split; [reflexivity|exact Hl].
    - now apply bloom_of_contains.
  Qed.

  (* no false negative, any merge shape over the per-log blooms *)
  Lemma no_false_negative logs l it t :
    In l logs -> In it (items_of l) ->
    Permutation (mt_leaves t) (map (bloom_of H) logs) ->
    contain (mt_eval t) (item_mask H it) = true.
  Proof.
    intros Hl Hit P. rewrite mt_eval_leaves, (merge_all_perm _ _ P).
    eapply contain_trans.
    - apply merge_all_contains. apply in_map_iff. exists l. split; [reflexivity|exact Hl].
    - now apply bloom_of_contains.
  Qed.

  (* as the code does it: receipts accumulate logs, the block merges receipt blooms *)
  Lemma no_false_negative_block receipts ls l it t :
    In ls receipts -> In l ls -> In it (items_of l) ->
    Permutation (mt_leaves t) (map (receipt_bloom H) receipts) ->
    contain (mt_eval t) (item_mask H it) = true.
  Proof.
    intros Hr Hl Hit P. rewrite mt_eval_leaves, (merge_all_perm _ _ P).
    eapply contain_trans.
    - apply merge_all_contains. apply in_map_iff. exists ls. split; [reflexivity|exact Hr].
    - now apply (receipt_bloom_contains ls l it).
  Qed.

  (* a filter made of several items of one log is never rejected *)
  Lemma query_subset_contained b its :
    contain b (query_bloom H its) = true <-> (forall it, In it its -> contain b (item_mask H it) = true).
  Proof.
    unfold query_bloom. induction its as [|x its IH]; cbn [fold_left].
    - split; [intros _ it []|intros _; apply contain_0].
    - rewrite fold_add_item_merge, add_item_merge, merge_0_l.
      rewrite contain_merge_query. fold (query_bloom H its). unfold query_bloom at 1. rewrite IH.
      split.
      + intros [A B] it [E|Hin]; [now subst|auto].
      + intros Hs. split; [apply Hs; now left|intros it Hin; apply Hs; now right].
  Qed.

  (* every bit index is below 2048, so a bloom fits the 256 bytes of LogBytes *)
  Lemma digest_idx_lt d i : digest_idx d i < 2048.
  Proof.
    unfold digest_idx, logs_bloom_bits. change (2048 - 1) with (N.ones 11).
    rewrite N.land_ones. apply N.mod_lt. discriminate.
  Qed.
End WithHash.

(* ---------- bytes ---------- *)

Lemma be_val_app a b : be_val (a ++ b) = be_val a * 256 ^ N.of_nat (length b) + be_val b.
Proof.
  unfold be_val.
  assert (G : forall b acc, fold_left (fun acc x => acc * 256 + x) b acc
                = acc * 256 ^ N.of_nat (length b) + fold_left (fun acc x => acc * 256 + x) b 0).
  { clear. induction b as [|x b IH]; intro acc; cbn [fold_left length].
    - cbn. lia.
    - rewrite IH. rewrite (IH (0 * 256 + x)). rewrite Nat2N.inj_succ, N.pow_succ_r'. lia. }
  rewrite fold_left_app. apply G.
Qed.

Lemma le_bytes_length n : forall v, length (le_bytes n v) = n.
Proof. induction n; intro v; cbn [le_bytes length]; congruence. Qed.

Lemma n_be_bytes_length n v : length (n_be_bytes n v) = n.
Proof. unfold n_be_bytes. now rewrite rev_length, le_bytes_length. Qed.

Lemma land_255 v : N.land v 255 = v mod 256.
Proof. change 255 with (N.ones 8). now rewrite N.land_ones. Qed.

Lemma shiftr_8 v : N.shiftr v 8 = v / 256.
Proof. now rewrite N.shiftr_div_pow2. Qed.

Lemma be_val_n_be_bytes n : forall v, be_val (n_be_bytes n v) = v mod 256 ^ N.of_nat n.
Proof.
  unfold n_be_bytes.
  induction n as [|n IH]; intro v.
  - cbn. now rewrite N.mod_1_r.
  - cbn [le_bytes rev]. rewrite be_val_app, IH.
    change (N.of_nat (length [N.land v 255])) with 1.
    rewrite land_255, shiftr_8.
    replace (be_val [v mod 256]) with (v mod 256) by (unfold be_val; cbn; lia).
    rewrite Nat2N.inj_succ, N.pow_succ_r'.
    set (p := 256 ^ N.of_nat n).
    assert (Hp : p <> 0) by (apply N.pow_nonzero; discriminate).
    rewrite N.mod_mul_r by (try assumption; discriminate).
    change (256 ^ 1) with 256. lia.
Qed.

Lemma le_bytes_ok n : forall v, bytes_ok (le_bytes n v) = true.
Proof.
  induction n as [|n IH]; intro v; cbn [le_bytes bytes_ok forallb]; [reflexivity|].
  fold (bytes_ok (le_bytes n (N.shiftr v 8))). rewrite IH, andb_true_r. unfold byte_ok.
  apply N.ltb_lt. rewrite land_255. apply N.mod_lt. discriminate.
Qed.

Lemma n_be_bytes_ok n v : bytes_ok (n_be_bytes n v) = true.
Proof.
  unfold n_be_bytes, bytes_ok. apply forallb_forall. intros x Hx. apply in_rev in Hx.
  pose proof (le_bytes_ok n v) as Hok. unfold bytes_ok in Hok.
  rewrite forallb_forall in Hok. now apply Hok.
Qed.

Lemma byte_len_enough b : b < 256 ^ N.of_nat (byte_len b).
Proof.
  unfold byte_len. rewrite N2Nat.id.
  eapply N.lt_le_trans; [apply N.size_gt|].
  change 256 with (2 ^ 8). rewrite <- N.pow_mul_r.
  apply N.pow_le_mono_r; [discriminate|].
  pose proof (N.div_mod (N.size b + 7) 8 ltac:(discriminate)).
  pose proof (N.mod_lt (N.size b + 7) 8 ltac:(discriminate)). lia.
Qed.

Lemma bloom_bytes_roundtrip b : bloom_of_bytes (bloom_bytes b) = b.
Proof.
  unfold bloom_of_bytes, bloom_bytes. rewrite be_val_n_be_bytes.
  apply N.mod_small, byte_len_enough.
Qed.

Lemma bloom_bytes_ok b : bytes_ok (bloom_bytes b) = true.
Proof. apply n_be_bytes_ok. Qed.

Lemma bloom_log_bytes_roundtrip b : b < 2 ^ 2048 -> bloom_of_bytes (bloom_log_bytes b) = b.
Proof.
  intro Hb. unfold bloom_of_bytes, bloom_log_bytes. rewrite be_val_n_be_bytes.
  apply N.mod_small. unfold logs_bloom_bytes.
  replace (256 ^ N.of_nat 256) with (2 ^ 2048); [exact Hb|].
  change 256 with (2 ^ 8) at 1. rewrite <- N.pow_mul_r. reflexivity.
Qed.

(* blooms built by the model stay below 2^2048 *)
Lemma lt_pow2_bits a n : a < 2 ^ n <-> (forall k, n <= k -> N.testbit a k = false).
Proof.
  split.
  - intros Ha k Hk. destruct (N.eq_dec a 0) as [->|Hz]; [apply N.bits_0|].
    apply N.bits_above_log2. apply N.log2_lt_pow2 in Ha; lia.
  - intros Hb. destruct (N.eq_dec a 0) as [->|Hz].
    + apply N.neq_0_lt_0. apply N.pow_nonzero. discriminate.
    + apply N.log2_lt_pow2; [lia|].
      destruct (N.lt_ge_cases (N.log2 a) n) as [|Hge]; [assumption|].
      specialize (Hb _ Hge). rewrite N.bit_log2 in Hb by assumption. discriminate.
Qed.

Lemma merge_lt a b n : a < 2 ^ n -> b < 2 ^ n -> merge a b < 2 ^ n.
Proof.
  rewrite !lt_pow2_bits. intros Ha Hb k Hk. unfold merge.
  now rewrite N.lor_spec, Ha, Hb.
Qed.

Section Bound.
  Variable H : bytes -> N.

  Lemma item_mask_lt it : item_mask H it < 2 ^ 2048.
  Proof.
    unfold item_mask, add_item, add_bit. rewrite !N.setbit_spec', N.lor_0_l.
    repeat apply (merge_lt _ _ 2048);
      (apply N.pow_lt_mono_r; [reflexivity|apply digest_idx_lt]).
  Qed.

  Lemma query_bloom_lt its : query_bloom H its < 2 ^ 2048.
  Proof.
    unfold query_bloom.
    assert (G : forall b, b < 2 ^ 2048 -> fold_left (add_item H) its b < 2 ^ 2048).
    { induction its as [|x its IH]; intros b Hb; cbn [fold_left]; [assumption|].
      apply IH. rewrite add_item_merge. apply merge_lt; [assumption|apply item_mask_lt]. }
    apply G. reflexivity.
  Qed.

  Lemma bloom_of_lt l : bloom_of H l < 2 ^ 2048.
  Proof. apply query_bloom_lt. Qed.

  Lemma merge_all_lt bs : (forall b, In b bs -> b < 2 ^ 2048) -> merge_all bs < 2 ^ 2048.
  Proof.
    induction bs as [|x bs IH]; intro Hs.
    - reflexivity.
    - rewrite merge_all_cons. apply merge_lt; [apply Hs; now left|].
      apply IH. intros b Hb. apply Hs. now right.
  Qed.

  Lemma receipt_bloom_lt ls : receipt_bloom H ls < 2 ^ 2048.
  Proof.
    rewrite receipt_bloom_merge_all. apply merge_all_lt.
    intros b Hb. apply in_map_iff in Hb as [l [<- _]]. apply bloom_of_lt.
  Qed.
End Bound.

(* ---------- compression is transparent ---------- *)

Section WithCodec.
  Variable compress : bytes -> bytes.
  Variable decompress : bytes -> option bytes.
  Hypothesis roundtrip : forall x, bytes_ok x = true -> decompress (compress x) = Some x.

  Lemma compress_transparent b :
    of_compressed decompress (compressed_bytes compress b) = Some b.
  Proof.
    unfold of_compressed, compressed_bytes. rewrite roundtrip by apply bloom_bytes_ok.
    cbn [option_map]. now rewrite bloom_bytes_roundtrip.
  Qed.

  Lemma compress_transparent_contain b q :
    option_map (fun b' => contain b' q) (of_compressed decompress (compressed_bytes compress b))
    = Some (contain b q).
  Proof. now rewrite compress_transparent. Qed.
End WithCodec.

(* ---------- statements packaged for Prop_C26 ---------- *)

(* the codec of common.Compress / common.Decompress (C25) *)
Lemma compress_transparent_lzw b :
  of_compressed Model_Lzw.decompress (compressed_bytes Model_Lzw.compress b) = Some b.
Proof. exact (compress_transparent _ _ lzw_roundtrip b). Qed.

Lemma merge_comm_assoc_idem a b c :
  merge a b = merge b a /\ merge (merge a b) c = merge a (merge b c) /\ merge a a = a.
Proof. exact (conj (merge_comm a b) (conj (merge_assoc a b c) (merge_idem a))). Qed.

Lemma contain_mono a b q :
  contain a q = true -> contain (merge a b) q = true /\ contain (merge b a) q = true.
Proof. intro Hc. exact (conj (contain_merge_l a b q Hc) (contain_merge_r b a q Hc)). Qed.

Lemma block_log_bytes_lossless (H : bytes -> N) receipts :
  bloom_of_bytes (bloom_log_bytes (merge_all (map (receipt_bloom H) receipts)))
  = merge_all (map (receipt_bloom H) receipts).
Proof.
  apply bloom_log_bytes_roundtrip, merge_all_lt.
  intros b Hb. apply in_map_iff in Hb as [ls [<- _]]. apply receipt_bloom_lt.
Qed.

(* ---------- non-vacuity examples ---------- *)

(* a toy hash; the theorems hold for every H *)
Definition ex_H (x : bytes) : N := (be_val x * 40503 + 977) * 2 ^ 200.
Definition ex_l1 : log := {| l_addr := 1 :: repeat 7 20; l_indexed := [Some [84; 114]; None; Some [1; 2]] |}.
Definition ex_l2 : log := {| l_addr := 0 :: repeat 9 20; l_indexed := [Some [84; 114]; Some []] |}.

Example ex_no_false_negative_hyps :
  In ex_l1 [ex_l1; ex_l2] /\ In (indexed_item 2 [1; 2]) (items_of ex_l1) /\
  Permutation (mt_leaves (MNode (MLeaf (bloom_of ex_H ex_l2)) (MLeaf (bloom_of ex_H ex_l1))))
              (map (bloom_of ex_H) [ex_l1; ex_l2]) /\
  contain (bloom_of ex_H ex_l2) (item_mask ex_H (indexed_item 2 [1; 2])) = false.
Proof.
  split; [now left|]. split; [cbn; right; right; now left|].
  split; [cbn [mt_leaves map app]; apply perm_swap|vm_compute; reflexivity].
Qed.

Example ex_codec_hyp : forall x, bytes_ok x = true -> (fun y => Some y) ((fun y : bytes => y) x) = Some x.
Proof. reflexivity. Qed.
