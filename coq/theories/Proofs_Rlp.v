(* Proofs_Rlp.v — lemmas about Model_Rlp (property C23). Style: stdlib, lia. *)
From Goloop Require Import lib.Bytes Model_Rlp.
From Coq Require Import ZifyBool ZifyN ZifyNat Permutation Sorting.Sorted.
Ltac Zify.zify_post_hook ::= Z.div_mod_to_equations.
Open Scope N_scope.

Arguments N.mul : simpl never.
Arguments N.add : simpl never.
Arguments N.sub : simpl never.
Arguments N.pow : simpl never.
Arguments N.div : simpl never.
Arguments N.modulo : simpl never.
Arguments N.leb : simpl never.
Arguments N.ltb : simpl never.
Arguments N.eqb : simpl never.
Arguments N.of_nat : simpl never.
Arguments N.to_nat : simpl never.
Arguments N.min : simpl never.
Arguments Z.mul : simpl never.
Arguments Z.add : simpl never.
Arguments Z.sub : simpl never.
Arguments Z.pow : simpl never.
Arguments Z.modulo : simpl never.
Arguments Z.of_N : simpl never.
Arguments Z.to_N : simpl never.
Arguments Z.of_nat : simpl never.

(* ------------------------------------------------------------------------- *)
(* lengths, take                                                              *)
(* ------------------------------------------------------------------------- *)

Lemma len_nil : len [] = 0. Proof. reflexivity. Qed.
Lemma len_cons x l : len (x :: l) = len l + 1.
Proof. unfold len. cbn [length]. lia. Qed.
Lemma len_app a b : len (a ++ b) = len a + len b.
Proof. unfold len. rewrite app_length. lia. Qed.
Lemma len_length l : len l = N.of_nat (length l). Proof. reflexivity. Qed.
Lemma len_0 l : len l = 0 -> l = [].
Proof. destruct l; [reflexivity|]. rewrite len_cons. lia. Qed.

Ltac lens := repeat (rewrite ?len_cons, ?len_app, ?len_nil in * ).

Lemma take_spec n v a r : take n v = Some (a, r) -> v = a ++ r /\ len a = n.
Proof.
  unfold take. destruct (n <=? len v) eqn:E; [|discriminate].
  intros H. inversion H; subst. split.
  - now rewrite firstn_skipn.
  - unfold len in *. rewrite firstn_length. lia.
Qed.

Lemma take_app a r : take (len a) (a ++ r) = Some (a, r).
Proof.
  unfold take. rewrite len_app.
  destruct (len a <=? len a + len r) eqn:E; [|lia].
  unfold len. rewrite Nat2N.id.
  rewrite firstn_app, Nat.sub_diag, firstn_all. cbn [firstn]. rewrite app_nil_r.
  rewrite skipn_app, Nat.sub_diag, skipn_all. reflexivity.
Qed.

Lemma take_app' n a r : n = len a -> take n (a ++ r) = Some (a, r).
Proof. intros ->. apply take_app. Qed.

Lemma take_more n v a r rest :
  take n v = Some (a, r) -> take n (v ++ rest) = Some (a, r ++ rest).
Proof.
  intros H. apply take_spec in H as [-> <-]. rewrite <- app_assoc. apply take_app.
Qed.

Lemma take_none n v : take n v = None <-> len v < n.
Proof. unfold take. destruct (n <=? len v) eqn:E; split; intros; try discriminate; try reflexivity; lia. Qed.

(* ------------------------------------------------------------------------- *)
(* big endian                                                                 *)
(* ------------------------------------------------------------------------- *)

Lemma be_bytes_length k n : length (be_bytes k n) = k.
Proof. induction k; cbn [be_bytes length]; congruence. Qed.

Lemma pow8_S k : 2 ^ (8 * N.of_nat (S k)) = 256 * 2 ^ (8 * N.of_nat k).
Proof.
  replace (8 * N.of_nat (S k)) with (8 + 8 * N.of_nat k) by lia.
  rewrite N.pow_add_r. reflexivity.
Qed.

Lemma pow8_pos k : 0 < 2 ^ (8 * k).
Proof. apply N.neq_0_lt_0, N.pow_nonzero. discriminate. Qed.

Lemma be_n_bytes k n : be_n (be_bytes k n) = n mod 2 ^ (8 * N.of_nat k).
Proof.
  induction k.
  - cbn [be_bytes be_n]. change (8 * N.of_nat 0) with 0. rewrite N.pow_0_r, N.mod_1_r. reflexivity.
  - cbn [be_bytes be_n]. rewrite IHk. unfold len. rewrite be_bytes_length.
    rewrite pow8_S.
    pose proof (pow8_pos (N.of_nat k)) as Hp.
    set (B := 2 ^ (8 * N.of_nat k)) in *.
    rewrite (N.mul_comm 256 B).
    rewrite N.mod_mul_r by lia.
    lia.
Qed.

Lemma be_n_lt bs : bytes_ok bs = true -> be_n bs < 2 ^ (8 * len bs).
Proof.
  induction bs as [|b r IH]; intros H.
  - cbn. rewrite len_nil. cbn. lia.
  - cbn [bytes_ok forallb] in H. apply andb_true_iff in H as [Hb Hr].
    specialize (IH Hr). cbn [be_n]. rewrite len_cons.
    replace (8 * (len r + 1)) with (8 + 8 * len r) by lia.
    rewrite N.pow_add_r. unfold byte_ok in Hb.
    change (2 ^ 8) with 256. nia.
Qed.

(* ------------------------------------------------------------------------- *)
(* sizes                                                                      *)
(* ------------------------------------------------------------------------- *)

Lemma size_bound n : n < 2 ^ N.size n.
Proof.
  destruct (N.eq_dec n 0) as [->|H]; [cbn; lia|].
  rewrite N.size_log2 by assumption.
  apply N.log2_spec. lia.
Qed.

Lemma size_le n b : n < 2 ^ b -> N.size n <= b.
Proof.
  intros H. destruct (N.eq_dec n 0) as [->|Hn]; [cbn; lia|].
  rewrite N.size_log2 by assumption.
  assert (N.log2 n < b) by (apply N.log2_lt_pow2; lia). lia.
Qed.

Lemma nbytes_spec n : n < 2 ^ (8 * N.of_nat (nbytes n)).
Proof.
  unfold nbytes. rewrite N2Nat.id.
  eapply N.lt_le_trans; [apply size_bound|].
  apply N.pow_le_mono_r; lia.
Qed.

Lemma nbytes_pos n : n <> 0 -> (1 <= nbytes n)%nat.
Proof.
  intros H. unfold nbytes.
  assert (1 <= N.size n). { rewrite N.size_log2 by assumption. lia. }
  lia.
Qed.

Lemma nbytes_le8 n : n <= max_int -> (nbytes n <= 8)%nat.
Proof.
  intros H. unfold nbytes.
  assert (N.size n <= 63). { apply size_le. unfold max_int in H. lia. }
  lia.
Qed.

Lemma size_to_bytes_len n : n <= max_int -> 1 <= len (size_to_bytes n) <= 8.
Proof.
  intros H. unfold size_to_bytes. destruct (n =? 0) eqn:E.
  - lens. lia.
  - unfold len. rewrite be_bytes_length.
    pose proof (nbytes_pos n ltac:(lia)). pose proof (nbytes_le8 n H). lia.
Qed.

Lemma size_roundtrip n : n <= max_int -> bytes_to_size (size_to_bytes n) = Some n.
Proof.
  intros H. pose proof (size_to_bytes_len n H) as HL.
  unfold bytes_to_size. unfold len in HL.
  destruct (8 <? length (size_to_bytes n))%nat eqn:E; [lia|].
  assert (be_n (size_to_bytes n) = n) as ->.
  { unfold size_to_bytes. destruct (n =? 0) eqn:E0.
    - cbn. lia.
    - rewrite be_n_bytes. apply N.mod_small, nbytes_spec. }
  destruct (n <=? max_int) eqn:E1; [reflexivity|lia].
Qed.

(* ------------------------------------------------------------------------- *)
(* minimal two's complement                                                   *)
(* ------------------------------------------------------------------------- *)

Lemma z_nbytes_pos z : (1 <= z_nbytes z)%nat.
Proof. unfold z_nbytes. lia. Qed.

Lemma z_nbytes_range z :
  (- 2 ^ (8 * Z.of_nat (z_nbytes z) - 1) <= z < 2 ^ (8 * Z.of_nat (z_nbytes z) - 1))%Z.
Proof.
  unfold z_nbytes.
  set (m := Z.to_N (if (z <? 0)%Z then (- z - 1)%Z else z)).
  pose proof (size_bound m) as Hm.
  set (s := N.size m) in *.
  assert (Hs : s <= 8 * (s / 8) + 7) by lia.
  assert (Hp : 2 ^ s <= 2 ^ (8 * (s / 8) + 7)) by (apply N.pow_le_mono_r; lia).
  assert (Hz : (Z.of_N m < 2 ^ Z.of_N (8 * (s / 8) + 7))%Z).
  { rewrite <- (N2Z.inj_pow 2). lia. }
  replace (8 * Z.of_nat (N.to_nat (s / 8 + 1)) - 1)%Z with (Z.of_N (8 * (s / 8) + 7)) by lia.
  set (P := (2 ^ Z.of_N (8 * (s / 8) + 7))%Z) in *.
  subst m. destruct (z <? 0)%Z eqn:E; lia.
Qed.

Lemma zpow8 k' : (2 ^ (8 * Z.of_nat (S k')))%Z = Z.of_N (256 * 2 ^ (8 * N.of_nat k')).
Proof.
  rewrite <- pow8_S, N2Z.inj_pow. f_equal; lia.
Qed.

Lemma zpow8h k' : (2 ^ (8 * Z.of_nat (S k') - 1))%Z = Z.of_N (128 * 2 ^ (8 * N.of_nat k')).
Proof.
  replace (8 * Z.of_nat (S k') - 1)%Z with (7 + 8 * Z.of_nat k')%Z by lia.
  rewrite Z.pow_add_r by lia. rewrite N2Z.inj_mul, N2Z.inj_pow.
  replace (Z.of_N (8 * N.of_nat k')) with (8 * Z.of_nat k')%Z by lia.
  reflexivity.
Qed.

Lemma z_roundtrip z : bytes_to_z (z_to_bytes z) = z.
Proof.
  unfold z_to_bytes.
  pose proof (z_nbytes_range z) as HR. pose proof (z_nbytes_pos z) as HP.
  destruct (z_nbytes z) as [|k']; [lia|].
  rewrite zpow8h in HR. rewrite zpow8.
  pose proof (pow8_pos (N.of_nat k')) as HB.
  set (B := 2 ^ (8 * N.of_nat k')) in *.
  set (n := Z.to_N (z mod Z.of_N (256 * B))).
  assert (Hn : n < 256 * B) by (subst n; lia).
  unfold bytes_to_z.
  pose proof (be_n_bytes (S k') n) as Hbe. pose proof (be_bytes_length (S k') n) as Hlen.
  rewrite pow8_S in Hbe. fold B in Hbe. rewrite N.mod_small in Hbe by assumption.
  cbn [be_bytes] in *. fold B in Hbe, Hlen |- *.
  rewrite Hbe. rewrite Hlen. rewrite zpow8. fold B.
  assert (Hz : Z.of_N n = if (z <? 0)%Z then (z + Z.of_N (256 * B))%Z else z).
  { subst n. rewrite Z2N.id by (apply Z.mod_pos_bound; lia).
    destruct (z <? 0)%Z eqn:Ez.
    - symmetry. apply (Z.mod_unique_pos _ _ (-1)); lia.
    - apply Z.mod_small; lia. }
  clearbody n. clearbody B.
  assert (Hd : (n / B) mod 256 = n / B).
  { apply N.mod_small. apply N.div_lt_upper_bound; lia. }
  rewrite Hd.
  assert (Hq1 : 128 * B <= n -> 128 <= n / B) by (intros; apply N.div_le_lower_bound; lia).
  assert (Hq2 : n < 128 * B -> n / B < 128) by (intros; apply N.div_lt_upper_bound; lia).
  clear Hd Hlen Hbe.
  set (q := n / B) in *. clearbody q.
  destruct (128 <=? q) eqn:E; destruct (z <? 0)%Z eqn:Ez; lia.
Qed.

Lemma z_to_bytes_length z : length (z_to_bytes z) = z_nbytes z.
Proof. unfold z_to_bytes. apply be_bytes_length. Qed.

Lemma be_bytes_ok k n : bytes_ok (be_bytes k n) = true.
Proof.
  induction k; cbn [be_bytes bytes_ok forallb]; [reflexivity|].
  fold (bytes_ok (be_bytes k n)). rewrite IHk. unfold byte_ok.
  assert ((n / 2 ^ (8 * N.of_nat k)) mod 256 < 256) by (apply N.mod_lt; lia).
  destruct (_ <? 256) eqn:E; [reflexivity|lia].
Qed.

Lemma z_to_bytes_ok z : bytes_ok (z_to_bytes z) = true.
Proof. apply be_bytes_ok. Qed.

Lemma z_nbytes_le z b :
  (- 2 ^ Z.of_N b <= z < 2 ^ Z.of_N b)%Z -> (z_nbytes z <= N.to_nat (b / 8 + 1))%nat.
Proof.
  intros H. unfold z_nbytes.
  set (m := Z.to_N (if (z <? 0)%Z then (- z - 1)%Z else z)).
  assert (Hm : m < 2 ^ b).
  { assert (Z.of_N m < 2 ^ Z.of_N b)%Z by (subst m; destruct (z <? 0)%Z eqn:E; lia).
    rewrite <- (N2Z.inj_pow 2) in H0. lia. }
  apply size_le in Hm. clearbody m.
  assert (N.size m / 8 <= b / 8) by (apply N.div_le_mono; lia). lia.
Qed.

Lemma to_int_roundtrip w z :
  w <= 64 -> in_int_range w z = true -> to_int w (z_to_bytes z) = Some z.
Proof.
  intros Hw Hr. unfold to_int, bytes_to_int64.
  assert (HL : (z_nbytes z <= 8)%nat).
  { assert (Hb : (- 2 ^ Z.of_N 63 <= z < 2 ^ Z.of_N 63)%Z).
    { unfold in_int_range in Hr.
      destruct (N.eq_dec w 0) as [->|Hw0].
      - change (Z.of_N 0 - 1)%Z with (-1)%Z in Hr. rewrite Z.pow_neg_r in Hr by lia. lia.
      - assert (2 ^ (Z.of_N w - 1) <= 2 ^ Z.of_N 63)%Z by (apply Z.pow_le_mono_r; lia). lia. }
    apply z_nbytes_le in Hb. change (N.to_nat (63 / 8 + 1)) with 8%nat in Hb. exact Hb. }
  rewrite z_to_bytes_length.
  destruct (8 <? z_nbytes z)%nat eqn:E; [lia|].
  rewrite z_roundtrip, Hr. reflexivity.
Qed.

Lemma uint_bytes n :
  exists b0 r, z_to_bytes (Z.of_N n) = b0 :: r /\ b0 < 128 /\ be_n (b0 :: r) = n.
Proof.
  pose proof (z_roundtrip (Z.of_N n)) as HR.
  pose proof (z_to_bytes_ok (Z.of_N n)) as Hok.
  pose proof (z_to_bytes_length (Z.of_N n)) as HL. pose proof (z_nbytes_pos (Z.of_N n)).
  destruct (z_to_bytes (Z.of_N n)) as [|b0 r]; [cbn in HL; lia|].
  exists b0, r. split; [reflexivity|].
  pose proof (be_n_lt _ Hok) as Hlt.
  unfold bytes_to_z in HR.
  assert (Hp : (2 ^ (8 * Z.of_nat (length (b0 :: r))))%Z = Z.of_N (2 ^ (8 * len (b0 :: r)))).
  { rewrite N2Z.inj_pow. f_equal; unfold len; lia. }
  rewrite Hp in HR.
  set (P := 2 ^ (8 * len (b0 :: r))) in *. clearbody P.
  destruct (128 <=? b0) eqn:E; lia.
Qed.

Lemma to_uint_roundtrip w n :
  w <= 64 -> n < 2 ^ w -> to_uint w (z_to_bytes (Z.of_N n)) = Some n.
Proof.
  intros Hw Hn.
  destruct (uint_bytes n) as (b0 & r & Hbs & Hb0 & Hbe).
  pose proof (z_to_bytes_length (Z.of_N n)) as HL. rewrite Hbs in HL.
  assert (Hn64 : n < 2 ^ 64).
  { eapply N.lt_le_trans; [exact Hn|]. apply N.pow_le_mono_r; lia. }
  assert (Hk : (z_nbytes (Z.of_N n) <= 9)%nat).
  { assert (Hb : (- 2 ^ Z.of_N 64 <= Z.of_N n < 2 ^ Z.of_N 64)%Z).
    { rewrite <- (N2Z.inj_pow 2). lia. }
    apply z_nbytes_le in Hb. change (N.to_nat (64 / 8 + 1)) with 9%nat in Hb. exact Hb. }
  unfold to_uint, bytes_to_uint64. rewrite Hbs.
  cbn [length] in HL.
  destruct (b0 =? 0) eqn:E0.
  - assert (b0 = 0) by lia. subst b0. cbn [be_n] in Hbe.
    destruct (8 <? length r)%nat eqn:E1; [lia|].
    replace (be_n r) with n by lia.
    destruct (n <? 2 ^ w) eqn:E2; [reflexivity|lia].
  - destruct (128 <=? b0) eqn:E1; [lia|].
    assert (Hlen : (length r < 8)%nat).
    { cbn [be_n] in Hbe.
      assert (2 ^ (8 * len r) <= n).
      { pose proof (pow8_pos (len r)). nia. }
      assert (2 ^ (8 * len r) < 2 ^ 64) by lia.
      apply N.pow_lt_mono_r_iff in H0; [|lia]. unfold len in H0. lia. }
    cbn [length].
    destruct (8 <? S (length r))%nat eqn:E2; [lia|].
    rewrite Hbe.
    destruct (n <? 2 ^ w) eqn:E3; [reflexivity|lia].
Qed.

Lemma to_bool_roundtrip b : to_bool [if b : bool then 1 else 0] = Some b.
Proof. destruct b; reflexivity. Qed.

(* ------------------------------------------------------------------------- *)
(* headers                                                                    *)
(* ------------------------------------------------------------------------- *)

Ltac ifs := repeat match goal with
  | |- context [if ?c then _ else _] => destruct c eqn:?; try lia
  end.

Lemma read_size_app s n r :
  bytes_to_size s = Some n -> read_size (len s) (s ++ r) = Some (n, r).
Proof. intros H. unfold read_size. rewrite take_app, H. reflexivity. Qed.

Lemma read_bytes_enc sh mx b rest :
  len b <= mx -> len b <= max_int ->
  read_bytes sh mx (enc_bytes b ++ rest) = HOk b rest.
Proof.
  intros Hmx Hmax.
  assert (Hgen : forall tag, tag = 0x80 + len b -> len b <= 55 ->
            read_bytes sh mx ((tag :: b) ++ rest) = HOk b rest).
  { intros tag -> H55. cbn [app read_bytes]. ifs.
    replace (128 + len b - 128) with (len b) by lia. rewrite take_app. reflexivity. }
  assert (Hlong : 55 < len b ->
            read_bytes sh mx (((0xB7 + len (size_to_bytes (len b))) :: size_to_bytes (len b) ++ b) ++ rest)
            = HOk b rest).
  { intros H55. pose proof (size_to_bytes_len _ Hmax) as HL.
    cbn [app read_bytes]. ifs.
    replace (183 + len (size_to_bytes (len b)) - 183) with (len (size_to_bytes (len b))) by lia.
    rewrite <- app_assoc. rewrite (read_size_app _ (len b)) by (apply size_roundtrip; assumption).
    ifs. rewrite take_app. reflexivity. }
  destruct b as [|x [|y b']].
  - cbn [enc_bytes]. apply (Hgen 0x80); [reflexivity|rewrite len_nil; lia].
  - cbn [enc_bytes]. destruct (x <? 128) eqn:E.
    + cbn [app read_bytes]. rewrite E. reflexivity.
    + apply (Hgen 0x81); [reflexivity|]. lens. lia.
  - unfold enc_bytes. destruct (len (x :: y :: b') <=? 55) eqn:E.
    + apply Hgen; [reflexivity|lia].
    + apply Hlong. lia.
Qed.

Lemma read_list_enc sh p rest :
  len p <= max_int -> read_list sh (enc_list p ++ rest) = HOk (len p) (p ++ rest).
Proof.
  intros Hmax. unfold enc_list. destruct (len p <=? 55) eqn:E.
  - cbn [app read_list]. ifs. f_equal. lia.
  - pose proof (size_to_bytes_len _ Hmax) as HL.
    cbn [app read_list]. ifs.
    replace (247 + len (size_to_bytes (len p)) - 247) with (len (size_to_bytes (len p))) by lia.
    rewrite <- app_assoc. rewrite (read_size_app _ (len p)) by (apply size_roundtrip; assumption).
    destruct ((247 + len (size_to_bytes (len p)) =? 248) && (len p =? 0)) eqn:E2; [lia|reflexivity].
Qed.

Lemma read_size_1_0 rest : read_size 1 (0 :: rest) = Some (0, rest).
Proof. apply (read_size_app [0] 0 rest). reflexivity. Qed.

Lemma read_bytes_null sh mx rest : read_bytes sh mx (null ++ rest) = HNil rest.
Proof.
  unfold null. cbn [app read_bytes]. ifs.
  rewrite read_size_1_0. reflexivity.
Qed.

Lemma read_list_null sh rest : read_list sh (null ++ rest) = HNil rest.
Proof.
  unfold null. cbn [app read_list]. ifs.
  change (248 - 247) with 1. rewrite read_size_1_0. reflexivity.
Qed.

Lemma enc_bytes_nonempty b : enc_bytes b <> [].
Proof.
  destruct b as [|x [|y b']]; cbn [enc_bytes]; try discriminate.
  - destruct (x <? 128); discriminate.
  - destruct (_ <=? 55); discriminate.
Qed.

Lemma enc_list_nonempty p : enc_list p <> [].
Proof. unfold enc_list. destruct (_ <=? 55); discriminate. Qed.

Lemma enc_list_len p : len p < len (enc_list p).
Proof. unfold enc_list. destruct (_ <=? 55); lens; lia. Qed.

(* ------------------------------------------------------------------------- *)
(* induction over the universe                                                *)
(* ------------------------------------------------------------------------- *)

Section TyInd.
  Variable P : ty -> Prop.
  Hypothesis HUint : forall w, P (TUint w).
  Hypothesis HInt : forall w, P (TInt w).
  Hypothesis HBool : P TBool.
  Hypothesis HString : P TString.
  Hypothesis HBytes : P TBytes.
  Hypothesis HByteArr : forall n, P (TByteArr n).
  Hypothesis HBig : P TBig.
  Hypothesis HRaw : P TRaw.
  Hypothesis HSelf : forall t, P t -> P (TSelf t).
  Hypothesis HList : forall t, P t -> P (TList t).
  Hypothesis HArray : forall n t, P t -> P (TArray n t).
  Hypothesis HStruct : forall ts, Forall P ts -> P (TStruct ts).
  Hypothesis HMap : forall k t, P k -> P t -> P (TMap k t).
  Hypothesis HPtr : forall t, P t -> P (TPtr t).

  Fixpoint ty_ind' (t : ty) : P t :=
    match t with
    | TUint w => HUint w
    | TInt w => HInt w
    | TBool => HBool
    | TString => HString
    | TBytes => HBytes
    | TByteArr n => HByteArr n
    | TBig => HBig
    | TRaw => HRaw
    | TSelf t' => HSelf t' (ty_ind' t')
    | TList t' => HList t' (ty_ind' t')
    | TArray n t' => HArray n t' (ty_ind' t')
    | TStruct ts =>
        HStruct ts ((fix go (l : list ty) : Forall P l :=
                       match l with
                       | [] => Forall_nil P
                       | x :: r => Forall_cons x (ty_ind' x) (go r)
                       end) ts)
    | TMap k t' => HMap k t' (ty_ind' k) (ty_ind' t')
    | TPtr t' => HPtr t' (ty_ind' t')
    end.
End TyInd.

(* ------------------------------------------------------------------------- *)
(* the decoder consumes a prefix, makes progress, and never runs out of fuel  *)
(* ------------------------------------------------------------------------- *)

Definition suf (v r : bytes) : Prop := exists u, v = u ++ r.
Definition ssuf (v r : bytes) : Prop := exists u, u <> [] /\ v = u ++ r.

Lemma ssuf_suf v r : ssuf v r -> suf v r.
Proof. intros (u & _ & H). now exists u. Qed.
Lemma suf_refl v : suf v v.
Proof. now exists []. Qed.
Lemma suf_trans a b c : suf a b -> suf b c -> suf a c.
Proof. intros (u & ->) (w & ->). exists (u ++ w). now rewrite app_assoc. Qed.
Lemma ssuf_suf_trans a b c : ssuf a b -> suf b c -> ssuf a c.
Proof.
  intros (u & Hu & ->) (w & ->). exists (u ++ w). split.
  - destruct u; [congruence|discriminate].
  - now rewrite app_assoc.
Qed.
Lemma suf_ssuf_trans a b c : suf a b -> ssuf b c -> ssuf a c.
Proof.
  intros (u & ->) (w & Hw & ->). exists (u ++ w). split.
  - destruct u; [exact Hw|discriminate].
  - now rewrite app_assoc.
Qed.
Lemma ssuf_cons x v r : suf v r -> ssuf (x :: v) r.
Proof. intros (u & ->). exists (x :: u). split; [discriminate|reflexivity]. Qed.
Lemma ssuf_length v r : ssuf v r -> (length r < length v)%nat.
Proof. intros (u & Hu & ->). rewrite app_length. destruct u; [congruence|cbn; lia]. Qed.
Lemma suf_length v r : suf v r -> (length r <= length v)%nat.
Proof. intros (u & ->). rewrite app_length. lia. Qed.
Lemma suf_app_r a b : suf (a ++ b) b.
Proof. now exists a. Qed.

Lemma take_suf n v a r : take n v = Some (a, r) -> suf v r.
Proof. intros H. apply take_spec in H as [-> _]. apply suf_app_r. Qed.

Lemma read_size_suf k v n r : read_size k v = Some (n, r) -> suf v r.
Proof.
  unfold read_size. destruct (take k v) as [[sb r']|] eqn:E; [|discriminate].
  destruct (bytes_to_size sb); [|discriminate]. intros H; inversion H; subst.
  eapply take_suf; eauto.
Qed.

Definition hgood {A} (v : bytes) (h : hres A) : Prop :=
  match h with
  | HOk _ r => ssuf v r
  | HNil r => ssuf v r
  | _ => True
  end.

Lemma read_bytes_good sh mx v : hgood v (read_bytes sh mx v).
Proof.
  unfold read_bytes. destruct v as [|tag r]; [destruct sh; exact I|].
  destruct (tag <? 128); [apply ssuf_cons, suf_refl|].
  destruct (tag <=? 183).
  { destruct (take _ r) as [[b r']|] eqn:E; [|exact I]. apply ssuf_cons. eapply take_suf; eauto. }
  destruct (tag <? 192).
  { destruct (read_size _ r) as [[n r']|] eqn:E; [|exact I].
    destruct (mx <? n); [exact I|].
    destruct (take n r') as [[b r'']|] eqn:E2; [|exact I].
    apply ssuf_cons. eapply suf_trans; [eapply read_size_suf; eauto|eapply take_suf; eauto]. }
  destruct (tag =? 248); [|exact I].
  destruct (read_size 1 r) as [[n r']|] eqn:E; [|exact I].
  destruct (n =? 0); [|exact I].
  apply ssuf_cons. eapply read_size_suf; eauto.
Qed.

Lemma read_list_good sh v : hgood v (read_list sh v).
Proof.
  unfold read_list. destruct v as [|tag r]; [destruct sh; exact I|].
  destruct (tag <? 192); [exact I|].
  destruct (tag <=? 247); [apply ssuf_cons, suf_refl|].
  destruct (read_size _ r) as [[n r']|] eqn:E; [|exact I].
  destruct (_ && _); apply ssuf_cons; eapply read_size_suf; eauto.
Qed.

Lemma read_more_good mx org size r x : hgood (x :: r) (read_more mx org size r).
Proof.
  unfold read_more. destruct (mx <? _); [exact I|].
  destruct (take size r) as [[b r']|] eqn:E; [|exact I].
  apply ssuf_cons. eapply take_suf; eauto.
Qed.

Lemma hgood_suf {A} v v' (h : hres A) x : suf v v' -> hgood (x :: v') h -> hgood (x :: v) h.
Proof.
  intros Hs. destruct h; cbn; auto; intros (u & Hu & He).
  - destruct u as [|y u]; [congruence|]. inversion He; subst.
    apply ssuf_cons. eapply suf_trans; [exact Hs|apply suf_app_r].
  - destruct u as [|y u]; [congruence|]. inversion He; subst.
    apply ssuf_cons. eapply suf_trans; [exact Hs|apply suf_app_r].
Qed.

Lemma read_raw_good sh mx v : hgood v (read_raw sh mx v).
Proof.
  unfold read_raw. destruct v as [|tag r]; [destruct sh; exact I|].
  destruct (tag <? 128); [apply ssuf_cons, suf_refl|].
  destruct (tag <=? 183); [apply read_more_good|].
  destruct (tag <? 192).
  { destruct (take _ r) as [[sb r']|] eqn:E; [|exact I].
    destruct (bytes_to_size sb); [|exact I].
    apply (hgood_suf r r'); [eapply take_suf; eauto|apply read_more_good]. }
  destruct (tag <=? 247); [apply read_more_good|].
  destruct (take _ r) as [[sb r']|] eqn:E; [|exact I].
  destruct (bytes_to_size sb); [|exact I].
  apply (hgood_suf r r'); [eapply take_suf; eauto|apply read_more_good].
Qed.

Definition good (v : bytes) (r : res) : Prop :=
  match r with
  | ROk _ (v', _) => ssuf v v'
  | RNil (v', _) => ssuf v v'
  | REof (v', _) => suf v v'
  | RErr => True
  | RFuel => False
  end.

Definition elem_good (e : bytes -> N -> res) : Prop := forall v p, good v (e v p).

Lemma of_bytes_good v p f h : hgood v h -> good v (of_bytes h v p f).
Proof.
  destruct h; cbn; intros H; auto.
  - destruct (f a); cbn; auto.
  - apply suf_refl.
Qed.

Definition lgood {A} (strictnil : bool) (v : bytes) (r : lres A) : Prop :=
  match r with
  | LOk _ (v', _) => suf v v'
  | LNil (v', _) => if strictnil then False else suf v v'
  | LErr => True
  | LFuel => False
  end.

Lemma lcons_good {A} b v v' (x : A) r : suf v v' -> lgood b v' r -> lgood b v (lcons x r).
Proof.
  intros Hs. destruct r as [l [v'' p'']|[v'' p'']| |]; cbn; auto.
  - intros H. eapply suf_trans; eauto.
  - destruct b; auto. intros H. eapply suf_trans; eauto.
Qed.

Lemma loop_items_good e z : elem_good e ->
  forall fuel v p, (length v < fuel)%nat -> lgood true v (loop_items e z fuel v p).
Proof.
  intros He. induction fuel as [|f IH]; intros v p Hf; [lia|].
  cbn [loop_items]. specialize (He v p).
  destruct (e v p) as [x [v' p']|[v' p']|[v' p']| |]; cbn in He |- *; auto.
  - eapply lcons_good; [apply ssuf_suf; eassumption|]. apply IH. apply ssuf_length in He. lia.
  - eapply lcons_good; [apply ssuf_suf; eassumption|]. apply IH. apply ssuf_length in He. lia.
Qed.

Lemma loop_upto_good e z : elem_good e ->
  forall n v p, lgood true v (loop_upto e z n v p).
Proof.
  intros He. induction n as [|k IH]; intros v p; cbn [loop_upto]; [apply suf_refl|].
  specialize (He v p).
  destruct (e v p) as [x [v' p']|[v' p']|[v' p']| |]; cbn in He |- *; auto.
  - eapply lcons_good; [apply ssuf_suf; eassumption|]. apply IH.
  - eapply lcons_good; [apply ssuf_suf; eassumption|]. apply IH.
Qed.

Lemma loop_fields_good ds : Forall (fun d => elem_good (fst d)) ds ->
  forall v p, lgood false v (loop_fields ds v p).
Proof.
  induction 1 as [|[d z] ds Hd Hds IH]; intros v p; cbn [loop_fields]; [apply suf_refl|].
  cbn in Hd. specialize (Hd v p).
  destruct (d v p) as [x [v' p']|[v' p']|[v' p']| |]; cbn in Hd |- *; auto.
  - eapply lcons_good; [apply ssuf_suf; eassumption|]. apply IH.
  - now apply ssuf_suf.
  - eapply lcons_good; [eassumption|]. apply IH.
Qed.

Lemma loop_map_good kd vd z : elem_good kd -> elem_good vd ->
  forall fuel acc v p, (length v < fuel)%nat -> lgood true v (loop_map kd vd z fuel acc v p).
Proof.
  intros Hk Hv. induction fuel as [|f IH]; intros acc v p Hf; [lia|].
  cbn [loop_map]. specialize (Hk v p).
  destruct (kd v p) as [k [v' p']|[v' p']|[v' p']| |]; cbn in Hk |- *; auto.
  specialize (Hv v' p').
  destruct (vd v' p') as [x [v'' p'']|[v'' p'']|[v'' p'']| |]; cbn in Hv |- *; auto.
  - assert (Hs : ssuf v v'') by (eapply ssuf_suf_trans; [exact Hk|now apply ssuf_suf]).
    specialize (IH (map_insert k x acc) v'' p'' ltac:(apply ssuf_length in Hs; lia)).
    destruct (loop_map _ _ _ _ _ _ _) as [l [v3 p3]|[v3 p3]| |]; cbn in IH |- *; auto.
    eapply suf_trans; [apply ssuf_suf; exact Hs|exact IH].
  - assert (Hs : ssuf v v'') by (eapply ssuf_suf_trans; [exact Hk|now apply ssuf_suf]).
    specialize (IH (map_insert k z acc) v'' p'' ltac:(apply ssuf_length in Hs; lia)).
    destruct (loop_map _ _ _ _ _ _ _) as [l [v3 p3]|[v3 p3]| |]; cbn in IH |- *; auto.
    eapply suf_trans; [apply ssuf_suf; exact Hs|exact IH].
Qed.

Lemma child_split sz r : r = child_view sz r ++ after_child sz r.
Proof.
  unfold child_view, after_child. destruct (sz <=? len r).
  - now rewrite firstn_skipn.
  - now rewrite app_nil_r.
Qed.

Lemma after_child_suf sz r : suf r (after_child sz r).
Proof. exists (child_view sz r). apply child_split. Qed.

Lemma abandon_suf sz r rest : suf (child_view sz r) rest -> suf r (rest ++ after_child sz r).
Proof.
  intros (u & Hu). exists u. rewrite app_assoc, <- Hu. apply child_split.
Qed.

Lemma drain_suf p v v' : drain p v = Some v' -> suf v v'.
Proof.
  unfold drain. destruct (p <=? len v); [|discriminate]. intros H; inversion H.
  exists (firstn (N.to_nat p) v). now rewrite firstn_skipn.
Qed.

Lemma close_ok_good v csh sz r x : ssuf v r -> good v (close_ok csh sz r x).
Proof.
  intros H. unfold close_ok. destruct csh; cbn; auto.
  eapply ssuf_suf_trans; [exact H|apply after_child_suf].
Qed.

Arguments loop_items : simpl never.
Arguments loop_upto : simpl never.
Arguments loop_fields : simpl never.
Arguments loop_map : simpl never.

Lemma dec_good pre t : forall sh mx v p, good v (dec_gen pre t sh mx v p).
Proof.
  induction t using ty_ind'; intros sh mx v p; cbn [dec_gen];
    try (apply of_bytes_good; first [apply read_bytes_good | apply read_raw_good]).
  - (* TBytes *)
    pose proof (read_bytes_good sh mx v) as H.
    destruct (read_bytes sh mx v); cbn in H |- *; auto. apply suf_refl.
  - (* TSelf *)
    destruct (drain p v) as [v'|] eqn:E; [|exact I].
    apply drain_suf in E. specialize (IHt sh mx v' 0).
    destruct (dec_gen pre t sh mx v' 0) as [x [v'' p'']|[v'' p'']|[v'' p'']| |]; cbn in IHt |- *; auto.
    + destruct (drain p'' v'') as [v3|] eqn:E2; cbn; auto.
      apply drain_suf in E2. eapply suf_ssuf_trans; [exact E|]. eapply ssuf_suf_trans; eauto.
    + eapply suf_ssuf_trans; eauto.
    + eapply suf_trans; eauto.
  - (* TList *)
    pose proof (read_list_good sh v) as H.
    destruct (read_list sh v) as [sz r|r| |]; cbn in H |- *; auto; [|apply suf_refl].
    pose proof (loop_items_good (dec_gen pre t (child_short sz r) (N.min mx sz)) (zero t)
                  (IHt _ _) (S (length (child_view sz r))) (child_view sz r) 0 ltac:(lia)) as HL.
    destruct (loop_items _ _ _ _ _) as [l [v' p']|[v' p']| |]; cbn in HL |- *; auto.
    now apply close_ok_good.
  - (* TArray *)
    pose proof (read_list_good sh v) as H.
    destruct (read_list sh v) as [sz r|r| |]; cbn in H |- *; auto; [|apply suf_refl].
    pose proof (loop_upto_good (dec_gen pre t (child_short sz r) (N.min mx sz)) (zero t)
                  (IHt _ _) n (child_view sz r) 0) as HL.
    destruct (loop_upto _ _ _ _ _) as [l [v' p']|[v' p']| |]; cbn in HL |- *; auto.
    now apply close_ok_good.
  - (* TStruct *)
    pose proof (read_list_good sh v) as Hh.
    destruct (read_list sh v) as [sz r|r| |]; cbn in Hh |- *; auto; [|apply suf_refl].
    assert (HF : Forall (fun d => elem_good (fst d))
                   (map (fun t' => (dec_gen pre t' (child_short sz r) (N.min mx sz), zero t')) ts)).
    { apply Forall_map. eapply Forall_impl; [|exact H]. intros t' Ht v0 p0. apply Ht. }
    pose proof (loop_fields_good _ HF (child_view sz r) 0) as HL.
    destruct (loop_fields _ _ _) as [l [v' p']|[v' p']| |]; cbn in HL |- *; auto.
    + now apply close_ok_good.
    + destruct pre; cbn; auto. eapply ssuf_suf_trans; [exact Hh|]. now apply abandon_suf.
  - (* TMap *)
    pose proof (read_list_good sh v) as H.
    destruct (read_list sh v) as [sz r|r| |]; cbn in H |- *; auto; [|apply suf_refl].
    pose proof (loop_map_good (dec_gen pre t1 (child_short sz r) (N.min mx sz))
                  (dec_gen pre t2 (child_short sz r) (N.min mx sz)) (zero t2)
                  (IHt1 _ _) (IHt2 _ _) (S (length (child_view sz r))) [] (child_view sz r) 0 ltac:(lia)) as HL.
    destruct (loop_map _ _ _ _ _ _ _) as [l [v' p']|[v' p']| |]; cbn in HL |- *; auto.
    now apply close_ok_good.
  - (* TPtr *)
    specialize (IHt sh mx v p).
    destruct (dec_gen pre t sh mx v p) as [x [v' p']|[v' p']|[v' p']| |]; cbn in IHt |- *; auto.
Qed.

(* ------------------------------------------------------------------------- *)
(* the current code never leaves a child reader behind                        *)
(* ------------------------------------------------------------------------- *)

Definition pend_ok (p : N) (r : res) : Prop :=
  match r with
  | ROk _ (_, p') => p' = p \/ p' = 0
  | RNil (_, p') => p' = p \/ p' = 0
  | REof (_, p') => p' = p \/ p' = 0
  | _ => True
  end.

Lemma of_bytes_pend h v p f : pend_ok p (of_bytes h v p f).
Proof. destruct h; cbn; auto. destruct (f a); cbn; auto. Qed.

Lemma close_ok_pend p csh sz r x : pend_ok p (close_ok csh sz r x).
Proof. unfold close_ok. destruct csh; cbn; auto. Qed.

Lemma dec_pend t : forall sh mx v p, pend_ok p (dec_gen false t sh mx v p).
Proof.
  induction t using ty_ind'; intros sh mx v p; cbn [dec_gen]; try apply of_bytes_pend.
  - destruct (read_bytes sh mx v); cbn; auto.
  - destruct (drain p v) as [v'|]; [|exact I].
    specialize (IHt sh mx v' 0).
    destruct (dec_gen false t sh mx v' 0) as [x [v'' p'']|[v'' p'']|[v'' p'']| |]; cbn in IHt |- *; auto.
    + destruct (drain p'' v''); cbn; auto.
    + right. destruct IHt; assumption.
    + right. destruct IHt; assumption.
  - destruct (read_list sh v); cbn; auto.
    destruct (loop_items _ _ _ _ _) as [l [v' p']|[v' p']| |]; cbn; auto. apply close_ok_pend.
  - destruct (read_list sh v); cbn; auto.
    destruct (loop_upto _ _ _ _ _) as [l [v' p']|[v' p']| |]; cbn; auto. apply close_ok_pend.
  - destruct (read_list sh v); cbn; auto.
    destruct (loop_fields _ _ _) as [l [v' p']|[v' p']| |]; cbn; auto. apply close_ok_pend.
  - destruct (read_list sh v); cbn; auto.
    destruct (loop_map _ _ _ _ _ _ _) as [l [v' p']|[v' p']| |]; cbn; auto. apply close_ok_pend.
  - specialize (IHt sh mx v p).
    destruct (dec_gen false t sh mx v p) as [x [v' p']|[v' p']|[v' p']| |]; cbn in IHt |- *; auto.
Qed.

Lemma unmarshal_clean t bs x rest p : unmarshal t bs = ROk x (rest, p) -> p = 0.
Proof.
  unfold unmarshal, dec. intros H. pose proof (dec_pend t false (len bs) bs 0) as HP.
  rewrite H in HP. cbn in HP. destruct HP; assumption.
Qed.

(* ------------------------------------------------------------------------- *)
(* end of list and the nil marker                                             *)
(* ------------------------------------------------------------------------- *)

Lemma drain_0 v : drain 0 v = Some v.
Proof. unfold drain. destruct (0 <=? len v) eqn:E; [reflexivity|lia]. Qed.

Lemma take_0 v : take 0 v = Some ([], v).
Proof. apply (take_app' 0 [] v). reflexivity. Qed.

Lemma dec_nil pre t : forall mx, dec_gen pre t false mx [] 0 = REof ([], 0).
Proof.
  induction t using ty_ind'; intros mx; cbn [dec_gen]; try reflexivity.
  - rewrite drain_0, IHt. reflexivity.
  - rewrite IHt. reflexivity.
Qed.

Lemma dec_null pre t : forall sh mx rest, 2 + len rest <= mx ->
  dec_gen pre t sh mx (null ++ rest) 0 =
  if absorbs t then ROk (nilv t) (rest, 0) else RNil (rest, 0).
Proof.
  induction t using ty_ind'; intros sh mx rest Hmx; cbn [dec_gen absorbs nilv];
    rewrite ?read_bytes_null, ?read_list_null; try reflexivity.
  - (* TRaw *)
    unfold null. cbn [app read_raw]. ifs.
    change (248 - 247) with 1. change (0 :: rest) with ([0] ++ rest).
    rewrite (take_app' 1 [0] rest) by reflexivity.
    change (bytes_to_size [0]) with (Some 0).
    unfold read_more. change (len [248; 0]) with 2. ifs.
    rewrite take_0. reflexivity.
  - (* TSelf *)
    rewrite drain_0, IHt by assumption. destruct (absorbs t); [|reflexivity].
    rewrite drain_0. reflexivity.
  - (* TPtr *)
    rewrite IHt by assumption. destruct (absorbs t); reflexivity.
Qed.

(* ------------------------------------------------------------------------- *)
(* map keys: a strict total order per key kind                                *)
(* ------------------------------------------------------------------------- *)

Lemma bytes_ltb_irrefl a : bytes_ltb a a = false.
Proof.
  induction a as [|x a IH]; cbn [bytes_ltb]; [reflexivity|].
  rewrite IH. destruct (x <? x) eqn:E; [lia|]. cbn. apply andb_false_r.
Qed.

Lemma bytes_ltb_trans a : forall b c,
  bytes_ltb a b = true -> bytes_ltb b c = true -> bytes_ltb a c = true.
Proof.
  induction a as [|x a IH]; intros [|y b] [|z c]; cbn [bytes_ltb]; try discriminate; auto.
  intros H1 H2.
  apply orb_true_iff in H1. apply orb_true_iff in H2. apply orb_true_iff.
  destruct H1 as [H1|H1], H2 as [H2|H2].
  - left. lia.
  - apply andb_true_iff in H2 as [H2 _]. left. lia.
  - apply andb_true_iff in H1 as [H1 _]. left. lia.
  - apply andb_true_iff in H1 as [H1 H1']. apply andb_true_iff in H2 as [H2 H2'].
    right. apply andb_true_iff. split; [lia|]. eapply IH; eauto.
Qed.

Lemma bytes_ltb_total a : forall b,
  bytes_ltb a b = false -> bytes_ltb b a = false -> a = b.
Proof.
  induction a as [|x a IH]; intros [|y b]; cbn [bytes_ltb]; try discriminate; auto.
  intros H1 H2.
  apply orb_false_iff in H1 as [H1 H1']. apply orb_false_iff in H2 as [H2 H2'].
  assert (x = y) by lia. subst y.
  rewrite N.eqb_refl in H1', H2'. cbn in H1', H2'. f_equal. now apply IH.
Qed.

(* 1 string, 2 int, 3 uint, 0 anything else *)
Definition kkind (a : value) : N :=
  match a with VString _ => 1 | VInt _ => 2 | VUint _ => 3 | _ => 0 end.
Definition tkind (k : ty) : N :=
  match k with TString => 1 | TInt _ => 2 | TUint _ => 3 | _ => 0 end.

Lemma key_lt_irrefl a : key_lt a a = false.
Proof. destruct a; cbn; try reflexivity; try lia. apply bytes_ltb_irrefl. Qed.

Lemma key_lt_trans a b c : key_lt a b = true -> key_lt b c = true -> key_lt a c = true.
Proof.
  destruct a, b; cbn; try discriminate; destruct c; cbn; try discriminate; try lia.
  apply bytes_ltb_trans.
Qed.

Lemma key_lt_total a b : kkind a = kkind b -> kkind a <> 0 ->
  key_lt a b = false -> key_lt b a = false -> a = b.
Proof.
  destruct a, b; cbn; try discriminate; try congruence; intros _ _ H1 H2.
  - f_equal. lia.
  - f_equal. lia.
  - f_equal. now apply bytes_ltb_total.
Qed.

Lemma key_lt_asym a b : key_lt a b = true -> key_lt b a = false.
Proof.
  intros H. destruct (key_lt b a) eqn:E; [|reflexivity].
  pose proof (key_lt_trans _ _ _ H E) as H2. rewrite key_lt_irrefl in H2. discriminate.
Qed.

Lemma wtb_key_kind k a : key_ty k = true -> wtb k a = true -> kkind a = tkind k /\ tkind k <> 0.
Proof.
  destruct k; cbn; try discriminate; intros _; destruct a; cbn; try discriminate; intros _; split; congruence.
Qed.

(* ------------------------------------------------------------------------- *)
(* sorted association lists                                                   *)
(* ------------------------------------------------------------------------- *)

Section Assoc.
  Context {A : Type}.
  Definition klt (x y : value * A) : Prop := key_lt (fst x) (fst y) = true.
  Definition ssorted (l : list (value * A)) : Prop := StronglySorted klt l.
  Definition kinds (c : N) (l : list (value * A)) : Prop := Forall (fun kv => kkind (fst kv) = c) l.

  Lemma map_insert_in k (x : A) acc kv :
    In kv (map_insert k x acc) -> kv = (k, x) \/ In kv acc.
  Proof.
    induction acc as [|[k' x'] r IH]; cbn [map_insert].
    - intros [<-|[]]. now left.
    - destruct (key_lt k k').
      + intros [<-|H]; [now left|now right].
      + destruct (key_lt k' k).
        * intros [<-|H]; [right; now left|]. destruct (IH H); [now left|right; now right].
        * intros [<-|H]; [now left|right; now right].
  Qed.

  Lemma map_insert_kinds c k (x : A) acc : kkind k = c -> kinds c acc -> kinds c (map_insert k x acc).
  Proof.
    intros Hk H. apply Forall_forall. intros kv Hin. apply map_insert_in in Hin as [->|Hin]; [exact Hk|].
    eapply Forall_forall in H; eauto.
  Qed.

  Lemma map_insert_sorted c k (x : A) acc : c <> 0 -> kkind k = c -> kinds c acc ->
    ssorted acc -> ssorted (map_insert k x acc).
  Proof.
    intros Hc Hk. induction acc as [|[k' x'] r IH]; intros HK HS; cbn [map_insert].
    - constructor; constructor.
    - inversion HS as [|? ? HS' HF]; subst. inversion HK as [|? ? Hk' HK']; subst. cbn in Hk'.
      destruct (key_lt k k') eqn:E1.
      + constructor; [exact HS|]. constructor; [exact E1|].
        eapply Forall_impl; [|exact HF]. intros kv Hkv. unfold klt in *. cbn in *.
        eapply key_lt_trans; eauto.
      + destruct (key_lt k' k) eqn:E2.
        * constructor; [now apply IH|].
          apply Forall_forall. intros kv Hin. apply map_insert_in in Hin as [->|Hin].
          -- exact E2.
          -- eapply Forall_forall in HF; eauto.
        * assert (k = k') by (apply key_lt_total; congruence). subst k'.
          constructor; [exact HS'|exact HF].
  Qed.

  Lemma map_insert_last k (x : A) acc :
    Forall (fun kv => key_lt (fst kv) k = true) acc -> map_insert k x acc = acc ++ [(k, x)].
  Proof.
    induction 1 as [|[k' x'] r Hk Hr IH]; cbn [map_insert app]; [reflexivity|].
    cbn in Hk. rewrite (key_lt_asym _ _ Hk), Hk, IH. reflexivity.
  Qed.

  Lemma map_insert_perm c k (x : A) acc : c <> 0 -> kkind k = c -> kinds c acc ->
    ~ In k (map fst acc) -> Permutation ((k, x) :: acc) (map_insert k x acc).
  Proof.
    intros Hc Hk. induction acc as [|[k' x'] r IH]; intros HK Hn; cbn [map_insert]; [reflexivity|].
    inversion HK as [|? ? Hk' HK']; subst. cbn in Hk'.
    destruct (key_lt k k') eqn:E1; [reflexivity|].
    destruct (key_lt k' k) eqn:E2.
    - rewrite perm_swap. apply perm_skip. apply IH; [exact HK'|]. intros Hin. apply Hn. now right.
    - exfalso. apply Hn. left. cbn. symmetry. apply key_lt_total; congruence.
  Qed.

  Lemma sort_by_key_kinds c (l : list (value * A)) : kinds c l -> kinds c (sort_by_key l).
  Proof.
    induction 1 as [|[k x] r Hk Hr IH]; cbn; [constructor|].
    apply map_insert_kinds; assumption.
  Qed.

  Lemma sort_by_key_sorted c (l : list (value * A)) : c <> 0 -> kinds c l -> ssorted (sort_by_key l).
  Proof.
    intros Hc. induction 1 as [|[k x] r Hk Hr IH]; cbn; [constructor|].
    eapply map_insert_sorted; eauto. now apply sort_by_key_kinds.
  Qed.

  Lemma sort_by_key_perm c (l : list (value * A)) : c <> 0 -> kinds c l ->
    NoDup (map fst l) -> Permutation l (sort_by_key l).
  Proof.
    intros Hc. induction 1 as [|[k x] r Hk Hr IH]; intros Hnd; cbn; [reflexivity|].
    cbn in Hnd. inversion Hnd as [|? ? Hnin Hnd']; subst.
    etransitivity; [apply perm_skip, IH, Hnd'|].
    eapply map_insert_perm; eauto.
    - now apply sort_by_key_kinds.
    - intros Hin. apply Hnin. eapply Permutation_in; [|exact Hin].
      apply Permutation_map. symmetry. apply IH, Hnd'.
  Qed.

  Lemma ssorted_perm_eq (l1 : list (value * A)) : forall l2,
    ssorted l1 -> ssorted l2 -> Permutation l1 l2 -> l1 = l2.
  Proof.
    induction l1 as [|a l1 IH]; intros l2 H1 H2 HP.
    - apply Permutation_nil in HP. now subst.
    - destruct l2 as [|b l2]; [apply Permutation_sym, Permutation_nil in HP; discriminate|].
      inversion H1 as [|? ? H1' F1]; subst. inversion H2 as [|? ? H2' F2]; subst.
      assert (a = b).
      { assert (Ha : In a (b :: l2)) by (eapply Permutation_in; [exact HP|now left]).
        assert (Hb : In b (a :: l1)) by (eapply Permutation_in; [symmetry; exact HP|now left]).
        destruct Ha as [->|Ha]; [reflexivity|]. destruct Hb as [->|Hb]; [reflexivity|].
        eapply Forall_forall in F1; eauto. eapply Forall_forall in F2; eauto.
        unfold klt in *. rewrite (key_lt_asym _ _ F1) in F2. discriminate. }
      subst b. f_equal. apply IH; auto. eapply Permutation_cons_inv; eauto.
  Qed.

  Lemma sort_by_key_perm_inv c (l l' : list (value * A)) : c <> 0 -> kinds c l ->
    NoDup (map fst l) -> Permutation l l' -> sort_by_key l = sort_by_key l'.
  Proof.
    intros Hc HK Hnd HP.
    assert (HK' : kinds c l') by (eapply Permutation_Forall; eauto).
    assert (Hnd' : NoDup (map fst l')) by (eapply Permutation_NoDup; [apply Permutation_map; exact HP|exact Hnd]).
    apply ssorted_perm_eq.
    - eapply sort_by_key_sorted; eauto.
    - eapply sort_by_key_sorted; eauto.
    - etransitivity; [symmetry; eapply sort_by_key_perm; eauto|].
      etransitivity; [exact HP|]. eapply sort_by_key_perm; eauto.
  Qed.
End Assoc.

Lemma map_insert_map {A B} (g : value * A -> B) k x (acc : list (value * A)) :
  map_insert k (g (k, x)) (map (fun kv => (fst kv, g kv)) acc) =
  map (fun kv => (fst kv, g kv)) (map_insert k x acc).
Proof.
  induction acc as [|[k' x'] r IH]; cbn [map_insert map fst]; [reflexivity|].
  destruct (key_lt k k'); [reflexivity|]. destruct (key_lt k' k); [|reflexivity].
  cbn [map fst]. now rewrite IH.
Qed.

Lemma sort_by_key_cons {A} (kv : value * A) l :
  sort_by_key (kv :: l) = map_insert (fst kv) (snd kv) (sort_by_key l).
Proof. reflexivity. Qed.

Lemma sort_by_key_map {A B} (g : value * A -> B) (l : list (value * A)) :
  sort_by_key (map (fun kv => (fst kv, g kv)) l) = map (fun kv => (fst kv, g kv)) (sort_by_key l).
Proof.
  induction l as [|[k x] r IH]; [reflexivity|].
  cbn [map]. rewrite !sort_by_key_cons. cbn [fst snd]. rewrite IH. apply (map_insert_map g k x).
Qed.

(* nodup_keys on well-kinded keys is NoDup *)
Lemma nodup_keys_NoDup {A} c (l : list (value * A)) : c <> 0 -> kinds c l ->
  nodup_keys l = true -> NoDup (map fst l).
Proof.
  intros Hc. induction 1 as [|[k x] r Hk Hr IH]; cbn [nodup_keys map fst]; intros H; [constructor|].
  apply andb_true_iff in H as [H1 H2]. constructor; [|now apply IH].
  intros Hin. apply in_map_iff in Hin as ([k' x'] & Hf & Hin). cbn in Hf. subst k'.
  apply negb_true_iff in H1.
  assert (existsb (fun kv => key_eqb k (fst kv)) r = true).
  { apply existsb_exists. exists (k, x'). split; [exact Hin|]. cbn. unfold key_eqb.
    now rewrite key_lt_irrefl. }
  congruence.
Qed.

(* ------------------------------------------------------------------------- *)
(* round trip                                                                 *)
(* ------------------------------------------------------------------------- *)

Fixpoint wtb_list (ts : list ty) (l : list value) : bool :=
  match ts, l with
  | [], [] => true
  | t' :: ts', x :: l' => wtb t' x && wtb_list ts' l'
  | _, _ => false
  end.
Fixpoint canon_list (ts : list ty) (l : list value) : list value :=
  match ts, l with
  | t' :: ts', x :: l' => canon t' x :: canon_list ts' l'
  | _, _ => l
  end.

Lemma wtb_struct ts l : wtb (TStruct ts) (VStruct l) = wtb_list ts l.
Proof. reflexivity. Qed.
Lemma canon_struct ts l : canon (TStruct ts) (VStruct l) = VStruct (canon_list ts l).
Proof. reflexivity. Qed.

Lemma enc_bytes_len b : len b <= len (enc_bytes b).
Proof.
  destruct b as [|x [|y b']]; cbn [enc_bytes]; lens; try lia.
  - destruct (x <? 128); lens; lia.
  - destruct (_ <=? 55); lens; lia.
Qed.

Lemma one_item_nonempty b : one_item b = true -> b <> [].
Proof. intros H ->. discriminate H. Qed.

Lemma null_nonempty : null <> [].
Proof. discriminate. Qed.

Lemma enc_nonempty t : forall v, wtb t v = true -> enc v <> [].
Proof.
  induction t using ty_ind'; intros v Hw;
    try (cbn [wtb] in Hw; now apply IHt);
    destruct v; try discriminate Hw; cbn [enc];
    try apply enc_bytes_nonempty; try apply enc_list_nonempty.
  - destruct b; [apply enc_bytes_nonempty|apply null_nonempty].
  - cbn [wtb] in Hw. apply andb_true_iff in Hw as [_ Hw]. now apply one_item_nonempty.
  - destruct l; [apply enc_list_nonempty|apply null_nonempty].
  - destruct m; [apply enc_list_nonempty|apply null_nonempty].
  - destruct p; [|apply null_nonempty]. cbn [wtb] in Hw. now apply IHt.
Qed.

Lemma loop_items_S e z f v p :
  loop_items e z (S f) v p =
  match e v p with
  | ROk x (v', p') => lcons x (loop_items e z f v' p')
  | RNil (v', p') => lcons z (loop_items e z f v' p')
  | REof s => LOk [] s
  | RErr => LErr
  | RFuel => LFuel
  end.
Proof. reflexivity. Qed.

Lemma loop_upto_S e z k v p :
  loop_upto e z (S k) v p =
  match e v p with
  | ROk x (v', p') => lcons x (loop_upto e z k v' p')
  | RNil (v', p') => lcons z (loop_upto e z k v' p')
  | REof s => LOk (repeat z (S k)) s
  | RErr => LErr
  | RFuel => LFuel
  end.
Proof. reflexivity. Qed.

Lemma loop_fields_cons d z ds v p :
  loop_fields ((d, z) :: ds) v p =
  match d v p with
  | ROk x (v', p') => lcons x (loop_fields ds v' p')
  | REof (v', p') => lcons z (loop_fields ds v' p')
  | RNil s => LNil s
  | RErr => LErr
  | RFuel => LFuel
  end.
Proof. reflexivity. Qed.

Lemma loop_map_S kd vd z f acc v p :
  loop_map kd vd z (S f) acc v p =
  match kd v p with
  | REof s => LOk acc s
  | RNil _ => LErr
  | RErr => LErr
  | RFuel => LFuel
  | ROk k (v', p') =>
      match vd v' p' with
      | ROk x (v'', p'') => loop_map kd vd z f (map_insert k x acc) v'' p''
      | RNil (v'', p'') => loop_map kd vd z f (map_insert k z acc) v'' p''
      | REof _ => LErr
      | RErr => LErr
      | RFuel => LFuel
      end
  end.
Proof. reflexivity. Qed.

Definition rt_at (pre : bool) (t : ty) (x : value) : Prop :=
  forall sh mx rest, len (enc x ++ rest) <= mx -> len (enc x ++ rest) <= max_int ->
    dec_gen pre t sh mx (enc x ++ rest) 0 = ROk (canon t x) (rest, 0).

Lemma items_roundtrip pre t' cmx (l : list value) :
  (forall x, In x l -> rt_at pre t' x) ->
  (forall x, In x l -> enc x <> []) ->
  len (concat (map enc l)) <= cmx -> len (concat (map enc l)) <= max_int ->
  forall fuel, (length (concat (map enc l)) < fuel)%nat ->
  loop_items (dec_gen pre t' false cmx) (zero t') fuel (concat (map enc l)) 0
  = LOk (map (canon t') l) ([], 0).
Proof.
  induction l as [|x l IH]; intros Hrt Hne Hmx Hmax fuel Hf.
  - destruct fuel; [cbn in Hf; lia|]. cbn [map concat]. rewrite loop_items_S, dec_nil. reflexivity.
  - destruct fuel; [lia|]. cbn [map concat] in *. rewrite loop_items_S.
    rewrite (Hrt x (or_introl eq_refl)) by assumption.
    rewrite IH; [reflexivity| | | | |].
    + intros y Hy. apply Hrt. now right.
    + intros y Hy. apply Hne. now right.
    + rewrite len_app in Hmx. lia.
    + rewrite len_app in Hmax. lia.
    + rewrite app_length in Hf. specialize (Hne x (or_introl eq_refl)).
      destruct (enc x); [congruence|cbn in Hf; lia].
Qed.

Lemma upto_roundtrip pre t' cmx (l : list value) :
  (forall x, In x l -> rt_at pre t' x) ->
  len (concat (map enc l)) <= cmx -> len (concat (map enc l)) <= max_int ->
  loop_upto (dec_gen pre t' false cmx) (zero t') (length l) (concat (map enc l)) 0
  = LOk (map (canon t') l) ([], 0).
Proof.
  induction l as [|x l IH]; intros Hrt Hmx Hmax; [reflexivity|].
  cbn [map concat length] in *. rewrite loop_upto_S.
  rewrite (Hrt x (or_introl eq_refl)) by assumption.
  rewrite IH; [reflexivity| | |].
  - intros y Hy. apply Hrt. now right.
  - rewrite len_app in Hmx. lia.
  - rewrite len_app in Hmax. lia.
Qed.

Lemma fields_roundtrip pre cmx (ts : list ty) : forall (l : list value),
  Forall (fun t' => forall x, wtb t' x = true -> rt_at pre t' x) ts ->
  wtb_list ts l = true ->
  len (concat (map enc l)) <= cmx -> len (concat (map enc l)) <= max_int ->
  loop_fields (map (fun t' => (dec_gen pre t' false cmx, zero t')) ts) (concat (map enc l)) 0
  = LOk (canon_list ts l) ([], 0).
Proof.
  induction ts as [|t' ts IH]; intros l HF Hw Hmx Hmax.
  - destruct l; [reflexivity|discriminate].
  - destruct l as [|x l]; [discriminate|]. cbn [wtb_list] in Hw. apply andb_true_iff in Hw as [Hx Hl].
    inversion HF as [|? ? Ht HF']; subst.
    cbn [map concat canon_list] in *. rewrite loop_fields_cons.
    rewrite (Ht x Hx) by assumption.
    rewrite IH; [reflexivity|assumption|assumption| |].
    + rewrite len_app in Hmx. lia.
    + rewrite len_app in Hmax. lia.
Qed.

Definition pair_enc (kv : value * value) : bytes := enc (fst kv) ++ enc (snd kv).

Lemma map_roundtrip pre k t' cmx (S : list (value * value)) :
  (forall kv, In kv S -> rt_at pre k (fst kv) /\ canon k (fst kv) = fst kv /\
                         rt_at pre t' (snd kv) /\ enc (fst kv) <> []) ->
  ssorted S ->
  forall acc fuel,
  Forall (fun a => Forall (fun kv => key_lt (fst a) (fst kv) = true) S) acc ->
  len (concat (map pair_enc S)) <= cmx -> len (concat (map pair_enc S)) <= max_int ->
  (length (concat (map pair_enc S)) < fuel)%nat ->
  loop_map (dec_gen pre k false cmx) (dec_gen pre t' false cmx) (zero t') fuel acc
           (concat (map pair_enc S)) 0
  = LOk (acc ++ map (fun kv => (fst kv, canon t' (snd kv))) S) ([], 0).
Proof.
  induction S as [|[k0 x0] S IH]; intros Hrt HS acc fuel Hacc Hmx Hmax Hf.
  - destruct fuel; [cbn in Hf; lia|]. cbn [map concat]. rewrite loop_map_S, dec_nil.
    now rewrite app_nil_r.
  - destruct fuel; [lia|]. cbn [map concat] in *.
    destruct (Hrt (k0, x0) (or_introl eq_refl)) as (Hk & Hck & Hx & Hne). cbn [fst snd] in *.
    change (pair_enc (k0, x0)) with (enc k0 ++ enc x0) in *.
    rewrite <- app_assoc in Hmx, Hmax, Hf |- *.
    rewrite loop_map_S.
    rewrite Hk by assumption. rewrite Hck.
    assert (Hl2 : len (enc x0 ++ concat (map pair_enc S)) <= len (enc k0 ++ enc x0 ++ concat (map pair_enc S)))
      by (rewrite (len_app (enc k0)); lia).
    rewrite Hx by lia.
    inversion HS as [|? ? HS' HF]; subst.
    rewrite map_insert_last.
    2:{ eapply Forall_impl; [|exact Hacc]. intros a Ha. inversion Ha; subst. assumption. }
    rewrite IH.
    + cbn [map fst snd]. now rewrite <- app_assoc.
    + intros kv Hin. apply Hrt. now right.
    + exact HS'.
    + apply Forall_app. split.
      * eapply Forall_impl; [|exact Hacc]. intros a Ha. inversion Ha; subst. assumption.
      * constructor; [|constructor]. cbn [fst]. exact HF.
    + rewrite !len_app in *. lia.
    + rewrite !len_app in *. lia.
    + rewrite !app_length in Hf. destruct (enc k0); [congruence|cbn in Hf; lia].
Qed.

Lemma fit_id n b : length b = n -> fit n b = b.
Proof.
  intros <-. unfold fit. rewrite firstn_app, Nat.sub_diag, firstn_all. cbn [firstn]. apply app_nil_r.
Qed.

Lemma read_more_one m1 mx org size r x rest :
  read_more m1 org size r = HOk x [] -> m1 <= mx ->
  read_more mx org size (r ++ rest) = HOk x rest /\ x = org ++ r.
Proof.
  unfold read_more. intros H Hm.
  destruct (m1 <? size + len org) eqn:E1; [discriminate|].
  destruct (take size r) as [[b r']|] eqn:E2; [|discriminate].
  inversion H; subst. destruct (mx <? size + len org) eqn:E3; [lia|].
  rewrite (take_more _ _ _ _ rest E2). apply take_spec in E2 as [-> _].
  rewrite app_nil_r. split; reflexivity.
Qed.

Lemma read_raw_one b rest sh mx :
  one_item b = true -> len b <= mx -> read_raw sh mx (b ++ rest) = HOk b rest.
Proof.
  unfold one_item. intros H Hmx.
  destruct (read_raw false (len b) b) as [x [|]| | |] eqn:E; try discriminate. clear H.
  destruct b as [|tag r]; [discriminate|].
  cbn [app]. unfold read_raw in *.
  destruct (tag <? 128).
  { inversion E; subst. reflexivity. }
  destruct (tag <=? 183).
  { destruct (read_more_one _ mx _ _ _ _ rest E Hmx) as [-> ->]. reflexivity. }
  destruct (tag <? 192).
  { destruct (take (tag - 183) r) as [[sb r']|] eqn:E2; [|discriminate].
    rewrite (take_more _ _ _ _ rest E2).
    destruct (bytes_to_size sb); [|discriminate].
    destruct (read_more_one _ mx _ _ _ _ rest E Hmx) as [-> ->].
    apply take_spec in E2 as [-> _]. reflexivity. }
  destruct (tag <=? 247).
  { destruct (read_more_one _ mx _ _ _ _ rest E Hmx) as [-> ->]. reflexivity. }
  destruct (take (tag - 247) r) as [[sb r']|] eqn:E2; [|discriminate].
  rewrite (take_more _ _ _ _ rest E2).
  destruct (bytes_to_size sb); [|discriminate].
  destruct (read_more_one _ mx _ _ _ _ rest E Hmx) as [-> ->].
  apply take_spec in E2 as [-> _]. reflexivity.
Qed.

Lemma child_view_app p rest : child_view (len p) (p ++ rest) = p.
Proof.
  unfold child_view. rewrite len_app. destruct (len p <=? len p + len rest) eqn:E; [|lia].
  unfold len. rewrite Nat2N.id, firstn_app, Nat.sub_diag, firstn_all. cbn [firstn]. apply app_nil_r.
Qed.
Lemma child_short_app p rest : child_short (len p) (p ++ rest) = false.
Proof. unfold child_short. rewrite len_app. lia. Qed.
Lemma after_child_app p rest : after_child (len p) (p ++ rest) = rest.
Proof.
  unfold after_child. rewrite len_app. destruct (len p <=? len p + len rest) eqn:E; [|lia].
  unfold len. rewrite Nat2N.id, skipn_app, Nat.sub_diag, skipn_all. reflexivity.
Qed.

Lemma canon_key k v : key_ty k = true -> canon k v = v.
Proof. destruct k; try discriminate; reflexivity. Qed.

Lemma width_le w : width_ok w = true -> w <= 64.
Proof. unfold width_ok. lia. Qed.

Ltac sizes :=
  match goal with
  | |- len ?b <= _ => pose proof (enc_bytes_len b); lens; lia
  end.

Lemma roundtrip pre t : ty_ok t = true -> forall x, wtb t x = true -> rt_at pre t x.
Proof.
  induction t using ty_ind'; intros Hok x Hw sh mx rest Hmx Hmax.
  - (* TUint *) destruct x; try discriminate Hw. cbn [wtb] in Hw. cbn [enc dec_gen canon] in *.
    rewrite read_bytes_enc by sizes. cbn [of_bytes].
    rewrite to_uint_roundtrip; [reflexivity|now apply width_le|lia].
  - (* TInt *) destruct x; try discriminate Hw. cbn [wtb] in Hw. cbn [enc dec_gen canon] in *.
    rewrite read_bytes_enc by sizes. cbn [of_bytes].
    rewrite to_int_roundtrip; [reflexivity|now apply width_le|assumption].
  - (* TBool *) destruct x; try discriminate Hw. cbn [enc dec_gen canon] in *.
    rewrite read_bytes_enc by sizes. cbn [of_bytes]. rewrite to_bool_roundtrip. reflexivity.
  - (* TString *) destruct x; try discriminate Hw. cbn [enc dec_gen canon] in *.
    rewrite read_bytes_enc by sizes. reflexivity.
  - (* TBytes *) destruct x; try discriminate Hw. destruct b; cbn [enc dec_gen canon] in *.
    + rewrite read_bytes_enc by sizes. reflexivity.
    + rewrite read_bytes_null. reflexivity.
  - (* TByteArr *) destruct x; try discriminate Hw. cbn [wtb] in Hw. apply andb_true_iff in Hw as [Hl _].
    apply Nat.eqb_eq in Hl. cbn [enc dec_gen canon] in *.
    rewrite read_bytes_enc by sizes. cbn [of_bytes]. rewrite fit_id by assumption. reflexivity.
  - (* TBig *) destruct x; try discriminate Hw. cbn [enc dec_gen canon] in *.
    rewrite read_bytes_enc by sizes. cbn [of_bytes]. rewrite z_roundtrip. reflexivity.
  - (* TRaw *) destruct x; try discriminate Hw. cbn [wtb] in Hw. apply andb_true_iff in Hw as [_ Ho].
    cbn [enc dec_gen canon] in *. rewrite read_raw_one; [reflexivity|assumption|lens; lia].
  - (* TSelf *) cbn [ty_ok wtb] in *. cbn [dec_gen canon]. rewrite drain_0.
    rewrite (IHt Hok x Hw) by assumption. rewrite drain_0. reflexivity.
  - (* TList *) destruct x; try discriminate Hw. cbn [ty_ok] in Hok. destruct l as [l|]; cbn [wtb enc dec_gen canon] in *.
    2:{ rewrite read_list_null. reflexivity. }
    set (P := concat (map enc l)) in *.
    pose proof (enc_list_len P) as HP. rewrite len_app in Hmx, Hmax.
    rewrite read_list_enc by lia.
    rewrite child_view_app, child_short_app.
    rewrite forallb_forall in Hw.
    subst P. rewrite items_roundtrip; [unfold close_ok; rewrite after_child_app; reflexivity| | |lia|lia|lia].
    + intros y Hy. apply IHt; [assumption|now apply Hw].
    + intros y Hy. eapply enc_nonempty. now apply Hw.
  - (* TArray *) destruct x; try discriminate Hw. cbn [ty_ok] in Hok. cbn [wtb] in Hw.
    apply andb_true_iff in Hw as [Hl Hw]. apply Nat.eqb_eq in Hl. subst n.
    cbn [enc dec_gen canon] in *.
    set (P := concat (map enc l)) in *.
    pose proof (enc_list_len P) as HP. rewrite len_app in Hmx, Hmax.
    rewrite read_list_enc by lia.
    rewrite child_view_app, child_short_app.
    rewrite forallb_forall in Hw.
    subst P. rewrite upto_roundtrip; [unfold close_ok; rewrite after_child_app; reflexivity| |lia|lia].
    intros y Hy. apply IHt; [assumption|now apply Hw].
  - (* TStruct *) destruct x; try discriminate Hw. cbn [ty_ok] in Hok. rewrite wtb_struct in Hw.
    rewrite canon_struct. cbn [enc dec_gen] in *.
    set (P := concat (map enc l)) in *.
    pose proof (enc_list_len P) as HP. rewrite len_app in Hmx, Hmax.
    rewrite read_list_enc by lia.
    rewrite child_view_app, child_short_app.
    subst P. rewrite fields_roundtrip; [unfold close_ok; rewrite after_child_app; reflexivity| |assumption|lia|lia].
    rewrite forallb_forall in Hok. apply Forall_forall. intros t' Ht'.
    rewrite Forall_forall in H. intros y Hy. apply H; auto.
  - (* TMap *) destruct x; try discriminate Hw. cbn [ty_ok] in Hok.
    apply andb_true_iff in Hok as [Hok Hcf]. apply andb_true_iff in Hok as [Hok Hok2].
    apply andb_true_iff in Hok as [Hkt Hok1].
    destruct m as [ps|]; cbn [wtb enc dec_gen canon] in *.
    2:{ rewrite read_list_null. reflexivity. }
    apply andb_true_iff in Hw as [Hw Hnd]. rewrite forallb_forall in Hw.
    assert (HK : kinds (tkind t1) ps).
    { apply Forall_forall. intros kv Hin. specialize (Hw kv Hin). apply andb_true_iff in Hw as [Hw1 _].
      now apply (wtb_key_kind t1). }
    assert (Hc : tkind t1 <> 0) by (destruct t1; try discriminate Hkt; discriminate).
    assert (HND : NoDup (map fst ps)) by (eapply nodup_keys_NoDup; eauto).
    pose proof (sort_by_key_perm _ ps Hc HK HND) as HPerm.
    pose proof (sort_by_key_sorted _ ps Hc HK) as HS.
    rewrite (map_ext _ (fun kv => (fst kv, pair_enc kv))) in * by (intros [? ?]; reflexivity).
    rewrite (sort_by_key_map pair_enc) in *. rewrite map_map in *. cbn [snd] in *.
    rewrite (sort_by_key_map (fun kv => canon t2 (snd kv))).
    set (S := sort_by_key ps) in *. clearbody S.
    change (fun x : value * value => pair_enc x) with pair_enc in *.
    pose proof (enc_list_len (concat (map pair_enc S))) as HP. rewrite len_app in Hmx, Hmax.
    assert (Hl1 : len (concat (map pair_enc S)) <= max_int).
    { eapply N.le_trans; [apply N.lt_le_incl, HP|]. eapply N.le_trans; [|exact Hmax]. apply N.le_add_r. }
    assert (Hl2 : len (concat (map pair_enc S)) <= mx).
    { eapply N.le_trans; [apply N.lt_le_incl, HP|]. eapply N.le_trans; [|exact Hmx]. apply N.le_add_r. }
    rewrite read_list_enc by exact Hl1.
    rewrite child_view_app, child_short_app.
    rewrite (map_roundtrip pre t1 t2 _ S);
      [unfold close_ok; rewrite after_child_app; reflexivity| |assumption|apply Forall_nil
      |apply N.min_glb; [exact Hl2|apply N.le_refl]|exact Hl1|apply Nat.lt_succ_diag_r].
    intros kv Hin. assert (Hin' : In kv ps) by (eapply Permutation_in; [symmetry; exact HPerm|exact Hin]).
    specialize (Hw kv Hin'). apply andb_true_iff in Hw as [Hw1 Hw2].
    repeat split.
    + now apply IHt1.
    + now apply canon_key.
    + now apply IHt2.
    + eapply enc_nonempty; eauto.
  - (* TPtr *) destruct x; try discriminate Hw. cbn [ty_ok] in Hok. destruct p as [y|]; cbn [wtb enc dec_gen canon] in *.
    + rewrite (IHt Hok y Hw) by assumption. reflexivity.
    + rewrite dec_null by (unfold null in Hmx; lens; lia).
      destruct (absorbs t); reflexivity.
Qed.

(* ------------------------------------------------------------------------- *)
(* property-level statements                                                  *)
(* ------------------------------------------------------------------------- *)

Lemma unmarshal_roundtrip t v rest :
  ty_ok t = true -> wtb t v = true -> len (marshal v ++ rest) <= max_int ->
  unmarshal t (marshal v ++ rest) = ROk (canon t v) (rest, 0).
Proof.
  intros Hok Hw Hmax. unfold unmarshal, marshal, dec in *.
  apply (roundtrip false t Hok v Hw); [apply N.le_refl|exact Hmax].
Qed.

Lemma unmarshal_pre_roundtrip t v rest :
  ty_ok t = true -> wtb t v = true -> len (marshal v ++ rest) <= max_int ->
  unmarshal_pre t (marshal v ++ rest) = ROk (canon t v) (rest, 0).
Proof.
  intros Hok Hw Hmax. unfold unmarshal_pre, marshal, dec_pre in *.
  apply (roundtrip true t Hok v Hw); [apply N.le_refl|exact Hmax].
Qed.

Lemma marshal_injective t v1 v2 :
  ty_ok t = true -> wtb t v1 = true -> wtb t v2 = true ->
  len (marshal v1) <= max_int ->
  marshal v1 = marshal v2 -> canon t v1 = canon t v2.
Proof.
  intros Hok H1 H2 Hmax He.
  pose proof (unmarshal_roundtrip t v1 [] Hok H1) as R1.
  pose proof (unmarshal_roundtrip t v2 [] Hok H2) as R2.
  rewrite app_nil_r in *. rewrite <- He in R2. rewrite R1 in R2 by assumption.
  specialize (R2 Hmax). now inversion R2.
Qed.

(* determinism: the encoding of a map does not depend on the order of its pairs *)
Lemma marshal_map_perm k ps ps' :
  key_ty k = true -> (forall kv, In kv ps -> wtb k (fst kv) = true) ->
  NoDup (map fst ps) -> Permutation ps ps' ->
  marshal (VMap (Some ps)) = marshal (VMap (Some ps')).
Proof.
  intros Hk Hw Hnd HP. unfold marshal. cbn [enc]. do 3 f_equal.
  set (G := fun kv : value * value => let (k0, x) := kv in (k0, enc k0 ++ enc x)).
  assert (Hfst : forall l, map fst (map G l) = map fst l).
  { intros l. rewrite map_map. apply map_ext. intros [? ?]. reflexivity. }
  apply (sort_by_key_perm_inv (tkind k)).
  - destruct k; try discriminate Hk; discriminate.
  - apply Forall_forall. intros kv Hin. apply in_map_iff in Hin as ([k0 x] & <- & Hin).
    cbn [G fst]. apply (wtb_key_kind k); [assumption|]. apply (Hw (k0, x) Hin).
  - now rewrite Hfst.
  - now apply Permutation_map.
Qed.

(* never reads past / fuel *)
Lemma dec_reads_prefix pre t sh mx v p x rest p' :
  dec_gen pre t sh mx v p = ROk x (rest, p') -> exists used, used <> [] /\ v = used ++ rest.
Proof. intros H. pose proof (dec_good pre t sh mx v p) as G. rewrite H in G. exact G. Qed.

Lemma dec_no_fuel pre t sh mx v p : dec_gen pre t sh mx v p <> RFuel.
Proof. intros H. pose proof (dec_good pre t sh mx v p) as G. rewrite H in G. exact G. Qed.

(* integer overflow *)
Lemma bytes_to_uint64_z bs n : bytes_to_uint64 bs = Some n -> bytes_to_z bs = Z.of_N n.
Proof.
  unfold bytes_to_uint64, bytes_to_z. destruct bs as [|b r]; [intros H; inversion H; reflexivity|].
  destruct (b =? 0) eqn:E0.
  - destruct (8 <? length r)%nat; [discriminate|]. intros H; inversion H; subst.
    assert (b = 0) by lia. subst b. destruct (128 <=? 0) eqn:E; [lia|]. cbn [be_n]. lia.
  - destruct (128 <=? b); [discriminate|]. destruct (8 <? _)%nat; [discriminate|].
    intros H; inversion H; subst. reflexivity.
Qed.

Lemma int_overflow_rejected pre w sh mx v p bs r :
  read_bytes sh mx v = HOk bs r ->
  (in_int_range w (bytes_to_z bs) = false -> dec_gen pre (TInt w) sh mx v p = RErr) /\
  ((bytes_to_z bs < 0 \/ 2 ^ Z.of_N w <= bytes_to_z bs)%Z -> dec_gen pre (TUint w) sh mx v p = RErr) /\
  (bytes_to_z bs <> 0%Z -> bytes_to_z bs <> 1%Z -> dec_gen pre TBool sh mx v p = RErr).
Proof.
  intros H. cbn [dec_gen]. rewrite H. cbn [of_bytes]. repeat split.
  - intros Hr. unfold to_int, bytes_to_int64. destruct (8 <? length bs)%nat; [reflexivity|].
    rewrite Hr. reflexivity.
  - intros Hr. unfold to_uint. destruct (bytes_to_uint64 bs) as [n|] eqn:E; [|reflexivity].
    apply bytes_to_uint64_z in E. destruct (n <? 2 ^ w) eqn:E2; [|reflexivity].
    exfalso. assert (Z.of_N n < 2 ^ Z.of_N w)%Z by (rewrite <- (N2Z.inj_pow 2); lia). lia.
  - intros H0 H1. unfold to_bool. destruct (bytes_to_uint64 bs) as [n|] eqn:E; [|reflexivity].
    apply bytes_to_uint64_z in E. destruct n as [|[q|q|]]; try reflexivity; lia.
Qed.

Lemma int_decoded_in_range pre w sh mx v p z s :
  dec_gen pre (TInt w) sh mx v p = ROk (VInt z) s -> in_int_range w z = true.
Proof.
  cbn [dec_gen]. destruct (read_bytes sh mx v); cbn [of_bytes]; try discriminate.
  unfold to_int. destruct (bytes_to_int64 a); [|discriminate].
  destruct (in_int_range w z0) eqn:E; [|discriminate]. cbn. intros H; inversion H; subst. exact E.
Qed.

Lemma uint_decoded_in_range pre w sh mx v p n s :
  dec_gen pre (TUint w) sh mx v p = ROk (VUint n) s -> n < 2 ^ w.
Proof.
  cbn [dec_gen]. destruct (read_bytes sh mx v); cbn [of_bytes]; try discriminate.
  unfold to_uint. destruct (bytes_to_uint64 a); [|discriminate].
  destruct (n0 <? 2 ^ w) eqn:E; [|discriminate]. cbn. intros H; inversion H; subst. lia.
Qed.

Lemma int_in_range w sh mx v p s :
  (forall z, dec (TInt w) sh mx v p = ROk (VInt z) s -> in_int_range w z = true) /\
  (forall n, dec (TUint w) sh mx v p = ROk (VUint n) s -> n < 2 ^ w).
Proof.
  split; intros x H.
  - exact (int_decoded_in_range false w sh mx v p x s H).
  - exact (uint_decoded_in_range false w sh mx v p x s H).
Qed.

(* size bound *)
Lemma size_bound_bytes sh mx tag r :
  (0x80 <= tag <= 0xB7 -> len r < tag - 0x80 -> read_bytes sh mx (tag :: r) = HErr) /\
  (0xB8 <= tag <= 0xBF -> forall n r', read_size (tag - 0xB7) r = Some (n, r') -> len r' < n ->
     read_bytes sh mx (tag :: r) = HErr) /\
  (0xB8 <= tag <= 0xBF -> read_size (tag - 0xB7) r = None -> read_bytes sh mx (tag :: r) = HErr).
Proof.
  repeat split.
  - intros Ht Hl. cbn [read_bytes]. ifs.
    destruct (take (tag - 128) r) eqn:E; [|reflexivity].
    destruct p. apply take_spec in E as [-> E]. rewrite len_app in Hl. lia.
  - intros Ht n r' Hs Hl. cbn [read_bytes]. ifs. rewrite Hs.
    destruct (mx <? n); [reflexivity|].
    destruct (take n r') eqn:E; [|reflexivity].
    destruct p. apply take_spec in E as [-> E]. rewrite len_app in Hl. lia.
  - intros Ht Hs. cbn [read_bytes]. ifs. rewrite Hs. reflexivity.
Qed.

Definition stringlike (t : ty) : bool :=
  match t with
  | TUint _ | TInt _ | TBool | TString | TBytes | TByteArr _ | TBig => true
  | _ => false
  end.

Lemma stringlike_err pre t sh mx v p :
  stringlike t = true -> read_bytes sh mx v = HErr -> dec_gen pre t sh mx v p = RErr.
Proof. destruct t; try discriminate; intros _ H; cbn [dec_gen]; rewrite H; reflexivity. Qed.

Definition container (t : ty) : bool :=
  match t with TList _ | TArray _ _ | TStruct _ | TMap _ _ => true | _ => false end.

Lemma size_bound_list t sh mx v p sz r :
  container t = true -> read_list sh v = HOk sz r -> len r < sz ->
  dec_gen false t sh mx v p = RErr.
Proof.
  intros Hc Hr Hl.
  pose proof (dec_good false t sh mx v p) as G.
  assert (Hs : child_short sz r = true) by (unfold child_short; lia).
  destruct t; try discriminate Hc; cbn [dec_gen] in *; rewrite Hr in *; cbn beta iota zeta in *;
    rewrite Hs in *.
  - destruct (loop_items _ _ _ _ _) as [l [v' p']|[v' p']| |]; try reflexivity. destruct G.
  - destruct (loop_upto _ _ _ _ _) as [l [v' p']|[v' p']| |]; try reflexivity. destruct G.
  - destruct (loop_fields _ _ _) as [l [v' p']|[v' p']| |]; try reflexivity. destruct G.
  - destruct (loop_map _ _ _ _ _ _ _) as [l [v' p']|[v' p']| |]; try reflexivity. destruct G.
Qed.

(* byte budget: a long-form string announcing more than maxSB is an error whatever follows
   (no buffer of the announced size is ever made), and a list hands its children at most its
   own budget: min mx sz.  So a string nested in a list is checked against the input length
   no matter what the list header itself claims. *)
Lemma string_over_budget sh mx tag r n r' :
  0xB8 <= tag <= 0xBF -> read_size (tag - 0xB7) r = Some (n, r') -> mx < n ->
  read_bytes sh mx (tag :: r) = HErr.
Proof.
  intros Ht Hs Hn. cbn [read_bytes]. ifs. rewrite Hs. destruct (mx <? n) eqn:E; [reflexivity|lia].
Qed.

Lemma size_bound_nested pre t' sh mx v p sz r tag r1 n r2 :
  stringlike t' = true -> read_list sh v = HOk sz r ->
  child_view sz r = tag :: r1 -> 0xB8 <= tag <= 0xBF ->
  read_size (tag - 0xB7) r1 = Some (n, r2) -> mx < n ->
  dec_gen pre (TList t') sh mx v p = RErr.
Proof.
  intros Hs Hr Hcv Ht Hsz Hn. cbn [dec_gen]. rewrite Hr. cbn beta iota zeta.
  rewrite Hcv. rewrite loop_items_S.
  rewrite (stringlike_err pre t' _ _ _ _ Hs); [reflexivity|].
  eapply string_over_budget; eauto. lia.
Qed.

(* the behaviour before commit 9a1f237: a list announcing 55 bytes, followed by two,
   is accepted as a nil pointer and 53 bytes stay pending in the pooled decoder *)
Lemma prefix_variant_refuted :
  exists t bs sz r x rest p,
    read_list false bs = HOk sz r /\ len r < sz /\
    unmarshal_pre t bs = ROk x (rest, p) /\ 0 < p.
Proof.
  exists (TPtr (TStruct [TInt 64])), [0xF7; 0xF8; 0], 55, [0xF8; 0], (VPtr None), [], 53.
  repeat split.
Qed.

(* nil and empty *)
Lemma enc_nilv t : absorbs t = true -> enc (nilv t) = null.
Proof.
  induction t using ty_ind'; cbn [absorbs nilv]; try discriminate; try reflexivity; auto.
  intros _. destruct (absorbs t) eqn:E; cbn [enc]; auto.
Qed.

Lemma nil_vs_empty :
  marshal (VBytes None) <> marshal (VBytes (Some [])) /\
  marshal (VList None) <> marshal (VList (Some [])) /\
  marshal (VMap None) <> marshal (VMap (Some [])) /\
  forall rest, len rest + 2 <= max_int ->
    unmarshal TBytes (marshal (VBytes None) ++ rest) = ROk (VBytes None) (rest, 0) /\
    unmarshal TBytes (marshal (VBytes (Some [])) ++ rest) = ROk (VBytes (Some [])) (rest, 0) /\
    forall t, ty_ok t = true ->
      unmarshal (TList t) (marshal (VList None) ++ rest) = ROk (VList None) (rest, 0) /\
      unmarshal (TList t) (marshal (VList (Some [])) ++ rest) = ROk (VList (Some [])) (rest, 0) /\
      (forall k, ty_ok (TMap k t) = true ->
         unmarshal (TMap k t) (marshal (VMap None) ++ rest) = ROk (VMap None) (rest, 0) /\
         unmarshal (TMap k t) (marshal (VMap (Some [])) ++ rest) = ROk (VMap (Some [])) (rest, 0)) /\
      (absorbs t = false ->
         unmarshal (TPtr t) (marshal (VPtr None) ++ rest) = ROk (VPtr None) (rest, 0)) /\
      (absorbs t = true ->
         marshal (VPtr None) = marshal (VPtr (Some (nilv t))) /\
         unmarshal (TPtr t) (marshal (VPtr None) ++ rest) = ROk (VPtr (Some (nilv t))) (rest, 0)).
Proof.
  assert (RT : forall t v rest, ty_ok t = true -> wtb t v = true -> len (marshal v) <= 2 ->
             len rest + 2 <= max_int ->
             unmarshal t (marshal v ++ rest) = ROk (canon t v) (rest, 0)).
  { intros t v rest Hok Hw Hl Hr. apply unmarshal_roundtrip; auto. rewrite len_app. lia. }
  split; [discriminate|]. split; [discriminate|]. split; [discriminate|].
  intros rest Hr.
  split; [apply (RT TBytes (VBytes None)); auto; vm_compute; discriminate|].
  split; [apply (RT TBytes (VBytes (Some []))); auto; vm_compute; discriminate|].
  intros t Hok.
  split; [apply (RT (TList t) (VList None)); auto; vm_compute; discriminate|].
  split; [apply (RT (TList t) (VList (Some []))); auto; vm_compute; discriminate|].
  split.
  { intros k Hk. split.
    - apply (RT (TMap k t) (VMap None)); auto; vm_compute; discriminate.
    - apply (RT (TMap k t) (VMap (Some []))); auto; vm_compute; discriminate. }
  split.
  - intros Ha. pose proof (RT (TPtr t) (VPtr None) rest) as R. cbn [canon] in R. rewrite Ha in R.
    apply R; auto; vm_compute; discriminate.
  - intros Ha. split.
    + unfold marshal. cbn [enc]. now rewrite enc_nilv.
    + pose proof (RT (TPtr t) (VPtr None) rest) as R. cbn [canon] in R. rewrite Ha in R.
      apply R; auto; vm_compute; discriminate.
Qed.

(* ------------------------------------------------------------------------- *)
(* non-vacuity                                                                *)
(* ------------------------------------------------------------------------- *)

Definition ex_ty : ty :=
  TStruct [TUint 32; TString; TBytes; TPtr (TInt 64);
           TList (TStruct [TInt 8; TByteArr 2]);
           TMap TString (TList (TInt 16)); TPtr TBytes; TBig; TSelf (TInt 16); TArray 2 TBool].
Definition ex_val : value :=
  VStruct [VUint 4294967295; VString [104; 105]; VBytes (Some []); VPtr (Some (VInt (-129)));
           VList (Some [VStruct [VInt (-128); VByteArr [0; 255]]; VStruct [VInt 127; VByteArr [1; 2]]]);
           VMap (Some [(VString [98], VList None); (VString [97], VList (Some [VInt 256; VInt (-1)]))]);
           VPtr None; VBig (-340282366920938463463374607431768211456); VInt (-32768);
           VArray [VBool true; VBool false]].

Example ex_ok : ty_ok ex_ty = true /\ wtb ex_ty ex_val = true /\ len (marshal ex_val) <= max_int.
Proof. vm_compute. repeat split; discriminate. Qed.

Example ex_roundtrip :
  unmarshal ex_ty (marshal ex_val ++ [1; 2; 3]) = ROk (canon ex_ty ex_val) ([1; 2; 3], 0)
  /\ canon ex_ty ex_val <> ex_val.
Proof. split; [vm_compute; reflexivity|vm_compute; discriminate]. Qed.

Example ex_map_perm :
  marshal (VMap (Some [(VInt 5, VBool true); (VInt (-7), VBool false)])) =
  marshal (VMap (Some [(VInt (-7), VBool false); (VInt 5, VBool true)])).
Proof. reflexivity. Qed.

Example ex_overflow :
  unmarshal (TInt 8) [0x82; 0x00; 0x80] = RErr /\ unmarshal (TUint 8) [0x82; 0x01; 0x00] = RErr /\
  unmarshal (TUint 64) [0x81; 0xFF] = RErr /\ unmarshal (TInt 16) [0x82; 0x80; 0x00] = ROk (VInt (-32768)) ([], 0).
Proof. repeat split. Qed.

Example ex_size_bound :
  unmarshal TString [0x83; 1; 2] = RErr /\ unmarshal TBytes [0xB8; 56; 1; 2; 3] = RErr /\
  unmarshal (TList (TInt 8)) [0xC3; 1; 2] = RErr /\
  unmarshal (TPtr (TStruct [TInt 64])) [0xF7; 0xF8; 0] = RErr /\
  unmarshal TBytes (0xBF :: repeat 0xFF 8) = RErr.
Proof. repeat split. Qed.
