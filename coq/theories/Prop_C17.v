(* Property C17 — the Merkle Patricia trie is a canonical map.
   Only theorem statements; proofs are in Proofs_Trie*.v / Proofs_C17.v.
   Keys are nibble lists (nibs_ok: every nibble < 16, as mpt.bytesToNibs
   produces); values are non-empty byte strings; [wf] is the normal form of
   Model_Trie.  The hash function is a parameter of [ser]/[root]: every
   statement that mentions it holds for all H. *)
From Coq Require Import Sorting.Sorted.
From Goloop Require Import lib.Bytes Model_RlpBytes Model_Trie Proofs_Trie Proofs_TrieMap Proofs_TrieWf
  Proofs_TrieList Proofs_TrieUnique Proofs_C17.
Open Scope N_scope.

Theorem C17_set_get : forall t k v, wf t -> nibs_ok k = true -> get (set t k v) k = Some v.
Proof. exact set_get. Qed.
Print Assumptions C17_set_get.

Theorem C17_get_set_other : forall t k v k',
  wf t -> nibs_ok k = true -> k' <> k -> get (set t k v) k' = get t k'.
Proof. exact get_set_other. Qed.
Print Assumptions C17_get_set_other.

Theorem C17_delete_get : forall t k, get (delete t k) k = None.
Proof. exact delete_get. Qed.
Print Assumptions C17_delete_get.

Theorem C17_delete_get_other : forall t k k', k' <> k -> get (delete t k) k' = get t k'.
Proof. exact delete_get_other. Qed.
Print Assumptions C17_delete_get_other.

Theorem C17_set_wf : forall t k v, wf t -> nibs_ok k = true -> v <> [] -> wf (set t k v).
Proof. exact set_wf. Qed.
Print Assumptions C17_set_wf.

Theorem C17_delete_wf : forall t k, wf t -> wf (delete t k).
Proof. exact delete_wf. Qed.
Print Assumptions C17_delete_wf.

(* iteration: strictly ascending nibble-lexicographic key order, exactly the stored pairs *)
Theorem C17_to_list_sorted_complete : forall t,
  StronglySorted lex_lt (map fst (to_list t)) /\
  forall k v, In (k, v) (to_list t) <-> get t k = Some v.
Proof. exact to_list_sorted_complete. Qed.
Print Assumptions C17_to_list_sorted_complete.

(* prefix iteration: exactly the entries whose key has the prefix, in iteration order *)
Theorem C17_filter_spec : forall t p,
  filter t p = List.filter (fun kv => is_prefix p (fst kv)) (to_list t).
Proof. exact filter_is_prefix_filter. Qed.
Print Assumptions C17_filter_spec.

(* the normal form is unique for a given content *)
Theorem C17_wf_unique : forall a b, wf a -> wf b -> (forall k, get a k = get b k) -> a = b.
Proof. exact wf_unique. Qed.
Print Assumptions C17_wf_unique.

(* any history of sets (non-empty values) and deletes refines the map specification *)
Theorem C17_refines_map : forall ops k,
  Forall top_ok ops -> get (run_ops ops) k = run_spec ops k.
Proof. exact refines_map. Qed.
Print Assumptions C17_refines_map.

Theorem C17_history_wf : forall ops, Forall top_ok ops -> wf (run_ops ops).
Proof. exact run_ops_wf. Qed.
Print Assumptions C17_history_wf.

(* two histories with the same resulting map give the same tree, the same
   serialisation and the same root hash, for every hash function *)
Theorem C17_root_canonical : forall (H : bytes -> bytes) ops1 ops2,
  Forall top_ok ops1 -> Forall top_ok ops2 ->
  (forall k, run_spec ops1 k = run_spec ops2 k) ->
  run_ops ops1 = run_ops ops2 /\
  ser H (run_ops ops1) = ser H (run_ops ops2) /\
  root H (run_ops ops1) = root H (run_ops ops2).
Proof. exact root_canonical. Qed.
Print Assumptions C17_root_canonical.
