(* Proofs_K_matchNID.v -- consensus matchNID (double-sign evidence: compatible network ids)
   Split out of Proofs_Kernels.v: this file imports ONLY the generated kernel(s)
   gen/K_matchNID.v, so an edit of another kernel's Go source cannot break it.
   Style: stdlib only; arithmetic closed by lia with the euclidean-division hook. *)
From Coq Require Import ZArith Bool String List Lia.
From Coq Require Import ZifyBool.
From Goloop Require Import lib.GoInt Proofs_K_tactics.
From Goloop.gen Require Import K_matchNID.
Import ListNotations.
Local Open Scope Z_scope.

Ltac Zify.zify_post_hook ::= Z.to_euclidean_division_equations.

Lemma matchNID_spec nid1 nid2 :
  matchNID nid1 nid2 = true <-> (nid1 = 0 \/ nid2 = 0 \/ nid1 = nid2).
Proof. unfold matchNID. kernel_lia. Qed.

Lemma matchNID_sym nid1 nid2 : matchNID nid1 nid2 = matchNID nid2 nid1.
Proof. apply bool_eq_iff. rewrite !matchNID_spec. lia. Qed.
