(* Proofs_K_minProofLenForKey.v -- icon/merkle/hexary merkleTree.minProofLenForKey
   Split out of Proofs_Kernels.v: this file imports ONLY the generated kernel(s)
   gen/K_minProofLenForKey.v, so an edit of another kernel's Go source cannot break it.
   Style: stdlib only; arithmetic closed by lia with the euclidean-division hook. *)
From Coq Require Import ZArith Bool String List Lia.
From Coq Require Import ZifyBool.
From Goloop Require Import lib.GoInt Proofs_K_tactics.
From Goloop.gen Require Import K_minProofLenForKey.
Import ListNotations.
Local Open Scope Z_scope.

Ltac Zify.zify_post_hook ::= Z.to_euclidean_division_equations.

(* the scalar skeleton: the capped value of (tz + 3)/4 - 1, where tz is the number of
   trailing zero bits of ^uint64(key ^ (key-1)) *)
Definition minProofLen_tz (key : Z) : Z :=
  bits_tz64 (wrap_u64 (Z.lnot (wrap_u64 (Z.lxor key (wrap_i64 (key - 1)))))).

Lemma minProofLenForKey_spec key level :
  0 <= level <= max_i64 ->
  minProofLenForKey key level = Z.min level ((minProofLen_tz key + 3) / 4 - 1).
Proof.
  intros Hl. unfold minProofLenForKey. fold (minProofLen_tz key).
  pose proof (bits_tz64_range (wrap_u64 (Z.lnot (wrap_u64 (Z.lxor key (wrap_i64 (key - 1))))))
                (wrap_u64_range _)) as Htz.
  fold (minProofLen_tz key) in Htz.
  rewrite (wrap_int_small (minProofLen_tz key + 3)) by lia.
  rewrite quot_nonneg by lia. rewrite (wrap_int_small (_ / 4)) by lia.
  rewrite wrap_int_small by lia. cbv zeta. split_ifs; lia.
Qed.

Lemma minProofLenForKey_le_level key level :
  0 <= level <= max_i64 -> minProofLenForKey key level <= level.
Proof. intros. rewrite minProofLenForKey_spec by lia. lia. Qed.

Lemma minProofLen_tz_pow2_odd t r :
  0 <= t -> 0 <= r -> 2 ^ t * (2 * r + 1) <= max_i64 ->
  minProofLen_tz (2 ^ t * (2 * r + 1)) = t + 1.
Proof.
  intros Ht Hr Hmax.
  assert (Hp : 0 < 2 ^ t) by (apply Z.pow_pos_nonneg; lia).
  assert (Hk : 1 <= 2 ^ t * (2 * r + 1)) by nia.
  assert (Ht62 : t <= 62).
  { destruct (Z_le_gt_dec t 62); [assumption|].
    assert (2 ^ 63 <= 2 ^ t) by (apply Z.pow_le_mono_r; lia).
    change (2 ^ 63) with 9223372036854775808 in *. nia. }
  assert (Hle : 2 ^ (t + 1) <= 2 ^ 63) by (apply Z.pow_le_mono_r; lia).
  change (2 ^ 63) with 9223372036854775808 in Hle.
  assert (Hp1 : 0 < 2 ^ (t + 1)) by (apply Z.pow_pos_nonneg; lia).
  unfold minProofLen_tz.
  rewrite wrap_i64_small by lia. rewrite lxor_pred_pow2_odd by lia.
  rewrite (wrap_u64_small (2 ^ (t + 1) - 1)) by lia.
  replace (Z.lnot (2 ^ (t + 1) - 1)) with (- 2 ^ (t + 1)) by (unfold Z.lnot; lia).
  assert (E64 : 18446744073709551616 = 2 ^ (t + 1) * (2 * 2 ^ (62 - t))).
  { change 18446744073709551616 with (2 ^ 64).
    replace 64 with ((t + 1) + (1 + (62 - t))) by lia.
    rewrite (Z.pow_add_r 2 (t + 1)) by lia. rewrite (Z.pow_add_r 2 1) by lia. reflexivity. }
  assert (Hq : 0 < 2 ^ (62 - t)) by (apply Z.pow_pos_nonneg; lia).
  assert (Ew : wrap_u64 (- 2 ^ (t + 1)) = 2 ^ (t + 1) * (2 * (2 ^ (62 - t) - 1) + 1)).
  { unfold wrap_u64.
    replace (- 2 ^ (t + 1)) with (18446744073709551616 - 2 ^ (t + 1) + (-1) * 18446744073709551616) by lia.
    rewrite Z.mod_add by lia. rewrite Z.mod_small by lia.
    rewrite E64 at 1. lia. }
  rewrite Ew. apply bits_tz64_pow2_odd. lia.
Qed.

(* the meaning: with key = 2^t * odd (t trailing zero bits), the minimal proof length is
   the number of whole trailing zero hex digits of key, capped by the tree level *)
Lemma minProofLenForKey_trailing_zeros key level t r :
  0 <= level <= max_i64 -> 0 <= t -> 0 <= r ->
  key = 2 ^ t * (2 * r + 1) -> key <= max_i64 ->
  minProofLenForKey key level = Z.min level (t / 4).
Proof.
  intros Hl Ht Hr -> Hk. rewrite minProofLenForKey_spec by lia.
  rewrite minProofLen_tz_pow2_odd by lia. lia.
Qed.

Lemma minProofLenForKey_key0 level :
  0 <= level <= max_i64 -> minProofLenForKey 0 level = Z.min level 15.
Proof. intros Hl. rewrite minProofLenForKey_spec by lia. reflexivity. Qed.

Lemma minProofLenForKey_params_ok : minProofLenForKey_params = ["key"; "sa.level"]%string.
Proof. reflexivity. Qed.

Example minProofLenForKey_examples :
  minProofLenForKey 1 5 = 0 /\ minProofLenForKey 15 5 = 0 /\ minProofLenForKey 16 5 = 1 /\
  minProofLenForKey 48 5 = 1 /\ minProofLenForKey 256 5 = 2 /\ minProofLenForKey 4096 2 = 2 /\
  minProofLenForKey 0 5 = 5 /\ minProofLenForKey 0 20 = 15.
Proof. repeat split; vm_compute; reflexivity. Qed.
