(* Proofs_K_onPacketDropOneHop.v -- network PeerToPeer.onPacket: drop rule for one-hop packets
   Split out of Proofs_Kernels.v: this file imports ONLY the generated kernel(s)
   gen/K_onPacketDropOneHop.v, so an edit of another kernel's Go source cannot break it.
   Style: stdlib only; arithmetic closed by lia with the euclidean-division hook. *)
From Coq Require Import ZArith Bool String List Lia.
From Coq Require Import ZifyBool.
From Goloop Require Import lib.GoInt Proofs_K_tactics.
From Goloop.gen Require Import K_onPacketDropOneHop.
Import ListNotations.
Local Open Scope Z_scope.

Ltac Zify.zify_post_hook ::= Z.to_euclidean_division_equations.

(* drop rule 1: a one-hop packet must come from the peer that sent it *)
Lemma onPacketDropOneHop_spec isOneHop isSourcePeer :
  onPacketDropOneHop isOneHop isSourcePeer = true <-> (isOneHop = true /\ isSourcePeer = false).
Proof. unfold onPacketDropOneHop. destruct isOneHop, isSourcePeer; cbn; intuition congruence. Qed.

Lemma onPacketDropOneHop_params_ok : onPacketDropOneHop_params = ["isOneHop"; "isSourcePeer"]%string.
Proof. reflexivity. Qed.
