(* Model_Hexary.v — icon/merkle/hexary: accumulator.go (Add/add, GetMerkleHeader,
   Finalize, SetLen, powerOf16), merkletree.go (LevelFromLen, NewMerkleTree,
   minProofLenForKey, Prove, Add) and node.go (node, nodeDB).  No proofs here.

   The hash (crypto.SHA3Sum256) is the Section variable [H].

   Representation:
   * node.bytes always holds a whole number of 32-byte hashes (newNode is
     empty, Add appends exactly 32 bytes or panics, newNodeFromBytes rejects
     any other length, SetLen truncates to a multiple of 32).  A node is
     therefore a list of hashes; [node_bytes] is node.bytes, [node_of_bytes]
     is newNodeFromBytes.  The cached _hash field is a function of bytes.
   * nodeDB = bucket + cache; every cached node is also in the bucket and has
     the same bytes, so it is modelled by the bucket alone.
   * the accumulator bucket holds the codec form of accumulatorData under one
     key; the model keeps the decoded value ([h_saved]).
   * the map database never fails; db.DoGet of a missing key is NotFound. *)
From Goloop Require Import lib.Bytes lib.BytesMap.
Open Scope N_scope.

Inductive herr := HVerify | HInvalid | HNotFound | HArg | HPanic.
Inductive hres (A : Type) := HOk (a : A) | HErr (e : herr).
Arguments HOk {A} a.
Arguments HErr {A} e.

Definition hash_len : nat := 32.
Definition max_children : nat := 16.

Definition node := list bytes.            (* children hashes *)
Definition node_bytes (b : node) : bytes := concat b.
Definition node_len (b : node) : nat := length b.
Definition node_full (b : node) : bool := Nat.eqb (length b) max_children.

(* cut a byte string into 32-byte pieces; None if the length is not a multiple of 32 *)
Fixpoint split32 (fuel : nat) (bs : bytes) : option (list bytes) :=
  match bs with
  | [] => Some []
  | _ =>
      match fuel with
      | O => None
      | S f =>
          if Nat.ltb (length bs) hash_len then None else
          match split32 f (skipn hash_len bs) with
          | Some r => Some (firstn hash_len bs :: r)
          | None => None
          end
      end
  end.

(* validateNodeBytes + newNodeFromBytes *)
Definition node_of_bytes (bs : bytes) : hres node :=
  if Nat.ltb (hash_len * max_children) (length bs) then HErr HInvalid else
  match split32 (S max_children) bs with
  | Some b => HOk b
  | None => HErr HInvalid
  end.

(* a nil []byte and an empty one are the same to bytes.Equal and to the bucket *)
Definition obytes (o : option bytes) : bytes := match o with Some b => b | None => [] end.

(* node.Get: nil beyond Len; the caller never passes i >= 16 *)
Definition node_get (b : node) (i : nat) : option bytes := nth_error b i.

(* node.Add: panics on a hash that is not 32 bytes long and on a full node *)
Definition node_add (b : node) (h : bytes) : hres node :=
  if negb (Nat.eqb (length h) hash_len) then HErr HPanic
  else if node_full b then HErr HPanic
  else HOk (b ++ [h]).

(* merkletree.go LevelFromLen: (bits.Len64(len-1)+3)/4 *)
Definition level_from_len (len : N) : nat :=
  if len =? 0 then 0%nat else N.to_nat ((N.size (len - 1) + 3) / 4).

(* accumulator.go powerOf16 *)
Fixpoint power_of_16_loop (fuel : nat) (n : N) : bool :=
  if 15 <? n then
    match fuel with
    | O => false
    | S f => if negb (N.land n 15 =? 0) then false else power_of_16_loop f (N.shiftr n 4)
    end
  else n =? 1.
Definition power_of_16 (n : N) : bool := power_of_16_loop 16 n.

(* bits.TrailingZeros64(^uint64(key^(key-1))) for key >= 0: 64 for 0, else tz(key)+1 *)
Fixpoint pos_ctz (p : positive) : N :=
  match p with xO q => 1 + pos_ctz q | _ => 0 end.
Definition tz_not_xor (key : N) : N :=
  match key with N0 => 64 | Npos p => pos_ctz p + 1 end.

(* hex digit of key at height n: (key >> (n*4)) & 0xf *)
Definition digit (key : N) (n : nat) : nat :=
  N.to_nat (N.land (N.shiftr key (4 * N.of_nat n)) 15).

Record header := mkHeader { hd_root : option bytes; hd_leaves : N }.

Record hacc := mkHacc { h_len : N; h_roots : list node }.

Record hstate := mkHstate {
  hs_acc : hacc;
  hs_tree : bmap bytes;                    (* treeBucket: hash -> node bytes *)
  hs_saved : option hacc                   (* accumulatorBucket[accumulatorDataKey] *)
}.

Definition hstate_init : hstate := mkHstate (mkHacc 0 []) bm_empty None.

Section Hexary.
Variable H : bytes -> bytes.

(* node.Hash: nil for an empty node *)
Definition node_hash (b : node) : option bytes :=
  match b with [] => None | _ => Some (H (node_bytes b)) end.

(* nodeDB.Get *)
Definition db_get (m : bmap bytes) (key : option bytes) : hres node :=
  match key with
  | None => HErr HNotFound           (* bucket lookup of a nil key *)
  | Some k =>
      match bm_get k m with
      | None => HErr HNotFound
      | Some bs => node_of_bytes bs
      end
  end.

(* nodeDB.Put *)
Definition db_put (m : bmap bytes) (b : node) : hres (bmap bytes) :=
  match node_hash b with
  | None => HOk (bm_set [] (node_bytes b) m)      (* Set(nil, ...) : not reached by the code paths modelled *)
  | Some hv => HOk (bm_set hv (node_bytes b) m)
  end.

(* accumulator.add(i, hash); [roots] is Roots[i:] *)
Fixpoint add_at (roots : list node) (h : bytes) (m : bmap bytes) : hres (list node * bmap bytes) :=
  match roots with
  | [] =>
      match node_add [] h with
      | HErr e => HErr e
      | HOk rb => HOk ([rb], m)                    (* a node with one child is not full *)
      end
  | rb :: rest =>
      match node_add rb h with
      | HErr e => HErr e
      | HOk rb' =>
          if node_full rb' then
            match node_hash rb' with
            | None => HErr HPanic
            | Some hv =>
                match add_at rest hv (bm_set hv (node_bytes rb') m) with
                | HErr e => HErr e
                | HOk (rest', m') => HOk ([] :: rest', m')
                end
            end
          else HOk (rb' :: rest, m)
      end
  end.

(* accumulator.Add *)
Definition acc_add (st : hstate) (h : bytes) : hres hstate :=
  match add_at (h_roots (hs_acc st)) h (hs_tree st) with
  | HErr e => HErr e
  | HOk (rs, m) =>
      let a := mkHacc (h_len (hs_acc st) + 1) rs in
      HOk (mkHstate a m (Some a))
  end.

(* if carry != nil { r.Add(carry) } (undone by RemoveBack after the round) *)
Definition carry_in (r : node) (carry : option bytes) : hres node :=
  match carry with None => HOk r | Some c => node_add r c end.

(* the loop shared by GetMerkleHeader and Finalize; [store] = Finalize.
   Returns the final carry and the bucket. *)
Fixpoint carry_loop (store : bool) (roots : list node) (carry : option bytes) (m : bmap bytes)
  : hres (option bytes * bmap bytes) :=
  match roots with
  | [] => HOk (carry, m)
  | r :: rest =>
      match carry_in r carry with
      | HErr e => HErr e
      | HOk r' =>
          match rest with
          | [] =>
              if Nat.eqb (node_len r') 1 then HOk (node_get r' 0, m)       (* GetCopy(0) *)
              else
                let hv := node_hash r' in
                HOk (hv, match hv with
                         | Some k => if store then bm_set k (node_bytes r') m else m
                         | None => m
                         end)
          | _ :: _ =>
              let hv := node_hash r' in
              carry_loop store rest hv
                (match hv with
                 | Some k => if store then bm_set k (node_bytes r') m else m
                 | None => m
                 end)
          end
      end
  end.

(* accumulator.GetMerkleHeader *)
Definition get_header (st : hstate) : hres header :=
  match carry_loop false (h_roots (hs_acc st)) None (hs_tree st) with
  | HErr e => HErr e
  | HOk (c, _) => HOk (mkHeader c (h_len (hs_acc st)))
  end.

(* accumulator.Finalize *)
Definition finalize (st : hstate) : hres (header * hstate) :=
  match carry_loop true (h_roots (hs_acc st)) None (hs_tree st) with
  | HErr e => HErr e
  | HOk (c, m) => HOk (mkHeader c (h_len (hs_acc st)), mkHstate (hs_acc st) m (hs_saved st))
  end.

(* ---- merkleTree ---- *)
Record mtree := mkMtree { mt_db : bmap bytes; mt_level : nat; mt_root : node; mt_cap : N }.

(* NewMerkleTree *)
Definition new_mtree (m : bmap bytes) (hd : header) : hres mtree :=
  match node_of_bytes (match hd_root hd with Some r => r | None => [] end) with
  | HErr e => HErr e
  | HOk br => HOk (mkMtree m (level_from_len (hd_leaves hd)) br (hd_leaves hd))
  end.

(* minProofLenForKey *)
Definition min_proof_len (level : nat) (key : N) : nat :=
  let ml := (N.to_nat ((tz_not_xor key + 3) / 4) - 1)%nat in
  if Nat.ltb level ml then level else ml.

(* the loop of Prove; n = level - i counts the remaining levels *)
Fixpoint prove_loop (m : bmap bytes) (br : node) (n : nat) (key : N) : hres (list bytes) :=
  match n with
  | O => HOk []
  | S n' =>
      match db_get m (node_get br (digit key n)) with
      | HErr e => HErr e
      | HOk br' =>
          match prove_loop m br' n' key with
          | HErr e => HErr e
          | HOk r => HOk (node_bytes br' :: r)
          end
      end
  end.

(* Prove(key, from); from < 0 is [None] *)
Definition prove (t : mtree) (key : N) (from : option nat) : hres (list bytes) :=
  match prove_loop (mt_db t) (mt_root t) (mt_level t) key with
  | HErr e => HErr e
  | HOk res =>
      let f := match from with
               | Some f => f
               | None => (mt_level t - min_proof_len (mt_level t) key)%nat
               end in
      if Nat.ltb (length res) f then HErr HPanic       (* res[from:] out of range *)
      else HOk (skipn f res)
  end.

(* the first loop of merkleTree.Add; i = level - n.  Returns the last node
   and the nodes built from the proof. *)
Fixpoint mt_add_loop (m : bmap bytes) (br : node) (n : nat) (key : N) (omit : nat) (i : nat)
                     (proof : list bytes) (acc : list node) : hres (node * list node) :=
  match n with
  | O => HOk (br, acc)
  | S n' =>
      let cur := node_get br (digit key n) in
      if Nat.ltb i omit then
        match db_get m cur with
        | HErr e => HErr e
        | HOk br' => mt_add_loop m br' n' key omit (S i) proof acc
        end
      else
        match nth_error proof (i - omit) with
        | None => HErr HPanic                              (* proof[i-omit] out of range *)
        | Some pb =>
            match node_of_bytes pb with
            | HErr e => HErr e
            | HOk br' =>
                if bytes_eqb (obytes (node_hash br')) (obytes cur)
                then mt_add_loop m br' n' key omit (S i) proof (acc ++ [br'])
                else HErr HVerify
            end
        end
  end.

Fixpoint put_all (m : bmap bytes) (l : list node) : hres (bmap bytes) :=
  match l with
  | [] => HOk m
  | b :: r => match db_put m b with HErr e => HErr e | HOk m' => put_all m' r end
  end.

(* merkleTree.Add(key, hash, proof): too short and (since /repo 33272cd) too
   long proofs are verification errors *)
Definition mt_add (t : mtree) (key : N) (hash : bytes) (proof : list bytes) : hres mtree :=
  if Nat.ltb (length proof) (min_proof_len (mt_level t) key) then HErr HVerify else
  if Nat.ltb (mt_level t) (length proof) then HErr HVerify else
  let omit := (mt_level t - length proof)%nat in
  match mt_add_loop (mt_db t) (mt_root t) (mt_level t) key omit 0 proof [] with
  | HErr e => HErr e
  | HOk (br, nodes) =>
      if negb (bytes_eqb (obytes (node_get br (digit key 0))) hash) then HErr HVerify
      else match put_all (mt_db t) nodes with
           | HErr e => HErr e
           | HOk m' => HOk (mkMtree m' (mt_level t) (mt_root t) (mt_cap t))
           end
  end.

(* the code before /repo 33272cd: no upper bound on the proof length.  With
   len(proof) > level, omit is negative, the loop reads proof[i-omit] (skips the
   leading extra elements), their slots in proofBr stay nil and bdb.Put(nil)
   dereferences nil. *)
Definition mt_add_old (t : mtree) (key : N) (hash : bytes) (proof : list bytes) : hres mtree :=
  if Nat.ltb (length proof) (min_proof_len (mt_level t) key) then HErr HVerify else
  let omit := (mt_level t - length proof)%nat in
  let extra := (length proof - mt_level t)%nat in        (* -omit when the proof is too long *)
  match mt_add_loop (mt_db t) (mt_root t) (mt_level t) key omit 0
                    (skipn extra proof) [] with
  | HErr e => HErr e
  | HOk (br, nodes) =>
      if negb (bytes_eqb (obytes (node_get br (digit key 0))) hash) then HErr HVerify
      else if Nat.ltb 0 extra then HErr HPanic
      else match put_all (mt_db t) nodes with
           | HErr e => HErr e
           | HOk m' => HOk (mkMtree m' (mt_level t) (mt_root t) (mt_cap t))
           end
  end.

(* ---- accumulator.SetLen ---- *)
Fixpoint build_roots (proof : list bytes) (lvl : nat) (i : nat) (d : N) : hres (list node) :=
  match lvl with
  | O => HOk []
  | S lvl' =>
      match nth_error proof (length proof - 1 - i) with
      | None => HErr HPanic
      | Some pb =>
          match node_of_bytes pb with
          | HErr e => HErr e
          | HOk b =>
              let k := N.to_nat (d mod 16) in
              if Nat.ltb (node_len b) k then HErr HPanic      (* slice beyond the node *)
              else match build_roots proof lvl' (S i) (d / 16) with
                   | HErr e => HErr e
                   | HOk r => HOk (firstn k b :: r)
                   end
          end
      end
  end.

Definition set_len (st : hstate) (l : N) : hres hstate :=
  let a := hs_acc st in
  if h_len a <? l then HErr HArg else
  if l =? 0 then HOk (mkHstate (mkHacc 0 []) (hs_tree st) (hs_saved st)) else
  if l =? h_len a then HOk st else
  match finalize st with
  | HErr e => HErr e
  | HOk (hd, st1) =>
      match new_mtree (hs_tree st1) hd with
      | HErr e => HErr e
      | HOk mt =>
          match prove mt (l - 1) (Some 0%nat) with
          | HErr e => HErr e
          | HOk proof =>
              let lvl := (level_from_len l + (if power_of_16 l then 1 else 0))%nat in
              let proof' :=
                if Nat.ltb (length proof) lvl then
                  if Nat.eqb (length proof + 1) lvl
                  then HOk ((match hd_root hd with Some r => r | None => [] end) :: proof)
                  else HErr HPanic
                else HOk (skipn (length proof - lvl) proof) in
              match proof' with
              | HErr e => HErr e
              | HOk p =>
                  match build_roots p lvl 0 l with
                  | HErr e => HErr e
                  | HOk roots =>
                      let a' := mkHacc l roots in
                      HOk (mkHstate a' (hs_tree st1) (Some a'))
                  end
              end
          end
      end
  end.

(* NewAccumulator on the same buckets: loads the saved accumulatorData *)
Definition reopen (st : hstate) : hstate :=
  mkHstate (match hs_saved st with Some a => a | None => mkHacc 0 [] end) (hs_tree st) (hs_saved st).

(* ---- histories ---- *)
Inductive hop := HAdd (h : bytes) | HFinalize | HGetHeader | HSetLen (l : N).

(* a failing operation leaves the state as the code leaves it: Add and SetLen
   return before assigning ba.data; Finalize has stored nothing on failure in
   the model because the map database does not fail *)
Definition hstep (st : hstate) (o : hop) : hstate :=
  match o with
  | HAdd h => match acc_add st h with HOk st' => st' | HErr _ => st end
  | HFinalize => match finalize st with HOk (_, st') => st' | HErr _ => st end
  | HGetHeader => st
  | HSetLen l => match set_len st l with HOk st' => st' | HErr _ => st end
  end.

Definition hrun (ops : list hop) : hstate := fold_left hstep ops hstate_init.

End Hexary.
