(* Proofs_BlockCodec.v — lemmas about Model_BlockCodec (property C08).
   Style: stdlib, lia; reuses the RLP lemmas of property C23 (Proofs_Rlp). *)
From Goloop Require Import lib.Bytes Model_Address Model_Rlp Proofs_Rlp Model_BlockCodec.
From Coq Require Import ZifyBool ZifyN ZifyNat.
Ltac Zify.zify_post_hook ::= Z.div_mod_to_equations.
Open Scope N_scope.

(* ------------------------------------------------------------------------- *)
(* bytes.Equal                                                                *)
(* ------------------------------------------------------------------------- *)

Lemma beq_refl a : beq a a = true.
Proof. apply bytes_eqb_refl. Qed.

Lemma beq_flat a b : beq a b = true <-> flat a = flat b.
Proof. apply bytes_eqb_eq. Qed.

Lemma negb_if_false (c : bool) {A} (x y : A) : c = true -> (if negb c then x else y) = y.
Proof. intros ->. reflexivity. Qed.

(* ------------------------------------------------------------------------- *)
(* one field: encode, then decode under the stream limit                      *)
(* ------------------------------------------------------------------------- *)

Definition small (o : option bytes) : Prop :=
  match o with Some b => len b <= stream_mx | None => True end.

(* the three shapes of the fields of the two format structs *)
Inductive fieldok : ty -> value -> Prop :=
| FInt z : in_int_range 64 z = true -> fieldok (TInt 64) (VInt z)
| FBytes o : small o -> fieldok TBytes (VBytes o)
| FBss l : match l with Some l' => Forall small l' | None => True end ->
           fieldok (TList TBytes) (VList (option_map (map VBytes) l)).

Lemma stream_mx_le : stream_mx <= max_int.
Proof. unfold stream_mx, max_int. lia. Qed.

Lemma dec_bytes_rt sh mx o rest p :
  match o with Some b => len b <= mx /\ len b <= max_int | None => True end ->
  dec TBytes sh mx (enc (VBytes o) ++ rest) p = ROk (VBytes o) (rest, p).
Proof.
  intros Ho. unfold dec. cbn [dec_gen enc]. destruct o as [b|].
  - destruct Ho. rewrite read_bytes_enc by assumption. reflexivity.
  - rewrite read_bytes_null. reflexivity.
Qed.

Lemma z_bytes_le8 z : in_int_range 64 z = true -> len (z_to_bytes z) <= 8.
Proof.
  intros Hr. unfold len. rewrite z_to_bytes_length.
  assert (Hb : (- 2 ^ Z.of_N 63 <= z < 2 ^ Z.of_N 63)%Z).
  { unfold in_int_range in Hr. change (Z.of_N 64 - 1)%Z with (Z.of_N 63) in Hr. lia. }
  apply z_nbytes_le in Hb. change (N.to_nat (63 / 8 + 1)) with 8%nat in Hb. lia.
Qed.

Lemma dec_int_rt sh mx z rest p :
  in_int_range 64 z = true -> len (enc (VInt z)) <= mx ->
  dec (TInt 64) sh mx (enc (VInt z) ++ rest) p = ROk (VInt z) (rest, p).
Proof.
  intros Hr Hmx. unfold dec. cbn [dec_gen enc] in *.
  pose proof (z_bytes_le8 z Hr) as H8. pose proof (enc_bytes_len (z_to_bytes z)) as HL.
  rewrite read_bytes_enc; [|lia|unfold max_int; lia].
  cbn [of_bytes]. rewrite to_int_roundtrip; [reflexivity|lia|assumption].
Qed.

Lemma enc_vbytes_nonempty o : enc (VBytes o) <> [].
Proof. destruct o; cbn [enc]; [apply enc_bytes_nonempty|discriminate]. Qed.

Lemma items_bytes_rt mx (obs : list (option bytes)) :
  Forall (fun o => match o with Some b => len b <= mx /\ len b <= max_int | None => True end) obs ->
  forall fuel, (length (concat (map enc (map VBytes obs))) < fuel)%nat ->
  loop_items (dec_gen false TBytes false mx) (zero TBytes) fuel (concat (map enc (map VBytes obs))) 0
  = LOk (map VBytes obs) ([], 0).
Proof.
  induction obs as [|o obs IH]; intros HF fuel Hf.
  - destruct fuel; [cbn in Hf; lia|]. cbn [map concat]. rewrite loop_items_S, dec_nil. reflexivity.
  - destruct fuel; [lia|]. cbn [map concat] in *. rewrite loop_items_S.
    inversion HF as [|? ? Ho HF']; subst.
    change (dec_gen false TBytes false mx) with (dec TBytes false mx).
    rewrite (dec_bytes_rt false mx o _ 0 Ho).
    rewrite IH; [reflexivity|assumption|].
    rewrite app_length in Hf. pose proof (enc_vbytes_nonempty o).
    destruct (enc (VBytes o)); [congruence|cbn in Hf; lia].
Qed.

Lemma len_concat_in {A} (f : A -> bytes) x l : In x l -> len (f x) <= len (concat (map f l)).
Proof.
  induction l as [|y l IH]; intros Hin; [destruct Hin|].
  cbn [map concat]. rewrite len_app. destruct Hin as [->|Hin]; [lia|]. specialize (IH Hin). lia.
Qed.

Lemma len_enc_vbytes o : len (flat o) <= len (enc (VBytes o)).
Proof.
  destruct o as [b|]; cbn [flat enc].
  - apply enc_bytes_len.
  - unfold null. lens. lia.
Qed.

(* a field of the format structs read back inside a list of declared size sz *)
Lemma field_rt t x sz rest :
  fieldok t x -> len (enc x) <= sz -> len (enc x ++ rest) <= max_int ->
  dec t false (N.min stream_mx sz) (enc x ++ rest) 0 = ROk x (rest, 0).
Proof.
  intros HF Hsz Hmax. destruct HF as [z Hz|o Ho|l Hl].
  - apply dec_int_rt; [assumption|].
    pose proof (z_bytes_le8 z Hz). cbn [enc] in *.
    assert (len (enc_bytes (z_to_bytes z)) <= 9).
    { destruct (z_to_bytes z) as [|a [|b r]] eqn:E; cbn [enc_bytes].
      - lens. lia.
      - destruct (a <? 128); lens; lia.
      - destruct (len (a :: b :: r) <=? 55) eqn:E55; [|lia]. lens. lia. }
    unfold stream_mx. lia.
  - apply dec_bytes_rt. destruct o as [b|]; [|exact I]. cbn [small] in Ho.
    pose proof (len_enc_vbytes (Some b)) as HL. cbn [flat] in HL.
    pose proof stream_mx_le. rewrite len_app in Hmax. split; lia.
  - destruct l as [l'|]; cbn [option_map] in *.
    + unfold dec. cbn [dec_gen enc] in *.
      set (q := concat (map enc (map VBytes l'))) in *.
      assert (Hq : len q <= max_int).
      { pose proof (enc_list_len q). rewrite len_app in Hmax. lia. }
      rewrite read_list_enc by assumption.
      rewrite child_view_app, child_short_app.
      rewrite (items_bytes_rt (N.min (N.min stream_mx sz) (len q)) l').
      * unfold close_ok. rewrite after_child_app. reflexivity.
      * apply Forall_forall. intros o Hin. rewrite Forall_forall in Hl. specialize (Hl o Hin).
        destruct o as [b|]; [|exact I]. cbn [small] in Hl.
        pose proof (len_concat_in (fun o => enc (VBytes o)) (Some b) l' Hin) as HC.
        rewrite <- map_map in HC. fold q in HC.
        pose proof (len_enc_vbytes (Some b)) as HL. cbn [flat] in HL.
        pose proof (enc_list_len q). pose proof stream_mx_le. split; lia.
      * unfold q. lia.
    + unfold dec. cbn [dec_gen enc]. rewrite read_list_null. reflexivity.
Qed.

(* ------------------------------------------------------------------------- *)
(* DecodeMulti and the self-decoding list                                     *)
(* ------------------------------------------------------------------------- *)

Lemma dec_multi_rt ts l : Forall2 fieldok ts l ->
  forall ts2 sz, len (concat (map enc l)) <= sz -> len (concat (map enc l)) <= max_int ->
  dec_multi (ts ++ ts2) false (N.min stream_mx sz) (concat (map enc l)) 0
  = match ts2 with [] => MDone l ([], 0) | _ :: _ => MEof l end.
Proof.
  induction 1 as [|t x ts l Hx HF IH]; intros ts2 sz Hsz Hmax.
  - cbn [app map concat]. destruct ts2 as [|t2 ts2]; [reflexivity|].
    cbn [dec_multi]. unfold dec. rewrite dec_nil. reflexivity.
  - cbn [app map concat dec_multi] in *. rewrite len_app in Hsz, Hmax.
    rewrite (field_rt t x sz _ Hx); [|lia|rewrite len_app; lia].
    rewrite IH by lia. destruct ts2; reflexivity.
Qed.

Lemma Forall2_length' {A B} (R : A -> B -> Prop) l1 l2 : Forall2 R l1 l2 -> length l1 = length l2.
Proof. induction 1; cbn; congruence. Qed.

Lemma self_list_rt ts ts2 l rest :
  Forall2 fieldok ts l -> (length ts2 <= 1)%nat ->
  len (enc (VStruct l) ++ rest) <= max_int ->
  dec_self_list (ts ++ ts2) (enc (VStruct l) ++ rest) = Some (l, rest).
Proof.
  intros HF H2 Hmax. unfold dec_self_list. cbn [enc] in *.
  set (p := concat (map enc l)) in *.
  assert (Hp : len p <= max_int).
  { pose proof (enc_list_len p). rewrite len_app in Hmax. lia. }
  rewrite read_list_enc by assumption.
  rewrite child_view_app, child_short_app, after_child_app.
  unfold p. rewrite (dec_multi_rt ts l HF ts2 (len (concat (map enc l)))) by (fold p; lia).
  destruct ts2 as [|t2 [|? ?]]; [reflexivity| |cbn in H2; lia].
  rewrite app_length. cbn [length]. rewrite (Forall2_length' _ _ _ HF).
  replace (length l + 1)%nat with (S (length l)) by lia. rewrite Nat.eqb_refl. reflexivity.
Qed.

(* the list is read from a prefix of the stream and nothing else *)
Lemma read_list_prefix sh v sz r : read_list sh v = HOk sz r ->
  exists hd, v = hd ++ r /\ forall r', read_list sh (hd ++ r') = HOk sz r'.
Proof.
  unfold read_list. destruct v as [|tag r0]; [destruct sh; discriminate|].
  destruct (tag <? 192) eqn:E1; [discriminate|].
  destruct (tag <=? 247) eqn:E2.
  - intros Hq. inversion Hq; subst. exists [tag]. split; [reflexivity|].
    intros r'. cbn [app]. rewrite E1, E2. reflexivity.
  - unfold read_size. destruct (take (tag - 247) r0) as [[sb r1]|] eqn:ET; [|discriminate].
    destruct (bytes_to_size sb) as [n|] eqn:EB; [|discriminate].
    destruct ((tag =? 248) && (n =? 0)) eqn:E3; [discriminate|].
    intros Hq. inversion Hq; subst. apply take_spec in ET as [-> HL].
    exists (tag :: sb). split; [reflexivity|].
    intros r'. cbn [app]. rewrite E1, E2. rewrite (take_app' (tag - 247) sb r') by lia.
    rewrite EB, E3. reflexivity.
Qed.

Lemma self_list_prefix ts hb x l : dec_self_list ts (hb ++ x) = Some (l, x) ->
  forall y, dec_self_list ts (hb ++ y) = Some (l, y).
Proof.
  unfold dec_self_list. intros Hd y.
  destruct (read_list false (hb ++ x)) as [sz r| | |] eqn:ER; try discriminate.
  destruct (read_list_prefix _ _ _ _ ER) as (hd & Hv & Hrl).
  assert (Hacc : child_short sz r = false /\ after_child sz r = x).
  { destruct (dec_multi ts (child_short sz r) (N.min stream_mx sz) (child_view sz r) 0) as [l0 s|l0|];
      [| |discriminate].
    - destruct (child_short sz r); [discriminate|]. inversion Hd; auto.
    - destruct (Nat.eqb _ _); [|discriminate].
      destruct (child_short sz r); [discriminate|]. inversion Hd; auto. }
  destruct Hacc as [Hsh Hx].
  unfold child_short in Hsh. unfold after_child in Hx.
  assert (Hle : sz <= len r) by lia.
  destruct (sz <=? len r) eqn:E; [|lia].
  set (cv := firstn (N.to_nat sz) r).
  assert (Hr : r = cv ++ x) by (subst cv x; now rewrite firstn_skipn).
  assert (Hcv : len cv = sz).
  { subst cv. unfold len in *. rewrite firstn_length. lia. }
  assert (Hhb : hb = hd ++ cv).
  { rewrite Hr in Hv. rewrite app_assoc in Hv. now apply app_inv_tail in Hv. }
  assert (Hcvx : child_view sz r = cv).
  { unfold child_view. rewrite E. reflexivity. }
  rewrite Hhb, <- app_assoc, Hrl. rewrite <- Hcv.
  rewrite child_view_app, child_short_app, after_child_app.
  rewrite Hcv. rewrite Hcvx in Hd.
  assert (Hsh' : child_short sz r = false) by (unfold child_short; lia).
  rewrite Hsh' in Hd.
  destruct (dec_multi ts false (N.min stream_mx sz) cv 0) as [l0 s|l0|]; [| |discriminate].
  - injection Hd as <- _. reflexivity.
  - destruct (Nat.eqb _ _); [|discriminate]. injection Hd as <- _. reflexivity.
Qed.

(* ------------------------------------------------------------------------- *)
(* the format structs                                                         *)
(* ------------------------------------------------------------------------- *)

Definition hfmt_ok (h : hfmt) : Prop :=
  in_int_range 64 (hf_version h) = true /\ in_int_range 64 (hf_height h) = true /\
  in_int_range 64 (hf_timestamp h) = true /\
  small (hf_proposer h) /\ small (hf_prev h) /\ small (hf_votes_hash h) /\
  small (hf_next_validators_hash h) /\ small (hf_patch_hash h) /\ small (hf_normal_hash h) /\
  small (hf_logs_bloom h) /\ small (hf_result h) /\ small (hf_ns_filter h).

Definition bss_ok (l : option (list (option bytes))) : Prop :=
  match l with Some l' => Forall small l' | None => True end.

Definition bfmt_ok (b : bfmt) : Prop :=
  bss_ok (bf_patch b) /\ bss_ok (bf_normal b) /\ small (bf_votes b) /\ small (bf_digest b).

Definition hdr_tys11 : list ty := firstn 11 hdr_tys.
Definition body_tys3 : list ty := firstn 3 body_tys.

Lemma hfmt_fields_ok h : hfmt_ok h ->
  exists ts2, hdr_tys = (if hf_ns_filter h then hdr_tys else hdr_tys11) ++ ts2 /\ (length ts2 <= 1)%nat /\
              Forall2 fieldok (if hf_ns_filter h then hdr_tys else hdr_tys11) (hfmt_fields h).
Proof.
  intros (H1 & H2 & H3 & H4 & H5 & H6 & H7 & H8 & H9 & H10 & H11 & H12).
  unfold hfmt_fields. destruct (hf_ns_filter h) as [f|].
  - exists []. split; [now rewrite app_nil_r|]. split; [cbn; lia|].
    unfold hdr_tys. cbn [app]. repeat constructor; assumption.
  - exists [TBytes]. split; [reflexivity|]. split; [cbn; lia|].
    unfold hdr_tys11, hdr_tys. cbn [firstn app]. repeat constructor; assumption.
Qed.

Lemma hfmt_of_fields h : hfmt_of_values (hfmt_fields h) = Some h.
Proof. destruct h as [a b c d e f g h i j k n]. unfold hfmt_fields. cbn. destruct n; reflexivity. Qed.

Lemma hfmt_rt h rest : hfmt_ok h -> len (encode_hfmt h ++ rest) <= max_int ->
  dec_hfmt (encode_hfmt h ++ rest) = Some (h, rest).
Proof.
  intros Hok Hmax. destruct (hfmt_fields_ok h Hok) as (ts2 & Hts & H2 & HF).
  unfold dec_hfmt, encode_hfmt in *. rewrite Hts.
  rewrite (self_list_rt _ ts2 _ rest HF H2 Hmax). rewrite hfmt_of_fields. reflexivity.
Qed.

Lemma bss_of_values_map l : bss_of_values (map VBytes l) = Some l.
Proof. induction l as [|o l IH]; [reflexivity|]. cbn. rewrite IH. reflexivity. Qed.

Lemma bss_of_value_rt l : bss_of_value (bss_value l) = Some l.
Proof. destruct l as [l|]; cbn; [rewrite bss_of_values_map|]; reflexivity. Qed.

Lemma bfmt_of_fields b : bfmt_of_values (bfmt_fields b) = Some b.
Proof.
  destruct b as [p n v d]. unfold bfmt_fields. cbn [bf_patch bf_normal bf_votes bf_digest app].
  destruct d; cbn [bfmt_of_values app]; rewrite !bss_of_value_rt; reflexivity.
Qed.

Lemma bfmt_fields_ok b : bfmt_ok b ->
  exists ts2, body_tys = (if bf_digest b then body_tys else body_tys3) ++ ts2 /\ (length ts2 <= 1)%nat /\
              Forall2 fieldok (if bf_digest b then body_tys else body_tys3) (bfmt_fields b).
Proof.
  intros (H1 & H2 & H3 & H4). unfold bfmt_fields, bss_value. destruct (bf_digest b) as [d|].
  - exists []. split; [now rewrite app_nil_r|]. split; [cbn; lia|].
    unfold body_tys. cbn [app]. repeat constructor; assumption.
  - exists [TBytes]. split; [reflexivity|]. split; [cbn; lia|].
    unfold body_tys3, body_tys. cbn [firstn app]. repeat constructor; assumption.
Qed.

Lemma bfmt_rt b rest : bfmt_ok b -> len (encode_bfmt b ++ rest) <= max_int ->
  dec_bfmt (encode_bfmt b ++ rest) = Some (b, rest).
Proof.
  intros Hok Hmax. destruct (bfmt_fields_ok b Hok) as (ts2 & Hts & H2 & HF).
  unfold dec_bfmt, encode_bfmt in *. rewrite Hts.
  rewrite (self_list_rt _ ts2 _ rest HF H2 Hmax). rewrite bfmt_of_fields. reflexivity.
Qed.

Lemma peek_rt h rest : hfmt_ok h -> len (encode_hfmt h ++ rest) <= max_int ->
  peek_version (encode_hfmt h ++ rest) = Some (hf_version h).
Proof.
  intros Hok Hmax. unfold peek_version, encode_hfmt in *. cbn [enc] in *.
  set (p := concat (map enc (hfmt_fields h))) in *.
  assert (Hp : len p <= max_int).
  { pose proof (enc_list_len p). rewrite len_app in Hmax. lia. }
  rewrite read_list_enc by assumption.
  rewrite child_view_app, child_short_app.
  unfold p, hfmt_fields. cbn [app map concat].
  destruct Hok as (H1 & _).
  rewrite (field_rt (TInt 64) (VInt (hf_version h))); [reflexivity|now constructor| |].
  - fold (hfmt_fields h). unfold p, hfmt_fields. cbn [app map concat]. rewrite len_app. lia.
  - fold (hfmt_fields h). unfold p, hfmt_fields in Hp. cbn [app map concat] in Hp. exact Hp.
Qed.

Lemma dec_hfmt_prefix hb x h : dec_hfmt (hb ++ x) = Some (h, x) ->
  forall y, dec_hfmt (hb ++ y) = Some (h, y).
Proof.
  unfold dec_hfmt. intros Hd y.
  destruct (dec_self_list hdr_tys (hb ++ x)) as [[l r]|] eqn:E; [|discriminate].
  destruct (hfmt_of_values l) as [h'|] eqn:EH; [|discriminate].
  cbn in Hd. inversion Hd; subst.
  rewrite (self_list_prefix _ _ _ _ E y), EH. reflexivity.
Qed.

(* header bytes determine the header: the encoder is injective *)
Lemma encode_hfmt_injective h1 h2 :
  hfmt_ok h1 -> hfmt_ok h2 -> len (encode_hfmt h1) <= max_int ->
  encode_hfmt h1 = encode_hfmt h2 -> h1 = h2.
Proof.
  intros H1 H2 Hmax He.
  pose proof (hfmt_rt h1 [] H1) as R1. pose proof (hfmt_rt h2 [] H2) as R2.
  rewrite app_nil_r in *. rewrite <- He in R2. rewrite R1 in R2 by assumption.
  specialize (R2 Hmax). now inversion R2.
Qed.

Lemma encode_bfmt_injective b1 b2 :
  bfmt_ok b1 -> bfmt_ok b2 -> len (encode_bfmt b1) <= max_int ->
  encode_bfmt b1 = encode_bfmt b2 -> b1 = b2.
Proof.
  intros H1 H2 Hmax He.
  pose proof (bfmt_rt b1 [] H1) as R1. pose proof (bfmt_rt b2 [] H2) as R2.
  rewrite app_nil_r in *. rewrite <- He in R2. rewrite R1 in R2 by assumption.
  specialize (R2 Hmax). now inversion R2.
Qed.

(* ------------------------------------------------------------------------- *)
(* proposer, filter                                                           *)
(* ------------------------------------------------------------------------- *)

Lemma of_bytes_to_bytes b a : Model_Address.of_bytes b = Some a ->
  Model_Address.of_bytes (to_bytes a) = Some a.
Proof.
  unfold Model_Address.of_bytes. destruct (Nat.eqb (length b) 21) eqn:E21.
  - apply Nat.eqb_eq in E21. destruct b as [|t id]; [discriminate|].
    cbn in E21. assert (Hid : length id = 20%nat) by lia.
    destruct t as [|[|[]|]]; try discriminate; intros Hq; inversion Hq; subst;
      unfold to_bytes; cbn [a_contract a_id length]; rewrite Hid; reflexivity.
  - destruct (Nat.eqb (length b) 20) eqn:E20; [|discriminate].
    apply Nat.eqb_eq in E20. intros Hq. inversion Hq; subst.
    unfold to_bytes. cbn [a_contract a_id length]. rewrite E20. reflexivity.
Qed.

Lemma norm_proposer_idem o p : norm_proposer o = Some p -> norm_proposer p = Some p.
Proof.
  unfold norm_proposer. destruct o as [b|].
  - destruct (Model_Address.of_bytes b) as [a|] eqn:E; [|discriminate].
    cbn. intros Hq. inversion Hq; subst. rewrite (of_bytes_to_bytes b a E). reflexivity.
  - intros Hq. inversion Hq; subst. reflexivity.
Qed.

Lemma norm_filter_flat o : flat (norm_filter o) = flat o.
Proof. destruct o as [[|]|]; reflexivity. Qed.

Lemma norm_filter_idem o : norm_filter (norm_filter o) = norm_filter o.
Proof. destruct o as [[|]|]; reflexivity. Qed.

Lemma map_opt_id {A} (f : A -> option A) l :
  Forall (fun x => f x = Some x) l -> map_opt f l = Some l.
Proof.
  induction 1 as [|x l Hx HF IH]; [reflexivity|]. cbn. rewrite Hx, IH. reflexivity.
Qed.

Lemma map_opt_Forall {A B} (f : A -> option B) (P : B -> Prop) l l' :
  (forall x y, f x = Some y -> P y) -> map_opt f l = Some l' -> Forall P l'.
Proof.
  intros Hf. revert l'. induction l as [|x l IH]; intros l' Hm.
  - inversion Hm. constructor.
  - cbn in Hm. destruct (f x) as [y|] eqn:E; [|discriminate].
    destruct (map_opt f l) as [r|]; [|discriminate]. inversion Hm; subst.
    constructor; [eapply Hf; eauto|apply IH; reflexivity].
Qed.

(* ------------------------------------------------------------------------- *)
(* the block                                                                  *)
(* ------------------------------------------------------------------------- *)

Section Codec.
  Variable H : bytes -> bytes.
  Variable list_root : list bytes -> option bytes.
  Variable tx_parse : bytes -> option bytes.
  Variable votes_parse : option bytes -> option bytes.
  Variable digest_filter : bytes -> option (option bytes).
  Variable result_btp : option bytes -> option (option bytes).
  Variable bloom_norm : option bytes -> bytes.

  Notation header_of := (header_of H list_root).
  Notation encode_header := (encode_header H list_root).
  Notation encode := (encode H list_root).
  Notation block_id := (block_id H list_root).
  Notation parse_txs := (parse_txs tx_parse).
  Notation digest_info := (digest_info H digest_filter).
  Notation build := (build H list_root tx_parse votes_parse digest_filter result_btp bloom_norm).
  Notation decode := (decode H list_root tx_parse votes_parse digest_filter result_btp bloom_norm).

  (* the part of well-formedness that is about sizes: every integer fits int64, every byte
     string is at most MaxSizeForBytes long (the stream decoder refuses longer ones), the
     whole encoding is a Go slice *)
  Definition sizes_ok (b : block) : Prop :=
    hfmt_ok (header_of b) /\ bfmt_ok (body_of b) /\ len (encode b) <= max_int.

  (* a block as a node builds it: its parts are in the canonical form of their parsers and
     the header fields outside the block package's control are consistent with the body *)
  Definition wf (b : block) : Prop :=
    sizes_ok b /\
    norm_proposer (b_proposer b) = Some (b_proposer b) /\
    bloom_norm (Some (b_logs_bloom b)) = b_logs_bloom b /\
    Forall (fun t => tx_parse t = Some t) (b_patch b) /\
    Forall (fun t => tx_parse t = Some t) (b_normal b) /\
    votes_parse (Some (b_votes b)) = Some (b_votes b) /\
    norm_filter (b_ns_filter b) = b_ns_filter b /\
    exists dh f rh,
      digest_info (b_digest b) = Some (dh, f) /\ result_btp (b_result b) = Some rh /\
      beq rh dh = true /\ beq (b_ns_filter b) f = true.

  Lemma parse_txs_bss_of l :
    Forall (fun t => tx_parse t = Some t) l -> parse_txs (bss_of l) = Some l.
  Proof.
    intros HF. unfold bss_of, Model_BlockCodec.parse_txs. destruct l as [|t l]; [reflexivity|].
    set (l0 := t :: l) in *. clearbody l0.
    induction HF as [|x r Hx HF IH]; [reflexivity|]. cbn [map map_opt flat]. rewrite Hx, IH. reflexivity.
  Qed.

  Lemma build_wf b : wf b -> build (header_of b) (body_of b) = Some b.
  Proof.
    intros (_ & Hp & Hb & Hpt & Hnt & Hv & Hnf & dh & f & rh & Hd & Hr & Hrd & Hff).
    unfold Model_BlockCodec.build.
    cbn [header_of body_of Model_BlockCodec.header_of Model_BlockCodec.body_of
         bf_patch bf_normal bf_votes bf_digest hf_patch_hash hf_normal_hash hf_votes_hash hf_result
         hf_ns_filter hf_proposer hf_height hf_timestamp hf_prev hf_logs_bloom hf_next_validators_hash].
    rewrite (parse_txs_bss_of _ Hpt), (negb_if_false _ _ _ (beq_refl _)).
    rewrite (parse_txs_bss_of _ Hnt), (negb_if_false _ _ _ (beq_refl _)).
    rewrite Hv, (negb_if_false _ _ _ (beq_refl _)).
    rewrite Hd, Hr, (negb_if_false _ _ _ Hrd), (negb_if_false _ _ _ Hff), Hp, Hb, Hnf.
    destruct b; reflexivity.
  Qed.

  Lemma decode_encode b rest : wf b -> len (encode b ++ rest) <= max_int ->
    decode (encode b ++ rest) = Some (b, rest).
  Proof.
    intros Hwf Hmax. pose proof Hwf as ((Hh & Hb & _) & _).
    unfold Model_BlockCodec.decode, Model_BlockCodec.encode, Model_BlockCodec.encode_header,
      Model_BlockCodec.encode_body in *.
    rewrite <- app_assoc in *.
    rewrite (peek_rt _ _ Hh Hmax). cbn [hf_version Model_BlockCodec.header_of].
    rewrite (hfmt_rt _ _ Hh Hmax).
    rewrite bfmt_rt; [|assumption|rewrite len_app in Hmax; lia].
    rewrite (build_wf b Hwf). reflexivity.
  Qed.

  (* decode, seen from its result *)
  Lemma decode_inv bs b r : decode bs = Some (b, r) ->
    exists h r1 bf, peek_version bs = Some 2%Z /\ dec_hfmt bs = Some (h, r1) /\
                    dec_bfmt r1 = Some (bf, r) /\ build h bf = Some b.
  Proof.
    unfold Model_BlockCodec.decode. intros Hd.
    destruct (peek_version bs) as [[|[[]|[]|]|]|] eqn:EP; try discriminate.
    destruct (dec_hfmt bs) as [[h r1]|] eqn:EH; [|discriminate].
    destruct (dec_bfmt r1) as [[bf r2]|] eqn:EB; [|discriminate].
    destruct (build h bf) as [b'|] eqn:EBu; [|discriminate].
    cbn in Hd. inversion Hd; subst. exists h, r1, bf. auto.
  Qed.

  Lemma build_inv h bf b : build h bf = Some b ->
    exists dh f rh,
      parse_txs (bf_patch bf) = Some (b_patch b) /\ beq (list_root (b_patch b)) (hf_patch_hash h) = true /\
      parse_txs (bf_normal bf) = Some (b_normal b) /\ beq (list_root (b_normal b)) (hf_normal_hash h) = true /\
      votes_parse (bf_votes bf) = Some (b_votes b) /\ beq (Some (H (b_votes b))) (hf_votes_hash h) = true /\
      digest_info (bf_digest bf) = Some (dh, f) /\ result_btp (hf_result h) = Some rh /\
      beq rh dh = true /\ beq (hf_ns_filter h) f = true /\
      norm_proposer (hf_proposer h) = Some (b_proposer b) /\
      b_height b = hf_height h /\ b_timestamp b = hf_timestamp h /\ b_prev b = hf_prev h /\
      b_logs_bloom b = bloom_norm (hf_logs_bloom h) /\ b_result b = hf_result h /\
      b_next_validators_hash b = hf_next_validators_hash h /\
      b_ns_filter b = norm_filter (hf_ns_filter h) /\ b_digest b = bf_digest bf.
  Proof.
    unfold Model_BlockCodec.build.
    destruct (parse_txs (bf_patch bf)) as [ps|] eqn:E1; [|discriminate].
    destruct (beq (list_root ps) (hf_patch_hash h)) eqn:E2; [|discriminate]. cbn [negb].
    destruct (parse_txs (bf_normal bf)) as [ns|] eqn:E3; [|discriminate].
    destruct (beq (list_root ns) (hf_normal_hash h)) eqn:E4; [|discriminate]. cbn [negb].
    destruct (votes_parse (bf_votes bf)) as [vs|] eqn:E5; [|discriminate].
    destruct (beq (Some (H vs)) (hf_votes_hash h)) eqn:E6; [|discriminate]. cbn [negb].
    destruct (digest_info (bf_digest bf)) as [[dh f]|] eqn:E7; [|discriminate].
    destruct (result_btp (hf_result h)) as [rh|] eqn:E8; [|discriminate].
    destruct (beq rh dh) eqn:E9; [|discriminate]. cbn [negb].
    destruct (beq (hf_ns_filter h) f) eqn:E10; [|discriminate]. cbn [negb].
    destruct (norm_proposer (hf_proposer h)) as [pr|] eqn:E11; [|discriminate].
    intros Hq. inversion Hq; subst. cbn. exists dh, f, rh. repeat split; assumption.
  Qed.

  (* what the abstract parsers must satisfy for a decoded block to be re-encodable:
     their outputs are fixed points *)
  Definition parsers_idempotent : Prop :=
    (forall x c, tx_parse x = Some c -> tx_parse c = Some c) /\
    (forall x c, votes_parse x = Some c -> votes_parse (Some c) = Some c) /\
    (forall x, bloom_norm (Some (bloom_norm x)) = bloom_norm x).

  Lemma parse_txs_fixed l l' : (forall x c, tx_parse x = Some c -> tx_parse c = Some c) ->
    parse_txs l = Some l' -> Forall (fun t => tx_parse t = Some t) l'.
  Proof.
    intros Hi. unfold Model_BlockCodec.parse_txs. destruct l as [l0|].
    - apply map_opt_Forall. intros o y. apply Hi.
    - intros Hq. inversion Hq. constructor.
  Qed.

  Lemma decoded_wf bs b r : parsers_idempotent -> decode bs = Some (b, r) -> sizes_ok b -> wf b.
  Proof.
    intros (Htx & Hvt & Hbl) Hd Hs.
    destruct (decode_inv _ _ _ Hd) as (h & r1 & bf & _ & _ & _ & Hb).
    destruct (build_inv _ _ _ Hb) as (dh & f & rh & P1 & _ & P3 & _ & P5 & _ & P7 & P8 & P9 & P10 & P11
      & _ & _ & _ & Q5 & Q6 & _ & Q8 & Q9).
    split; [assumption|]. split; [eapply norm_proposer_idem; eauto|].
    split; [rewrite Q5; apply Hbl|].
    split; [eapply parse_txs_fixed; eauto|]. split; [eapply parse_txs_fixed; eauto|].
    split; [eapply Hvt; eauto|]. split; [rewrite Q8; apply norm_filter_idem|].
    exists dh, f, rh. rewrite Q9, Q6, Q8. repeat split; try assumption.
    apply beq_flat. rewrite norm_filter_flat. now apply beq_flat.
  Qed.

  Lemma reencode_stable bs b r : parsers_idempotent -> decode bs = Some (b, r) -> sizes_ok b ->
    forall r', len (encode b ++ r') <= max_int -> decode (encode b ++ r') = Some (b, r').
  Proof. intros Hi Hd Hs r' Hmax. apply decode_encode; [eapply decoded_wf; eauto|assumption]. Qed.

  (* ----------------------------------------------------------------------- *)
  (* body bound to header                                                     *)
  (* ----------------------------------------------------------------------- *)

  Definition digest_hash (d : option bytes) : option bytes := option_map H d.

  Lemma digest_info_hash d dh f : digest_info d = Some (dh, f) -> dh = digest_hash d.
  Proof.
    unfold Model_BlockCodec.digest_info, digest_hash. destruct d as [x|]; cbn.
    - destruct (digest_filter x); [|discriminate]. intros Hq. now inversion Hq.
    - intros Hq. now inversion Hq.
  Qed.

  Lemma body_bound bs b r : decode bs = Some (b, r) ->
    exists h r1, dec_hfmt bs = Some (h, r1) /\
      beq (list_root (b_patch b)) (hf_patch_hash h) = true /\
      beq (list_root (b_normal b)) (hf_normal_hash h) = true /\
      beq (Some (H (b_votes b))) (hf_votes_hash h) = true /\
      (exists rh f, result_btp (hf_result h) = Some rh /\ beq rh (digest_hash (b_digest b)) = true /\
                    digest_info (b_digest b) = Some (digest_hash (b_digest b), f) /\
                    beq (hf_ns_filter h) f = true) /\
      b_height b = hf_height h /\ b_timestamp b = hf_timestamp h /\ b_prev b = hf_prev h /\
      b_result b = hf_result h /\ b_next_validators_hash b = hf_next_validators_hash h /\
      norm_proposer (hf_proposer h) = Some (b_proposer b) /\
      b_logs_bloom b = bloom_norm (hf_logs_bloom h) /\ b_ns_filter b = norm_filter (hf_ns_filter h).
  Proof.
    intros Hd. destruct (decode_inv _ _ _ Hd) as (h & r1 & bf & _ & HH & _ & Hb).
    destruct (build_inv _ _ _ Hb) as (dh & f & rh & P1 & P2 & P3 & P4 & P5 & P6 & P7 & P8 & P9 & P10 & P11
      & Q1 & Q2 & Q3 & Q5 & Q6 & Q7 & Q8 & Q9).
    exists h, r1. split; [assumption|]. repeat (split; [assumption|]).
    split.
    - exists rh, f. rewrite Q9. pose proof (digest_info_hash _ _ _ P7) as ->. auto.
    - repeat split; assumption.
  Qed.

  (* an explicit collision of the hash or of the list root, or a hash value that is empty *)
  Definition collision : Prop :=
    (exists x y, x <> y /\ H x = H y) \/
    (exists l1 l2, l1 <> l2 /\ flat (list_root l1) = flat (list_root l2)) \/
    (exists x, H x = []).

  Lemma list_eq_dec_bytes (a b : list bytes) : a = b \/ a <> b.
  Proof. destruct (list_eq_dec (list_eq_dec N.eq_dec) a b); auto. Qed.
  Lemma bytes_eq_dec' (a b : bytes) : a = b \/ a <> b.
  Proof. destruct (list_eq_dec N.eq_dec a b); auto. Qed.

  (* two accepted inputs whose headers decode alike carry the same body *)
  Lemma no_body_swap bs1 bs2 b1 b2 r1 r2 h t1 t2 :
    decode bs1 = Some (b1, r1) -> decode bs2 = Some (b2, r2) ->
    dec_hfmt bs1 = Some (h, t1) -> dec_hfmt bs2 = Some (h, t2) ->
    b1 = b2 \/ collision.
  Proof.
    intros D1 D2 E1 E2.
    destruct (body_bound _ _ _ D1) as (h1 & s1 & F1 & A1 & A2 & A3 & (rh1 & f1 & A4 & A5 & A6 & A7) & B1).
    destruct (body_bound _ _ _ D2) as (h2 & s2 & F2 & C1 & C2 & C3 & (rh2 & f2 & C4 & C5 & C6 & C7) & B2).
    rewrite E1 in F1. rewrite E2 in F2. inversion F1; inversion F2; subst h1 h2 s1 s2. clear F1 F2.
    apply beq_flat in A1, A2, A3, A5, C1, C2, C3, C5.
    rewrite A4 in C4. inversion C4; subst rh2. clear C4.
    destruct (list_eq_dec_bytes (b_patch b1) (b_patch b2)) as [Ep|Np];
      [|right; right; left; exists (b_patch b1), (b_patch b2); split; [assumption|congruence]].
    destruct (list_eq_dec_bytes (b_normal b1) (b_normal b2)) as [En|Nn];
      [|right; right; left; exists (b_normal b1), (b_normal b2); split; [assumption|congruence]].
    destruct (bytes_eq_dec' (b_votes b1) (b_votes b2)) as [Ev|Nv];
      [|right; left; exists (b_votes b1), (b_votes b2); split; [assumption|cbn [flat] in *; congruence]].
    assert (Ed : b_digest b1 = b_digest b2 \/ collision).
    { assert (Hf : flat (digest_hash (b_digest b1)) = flat (digest_hash (b_digest b2))) by congruence.
      unfold digest_hash in Hf.
      destruct (b_digest b1) as [d1|], (b_digest b2) as [d2|]; cbn [option_map flat] in Hf.
      - destruct (bytes_eq_dec' d1 d2) as [->|Nd]; [now left|].
        right. left. exists d1, d2. auto.
      - right. right. right. exists d1. assumption.
      - right. right. right. exists d2. auto.
      - now left. }
    destruct Ed as [Ed|Hc]; [|now right].
    left.
    destruct B1 as (X1 & X2 & X3 & X4 & X5 & X6 & X7 & X8).
    destruct B2 as (Y1 & Y2 & Y3 & Y4 & Y5 & Y6 & Y7 & Y8).
    rewrite X6 in Y6. inversion Y6.
    destruct b1, b2; cbn in *; subst; reflexivity.
  Qed.

  (* the same statement for inputs that start with the same header bytes *)
  Lemma no_body_swap_bytes hb x y h b1 b2 r1 r2 :
    dec_hfmt (hb ++ x) = Some (h, x) ->
    decode (hb ++ x) = Some (b1, r1) -> decode (hb ++ y) = Some (b2, r2) ->
    b1 = b2 \/ collision.
  Proof.
    intros E D1 D2. eapply no_body_swap; eauto. apply (dec_hfmt_prefix _ _ _ E).
  Qed.

  (* ----------------------------------------------------------------------- *)
  (* identifiers                                                              *)
  (* ----------------------------------------------------------------------- *)

  Lemma id_of_header b1 b2 : header_of b1 = header_of b2 -> block_id b1 = block_id b2.
  Proof.
    intros He. unfold Model_BlockCodec.block_id, Model_BlockCodec.encode_header. now rewrite He.
  Qed.

  Lemma id_of_header_bytes b1 b2 : encode_header b1 = encode_header b2 -> block_id b1 = block_id b2.
  Proof. intros He. unfold Model_BlockCodec.block_id. now rewrite He. Qed.

  Lemma encode_injective b1 b2 : wf b1 -> wf b2 -> encode b1 = encode b2 -> b1 = b2.
  Proof.
    intros W1 W2 He.
    pose proof W1 as ((_ & _ & M1) & _). pose proof W2 as ((_ & _ & M2) & _).
    pose proof (decode_encode b1 [] W1) as R1. pose proof (decode_encode b2 [] W2) as R2.
    rewrite app_nil_r in *. rewrite <- He in R2. rewrite R1 in R2 by assumption.
    rewrite <- He in M2. specialize (R2 M2). now inversion R2.
  Qed.

  (* blocks with different header structs have different header bytes, hence different
     ids unless the hash collides *)
  Lemma header_bytes_injective b1 b2 :
    hfmt_ok (header_of b1) -> hfmt_ok (header_of b2) -> len (encode_header b1) <= max_int ->
    encode_header b1 = encode_header b2 -> header_of b1 = header_of b2.
  Proof. intros H1 H2 Hm He. apply encode_hfmt_injective; assumption. Qed.

  Lemma distinct_headers_distinct_ids b1 b2 :
    hfmt_ok (header_of b1) -> hfmt_ok (header_of b2) -> len (encode_header b1) <= max_int ->
    header_of b1 <> header_of b2 ->
    block_id b1 <> block_id b2 \/ exists x y, x <> y /\ H x = H y.
  Proof.
    intros H1 H2 Hm Hne.
    destruct (bytes_eq_dec' (encode_header b1) (encode_header b2)) as [He|Nb].
    - exfalso. apply Hne. now apply header_bytes_injective.
    - destruct (bytes_eq_dec' (block_id b1) (block_id b2)) as [Ei|Ni]; [|now left].
      right. exists (encode_header b1), (encode_header b2). split; assumption.
  Qed.

  (* whatever is accepted was read from a prefix: the remainder is a tail of the input *)
  Lemma self_list_suf ts v l r : dec_self_list ts v = Some (l, r) -> suf v r.
  Proof.
    unfold dec_self_list. destruct (read_list false v) as [sz r0| | |] eqn:ER; try discriminate.
    pose proof (read_list_good false v) as G. rewrite ER in G. cbn in G.
    intros Hd.
    assert (r = after_child sz r0).
    { destruct (dec_multi ts _ _ _ 0) as [l0 s|l0|]; [| |discriminate].
      - destruct (child_short sz r0); [discriminate|]. now inversion Hd.
      - destruct (Nat.eqb _ _); [|discriminate]. destruct (child_short sz r0); [discriminate|]. now inversion Hd. }
    subst r. eapply suf_trans; [apply ssuf_suf; exact G|apply after_child_suf].
  Qed.

  Lemma decode_reads_prefix bs b r : decode bs = Some (b, r) -> exists used, bs = used ++ r.
  Proof.
    intros Hd. destruct (decode_inv _ _ _ Hd) as (h & r1 & bf & _ & HH & HB & _).
    unfold dec_hfmt in HH. destruct (dec_self_list hdr_tys bs) as [[l1 s1]|] eqn:E1; [|discriminate].
    destruct (hfmt_of_values l1); [|discriminate]. cbn in HH. inversion HH; subst.
    unfold dec_bfmt in HB. destruct (dec_self_list body_tys r1) as [[l2 s2]|] eqn:E2; [|discriminate].
    destruct (bfmt_of_values l2); [|discriminate]. cbn in HB. inversion HB; subst.
    apply self_list_suf in E1, E2. exact (suf_trans _ _ _ E1 E2).
  Qed.
End Codec.

(* ------------------------------------------------------------------------- *)
(* non-vacuity: concrete parsers and blocks that meet the hypotheses          *)
(* ------------------------------------------------------------------------- *)

Module Ex.
  (* a toy hash (length and xor of the bytes): it has collisions, which the last example uses *)
  Definition H (x : bytes) : bytes := [len x mod 256; fold_left N.lxor x 0].
  Definition list_root (l : list bytes) : option bytes :=
    match l with [] => None | _ => Some (H (concat l)) end.
  (* a transaction starts with an opening brace *)
  Definition tx_parse (x : bytes) : option bytes :=
    match x with a :: _ => if a =? 123 then Some x else None | [] => None end.
  Definition votes_parse (o : option bytes) : option bytes :=
    match o with None => Some [192] | Some [] => None | Some v => Some v end.
  (* the filter of a digest is its first byte *)
  Definition digest_filter (d : bytes) : option (option bytes) :=
    match d with [] => None | x :: _ => Some (Some [x]) end.
  (* a result starting with 1 carries BTP data *)
  Definition result_btp (r : option bytes) : option (option bytes) :=
    match r with Some (1 :: rest) => Some (Some rest) | _ => Some None end.
  Definition bloom_norm (o : option bytes) : bytes := flat o.

  Definition dec := decode H list_root tx_parse votes_parse digest_filter result_btp bloom_norm.
  Definition enc := encode H list_root.
  Definition wfb := wf H list_root tx_parse votes_parse digest_filter result_btp bloom_norm.

  (* 12 header fields, 4 body fields: proposer, two transactions, votes, BTP digest and filter *)
  Definition b1 : block :=
    {| b_height := 5; b_timestamp := 1000000; b_proposer := Some (0 :: repeat 7 20);
       b_prev := Some [1; 2; 3]; b_logs_bloom := []; b_result := Some (1 :: H [9; 9]);
       b_patch := []; b_normal := [[123; 1]; [123; 2]]; b_next_validators_hash := None;
       b_votes := [192; 1; 1]; b_ns_filter := Some [9]; b_digest := Some [9; 9] |}.
  (* 11 header fields, 3 body fields: no proposer, a patch transaction, negative integers *)
  Definition b2 : block :=
    {| b_height := (-3)%Z; b_timestamp := (-9223372036854775808)%Z; b_proposer := None;
       b_prev := None; b_logs_bloom := [5]; b_result := None;
       b_patch := [[123]]; b_normal := []; b_next_validators_hash := Some [];
       b_votes := [192]; b_ns_filter := None; b_digest := None |}.

  Ltac closed :=
    repeat match goal with
    | |- _ /\ _ => split
    | |- True => exact I
    | |- Forall _ _ => constructor
    | |- exists _, _ => eexists
    | |- _ = _ => reflexivity
    | |- _ <= _ => vm_compute; discriminate
    | |- small _ => vm_compute; try exact I; discriminate
    end.

  Example b1_wf : wfb b1.
  Proof. unfold wfb, wf, sizes_ok, hfmt_ok, bfmt_ok, bss_ok. cbn. closed. Qed.
  Example b2_wf : wfb b2.
  Proof. unfold wfb, wf, sizes_ok, hfmt_ok, bfmt_ok, bss_ok. cbn. closed. Qed.

  Example b1_roundtrip : dec (enc b1 ++ [1; 2; 3]) = Some (b1, [1; 2; 3]).
  Proof. vm_compute. reflexivity. Qed.
  Example b2_roundtrip : dec (enc b2) = Some (b2, []).
  Proof. vm_compute. reflexivity. Qed.

  Example idem : parsers_idempotent tx_parse votes_parse bloom_norm.
  Proof.
    repeat split.
    - intros [|a r] c; cbn [tx_parse]; [discriminate|].
      destruct (a =? 123) eqn:E; [|discriminate]. intros Hq. inversion Hq; subst.
      cbn [tx_parse]. rewrite E. reflexivity.
    - intros [[|a r]|] c; cbn; try discriminate; intros Hq; inversion Hq; reflexivity.
  Qed.

  (* the body of b1 under the header of b1, with another transaction: rejected *)
  Definition b1_other_tx : bytes :=
    encode_header H list_root b1 ++
    encode_bfmt {| bf_patch := None; bf_normal := Some [Some [123; 1]; Some [123; 3]];
                   bf_votes := Some [192; 1; 1]; bf_digest := Some [9; 9] |}.
  Example swap_rejected : dec b1_other_tx = None.
  Proof. vm_compute. reflexivity. Qed.

  (* the collision disjunct of the no-swap theorem cannot be dropped: with this hash, votes
     [192;1;1] and [192;2;2] collide, and both bodies are accepted under one header *)
  Definition b1' : block :=
    {| b_height := 5; b_timestamp := 1000000; b_proposer := Some (0 :: repeat 7 20);
       b_prev := Some [1; 2; 3]; b_logs_bloom := []; b_result := Some (1 :: H [9; 9]);
       b_patch := []; b_normal := [[123; 1]; [123; 2]]; b_next_validators_hash := None;
       b_votes := [192; 2; 2]; b_ns_filter := Some [9]; b_digest := Some [9; 9] |}.
  Example colliding_bodies :
    encode_header H list_root b1 = encode_header H list_root b1' /\
    dec (enc b1) = Some (b1, []) /\ dec (enc b1') = Some (b1', []) /\ b1 <> b1' /\
    H (b_votes b1) = H (b_votes b1').
  Proof. repeat split; try (vm_compute; reflexivity). discriminate. Qed.
End Ex.
