(* Proofs_Authenticator.v - lemmas about Model_Authenticator. *)
From Goloop Require Import lib.Bytes Model_Authenticator.
Open Scope N_scope.

Definition wait_okb (p : peer) (sub : N) : bool :=
  match p_wait p with
  | None => true
  | Some (pi, processing) => negb processing && (pi =? sub)
  end.

Lemma check_wait_spec p sub :
  check_wait p sub = (wait_okb p sub,
                      if wait_okb p sub then
                        match p_wait p with None => p | Some (pi, _) => set_wait p (Some (pi, true)) end
                      else close p).
Proof.
  unfold check_wait, wait_okb. destruct (p_wait p) as [[pi pr]|]; [|reflexivity].
  destruct (negb pr && (pi =? sub)); reflexivity.
Qed.

Lemma check_wait_fields p sub ok p1 : check_wait p sub = (ok, p1) ->
  p_extra p1 = p_extra p /\ p_id p1 = p_id p /\ p_next p1 = p_next p /\
  (ok = true -> p_closed p1 = p_closed p) /\ (ok = false -> p_closed p1 = true).
Proof.
  rewrite check_wait_spec. intros [= <- <-].
  destruct (wait_okb p sub); [destruct (p_wait p) as [[? ?]|]|]; cbn; repeat split; auto; discriminate.
Qed.

Section SIG.
  Variable pubkey : Type.
  Variable H : bytes -> bytes.
  Variable parse_pub : bytes -> option pubkey.
  Variable ser_pub : pubkey -> bytes.
  Variable verify : pubkey -> bytes -> bytes -> bool.

  Notation peer_id := (peer_id pubkey H ser_pub).
  Notation verify_signature := (verify_signature pubkey H parse_pub ser_pub verify).
  Notation on_sigreq := (on_sigreq pubkey H parse_pub ser_pub verify).
  Notation on_sigresp := (on_sigresp pubkey H parse_pub ser_pub verify).

  Lemma identity_iff pub sig content id :
    verify_signature pub sig content = (Some id, false) <->
    exists k rs, parse_pub pub = Some k /\ parse_sig sig = Some rs /\
                 hash_ok (H content) = true /\ verify k (H content) rs = true /\ id = peer_id k.
  Proof.
    unfold verify_signature, Model_Authenticator.verify_signature. split.
    - destruct (parse_pub pub) as [k|]; [|discriminate].
      destruct (parse_sig sig) as [rs|]; [|discriminate].
      destruct (hash_ok (H content) && verify k (H content) rs) eqn:E; [|discriminate].
      intros [= <-]. apply andb_true_iff in E as [E1 E2]. exists k, rs. now repeat split.
    - intros (k & rs & -> & -> & E1 & E2 & ->). now rewrite E1, E2.
  Qed.

  (* an error never comes with "no error" and an id only comes from a key that parsed *)
  Lemma verify_signature_id pub sig content id e :
    verify_signature pub sig content = (Some id, e) -> exists k, parse_pub pub = Some k /\ id = peer_id k.
  Proof.
    unfold verify_signature, Model_Authenticator.verify_signature.
    destruct (parse_pub pub) as [k|]; [|discriminate].
    destruct (parse_sig sig) as [rs|]; [|discriminate].
    destruct (hash_ok (H content) && verify k (H content) rs); intros [= <- _]; eauto.
  Qed.

  Lemma verify_signature_ok_has_id pub sig content : snd (verify_signature pub sig content) = false ->
    exists id, verify_signature pub sig content = (Some id, false).
  Proof.
    unfold verify_signature, Model_Authenticator.verify_signature.
    destruct (parse_pub pub) as [k|]; [|discriminate].
    destruct (parse_sig sig) as [rs|]; [|discriminate].
    destruct (hash_ok (H content) && verify k (H content) rs); [eauto|discriminate].
  Qed.

  (* handleSignatureRequest: the peer is handed to the next handler exactly when ... *)
  Lemma server_accepts_iff self p m p' r :
    p_next p = false -> p_closed p = false -> on_sigreq self p m = (p', r) ->
    (p_next p' = true <->
       wait_okb p SUB_SIGREQ = true /\
       exists pub sig e id, m = Msg pub sig e /\
         verify_signature pub sig (p_extra p) = (Some id, false) /\ bytes_eqb id self = false) /\
    (p_next p' = true ->
       p_closed p' = false /\ r = Some true /\
       exists pub sig e id, m = Msg pub sig e /\ p_id p' = Some id /\
         verify_signature pub sig (p_extra p) = (Some id, false)) /\
    (p_next p' = false -> p_closed p' = true /\ r <> Some true).
  Proof.
    intros Hn Hc. unfold on_sigreq, Model_Authenticator.on_sigreq.
    destruct (check_wait p SUB_SIGREQ) as [ok p1] eqn:Ew.
    pose proof (check_wait_fields _ _ _ _ Ew) as (Hex & Hid & Hnx & Hok1 & Hok0).
    assert (Eok : ok = wait_okb p SUB_SIGREQ) by (rewrite check_wait_spec in Ew; now inversion Ew).
    destruct ok; cbn [negb].
    - destruct m as [|pub sig e].
      + intros [= <- <-]. cbn. rewrite Hnx, Hn.
        split; [split; [discriminate|intros (_ & ? & ? & ? & ? & ? & _); discriminate]|].
        split; [discriminate|]. intros _. split; [reflexivity|discriminate].
      + rewrite Hex. destruct (verify_signature pub sig (p_extra p)) as [id err] eqn:Ev.
        destruct err.
        * cbn [orb]. intros [= <- <-]. cbn. rewrite Hnx, Hn.
          split; [split; [discriminate|]|split; [discriminate|intros _; split; [reflexivity|discriminate]]].
          intros (_ & pub' & sig' & e' & id' & [= <- <- <-] & Ev' & _). rewrite Ev in Ev'. discriminate.
        * destruct (verify_signature_ok_has_id pub sig (p_extra p)) as (i & Ei); [now rewrite Ev|].
          rewrite Ev in Ei. inversion Ei; subst id. cbn [orb].
          destruct (bytes_eqb i self) eqn:Es.
          -- intros [= <- <-]. cbn. rewrite Hnx, Hn.
             split; [split; [discriminate|]|split; [discriminate|intros _; split; [reflexivity|discriminate]]].
             intros (_ & pub' & sig' & e' & id' & [= <- <- <-] & Ev' & Es'). rewrite Ev in Ev'.
             inversion Ev'; subst id'. congruence.
          -- intros [= <- <-]. cbn.
             split; [split; [intros _; split; [now rewrite <- Eok|]|reflexivity]|split; [|discriminate]].
             ++ exists pub, sig, e, i. now repeat split.
             ++ intros _. split; [rewrite Hok1 by reflexivity; exact Hc|]. split; [reflexivity|].
                exists pub, sig, e, i. now repeat split.
    - intros [= <- <-]. rewrite Hnx, Hn.
      split; [split; [discriminate|intros (Hw & _); congruence]|].
      split; [discriminate|]. intros _. split; [now apply Hok0|discriminate].
  Qed.

  (* handleSignatureResponse *)
  Lemma client_accepts_iff p m :
    p_next p = false -> p_closed p = false ->
    let p' := on_sigresp p m in
    (p_next p' = true <->
       wait_okb p SUB_SIGRESP = true /\
       exists pub sig id, m = Msg pub sig [] /\ verify_signature pub sig (p_extra p) = (Some id, false)) /\
    (p_next p' = true ->
       p_closed p' = false /\
       exists pub sig id, m = Msg pub sig [] /\ p_id p' = Some id /\
         verify_signature pub sig (p_extra p) = (Some id, false)) /\
    (p_next p' = false -> p_closed p' = true /\ p_id p' = p_id p).
  Proof.
    intros Hn Hc. cbn zeta. unfold on_sigresp, Model_Authenticator.on_sigresp.
    destruct (check_wait p SUB_SIGRESP) as [ok p1] eqn:Ew.
    pose proof (check_wait_fields _ _ _ _ Ew) as (Hex & Hid & Hnx & Hok1 & Hok0).
    assert (Eok : ok = wait_okb p SUB_SIGRESP) by (rewrite check_wait_spec in Ew; now inversion Ew).
    destruct ok; cbn [negb].
    - destruct m as [|pub sig e].
      + cbn. rewrite Hnx, Hn, Hid.
        split; [split; [discriminate|intros (_ & ? & ? & ? & ? & _); discriminate]|].
        split; [discriminate|]. intros _. now split.
      + destruct e as [|c e].
        * rewrite Hex. destruct (verify_signature pub sig (p_extra p)) as [id err] eqn:Ev.
          destruct err.
          -- cbn. rewrite Hnx, Hn, Hid.
             split; [split; [discriminate|]|split; [discriminate|intros _; now split]].
             intros (_ & pub' & sig' & id' & [= <- <-] & Ev'). rewrite Ev in Ev'. discriminate.
          -- destruct (verify_signature_ok_has_id pub sig (p_extra p)) as (i & Ei); [now rewrite Ev|].
             rewrite Ev in Ei. inversion Ei; subst id. cbn.
             split; [split; [intros _; split; [now rewrite <- Eok|]|reflexivity]|split; [|discriminate]].
             ++ exists pub, sig, i. now split.
             ++ intros _. split; [rewrite Hok1 by reflexivity; exact Hc|].
                exists pub, sig, i. now repeat split.
        * cbn. rewrite Hnx, Hn, Hid.
          split; [split; [discriminate|intros (_ & ? & ? & ? & ? & _); discriminate]|].
          split; [discriminate|]. intros _. now split.
    - rewrite Hnx, Hn, Hid.
      split; [split; [discriminate|intros (Hw & _); congruence]|].
      split; [discriminate|]. intros _. split; [now apply Hok0|reflexivity].
  Qed.

  (* ---------------- ideal signatures ---------------- *)
  Section IDEAL.
    Variable priv : Type.
    Variable pub_of : priv -> pubkey.
    Variable sign : priv -> bytes -> bytes.       (* R|S over a hash *)
    Hypothesis sig_ideal : forall sk h k h', verify k h' (sign sk h) = true <-> (k = pub_of sk /\ h' = h).

    (* a signature made over another session's secret *)
    Lemma cross_session_rejected sk e1 e2 pub sig id :
      parse_sig sig = Some (sign sk (H e1)) ->
      verify_signature pub sig e2 = (Some id, false) ->
      (e1 = e2 \/ (e1 <> e2 /\ H e1 = H e2)) /\ parse_pub pub = Some (pub_of sk) /\ id = peer_id (pub_of sk).
    Proof.
      intros Hs Hv. apply identity_iff in Hv as (k & rs & Hk & Hrs & _ & Hver & ->).
      rewrite Hs in Hrs. inversion Hrs; subst rs. apply sig_ideal in Hver as [-> Hh].
      split; [|now split].
      destruct (list_eq_dec N.eq_dec e1 e2) as [E|E]; [now left|right; now split].
    Qed.

    (* a signature made by another key than the presented one *)
    Lemma other_key_rejected sk h pub sig k e :
      parse_pub pub = Some k -> k <> pub_of sk -> parse_sig sig = Some (sign sk h) ->
      snd (verify_signature pub sig e) = true.
    Proof.
      intros Hk Hne Hs. unfold verify_signature, Model_Authenticator.verify_signature. rewrite Hk, Hs.
      destruct (verify k (H e) (sign sk h)) eqn:E.
      - apply sig_ideal in E as [-> _]. now elim Hne.
      - now rewrite andb_false_r.
    Qed.

    (* the honest peer is accepted under the address of its key *)
    Lemma honest_accepted sk pub sig e :
      parse_pub pub = Some (pub_of sk) -> parse_sig sig = Some (sign sk (H e)) -> hash_ok (H e) = true ->
      verify_signature pub sig e = (Some (peer_id (pub_of sk)), false).
    Proof.
      intros Hk Hs Hh. apply identity_iff. exists (pub_of sk), (sign sk (H e)).
      repeat split; auto. now apply sig_ideal.
    Qed.
  End IDEAL.
End SIG.

(* ------------------------------------------------------------------ *)
(* non-vacuity: a toy instance meeting sig_ideal, and concrete runs      *)
Definition tH (m : bytes) : bytes := firstn 32 (m ++ repeat 0 32).
Definition tparse (b : bytes) : option N := match b with [x] => Some x | _ => None end.
Definition tser (k : N) : bytes := [4; k; k + 1].
Definition tsign (sk : N) (h : bytes) : bytes := sk :: h ++ repeat 0 31.
Definition tverify (k : N) (h rs : bytes) : bool := bytes_eqb rs (tsign k h).

Example ex_toy_ideal : forall sk h k h',
  tverify k h' (tsign sk h) = true <-> (k = sk /\ h' = h).
Proof.
  intros sk h k h'. unfold tverify, tsign. rewrite bytes_eqb_eq. split.
  - intros E. inversion E as [[E1 E2]]. apply app_inv_tail in E2. now split.
  - intros [-> ->]. reflexivity.
Qed.
Example ex_toy_hash_len : forall m, hash_ok (tH m) = true.
Proof.
  intros m. unfold hash_ok, tH. rewrite firstn_length, app_length, repeat_length.
  replace (Nat.min 32 (length m + 32)) with 32%nat by lia. reflexivity.
Qed.

Definition ex_extra1 : bytes := [1; 2; 3].
Definition ex_extra2 : bytes := [1; 2; 4].
Definition ex_peer (e : bytes) : peer :=
  {| p_wait := Some (SUB_SIGREQ, false); p_extra := e; p_id := None; p_closed := false; p_next := false |}.
Definition ex_sig (sk : N) (e : bytes) : bytes := tsign sk (tH e) ++ [0].   (* 65 bytes R|S|V *)

(* key 7 signs session 1's secret: accepted in session 1 under the id of key 7 ... *)
Example ex_accept :
  on_sigreq N tH tparse tser tverify [9] (ex_peer ex_extra1) (Msg [7] (ex_sig 7 ex_extra1) []) =
  ({| p_wait := None; p_extra := ex_extra1; p_id := Some (peer_id N tH tser 7); p_closed := false; p_next := true |},
   Some true).
Proof. vm_compute. reflexivity. Qed.
(* ... replayed into session 2: refused, the peer is closed *)
Example ex_replay :
  let '(p', r) := on_sigreq N tH tparse tser tverify [9] (ex_peer ex_extra2) (Msg [7] (ex_sig 7 ex_extra1) []) in
  (p_next p', p_closed p', r) = (false, true, Some false).
Proof. vm_compute. reflexivity. Qed.
(* ... presented with another key: refused *)
Example ex_other_key :
  let '(p', r) := on_sigreq N tH tparse tser tverify [9] (ex_peer ex_extra1) (Msg [8] (ex_sig 7 ex_extra1) []) in
  (p_next p', p_closed p', r) = (false, true, Some false).
Proof. vm_compute. reflexivity. Qed.
(* malformed signature length *)
Example ex_bad_len :
  let '(p', r) := on_sigreq N tH tparse tser tverify [9] (ex_peer ex_extra1) (Msg [7] (firstn 63 (ex_sig 7 ex_extra1)) []) in
  (p_next p', p_closed p', p_id p', r) = (false, true, None, Some false).
Proof. vm_compute. reflexivity. Qed.

(* ------------------------------------------------------------------ *)
(* session secrets are unique to a session BECAUSE the accepting side's
   ephemeral key is fresh per session                                    *)
Section SESSIONS.
  Variable eph : Type.
  Variable peerpub : Type.
  Variable xs : eph -> peerpub -> bytes.
  (* ideal key agreement + KDF: different key pairs give different secrets *)
  Hypothesis xs_inj : forall s c s' c', xs s c = xs s' c' -> s = s' /\ c = c'.

  Lemma fresh_keys_distinct_secrets (l : list (eph * peerpub)) :
    NoDup (map fst l) -> NoDup (session_secrets eph peerpub xs l).
  Proof.
    induction l as [|[s c] r IH]; cbn; intros H; [constructor|].
    inversion H as [|? ? Hn Hr]; subst. constructor; [|now apply IH].
    intros Hin. apply in_map_iff in Hin as ([s' c'] & E & Hin). cbn in E.
    apply xs_inj in E as [-> _]. apply Hn. apply in_map_iff. now exists (s, c').
  Qed.

  Lemma fresh_keys_secrets_differ (l : list (eph * peerpub)) i j e1 e2 :
    NoDup (map fst l) -> i <> j ->
    nth_error (session_secrets eph peerpub xs l) i = Some e1 ->
    nth_error (session_secrets eph peerpub xs l) j = Some e2 -> e1 <> e2.
  Proof.
    intros Hn Hij H1 H2 E. subst e2.
    apply fresh_keys_distinct_secrets in Hn.
    apply Hij. eapply NoDup_nth_error; eauto.
    - apply nth_error_Some. congruence.
    - congruence.
  Qed.
End SESSIONS.

(* a signature recorded in session i and replayed into session j of the same
   accepting end (whatever handshake key the dialling side supplies) *)
Lemma replay_across_sessions_rejected
  (pubkey : Type) (H : bytes -> bytes) (parse_pub : bytes -> option pubkey)
  (ser_pub : pubkey -> bytes) (verify : pubkey -> bytes -> bytes -> bool)
  (priv : Type) (pub_of : priv -> pubkey) (sign : priv -> bytes -> bytes)
  (eph peerpub : Type) (xs : eph -> peerpub -> bytes) :
  (forall sk h k h', verify k h' (sign sk h) = true <-> (k = pub_of sk /\ h' = h)) ->
  (forall s c s' c', xs s c = xs s' c' -> s = s' /\ c = c') ->
  forall (l : list (eph * peerpub)) (i j : nat) (e1 e2 : bytes) (sk : priv) (pub sig id : bytes),
  NoDup (map fst l) -> i <> j ->
  nth_error (session_secrets eph peerpub xs l) i = Some e1 ->
  nth_error (session_secrets eph peerpub xs l) j = Some e2 ->
  parse_sig sig = Some (sign sk (H e1)) ->
  verify_signature pubkey H parse_pub ser_pub verify pub sig e2 = (Some id, false) ->
  e1 <> e2 /\ H e1 = H e2.
Proof.
  intros Hideal Hinj l i j e1 e2 sk pub sig id Hn Hij H1 H2 Hs Hv.
  pose proof (fresh_keys_secrets_differ eph peerpub xs Hinj l i j e1 e2 Hn Hij H1 H2) as Hne.
  destruct (cross_session_rejected pubkey H parse_pub ser_pub verify priv pub_of sign Hideal
              sk e1 e2 pub sig id Hs Hv) as ([E|[_ E]] & _); [now elim Hne|now split].
Qed.

(* refutation of the variant in which the accepting end keeps one handshake key
   for several sessions: the dialling side then chooses the secret, two
   sessions share it, and the signature recorded in the first is accepted in
   the second under the victim's identity *)
Definition ex_xs (s c : N) : bytes := [s; c].
Example ex_xs_inj : forall s c s' c', ex_xs s c = ex_xs s' c' -> s = s' /\ c = c'.
Proof. intros s c s' c' E. inversion E. now split. Qed.

Lemma shared_server_key_refuted :
  let l := [(5, 11); (5, 11)] in             (* the same accepting-side key 5; the attacker supplies 11 again *)
  ~ NoDup (map fst l) /\
  exists e, nth_error (session_secrets N N ex_xs l) 0 = Some e /\
            nth_error (session_secrets N N ex_xs l) 1 = Some e /\
            let '(p', r) := on_sigreq N tH tparse tser tverify [9] (ex_peer e) (Msg [7] (ex_sig 7 e) []) in
            (p_next p', p_closed p', p_id p', r) = (true, false, Some (peer_id N tH tser 7), Some true).
Proof.
  split.
  - cbn. intros H. inversion H as [|? ? Hn _]. apply Hn. now left.
  - exists [5; 11]. repeat split.
Qed.
