(* Proofs_K_hasOverTwoThirds.v -- consensus voteSet.hasOverTwoThirds: more than 2/3 of the slots
   Split out of Proofs_Kernels.v: this file imports ONLY the generated kernel(s)
   gen/K_hasOverTwoThirds.v, so an edit of another kernel's Go source cannot break it.
   Style: stdlib only; arithmetic closed by lia with the euclidean-division hook. *)
From Coq Require Import ZArith Bool String List Lia.
From Coq Require Import ZifyBool.
From Goloop Require Import lib.GoInt Proofs_K_tactics.
From Goloop.gen Require Import K_hasOverTwoThirds.
Import ListNotations.
Local Open Scope Z_scope.

Ltac Zify.zify_post_hook ::= Z.to_euclidean_division_equations.

Lemma hasOverTwoThirds_spec count n :
  0 <= n <= half_i64 ->
  hasOverTwoThirds count n = true <-> 3 * count > 2 * n.
Proof. unfold hasOverTwoThirds. kernel_lia. Qed.

Lemma hasOverTwoThirds_params_ok : hasOverTwoThirds_params = ["vs.count"; "len(vs.msgs)"]%string.
Proof. reflexivity. Qed.

(* two sets both over two thirds of n intersect: the quorum-intersection arithmetic *)
Lemma over_two_thirds_intersect a b n :
  0 <= n <= half_i64 -> a <= n -> b <= n ->
  hasOverTwoThirds a n = true -> hasOverTwoThirds b n = true -> 3 * (a + b - n) > n.
Proof. intros Hn Ha Hb. rewrite !hasOverTwoThirds_spec by lia. lia. Qed.
