(* Proofs_SecureChan.v - lemmas about Model_SecureChan (network/secure.go). *)
From Goloop Require Import lib.Bytes Model_SecureChan.
From Coq Require Import ZifyBool ZifyN ZifyNat.
Ltac Zify.zify_post_hook ::= Z.div_mod_to_equations.
Open Scope N_scope.

Definition prefix (a b : bytes) : Prop := exists r, b = a ++ r.

Lemma prefix_refl a : prefix a a.
Proof. exists []. now rewrite app_nil_r. Qed.
Lemma prefix_nil a : prefix [] a.
Proof. now exists a. Qed.
Lemma prefix_app_l a b c : prefix b c -> prefix (a ++ b) (a ++ c).
Proof. intros [r ->]. exists r. now rewrite app_assoc. Qed.
Lemma prefix_trans a b c : prefix a b -> prefix b c -> prefix a c.
Proof. intros [r ->] [s ->]. exists (r ++ s). now rewrite app_assoc. Qed.
Lemma prefix_app_r a b : prefix a (a ++ b).
Proof. now exists b. Qed.

(* ------------------------------------------------------------------ *)
(* frames of a Write                                                    *)
Definition okp (p : bytes) : Prop := (1 <= length p <= frame_size)%nat.

Lemma frame_size_pos : (1 <= frame_size)%nat.
Proof. unfold frame_size. lia. Qed.
Lemma frame_size_small : N.of_nat frame_size < 65536.
Proof. unfold frame_size. lia. Qed.

Lemma chunks_spec : forall fuel b, (length b <= fuel)%nat ->
  concat (chunks fuel b) = b /\ Forall okp (chunks fuel b).
Proof.
  induction fuel as [|f IH]; intros b Hl.
  - destruct b; [|cbn in Hl; lia]. cbn. split; constructor.
  - destruct b as [|x b'] eqn:Eb.
    + cbn. split; constructor.
    + rewrite <- Eb in *. assert (Hne : (1 <= length b)%nat) by (subst b; cbn; lia).
      assert (Hs : (length (skipn frame_size b) <= f)%nat).
      { rewrite skipn_length. pose proof frame_size_pos. lia. }
      destruct (IH _ Hs) as [Hc Hf].
      assert (E : chunks (S f) b = firstn frame_size b :: chunks f (skipn frame_size b)).
      { subst b. reflexivity. }
      rewrite E. split.
      * cbn [concat]. rewrite Hc. apply firstn_skipn.
      * constructor; [|exact Hf]. unfold okp. rewrite firstn_length.
        pose proof frame_size_pos. lia.
Qed.

Lemma split_frames_concat b : concat (split_frames b) = b.
Proof. apply (chunks_spec (length b) b). lia. Qed.
Lemma split_frames_ok b : Forall okp (split_frames b).
Proof. apply (chunks_spec (length b) b). lia. Qed.

(* ------------------------------------------------------------------ *)
(* nonce counters                                                       *)
Lemma iter_inc_S k n : iter_inc (S k) n = iter_inc k (inc_nonce n).
Proof. reflexivity. Qed.
Lemma iter_inc_add a b n : iter_inc (a + b) n = iter_inc b (iter_inc a n).
Proof. revert n; induction a; intros; cbn; auto. Qed.
Lemma iter_inc_S' k n : iter_inc (S k) n = inc_nonce (iter_inc k n).
Proof. replace (S k) with (k + 1)%nat by lia. now rewrite iter_inc_add. Qed.

Lemma take_rest (size : nat) (l : bytes) : firstn size l ++ skipn (length (firstn size l)) l = l.
Proof.
  rewrite firstn_length. destruct (Nat.le_ge_cases size (length l)).
  - rewrite Nat.min_l by lia. apply firstn_skipn.
  - rewrite Nat.min_r by lia. rewrite firstn_all2, skipn_all by lia. apply app_nil_r.
Qed.
Lemma take_nonempty (size : nat) (l : bytes) : (0 < size)%nat -> l <> [] -> firstn size l <> [].
Proof. destruct size; [lia|]. destruct l; [congruence|]. cbn. congruence. Qed.

Section AEAD.
  Variable seal : bytes -> bytes -> bytes -> bytes.
  Variable open : bytes -> bytes -> bytes -> option bytes.
  Variable overhead : nat.

  Notation seal_frames := (seal_frames seal).
  Notation write := (write seal).
  Notation parse_frame := (parse_frame overhead).
  Notation read := (read open overhead).
  Notation read_all := (read_all open overhead).
  Notation read_all_stop := (read_all_stop open overhead).
  Notation step := (step seal open overhead).
  Notation run := (run seal open overhead).

  Hypothesis seal_len : forall k n p, length (seal k n p) = (length p + overhead)%nat.

  Definition enc_frames (key nonce : bytes) (ps : list bytes) : bytes :=
    concat (fst (seal_frames key nonce ps)).

  Lemma seal_frames_cons key n p r :
    seal_frames key n (p :: r) =
    ((hdr (length p) ++ seal key n p) :: fst (seal_frames key (inc_nonce n) r),
     snd (seal_frames key (inc_nonce n) r)).
  Proof. cbn. now destruct (seal_frames key (inc_nonce n) r). Qed.

  Lemma seal_frames_snd key : forall ps n, snd (seal_frames key n ps) = iter_inc (length ps) n.
  Proof.
    induction ps as [|p r IH]; intros n; [reflexivity|].
    rewrite seal_frames_cons. cbn [snd length iter_inc]. apply IH.
  Qed.

  Lemma seal_frames_app key : forall ps qs n,
    fst (seal_frames key n (ps ++ qs)) =
    fst (seal_frames key n ps) ++ fst (seal_frames key (iter_inc (length ps) n) qs).
  Proof.
    induction ps as [|p r IH]; intros qs n; [reflexivity|].
    rewrite <- app_comm_cons, !seal_frames_cons. cbn [fst length iter_inc app].
    now rewrite IH.
  Qed.

  Lemma enc_frames_nil key n : enc_frames key n [] = [].
  Proof. reflexivity. Qed.
  Lemma enc_frames_cons key n p r :
    enc_frames key n (p :: r) = hdr (length p) ++ seal key n p ++ enc_frames key (inc_nonce n) r.
  Proof. unfold enc_frames. rewrite seal_frames_cons. cbn [fst concat]. now rewrite app_assoc. Qed.
  Lemma enc_frames_app key n ps qs :
    enc_frames key n (ps ++ qs) = enc_frames key n ps ++ enc_frames key (iter_inc (length ps) n) qs.
  Proof. unfold enc_frames. now rewrite seal_frames_app, concat_app. Qed.

  (* ---------------- parsing one honest frame ---------------- *)
  Lemma hdr_val len : N.of_nat len < 65536 ->
    exists a b, hdr len = [a; b; 0; 0] /\ a * 256 + b = N.of_nat len.
  Proof.
    intros H. unfold hdr. rewrite N.mod_small by exact H.
    eexists _, _. split; [reflexivity|]. lia.
  Qed.

  Lemma parse_frame_frame (p s rest : bytes) :
    N.of_nat (length p) < 65536 -> length s = (length p + overhead)%nat ->
    parse_frame (hdr (length p) ++ s ++ rest) = PFrame (N.of_nat (length p)) s rest.
  Proof.
    intros Hp Hs. destruct (hdr_val _ Hp) as (a & b & -> & Hab).
    cbn [app parse_frame Model_SecureChan.parse_frame]. rewrite Hab, Nat2N.id.
    rewrite app_length.
    destruct (Nat.ltb_spec (length s + length rest) (length p + overhead)); [lia|].
    rewrite <- Hs. f_equal.
    - rewrite firstn_app, Nat.sub_diag, firstn_all. cbn. now rewrite app_nil_r.
    - rewrite skipn_app, Nat.sub_diag, skipn_all. reflexivity.
  Qed.

  Lemma okp_small (p : bytes) : okp p -> N.of_nat (length p) < 65536.
  Proof. unfold okp. pose proof frame_size_small. lia. Qed.

  (* ---------------- the honest channel ---------------- *)
  Section HONEST.
    Hypothesis open_seal : forall k n p, open k n (seal k n p) = Some p.

    Definition res_ok (closed : bool) (size : nat) (res : rres) : Prop :=
      r_n res = N.of_nat (length (r_data res)) /\ (length (r_data res) <= size)%nat /\
      (r_err res = None \/
       (r_data res = [] /\ r_err res = Some (if closed then EEof else EBlock))).

    Lemma read_honest key st ps closed size : Forall okp ps ->
      forall res st' w', read key st (enc_frames key (rs_nonce st) ps) closed size = (res, st', w') ->
      exists ps', w' = enc_frames key (rs_nonce st') ps' /\ Forall okp ps' /\
        rs_pending st ++ concat ps = r_data res ++ rs_pending st' ++ concat ps' /\
        iter_inc (length ps') (rs_nonce st') = iter_inc (length ps) (rs_nonce st) /\
        res_ok closed size res /\
        (r_err res <> None -> rs_pending st = [] /\ ps = []) /\
        ((0 < size)%nat -> rs_pending st ++ concat ps <> [] -> r_data res <> []).
    Proof.
      intros Hok res st' w'. unfold read, Model_SecureChan.read, read_v.
      destruct (rs_pending st) as [|x pend] eqn:Ep.
      - destruct ps as [|p r].
        + rewrite enc_frames_nil. cbn. intros E; inversion E; subst; clear E.
          exists []. cbn [r_data r_n r_err mk_res concat length app iter_inc]. rewrite Ep.
          split; [reflexivity|]. split; [constructor|]. split; [reflexivity|]. split; [reflexivity|].
          split; [|split].
          * unfold res_ok. cbn. split; [reflexivity|]. split; [lia|]. right. now split.
          * intros _. now split.
          * intros _ H. now elim H.
        + rewrite enc_frames_cons. inversion Hok as [|? ? Hp Hr]; subst.
          rewrite (parse_frame_frame p (seal key (rs_nonce st) p)) by (auto using okp_small).
          rewrite open_seal. intros E; inversion E; subst; clear E.
          cbn [rs_nonce rs_pending r_data r_n r_err mk_res].
          exists r. split; [reflexivity|]. split; [exact Hr|]. split; [|split; [|split; [|split]]].
          * cbn [concat app]. rewrite !app_assoc. f_equal. apply (eq_sym (take_rest size p)).
          * reflexivity.
          * unfold res_ok. cbn [r_data r_n r_err]. split; [reflexivity|]. split; [apply firstn_le_length|]. now left.
          * cbn. intros H. now elim H.
          * intros Hs _. apply take_nonempty; [exact Hs|]. unfold okp in Hp. destruct p; cbn in Hp; [lia|congruence].
      - intros E; inversion E; subst; clear E. cbn [rs_nonce rs_pending r_data r_n r_err mk_res].
        exists ps. split; [reflexivity|]. split; [exact Hok|]. split; [|split; [|split; [|split]]].
        + rewrite !app_assoc. f_equal. apply (eq_sym (take_rest size _)).
        + reflexivity.
        + unfold res_ok. cbn [r_data r_n r_err]. split; [reflexivity|]. split; [apply firstn_le_length|]. now left.
        + cbn. intros H. now elim H.
        + intros Hs _. apply take_nonempty; [exact Hs|congruence].
    Qed.

    Lemma read_all_cons key st w closed s r :
      read_all key st w closed (s :: r) =
      let '(res, st', w') := read key st w closed s in res :: read_all key st' w' closed r.
    Proof. reflexivity. Qed.

    Definition count_pos (sizes : list nat) : nat := length (filter (fun s => (0 <? s)%nat) sizes).

    Lemma read_all_honest key closed : forall sizes st ps, Forall okp ps ->
      let rs := read_all key st (enc_frames key (rs_nonce st) ps) closed sizes in
      Forall2 (res_ok closed) sizes rs /\
      prefix (delivered rs) (rs_pending st ++ concat ps) /\
      ((length (rs_pending st ++ concat ps) <= count_pos sizes)%nat ->
       delivered rs = rs_pending st ++ concat ps).
    Proof.
      induction sizes as [|s r IH]; intros st ps Hok.
      - cbn. split; [constructor|]. split; [apply prefix_nil|].
        intros H. destruct (rs_pending st ++ concat ps); [reflexivity|cbn in H; lia].
      - cbn zeta. rewrite read_all_cons.
        destruct (read key st (enc_frames key (rs_nonce st) ps) closed s) as [[res st'] w'] eqn:E.
        destruct (read_honest key st ps closed s Hok _ _ _ E) as (ps' & -> & Hok' & Hav & _ & Hres & _ & Hprog).
        specialize (IH st' ps' Hok'). cbn zeta in IH. destruct IH as (IH1 & IH2 & IH3).
        unfold delivered in *. cbn [map concat].
        split; [constructor; assumption|]. split.
        + rewrite Hav. apply prefix_app_l. exact IH2.
        + intros Hlen. rewrite Hav. f_equal. apply IH3.
          rewrite Hav in Hlen. rewrite app_length in Hlen. unfold count_pos in *. cbn [filter] in Hlen.
          destruct (Nat.ltb_spec 0 s) as [Hs|Hs].
          * cbn [length] in Hlen.
            destruct (rs_pending st ++ concat ps) as [|y l] eqn:Eav.
            -- symmetry in Hav. apply app_eq_nil in Hav. destruct Hav as [_ ->]. cbn. lia.
            -- assert (r_data res <> []) by (apply Hprog; [exact Hs|congruence]).
               destruct (r_data res); [congruence|]. cbn [length] in Hlen. lia.
          * destruct Hres as (_ & Hle & _). lia.
    Qed.

    Lemma write_all_enc key : forall ws n,
      fst (write_all seal key n ws) = enc_frames key n (concat (map split_frames ws)) /\
      snd (write_all seal key n ws) = iter_inc (length (concat (map split_frames ws))) n.
    Proof.
      induction ws as [|b r IH]; intros n; [split; reflexivity|].
      cbn [write_all map concat]. unfold write, Model_SecureChan.write.
      destruct (seal_frames key n (split_frames b)) as [fs n1] eqn:E1.
      specialize (IH n1). destruct (write_all seal key n1 r) as [w n2]. cbn [fst snd] in *.
      destruct IH as [-> ->].
      assert (En1 : n1 = iter_inc (length (split_frames b)) n).
      { rewrite <- seal_frames_snd with (key := key). now rewrite E1. }
      rewrite enc_frames_app, app_length, iter_inc_add, <- En1. split; [|reflexivity].
      f_equal. unfold enc_frames. now rewrite E1.
    Qed.

    Lemma concat_split_all (ws : list bytes) : concat (concat (map split_frames ws)) = concat ws.
    Proof.
      induction ws as [|b r IH]; [reflexivity|]. cbn [map concat].
      now rewrite concat_app, split_frames_concat, IH.
    Qed.
    Lemma split_all_ok (ws : list bytes) : Forall okp (concat (map split_frames ws)).
    Proof.
      induction ws as [|b r IH]; [constructor|]. cbn [map concat].
      apply Forall_app. split; [apply split_frames_ok|exact IH].
    Qed.

    (* sequential form: all writes, then all reads *)
    Lemma stream_faithful key n0 (writes : list bytes) closed (sizes : list nat) :
      let wire := fst (write_all seal key n0 writes) in
      let rs := read_all key {| rs_nonce := n0; rs_pending := [] |} wire closed sizes in
      Forall2 (res_ok closed) sizes rs /\
      prefix (delivered rs) (concat writes) /\
      ((length (concat writes) <= count_pos sizes)%nat -> delivered rs = concat writes).
    Proof.
      cbn zeta. rewrite (proj1 (write_all_enc key writes n0)).
      pose proof (read_all_honest key closed sizes {| rs_nonce := n0; rs_pending := [] |}
                    (concat (map split_frames writes)) (split_all_ok writes)) as H.
      cbn [rs_nonce rs_pending app] in H. rewrite concat_split_all in H. exact H.
    Qed.

    (* a Read with an empty buffer returns nothing and loses nothing *)
    Lemma read_zero key st ps closed : Forall okp ps ->
      forall res st' w', read key st (enc_frames key (rs_nonce st) ps) closed 0 = (res, st', w') ->
      r_data res = [] /\ r_n res = 0 /\
      exists ps', w' = enc_frames key (rs_nonce st') ps' /\ Forall okp ps' /\
                  rs_pending st' ++ concat ps' = rs_pending st ++ concat ps.
    Proof.
      intros Hok res st' w' E.
      destruct (read_honest key st ps closed 0 Hok _ _ _ E) as (ps' & Hw & Hok' & Hav & _ & (Hn & Hle & _) & _).
      assert (Hd : r_data res = []) by (destruct (r_data res); [reflexivity|cbn in Hle; lia]).
      rewrite Hd in *. cbn in Hav, Hn. split; [reflexivity|]. split; [exact Hn|].
      exists ps'. now repeat split.
    Qed.

    (* interleaved form *)
    Definition inv (c : chan) (W D : bytes) : Prop :=
      exists ps, Forall okp ps /\
        c_wire c = enc_frames (c_key c) (rs_nonce (c_rst c)) ps /\
        c_wnonce c = iter_inc (length ps) (rs_nonce (c_rst c)) /\
        D ++ rs_pending (c_rst c) ++ concat ps = W.

    Definition out_ok (o : op) (x : out) : Prop :=
      match o, x with
      | OWrite b, OutW n => n = length b
      | OWrite _, OutWClosed => True
      | ORead size, OutR r => exists closed, res_ok closed size r
      | OClose, OutC => True
      | _, _ => False
      end.

    Lemma step_honest c o W D : inv c W D ->
      forall c' x, step c o = (c', x) ->
      inv c' (W ++ op_written (c_closed c) o) (D ++ out_data x) /\ out_ok o x /\
      c_closed c' = (match o with OClose => true | _ => c_closed c end).
    Proof.
      intros (ps & Hok & Hw & Hn & HW) c' x. destruct o as [b|size|]; cbn [step Model_SecureChan.step].
      - destruct (c_closed c) eqn:Ec.
        + intros E; inversion E; subst; clear E. cbn. rewrite !app_nil_r. split; [|split; [exact I|exact Ec]].
          exists ps. now repeat split.
        + unfold write, Model_SecureChan.write.
          destruct (seal_frames (c_key c) (c_wnonce c) (split_frames b)) as [fs n'] eqn:E1.
          intros E; inversion E; subst; clear E. cbn [out_data op_written]. rewrite app_nil_r.
          split; [|split; [reflexivity|reflexivity]].
          exists (ps ++ split_frames b). cbn [c_wire c_key c_rst c_wnonce].
          split; [apply Forall_app; split; [exact Hok|apply split_frames_ok]|].
          split; [|split].
          * rewrite Hw, enc_frames_app, <- Hn. f_equal. unfold enc_frames. now rewrite E1.
          * rewrite app_length, iter_inc_add, <- Hn.
            rewrite <- seal_frames_snd with (key := c_key c). now rewrite E1.
          * rewrite concat_app, split_frames_concat. now rewrite <- !app_assoc.
      - destruct (read (c_key c) (c_rst c) (c_wire c) (c_closed c) size) as [[res st'] w'] eqn:E1.
        intros E; inversion E; subst; clear E. cbn [out_data op_written c_closed]. rewrite app_nil_r.
        rewrite Hw in E1.
        destruct (read_honest _ _ _ _ _ Hok _ _ _ E1) as (ps' & Hw' & Hok' & Hav & Hit & Hres & _).
        split; [|split; [exists (c_closed c); exact Hres|reflexivity]].
        exists ps'. cbn [c_wire c_key c_rst c_wnonce]. split; [exact Hok'|]. split; [exact Hw'|].
        split; [now rewrite Hit|]. rewrite <- app_assoc, <- Hav. reflexivity.
      - intros E; inversion E; subst; clear E. cbn. rewrite !app_nil_r. split; [|split; [exact I|reflexivity]].
        exists ps. now repeat split.
    Qed.

    Lemma run_honest : forall ops c W D, inv c W D ->
      forall outs c', run c ops = (outs, c') ->
      inv c' (W ++ written (c_closed c) ops) (D ++ concat (map out_data outs)) /\ Forall2 out_ok ops outs.
    Proof.
      induction ops as [|o r IH]; intros c W D Hinv outs c'.
      - cbn. intros E; inversion E; subst. cbn. rewrite !app_nil_r. split; [exact Hinv|constructor].
      - cbn [run Model_SecureChan.run].
        destruct (step c o) as [c1 x] eqn:E1. destruct (run c1 r) as [xs c2] eqn:E2.
        intros E; inversion E; subst; clear E.
        destruct (step_honest c o W D Hinv _ _ E1) as (Hinv1 & Hout & Hcl).
        destruct (IH _ _ _ Hinv1 _ _ E2) as (Hinv2 & Hall).
        split; [|constructor; assumption].
        cbn [map concat]. rewrite Hcl in Hinv2.
        replace (W ++ written (c_closed c) (o :: r)) with
          ((W ++ op_written (c_closed c) o) ++ written (match o with OClose => true | _ => c_closed c end) r).
        + now rewrite <- !app_assoc in *.
        + rewrite <- app_assoc. f_equal. destruct o; cbn; auto.
    Qed.

    Lemma stream_faithful_interleaved key n0 ops :
      forall outs c', run (chan_init key n0) ops = (outs, c') ->
      prefix (concat (map out_data outs)) (written false ops) /\ Forall2 out_ok ops outs.
    Proof.
      intros outs c' E.
      assert (Hinv : inv (chan_init key n0) [] []).
      { exists []. cbn. repeat split; constructor. }
      destruct (run_honest ops _ _ _ Hinv _ _ E) as ((ps & _ & _ & _ & HW) & Hall).
      split; [|exact Hall]. cbn in HW. rewrite <- HW. apply prefix_app_r.
    Qed.
  End HONEST.
End AEAD.
